(** Extraction of the executable models.  Only ExtrOcamlBasic is used: bool, option,
    unit, list, prod, sumbool, sumor map to OCaml's; Z, N, positive, nat stay inductive. *)
From Coq Require Extraction.
From Coq Require Import ExtrOcamlBasic.
From RRE Require Import Base.Sx Model.Registry.
Extraction "model_gen.ml" Registry.run_by_id Registry.ok_by_id.
