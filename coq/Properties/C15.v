(** C15 — Knowledge base lookups, order and version stay consistent.
    Statements only; proofs in Proofs/KBProofs.v. *)
From RRE Require Import Base.Sx Model.KB Model.KBConc Proofs.KBProofs Proofs.KBRefineProofs Proofs.KBLinProofs Proofs.KBConcLockProofs Proofs.KBConcProofs Proofs.KBConcProgressProofs.
From Coq Require Import Permutation.
From Coq Require Import Sorting.Sorted.
Open Scope Z_scope.

(** a duplicate name is rejected without effect (rules, index and version unchanged) *)
Theorem C15_duplicate_rejected : forall k n sal tag p,
  idx_get (index k) n = Some p -> step k (Add n sal tag) = (k, RBool false).
Proof. exact add_duplicate_noop. Qed.
Print Assumptions C15_duplicate_rejected.

Theorem C15_refused_noop : forall k o, snd (step k o) = RBool false -> fst (step k o) = k.
Proof. exact refused_noop. Qed.
Print Assumptions C15_refused_noop.

(** the version number grows with every successful change and never decreases *)
Theorem C15_version_grows : forall k o,
  snd (step k o) = RBool true \/ o = Clear -> version (fst (step k o)) = version k + 1.
Proof. exact version_grows_on_success. Qed.
Print Assumptions C15_version_grows.

Theorem C15_version_monotone : forall k o, version k <= version (fst (step k o)).
Proof. exact version_monotone. Qed.
Print Assumptions C15_version_monotone.

(** after any sequence of add/remove/enable/disable/clear the listing is in descending salience *)
Theorem C15_listing_descending : forall ops, StronglySorted desc (rules (exec init ops)).
Proof. exact listing_sorted. Qed.
Print Assumptions C15_listing_descending.

(** lock discipline as read from the current source by tools/consts.py: one global acquisition
    order (rules < rule_index < version), `rules` first in every method *)
Theorem C15_lock_order : lock_order_ok = true.
Proof. exact lock_order_holds. Qed.
Print Assumptions C15_lock_order.

(** the two vector operations the model mirrors are the ones the current source uses (read by tools/consts.py on every run):
    add_rule pushes and re-sorts with the stable sort_by_key(Reverse(salience)) and rebuilds the index from scratch
    ([stable_sort] / [rebuild]); remove_rule is Vec::remove(position) followed by the same rebuild ([remove_nth]) *)
From RRE Require Import Generated.Consts.
Theorem C15_source_vector_operations : kb_add_is_push_then_stable_sort && kb_remove_is_vec_remove = true.
Proof. reflexivity. Qed.
Print Assumptions C15_source_vector_operations.

(** THE SEQUENTIAL REFINEMENT, for every operation sequence of any length over any names and saliences: after every
    operation the model of knowledge_base.rs (sorted vector + name index rebuilt on every change) shows exactly what the
    abstract specification shows - the operation's result, the listing, the lookup of every name, the version.
    The specification ([sstep], Model/KB.v) is the property's own text: a bag of rules with unique names, a duplicate add
    refused without effect, lookup by name, version + 1 on every successful change, and the listing sorted by salience
    descending and insertion sequence ascending. *)
Theorem C15_sequential_refinement : forall ops, run_from init ops = srun_from sinit ops.
Proof. exact kb_refines_spec. Qed.
Print Assumptions C15_sequential_refinement.

(** ... and that listing is every stored rule exactly once, strictly ordered by (salience descending, insertion order). *)
Theorem C15_spec_listing : forall s, NoDup (map s_seq (srules s)) ->
  Permutation.Permutation (slisting s) (map s_rule (srules s))
  /\ StronglySorted (fun a b => before a b = true) (fold_left (fun acc x => sinsert x acc) (srules s) []).
Proof. exact spec_listing_sorted. Qed.
Print Assumptions C15_spec_listing.

(** The checker applied to concurrent histories of the real KnowledgeBase decides linearizability (Proofs/KBLinProofs.v): with
    enough fuel (the monitor passes one more than the number of events) [lin] answers true exactly when the observed events
    (operation, observed result, invocation and response instants) can be arranged in a sequence that is a permutation of
    them, respects real time (nothing is placed after an event that it responded before), and in which the sequential
    specification - the one C15_sequential_refinement ties to the model - returns every event's observed result.
    So a run accepted by the monitor IS linearizable, and a linearizable run is never reported (no false alarm). *)
Theorem C15_lin_checker_decides : forall fuel k p, (length p <= fuel)%nat ->
  (lin fuel k p = true <->
   exists s, Permutation s p /\ rt s = true /\ replay k s = true).
Proof. intros fuel k p H. split; [apply lin_sound|apply lin_complete; exact H]. Qed.
Print Assumptions C15_lin_checker_decides.

(** SEVERAL THREADS AT ONCE, as a theorem on the lock-level model (Model/KBConc.v): threads execute the methods as sequences
    of micro-steps - invoke, acquire each guard of the method's acquisition list in program order (blocking on a conflicting
    holder), compute the sequential body on the cells as they are, write the changed cells back ONE CELL PER STEP, drop the
    guards one per step in reverse order, respond - and a schedule picks the next thread for every micro-step.  The
    acquisition lists [src_locks] are the ones tools/consts.py reads from the current source (Generated/Consts.v
    kb_lock_modes; the translator also refuses a method that takes a guard late, drops one early or touches a cell without
    one).  The table is admissible: every list strictly ascending in the one global order, every cell a body reads locked,
    every cell it may change write-locked. *)
Theorem C15_source_lock_table_admissible : forall o,
  ascending_from 0 (src_locks o) = true /\ covers (src_locks o) o = true.
Proof. exact src_table_ok. Qed.
Print Assumptions C15_source_lock_table_admissible.

(** For EVERY family of programs and EVERY schedule: whenever no operation is in flight, the completed operations - with the
    results the threads really computed from the shared cells, half-written by others or not - are a linearizable history of
    the sequential specification (the same notion the monitor decides on the real threads: a permutation that respects real
    time and replays), and the shared cells are exactly the state the linearization leaves. *)
Theorem C15_every_interleaving_linearizable : forall progs sched,
  let s := run src_locks sched (ginit progs) in
  quiescent s ->
  linearizable sinit (map to_cevent (hist s)) /\ cells s = sigma s /\
  exists order, Permutation order (hist s) /\ Replays init (map hkey order) (cells s).
Proof. exact (conc_linearizable src_locks src_table_ok). Qed.
Print Assumptions C15_every_interleaving_linearizable.

(** ... hence the monitor that judges the real threads accepts every run of the lock-level model (no alarm on it) *)
Theorem C15_monitor_accepts_every_interleaving : forall progs sched,
  let s := run src_locks sched (ginit progs) in
  quiescent s -> lin (S (length (hist s))) sinit (map to_cevent (hist s)) = true.
Proof. exact monitor_accepts_model_runs. Qed.
Print Assumptions C15_monitor_accepts_every_interleaving.

(** every method returns: while some program has not run to its end, some thread can take a micro-step (no deadlock),
    whatever the schedule did before *)
Theorem C15_no_deadlock : forall progs sched,
  let s := run src_locks sched (ginit progs) in
  ~ finished s -> exists t s', cstep src_locks t s = Some s'.
Proof. exact src_no_deadlock. Qed.
Print Assumptions C15_no_deadlock.

(** non-vacuity, and the hypotheses matter: with the source's table a reader overlapping a writer's write-back is blocked
    and the run is linearizable; with a table in which get_rule takes no guard, the SAME programs and schedule let the
    reader see the new index with the old rule vector - Get 1 answers None although rule 1 is stored throughout - and the
    monitor rejects the history *)
Example C15_conc_example :
  let progs := [[Add 0 5 10; Add 1 1 11; Add 2 9 12]; [Get 1]] in
  let sched := repeat 0%nat 33 ++ repeat 1%nat 4 ++ repeat 0%nat 6 ++ repeat 1%nat 8 in
  let good := run src_locks sched (ginit progs) in
  let bad := run bad_locks sched (ginit progs) in
  (length (hist good) = 4%nat /\ lin 5 sinit (map to_cevent (hist good)) = true) /\
  (length (hist bad) = 4%nat /\ lin 5 sinit (map to_cevent (hist bad)) = false /\ table_ok bad_locks = false).
Proof. vm_compute. repeat split; reflexivity. Qed.

(** non-vacuity: an Add overlapping a Version query that already saw version 1 is linearizable (Add first); the same
    query having responded BEFORE the Add was invoked is not *)
Example C15_lin_example :
  let add := {| c_op := Add 1 5 0; c_res := enc_res (RBool true); c_inv := 0; c_resp := 10 |} in
  let v_overlap := {| c_op := Version; c_res := enc_res (RNum 1); c_inv := 5; c_resp := 6 |} in
  let v_before := {| c_op := Version; c_res := enc_res (RNum 1); c_inv := 1; c_resp := 2 |} in
  let add_late := {| c_op := Add 1 5 0; c_res := enc_res (RBool true); c_inv := 3; c_resp := 10 |} in
  lin 3 sinit [v_overlap; add] = true /\ lin 3 sinit [v_before; add_late] = false.
Proof. vm_compute. split; reflexivity. Qed.

(** non-vacuity: ties keep insertion order; removal and re-add under the same name *)
Example C15_example :
  let ops := [Add 0 5 10; Add 1 5 11; Add 2 9 12; Add 1 0 13; Remove 1; Add 1 5 14; Enable 0 false] in
  map r_tag (rules (exec init ops)) = [12; 10; 14]
  /\ sx_eqb (L (run_from init ops)) (L (srun_from sinit ops)) = true.
Proof. vm_compute. split; reflexivity. Qed.
