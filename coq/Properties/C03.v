(** C03 — execute always returns, within max_cycles, at a fixpoint or at the bound.
    Statements only; proofs in Proofs/EngineProofs.v.  All theorems hold for EVERY condition
    language [eval] and action semantics [act] (total functions: the engine loop is a structural
    recursion on the remaining cycles and on the rule vector, so it always returns). *)
From RRE Require Import Base.Sx Model.Engine Proofs.EngineProofs.
Open Scope Z_scope.

(** at most max_cycles passes; the reported cycle count is the number of passes and is no larger
    than max_cycles; the fired count equals the number of firings *)
Theorem C03_cycles_bounded : forall (cond action store : Type) (eval : cond -> store -> bool)
    (act : action -> store -> store * list effect) maxc t (e : engine cond action) s,
  let '(_, _, r) := execute eval act maxc t e s in
  0 <= res_cycles r <= Z.of_nat maxc /\ res_cycles r = Z.of_nat (length (res_trace r))
  /\ res_fired r = Z.of_nat (length (concat (res_trace r))).
Proof. exact execute_cycles_bounded. Qed.
Print Assumptions C03_cycles_bounded.

(** it stops before the bound exactly when a pass fired nothing: every pass but the last fired
    something, and the last one is quiet unless the bound was reached *)
Theorem C03_stops_iff_quiet : forall (cond action store : Type) (eval : cond -> store -> bool)
    (act : action -> store -> store * list effect) maxc t (e : engine cond action) s,
  let '(_, _, r) := execute eval act maxc t e s in shape_ok maxc (res_trace r).
Proof. exact execute_stops_iff_quiet. Qed.
Print Assumptions C03_stops_iff_quiet.

(** when the last pass fired nothing, the final facts are a fixpoint: no rule that is still
    eligible (enabled, focused group, date window, lock-on-active, activation group, no-loop) has a
    true condition on them *)
Theorem C03_fixpoint : forall (cond action store : Type) (eval : cond -> store -> bool)
    (act : action -> store -> store * list effect) n t (e : engine cond action) s c e' s' c' trs,
  cycles eval act n t e s c = (e', s', c', trs) ->
  last trs [0] = [] -> trs <> [] ->
  forall r, In r (rules e') -> gates e' t r && eval (r_cond r) s' = false.
Proof. exact cycles_fixpoint. Qed.
Print Assumptions C03_fixpoint.

(** non-vacuity on the concrete instance: a self-triggering counter rule runs to the bound,
    a bounded one stops at its fixpoint; max_cycles = 0 makes no pass *)
From RRE Require Import Model.EngineConc.
Example C03_example :
  let inc := {| r_name := 1; r_sal := 0; r_enabled := true; r_noloop := false; r_lock := false; r_agenda := None; r_actgroup := None;
                r_from := None; r_until := None; r_cond := [(0, CLt, 5)]; r_actions := [AAdd 0 1] |} in
  let e := add_rule engine_init inc in
  let r3 := snd (execute eval act 3 0 e [(0, 0)]) in
  let r9 := snd (execute eval act 9 0 e [(0, 0)]) in
  let r0 := snd (execute eval act 0 0 e [(0, 0)]) in
  (res_cycles r3, res_fired r3) = (3, 3) /\ (res_cycles r9, res_fired r9) = (6, 5) /\ (res_cycles r0, res_fired r0) = (0, 0).
Proof. vm_compute. repeat split. Qed.
