(** C17 — Cached proofs are valid exactly while a justification survives.
    Statements only; proofs in Proofs/ProofGraphProofs.v.  The model is of the repaired code
    (fix: ec1ef45); the pre-repair witness is corpus/C17.cases. *)
From RRE Require Import Base.Sx Model.ProofGraph Proofs.ProofGraphProofs Proofs.ProofGraphInvProofs.
Open Scope N_scope.

(** Re-proving an invalidated fact makes it valid again (whatever the earlier history). *)
Theorem C17_reproof_valid : forall g h k ps,
  exists n, find_node (nodes (insert_proof g h k ps)) h = Some n /\ n_valid n = true
            /\ In ps (n_justs n).
Proof. exact insert_valid. Qed.
Print Assumptions C17_reproof_valid.

Theorem C17_reproof_proven : forall g h k ps, is_proven (insert_proof g h k ps) k = true.
Proof. exact insert_proven. Qed.
Print Assumptions C17_reproof_proven.

(** An invalidation never makes any cached proof valid and never adds a justification, for
    every graph shape (cycles included) and every propagation order/depth. *)
Theorem C17_invalidate_only_lowers : forall g h, nodes_le (nodes (invalidate g h)) (nodes g).
Proof. exact invalidate_le. Qed.
Print Assumptions C17_invalidate_only_lowers.

(** A directly invalidated handle is not valid afterwards. *)
Theorem C17_invalidate_self : forall g h n,
  find_node (nodes (invalidate g h)) h = Some n -> n_valid n = false.
Proof. exact invalidate_self_invalid. Qed.
Print Assumptions C17_invalidate_self.

(** THE INVARIANT, for every history of insertions and invalidations in which no insertion uses a currently
    invalid cached proof as a premise ([wf_run]; dependents may be inserted before their premises, handles may be
    re-proved): handles are unique, a valid cached proof has a justification left, every premise of every
    remaining justification is recorded in the dependency index, and NO remaining justification of any cached
    proof names an invalid cached proof ([bad [] ns q]: q is a node and not valid). *)
Theorem C17_graph_invariant : forall ops, wf_run init ops ->
  let g := exec init ops in
  NoDup (map n_h (nodes g))
  /\ (forall x n, find_node (nodes g) x = Some n -> n_valid n = true -> n_justs n <> [])
  /\ (forall x n J q, find_node (nodes g) x = Some n -> In J (n_justs n) -> In q J -> In x (deps_of (deps g) q))
  /\ (forall x n J q, find_node (nodes g) x = Some n -> In J (n_justs n) -> In q J -> bad [] (nodes g) q = false).
Proof.
  intros ops W g. pose proof (exec_Inv ops init Inv_init W) as HI. fold g in HI.
  split; [apply HI|]. split; [apply (i_just g HI)|]. split; [apply (i_edges g HI)|].
  intros x n J q F HJ Hq. destruct (bad [] (nodes g) q) eqn:E; [|reflexivity]. destruct (i_clean g HI x n J q F HJ Hq E).
Qed.
Print Assumptions C17_graph_invariant.

(** EXACTNESS of one invalidation, on any graph satisfying the invariant (cycles, diamonds, several
    justifications, any insertion order): afterwards every cached proof keeps exactly those of its
    justifications none of whose premises is dead (the invalidated handle, or an invalid cached proof), and it
    is valid exactly when it was valid, is not the invalidated handle, and keeps a justification. *)
Theorem C17_invalidate_exact : forall g h, Inv g -> forall x n, find_node (nodes g) x = Some n ->
  exists n', find_node (nodes (invalidate g h)) x = Some n'
    /\ n_justs n' = filter (cleanb [h] (nodes (invalidate g h))) (n_justs n)
    /\ n_valid n' = n_valid n && negb (N.eqb x h) && nonempty (n_justs n').
Proof. exact invalidate_exact. Qed.
Print Assumptions C17_invalidate_exact.

(** MINIMALITY: the set of dead handles after the call is the LEAST set that contains h and the proofs that
    were already invalid and is closed under "had justifications and each of them names a dead premise":
    it is contained in every such set C (so a proof whose justification survives is never invalidated). *)
Theorem C17_invalidate_minimal : forall g h (C : N -> Prop), Inv g -> C h ->
  (forall q, bad [] (nodes g) q = true -> C q) ->
  (forall x n, find_node (nodes g) x = Some n -> n_justs n <> [] -> (forall J, In J (n_justs n) -> exists q, In q J /\ C q) -> C x) ->
  forall q, bad [h] (nodes (invalidate g h)) q = true -> C q.
Proof. exact invalidate_minimal. Qed.
Print Assumptions C17_invalidate_minimal.

Theorem C17_invariant_kept : forall g o, Inv g -> op_ok g o -> Inv (fst (step g o)).
Proof. exact step_Inv. Qed.
Print Assumptions C17_invariant_kept.

(** non-vacuity + the repaired witness: dependents inserted before their premises *)
Example C17_example :
  let ops := [Insert 2 2 [1]; Insert 1 1 [0]; Invalidate 0; IsProven 2; Insert 1 1 []; IsProven 1] in
  map o_res (run 3 3 ops) = [true; true; true; false; true; true]
  /\ ok 3 3 ops (map enc_obs (run 3 3 ops)) = true.
Proof. vm_compute. split; reflexivity. Qed.
Example C17_example_wf :
  wf_run init [Insert 2 2 [1]; Insert 1 1 [0]; Invalidate 0; IsProven 2; Insert 1 1 []; IsProven 1].
Proof. cbn -[bad]. repeat split; try (intros p [<-|[]]; vm_compute; reflexivity); intros p []. Qed.
