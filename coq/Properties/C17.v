(** C17 — Cached proofs are valid exactly while a justification survives.
    Statements only; proofs in Proofs/ProofGraphProofs.v.  The model is of the repaired code
    (fix: ec1ef45); the pre-repair witness is corpus/C17.cases. *)
From RRE Require Import Base.Sx Model.ProofGraph Proofs.ProofGraphProofs.
Open Scope N_scope.

(** Re-proving an invalidated fact makes it valid again (whatever the earlier history). *)
Theorem C17_reproof_valid : forall g h k ps,
  exists n, find_node (nodes (insert_proof g h k ps)) h = Some n /\ n_valid n = true
            /\ In ps (n_justs n).
Proof. exact insert_valid. Qed.
Print Assumptions C17_reproof_valid.

Theorem C17_reproof_proven : forall g h k ps, is_proven (insert_proof g h k ps) k = true.
Proof. exact insert_proven. Qed.
Print Assumptions C17_reproof_proven.

(** An invalidation never makes any cached proof valid and never adds a justification, for
    every graph shape (cycles included) and every propagation order/depth. *)
Theorem C17_invalidate_only_lowers : forall g h, nodes_le (nodes (invalidate g h)) (nodes g).
Proof. exact invalidate_le. Qed.
Print Assumptions C17_invalidate_only_lowers.

(** A directly invalidated handle is not valid afterwards. *)
Theorem C17_invalidate_self : forall g h n,
  find_node (nodes (invalidate g h)) h = Some n -> n_valid n = false.
Proof. exact invalidate_self_invalid. Qed.
Print Assumptions C17_invalidate_self.

(** non-vacuity + the repaired witness: dependents inserted before their premises *)
Example C17_example :
  let ops := [Insert 2 2 [1]; Insert 1 1 [0]; Invalidate 0; IsProven 2; Insert 1 1 []; IsProven 1] in
  map o_res (run 3 3 ops) = [true; true; true; false; true; true]
  /\ ok 3 3 ops (map enc_obs (run 3 3 ops)) = true.
Proof. vm_compute. split; reflexivity. Qed.
