(** C16 — Indexes and memoisation return what the plain computation returns.
    Statements only; proofs in Proofs/IndexProofs.v.  Models of the repaired alpha index and
    memo key (fix commits c8e1e36, 34a4ae3). *)
From RRE Require Import Base.Sx Base.Float Model.Index Proofs.IndexProofs Proofs.IndexAlphaProofs Proofs.IndexBetaProofs.
Open Scope Z_scope.

(** Values with the same Debug rendering are interchangeable on either side of ==
    (all value shapes incl. nested arrays, NaN and signed zeros): the soundness of keying a
    cache by the typed rendering. *)
Theorem C16_rendering_determines_equality : forall a a' b b',
  dbg_eqb a a' = true -> dbg_eqb b b' = true -> val_eqb a b = val_eqb a' b'.
Proof. exact dbg_respects. Qed.
Print Assumptions C16_rendering_determines_equality.

(** The alpha-memory index returns what the scan returns: for EVERY history of insertions, index creations
    (on facts already present), index drops and filters, on every field and value - NaN, signed zeros, nested
    arrays - the answers are those of the index-free scan of everything inserted so far.
    ([aop_wf]: float bit patterns decode and re-encode to themselves, which every 64-bit pattern does.) *)
Theorem C16_alpha_filter_is_scan : forall ops, Forall aop_wf ops -> run_alpha alpha_init ops = spec_alpha [] ops.
Proof. exact run_alpha_from_empty. Qed.
Print Assumptions C16_alpha_filter_is_scan.

(** equal values (==, IEEE on floats) always share an index key, so no matching fact is outside its bucket *)
Theorem C16_equal_values_share_a_key : forall a b, wfv a -> wfv b -> val_eqb a b = true -> key_eqb a b = true.
Proof. exact val_key. Qed.
Print Assumptions C16_equal_values_share_a_key.

(** A memoised condition evaluation equals direct evaluation for every node and fact set,
    after any sequence of earlier evaluations (alternating look-alike fact sets included). *)
Theorem C16_memo_eq_direct : forall calls m, MemoInv m -> run_memo m calls = spec_memo calls.
Proof. exact memo_eq_direct. Qed.
Print Assumptions C16_memo_eq_direct.

Theorem C16_memo_eq_direct_from_empty : forall calls, run_memo [] calls = spec_memo calls.
Proof. intro calls. apply memo_eq_direct. intros n f r []. Qed.
Print Assumptions C16_memo_eq_direct_from_empty.

(** A join-key lookup returns exactly the live facts carrying that key (in the order they were added), after EVERY
    history of add / remove / lookup, for every key shape (keys compared by their Debug rendering, an equivalence). *)
Theorem C16_beta_lookup_is_live_facts : forall ops, run_beta [] ops = spec_beta [] ops.
Proof. exact beta_index_exact. Qed.
Print Assumptions C16_beta_lookup_is_live_facts.

(** The conclusion index proposes every enabled rule that assigns the goal's field, after EVERY history of add_rule /
    remove_rule (re-adding under a name, removing, disabled rules): [present] is the specification's view - the rules
    added enabled with a conclusion and not removed since; [extract_field] is the field before the goal's first operator
    (after repair 464da73). *)
Theorem C16_conclusion_index_complete : forall ops n fs goal,
  In (n, fs) (fold_left pstep ops []) -> mem_str (extract_field goal) fs = true ->
  mem_str n (c_find (fold_left cstep ops cinit) goal) = true.
Proof. exact conclusion_index_complete. Qed.
Print Assumptions C16_conclusion_index_complete.

(** non-vacuity: the pre-repair witnesses.  Integer 5 then String "5"; NaN and -0.0 lookups *)
Example C16_example :
  let five := VInt 5 in let s5 := VStr [53] in
  run_memo [] [((1, five), [(1, five)]); ((1, five), [(1, s5)])] = [sxB true; sxB false]
  /\ (let nan := VFloat 9221120237041090560 in let nz := VFloat 9223372036854775808 in let z := VFloat 0 in
      let a := a_create (a_insert (a_insert alpha_init [(0, VInt 1); (1, nan)]) [(0, VInt 2); (1, z)]) 1 in
      map fact_id (a_filter a 1 nan) = [] /\ map fact_id (a_filter a 1 nz) = [2]).
Proof. vm_compute. repeat split. Qed.
