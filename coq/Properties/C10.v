(** C10 — undo frames are transactional (store part).
    Statements only; proofs in Proofs/UndoProofs.v.  Model of the repaired code (fix: c0a4186);
    the pre-repair witness is corpus/C10.cases. *)
From RRE Require Import Base.Sx Model.Undo Proofs.UndoProofs.
From RRE Require Model.Backward Proofs.BackwardProofs.
Open Scope N_scope.

(** For every initial store and every sequence of begin/commit/rollback/set/set_nested/remove, the
    per-key undo log behaves exactly like a stack of whole-store snapshots: same result codes, same
    values and types of every key after every operation. *)
Theorem C10_undo_refines_snapshots : forall nk kv ops, run nk kv ops = srun nk kv ops.
Proof. exact undo_refines_snapshots. Qed.
Print Assumptions C10_undo_refines_snapshots.

(** Rolling back a frame restores every key to the value (or absence) and type it had when that
    frame began, whatever nested frames were begun, committed or rolled back in between
    ([stays 0 ops = Some 0]: inside, ops never close more frames than they opened and close all). *)
Theorem C10_rollback_restores : forall kv ops0 ops,
  stays 0 ops = Some 0%nat ->
  let f := exec (init_of kv) ops0 in
  let f' := exec f (Begin :: ops ++ [Rollback]) in
  seq (data f') (data f) /\ seq (types f') (types f).
Proof. exact rollback_restores. Qed.
Print Assumptions C10_rollback_restores.

Theorem C10_monitor_accepts_model : forall nk kv ops, ok nk kv ops (run nk kv ops) = true.
Proof. exact ok_run. Qed.
Print Assumptions C10_monitor_accepts_model.

(** Query part: a backward-chaining search (Model/Backward.v, the depth-first search of search.rs after
    repairs ab15463 / 692df85) that does not prove its goal hands back exactly the facts it was given -
    at every recursion level, whatever intermediate facts its proof attempts derived. *)
Theorem C10_failed_query_restores : forall rules max_depth fuel goal cands depth f f',
  Backward.search rules max_depth fuel goal cands depth f = (false, f') -> f' = f.
Proof. exact BackwardProofs.search_failure_restores. Qed.
Print Assumptions C10_failed_query_restores.

(** non-vacuity: the pre-repair witness begin; begin; set k 1; commit; rollback *)
Example C10_example :
  let ops := [Begin; Begin; SetV 0 (VInt 1); Commit; Rollback] in
  stays 0 [Begin; SetV 0 (VInt 1); Commit] = Some 0%nat /\
  lookup (data (exec (init_of [(0, VInt 0)]) ops)) 0 = Some (VInt 0).
Proof. vm_compute. split; reflexivity. Qed.
