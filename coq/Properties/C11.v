(** C11 — A query's answer does not depend on earlier queries (statements only; proofs in
    Proofs/BackwardProofs.v).  Model/Backward.v: BackwardEngine's memo table after repair dfacdc7 (keyed by
    the query and the canonical encoding of the facts; only failures are answered from it). *)
From RRE Require Import Base.Sx Base.Float Base.Num Model.ExprShape Model.Forward Model.ForwardSpec Model.Backward Proofs.BackwardProofs Proofs.BackwardEquivProofs.
Open Scope Z_scope.

(** Whatever queries were asked before, on whatever facts: the verdict of a query is the verdict a fresh
    search gives on the facts passed in, and the table stays sound.  Premise: the search verdict depends on
    the facts only through their canonical (sorted) encoding, which is what the memo key is built from. *)
Theorem C11_memo_never_changes_an_answer : forall rules max_depth,
  (forall goal f f', enc_facts f = enc_facts f' -> fst (dfs rules max_depth goal f) = fst (dfs rules max_depth goal f')) ->
  forall e q goal f, memo_sound rules max_depth e -> dec_bcond q = Some goal ->
    fst (snd (equery rules max_depth e q goal f)) = fst (dfs rules max_depth goal f)
    /\ memo_sound rules max_depth (fst (equery rules max_depth e q goal f)).
Proof. intros rules md Hc. exact (equery_is_fresh rules md Hc sx_eqb_true_eq). Qed.
Print Assumptions C11_memo_never_changes_an_answer.

Theorem C11_fresh_engine_sound : forall rules max_depth, memo_sound rules max_depth {| memo := [] |}.
Proof. intros rules md q fx b H. destruct H. Qed.
Print Assumptions C11_fresh_engine_sound.

(** The premise above, discharged.  (1) The search reads a store only through its lookup function ... *)
Theorem C11_verdict_depends_only_on_lookups : forall rules max_depth goal f f',
  (forall k, fget f k = fget f' k) -> fst (dfs rules max_depth goal f) = fst (dfs rules max_depth goal f').
Proof. exact dfs_feq. Qed.
Print Assumptions C11_verdict_depends_only_on_lookups.

(** (2) ... and for stores as the engine holds them (one entry per key, values integer / string / boolean /
    null) the canonical encoding, from which the memo key is built, determines the lookup function. *)
Theorem C11_memo_key_determines_lookups : forall f f',
  dstore f -> dstore f' -> enc_facts f = enc_facts f' -> forall k, fget f k = fget f' k.
Proof. exact enc_facts_determines_lookups. Qed.
Print Assumptions C11_memo_key_determines_lookups.

(** Hence, with no premise: along ANY history of queries on one engine, each asked on its own store
    (so: facts asserted, changed, removed between queries, the same query repeated on different facts),
    every verdict is the verdict of a fresh search on the facts passed in. *)
Theorem C11_history_is_fresh : forall rules max_depth qs,
  (forall q goal f, In (q, goal, f) qs -> dstore f /\ dec_bcond q = Some goal) ->
  equeries rules max_depth {| memo := [] |} qs = map (fun '(q, goal, f) => fst (dfs rules max_depth goal f)) qs.
Proof. intros rules md qs H. apply history_is_fresh; [|exact H]. intros q fx b []. Qed.
Print Assumptions C11_history_is_fresh.

(** non-vacuity: the history "ask (provable), remove the supporting fact, ask again" - the second answer
    is the fresh one (false), not the memoised true *)
Definition ex11_f0 : str := [70; 48].  Definition ex11_f1 : str := [70; 49].
Definition ex11_rules : list brule :=
  [ {| br_cond := BSingle {| b_field := ex11_f0; b_op := OEq; b_val := VBool true |}; br_sets := [(ex11_f1, VBool true)] |} ].
Definition ex11_goal : bcond := {| b_field := ex11_f1; b_op := OEq; b_val := VBool true |}.
Example C11_example :
  let q := L [L (map A ex11_f1); A 0; L [A 3; A 1]] in
  let '(e1, (p1, f1)) := equery ex11_rules 3 {| memo := [] |} q ex11_goal [(ex11_f0, VBool true)] in
  let '(e2, (p2, f2)) := equery ex11_rules 3 e1 q ex11_goal [] in
  p1 = true /\ p2 = false.
Proof. vm_compute. split; reflexivity. Qed.
Example C11_example_stores_discrete : dstore [(ex11_f0, VBool true)] /\ dstore [].
Proof. split; (split; [repeat constructor; intros []|]); intros k v Hin; cbn in Hin; [destruct Hin as [Hin|[]]; inversion Hin; exact I|destruct Hin]. Qed.
