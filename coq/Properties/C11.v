(** C11 — A query's answer does not depend on earlier queries (statements only; proofs in
    Proofs/BackwardProofs.v).  Model/Backward.v: BackwardEngine's memo table after repair dfacdc7 (keyed by
    the query and the canonical encoding of the facts; only failures are answered from it). *)
From RRE Require Import Base.Sx Base.Float Base.Num Model.ExprShape Model.Forward Model.ForwardSpec Model.Backward Proofs.BackwardProofs.
Open Scope Z_scope.

(** Whatever queries were asked before, on whatever facts: the verdict of a query is the verdict a fresh
    search gives on the facts passed in, and the table stays sound.  Premise: the search verdict depends on
    the facts only through their canonical (sorted) encoding, which is what the memo key is built from. *)
Theorem C11_memo_never_changes_an_answer : forall rules max_depth,
  (forall goal f f', enc_facts f = enc_facts f' -> fst (dfs rules max_depth goal f) = fst (dfs rules max_depth goal f')) ->
  forall e q goal f, memo_sound rules max_depth e -> dec_bcond q = Some goal ->
    fst (snd (equery rules max_depth e q goal f)) = fst (dfs rules max_depth goal f)
    /\ memo_sound rules max_depth (fst (equery rules max_depth e q goal f)).
Proof. intros rules md Hc. exact (equery_is_fresh rules md Hc sx_eqb_true_eq). Qed.
Print Assumptions C11_memo_never_changes_an_answer.

Theorem C11_fresh_engine_sound : forall rules max_depth, memo_sound rules max_depth {| memo := [] |}.
Proof. intros rules md q fx b H. destruct H. Qed.
Print Assumptions C11_fresh_engine_sound.

(** non-vacuity: the history "ask (provable), remove the supporting fact, ask again" - the second answer
    is the fresh one (false), not the memoised true *)
Definition ex11_f0 : str := [70; 48].  Definition ex11_f1 : str := [70; 49].
Definition ex11_rules : list brule :=
  [ {| br_cond := BSingle {| b_field := ex11_f0; b_op := OEq; b_val := VBool true |}; br_sets := [(ex11_f1, VBool true)] |} ].
Definition ex11_goal : bcond := {| b_field := ex11_f1; b_op := OEq; b_val := VBool true |}.
Example C11_example :
  let q := L [L (map A ex11_f1); A 0; L [A 3; A 1]] in
  let '(e1, (p1, f1)) := equery ex11_rules 3 {| memo := [] |} q ex11_goal [(ex11_f0, VBool true)] in
  let '(e2, (p2, f2)) := equery ex11_rules 3 e1 q ex11_goal [] in
  p1 = true /\ p2 = false.
Proof. vm_compute. split; reflexivity. Qed.
