(** C09 — Backward chaining proves only derivable goals (statements only; proofs in Proofs/BackwardProofs.v).
    Model/Backward.v: the depth-first search with execution of src/backward/search.rs (after the repairs
    692df85, 047f79f, ab15463), iterative deepening, the root and sub-goal candidate selection, the condition
    evaluator and rule executor on Horn-style rules, and the specification (forward closure, bounded levels). *)
From RRE Require Import Base.Sx Base.Float Base.Num Model.ExprShape Model.Forward Model.ForwardSpec Model.Backward Proofs.BackwardProofs Proofs.BackwardClosureProofs Proofs.BackwardCompleteProofs.
From Coq Require Import Lia.
Open Scope Z_scope.

(** Soundness: whenever the depth-first search reports a goal provable, the goal comparison is true in the
    facts handed back - for every rule set (wrong-value conclusions, cycles, dead ends, shared sub-goals),
    every goal, depth bound and fact store. *)
Theorem C09_depth_first_sound : forall rules max_depth goal f f',
  dfs rules max_depth goal f = (true, f') -> goal_holds f' goal = true.
Proof. exact dfs_sound. Qed.
Print Assumptions C09_depth_first_sound.

(** the same at every recursion level (sub-goals), for any candidate list *)
Theorem C09_search_sound : forall rules max_depth fuel goal cands depth f f',
  search rules max_depth fuel goal cands depth f = (true, f') -> goal_holds f' goal = true.
Proof. exact search_sound. Qed.
Print Assumptions C09_search_sound.

Theorem C09_iterative_sound : forall rules max_depth goal f f',
  ids rules max_depth goal f = (true, f') -> goal_holds f' goal = true.
Proof. exact ids_sound. Qed.
Print Assumptions C09_iterative_sound.

(** Soundness with respect to the forward closure.  For Horn-style rule sets (positive conditions, scalar
    conclusions) and EVERY set D of atoms that covers the initial facts and is closed under the rules - in
    particular the least such set, the forward closure: whatever the search hands back is covered by D, and a
    goal reported provable is satisfied by an atom of D (or is a `!=` that holds of an absent field). *)
Theorem C09_result_within_closure : forall rules max_depth D, horn rules -> closedD rules D ->
  forall goal f b f', covers D f -> dfs rules max_depth goal f = (b, f') -> covers D f'.
Proof. exact dfs_covers. Qed.
Print Assumptions C09_result_within_closure.

Theorem C09_proven_goal_in_closure : forall rules max_depth D, horn rules -> closedD rules D ->
  forall goal f f', covers D f -> dfs rules max_depth goal f = (true, f') ->
    (exists v, In (b_field goal, v) D /\ goal_sat (Some v) goal = true) \/ goal_sat None goal = true.
Proof. exact dfs_goal_in_closed. Qed.
Print Assumptions C09_proven_goal_in_closure.

(** BOUNDED COMPLETENESS of the default depth-first strategy, for every Horn instance of any size: rules with
    conjunctive conditions ([conj]) made of positive comparisons ([horn]) against literals that survive the code's
    re-parsing of sub-goal patterns ([glit_ok]: any boolean / string / null literal; an integer literal z with
    f_to_i64 (f_of_Z z) = z - a decidable condition, true of every |z| < 2^53 - against an integer-valued field; a float
    literal against a field that is not integer-valued; nesting of && at most 62, so that the model's recursion fuel
    provably suffices), over facts and rule
    conclusions that give every field a single value (the premise on f0 ++ all conclusions), scalar values.
    If the goal holds at level h <= max_depth of the bounded forward derivation ([level h]: h rounds of firing every
    rule whose conditions hold) - i.e. it has a derivation of height at most max_depth - the search reports it provable,
    whatever decoy candidates, dead ends, shared sub-goals and cycles the rule set contains.
    Partial only in that the hypotheses exclude mixed integer / float comparisons and Or in rule conditions. *)
Theorem C09_bounded_completeness_partial : forall rules max_depth f0,
  flat f0 -> horn rules ->
  (forall k v v', In (k, v) (f0 ++ flat_map br_sets rules) -> In (k, v') (f0 ++ flat_map br_sets rules) -> v = v') ->
  (forall r, In r rules -> conj (br_cond r) = true) ->
  (forall r, In r rules -> glit_ok (f0 ++ flat_map br_sets rules) (br_cond r)) ->
  (forall r, In r rules -> (gdepth (br_cond r) <= 62)%nat) ->
  forall goal h, positive_op (b_op goal) = true -> Z.of_nat h <= max_depth ->
    goal_holds (level h rules f0) goal = true -> fst (dfs rules max_depth goal f0) = true.
Proof. exact dfs_bounded_complete. Qed.
Print Assumptions C09_bounded_completeness_partial.

(** The search never loses a fact it was given: whatever it hands back extends its input (single-valued Horn instances). *)
Theorem C09_search_extends_facts : forall rules max_depth f0, horn rules ->
  (forall k v v', In (k, v) (f0 ++ flat_map br_sets rules) -> In (k, v') (f0 ++ flat_map br_sets rules) -> v = v') ->
  forall fuel goal cands depth f b f', (forall r, In r cands -> In r rules) -> covers (f0 ++ flat_map br_sets rules) f ->
    search rules max_depth fuel goal cands depth f = (b, f') -> forall k v, fget f k = Some v -> fget f' k = Some v.
Proof. intros rules md f0 Hh Hsv fuel. exact (proj1 (search_prove_ext rules md f0 Hh Hsv fuel)). Qed.
Print Assumptions C09_search_extends_facts.

(** non-vacuity: a sub-goal is proven, the rule then concludes the wrong value - not provable (this was
    reported provable before repair 692df85); with the right value it is provable through the chain *)
Definition ex9_f0 : str := [70; 48].  Definition ex9_f1 : str := [70; 49].  Definition ex9_f3 : str := [70; 51].
Definition ex9_rules (v : Z) : list brule :=
  [ {| br_cond := BSingle {| b_field := ex9_f0; b_op := OEq; b_val := VBool true |}; br_sets := [(ex9_f3, VInt v)] |};
    {| br_cond := BSingle {| b_field := ex9_f1; b_op := OEq; b_val := VBool true |}; br_sets := [(ex9_f0, VBool true)] |} ].
Definition ex9_goal : bcond := {| b_field := ex9_f3; b_op := OEq; b_val := VNum (f_of_Z 8) |}.
Example C09_example :
  fst (dfs (ex9_rules 99) 3 ex9_goal [(ex9_f1, VBool true)]) = false
  /\ fst (dfs (ex9_rules 8) 3 ex9_goal [(ex9_f1, VBool true)]) = true
  /\ fst (dfs (ex9_rules 8) 0 ex9_goal [(ex9_f1, VBool true)]) = false.
Proof. vm_compute. repeat split. Qed.

(** the hypotheses of the completeness theorem are satisfiable: the chain above, height 2, found with max_depth 2 *)
Example C09_completeness_example :
  let rules := ex9_rules 8 in let f0 := [(ex9_f1, VBool true)] in
  flat f0 /\ horn rules
  /\ (forall k v v', In (k, v) (f0 ++ flat_map br_sets rules) -> In (k, v') (f0 ++ flat_map br_sets rules) -> v = v')
  /\ (forall r, In r rules -> conj (br_cond r) = true /\ glit_ok (f0 ++ flat_map br_sets rules) (br_cond r) /\ (gdepth (br_cond r) <= 62)%nat)
  /\ goal_holds (level 2 rules f0) ex9_goal = true.
Proof.
  cbv zeta. split; [|split; [|split; [|split]]].
  - intros k v H. cbn [fget] in H. destruct (str_eqb ex9_f1 k); [injection H as <-; exact I|discriminate].
  - intros r [<-|[<-|[]]]; (split; [reflexivity|intros kv [<-|[]]; exact I]).
  - intros k v v' H1 H2. cbn in H1, H2.
    destruct H1 as [H1|[H1|[H1|[]]]]; destruct H2 as [H2|[H2|[H2|[]]]]; inversion H1; inversion H2; subst; try reflexivity; discriminate.
  - intros r [<-|[<-|[]]]; (split; [reflexivity|split; [exact I|cbn; lia]]).
  - vm_compute. reflexivity.
Qed.

(** ... also with an integer comparison in a rule condition: F3 == 8 (re-parsed by the code as 8.0 and adapted back) *)
Definition ex9_rules_int : list brule :=
  ex9_rules 8 ++ [ {| br_cond := BSingle {| b_field := ex9_f3; b_op := OEq; b_val := VInt 8 |}; br_sets := [([70; 52], VBool true)] |} ].
Example C09_completeness_example_int :
  let rules := ex9_rules_int in let f0 := [(ex9_f1, VBool true)] in
  (forall r, In r rules -> glit_ok (f0 ++ flat_map br_sets rules) (br_cond r))
  /\ goal_holds (level 3 rules f0) {| b_field := [70; 52]; b_op := OEq; b_val := VBool true |} = true
  /\ fst (dfs rules 3 {| b_field := [70; 52]; b_op := OEq; b_val := VBool true |} f0) = true.
Proof.
  cbv zeta. split; [|split; vm_compute; reflexivity].
  intros r [<-|[<-|[<-|[]]]]; cbn [glit_ok br_cond lit_ok b_val b_field]; try exact I.
  split; [vm_compute; reflexivity|]. split; [vm_compute; reflexivity|].
  intros v H. cbn in H. destruct H as [H|[H|[H|[H|[]]]]]; inversion H; subst; try discriminate. eexists. reflexivity.
Qed.
