(** C06 — RETE engine fires a rule exactly for live facts that satisfy it.
    Statements only; proofs in Proofs/IncrementalProofs.v.  Model of the repaired engine
    (fix commits a666833: condition re-checked at firing time; 26cddab: re-propagation by dependency). *)
From RRE Require Import Base.Sx Generated.Consts Model.ReteAgenda Model.Incremental Proofs.IncrementalProofs.
Open Scope Z_scope.

(** every firing of fire_all is for a rule whose condition is true of the matched fact's contents
    at the moment of firing (whatever was inserted, updated, retracted or fired before, and whatever
    the actions did in between); a firing record is produced only in the branch where the matched
    handle is live (see fire_loop), so a retracted fact never causes a firing *)
Theorem C06_fires_only_if_true : forall x x' out,
  fire_all x = (x', out) -> Forall (firing_ok (rules (e_ x))) out.
Proof. exact fire_all_sound. Qed.
Print Assumptions C06_fires_only_if_true.

Theorem C06_fire_loop_sound : forall fuel iter x out x' out',
  fire_loop fuel iter x out = (x', out') ->
  Forall (firing_ok (rules (e_ x))) out -> Forall (firing_ok (rules (e_ x))) out'.
Proof. exact fire_loop_sound. Qed.
Print Assumptions C06_fire_loop_sound.

(** handles are issued in increasing order: never reused *)
Theorem C06_handles_fresh : forall x t d,
  snd (do_insert x t d) = next_h (e_ x) /\ next_h (e_ (fst (do_insert x t d))) = next_h (e_ x) + 1.
Proof. exact do_insert_handle. Qed.
Print Assumptions C06_handles_fresh.

(** non-vacuity: the pre-repair witness — insert amount 200, update to 5, fire_all fires nothing;
    and the monitor accepts the model's run *)
Example C06_example :
  let r := {| r_name := 1; r_type := 0; r_prio := 0; r_noloop := true; r_cond := CAtom 0 CGt 100; r_action := ANop |} in
  let ops := [OInsert 0 [(0, 200)]; OUpdate 1 [(0, 5)]; OFire; OInsert 0 [(0, 300)]; OFire] in
  let obs := run_from false {| e_ := init [r]; matched := [] |} ops in
  map (fun o => match o with L [res; _] => res | _ => L [] end) obs =
    [L [A 1]; L [A 1]; L []; L [A 2]; L [L [A 1; A 2; L [L [A 0; A 300]]]]]
  /\ ok_from false [r] {| m_issued := []; m_live := []; m_fires := 0 |} {| w_get := []; w_types := [[]; []; []]; w_all := [] |} ops obs = true.
Proof. vm_compute. split; reflexivity. Qed.
