(** C06 — RETE engine fires a rule exactly for live facts that satisfy it.
    Statements only; proofs in Proofs/IncrementalProofs.v.  Model of the repaired engine
    (fix commits a666833: condition re-checked at firing time; 26cddab: re-propagation by dependency). *)
From RRE Require Import Base.Sx Generated.Consts Model.ReteAgenda Model.Incremental Proofs.IncrementalProofs Proofs.IncrementalViewsProofs Proofs.IncrementalOnceProofs.
Open Scope Z_scope.

(** every firing of fire_all is for a rule whose condition is true of the matched fact's contents
    at the moment of firing (whatever was inserted, updated, retracted or fired before, and whatever
    the actions did in between); a firing record is produced only in the branch where the matched
    handle is live (see fire_loop), so a retracted fact never causes a firing *)
Theorem C06_fires_only_if_true : forall x x' out,
  fire_all x = (x', out) -> Forall (firing_ok (rules (e_ x))) out.
Proof. exact fire_all_sound. Qed.
Print Assumptions C06_fires_only_if_true.

Theorem C06_fire_loop_sound : forall fuel iter x out x' out',
  fire_loop fuel iter x out = (x', out') ->
  Forall (firing_ok (rules (e_ x))) out -> Forall (firing_ok (rules (e_ x))) out'.
Proof. exact fire_loop_sound. Qed.
Print Assumptions C06_fire_loop_sound.

(** handles are issued in increasing order: never reused *)
Theorem C06_handles_fresh : forall x t d,
  snd (do_insert x t d) = next_h (e_ x) /\ next_h (e_ (fst (do_insert x t d))) = next_h (e_ x) + 1.
Proof. exact do_insert_handle. Qed.
Print Assumptions C06_handles_fresh.

(** In EVERY reachable state (any rule set, any history of insert / update / retract / fire_all / reset, actions that
    modify or retract included): a fact is in the full listing iff it is found by its handle iff it is listed under its
    type, and then it is not retracted ... *)
Theorem C06_views_agree : forall sorted rs ops f,
  let e := e_ (exec sorted {| e_ := init rs; matched := [] |} ops) in
  (In f (all_live e) <-> live_fact e (f_h f) = Some f)
  /\ (In f (all_live e) <-> In f (facts_of_type e (f_type f)))
  /\ (In f (all_live e) <-> In f (wm e) /\ f_retracted f = false).
Proof. intros sorted rs ops f. apply views_agree. apply exec_inv. apply init_inv. Qed.
Print Assumptions C06_views_agree.

(** ... a retracted fact is in none of the three views (and no other fact answers to its handle) ... *)
Theorem C06_retracted_in_no_view : forall sorted rs ops f,
  let e := e_ (exec sorted {| e_ := init rs; matched := [] |} ops) in
  In f (wm e) -> f_retracted f = true ->
  live_fact e (f_h f) = None /\ ~ In f (all_live e) /\ ~ In f (facts_of_type e (f_type f)).
Proof. intros sorted rs ops f. apply retracted_in_no_view. apply exec_inv. apply init_inv. Qed.
Print Assumptions C06_retracted_in_no_view.

(** ... and handles are pairwise distinct and below the next handle to be issued: never reused. *)
Theorem C06_handles_unique : forall sorted rs ops,
  let x := exec sorted {| e_ := init rs; matched := [] |} ops in
  NoDup (map f_h (wm (e_ x))) /\ forall h, In h (map f_h (wm (e_ x))) -> 1 <= h < next_h (e_ x).
Proof. intros sorted rs ops. destruct (exec_inv sorted ops _ (init_inv rs)) as (A & _ & B). split; assumption. Qed.
Print Assumptions C06_handles_unique.

(** Exactly once (Proofs/IncrementalOnceProofs.v).  Rule sets of no-loop rules with inert actions and distinct names; any
    history of insert / update / retract / fire_all (no reset) in which every fire_all fits the engine's iteration bound
    ([fits]: number of rules + number of pending activations <= max_iterations, the bound read from the source).
    Then a fire_all fires no rule twice, and it fires exactly the rules that have not fired since the start and whose
    condition some live fact of their type satisfies at that moment; it records them as fired and leaves working memory unchanged. *)
Theorem C06_fire_exactly_once : forall rs ops x' fs,
  forallb r_noloop rs = true -> inert rs = true -> NoDup (map r_name rs) ->
  let x0 := {| e_ := init rs; matched := [] |} in
  let x := exec false x0 ops in
  hist_ok rs x0 ops -> fits rs x -> fire_all x = (x', fs) ->
  NoDup (map fi_rule fs) /\
  (forall n, In n (map fi_rule fs) <->
             ~ In n (fired x) /\ exists r f, In r rs /\ r_name r = n /\ In f (wm (e_ x)) /\ Sat r f) /\
  fired x' = fired x ++ map fi_rule fs /\ wm (e_ x') = wm (e_ x).
Proof. exact fire_exactly_once. Qed.
Print Assumptions C06_fire_exactly_once.

(** the property's sentence for the first fire_all of a session: it fires every rule that some live fact satisfies, exactly
    once, and no other rule *)
Theorem C06_first_fire_exactly_once : forall rs ops x' fs,
  forallb r_noloop rs = true -> inert rs = true -> NoDup (map r_name rs) ->
  forallb is_edit ops = true ->
  let x := exec false {| e_ := init rs; matched := [] |} ops in
  fits rs x -> fire_all x = (x', fs) ->
  NoDup (map fi_rule fs) /\
  forall n, In n (map fi_rule fs) <-> exists r f, In r rs /\ r_name r = n /\ In f (wm (e_ x)) /\ Sat r f.
Proof. exact first_fire_exactly_once. Qed.
Print Assumptions C06_first_fire_exactly_once.

(** non-vacuity of the hypotheses: two no-loop inert rules, a history with a stale activation (the update makes rule 1 false
    for fact 1), a retraction and a fire_all inside the history: the first fire_all (after four operations) fires rule 2 only;
    a fire_all after the whole history fires rule 1 only (fact 3 satisfies it; rule 2 is satisfied by fact 4 but has fired). *)
Example C06_once_example :
  let r1 := {| r_name := 1; r_type := 0; r_prio := 0; r_noloop := true; r_cond := CAtom 0 CGt 100; r_action := ANop |} in
  let r2 := {| r_name := 2; r_type := 0; r_prio := 5; r_noloop := true; r_cond := CAtom 0 CLt 50; r_action := ANop |} in
  let rs := [r1; r2] in
  let ops := [OInsert 0 [(0, 200)]; OUpdate 1 [(0, 5)]; OInsert 0 [(0, 70)]; ORetract 2; OFire; OInsert 0 [(0, 300)]; OInsert 0 [(0, 1)]] in
  let x0 := {| e_ := init rs; matched := [] |} in
  forallb r_noloop rs = true /\ inert rs = true /\ NoDup (map r_name rs) /\ hist_ok rs x0 ops /\ fits rs (exec false x0 ops)
  /\ map fi_rule (snd (fire_all (exec false x0 (firstn 4 ops)))) = [2]
  /\ map fi_rule (snd (fire_all (exec false x0 ops))) = [1].
Proof.
  cbv zeta. split; [reflexivity|]. split; [reflexivity|]. split; [repeat constructor; cbn; intuition discriminate|].
  split; [cbn [hist_ok]; split; [unfold fits; vm_compute; discriminate|exact I]|]. split; [unfold fits; vm_compute; discriminate|].
  split; vm_compute; reflexivity.
Qed.

(** non-vacuity: the pre-repair witness — insert amount 200, update to 5, fire_all fires nothing;
    and the monitor accepts the model's run *)
Example C06_example :
  let r := {| r_name := 1; r_type := 0; r_prio := 0; r_noloop := true; r_cond := CAtom 0 CGt 100; r_action := ANop |} in
  let ops := [OInsert 0 [(0, 200)]; OUpdate 1 [(0, 5)]; OFire; OInsert 0 [(0, 300)]; OFire] in
  let obs := run_from false {| e_ := init [r]; matched := [] |} ops in
  map (fun o => match o with L [res; _] => res | _ => L [] end) obs =
    [L [A 1]; L [A 1]; L []; L [A 2]; L [L [A 1; A 2; L [L [A 0; A 300]]]]]
  /\ ok_from false [r] {| m_issued := []; m_live := []; m_fires := 0 |} {| w_get := []; w_types := [[]; []; []]; w_all := [] |} ops obs = true.
Proof. vm_compute. split; reflexivity. Qed.
