(** C06 — RETE engine fires a rule exactly for live facts that satisfy it.
    Statements only; proofs in Proofs/IncrementalProofs.v.  Model of the repaired engine
    (fix commits a666833: condition re-checked at firing time; 26cddab: re-propagation by dependency). *)
From RRE Require Import Base.Sx Generated.Consts Model.ReteAgenda Model.Incremental Proofs.IncrementalProofs Proofs.IncrementalViewsProofs.
Open Scope Z_scope.

(** every firing of fire_all is for a rule whose condition is true of the matched fact's contents
    at the moment of firing (whatever was inserted, updated, retracted or fired before, and whatever
    the actions did in between); a firing record is produced only in the branch where the matched
    handle is live (see fire_loop), so a retracted fact never causes a firing *)
Theorem C06_fires_only_if_true : forall x x' out,
  fire_all x = (x', out) -> Forall (firing_ok (rules (e_ x))) out.
Proof. exact fire_all_sound. Qed.
Print Assumptions C06_fires_only_if_true.

Theorem C06_fire_loop_sound : forall fuel iter x out x' out',
  fire_loop fuel iter x out = (x', out') ->
  Forall (firing_ok (rules (e_ x))) out -> Forall (firing_ok (rules (e_ x))) out'.
Proof. exact fire_loop_sound. Qed.
Print Assumptions C06_fire_loop_sound.

(** handles are issued in increasing order: never reused *)
Theorem C06_handles_fresh : forall x t d,
  snd (do_insert x t d) = next_h (e_ x) /\ next_h (e_ (fst (do_insert x t d))) = next_h (e_ x) + 1.
Proof. exact do_insert_handle. Qed.
Print Assumptions C06_handles_fresh.

(** In EVERY reachable state (any rule set, any history of insert / update / retract / fire_all / reset, actions that
    modify or retract included): a fact is in the full listing iff it is found by its handle iff it is listed under its
    type, and then it is not retracted ... *)
Theorem C06_views_agree : forall sorted rs ops f,
  let e := e_ (exec sorted {| e_ := init rs; matched := [] |} ops) in
  (In f (all_live e) <-> live_fact e (f_h f) = Some f)
  /\ (In f (all_live e) <-> In f (facts_of_type e (f_type f)))
  /\ (In f (all_live e) <-> In f (wm e) /\ f_retracted f = false).
Proof. intros sorted rs ops f. apply views_agree. apply exec_inv. apply init_inv. Qed.
Print Assumptions C06_views_agree.

(** ... a retracted fact is in none of the three views (and no other fact answers to its handle) ... *)
Theorem C06_retracted_in_no_view : forall sorted rs ops f,
  let e := e_ (exec sorted {| e_ := init rs; matched := [] |} ops) in
  In f (wm e) -> f_retracted f = true ->
  live_fact e (f_h f) = None /\ ~ In f (all_live e) /\ ~ In f (facts_of_type e (f_type f)).
Proof. intros sorted rs ops f. apply retracted_in_no_view. apply exec_inv. apply init_inv. Qed.
Print Assumptions C06_retracted_in_no_view.

(** ... and handles are pairwise distinct and below the next handle to be issued: never reused. *)
Theorem C06_handles_unique : forall sorted rs ops,
  let x := exec sorted {| e_ := init rs; matched := [] |} ops in
  NoDup (map f_h (wm (e_ x))) /\ forall h, In h (map f_h (wm (e_ x))) -> 1 <= h < next_h (e_ x).
Proof. intros sorted rs ops. destruct (exec_inv sorted ops _ (init_inv rs)) as (A & _ & B). split; assumption. Qed.
Print Assumptions C06_handles_unique.

(** non-vacuity: the pre-repair witness — insert amount 200, update to 5, fire_all fires nothing;
    and the monitor accepts the model's run *)
Example C06_example :
  let r := {| r_name := 1; r_type := 0; r_prio := 0; r_noloop := true; r_cond := CAtom 0 CGt 100; r_action := ANop |} in
  let ops := [OInsert 0 [(0, 200)]; OUpdate 1 [(0, 5)]; OFire; OInsert 0 [(0, 300)]; OFire] in
  let obs := run_from false {| e_ := init [r]; matched := [] |} ops in
  map (fun o => match o with L [res; _] => res | _ => L [] end) obs =
    [L [A 1]; L [A 1]; L []; L [A 2]; L [L [A 1; A 2; L [L [A 0; A 300]]]]]
  /\ ok_from false [r] {| m_issued := []; m_live := []; m_fires := 0 |} {| w_get := []; w_types := [[]; []; []]; w_all := [] |} ops obs = true.
Proof. vm_compute. split; reflexivity. Qed.
