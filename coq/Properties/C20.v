(** C20 — Restoring a checkpoint reproduces the state at checkpoint time.
    Statements only; proofs in Proofs/StateProofs.v.  Model of the repaired checkpoint ids
    (fix commits 72cdb63, 4a8a109) with an explicit clock and an abstract file system. *)
From RRE Require Import Base.Sx Model.State Proofs.StateProofs.
Open Scope N_scope.

(** checkpoints taken at different moments stay distinguishable — also within one millisecond:
    the id chosen for a new checkpoint is never one of the retained ids, and the retained ids are
    pairwise distinct after every operation history *)
Theorem C20_fresh_id_unused : forall s, ~ In (fresh_id s) (ckpts s).
Proof. exact fresh_not_used. Qed.
Print Assumptions C20_fresh_id_unused.

Theorem C20_ids_distinct : forall ops mx, NoDup (ckpts (exec (init mx) ops)).
Proof. exact ids_always_distinct. Qed.
Print Assumptions C20_ids_distinct.

(** whatever is put, updated, deleted, checkpointed (completely or interrupted at ANY of the crash
    points, with any prefix of the file written) or restored afterwards, the file of a checkpoint
    that is still retained is unchanged: a crash never damages an earlier checkpoint *)
Theorem C20_earlier_checkpoints_untouched : forall ops s id x,
  NoDup (ckpts s) -> In id (ckpts s) -> fs_get (fs s) id = Some x ->
  (forall k, In id (ckpts (exec s (firstn k ops)))) ->
  fs_get (fs (exec s ops)) id = Some x.
Proof. exact retained_file_stable. Qed.
Print Assumptions C20_earlier_checkpoints_untouched.

(** end to end: checkpoint in any reachable state, any later history that keeps it retained,
    restore: every key reads exactly what it read at checkpoint time (unexpired keys and values) *)
Theorem C20_restore_is_snapshot : forall ops0 ops mx k,
  let s0 := exec (init mx) ops0 in
  let '(s1, okc) := step s0 Checkpoint in
  let id := fresh_id s0 in
  In id (ckpts s1) ->
  (forall n, In id (ckpts (exec s1 (firstn n ops)))) ->
  let s2 := exec s1 ops in
  let j := length (issued s0) in
  nth_error (issued s2) j = Some id ->
  get (fst (step s2 (Restore j))) k = get s0 k /\ snd (step s2 (Restore j)) = true.
Proof. exact restore_is_snapshot. Qed.
Print Assumptions C20_restore_is_snapshot.

(** restoring an interrupted checkpoint yields its complete state or an error (store untouched),
    never a partial state — for every crash point and every written prefix *)
Theorem C20_crash_atomic : forall s c p k,
  Inv s -> 1 <= c <= 5 -> fs_get (fs s) (fresh_id s) = None ->
  let s1 := fst (step s (Crash c p)) in
  let j := length (issued s) in
  let '(s2, okr) := step s1 (Restore j) in
  (okr = false /\ s2 = s1) \/ (okr = true /\ get s2 k = get s k).
Proof. exact crash_atomic. Qed.
Print Assumptions C20_crash_atomic.

(** non-vacuity: three checkpoints within one millisecond with max_checkpoints = 1 get three
    different ids; restoring the retained one gives its own state *)
Example C20_example :
  let ops := [Put 0 1; Checkpoint; Put 0 2; Checkpoint; Put 0 3; Checkpoint; Put 0 9; Restore 2] in
  let s := exec (init 1) ops in
  issued s = [(1000, 0); (1000, 1); (1000, 2)] /\ get s 0 = Some 3%Z.
Proof. vm_compute. split; reflexivity. Qed.
