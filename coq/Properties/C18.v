(** C18 — Module imports stay acyclic and visibility matches the declarations.
    Statements only; proofs in Proofs/ModuleProofs.v.  Model of the repaired code (delete_module
    also drops import declarations naming the deleted module). *)
From RRE Require Import Base.Sx Model.Module Proofs.ModuleProofs Proofs.ModuleAcyclicProofs Proofs.ModuleListingProofs.
Open Scope N_scope.

(** A refused operation (in particular an import that would close a cycle) changes nothing. *)
Theorem C18_refused_noop : forall g o g', step g o = (g', false) -> g' = g.
Proof. exact refused_noop. Qed.
Print Assumptions C18_refused_noop.

Theorem C18_self_import_refused : forall g n t pat re, snd (step g (Import n n t pat re)) = false.
Proof. exact self_import_refused. Qed.
Print Assumptions C18_self_import_refused.

(** After every operation sequence, every declared import names an existing module. *)
Theorem C18_declared_sources_exist : forall ops, Inv (mods (exec init ops)).
Proof. intro ops. apply exec_Inv. exact Inv_init. Qed.
Print Assumptions C18_declared_sources_exist.

(** Visibility queries on existing modules always answer (never Err) ... *)
Theorem C18_visibility_total : forall ops r to,
  exists_mod (mods (exec init ops)) to = true -> is_rule_visible (exec init ops) r to <> 2.
Proof. exact visibility_total. Qed.
Print Assumptions C18_visibility_total.

(** ... and a rule is visible exactly when the module owns it or imports it, with a matching
    pattern, from a module that exports it (the first-match loop equals the declarative test). *)
Theorem C18_visible_iff_declared : forall ops r to,
  is_rule_visible (exec init ops) r to = spec_visible (mods (exec init ops)) r to.
Proof. exact visible_iff_declared. Qed.
Print Assumptions C18_visible_iff_declared.

(** The headline: after EVERY operation sequence no existing module reaches itself through one or more
    declared imports ([dedge ms a b]: module a exists and declares an import from b). *)
Theorem C18_imports_stay_acyclic : forall ops a, ~ path (dedge (mods (exec init ops))) a a.
Proof. exact imports_acyclic. Qed.
Print Assumptions C18_imports_stay_acyclic.

(** The separate import_graph that detect_cycle reads is, in every reachable state, exactly the set of
    declared imports of the existing modules (the "two records that must agree"). *)
Theorem C18_graph_is_declarations : forall ops a b,
  In b (graph_of (graph (exec init ops)) a) <-> dedge (mods (exec init ops)) a b.
Proof. exact graph_is_declarations. Qed.
Print Assumptions C18_graph_is_declarations.

(** An import is refused exactly for the documented reasons: a module is missing, or it would close a cycle. *)
Theorem C18_import_refused_only_for_cause : forall ops to from t pat re,
  snd (step (exec init ops) (Import to from t pat re)) = false ->
  find_mod (mods (exec init ops)) from = None \/ find_mod (mods (exec init ops)) to = None
  \/ to = from \/ path (dedge (mods (exec init ops))) from to.
Proof. exact import_refused_only_for_cause. Qed.
Print Assumptions C18_import_refused_only_for_cause.

Theorem C18_import_closing_a_cycle_refused : forall ops to from t pat re,
  to = from \/ path (dedge (mods (exec init ops))) from to ->
  snd (step (exec init ops) (Import to from t pat re)) = false.
Proof. exact import_closing_a_cycle_refused. Qed.
Print Assumptions C18_import_closing_a_cycle_refused.

(** the breadth-first search with its fuel is a correct reachability test on ANY graph *)
Theorem C18_detect_cycle_is_reachability : forall g to from,
  detect_cycle g to from = true <-> to <> from /\ ~ path (fun a b => In b (graph_of (graph g) a)) from to.
Proof.
  intros g to from. split; [exact (detect_cycle_sound g to from)|].
  intros [Hne Hnp]. destruct (detect_cycle g to from) eqn:E; [reflexivity|].
  destruct (detect_cycle_complete g to from E) as [H|H]; contradiction.
Qed.
Print Assumptions C18_detect_cycle_is_reachability.

(** The listing agrees with the visibility test (after the repair "get_visible_rules lists re-exported rules"): in every
    reachable state the listing of an existing module never fails and contains exactly the rules that exist in some module
    and that is_rule_visible reports visible to it - own rules, rules exported by an imported module, and rules an imported
    module re-exports from its own imports. *)
Theorem C18_listing_is_visibility : forall ops n r,
  exists_mod (mods (exec init ops)) n = true ->
  exists l, get_visible_rules (exec init ops) n = Some l
            /\ (mem_str r l = true <-> is_rule_visible (exec init ops) r n = 1 /\ mem_str r (all_rules (mods (exec init ops))) = true).
Proof. intros ops n r. apply listing_is_visibility. apply exec_Inv. apply Inv_init. Qed.
Print Assumptions C18_listing_is_visibility.

(** the repaired witness: B owns r and exports everything; C imports B and re-exports; A imports C: r is visible to A and listed *)
Example C18_listing_example :
  let a := [65] in let b := [66] in let c := [67] in let r := [114] in
  let g := exec init [Create a; Create b; Create c; AddRule b r; SetExport b ExAll; SetExport c ExAll;
                      Import c b ImAllRules [star] (Some [[star]]); Import a c ImAllRules [star] None] in
  is_rule_visible g r a = 1 /\ option_map (mem_str r) (get_visible_rules g a) = Some true.
Proof. vm_compute. split; reflexivity. Qed.

(** non-vacuity + the repaired witness: A imports B; delete B; recreate B; B imports A is accepted
    only because the stale declaration is gone, and the declared relation stays acyclic. *)
Example C18_example :
  let a := [65] in let b := [66] in
  let ops := [Create a; Create b; Import a b ImAllRules [star] None; Delete b; Create b;
              Import b a ImAllRules [star] None; Import a b ImAllRules [star] None] in
  map snd (map (fun k => step (exec init (firstn k ops)) (nth k ops (Create []))) [0;1;2;3;4;5;6]%nat)
    = [true; true; true; true; true; true; false]
  /\ decl_acyclic (mods (exec init ops)) = true
  /\ is_rule_visible (exec init ops) [97; 98] a = 0.
Proof. vm_compute. repeat split. Qed.
