(** C18 — Module imports stay acyclic and visibility matches the declarations.
    Statements only; proofs in Proofs/ModuleProofs.v.  Model of the repaired code (delete_module
    also drops import declarations naming the deleted module). *)
From RRE Require Import Base.Sx Model.Module Proofs.ModuleProofs.
Open Scope N_scope.

(** A refused operation (in particular an import that would close a cycle) changes nothing. *)
Theorem C18_refused_noop : forall g o g', step g o = (g', false) -> g' = g.
Proof. exact refused_noop. Qed.
Print Assumptions C18_refused_noop.

Theorem C18_self_import_refused : forall g n t pat re, snd (step g (Import n n t pat re)) = false.
Proof. exact self_import_refused. Qed.
Print Assumptions C18_self_import_refused.

(** After every operation sequence, every declared import names an existing module. *)
Theorem C18_declared_sources_exist : forall ops, Inv (mods (exec init ops)).
Proof. intro ops. apply exec_Inv. exact Inv_init. Qed.
Print Assumptions C18_declared_sources_exist.

(** Visibility queries on existing modules always answer (never Err) ... *)
Theorem C18_visibility_total : forall ops r to,
  exists_mod (mods (exec init ops)) to = true -> is_rule_visible (exec init ops) r to <> 2.
Proof. exact visibility_total. Qed.
Print Assumptions C18_visibility_total.

(** ... and a rule is visible exactly when the module owns it or imports it, with a matching
    pattern, from a module that exports it (the first-match loop equals the declarative test). *)
Theorem C18_visible_iff_declared : forall ops r to,
  is_rule_visible (exec init ops) r to = spec_visible (mods (exec init ops)) r to.
Proof. exact visible_iff_declared. Qed.
Print Assumptions C18_visible_iff_declared.

(** non-vacuity + the repaired witness: A imports B; delete B; recreate B; B imports A is accepted
    only because the stale declaration is gone, and the declared relation stays acyclic. *)
Example C18_example :
  let a := [65] in let b := [66] in
  let ops := [Create a; Create b; Import a b ImAllRules [star] None; Delete b; Create b;
              Import b a ImAllRules [star] None; Import a b ImAllRules [star] None] in
  map snd (map (fun k => step (exec init (firstn k ops)) (nth k ops (Create []))) [0;1;2;3;4;5;6]%nat)
    = [true; true; true; true; true; true; false]
  /\ decl_acyclic (mods (exec init ops)) = true
  /\ is_rule_visible (exec init ops) [97; 98] a = 0.
Proof. vm_compute. repeat split. Qed.
