(** C14 — Stream inner join equals the reference join for every interleaving.
    Statements only; proofs in Proofs/JoinProofs.v.  The join condition [cond] and the window [w]
    are arbitrary (universally quantified). *)
From RRE Require Import Base.Sx Model.Join Proofs.JoinProofs Proofs.JoinWmProofs.
From Coq Require Import Permutation.
Open Scope Z_scope.

(** The pairs emitted over a run are exactly the (left, right) pairs with equal join keys,
    timestamps no further apart than the window and a true join condition, each emitted once
    (a permutation of the reference join: same multiset), for EVERY interleaving of the arrivals of
    the two streams, any number of events and keys, keyless events included.
    Partial w.r.t. the property: histories here contain arrivals only; watermark advances
    (re-scan + eviction) are covered by the monitor Join.ok on the implementation, not by this theorem. *)
Theorem C14_inner_join_exact_arrivals_partial : forall cond w ops,
  arrivals_only ops ->
  Permutation (concat (run_from cond w init ops)) (ref_join cond w (lefts ops) (rights ops)).
Proof. exact inner_join_exact. Qed.
Print Assumptions C14_inner_join_exact_arrivals_partial.

(** The result does not depend on how the arrivals of the two streams are interleaved. *)
Theorem C14_interleaving_independent : forall cond w ops1 ops2,
  arrivals_only ops1 -> arrivals_only ops2 ->
  lefts ops1 = lefts ops2 -> rights ops1 = rights ops2 ->
  Permutation (concat (run_from cond w init ops1)) (concat (run_from cond w init ops2)).
Proof. exact inner_join_interleaving_indep. Qed.
Print Assumptions C14_interleaving_independent.

(** The full statement: histories of arrivals of the two streams in ANY interleaving WITH watermark updates anywhere.
    As long as no update finds an expired event ([may_evict w [] ops = false]: for every update z and every event e
    that arrived before it, z - ts(e) <= w), the emitted pairs are exactly the reference join, each pair once: the
    re-scan of update_watermark emits nothing (every satisfying buffered pair was emitted and flagged on both sides
    when its later event arrived - invariant FlagInv) and the eviction pass returns the buffers unchanged. *)
Theorem C14_inner_join_exact_until_eviction : forall cond w ops, may_evict w [] ops = false ->
  Permutation (concat (run_from cond w init ops)) (ref_join cond w (lefts ops) (rights ops)).
Proof. exact inner_join_exact_until_eviction. Qed.
Print Assumptions C14_inner_join_exact_until_eviction.

Theorem C14_interleaving_independent_until_eviction : forall cond w ops1 ops2,
  may_evict w [] ops1 = false -> may_evict w [] ops2 = false ->
  lefts ops1 = lefts ops2 -> rights ops1 = rights ops2 ->
  Permutation (concat (run_from cond w init ops1)) (concat (run_from cond w init ops2)).
Proof. exact interleaving_indep_until_eviction. Qed.
Print Assumptions C14_interleaving_independent_until_eviction.

(** StreamJoinManager (Model/JoinMgr.v, Proofs/JoinMgrProofs.v): joins registered under different ids, each over two different
    streams; then ANY traffic - events of any streams (also streams nobody consumes, and streams consumed by several joins) and
    watermarks, in any order.  The pairs handed to the handler of a join are exactly what its node emits on the join's own
    projection of the traffic: every event of its left stream once as a left event, every event of its right stream once as a
    right event, every watermark of either stream once, nothing else, in order.  With the exactness theorem above: until
    something is evicted, each handler receives exactly the reference join of the events of its two streams. *)
From RRE Require Import Model.JoinMgr Proofs.JoinMgrProofs.
Theorem C14_manager_delivers_projection : forall regs evs,
  NoDup (map (fun g => j_id (regjoin g)) regs) -> Forall reg_ok regs -> Forall is_traffic evs ->
  forall g, In g regs ->
  let j := regjoin g in
  delivered (j_id j) (mrun minit (map regop regs ++ evs)) =
  concat (run_from (cond_of (j_kind j)) (j_w j) init (flat_map (jproj j) evs)).
Proof. exact manager_from_empty. Qed.
Print Assumptions C14_manager_delivers_projection.

Theorem C14_manager_join_exact_until_eviction : forall regs evs,
  NoDup (map (fun g => j_id (regjoin g)) regs) -> Forall reg_ok regs -> Forall is_traffic evs ->
  forall g, In g regs ->
  let j := regjoin g in
  let ops := flat_map (jproj j) evs in
  may_evict (j_w j) [] ops = false ->
  Permutation (delivered (j_id j) (mrun minit (map regop regs ++ evs)))
              (ref_join (cond_of (j_kind j)) (j_w j) (lefts ops) (rights ops)).
Proof.
  intros regs evs ND OK T g Hg j ops Hev. unfold j. rewrite (manager_from_empty regs evs ND OK T g Hg).
  apply inner_join_exact_until_eviction. exact Hev.
Qed.
Print Assumptions C14_manager_join_exact_until_eviction.

(** non-vacuity: two keys, a keyless event, window 2, condition on attributes *)
Example C14_example :
  let l i t k a := OLeft {| eid := i; ets := t; ekey := k; eattr := a |} in
  let r i t k a := ORight {| eid := i; ets := t; ekey := k; eattr := a |} in
  let ops := [l 1 5 (Some 7) 0; r 10 6 (Some 7) 1; r 11 9 (Some 7) 1; l 2 8 (Some 7) 0; l 3 8 None 0; r 12 8 (Some 9) 0] in
  concat (run_from (cond_of 1) 2 init ops) = [(1, 10); (2, 10); (2, 11)]
  /\ ok 1 2 ops (run_from (cond_of 1) 2 init ops) = true.
Proof. vm_compute. split; reflexivity. Qed.
Example C14_example_watermarks :
  let l i t k a := OLeft {| eid := i; ets := t; ekey := k; eattr := a |} in
  let r i t k a := ORight {| eid := i; ets := t; ekey := k; eattr := a |} in
  let ops := [l 1 5 (Some 7) 0; OWm 6; r 10 6 (Some 7) 1; OWm 7; l 2 8 (Some 7) 0; OWm 7] in
  may_evict 2 [] ops = false /\ concat (run_from (cond_of 1) 2 init ops) = [(1, 10); (2, 10)].
Proof. vm_compute. split; reflexivity. Qed.
