(** C04 — Parsing GRL yields exactly the rules that were written (statements only; proofs in
    Proofs/GrlProofs.v).  Model/Grl.v: the documented grammar as a syntax tree, what was written as a parsed
    structure ([exp_rule], independent of layout, comments and redundant parentheses by construction), and a
    model of the hand-written splitting algorithm of the condition-tree parser (split_logical_operator /
    parse_when_clause after the repairs listed in known_findings.json).  The regular expressions (rexile) that
    carve a file into rules and a rule into header / when / then are not modelled. *)
From RRE Require Import Base.Sx Base.Float Base.Num Model.ExprShape Model.Forward Model.ForwardSpec Model.Grl Proofs.GrlProofs Proofs.GrlTreeProofs Proofs.SourceTablesProofs.
From RRE Require Generated.Consts.
Open Scope Z_scope.

(** String literals are opaque to the condition splitter: whatever stands between two equal quote characters
    (&&, ||, parentheses, anything but that quote) is copied and never separates conditions - for every
    content, every continuation of the text, every nesting depth. *)
Theorem C04_string_literals_opaque : forall op q s, ((q =? 34) || (q =? 39)) = true -> memc q s = false -> inert op (q :: s ++ [q]).
Proof. exact inert_quoted. Qed.
Print Assumptions C04_string_literals_opaque.

(** Parentheses are respected: a text that may split at its own top level does not split once parenthesised. *)
Theorem C04_parentheses_protect : forall op t, inert_in op t -> op <> 40 -> op <> 41 -> inert op (40 :: t ++ [41]).
Proof. exact inert_paren. Qed.
Print Assumptions C04_parentheses_protect.

(** A top-level separator (&& = 38, || = 124) between two texts that do not split themselves separates
    exactly there, into exactly the two (trimmed) texts. *)
Theorem C04_top_level_separator : forall op a b, op <> 34 -> op <> 39 -> op <> 40 -> op <> 41 ->
  inert op a -> inert op b -> trim ws_unicode b <> [] ->
  split_on op (a ++ [op; op] ++ b) = Some [trim ws_unicode a; trim ws_unicode b].
Proof. exact split_two. Qed.
Print Assumptions C04_top_level_separator.

(** texts are composed: concatenations of inert texts are inert; ordinary characters are inert *)
Theorem C04_inert_compose : forall op a b, inert op a -> inert op b -> inert op (a ++ b).
Proof. exact inert_app. Qed.
Print Assumptions C04_inert_compose.

Theorem C04_ordinary_text_inert : forall op t, forallb (ordinary op) t = true -> inert op t.
Proof. exact inert_ordinary. Qed.
Print Assumptions C04_ordinary_text_inert.

(** The condition-tree parser recovers the written tree.  For EVERY tree of comparisons joined by &&, ||
    and !( ), printed with a parenthesis pair around every compound operand and with ANY number of redundant
    parenthesis pairs anywhere (GParen), whose leaves are neutral texts ([leaf_ok]: not blank at either end,
    not starting with ( or !, copied unchanged by the splitter and by the parenthesis counter), parse_when
    returns exactly that tree: && binds tighter than ||, parentheses and ! are respected, depth unbounded. *)
Theorem C04_condition_tree_roundtrip : forall g, wf_g g -> parse_when_text (pr_g g) = skel g.
Proof. exact parse_when_text_pr. Qed.
Print Assumptions C04_condition_tree_roundtrip.

(** Tie to the source text (Generated/Consts.v is rewritten from /repo by tools/consts.py on every run): every variant named
    by Operator::from_str is a model operator and none is missing; the text the model prints for an operator is mapped back
    to that operator by Operator::from_str; the GRL condition regex offers exactly the operator texts of the model's table in
    the same order (the leftmost alternative wins) and Operator::from_str maps each to the operator the model's table gives.
    Adding, dropping, renaming or reordering an operator in either source table breaks this theorem. *)
Theorem C04_operator_tables_are_the_sources :
  variants_covered = true /\ printed_texts_parse_back = true /\ grl_table_is_source = true.
Proof. exact source_tables_tied. Qed.
Print Assumptions C04_operator_tables_are_the_sources.

(** ... and the leaves of the typed core are such texts: ordinary characters (no quote, parenthesis, & or |),
    optionally followed by a string literal with ANY content but its own quote character *)
Theorem C04_plain_leaf_ok : forall t c r c' r', t = c :: r -> rev t = c' :: r' -> forallb ord2 t = true ->
  ws_unicode c = false -> (c =? 33) = false -> ws_unicode c' = false -> leaf_ok t.
Proof. exact leaf_ok_plain. Qed.
Print Assumptions C04_plain_leaf_ok.

Theorem C04_string_leaf_ok : forall a c r q s, a = c :: r -> forallb ord2 a = true -> ws_unicode c = false -> (c =? 33) = false ->
  ((q =? 34) || (q =? 39)) = true -> memc q s = false -> leaf_ok (a ++ q :: s ++ [q]).
Proof. exact leaf_ok_string. Qed.
Print Assumptions C04_string_leaf_ok.

(** non-vacuity: && binds tighter than ||, ! and redundant parentheses are respected, and a string literal
    containing "&&", ")" and "||" stays one literal:
      ((a == "x && (y" || !(b > 1) && c < 2))   parses as   a == .. || (!(b > 1) && c < 2) *)
Example C04_example :
  match group_of_ptree (parse_when_text
        [40; 40; 97; 32; 61; 61; 32; 34; 120; 32; 38; 38; 32; 40; 121; 34; 32; 124; 124; 32; 33; 40; 98; 32; 62; 32; 49; 41; 32; 38; 38; 32; 99; 32; 60; 32; 50; 41; 41]) with
  | Some (GOr (GSingle c1) (GAnd (GNot (GSingle c2)) (GSingle c3))) =>
      c_val c1 = VStr [120; 32; 38; 38; 32; 40; 121] /\ c_op c2 = OGt /\ c_op c3 = OLt
  | _ => False end.
Proof. vm_compute. repeat split. Qed.

(** THE SPLITTING LAYER below the regular expressions (Model/GrlSplit.v, Proofs/GrlSplitProofs.v): the statement split of
    parse_then_clause, split_arguments, find_outside_strings and the append / assignment classification of a statement.
    A "piece" is text that leaves the quote automaton outside a literal and holds no separator outside its literals. *)
From RRE Require Import Model.GrlSplit Proofs.GrlSplitProofs.

(** string literals are opaque: a literal in either quote character, whatever it contains except its own quote - separators,
    the other quote character, '=', parentheses - is a piece for every separator that is not a quote *)
Theorem C04_literal_is_opaque_to_splitting : forall sep x content,
  is_quote x = true -> is_quote sep = false -> ~ In x content -> piece_ok sep (literal x content).
Proof. exact literal_is_piece. Qed.
Print Assumptions C04_literal_is_opaque_to_splitting.

Theorem C04_pieces_compose : forall sep a b, piece_ok sep a -> piece_ok sep b -> piece_ok sep (a ++ b).
Proof. exact pieces_compose. Qed.
Print Assumptions C04_pieces_compose.

(** the action list: statements written one after the other with ';' between them come back as exactly those statements
    (trimmed, empty ones dropped), and the arguments of a call as exactly the written arguments *)
Theorem C04_then_statements_roundtrip : forall ps, ps <> [] -> Forall (piece_ok 59) ps ->
  then_statements (join 59 ps) = filter nonempty (map trimw ps).
Proof. exact then_statements_roundtrip. Qed.
Print Assumptions C04_then_statements_roundtrip.

Theorem C04_split_arguments_roundtrip : forall ps, ps <> [] -> Forall (piece_ok 44) ps -> split_arguments (join 44 ps) = ps.
Proof. exact split_arguments_roundtrip. Qed.
Print Assumptions C04_split_arguments_roundtrip.

(** and the two slices parse_action_statement takes around `+=` / `=` are on character boundaries, for every statement text *)
Theorem C04_statement_classification_total : forall st, classify st <> SPanic.
Proof. exact classify_no_panic. Qed.
Print Assumptions C04_statement_classification_total.

(** the braces of a rule (repairs 631953a: GRLParser::parse_multiple_rules / parse_single_rule now use find_outside_strings):
    whatever the string literals of the rule contain, the rule block ends at the first `}` written outside a literal and the
    attributes end at the first `{` written outside a literal - [p] is everything written before that brace *)
Theorem C04_rule_block_ends_at_the_written_brace : forall p rest, piece_ok 125 p ->
  find_outside (p ++ 125 :: rest) [125] = Some (ExprShape.blen p).
Proof. intros p rest H. exact (brace_found_after_piece 125 p rest eq_refl H). Qed.
Print Assumptions C04_rule_block_ends_at_the_written_brace.

Theorem C04_attributes_end_at_the_written_brace : forall p rest, piece_ok 123 p ->
  find_outside (p ++ 123 :: rest) [123] = Some (ExprShape.blen p).
Proof. intros p rest H. exact (brace_found_after_piece 123 p rest eq_refl H). Qed.
Print Assumptions C04_attributes_end_at_the_written_brace.

(** the when / then split (repair fded141, Model/GrlSplit.v split_when_then, compared with the code through a hook on every
    generated body): a string literal of the conditions is opaque to the search for the `then` keyword - the scan leaves it as
    it entered it, whatever the literal contains (` then `, braces, the other quote character) *)
Theorem C04_then_inside_a_literal_is_not_the_keyword : forall x content rest acc first,
  is_quote x = true -> ~ In x content ->
  scan_then (literal x content ++ rest) None acc first = scan_then rest None (rev (literal x content) ++ acc) false.
Proof. exact scan_then_through_literal. Qed.
Print Assumptions C04_then_inside_a_literal_is_not_the_keyword.

(** ... and the split is at the written `then`: conditions [c] that the scan passes (no EARLIER whitespace outside their literals
    is followed by `then`, whitespace and a rest - [passes], which a literal never falsifies by the theorem above) and that end
    outside a literal, then whitespace, `then`, whitespace and actions that start with a visible character, give exactly (c, actions) *)
Theorem C04_split_at_the_written_then : forall c x w2 w3 y a,
  c <> [] -> passes c (x :: w2 ++ s_then ++ w3 ++ y :: a) None true = true -> scan None c = None ->
  ExprShape.ws_unicode x = true -> all_ws w2 -> w3 <> [] -> all_ws w3 -> ExprShape.ws_unicode y = false ->
  scan_then (c ++ x :: w2 ++ s_then ++ w3 ++ y :: a) None [] true = Some (c, y :: a).
Proof. exact scan_then_splits_at_the_written_then. Qed.
Print Assumptions C04_split_at_the_written_then.

(** the documented witness of the former finding: ` when X.a == "now then go" then X.b = 2; ` *)
Example C04_when_then_example :
  split_when_then [32;119;104;101;110;32;88;46;97;32;61;61;32;34;110;111;119;32;116;104;101;110;32;103;111;34;32;116;104;101;110;32;88;46;98;32;61;32;50;59;32]
  = Some ([88;46;97;32;61;61;32;34;110;111;119;32;116;104;101;110;32;103;111;34], [88;46;98;32;61;32;50;59;32]).
Proof. vm_compute. reflexivity. Qed.

(** non-vacuity: `X.b = "a;b"; Log("x, y = z", 1); X.c += 'it;s';` - three statements, an assignment, a call, an append *)
Example C04_split_example :
  parse_then [88;46;98;32;61;32;34;97;59;98;34;59;32;76;111;103;40;34;120;44;32;121;32;61;32;122;34;44;32;49;41;59;32;88;46;99;32;43;61;32;39;105;116;59;115;39;59]
  = [SSet [88;46;98] [34;97;59;98;34]; SOther [76;111;103;40;34;120;44;32;121;32;61;32;122;34;44;32;49;41]; SAppend [88;46;99] [39;105;116;59;115;39]]
  /\ split_arguments [34;120;44;32;121;34;44;32;49] = [[34;120;44;32;121;34]; [32;49]].
Proof. vm_compute. split; reflexivity. Qed.
