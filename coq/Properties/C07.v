(** C07 — RETE agenda order, no-loop, group exclusivity and termination.
    Statements only; proofs in Proofs/ReteAgendaProofs.v.  Bounds come from the current source through
    Generated/Consts.v (tools/consts.py); TypedReteUlEngine::fire_all is the repaired one (748fa6c). *)
From RRE Require Import Base.Sx Generated.Consts Model.ReteAgenda Proofs.ReteAgendaProofs Proofs.ReteAgendaHistoryProofs Proofs.AgendaOrdProofs.
Open Scope Z_scope.

(** get_next_activation returns an activation that is eligible — not a no-loop rule that fired
    since the last reset, not of an activation group that already fired, not of a locked group —
    and that is greatest (descending salience, earlier-created first among equals) among the
    eligible pending activations of the agenda group it is taken from. *)
Theorem C07_next_is_eligible_and_greatest : forall n a a' m,
  AllDistinct (groups a) -> get_next n a = (a', Some m) ->
  eligible a m = true /\
  exists heap, grp_get (groups a) (focus a') = Some heap /\ In m heap /\
               forall y, In y heap -> eligible a y = true -> better y m = false.
Proof. exact next_is_eligible_and_greatest. Qed.
Print Assumptions C07_next_is_eligible_and_greatest.

(** [better], the order all of these statements use, IS the comparison chain of the current source: tools/consts.py reads
    `impl Ord for Activation` (rete/agenda.rs) on every run into Generated/Consts.v [agenda_ord] - a list of (field, reversed?)
    pairs - and [better a b] holds exactly when a is greater than b in that lexicographic order (salience ascending as
    "greater", then creation time reversed: earlier-created is greater).  A comparator that ties on another field, or in
    another direction, no longer checks here. *)
Theorem C07_ordering_is_the_sources : forall a b,
  better a b = match lex_cmp agenda_ord a b with Gt => true | _ => false end.
Proof. exact better_is_source_ord. Qed.
Print Assumptions C07_ordering_is_the_sources.

(** popping the heap until an eligible activation appears = taking the greatest eligible one and
    dropping everything that ranked above it *)
Theorem C07_pop_loop_spec : forall a n l,
  (length l < n)%nat -> NoDup (map a_created l) -> NoDup (map a_id l) ->
  pop_eligible n a l =
  match best_eligible a l with
  | Some m => (Some m, filter (fun y => negb (a_id y =? a_id m) && negb (better y m)) l)
  | None => (None, [])
  end.
Proof. exact pop_eligible_spec. Qed.
Print Assumptions C07_pop_loop_spec.

(** every history of add_activation / get_next_activation / mark_rule_fired / set_focus / reset
    (activations created in sequence) is observed exactly as the specification says: this is also
    "the monitor accepts every run of the model" for agenda cases *)
Theorem C07_agenda_histories_meet_spec : forall ops,
  HistOk 0 ops -> run_from (init, None) ops = spec_run_from (init, None) ops.
Proof. exact agenda_model_meets_spec. Qed.
Print Assumptions C07_agenda_histories_meet_spec.

(** every fire_all entry point returns after at most its iteration bound, for every rule set *)
Theorem C07_ul_fire_all_bounded : forall rules, (snd (ul_fire_all rules) <= ul_max_iterations + 1)%N.
Proof. exact ul_fire_all_bounded. Qed.
Print Assumptions C07_ul_fire_all_bounded.

Theorem C07_typed_fire_all_bounded : forall rules,
  typed_max_iterations <> None /\ (snd (typed_fire_all rules) <= typed_bound + 1)%N.
Proof. exact typed_fire_all_bounded. Qed.
Print Assumptions C07_typed_fire_all_bounded.

Theorem C07_incr_fire_all_bounded : forall rules, (snd (incr_fire_all rules) <= incr_max_iterations + 1)%N.
Proof. exact incr_fire_all_bounded. Qed.
Print Assumptions C07_incr_fire_all_bounded.

(** Over whole histories of add / next / mark-fired / set-focus / reset from the initial agenda (no side condition):
    [hist_sound] threads the list of activations marked fired since the last reset and demands, at every
    get_next_activation that returns an activation x, that x is [fresh] for that list - if x is a no-loop rule, no
    activation of that rule has been marked fired since the last reset (a no-loop rule fires at most once between resets);
    if x belongs to an activation group, no member of that group has been marked fired since the last reset (at most one
    rule of an activation group fires); if x is lock-on-active, its agenda group has not been locked since the last reset. *)
Theorem C07_histories_fire_at_most_once : forall ops, hist_sound (init, None) [] ops.
Proof. exact agenda_histories_sound. Qed.
Print Assumptions C07_histories_fire_at_most_once.

Example C07_histories_example :
  let x := {| a_id := 0; a_name := 7; a_sal := 1; a_agroup := None; a_group := 0; a_noloop := true; a_lock := false; a_autofocus := false; a_created := 0 |} in
  let y := {| a_id := 1; a_name := 7; a_sal := 1; a_agroup := None; a_group := 0; a_noloop := true; a_lock := false; a_autofocus := false; a_created := 1 |} in
  map (fun o => match o with L [_; r] => r | _ => L [] end)
      (run_from (init, None) [OAdd x; OAdd y; ONext; OMark; ONext; OReset; OAdd y; ONext])
  = [L []; L []; L [A 0]; L []; L []; L []; L []; L [A 1]].
Proof. vm_compute. reflexivity. Qed.

(** non-vacuity: the pre-repair witness (one always-true rule without no-loop) fires exactly
    bound times in the typed engine and 1000 times in the incremental one *)
Example C07_example :
  let r := [{| c_name := 0; c_prio := 0; c_noloop := false; c_true := true |}] in
  length (fst (typed_fire_all r)) = 100%nat /\ length (fst (incr_fire_all r)) = 1000%nat
  /\ length (fst (ul_fire_all r)) = 1%nat.
Proof. vm_compute. repeat split. Qed.
