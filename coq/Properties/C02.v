(** C02 — Firing order and rule attributes are honoured on every run.
    Statements only; proofs in Proofs/EngineProofs.v.  All theorems hold for EVERY condition
    language and action semantics; the model includes the repair b4b5b52 (an ActivateAgendaGroup
    action activates its group once). *)
From RRE Require Import Base.Sx Model.Engine Proofs.EngineProofs.
From Coq Require Import Sorting.Sorted.
Open Scope Z_scope.

(** the rule vector is in descending salience; a new rule goes after every stored rule of greater
    or equal salience (insertion order among equals) *)
Theorem C02_rules_sorted : forall (cond action : Type) (rs : list (rule cond action)),
  StronglySorted (desc cond action) (rules (fold_left add_rule rs engine_init)).
Proof. exact rules_sorted. Qed.
Print Assumptions C02_rules_sorted.

Theorem C02_insertion_order_among_equals : forall (cond action : Type) (x : rule cond action) l,
  exists a b, insert_stable x l = a ++ x :: b /\ l = a ++ b /\ Forall (fun y => r_sal x <= r_sal y) a.
Proof. exact insert_stable_after_equals. Qed.
Print Assumptions C02_insertion_order_among_equals.

(** within one pass the firings are a subsequence of the rule vector: descending salience,
    insertion order among equals *)
Theorem C02_pass_order : forall (cond action store : Type) (eval : cond -> store -> bool)
    (act : action -> store -> store * list effect) rs t (e : engine cond action) s,
  subseq (snd (pass eval act rs t e s)) (map r_name rs).
Proof. exact pass_subseq. Qed.
Print Assumptions C02_pass_order.

(** every firing passed every gate at the moment its rule was considered: enabled, in the focused
    agenda group, inside its date window, not blocked by lock-on-active, its activation group not
    fired in this pass, not a no-loop rule that already fired; and its condition was true *)
Theorem C02_gates_respected : forall (cond action store : Type) (eval : cond -> store -> bool)
    (act : action -> store -> store * list effect) rs t e s e0 s0 (r : rule cond action),
  In (e0, s0, r) (pass_log cond action store eval act rs t e s) ->
  In r rs /\ eval (r_cond r) s0 = true /\
  r_enabled r = true /\ group_of r = active (ag e0) /\ active_at r t = true /\
  can_fire_lock (ag e0) r = true /\
  (forall g, r_actgroup r = Some g -> memZ g (act_fired e0) = false) /\
  (r_noloop r = true -> memZ (r_name r) (fired_global e0) = false).
Proof. exact gates_respected. Qed.
Print Assumptions C02_gates_respected.

Theorem C02_log_is_trace : forall (cond action store : Type) (eval : cond -> store -> bool)
    (act : action -> store -> store * list effect) rs t (e : engine cond action) s,
  map (fun x => r_name (snd x)) (pass_log cond action store eval act rs t e s) = snd (pass eval act rs t e s).
Proof. exact pass_log_names. Qed.
Print Assumptions C02_log_is_trace.

(** a no-loop rule fires at most once per pass, is recorded when it fires, and never fires while
    it is recorded (the record only grows until reset_no_loop_tracking) *)
Theorem C02_no_loop_once_per_pass : forall (cond action store : Type) (eval : cond -> store -> bool)
    (act : action -> store -> store * list effect) rs t (e : engine cond action) s n,
  NoDup (map r_name rs) ->
  (forall r, In r rs -> r_name r = n -> r_noloop r = true) ->
  (count n (snd (pass eval act rs t e s)) <= 1)%nat /\
  (In n (snd (pass eval act rs t e s)) -> memZ n (fired_global (fst (fst (pass eval act rs t e s)))) = true).
Proof. exact pass_noloop_once. Qed.
Print Assumptions C02_no_loop_once_per_pass.

Theorem C02_no_loop_blocked_while_recorded : forall (cond action store : Type) (eval : cond -> store -> bool)
    (act : action -> store -> store * list effect) rs t (e : engine cond action) s n,
  memZ n (fired_global e) = true ->
  (forall r, In r rs -> r_name r = n -> r_noloop r = true) ->
  ~ In n (snd (pass eval act rs t e s)) /\ memZ n (fired_global (fst (fst (pass eval act rs t e s)))) = true.
Proof. exact pass_noloop. Qed.
Print Assumptions C02_no_loop_blocked_while_recorded.

(** ... and over WHOLE HISTORIES of engine calls (Proofs/EngineHistoryProofs.v): any number of execute calls with any number
    of cycles each, set / pop / clear focus, engine.activate_agenda_group, enabling and disabling rules, removing rules and adding new ones in
    between - as long as reset_no_loop_tracking is not called (and no rule that is not no-loop is added under the same name), a
    no-loop rule fires at most once in total, and not at all once it is recorded.
    ([hfired] is the concatenation of the firing sequences of the history's execute calls, the sequence the harness
    observes through the trace fact.) *)
From RRE Require Import Model.EngineConc Proofs.EngineHistoryProofs.
Theorem C02_no_loop_once_per_history : forall ops (es : cengine * store) n,
  no_reset_for n ops ->
  NoDup (map r_name (rules (fst es))) ->
  (forall r, In r (rules (fst es)) -> r_name r = n -> r_noloop r = true) ->
  (count n (hfired es ops) <= 1)%nat /\
  (memZ n (fired_global (fst es)) = true -> ~ In n (hfired es ops)).
Proof. intros ops es n NR ND NL. apply history_noloop_once; [exact NR|split; assumption]. Qed.
Print Assumptions C02_no_loop_once_per_history.

(** the same for one execute of any engine instance (every condition language and action semantics), across its cycles *)
Theorem C02_no_loop_once_per_execute : forall (cond action store : Type) (eval : cond -> store -> bool)
    (act : action -> store -> store * list effect) mc t (e : engine cond action) s n,
  NoDup (map r_name (rules e)) ->
  (forall r, In r (rules e) -> r_name r = n -> r_noloop r = true) ->
  (count n (concat (res_trace (snd (execute eval act mc t e s)))) <= 1)%nat /\
  (memZ n (fired_global e) = true -> ~ In n (concat (res_trace (snd (execute eval act mc t e s))))).
Proof.
  intros cond action store eval act mc t e s n ND NL.
  destruct (execute_noloop cond action store eval act mc t e s n (conj ND NL)) as (_ & HM & HC & _).
  split; [exact HC|intros Hm; apply HM; exact Hm].
Qed.
Print Assumptions C02_no_loop_once_per_execute.

(** at most one rule of an activation group fires per pass (it is the first one in pass order
    that passed the other gates with a true condition, by C02_pass_order / C02_gates_respected) *)
Theorem C02_activation_group_one : forall (cond action store : Type) (eval : cond -> store -> bool)
    (act : action -> store -> store * list effect) rs t (e : engine cond action) s g,
  (length (filter (fun x => match r_actgroup (snd x) with Some g' => Z.eqb g' g | None => false end)
                  (pass_log cond action store eval act rs t e s)) <= 1)%nat.
Proof. exact actgroup_at_most_one. Qed.
Print Assumptions C02_activation_group_one.

(** lock-on-active: after it fired, the rule is blocked, and it stays blocked through other
    firings, focus changes to other groups, pop and clear — i.e. until its own group is activated again *)
Theorem C02_lock_blocks_after_fire : forall (cond action : Type) (a : agenda) (r : rule cond action),
  r_lock r = true -> can_fire_lock (mark_lock a r) r = false.
Proof. exact lock_blocks_after_fire. Qed.
Print Assumptions C02_lock_blocks_after_fire.

Theorem C02_lock_stays_blocked : forall (cond action : Type) (a : agenda) (r r' : rule cond action) g,
  can_fire_lock a r = false ->
  can_fire_lock (mark_lock a r') r = false /\
  (g <> group_of r -> can_fire_lock (set_focus a g) r = false) /\
  can_fire_lock (pop_focus a) r = false /\ can_fire_lock (clear_focus a) r = false.
Proof.
  intros cond action a r r' g H. split; [apply lock_stays_blocked_mark; exact H|].
  split; [intro Hne; apply lock_stays_blocked_other_focus; assumption|apply lock_stays_blocked_pop_clear; exact H].
Qed.
Print Assumptions C02_lock_stays_blocked.

(** non-vacuity + the repaired witness: A activates group 1; B (group 1, lock-on-active) fires once *)
From RRE Require Import Model.EngineConc.
Example C02_example :
  let ra := {| r_name := 1; r_sal := 10; r_enabled := true; r_noloop := true; r_lock := false; r_agenda := None; r_actgroup := None;
               r_from := None; r_until := None; r_cond := [(0, CEq, 0)]; r_actions := [AFocus 1] |} in
  let rb := {| r_name := 2; r_sal := 0; r_enabled := true; r_noloop := false; r_lock := true; r_agenda := Some 1; r_actgroup := None;
               r_from := None; r_until := None; r_cond := [(0, CEq, 0)]; r_actions := [] |} in
  let e := add_rule (add_rule engine_init ra) rb in
  concat (res_trace (snd (execute eval act 10 0 e [(0, 0)]))) = [1; 2].
Proof. vm_compute. reflexivity. Qed.
