(** C08 — Truth maintenance keeps exactly the facts that still have support.
    Statements only; proofs in Proofs/TmsProofs.v. *)
From RRE Require Import Base.Sx Model.Tms Proofs.TmsProofs Proofs.TmsSupportProofs.
Open Scope N_scope.

(** A fact that carries an explicit justification is never put on a cascade list, for every
    justification graph (cycles included), every start point and every recursion depth. *)
Theorem C08_cascade_never_takes_explicit : forall fuel js x t t' l o,
  cascade fuel js x t = (t', l, o) ->
  forall d, In d l -> has_explicit js d = false.
Proof. exact cascade_no_explicit. Qed.
Print Assumptions C08_cascade_never_takes_explicit.

(** Explicitly inserted facts disappear only when retracted explicitly. *)
Theorem C08_explicit_only_explicit : forall e x h,
  has_explicit (justs e) h = true -> x <> h ->
  live (wm (fst (fst (step e (Retract x))))) h = live (wm e) h.
Proof. exact explicit_survives_other_retract. Qed.
Print Assumptions C08_explicit_only_explicit.

(** Only a retraction removes facts. *)
Theorem C08_only_retract_removes : forall e o h,
  (forall x, o <> Retract x) -> live (wm e) h = true ->
  live (wm (fst (fst (step e o)))) h = true.
Proof. exact nonretract_keeps_live. Qed.
Print Assumptions C08_only_retract_removes.

(** THE SUPPORT INVARIANT, for every history of any length in which premises are present when a justification
    is recorded and extra justifications go to present facts ([wf_run]).  [supported e h]: some justification of h
    is explicit or has all its premises present.  [targets]: handles hit by an effective retraction.
    A fact that was issued and never itself retracted is present EXACTLY when it is supported (chains, diamonds,
    several justifications, shared premises, cycles: no restriction on the graph); retracted targets stay absent. *)
Theorem C08_present_iff_supported : forall ops, wf_run init ops ->
  (forall h, In h (map fst (wm (exec init ops))) -> ~ In h (targets [] init ops) ->
     (live (wm (exec init ops)) h = true <-> supported (exec init ops) h))
  /\ (forall h, In h (targets [] init ops) -> live (wm (exec init ops)) h = false).
Proof. exact support_invariant. Qed.
Print Assumptions C08_present_iff_supported.

(** A retraction removes, in the same call, its target and exactly the facts it leaves without support. *)
Theorem C08_retraction_removes_exactly : forall ops x, wf_run init ops ->
  live (wm (exec init ops)) x = true ->
  forall h, live (wm (exec init ops)) h = true ->
    (live (wm (next (exec init ops) (Retract x))) h = false <-> h = x \/ ~ supported (next (exec init ops) (Retract x)) h).
Proof. exact retract_removes_exactly. Qed.
Print Assumptions C08_retraction_removes_exactly.

(** Explicitly inserted facts disappear only when they are themselves retracted (whole histories). *)
Theorem C08_explicit_present_unless_retracted : forall ops h, wf_run init ops ->
  has_explicit (justs (exec init ops)) h = true -> In h (map fst (wm (exec init ops))) ->
  ~ In h (targets [] init ops) -> live (wm (exec init ops)) h = true.
Proof. exact explicit_only_by_retraction. Qed.
Print Assumptions C08_explicit_present_unless_retracted.

(** The recursion bound of the model's cascade is never reached: the model's retraction is the code's
    unbounded recursion (which therefore terminates on every justification graph, cyclic ones included). *)
Theorem C08_cascade_terminates : forall e x, snd (step e (Retract x)) = false.
Proof. exact retract_never_out_of_fuel. Qed.
Print Assumptions C08_cascade_terminates.

(** non-vacuity: diamond with a second justification; retracting one premise keeps the
    doubly-justified fact, retracting the other removes it and its dependent. *)
Example C08_example :
  let ops := [InsExplicit; InsExplicit; InsLogical [1]; AddJust 3 [2]; InsLogical [3];
              Retract 1; Retract 2] in
  map (fun o => map h_live (o_handles o)) (run ops) =
  [[true]; [true; true]; [true; true; true]; [true; true; true]; [true; true; true; true];
   [false; true; true; true]; [false; false; false; false]]
  /\ ok ops (run ops) = true.
Proof. vm_compute. split; reflexivity. Qed.
Example C08_example_wf :
  let ops := [InsExplicit; InsExplicit; InsLogical [1]; AddJust 3 [2]; InsLogical [3]; Retract 1; Retract 2] in
  wf_run init ops /\ targets [] init ops = [2; 1].
Proof. cbn -[live]. repeat split; try (intros p [<-|[]]; vm_compute; reflexivity); vm_compute; reflexivity. Qed.
