(** C08 — Truth maintenance keeps exactly the facts that still have support.
    Statements only; proofs in Proofs/TmsProofs.v. *)
From RRE Require Import Base.Sx Model.Tms Proofs.TmsProofs.
Open Scope N_scope.

(** A fact that carries an explicit justification is never put on a cascade list, for every
    justification graph (cycles included), every start point and every recursion depth. *)
Theorem C08_cascade_never_takes_explicit : forall fuel js x t t' l o,
  cascade fuel js x t = (t', l, o) ->
  forall d, In d l -> has_explicit js d = false.
Proof. exact cascade_no_explicit. Qed.
Print Assumptions C08_cascade_never_takes_explicit.

(** Explicitly inserted facts disappear only when retracted explicitly. *)
Theorem C08_explicit_only_explicit : forall e x h,
  has_explicit (justs e) h = true -> x <> h ->
  live (wm (fst (fst (step e (Retract x))))) h = live (wm e) h.
Proof. exact explicit_survives_other_retract. Qed.
Print Assumptions C08_explicit_only_explicit.

(** Only a retraction removes facts. *)
Theorem C08_only_retract_removes : forall e o h,
  (forall x, o <> Retract x) -> live (wm e) h = true ->
  live (wm (fst (fst (step e o)))) h = true.
Proof. exact nonretract_keeps_live. Qed.
Print Assumptions C08_only_retract_removes.

(** non-vacuity: diamond with a second justification; retracting one premise keeps the
    doubly-justified fact, retracting the other removes it and its dependent. *)
Example C08_example :
  let ops := [InsExplicit; InsExplicit; InsLogical [1]; AddJust 3 [2]; InsLogical [3];
              Retract 1; Retract 2] in
  map (fun o => map h_live (o_handles o)) (run ops) =
  [[true]; [true; true]; [true; true; true]; [true; true; true]; [true; true; true; true];
   [false; true; true; true]; [false; false; false; false]]
  /\ ok ops (run ops) = true.
Proof. vm_compute. split; reflexivity. Qed.
