(** C12 — Windows hold exactly the events of their time span; aggregates follow.
    Statements only; proofs in Proofs/WindowProofs.v.  Model of the repaired TimeWindow::record. *)
From RRE Require Model.StreamAlpha Proofs.StreamAlphaProofs.
From RRE Require Import Base.Sx Base.Float Model.Window Proofs.WindowProofs Proofs.WindowPlacementProofs.
Open Scope N_scope.

(** After each record into a continuously sliding window no retained event is older than the
    window duration relative to the recorded event (any arrival order, any cap). *)
Theorem C12_record_no_old : forall dur cap w e x,
  In x (w_events (record dur cap w e)) -> ets e - dur <= ets x.
Proof. exact record_no_old. Qed.
Print Assumptions C12_record_no_old.

(** No younger retained event is dropped except oldest-first by the retention cap: the retained
    events are exactly the newest min(cap, n) of the n young events among (retained ++ [e]). *)
Theorem C12_record_young_suffix : forall dur cap w e,
  let young := filter (fun x => negb (ets x <? ets e - dur)) (w_events w ++ [e]) in
  exists k, w_events (record dur cap w e) = drop_front k young
            /\ k = (length young - N.to_nat cap)%nat.
Proof. exact record_young_suffix. Qed.
Print Assumptions C12_record_young_suffix.

Theorem C12_record_capped : forall dur cap w e,
  (length (w_events (record dur cap w e)) <= N.to_nat cap)%nat.
Proof. exact record_capped. Qed.
Print Assumptions C12_record_capped.

Theorem C12_record_keeps_new : forall dur cap w e, 1 <= cap -> In e (w_events (record dur cap w e)).
Proof. exact record_keeps_new. Qed.
Print Assumptions C12_record_keeps_new.

(** Tumbling windowing: every placed event lies in the aligned interval containing its
    timestamp, for every sequence in any arrival order. *)
Theorem C12_tumbling_aligned : forall dur cap es w x,
  In w (windowed dur cap es) -> In x (w_events w) ->
  w_start w = (ets x / dur) * dur /\ w_end w = w_start w + dur.
Proof. exact windowed_aligned. Qed.
Print Assumptions C12_tumbling_aligned.

(** one window per aligned interval *)
Theorem C12_tumbling_one_window_per_interval : forall dur cap ws e,
  NoDup (map w_start ws) ->
  NoDup (map w_start (group_add dur cap ws e)) /\
  (forall s, In s (map w_start (group_add dur cap ws e)) <-> In s (map w_start ws) \/ s = (ets e / dur) * dur).
Proof. exact group_add_starts. Qed.
Print Assumptions C12_tumbling_one_window_per_interval.

(** Tumbling windowing of a whole stream (WindowedStream::new), for every event sequence in any arrival order, every
    positive duration and every cap: each window of the result is the window [start, start + dur) of an aligned interval
    that received an event and holds exactly the events of that interval, in arrival order, cut to the newest [cap];
    two windows never share a start; the aligned interval of every offered event has its window. *)
Theorem C12_tumbling_windows_exact : forall dur cap es, 0 < dur ->
  (forall w, In w (windowed dur cap es) ->
     w_end w = w_start w + dur /\
     w_events w = cap_events cap (filter (fun x => (ets x / dur) * dur =? w_start w) es) /\
     exists e, In e es /\ (ets e / dur) * dur = w_start w) /\
  (forall w1 w2, In w1 (windowed dur cap es) -> In w2 (windowed dur cap es) -> w_start w1 = w_start w2 -> w1 = w2) /\
  (forall e, In e es -> exists w, In w (windowed dur cap es) /\ w_start w = (ets e / dur) * dur).
Proof. intros dur cap es Hd. exact (windowed_exact dur cap Hd es). Qed.
Print Assumptions C12_tumbling_windows_exact.

(** each event in exactly one window (the retention cap not reached): an offered event lies in a window of the result
    iff that is the window of the aligned interval containing its timestamp - and by the previous theorem that window
    exists and is unique. *)
Theorem C12_tumbling_exactly_one_window : forall dur cap es e w, 0 < dur ->
  (length es <= N.to_nat cap)%nat -> In e es -> In w (windowed dur cap es) ->
  (In e (w_events w) <-> w_start w = (ets e / dur) * dur).
Proof. intros dur cap es e w Hd. exact (windowed_exactly_one dur cap Hd es e w). Qed.
Print Assumptions C12_tumbling_exactly_one_window.

Example C12_tumbling_example :
  let ev i t := {| eid := i; ets := t; efld := FMissing |} in
  map (fun w => (w_start w, map eid (w_events w))) (windowed 10 2 [ev 1 25; ev 2 3; ev 3 21; ev 4 29; ev 5 9; ev 6 20])
  = [(0, [2; 5]); (20, [4; 6])].
Proof. vm_compute. reflexivity. Qed.

(** StreamAlphaNode (Model/StreamAlpha.v, sliding and tumbling windows under the clock; names qualified).
    An event is accepted exactly when it comes from the node's stream, has its type and lies in the window
    of the clock; after every accepted event no buffered event lies before that window; the buffer only
    loses events, except for the one just accepted; and it never exceeds the retention cap. *)
Theorem C12_alpha_accepted_iff : forall kind d maxn now nd id ts s t,
  snd (StreamAlpha.process kind d maxn now nd id ts s t) = s && t && StreamAlpha.in_window kind d now ts.
Proof. exact StreamAlphaProofs.accepted_iff. Qed.
Print Assumptions C12_alpha_accepted_iff.

Theorem C12_alpha_nothing_before_the_window : forall kind d maxn now nd id ts s t nd',
  StreamAlpha.process kind d maxn now nd id ts s t = (nd', true) ->
  forall e, In e (StreamAlpha.n_events nd') -> (StreamAlphaProofs.lower kind d now <= snd e)%N.
Proof. exact StreamAlphaProofs.accepted_within_window. Qed.
Print Assumptions C12_alpha_nothing_before_the_window.

Theorem C12_alpha_buffer_only_shrinks : forall kind d maxn now nd id ts s t nd' b,
  StreamAlpha.process kind d maxn now nd id ts s t = (nd', b) ->
  forall e, In e (StreamAlpha.n_events nd') -> In e (StreamAlpha.n_events nd) \/ (b = true /\ e = (id, ts)).
Proof. exact StreamAlphaProofs.buffer_only_shrinks. Qed.
Print Assumptions C12_alpha_buffer_only_shrinks.

(** WindowManager::process_event (tumbling windows with expiry of windows that ended before the event and a bound on the
    number of windows; Proofs/WindowManagerProofs.v), after EVERY event of EVERY arrival sequence - in order, reversed,
    shuffled, late events re-opening an interval whose window has expired: the retained windows are aligned intervals
    [k*dur, (k+1)*dur) with pairwise different starts in ascending order, each holds only events of its own interval, at
    most max_windows are retained, and the event just processed sits in exactly one window - the one of the aligned
    interval that contains its timestamp. *)
From RRE Require Import Proofs.WindowManagerProofs.
From Coq Require Import Sorting.Sorted Lia.
Theorem C12_manager_places_every_event_once : forall dur cap maxw, 0 < dur -> 1 <= cap -> 1 <= maxw ->
  forall es e,
  let ws := fold_left (process_event dur cap maxw) es [] in
  let ws' := process_event dur cap maxw ws e in
  (forall w, In w ws' -> (w_end w = w_start w + dur /\ w_start w mod dur = 0) /\
                         forall x, In x (w_events w) -> w_start w <= ets x /\ ets x < w_end w) /\
  StronglySorted (fun a b => w_start a < w_start b) ws' /\
  (length ws' <= N.to_nat maxw)%nat /\
  (exists w, In w ws' /\ In e (w_events w) /\ w_start w = (ets e / dur) * dur /\ w_end w = (ets e / dur) * dur + dur) /\
  (forall w1 w2, In w1 ws' -> In w2 ws' -> In e (w_events w1) -> In e (w_events w2) -> w1 = w2).
Proof.
  intros dur cap maxw Hd Hc Hm es e ws ws'.
  pose proof (manager_reachable dur cap maxw Hd Hc Hm es) as I. fold ws in I.
  destruct (process_event_spec dur cap maxw Hd Hc Hm ws e I) as (I' & Ex & Un). fold ws' in I', Ex, Un.
  split; [|split; [exact (m_sorted _ _ _ I')|split; [exact (m_bound _ _ _ I')|split; [exact Ex|exact Un]]]].
  intros w Hw. destruct (m_aligned _ _ _ I' w Hw) as [[Ae Ax] Am]. split; [split; assumption|].
  intros x Hx. pose proof (Ax x Hx) as Es. destruct (al_range dur x Hd) as [R1 R2]. unfold al in R1, R2. rewrite Ae, Es. split; lia.
Qed.
Print Assumptions C12_manager_places_every_event_once.

(** non-vacuity: the pre-repair witness (duration 50; records at 120, 10, 165) *)
Example C12_example :
  let ev i t := {| eid := i; ets := t; efld := FInteger 1 |} in
  let w0 := {| w_start := 0; w_end := 50; w_events := [] |} in
  map eid (w_events (record 50 100 (record 50 100 (record 50 100 w0 (ev 0 120)) (ev 1 10)) (ev 2 165))) = [0; 2].
Proof. vm_compute. reflexivity. Qed.
