(** C01 — Forward chaining runs a rule's actions iff its condition is true (statements only; proofs in
    Proofs/Forward*.v).  Model: Model/Forward.v (the engine on the parsed Rule structure: strings with byte
    offsets, Operator::evaluate, the string-splitting expression evaluator, binary64 and exact i64
    arithmetic, the fact store) and Model/ForwardSpec.v (the typed core as a syntax tree, its printer, the
    parser's translation [compile], the documented meaning [den_cond] / [den], the pass loop). *)
From RRE Require Import Base.Sx Base.Float Base.Num Model.ExprShape Model.Forward Model.ForwardSpec Proofs.ForwardProofs Proofs.ForwardExprProofs Proofs.ForwardStepProofs.
Open Scope Z_scope.

(** 1. Precedence, associativity, parentheses, negative and string literals: for EVERY well-formed tree
    (the right operand of + - has no top-level + -; the left operand of * / % has none and its right operand
    is an atom or parenthesised), evaluate_expression applied to the printed text applies every operator to
    the values of exactly its two sub-trees. *)
Theorem C01_evaluator_computes_the_tree : forall f e, wf e = true -> evaluate_expression f (pr e) = meval f e.
Proof. exact evaluate_expression_print. Qed.
Print Assumptions C01_evaluator_computes_the_tree.

(** ... and that is the documented value wherever the documented arithmetic is defined *)
Theorem C01_expression_value : forall f e v, wf e = true -> atoms_ok e -> den f e = Some v ->
  evaluate_expression f (pr e) = EOk v.
Proof. exact evaluate_expression_den. Qed.
Print Assumptions C01_expression_value.

(** 2. The operator table: wherever the documented comparison of two values is defined (typed equality,
    null, numeric orderings with exact integers, substring / prefix / suffix, membership in arrays),
    Operator::evaluate returns it. *)
Theorem C01_operator_table : forall o x y b, sem_cmp o x y = Some b -> op_eval o x y = b.
Proof. exact sem_cmp_op. Qed.
Print Assumptions C01_operator_table.

(** 3. Condition evaluation never panics and always yields a boolean, for every condition group and facts *)
Theorem C01_condition_total : forall f g, exists b, eval_group f g = BOk b.
Proof. exact eval_group_total. Qed.
Print Assumptions C01_condition_total.

(** 4. One consideration of a rule: whenever the documented meaning of the `when` expression and of the
    assignments is defined on the current facts, the engine fires iff the expression is true and then
    stores, assignment by assignment, the value each right-hand side has at that moment. *)
Theorem C01_consideration : forall f r cr x, rule_ok r -> compile_rule r = Some cr ->
  sem_step true f r = Some x -> model_step f cr = x.
Proof. exact step_agree. Qed.
Print Assumptions C01_consideration.

(** 5. Whole runs: for every rule set of the typed core and every fact store, whenever the documented
    semantics defines the run, the engine does exactly that (firing order, facts after each firing,
    cycle / evaluated / fired counters). *)
Theorem C01_run : forall rs crs f res, Forall rule_ok rs -> compiled rs = Some crs ->
  run_rules (sem_step true) (sorted_spec rs) f = Some res ->
  run_rules (fun f r => Some (model_step f r)) (sorted_model crs) f = Some res.
Proof. exact run_agree. Qed.
Print Assumptions C01_run.

(** the reading used by the monitor (a string literal is a literal) extends the strict one of the theorem *)
Theorem C01_strict_reading_refines_monitor : forall rs f res,
  run_rules (sem_step true) rs f = Some res -> run_rules (sem_step false) rs f = Some res.
Proof. exact run_strict_mono. Qed.
Print Assumptions C01_strict_reading_refines_monitor.

(** the loop itself: agreement of every consideration gives agreement of the run *)
Theorem C01_run_follows_considerations :
  forall (R1 R2 : Type) (sem : facts -> R1 -> option sres) (eng : facts -> R2 -> option sres) (rel : R1 -> R2 -> Prop),
    (forall f r1 r2 x, rel r1 r2 -> sem f r1 = Some x -> eng f r2 = Some x) ->
    forall rs1 rs2 f res, rel_rules rel rs1 rs2 ->
      run_rules sem rs1 f = Some res -> run_rules eng rs2 f = Some res.
Proof. exact @run_rules_sim. Qed.
Print Assumptions C01_run_follows_considerations.

(** non-vacuity: a concrete rule set meets every hypothesis of C01_run, its documented run is defined,
    fires, and stores (5 - 1) * -3 = -12:
      rule R0 salience 10: when n1 + n2 * 2 > 10 && s1 == "gold" then out = (n1 - 1) * -3; n2 = out + n2 *)
Definition ex_n1 : str := [110; 49].  Definition ex_n2 : str := [110; 50].  Definition ex_s1 : str := [115; 49].
Definition ex_out : str := [111; 117; 116].  Definition ex_gold : str := [103; 111; 108; 100].
Definition ex_rule : srule :=
  {| sr_sal := 10;
     sr_cond := SAnd (SCmp (ABin 43 (AField [ex_n1]) (ABin 42 (AField [ex_n2]) (ALit (LInt 2)))) OGt (ALit (LInt 10)))
                     (SCmp (AField [ex_s1]) OEq (ALit (LStr ex_gold)));
     sr_sets := [([ex_out], ABin 42 (APar (ABin 45 (AField [ex_n1]) (ALit (LInt 1)))) (ALit (LInt (-3))));
                 ([ex_n2], ABin 43 (AField [ex_out]) (AField [ex_n2]))] |}.
Definition ex_facts : facts := [(ex_n1, VInt 5); (ex_n2, VInt 3); (ex_s1, VStr ex_gold)].

Ltac c01_ok :=
  repeat match goal with
         | |- _ /\ _ => split
         | |- exists _, _ => eexists
         | |- _ = _ => vm_compute; reflexivity
         | |- atoms_ok _ => cbn [atoms_ok]
         | |- rhs_ok _ => cbn [rhs_ok]
         | |- cmp_ok _ _ _ => cbn [cmp_ok]
         | |- cond_ok _ => cbn [cond_ok]
         | |- ctest_rhs_ok _ => left
         | |- Forall _ [] => constructor
         | |- Forall _ (_ :: _) => constructor
         end.

Example C01_example :
  Forall rule_ok [ex_rule]
  /\ (exists crs, compiled [ex_rule] = Some crs)
  /\ (exists st k n, run_rules (sem_step true) (sorted_spec [ex_rule]) ex_facts = Some (st, k, n)
                     /\ l_nfired st = 1 /\ fget (l_f st) ex_out = Some (VInt (-12)) /\ fget (l_f st) ex_n2 = Some (VInt (-9))).
Proof.
  split; [|split].
  - constructor; [|constructor]. unfold rule_ok. cbn [sr_cond sr_sets ex_rule snd]. split; [c01_ok|].
    constructor; [cbn [snd]; c01_ok|constructor; [cbn [snd]; c01_ok|constructor]].
  - eexists. vm_compute. reflexivity.
  - eexists. eexists. eexists. split; [vm_compute; reflexivity|]. split; [vm_compute; reflexivity|]. split; vm_compute; reflexivity.
Qed.
