(** C01 — Forward chaining runs a rule's actions iff its condition is true (statements only; proofs in
    Proofs/ForwardProofs.v).  Model: Model/Forward.v (the engine on the parsed Rule structure, strings
    with byte offsets, binary64 arithmetic) and Model/ForwardSpec.v (the typed core as a syntax tree, its
    printer, the parser's translation [compile], the documented meaning [den_cond]/[den], the pass loop). *)
From RRE Require Import Base.Sx Base.Float Base.Num Model.ExprShape Model.Forward Model.ForwardSpec Proofs.ForwardProofs.
Open Scope Z_scope.

(** The pass loop is a simulation: if every single consideration of a rule by the engine agrees with the
    documented reading whenever the latter is defined, then so does the whole run (which rules fire, in
    which order, the facts after each firing, the counters), for every rule list and fact store. *)
Theorem C01_run_follows_considerations :
  forall (R1 R2 : Type) (sem : facts -> R1 -> option sres) (eng : facts -> R2 -> option sres) (rel : R1 -> R2 -> Prop),
    (forall f r1 r2 x, rel r1 r2 -> sem f r1 = Some x -> eng f r2 = Some x) ->
    forall rs1 rs2 f res, rel_rules rel rs1 rs2 ->
      run_rules sem rs1 f = Some res -> run_rules eng rs2 f = Some res.
Proof. exact @run_rules_sim. Qed.
Print Assumptions C01_run_follows_considerations.

(** sorting both rule lists by salience keeps them aligned *)
Theorem C01_salience_order_aligned :
  forall (T1 T2 : Type) (rel : T1 -> T2 -> Prop) (l1 : list (Z * Z * T1)) (l2 : list (Z * Z * T2)),
    Forall2 (fun a b => fst a = fst b /\ rel (snd a) (snd b)) l1 l2 ->
    Forall2 (fun x y => fst x = fst y /\ rel (snd x) (snd y)) (by_salience l1) (by_salience l2).
Proof. exact @by_salience_rel. Qed.
Print Assumptions C01_salience_order_aligned.
