(** C13 — Watermarks are monotone and every late event is accounted for.
    This file contains only theorem statements closed by [exact]; see Proofs/WatermarkProofs.v. *)
From RRE Require Import Base.Sx Model.Watermark Proofs.WatermarkProofs.
Open Scope N_scope.

(** Watermarks never move backwards, over every history and every strategy pair. *)
Theorem C13_wm_monotone : forall ws ls es s,
  cur s <= cur (fold_left (add_event ws ls) es s).
Proof. exact wm_monotone_run. Qed.
Print Assumptions C13_wm_monotone.

(** Bounded out-of-orderness: the watermark equals the largest timestamp offered minus the
    delay, not below zero, in every reachable state (hence after each on-time event). *)
Theorem C13_wm_bounded_exact : forall d ls es,
  cur (fold_left (add_event (WBounded d) ls) es init) = maxN (map ets es) - d.
Proof. exact wm_bounded_exact. Qed.
Print Assumptions C13_wm_bounded_exact.

(** An event is treated as late exactly when its timestamp is below the current watermark,
    and ends up in exactly one of accepted / dropped / side-output according to the strategy. *)
Theorem C13_late_iff_below : forall ws ls s e,
  let s' := add_event ws ls s e in
  (ets e < cur s ->
     late s' = late s + 1 /\ cur s' = cur s /\
     match decide ls (cur s) (ets e) with
     | DDrop => evs s' = evs s /\ side s' = side s /\ dropped s' = dropped s + 1
     | DSide => evs s' = evs s /\ side s' = side s ++ [e] /\ dropped s' = dropped s
     | _ => evs s' = evs s ++ [e] /\ side s' = side s /\ dropped s' = dropped s
     end) /\
  (cur s <= ets e ->
     late s' = late s /\ evs s' = evs s ++ [e] /\ side s' = side s /\ dropped s' = dropped s).
Proof. exact late_iff_below. Qed.
Print Assumptions C13_late_iff_below.

(** The statistics add up to the events offered. *)
Theorem C13_accounting : forall ws ls es,
  let s := fold_left (add_event ws ls) es init in
  lenN (evs s) + dropped s + lenN (side s) = lenN es /\
  late s = dropped s + allowed s + lenN (side s).
Proof. exact accounting_run. Qed.
Print Assumptions C13_accounting.

(** The executable statement of C13 (the monitor that is also run on the implementation's
    observations) accepts every run of the model. *)
Theorem C13_monitor_accepts_model : forall ws ls es, ok ws ls es (run (ws, ls, es)) = true.
Proof. exact ok_run. Qed.
Print Assumptions C13_monitor_accepts_model.

(** non-vacuity: a history with an on-time, a late-dropped and a late-allowed event *)
Example C13_example :
  let es := [ {| eid := 0; ets := 10 |}; {| eid := 1; ets := 3 |}; {| eid := 2; ets := 7 |} ] in
  map o_wm (run (WBounded 2, LAllowed 2, es)) = [8; 8; 8] /\
  map o_evs (run (WBounded 2, LAllowed 2, es)) = [[0]; [0]; [0; 2]] /\
  map o_dropped (run (WBounded 2, LAllowed 2, es)) = [0; 1; 1].
Proof. vm_compute. repeat split. Qed.
