(** C05 — No text makes a parser or the expression evaluator panic or hang (expression evaluator part).
    Statements only; proofs in Proofs/ExprShapeProofs.v.  Model of the repaired evaluator
    (32df0c7, aee5bb9, e2ff44b, 037343a, 20bd893): every slice of the code is modelled with its byte offsets, and a slice off a
    character boundary or out of range is the value [RPanic]. *)
From RRE Require Import Base.Sx Base.Float Base.Num Model.ExprShape Proofs.ExprShapeProofs Model.BwExpr Proofs.BwExprProofs.
Open Scope Z_scope.

(** For EVERY string (any Unicode text, any length), any whitespace predicate and any number
    recogniser, the evaluator never slices off a character boundary or out of range, and it
    terminates: fuel = length + 1 is never exhausted (each operand is strictly shorter). *)
Theorem C05_expr_no_panic : forall ws is_num s,
  shape_of ws is_num s <> RPanic /\ shape_of ws is_num s <> ROutOfFuel.
Proof. exact shape_of_no_panic. Qed.
Print Assumptions C05_expr_no_panic.

(** the recursion depth is at most the number of characters + 1: stack use is linear in the input *)
Theorem C05_expr_depth_le_length : forall ws (is_num : str -> bool) fuel s, (depth ws fuel s <= S (length s))%nat.
Proof. exact depth_le_length. Qed.
Print Assumptions C05_expr_depth_le_length.

(** the three slices around the operator always succeed *)
Theorem C05_operator_slices_valid : forall (ws : Z -> bool) (is_num : str -> bool) ops e pos,
  ascii_ops ops -> find_operator ws ops e = Some pos ->
  exists l c r, slice e 0 pos = Some l /\ slice e pos (pos + 1) = Some [c] /\ slice e (pos + 1) (blen e) = Some r
                /\ (length l < length e)%nat /\ (length r < length e)%nat.
Proof. exact split_around. Qed.
Print Assumptions C05_operator_slices_valid.

(** The backward-chaining expression parser (ExpressionParser::parse, also reached through QueryParser and GRLQuery), for
    EVERY input string and EVERY classification of characters by is_alphanumeric / is_numeric / is_whitespace: no index
    input[position], input[next_pos] and no slice input[position..] of the parser is ever out of range ([Panic] is the
    result of a failed guard in the model, which keeps every guard of the code), and the mutual recursion of
    parse_expression / parse_and_expression / parse_comparison / parse_primary with its two loops ends within depth
    6 * length + 8 ([Fuel] is never the result): positions only move forward and stay within the input. *)
Theorem C05_bw_expression_parser_total : forall is_alnum is_num is_ws s,
  BwExpr.parse is_alnum is_num is_ws s <> BwExpr.Panic /\ BwExpr.parse is_alnum is_num is_ws s <> BwExpr.Fuel.
Proof. exact parse_total. Qed.
Print Assumptions C05_bw_expression_parser_total.

(** the same for QueryParser::parse (empty query, trimming, an optional leading `NOT `, then the expression parser) *)
Theorem C05_bw_query_parser_total : forall is_alnum is_num is_ws s,
  BwExpr.query_parse is_alnum is_num is_ws s <> BwExpr.Panic /\ BwExpr.query_parse is_alnum is_num is_ws s <> BwExpr.Fuel.
Proof. exact query_parse_total. Qed.
Print Assumptions C05_bw_query_parser_total.

(** Three more hand-written parsers of the backward-chaining front end (Model/BwSmall.v, Proofs/BwSmallProofs.v), for EVERY
    input text: parse_aggregate_query / parse_function_call slice the text at the byte offsets str::find and str::rfind return
    for the parentheses - always character boundaries, and the second slice is well ordered because the code refuses
    `)` before `(`; NestedQueryParser::parse slices 7 bytes after the offset of " WHERE "; has_nested and
    split_top_level_or index a Vec<char> only under their length guards and advance on every iteration;
    DisjunctionParser::parse drops one byte at each end only after it has seen the one-byte parentheses there. *)
From RRE Require Import Model.BwSmall Proofs.BwSmallProofs.
Theorem C05_aggregate_parser_total : forall t, parse_aggregate t <> AggPanic.
Proof. exact parse_aggregate_no_panic. Qed.
Print Assumptions C05_aggregate_parser_total.

Theorem C05_nested_parser_total : forall q, nested_parse q <> GPanic /\ has_nested q <> None.
Proof. intros q. split; [apply nested_parse_no_panic|apply has_nested_total]. Qed.
Print Assumptions C05_nested_parser_total.

Theorem C05_disjunction_parser_total : forall p,
  disj_parse p <> DPanic /\ split_top_level_or p <> None /\ contains_or p <> None.
Proof. intros p. split; [apply disj_parse_no_panic|split; [apply split_top_level_or_total|apply contains_or_total]]. Qed.
Print Assumptions C05_disjunction_parser_total.

(** non-vacuity: the documented forms parse to what the documentation says; a multi-byte character next to every slice point *)
Example C05_small_parsers_example :
  (* "sum(?é) WHERE p(?é) AND ?é > 1" *)
  parse_aggregate [115;117;109;40;63;233;41;32;87;72;69;82;69;32;112;40;63;233;41;32;65;78;68;32;63;233;32;62;32;49]
    = AggOk 1 [233] [112;40;63;233;41] (Some [63;233;32;62;32;49])
  (* "(é OR (b OR c))" : the nested OR is not a top-level separator *)
  /\ disj_parse [40;233;32;79;82;32;40;98;32;79;82;32;99;41;41] = DBranches [[233]; [40;98;32;79;82;32;99;41]]
  (* "é WHERE a AND (b WHERE c) AND d" *)
  /\ nested_parse [233;32;87;72;69;82;69;32;97;32;65;78;68;32;40;98;32;87;72;69;82;69;32;99;41;32;65;78;68;32;100] = GGoals [[97]; [100]].
Proof. vm_compute. repeat split; reflexivity. Qed.

(** non-vacuity: the pre-repair witnesses are now plain errors naming the right leaf *)
Example C05_example :
  shape_ident [233; 43; 97] = RErrField [233]            (* "é+a"  *)
  /\ shape_ident [233; 97] = RErrField [233; 97]          (* "éa"   *)
  /\ shape_ident [97; 32; 42; 32; 40; 98; 43; 120; 41] = RErrField [97].   (* "a * (b+x)" *)
Proof. vm_compute. repeat split. Qed.

(** the parser model on a concrete query: precedence of || below && below comparisons, negation, a variable, an escape *)
Example C05_bw_example :
  BwExpr.run_text [97; 32; 61; 61; 32; 49; 32; 38; 38; 32; 33; 98; 32; 124; 124; 32; 63; 88; 32; 33; 61; 32; 34; 92; 34; 34]
  = L [A 0; L [L [A 5; L [A 4; L [A 3; L [A 0; L [A 97]]; A 0; L [A 1; L [A 3; A 4607182418800017408]]]; L [A 6; L [A 0; L [A 98]]]];
                    L [A 3; L [A 2; L [A 63; A 88]]; A 1; L [A 1; L [A 2; L [A 34]]]]]]].
Proof. vm_compute. reflexivity. Qed.
