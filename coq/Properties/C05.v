(** C05 — No text makes a parser or the expression evaluator panic or hang (expression evaluator part).
    Statements only; proofs in Proofs/ExprShapeProofs.v.  Model of the repaired evaluator
    (32df0c7, aee5bb9, e2ff44b, 037343a, 20bd893): every slice of the code is modelled with its byte offsets, and a slice off a
    character boundary or out of range is the value [RPanic]. *)
From RRE Require Import Base.Sx Model.ExprShape Proofs.ExprShapeProofs.
Open Scope Z_scope.

(** For EVERY string (any Unicode text, any length), any whitespace predicate and any number
    recogniser, the evaluator never slices off a character boundary or out of range, and it
    terminates: fuel = length + 1 is never exhausted (each operand is strictly shorter). *)
Theorem C05_expr_no_panic : forall ws is_num s,
  shape_of ws is_num s <> RPanic /\ shape_of ws is_num s <> ROutOfFuel.
Proof. exact shape_of_no_panic. Qed.
Print Assumptions C05_expr_no_panic.

(** the recursion depth is at most the number of characters + 1: stack use is linear in the input *)
Theorem C05_expr_depth_le_length : forall ws (is_num : str -> bool) fuel s, (depth ws fuel s <= S (length s))%nat.
Proof. exact depth_le_length. Qed.
Print Assumptions C05_expr_depth_le_length.

(** the three slices around the operator always succeed *)
Theorem C05_operator_slices_valid : forall (ws : Z -> bool) (is_num : str -> bool) ops e pos,
  ascii_ops ops -> find_operator ws ops e = Some pos ->
  exists l c r, slice e 0 pos = Some l /\ slice e pos (pos + 1) = Some [c] /\ slice e (pos + 1) (blen e) = Some r
                /\ (length l < length e)%nat /\ (length r < length e)%nat.
Proof. exact split_around. Qed.
Print Assumptions C05_operator_slices_valid.

(** non-vacuity: the pre-repair witnesses are now plain errors naming the right leaf *)
Example C05_example :
  shape_ident [233; 43; 97] = RErrField [233]            (* "é+a"  *)
  /\ shape_ident [233; 97] = RErrField [233; 97]          (* "éa"   *)
  /\ shape_ident [97; 32; 42; 32; 40; 98; 43; 120; 41] = RErrField [97].   (* "a * (b+x)" *)
Proof. vm_compute. repeat split. Qed.
