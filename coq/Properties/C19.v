(** C19 — Parallel execution gives the sequential verdicts on every schedule.
    Statements only; proofs in Proofs/ParallelProofs.v.  A schedule is the order in which the worker
    threads of a salience level append their results ([orders]: one list of chunk indices per level);
    [orders_ok] says each is a permutation of the level's chunk indices, i.e. every thread finishes. *)
From RRE Require Import Base.Sx Model.Parallel Proofs.ParallelProofs.
From Coq Require Import Permutation.
Open Scope Z_scope.

(** chunking loses and duplicates nothing, for every chunk size > 0 *)
Theorem C19_chunks_partition : forall (n : nat) (l : list rule), (0 < n)%nat -> concat (chunks n l) = l.
Proof. intros n l. apply chunks_partition. Qed.
Print Assumptions C19_chunks_partition.

(** for every thread count >= 1, min_rules_per_thread, on/off switch and EVERY schedule, the reported
    contexts are a permutation of evaluating the enabled rules one by one on the same facts *)
Theorem C19_parallel_perm_sequential : forall cfg s orders rs,
  (0 < c_threads cfg)%nat -> orders_ok cfg rs orders (levels rs) ->
  Permutation (execute_parallel cfg s orders rs) (execute_seq s rs).
Proof. exact parallel_perm_sequential. Qed.
Print Assumptions C19_parallel_perm_sequential.

(** same evaluated and fired counts *)
Theorem C19_counts_equal : forall cfg s orders rs,
  (0 < c_threads cfg)%nat -> orders_ok cfg rs orders (levels rs) ->
  evaluated (execute_parallel cfg s orders rs) = evaluated (execute_seq s rs) /\
  fired (execute_parallel cfg s orders rs) = fired (execute_seq s rs).
Proof. exact counts_equal. Qed.
Print Assumptions C19_counts_equal.

(** non-vacuity: 5 rules at one level, 2 threads (chunks of 3 and 2), threads finish in reverse order *)
Example C19_example :
  let r n c := {| r_name := n; r_sal := 0; r_enabled := true; r_cond := c |} in
  let rs := [r 1 (CAtom 0 CGt 1); r 2 (CAtom 0 CLt 1); r 3 (CNot (CAtom 9 CEq 0)); r 4 (CAtom 9 CNe 0); r 5 (CAtom 0 CEq 2)] in
  let cfg := {| c_enabled := true; c_threads := 2; c_min := 2 |} in
  execute_parallel cfg [(0, 2)] [[1; 0]%nat] rs = [(4, false); (5, true); (1, true); (2, false); (3, true)]
  /\ orders_ok cfg rs [[1; 0]%nat] (levels rs).
Proof. vm_compute. split; [reflexivity|]. split; [|exact I]. apply perm_swap. Qed.
