(** C01 — the string-splitting expression evaluator computes the meaning of the syntax tree:
    precedence (multiplicative before additive operators), left associativity, parentheses, negative literals and string literals
    are recovered from the printed text exactly as the tree says.  Proofs. *)
From RRE Require Import Base.Sx Base.Float Base.Num Model.ExprShape Model.Forward Model.ForwardSpec Proofs.ExprShapeProofs.
From Coq Require Import Lia.
Open Scope Z_scope.

(** ---------- scanning lemmas for find_operator ---------- *)
Definition ops_arith (ops : list Z) : Prop := forall c, memc c ops = true -> is_arith c = true.
Definition prev_ok (prev : option Z) : bool := match prev with None => true | Some p => is_arith p end.
Definition lastc (t : str) (prev : option Z) : option Z := fold_left (fun _ c => Some c) t prev.

Lemma ops_arith_pm : ops_arith plus_minus.
Proof. intros c H. unfold memc, plus_minus in H. cbn in H. unfold is_arith, memc. cbn.
  repeat (apply orb_true_iff in H; destruct H as [H|H]; [rewrite H; rewrite ?orb_true_r; reflexivity|]). discriminate. Qed.
Lemma ops_arith_md : ops_arith mul_div_mod.
Proof. intros c H. unfold memc, mul_div_mod in H. cbn in H. unfold is_arith, memc. cbn.
  repeat (apply orb_true_iff in H; destruct H as [H|H]; [rewrite H; rewrite ?orb_true_r; reflexivity|]). discriminate. Qed.

Lemma plain_facts c : plain c = true ->
  ws c = false /\ is_arith c = false /\ (c =? 40) = false /\ (c =? 41) = false /\ (c =? 34) = false /\ (c =? 39) = false.
Proof.
  unfold plain. intros H. repeat (apply andb_true_iff in H; destruct H as [H ?]).
  repeat match goal with X : negb _ = true |- _ => apply negb_true_iff in X end. tauto.
Qed.

Lemma step_plain ops c r off d prev last : ops_arith ops -> plain c = true ->
  find_op ws ops (c :: r) off d prev None last = find_op ws ops r (off + utf8_len c) d (Some c) None last.
Proof.
  intros Ho Hp. destruct (plain_facts c Hp) as [W [Ar [P1 [P2 [Q1 Q2]]]]].
  cbn [find_op]. rewrite W, Q1, Q2, P1, P2. cbn [orb].
  destruct (memc c ops) eqn:M; [rewrite (Ho c M) in Ar; discriminate|]. rewrite andb_false_r. reflexivity.
Qed.

Lemma scan_plain ops : ops_arith ops -> forall t rest off d prev last, forallb plain t = true ->
  find_op ws ops (t ++ rest) off d prev None last = find_op ws ops rest (off + blen t) d (lastc t prev) None last.
Proof.
  intros Ho. induction t as [|c t IH]; intros rest off d prev last H.
  - cbn. replace (off + 0) with off by lia. reflexivity.
  - cbn [forallb] in H. apply andb_true_iff in H. destruct H as [Hc Ht].
    cbn [app]. rewrite (step_plain ops c (t ++ rest) off d prev last Ho Hc). rewrite IH by exact Ht.
    cbn [blen lastc fold_left]. f_equal. lia.
Qed.

Lemma lastc_plain t prev : t <> [] -> forallb plain t = true -> exists c, lastc t prev = Some c /\ plain c = true.
Proof.
  revert prev. induction t as [|c t IH]; intros prev Hne H; [contradiction|].
  cbn [forallb] in H. apply andb_true_iff in H. destruct H as [Hc Ht]. cbn [lastc fold_left].
  destruct t as [|c' t']; [exists c; cbn; split; [reflexivity|exact Hc]|].
  apply (IH (Some c)); [discriminate|exact Ht].
Qed.

(** a sign: a '-' (or '+') seen when the previous non-blank character is an operator or nothing *)
Definition pk (d : Z) (prev : option Z) : Prop := (d =? 0) = true -> prev_ok prev = true.

Lemma step_sign ops r off d prev last : pk d prev ->
  find_op ws ops (45 :: r) off d prev None last = find_op ws ops r (off + 1) d (Some 45) None last.
Proof.
  intros Hp. cbn [find_op]. change (ws 45) with false. cbn [orb Z.eqb].
  change (45 =? 34) with false. change (45 =? 39) with false. change (45 =? 40) with false. change (45 =? 41) with false. cbn [orb].
  change (utf8_len 45) with 1.
  destruct (d =? 0) eqn:D0; [|reflexivity]. specialize (Hp D0). cbn [andb].
  destruct (memc 45 ops); [|reflexivity].
  change ((45 =? 43) || (45 =? 45)) with true. cbn [andb].
  destruct prev as [p|]; unfold prev_ok in Hp; cbv beta iota; [rewrite Hp|]; reflexivity.
Qed.

(** inside a string literal nothing is an operator *)
Lemma scan_in_quote ops q : forall s rest off d prev last, memc q s = false ->
  find_op ws ops (s ++ q :: rest) off d prev (Some q) last
  = find_op ws ops rest (off + blen s + utf8_len q) d (Some q) None last.
Proof.
  induction s as [|c s IH]; intros rest off d prev last H.
  - cbn [app find_op blen]. rewrite Z.eqb_refl. f_equal. lia.
  - unfold memc in H. cbn [existsb] in H. apply orb_false_iff in H. destruct H as [Hc Hs].
    cbn [app find_op]. rewrite Z.eqb_sym in Hc. rewrite Hc. rewrite IH by exact Hs. cbn [blen]. f_equal. lia.
Qed.

Lemma scan_quoted ops q s rest off d prev last : ((q =? 34) || (q =? 39)) = true -> memc q s = false ->
  find_op ws ops (q :: s ++ q :: rest) off d prev None last
  = find_op ws ops rest (off + blen (q :: s ++ [q])) d (Some q) None last.
Proof.
  intros Hq Hs. assert (Hlen : utf8_len q = 1) by (apply orb_true_iff in Hq; destruct Hq as [E|E]; apply Z.eqb_eq in E; subst q; reflexivity).
  assert (Hw : ws q = false) by (apply orb_true_iff in Hq; destruct Hq as [E|E]; apply Z.eqb_eq in E; subst q; reflexivity).
  cbn [find_op]. rewrite Hq, Hw. rewrite scan_in_quote by exact Hs.
  f_equal. cbn [blen]. rewrite blen_app. cbn [blen]. lia.
Qed.

(** ---------- atoms ---------- *)
Lemma atom_scan ops t : ops_arith ops -> atom_text_ok t = true ->
  exists c, is_arith c = false /\ ws c = false /\
    forall rest off d prev last, pk d prev ->
      find_op ws ops (t ++ rest) off d prev None last = find_op ws ops rest (off + blen t) d (Some c) None last.
Proof.
  intros Ho H. destruct t as [|c0 r]; [discriminate|]. unfold atom_text_ok in H.
  apply orb_true_iff in H. destruct H as [H|H]; [apply orb_true_iff in H; destruct H as [H|H]|].
  - (* plain text *)
    destruct (lastc_plain (c0 :: r) None ltac:(discriminate) H) as [c [Hl Hc]].
    destruct (plain_facts c Hc) as [W [Ar _]]. exists c. repeat split; [exact Ar|exact W|].
    intros rest off d prev last _. rewrite scan_plain by assumption. f_equal.
    (* lastc of a non-empty text does not depend on prev *)
    clear -Hl. cbn [lastc fold_left] in *. exact Hl.
  - (* minus sign, then plain text *)
    apply andb_true_iff in H. destruct H as [Hc0 Hr]. apply Z.eqb_eq in Hc0. subst c0.
    destruct r as [|c1 r1]; [discriminate|].
    destruct (lastc_plain (c1 :: r1) (Some 45) ltac:(discriminate) Hr) as [c [Hl Hc]].
    destruct (plain_facts c Hc) as [W [Ar _]]. exists c. repeat split; [exact Ar|exact W|].
    intros rest off d prev last Hp. cbn [app]. rewrite step_sign by exact Hp.
    change ((c1 :: r1) ++ rest) with ((c1 :: r1) ++ rest). rewrite (scan_plain ops Ho (c1 :: r1) rest) by exact Hr.
    rewrite Hl. f_equal. cbn [blen]. change (utf8_len 45) with 1. lia.
  - (* quoted string *)
    apply andb_true_iff in H. destruct H as [Hq Hr].
    destruct (rev r) as [|d m] eqn:R; [discriminate|].
    apply andb_true_iff in Hr. destruct Hr as [Hd Hm]. apply Z.eqb_eq in Hd. subst d. apply negb_true_iff in Hm.
    assert (Er : r = rev m ++ [c0]) by (rewrite <- (rev_involutive r), R; reflexivity).
    assert (Hm' : memc c0 (rev m) = false).
    { unfold memc in *. destruct (existsb (Z.eqb c0) (rev m)) eqn:E; [|reflexivity].
      apply existsb_exists in E. destruct E as [x [Hin Hx]]. apply in_rev in Hin.
      assert (existsb (Z.eqb c0) m = true) by (apply existsb_exists; exists x; split; assumption). congruence. }
    exists c0. assert (Hq' := Hq). apply orb_true_iff in Hq'.
    repeat split; [destruct Hq' as [E|E]; apply Z.eqb_eq in E; subst c0; reflexivity|destruct Hq' as [E|E]; apply Z.eqb_eq in E; subst c0; reflexivity|].
    intros rest off d prev last _. subst r. cbn [app]. rewrite <- app_assoc. cbn [app].
    rewrite (scan_quoted ops c0 (rev m) rest off d prev last Hq Hm'). reflexivity.
Qed.

Lemma atom_first t : atom_text_ok t = true -> exists c r, t = c :: r /\ ws c = false /\ (c =? 40) = false.
Proof.
  intros H. destruct t as [|c r]; [discriminate|]. exists c, r. split; [reflexivity|]. unfold atom_text_ok in H.
  apply orb_true_iff in H. destruct H as [H|H]; [apply orb_true_iff in H; destruct H as [H|H]|].
  - cbn [forallb] in H. apply andb_true_iff in H. destruct H as [Hc _]. destruct (plain_facts c Hc) as [W [_ [P _]]]. tauto.
  - apply andb_true_iff in H. destruct H as [Hc _]. apply Z.eqb_eq in Hc. subst c. split; reflexivity.
  - apply andb_true_iff in H. destruct H as [Hc _]. apply orb_true_iff in Hc.
    destruct Hc as [E|E]; apply Z.eqb_eq in E; subst c; split; reflexivity.
Qed.

Lemma forallb_rev {T} (p : T -> bool) l : forallb p (rev l) = forallb p l.
Proof. induction l as [|x l IH]; cbn; [reflexivity|]. rewrite forallb_app, IH. cbn. rewrite andb_true_r. apply andb_comm. Qed.

Lemma atom_last t : atom_text_ok t = true -> exists c r, rev t = c :: r /\ ws c = false.
Proof.
  intros H. destruct t as [|c0 r0]; [discriminate|]. unfold atom_text_ok in H.
  apply orb_true_iff in H. destruct H as [H|H]; [apply orb_true_iff in H; destruct H as [H|H]|].
  - rewrite <- forallb_rev in H. destruct (rev (c0 :: r0)) as [|c r] eqn:R.
    + apply (f_equal (@length Z)) in R. rewrite rev_length in R. discriminate.
    + exists c, r. split; [reflexivity|]. cbn [forallb] in H. apply andb_true_iff in H. destruct H as [Hc _].
      destruct (plain_facts c Hc) as [W _]. exact W.
  - apply andb_true_iff in H. destruct H as [_ Hr]. destruct r0 as [|c1 r1]; [discriminate|].
    rewrite <- forallb_rev in Hr. cbn [rev]. destruct (rev (c1 :: r1)) as [|c r] eqn:R.
    + apply (f_equal (@length Z)) in R. rewrite rev_length in R. discriminate.
    + cbn [rev] in R. rewrite R. exists c, (r ++ [c0]). split; [reflexivity|].
      cbn [forallb] in Hr. apply andb_true_iff in Hr. destruct Hr as [Hc _]. destruct (plain_facts c Hc) as [W _]. exact W.
  - apply andb_true_iff in H. destruct H as [Hq Hr]. cbn [rev].
    destruct (rev r0) as [|d m] eqn:R; [discriminate|]. apply andb_true_iff in Hr. destruct Hr as [Hd _]. apply Z.eqb_eq in Hd. subst d.
    exists c0, (m ++ [c0]). split; [reflexivity|]. apply orb_true_iff in Hq. destruct Hq as [E|E]; apply Z.eqb_eq in E; subst c0; reflexivity.
Qed.

(** ---------- expected result of the scan, computed on the tree ---------- *)
Fixpoint last_top (ops : list Z) (e : aexp) (off : Z) (last : option Z) : option Z :=
  match e with
  | ABin op a b =>
      let pos := off + blen (pr a) + 1 in
      last_top ops b (pos + 2) (if memc op ops then Some pos else last_top ops a off last)
  | _ => last
  end.

Lemma is_addop_arith op : is_addop op = true -> is_arith op = true /\ ws op = false /\ utf8_len op = 1
  /\ ((op =? 34) || (op =? 39)) = false /\ (op =? 40) = false /\ (op =? 41) = false.
Proof. unfold is_addop. intros H. apply orb_true_iff in H. destruct H as [E|E]; apply Z.eqb_eq in E; subst op; repeat split. Qed.
Lemma is_mulop_arith op : is_mulop op = true -> is_arith op = true /\ ws op = false /\ utf8_len op = 1
  /\ ((op =? 34) || (op =? 39)) = false /\ (op =? 40) = false /\ (op =? 41) = false /\ is_addop op = false.
Proof. unfold is_mulop. intros H. apply orb_true_iff in H. destruct H as [H|E]; [apply orb_true_iff in H; destruct H as [E|E]|];
  apply Z.eqb_eq in E; subst op; repeat split. Qed.

Lemma wf_op op a b : wf (ABin op a b) = true ->
  is_arith op = true /\ ws op = false /\ utf8_len op = 1 /\ ((op =? 34) || (op =? 39)) = false /\ (op =? 40) = false /\ (op =? 41) = false.
Proof.
  cbn [wf]. intros H. apply andb_true_iff in H. destruct H as [_ H].
  destruct (is_addop op) eqn:A; [apply is_addop_arith in A; tauto|].
  apply andb_true_iff in H. destruct H as [H _]. apply andb_true_iff in H. destruct H as [M _].
  apply is_mulop_arith in M. tauto.
Qed.

(** scanning the printed text of a well-formed tree: the depth, the quote state and (below depth 0)
    the candidate are unchanged; at depth 0 the candidate is what [last_top] computes on the tree *)
Lemma scan_expr ops : ops_arith ops -> forall e, wf e = true ->
  exists c, is_arith c = false /\ ws c = false /\
    forall rest off d prev last, 0 <= d -> pk d prev ->
      find_op ws ops (pr e ++ rest) off d prev None last
      = find_op ws ops rest (off + blen (pr e)) d (Some c) None (if d =? 0 then last_top ops e off last else last).
Proof.
  intros Ho. induction e as [l|p|op a IHa b IHb|a IHa]; intros Hwf.
  - cbn [wf pr] in *. destruct (atom_scan ops (pr_lit l) Ho Hwf) as [c [Ar [W Hs]]]. exists c. repeat split; [exact Ar|exact W|].
    intros rest off d prev last _ Hp. rewrite Hs by exact Hp. cbn [last_top]. destruct (d =? 0); reflexivity.
  - cbn [wf pr] in *. destruct (atom_scan ops (join_dot p) Ho Hwf) as [c [Ar [W Hs]]]. exists c. repeat split; [exact Ar|exact W|].
    intros rest off d prev last _ Hp. rewrite Hs by exact Hp. cbn [last_top]. destruct (d =? 0); reflexivity.
  - destruct (wf_op op a b Hwf) as [OA [OW [OL [OQ [OP1 OP2]]]]].
    cbn [wf] in Hwf. apply andb_true_iff in Hwf. destruct Hwf as [Hwf _]. apply andb_true_iff in Hwf. destruct Hwf as [Wa Wb].
    destruct (IHa Wa) as [ca [Aa [Wsa Sa]]]. destruct (IHb Wb) as [cb [Ab [Wsb Sb]]].
    exists cb. repeat split; [exact Ab|exact Wsb|].
    intros rest off d prev last Hd Hp. cbn [pr]. rewrite <- !app_assoc. cbn [app].
    rewrite Sa by assumption.
    (* the blank before the operator *)
    cbn [find_op]. change (ws 32) with true. change ((32 =? 34) || (32 =? 39)) with false. change (32 =? 40) with false. change (32 =? 41) with false.
    assert (M32 : memc 32 ops = false) by (destruct (memc 32 ops) eqn:M; [apply Ho in M; discriminate|reflexivity]).
    rewrite M32, andb_false_r. change (utf8_len 32) with 1.
    (* the operator: the previous non-blank character ends an operand, so it is binary *)
    rewrite OW, OQ, OP1, OP2, OL, Aa. rewrite andb_false_r.
    (* the blank after it, then the right operand *)
    assert (Hpo : pk d (Some op)) by (intros _; exact OA).
    destruct ((d =? 0) && memc op ops) eqn:G.
    + apply andb_true_iff in G. destruct G as [G1 G2]. rewrite G1.
      rewrite Sb by assumption. rewrite G1. cbn [last_top]. rewrite G2.
      rewrite !blen_app. cbn [blen]. change (utf8_len 32) with 1. rewrite OL.
      replace (off + blen (pr a) + 1 + 1 + 1) with (off + blen (pr a) + 1 + 2) by lia.
      f_equal. lia.
    + rewrite Sb by assumption. cbn [last_top].
      rewrite !blen_app. cbn [blen]. change (utf8_len 32) with 1. rewrite OL.
      replace (off + blen (pr a) + 1 + 1 + 1) with (off + blen (pr a) + 1 + 2) by lia.
      destruct (d =? 0) eqn:D0.
      * cbn [andb] in G. rewrite G. f_equal. lia.
      * f_equal. lia.
  - cbn [wf] in Hwf. destruct (IHa Hwf) as [ca [Aa [Wsa Sa]]]. exists 41. repeat split.
    intros rest off d prev last Hd Hp. cbn [pr app]. rewrite <- app_assoc. cbn [app].
    cbn [find_op]. change (ws 40) with false. change ((40 =? 34) || (40 =? 39)) with false. change (40 =? 40) with true. cbn iota.
    rewrite Sa; [|lia|intros D; apply Z.eqb_eq in D; lia].
    assert (D1 : (d + 1 =? 0) = false) by (apply Z.eqb_neq; lia). rewrite D1.
    cbn [find_op]. change (ws 41) with false. change ((41 =? 34) || (41 =? 39)) with false. change (41 =? 40) with false. change (41 =? 41) with true. cbn iota.
    cbn [last_top]. replace (d + 1 - 1) with d by lia.
    cbn [blen]. rewrite blen_app. cbn [blen]. change (utf8_len 40) with 1. change (utf8_len 41) with 1.
    destruct (d =? 0); f_equal; lia.
Qed.

(** ---------- what find_operator returns on a printed tree ---------- *)
Lemma find_operator_pr ops e : ops_arith ops -> wf e = true ->
  find_operator ws ops (pr e) = last_top ops e 0 None.
Proof.
  intros Ho Hw. destruct (scan_expr ops Ho e Hw) as [c [_ [_ S]]].
  unfold find_operator. specialize (S [] 0 0 None None ltac:(lia) ltac:(intros _; reflexivity)).
  rewrite app_nil_r in S. rewrite S. reflexivity.
Qed.

Fixpoint no_add (e : aexp) : bool :=
  match e with ABin op a b => negb (is_addop op) && no_add a && no_add b | _ => true end.

Lemma wf_no_add : forall e, wf e = true -> top_add e = false -> no_add e = true.
Proof.
  induction e as [l|p|op a IHa b IHb|a IHa]; intros Hw Ht; try reflexivity.
  cbn [top_add] in Ht. cbn [wf] in Hw. rewrite Ht in Hw.
  apply andb_true_iff in Hw. destruct Hw as [Hw H3]. apply andb_true_iff in Hw. destruct Hw as [Wa Wb].
  apply andb_true_iff in H3. destruct H3 as [H3 Hb]. apply andb_true_iff in H3. destruct H3 as [_ Ha].
  apply negb_true_iff in Ha, Hb. cbn [no_add]. rewrite Ht, (IHa Wa Ha). cbn [negb andb].
  destruct b; try reflexivity. discriminate.
Qed.

Lemma memc_pm op : memc op plus_minus = is_addop op.
Proof. unfold memc, plus_minus, is_addop. cbn. rewrite orb_false_r. reflexivity. Qed.
Lemma memc_md op : memc op mul_div_mod = is_mulop op.
Proof. unfold memc, mul_div_mod, is_mulop. cbn. rewrite orb_false_r, orb_assoc. reflexivity. Qed.

Lemma last_top_no_add : forall e off last, no_add e = true -> last_top plus_minus e off last = last.
Proof.
  induction e as [l|p|op a IHa b IHb|a IHa]; intros off last H; try reflexivity.
  cbn [no_add] in H. apply andb_true_iff in H. destruct H as [H Hb]. apply andb_true_iff in H. destruct H as [Hop Ha].
  apply negb_true_iff in Hop. cbn [last_top]. rewrite memc_pm, Hop. rewrite IHb by exact Hb. apply IHa. exact Ha.
Qed.

Lemma last_top_atom ops e off last : is_bin e = false -> last_top ops e off last = last.
Proof. destruct e; try reflexivity. discriminate. Qed.

(** F1: the split point of a sum is its last top-level + or - *)
Lemma find_pm_add op a b : wf (ABin op a b) = true -> is_addop op = true ->
  find_operator ws plus_minus (pr (ABin op a b)) = Some (blen (pr a) + 1).
Proof.
  intros Hw Hop. rewrite find_operator_pr by (exact ops_arith_pm || exact Hw).
  cbn [last_top]. rewrite memc_pm, Hop.
  cbn [wf] in Hw. rewrite Hop in Hw. apply andb_true_iff in Hw. destruct Hw as [Hw Hb]. apply andb_true_iff in Hw. destruct Hw as [_ Wb].
  apply negb_true_iff in Hb. rewrite last_top_no_add by (apply wf_no_add; assumption). f_equal.
Qed.

(** F2: a product, an atom or a parenthesised expression has no top-level + or - *)
Lemma find_pm_none e : wf e = true -> top_add e = false -> find_operator ws plus_minus (pr e) = None.
Proof.
  intros Hw Ht. rewrite find_operator_pr by (exact ops_arith_pm || exact Hw).
  apply last_top_no_add. apply wf_no_add; assumption.
Qed.

(** F3: the split point of a product is its last * / % *)
Lemma find_md_mul op a b : wf (ABin op a b) = true -> is_addop op = false ->
  find_operator ws mul_div_mod (pr (ABin op a b)) = Some (blen (pr a) + 1).
Proof.
  intros Hw Hop. rewrite find_operator_pr by (exact ops_arith_md || exact Hw).
  cbn [last_top]. cbn [wf] in Hw. rewrite Hop in Hw.
  apply andb_true_iff in Hw. destruct Hw as [_ H3]. apply andb_true_iff in H3. destruct H3 as [H3 Hb]. apply andb_true_iff in H3. destruct H3 as [Hm _].
  rewrite memc_md, Hm. apply negb_true_iff in Hb. rewrite last_top_atom by exact Hb. f_equal.
Qed.

(** F4: an atom or a parenthesised expression has no top-level operator at all *)
Lemma find_md_none e : wf e = true -> is_bin e = false -> find_operator ws mul_div_mod (pr e) = None.
Proof.
  intros Hw Hb. rewrite find_operator_pr by (exact ops_arith_md || exact Hw). apply last_top_atom. exact Hb.
Qed.

(** ---------- trimming ---------- *)
Lemma pr_first : forall e, wf e = true -> exists c r, pr e = c :: r /\ ws c = false.
Proof.
  induction e as [l|p|op a IHa b IHb|a IHa]; intros Hw.
  - destruct (atom_first _ Hw) as [c [r [E [W _]]]]. exists c, r. split; assumption.
  - destruct (atom_first _ Hw) as [c [r [E [W _]]]]. exists c, r. split; assumption.
  - cbn [wf] in Hw. apply andb_true_iff in Hw. destruct Hw as [Hw _]. apply andb_true_iff in Hw. destruct Hw as [Wa _].
    destruct (IHa Wa) as [c [r [E W]]]. cbn [pr]. rewrite E. exists c, (r ++ [32; op; 32] ++ pr b). split; [reflexivity|exact W].
  - exists 40, (pr a ++ [41]). split; reflexivity.
Qed.

Lemma pr_last : forall e, wf e = true -> exists c r, rev (pr e) = c :: r /\ ws c = false.
Proof.
  induction e as [l|p|op a IHa b IHb|a IHa]; intros Hw.
  - exact (atom_last _ Hw).
  - exact (atom_last _ Hw).
  - cbn [wf] in Hw. apply andb_true_iff in Hw. destruct Hw as [Hw _]. apply andb_true_iff in Hw. destruct Hw as [_ Wb].
    destruct (IHb Wb) as [c [r [E W]]]. cbn [pr]. rewrite !rev_app_distr, E. exists c, ((r ++ rev [32; op; 32]) ++ rev (pr a)). split; [reflexivity|exact W].
  - cbn [pr]. change (40 :: pr a ++ [41]) with ([40] ++ pr a ++ [41]). rewrite !rev_app_distr. exists 41, (rev (pr a) ++ [40]). split; reflexivity.
Qed.

Lemma trim_start_nonws c r : ws c = false -> trim_start ws (c :: r) = c :: r.
Proof. intros W. cbn. rewrite W. reflexivity. Qed.

Lemma trim_pr e : wf e = true -> trim ws (pr e) = pr e.
Proof.
  intros Hw. destruct (pr_first e Hw) as [c [r [E W]]]. destruct (pr_last e Hw) as [c' [r' [E' W']]].
  unfold trim. rewrite E, trim_start_nonws by exact W. rewrite <- E, E', trim_start_nonws by exact W'.
  rewrite <- E'. apply rev_involutive.
Qed.

Lemma trim_pr_space e : wf e = true -> trim ws (pr e ++ [32]) = pr e.
Proof.
  intros Hw. destruct (pr_first e Hw) as [c [r [E W]]]. destruct (pr_last e Hw) as [c' [r' [E' W']]].
  unfold trim. rewrite E. cbn [app]. rewrite trim_start_nonws by exact W.
  change (c :: r ++ [32]) with ((c :: r) ++ [32]). rewrite <- E, rev_app_distr. cbn [rev app].
  change (trim_start ws (32 :: rev (pr e))) with (trim_start ws (rev (pr e))).
  rewrite E', trim_start_nonws by exact W'. rewrite <- E'. apply rev_involutive.
Qed.

Lemma trim_space_pr e : wf e = true -> trim ws (32 :: pr e) = pr e.
Proof.
  intros Hw. unfold trim. change (trim_start ws (32 :: pr e)) with (trim_start ws (pr e)).
  exact (trim_pr e Hw).
Qed.

(** ---------- the theorem ---------- *)
Lemma length_app3 (a b : str) (op : Z) : Nat.lt (length a) (length (a ++ [32; op; 32] ++ b)) /\ Nat.lt (length b) (length (a ++ [32; op; 32] ++ b)).
Proof. unfold Nat.lt. rewrite !app_length. cbn. lia. Qed.

Lemma node_split f fu op a b :
  wf (ABin op a b) = true ->
  (forall e s, wf e = true -> trim ws s = pr e -> (length (pr e) < fu)%nat -> eval_expr fu f s = meval f e) ->
  (length (pr (ABin op a b)) < S fu)%nat ->
  match slice (pr (ABin op a b)) 0 (blen (pr a) + 1), slice (pr (ABin op a b)) (blen (pr a) + 1) (blen (pr a) + 1 + 1),
        slice (pr (ABin op a b)) (blen (pr a) + 1 + 1) (blen (pr (ABin op a b))) with
  | Some l, Some [o], Some r =>
      match eval_expr fu f l with
      | EOk lv => match eval_expr fu f r with EOk rv => apply_operator lv o rv | x => x end
      | x => x end
  | _, _, _ => EPanic
  end = meval f (ABin op a b).
Proof.
  intros Hw IH Hlen. destruct (wf_op op a b Hw) as [_ [_ [OL _]]].
  assert (Hw' := Hw). cbn [wf] in Hw'. apply andb_true_iff in Hw'. destruct Hw' as [Hw' _]. apply andb_true_iff in Hw'. destruct Hw' as [Wa Wb].
  cbn [pr].
  assert (S1 : slice (pr a ++ [32; op; 32] ++ pr b) 0 (blen (pr a) + 1) = Some (pr a ++ [32])).
  { pose proof (slice_app [] (pr a ++ [32]) ([op; 32] ++ pr b)) as S. cbn [app blen] in S.
    rewrite blen_app in S. cbn [blen] in S. change (utf8_len 32) with 1 in S.
    replace (0 + (blen (pr a) + (1 + 0))) with (blen (pr a) + 1) in S by lia.
    rewrite <- app_assoc in S. cbn [app] in S. exact S. }
  assert (S2 : slice (pr a ++ [32; op; 32] ++ pr b) (blen (pr a) + 1) (blen (pr a) + 1 + 1) = Some [op]).
  { pose proof (slice_app (pr a ++ [32]) [op] (32 :: pr b)) as S. rewrite blen_app in S. cbn [blen] in S.
    change (utf8_len 32) with 1 in S. rewrite OL in S.
    replace (blen (pr a) + (1 + 0)) with (blen (pr a) + 1) in S by lia. replace (1 + 0) with 1 in S by lia.
    rewrite <- app_assoc in S. cbn [app] in S. exact S. }
  assert (S3 : slice (pr a ++ [32; op; 32] ++ pr b) (blen (pr a) + 1 + 1) (blen (pr a ++ [32; op; 32] ++ pr b)) = Some (32 :: pr b)).
  { pose proof (slice_app (pr a ++ [32; op]) (32 :: pr b) []) as S. rewrite app_nil_r in S.
    rewrite blen_app in S. cbn [blen] in S. change (utf8_len 32) with 1 in S. rewrite OL in S.
    replace (blen (pr a) + (1 + (1 + 0))) with (blen (pr a) + 1 + 1) in S by lia.
    rewrite <- app_assoc in S. cbn [app] in S.
    change (pr a ++ [32; op; 32] ++ pr b) with (pr a ++ 32 :: op :: 32 :: pr b).
    replace (blen (pr a ++ 32 :: op :: 32 :: pr b)) with (blen (pr a) + 1 + 1 + (1 + blen (pr b))); [exact S|].
    rewrite blen_app. cbn [blen]. change (utf8_len 32) with 1. rewrite OL. lia. }
  rewrite S1, S2, S3.
  destruct (length_app3 (pr a) (pr b) op) as [La Lb]. cbn [pr] in Hlen.
  rewrite (IH a (pr a ++ [32]) Wa (trim_pr_space a Wa)) by lia.
  rewrite (IH b (32 :: pr b) Wb (trim_space_pr b Wb)) by lia.
  reflexivity.
Qed.

Lemma eval_expr_S fu f s :
  eval_expr (S fu) f s =
  let e := trim ws s in
  let node (ops : list Z) (k : unit -> eres) : eres :=
    match find_operator ws ops e with
    | Some pos =>
        match slice e 0 pos, slice e pos (pos + 1), slice e (pos + 1) (blen e) with
        | Some l, Some [op], Some r =>
            match eval_expr fu f l with
            | EOk lv => match eval_expr fu f r with EOk rv => apply_operator lv op rv | x => x end
            | x => x
            end
        | _, _, _ => EPanic
        end
    | None => k tt
    end in
  node plus_minus (fun _ => node mul_div_mod (fun _ =>
    if (2 <=? blen e) && enclosed e 40 41 then
      match slice e 1 (blen e - 1) with Some inner => eval_expr fu f inner | None => EPanic end
    else eleaf f e)).
Proof. reflexivity. Qed.

Lemma enclosed_atom t : atom_text_ok t = true -> enclosed t 40 41 = false.
Proof.
  intros H. destruct (atom_first t H) as [c [r [E [_ P]]]]. subst t. unfold enclosed.
  destruct (rev (c :: r)); [reflexivity|]. rewrite P. reflexivity.
Qed.

Lemma par_slice a : slice (40 :: pr a ++ [41]) 1 (blen (40 :: pr a ++ [41]) - 1) = Some (pr a)
  /\ ((2 <=? blen (40 :: pr a ++ [41])) && enclosed (40 :: pr a ++ [41]) 40 41) = true.
Proof.
  split.
  - pose proof (slice_app [40] (pr a) [41]) as S. cbn [blen app] in S. change (utf8_len 40) with 1 in S.
    replace (1 + 0) with 1 in S by lia.
    replace (blen (40 :: pr a ++ [41]) - 1) with (1 + blen (pr a)); [exact S|].
    cbn [blen]. rewrite blen_app. cbn [blen]. change (utf8_len 40) with 1. change (utf8_len 41) with 1. lia.
  - apply andb_true_iff. split.
    + apply Z.leb_le. cbn [blen]. rewrite blen_app. cbn [blen]. change (utf8_len 40) with 1. change (utf8_len 41) with 1.
      pose proof (blen_nonneg (pr a)). lia.
    + unfold enclosed. change (40 :: pr a ++ [41]) with ([40] ++ pr a ++ [41]). rewrite !rev_app_distr. reflexivity.
Qed.

(** The evaluator applied to the printed text of a well-formed tree computes the tree's meaning:
    every operator is applied to the values of exactly its two sub-trees. *)
Theorem eval_print : forall fuel f e s, wf e = true -> trim ws s = pr e -> (length (pr e) < fuel)%nat ->
  eval_expr fuel f s = meval f e.
Proof.
  induction fuel as [|fu IH]; intros f e s Hw Ht Hlen; [lia|].
  rewrite eval_expr_S. cbv zeta. rewrite Ht.
  destruct e as [l|p|op a b|a].
  - rewrite (find_pm_none (ALit l)), (find_md_none (ALit l)) by (exact Hw || reflexivity).
    cbn [pr wf] in *. rewrite (enclosed_atom _ Hw), andb_false_r. reflexivity.
  - rewrite (find_pm_none (AField p)), (find_md_none (AField p)) by (exact Hw || reflexivity).
    cbn [pr wf] in *. rewrite (enclosed_atom _ Hw), andb_false_r. reflexivity.
  - destruct (is_addop op) eqn:A.
    + rewrite (find_pm_add op a b Hw A). apply node_split; [exact Hw| |exact Hlen]. intros e0 s0 W0 T0 L0. apply IH; assumption.
    + rewrite (find_pm_none (ABin op a b) Hw A). rewrite (find_md_mul op a b Hw A).
      apply node_split; [exact Hw| |exact Hlen]. intros e0 s0 W0 T0 L0. apply IH; assumption.
  - rewrite (find_pm_none (APar a)), (find_md_none (APar a)) by (exact Hw || reflexivity).
    cbn [pr]. destruct (par_slice a) as [S G]. rewrite G, S.
    cbn [wf] in Hw. cbn [meval]. apply IH; [exact Hw|apply trim_pr; exact Hw|]. cbn [pr length] in Hlen. rewrite app_length in Hlen. lia.
Qed.

Corollary evaluate_expression_print f e : wf e = true -> evaluate_expression f (pr e) = meval f e.
Proof. intros Hw. unfold evaluate_expression. apply eval_print; [exact Hw|apply trim_pr; exact Hw|lia]. Qed.
