(** C12 — StreamAlphaNode: after every accepted event the buffer holds nothing outside the window of the
    clock, only events it held before plus the new one, and never more than the cap.  Proofs. *)
From RRE Require Import Base.Sx Model.StreamAlpha.
From Coq Require Import Lia.
Open Scope N_scope.

Definition lower (kind d now : N) : N := if kind =? 0 then now - d else (now / d) * d.

Lemma evict_lower kind d now nd e : In e (n_events (evict kind d now nd)) -> lower kind d now <= snd e.
Proof.
  unfold evict, lower. destruct (kind =? 0); cbn [n_events]; intros H; apply filter_In in H; destruct H as [_ H];
    apply negb_true_iff in H; apply N.ltb_ge in H; exact H.
Qed.

Lemma evict_sub kind d now nd e : In e (n_events (evict kind d now nd)) -> In e (n_events nd).
Proof. unfold evict. destruct (kind =? 0); cbn [n_events]; intros H; apply filter_In in H; tauto. Qed.

Lemma cap_front_sub : forall n (l : list (N * N)) e, In e (cap_front n l) -> In e l.
Proof. induction n as [|n IH]; intros l e H; cbn [cap_front] in H; [exact H|]. apply IH in H. destruct l; [exact H|right; exact H]. Qed.

Lemma cap_front_length : forall n (l : list (N * N)), length (cap_front n l) = (length l - n)%nat.
Proof. induction n as [|n IH]; intros l; cbn [cap_front]; [lia|]. rewrite IH. destruct l; cbn; lia. Qed.

Lemma filter_length_le {T} (p : T -> bool) l : (length (filter p l) <= length l)%nat.
Proof. induction l as [|x l IH]; cbn; [lia|]. destruct (p x); cbn; lia. Qed.

(** no retained event lies before the window of the clock *)
Theorem accepted_within_window kind d maxn now nd id ts s t nd' :
  process kind d maxn now nd id ts s t = (nd', true) -> forall e, In e (n_events nd') -> lower kind d now <= snd e.
Proof.
  unfold process. destruct (negb s || negb t); [discriminate|]. destruct (in_window kind d now ts); [|discriminate].
  intros H e He. inversion H; subst nd'. eapply evict_lower. exact He.
Qed.

(** nothing appears in the buffer that was not there before, except the event just accepted *)
Theorem buffer_only_shrinks kind d maxn now nd id ts s t nd' b :
  process kind d maxn now nd id ts s t = (nd', b) -> forall e, In e (n_events nd') -> In e (n_events nd) \/ (b = true /\ e = (id, ts)).
Proof.
  unfold process. destruct (negb s || negb t); [intros H e He; inversion H; subst; left; exact He|].
  destruct (in_window kind d now ts); [|intros H e He; inversion H; subst; left; exact He].
  intros H e He. inversion H; subst nd' b. apply evict_sub in He. cbn [n_events] in He. unfold cap in He.
  apply cap_front_sub in He. apply in_app_iff in He. destruct He as [He|[He|[]]]; [left; exact He|right; split; [reflexivity|symmetry; exact He]].
Qed.

(** the retention cap holds after every event *)
Theorem buffer_capped kind d maxn now nd id ts s t nd' :
  process kind d maxn now nd id ts s t = (nd', true) -> (length (n_events nd') <= N.to_nat maxn)%nat \/ maxn = 0.
Proof.
  unfold process. destruct (negb s || negb t); [discriminate|]. destruct (in_window kind d now ts); [|discriminate].
  intros H. inversion H; subst nd'. left.
  assert (L : (length (n_events (evict kind d now {| n_events := cap maxn (n_events nd ++ [(id, ts)]); n_last_start := n_last_start nd |}))
               <= length (cap maxn (n_events nd ++ [(id, ts)])))%nat).
  { unfold evict. destruct (kind =? 0); cbn [n_events]; apply filter_length_le. }
  unfold cap in *. rewrite cap_front_length in L. lia.
Qed.

(** an event is accepted exactly when it is from the node's stream, of its type and inside the window *)
Theorem accepted_iff kind d maxn now nd id ts s t :
  snd (process kind d maxn now nd id ts s t) = s && t && in_window kind d now ts.
Proof. unfold process. destruct s, t; cbn; try reflexivity. destruct (in_window kind d now ts); reflexivity. Qed.
