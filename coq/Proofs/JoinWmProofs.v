(** C14 — watermark advances that evict nothing: the re-scan emits nothing (every satisfying buffered pair was
    emitted, and flagged, when its later event arrived), the eviction pass returns the buffers unchanged, and the
    run emits exactly the reference join, whatever the interleaving of arrivals and watermark updates. *)
From RRE Require Import Base.Sx Model.Join Proofs.JoinProofs.
From Coq Require Import Lia Permutation.
Open Scope Z_scope.

Section JoinWm.
Variable cond : event -> event -> bool.
Variable w : Z.

Lemma memZ_app x a b : memZ x (a ++ b) = memZ x a || memZ x b.
Proof. induction a as [|y a IH]; cbn [app memZ]; [reflexivity|]. rewrite IH, orb_assoc. reflexivity. Qed.
Lemma memZ_addZ x y l : memZ x (addZ y l) = memZ x l || Z.eqb x y.
Proof.
  unfold addZ. destruct (memZ y l) eqn:E.
  - destruct (Z.eqb x y) eqn:E2; [apply Z.eqb_eq in E2; subst; rewrite E; reflexivity|rewrite orb_false_r; reflexivity].
  - rewrite memZ_app. cbn [memZ]. rewrite orb_false_r. reflexivity.
Qed.
Lemma memZ_fold_addZ x (rs : list event) : forall m, memZ x (fold_left (fun m r => addZ (eid r) m) rs m) = memZ x m || existsb (fun r => Z.eqb x (eid r)) rs.
Proof.
  induction rs as [|r rs IH]; intros m; cbn [fold_left existsb]; [rewrite orb_false_r; reflexivity|].
  rewrite IH, memZ_addZ, orb_assoc. reflexivity.
Qed.

Lemma NoDup_snoc_local {T} (l : list T) x : NoDup l -> ~ In x l -> NoDup (l ++ [x]).
Proof.
  induction l as [|y l IH]; intros ND Hn; cbn [app]; [constructor; [intros []|constructor]|].
  inversion ND as [|? ? Hy ND']; subst. constructor.
  - intros Hc. apply in_app_or in Hc. destruct Hc as [Hc|[Hc|[]]]; [exact (Hy Hc)|apply Hn; left; symmetry; exact Hc].
  - apply IH; [exact ND'|intros Hc; apply Hn; right; exact Hc].
Qed.

(** well-formed buffers: one queue per key, no empty queue *)
Definition WF (b : buf) : Prop := NoDup (map fst b) /\ forall kq, In kq b -> snd kq <> [].

Lemma WF_push b k e : WF b -> WF (buf_push b k e).
Proof.
  intros [ND NE]. unfold buf_push. destruct (existsb (fun x => Z.eqb (fst x) k) b) eqn:Ex.
  - split.
    + rewrite map_map. rewrite (map_ext _ fst); [exact ND|]. intros x. destruct (Z.eqb (fst x) k); reflexivity.
    + intros kq Hkq. apply in_map_iff in Hkq. destruct Hkq as [x [<- Hx]]. destruct (Z.eqb (fst x) k); cbn [snd]; [intros Hc; apply app_eq_nil in Hc; destruct Hc; discriminate|apply NE; exact Hx].
  - split.
    + rewrite map_app. cbn [map fst]. apply NoDup_snoc_local; [exact ND|]. intros Hc. apply in_map_iff in Hc. destruct Hc as [x [Hx1 Hx2]].
      assert (existsb (fun x => Z.eqb (fst x) k) b = true) by (apply existsb_exists; exists x; split; [exact Hx2|apply Z.eqb_eq; exact Hx1]). congruence.
    + intros kq Hkq. apply in_app_or in Hkq. destruct Hkq as [Hkq|[<-|[]]]; [apply NE; exact Hkq|discriminate].
Qed.

Lemma buf_get_in b kq : NoDup (map fst b) -> In kq b -> buf_get b (fst kq) = snd kq.
Proof.
  unfold buf_get. induction b as [|x b IH]; intros ND Hin; [destruct Hin|]. cbn [map] in ND. inversion ND as [|? ? Hx ND']; subst. cbn [find].
  destruct Hin as [->|Hin]; [rewrite Z.eqb_refl; reflexivity|].
  destruct (Z.eqb (fst x) (fst kq)) eqn:E; [|apply IH; assumption].
  apply Z.eqb_eq in E. exfalso. apply Hx. rewrite E. apply in_map. exact Hin.
Qed.

(** * an eviction pass over buffers without expired events changes nothing *)
Lemma evict_buf_id z b m : (forall kq, In kq b -> snd kq <> [] /\ forall e, In e (snd kq) -> (z - ets e >? w) = false) ->
  evict_buf w z b m = (b, m).
Proof.
  intros H. unfold evict_buf.
  assert (G : forall (b0 acc : buf), (forall kq, In kq b0 -> snd kq <> [] /\ forall e, In e (snd kq) -> (z - ets e >? w) = false) ->
     fold_left (fun acc kq => let '(k, ev) := evict_queue w z (snd kq) in
        (match k with [] => fst acc | _ => fst acc ++ [(fst kq, k)] end, filter (fun i => negb (memZ i (map eid ev))) (snd acc))) b0 (acc, m) = (acc ++ b0, m)).
  { induction b0 as [|[k q] b0 IH]; intros acc Hb; cbn [fold_left]; [rewrite app_nil_r; reflexivity|].
    destruct (Hb (k, q) (or_introl eq_refl)) as [Hne Hexp]. cbn [snd fst] in *.
    assert (Eq : evict_queue w z q = (q, [])).
    { destruct q as [|e q']; [reflexivity|]. cbn [evict_queue]. rewrite (Hexp e (or_introl eq_refl)). reflexivity. }
    rewrite Eq. cbn [map]. destruct q as [|e q']; [exfalso; apply Hne; reflexivity|].
    replace (filter (fun i => negb (memZ i [])) m) with m by (clear; induction m as [|x m IHm]; cbn; [reflexivity|f_equal; exact IHm]).
    rewrite IH; [rewrite <- app_assoc; reflexivity|]. intros kq Hkq. apply Hb. right. exact Hkq. }
  apply (G b []). exact H.
Qed.

(** * flags: every satisfying pair of arrived events is flagged on both sides *)
Definition FlagInv (s : jstate) (Ls Rs : list event) : Prop :=
  forall l r, In l Ls -> In r Rs -> same_key l r && within w l r && cond l r = true ->
    memZ (eid l) (lmatched s) = true /\ memZ (eid r) (rmatched s) = true.

Lemma rescan_nothing s Ls Rs : BufInv (lbuf s) Ls -> BufInv (rbuf s) Rs -> NoDup (map fst (lbuf s)) -> FlagInv s Ls Rs ->
  rescan cond w s = ([], lmatched s, rmatched s).
Proof.
  intros HL HR ND HF. unfold rescan.
  assert (G : forall b, (forall kq, In kq b -> In kq (lbuf s)) ->
     fold_left (fun acc kq => fold_left (fun acc l => fold_left (fun acc r =>
        let '(out, lm, rm) := acc in
        if within w l r && cond l r && (negb (memZ (eid l) lm) || negb (memZ (eid r) rm))
        then (out ++ [(eid l, eid r)], addZ (eid l) lm, addZ (eid r) rm) else acc)
        (buf_get (rbuf s) (fst kq)) acc) (snd kq) acc) b ([], lmatched s, rmatched s) = ([], lmatched s, rmatched s)).
  { induction b as [|kq b IH]; intros Hb; cbn [fold_left]; [reflexivity|].
    assert (Hq : forall q, (forall l, In l q -> In l (snd kq)) ->
       fold_left (fun acc l => fold_left (fun acc r =>
        let '(out, lm, rm) := acc in
        if within w l r && cond l r && (negb (memZ (eid l) lm) || negb (memZ (eid r) rm))
        then (out ++ [(eid l, eid r)], addZ (eid l) lm, addZ (eid r) rm) else acc)
        (buf_get (rbuf s) (fst kq)) acc) q ([], lmatched s, rmatched s) = ([], lmatched s, rmatched s)).
    { induction q as [|l q IHq]; intros Hqs; cbn [fold_left]; [reflexivity|].
      assert (Hr : forall rs, (forall r, In r rs -> In r (buf_get (rbuf s) (fst kq))) ->
         fold_left (fun acc r => let '(out, lm, rm) := acc in
           if within w l r && cond l r && (negb (memZ (eid l) lm) || negb (memZ (eid r) rm))
           then (out ++ [(eid l, eid r)], addZ (eid l) lm, addZ (eid r) rm) else acc) rs ([], lmatched s, rmatched s) = ([], lmatched s, rmatched s)).
      { induction rs as [|r rs IHr]; intros Hrs; cbn [fold_left]; [reflexivity|].
        assert (Hc : within w l r && cond l r && (negb (memZ (eid l) (lmatched s)) || negb (memZ (eid r) (rmatched s))) = false).
        { destruct (within w l r && cond l r) eqn:Ew; [|reflexivity]. cbn [andb].
          assert (Hl : In l Ls /\ haskey (fst kq) l = true).
          { pose proof (Hqs l (or_introl eq_refl)) as Hin. rewrite <- (buf_get_in (lbuf s) kq ND (Hb kq (or_introl eq_refl))), (HL (fst kq)) in Hin. apply filter_In in Hin. exact Hin. }
          assert (Hrr : In r Rs /\ haskey (fst kq) r = true).
          { pose proof (Hrs r (or_introl eq_refl)) as Hin. rewrite (HR (fst kq)) in Hin. apply filter_In in Hin. exact Hin. }
          destruct Hl as [Hl1 Hl2], Hrr as [Hr1 Hr2].
          assert (Hsk : same_key l r = true).
          { unfold same_key, haskey in *. destruct (ekey l) as [a|]; [|discriminate]. destruct (ekey r) as [c|]; [|discriminate].
            apply Z.eqb_eq in Hl2, Hr2. apply Z.eqb_eq. congruence. }
          destruct (HF l r Hl1 Hr1) as [F1 F2]; [rewrite Hsk; cbn [andb]; exact Ew|]. rewrite F1, F2. reflexivity. }
        rewrite Hc. apply IHr. intros r0 Hr0. apply Hrs. right. exact Hr0. }
      rewrite (Hr _ (fun r H => H)). apply IHq. intros l0 Hl0. apply Hqs. right. exact Hl0. }
    rewrite (Hq _ (fun l H => H)). apply IH. intros kq0 H0. apply Hb. right. exact H0. }
  apply (G (lbuf s)). auto.
Qed.

Lemma same_key_haskey_l e r k : ekey e = Some k -> same_key e r = haskey k r.
Proof. intros H. unfold same_key, haskey. rewrite H. destruct (ekey r); [apply Z.eqb_sym|reflexivity]. Qed.
Lemma same_key_haskey_rr l e k : ekey e = Some k -> same_key l e = haskey k l.
Proof. intros H. unfold same_key, haskey. rewrite H. destruct (ekey l); reflexivity. Qed.

Lemma flag_left s Ls Rs e k : ekey e = Some k -> BufInv (rbuf s) Rs -> FlagInv s Ls Rs ->
  FlagInv (fst (process_left cond w s e)) (Ls ++ [e]) Rs.
Proof.
  intros Hk HR HF l r Hl Hr Hc. unfold process_left. rewrite Hk. cbn [fst lmatched rmatched].
  set (rs := filter (fun r => within w e r && cond e r) (buf_get (rbuf s) k)).
  assert (Hmono_l : forall x, memZ x (lmatched s) = true -> memZ x (match rs with [] => lmatched s | _ => addZ (eid e) (lmatched s) end) = true).
  { intros x Hx. destruct rs; [exact Hx|]. rewrite memZ_addZ, Hx. reflexivity. }
  assert (Hmono_r : forall x, memZ x (rmatched s) = true -> memZ x (fold_left (fun m r => addZ (eid r) m) rs (rmatched s)) = true).
  { intros x Hx. rewrite memZ_fold_addZ, Hx. reflexivity. }
  apply in_app_or in Hl. destruct Hl as [Hl|[<-|[]]].
  - destruct (HF l r Hl Hr Hc) as [A B]. split; [apply Hmono_l; exact A|apply Hmono_r; exact B].
  - assert (Hin : In r rs).
    { unfold rs. apply filter_In. apply andb_true_iff in Hc. destruct Hc as [Hc1 Hc3]. apply andb_true_iff in Hc1. destruct Hc1 as [Hc1 Hc2].
      split; [rewrite (HR k); apply filter_In; split; [exact Hr|rewrite <- (same_key_haskey_l e r k Hk); exact Hc1]|rewrite Hc2, Hc3; reflexivity]. }
    split.
    + destruct rs as [|r0 rs0]; [destruct Hin|]. rewrite memZ_addZ, Z.eqb_refl. apply orb_true_r.
    + rewrite memZ_fold_addZ. apply orb_true_iff. right. apply existsb_exists. exists r. split; [exact Hin|apply Z.eqb_refl].
Qed.

Lemma flag_right s Ls Rs e k : ekey e = Some k -> BufInv (lbuf s) Ls -> FlagInv s Ls Rs ->
  FlagInv (fst (process_right cond w s e)) Ls (Rs ++ [e]).
Proof.
  intros Hk HL HF l r Hl Hr Hc. unfold process_right. rewrite Hk. cbn [fst lmatched rmatched].
  set (ls := filter (fun l => within w l e && cond l e) (buf_get (lbuf s) k)).
  assert (Hmono_r : forall x, memZ x (rmatched s) = true -> memZ x (match ls with [] => rmatched s | _ => addZ (eid e) (rmatched s) end) = true).
  { intros x Hx. destruct ls; [exact Hx|]. rewrite memZ_addZ, Hx. reflexivity. }
  assert (Hmono_l : forall x, memZ x (lmatched s) = true -> memZ x (fold_left (fun m l => addZ (eid l) m) ls (lmatched s)) = true).
  { intros x Hx. rewrite memZ_fold_addZ, Hx. reflexivity. }
  apply in_app_or in Hr. destruct Hr as [Hr|[<-|[]]].
  - destruct (HF l r Hl Hr Hc) as [A B]. split; [apply Hmono_l; exact A|apply Hmono_r; exact B].
  - assert (Hin : In l ls).
    { unfold ls. apply filter_In. apply andb_true_iff in Hc. destruct Hc as [Hc1 Hc3]. apply andb_true_iff in Hc1. destruct Hc1 as [Hc1 Hc2].
      split; [rewrite (HL k); apply filter_In; split; [exact Hl|rewrite <- (same_key_haskey_rr l e k Hk); exact Hc1]|rewrite Hc2, Hc3; reflexivity]. }
    split.
    + rewrite memZ_fold_addZ. apply orb_true_iff. right. apply existsb_exists. exists l. split; [exact Hin|apply Z.eqb_refl].
    + destruct ls as [|l0 ls0]; [destruct Hin|]. rewrite memZ_addZ, Z.eqb_refl. apply orb_true_r.
Qed.

Lemma FlagInv_nokey_l s Ls Rs e : ekey e = None -> FlagInv s Ls Rs -> FlagInv s (Ls ++ [e]) Rs.
Proof. intros Hk HF l r Hl Hr Hc. apply in_app_or in Hl. destruct Hl as [Hl|[<-|[]]]; [apply HF; assumption|]. unfold same_key in Hc. rewrite Hk in Hc. discriminate. Qed.
Lemma FlagInv_nokey_r s Ls Rs e : ekey e = None -> FlagInv s Ls Rs -> FlagInv s Ls (Rs ++ [e]).
Proof. intros Hk HF l r Hl Hr Hc. apply in_app_or in Hr. destruct Hr as [Hr|[<-|[]]]; [apply HF; assumption|]. unfold same_key in Hc. rewrite Hk in Hc. destruct (ekey l); discriminate. Qed.

Record Good (s : jstate) (Ls Rs seen : list event) : Prop := {
  g_l : BufInv (lbuf s) Ls; g_r : BufInv (rbuf s) Rs; g_wl : WF (lbuf s); g_wr : WF (rbuf s);
  g_flags : FlagInv s Ls Rs; g_seen : forall e, In e Ls \/ In e Rs -> In e seen }.

(** a watermark update that finds no expired event leaves buffers and flags alone and emits nothing *)
Lemma quiet_watermark s Ls Rs seen z : Good s Ls Rs seen -> existsb (fun e => z - ets e >? w) seen = false ->
  update_watermark cond w s z = ({| lbuf := lbuf s; rbuf := rbuf s; lmatched := lmatched s; rmatched := rmatched s; wm := z |}, []).
Proof.
  intros G Hq. unfold update_watermark.
  rewrite (rescan_nothing s Ls Rs (g_l _ _ _ _ G) (g_r _ _ _ _ G) (proj1 (g_wl _ _ _ _ G)) (g_flags _ _ _ _ G)).
  assert (Hne : forall e, In e seen -> (z - ets e >? w) = false).
  { intros e He. destruct (z - ets e >? w) eqn:E; [|reflexivity]. assert (existsb (fun e => z - ets e >? w) seen = true) by (apply existsb_exists; exists e; split; assumption). congruence. }
  rewrite evict_buf_id.
  2:{ intros kq Hkq. split; [apply (proj2 (g_wl _ _ _ _ G)); exact Hkq|]. intros e He. apply Hne. apply (g_seen _ _ _ _ G). left.
      rewrite <- (buf_get_in (lbuf s) kq (proj1 (g_wl _ _ _ _ G)) Hkq), (g_l _ _ _ _ G (fst kq)) in He. apply filter_In in He. apply He. }
  rewrite evict_buf_id.
  2:{ intros kq Hkq. split; [apply (proj2 (g_wr _ _ _ _ G)); exact Hkq|]. intros e He. apply Hne. apply (g_seen _ _ _ _ G). right.
      rewrite <- (buf_get_in (rbuf s) kq (proj1 (g_wr _ _ _ _ G)) Hkq), (g_r _ _ _ _ G (fst kq)) in He. apply filter_In in He. apply He. }
  reflexivity.
Qed.

Lemma lefts_W z ops : lefts (OWm z :: ops) = lefts ops. Proof. reflexivity. Qed.
Lemma rights_W z ops : rights (OWm z :: ops) = rights ops. Proof. reflexivity. Qed.

Lemma quiet_exact ops : forall s Ls Rs seen,
  may_evict w seen ops = false -> Good s Ls Rs seen ->
  Permutation (ref_join cond w Ls Rs ++ concat (run_from cond w s ops))
              (ref_join cond w (Ls ++ lefts ops) (Rs ++ rights ops)).
Proof.
  induction ops as [|o ops IH]; intros s Ls Rs seen Hq G.
  - cbn. rewrite !app_nil_r. apply Permutation_refl.
  - destruct o as [e|e|z].
    + (* left arrival *)
      cbn [may_evict] in Hq. cbn [run_from step]. rewrite lefts_L, rights_L.
      destruct (ekey e) as [k|] eqn:Hk.
      * assert (G' : Good (fst (process_left cond w s e)) (Ls ++ [e]) Rs (e :: seen)).
        { pose proof (flag_left s Ls Rs e k Hk (g_r _ _ _ _ G) (g_flags _ _ _ _ G)) as HF. unfold process_left in *. rewrite Hk in *. cbn [fst lbuf rbuf] in *.
          constructor; cbn [lbuf rbuf]; [apply BufInv_push; [exact Hk|apply G]|apply G|apply WF_push; apply G|apply G|exact HF|].
          intros x [Hx|Hx]; [apply in_app_or in Hx; destruct Hx as [Hx|[<-|[]]]; [right; apply (g_seen _ _ _ _ G); left; exact Hx|left; reflexivity]|right; apply (g_seen _ _ _ _ G); right; exact Hx]. }
        destruct (process_left cond w s e) as [s' out] eqn:Ep. cbn [fst] in G'. cbn [concat]. rewrite app_assoc, (app_assoc Ls [e]).
        eapply Permutation_trans; [|apply (IH s' (Ls ++ [e]) Rs (e :: seen) Hq G')]. apply Permutation_app_tail.
        rewrite ref_join_left_app. apply Permutation_app_head.
        unfold process_left in Ep. rewrite Hk in Ep. inversion Ep; subst out.
        rewrite (g_r _ _ _ _ G k), filter_filter.
        rewrite (filter_ext _ (fun r => same_key e r && within w e r && cond e r)); [apply Permutation_refl|].
        intro r. rewrite (same_key_haskey_l e r k Hk). rewrite andb_assoc. reflexivity.
      * assert (Ep : process_left cond w s e = (s, [])) by (unfold process_left; rewrite Hk; reflexivity). rewrite Ep. cbn [concat]. rewrite app_nil_l, (app_assoc Ls [e]).
        assert (G' : Good s (Ls ++ [e]) Rs (e :: seen)).
        { constructor; [apply BufInv_nokey; [exact Hk|apply G]|apply G|apply G|apply G|apply FlagInv_nokey_l; [exact Hk|apply G]|].
          intros x [Hx|Hx]; [apply in_app_or in Hx; destruct Hx as [Hx|[<-|[]]]; [right; apply (g_seen _ _ _ _ G); left; exact Hx|left; reflexivity]|right; apply (g_seen _ _ _ _ G); right; exact Hx]. }
        eapply Permutation_trans; [|apply (IH s (Ls ++ [e]) Rs (e :: seen) Hq G')]. apply Permutation_app_tail. rewrite ref_join_left_app.
        rewrite (filter_ext _ (fun _ => false)); [rewrite filter_false; cbn; rewrite app_nil_r; apply Permutation_refl|].
        intro r. unfold same_key. rewrite Hk. reflexivity.
    + (* right arrival *)
      cbn [may_evict] in Hq. cbn [run_from step]. rewrite lefts_R, rights_R.
      destruct (ekey e) as [k|] eqn:Hk.
      * assert (G' : Good (fst (process_right cond w s e)) Ls (Rs ++ [e]) (e :: seen)).
        { pose proof (flag_right s Ls Rs e k Hk (g_l _ _ _ _ G) (g_flags _ _ _ _ G)) as HF. unfold process_right in *. rewrite Hk in *. cbn [fst lbuf rbuf] in *.
          constructor; cbn [lbuf rbuf]; [apply G|apply BufInv_push; [exact Hk|apply G]|apply G|apply WF_push; apply G|exact HF|].
          intros x [Hx|Hx]; [right; apply (g_seen _ _ _ _ G); left; exact Hx|apply in_app_or in Hx; destruct Hx as [Hx|[<-|[]]]; [right; apply (g_seen _ _ _ _ G); right; exact Hx|left; reflexivity]]. }
        destruct (process_right cond w s e) as [s' out] eqn:Ep. cbn [fst] in G'. cbn [concat]. rewrite app_assoc, (app_assoc Rs [e]).
        eapply Permutation_trans; [|apply (IH s' Ls (Rs ++ [e]) (e :: seen) Hq G')]. apply Permutation_app_tail.
        eapply Permutation_trans; [|apply Permutation_sym; apply ref_join_right_app]. apply Permutation_app_head.
        unfold process_right in Ep. rewrite Hk in Ep. inversion Ep; subst out.
        rewrite (g_l _ _ _ _ G k), filter_filter.
        rewrite (filter_ext _ (fun l => same_key l e && within w l e && cond l e)); [apply Permutation_refl|].
        intro l. rewrite (same_key_haskey_rr l e k Hk). rewrite andb_assoc. reflexivity.
      * assert (Ep : process_right cond w s e = (s, [])) by (unfold process_right; rewrite Hk; reflexivity). rewrite Ep. cbn [concat]. rewrite app_nil_l, (app_assoc Rs [e]).
        assert (G' : Good s Ls (Rs ++ [e]) (e :: seen)).
        { constructor; [apply G|apply BufInv_nokey; [exact Hk|apply G]|apply G|apply G|apply FlagInv_nokey_r; [exact Hk|apply G]|].
          intros x [Hx|Hx]; [right; apply (g_seen _ _ _ _ G); left; exact Hx|apply in_app_or in Hx; destruct Hx as [Hx|[<-|[]]]; [right; apply (g_seen _ _ _ _ G); right; exact Hx|left; reflexivity]]. }
        eapply Permutation_trans; [|apply (IH s Ls (Rs ++ [e]) (e :: seen) Hq G')]. apply Permutation_app_tail.
        eapply Permutation_trans; [|apply Permutation_sym; apply ref_join_right_app].
        rewrite (filter_ext _ (fun _ => false)); [rewrite filter_false; cbn; rewrite app_nil_r; apply Permutation_refl|].
        intro l. unfold same_key. rewrite Hk. destruct (ekey l); reflexivity.
    + (* watermark update that evicts nothing *)
      cbn [may_evict] in Hq. apply orb_false_iff in Hq. destruct Hq as [Hq1 Hq2].
      cbn [run_from step]. rewrite (quiet_watermark s Ls Rs seen z G Hq1). cbn [concat]. rewrite app_nil_l, lefts_W, rights_W.
      apply (IH _ Ls Rs seen Hq2). constructor; cbn [lbuf rbuf]; apply G.
Qed.

Lemma Good_init : Good init [] [] [].
Proof. constructor; cbn; try (intro k; reflexivity); try (split; [constructor|intros kq []]); [intros l r []|intros e [[]|[]]]. Qed.

(** The pairs emitted over a run - arrivals of the two streams in any interleaving, watermark updates anywhere,
    as long as no update finds an expired event - are exactly the reference join, each pair once. *)
Theorem inner_join_exact_until_eviction ops : may_evict w [] ops = false ->
  Permutation (concat (run_from cond w init ops)) (ref_join cond w (lefts ops) (rights ops)).
Proof. intros Hq. pose proof (quiet_exact ops init [] [] [] Hq Good_init) as H. cbn in H. exact H. Qed.

Theorem interleaving_indep_until_eviction ops1 ops2 :
  may_evict w [] ops1 = false -> may_evict w [] ops2 = false -> lefts ops1 = lefts ops2 -> rights ops1 = rights ops2 ->
  Permutation (concat (run_from cond w init ops1)) (concat (run_from cond w init ops2)).
Proof.
  intros H1 H2 EL ER. eapply Permutation_trans; [apply inner_join_exact_until_eviction; exact H1|].
  rewrite EL, ER. apply Permutation_sym. apply inner_join_exact_until_eviction. exact H2.
Qed.
End JoinWm.
