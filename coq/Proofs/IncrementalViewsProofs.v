(** C06 — the three views of working memory (by handle, by type, full listing) agree in every reachable state, a
    retracted fact is in none of them, and handles are unique and never reused. *)
From RRE Require Import Base.Sx Generated.Consts Model.ReteAgenda Model.Incremental Proofs.IncrementalProofs.
From Coq Require Import Lia.
Open Scope Z_scope.

Definition handles (x : engx) : list Z := map f_h (wm (e_ x)).
Definition WMInv (x : engx) : Prop := NoDup (handles x) /\ 1 <= next_h (e_ x) /\ forall h, In h (handles x) -> 1 <= h < next_h (e_ x).

Lemma add_one_fold_wm r fs : forall x, wm (e_ (fold_left (add_one r) fs x)) = wm (e_ x).
Proof.
  induction fs as [|f fs IH]; intros x; cbn [fold_left]; [reflexivity|]. rewrite IH. unfold add_one.
  destruct ((f_type f =? r_type r) && eval (f_data f) (r_cond r)); reflexivity.
Qed.
Lemma add_matching_wm rs : forall x fs b, wm (e_ (add_matching x rs fs b)) = wm (e_ x).
Proof.
  unfold add_matching. induction rs as [|r rs IH]; intros x fs b; cbn [fold_left]; [reflexivity|].
  match goal with |- context [fold_left ?F rs ?X0] => rewrite (IH X0 fs b) end.
  destruct (b && r_noloop r && memZ (r_name r) (fired_rules (ag (e_ x)))); [reflexivity|]. apply (add_one_fold_wm r fs x).
Qed.
Lemma propagate_type_wm x t : wm (e_ (propagate_type x t)) = wm (e_ x).
Proof. unfold propagate_type. apply add_matching_wm. Qed.
Lemma propagate_type_next x t : next_h (e_ (propagate_type x t)) = next_h (e_ x).
Proof. unfold propagate_type. apply add_matching_keeps. Qed.
Lemma propagate_all_wm x : wm (e_ (propagate_all x)) = wm (e_ x).
Proof.
  unfold propagate_all. generalize (types_present (e_ x)). intros l. revert x. induction l as [|t l IH]; intros x; cbn [fold_left]; [reflexivity|].
  rewrite IH. apply add_matching_wm.
Qed.
Lemma propagate_all_next x : next_h (e_ (propagate_all x)) = next_h (e_ x).
Proof.
  unfold propagate_all. generalize (types_present (e_ x)). intros l. revert x. induction l as [|t l IH]; intros x; cbn [fold_left]; [reflexivity|].
  rewrite IH. apply add_matching_keeps.
Qed.

Lemma map_fh_map (g : fact -> fact) w : (forall f, f_h (g f) = f_h f) -> map f_h (map g w) = map f_h w.
Proof. intros H. rewrite map_map. apply map_ext. exact H. Qed.

Lemma do_insert_handles x t d : handles (fst (do_insert x t d)) = handles x ++ [next_h (e_ x)] /\ next_h (e_ (fst (do_insert x t d))) = next_h (e_ x) + 1.
Proof.
  unfold do_insert, handles. cbn [fst]. rewrite propagate_type_wm. cbn [e_ wm]. rewrite map_app. cbn [map f_h]. split; [reflexivity|].
  rewrite propagate_type_next. reflexivity.
Qed.
Lemma live_fact_h e h f : live_fact e h = Some f -> f_h f = h /\ f_retracted f = false /\ In f (wm e).
Proof. unfold live_fact. intros H. apply find_some in H. destruct H as [Hin Hb]. apply andb_true_iff in Hb. destruct Hb as [H1 H2]. apply Z.eqb_eq in H1. apply negb_true_iff in H2. auto. Qed.

Lemma do_update_handles x h d : handles (fst (do_update x h d)) = handles x /\ next_h (e_ (fst (do_update x h d))) = next_h (e_ x).
Proof.
  unfold do_update. destruct (live_fact (e_ x) h) as [f|]; cbn [fst]; [|split; reflexivity]. unfold handles. rewrite propagate_type_wm.
  split; [|rewrite propagate_type_next; reflexivity]. cbn [with_wm e_ wm]. apply map_fh_map. intros g.
  destruct ((f_h g =? h) && negb (f_retracted g)) eqn:E; [|reflexivity]. apply andb_true_iff in E. destruct E as [E _]. apply Z.eqb_eq in E. cbn. symmetry. exact E.
Qed.
Lemma do_retract_handles x h : handles (fst (do_retract x h)) = handles x /\ next_h (e_ (fst (do_retract x h))) = next_h (e_ x).
Proof.
  unfold do_retract. destruct (live_fact (e_ x) h) as [f|]; cbn [fst]; [|split; reflexivity]. unfold handles. rewrite propagate_type_wm.
  split; [|rewrite propagate_type_next; reflexivity]. cbn [with_wm e_ wm]. apply map_fh_map. intros g.
  destruct (f_h g =? h) eqn:E; [|reflexivity]. apply Z.eqb_eq in E. cbn. symmetry. exact E.
Qed.
Lemma apply_action_handles x r h : handles (apply_action x r h) = handles x /\ next_h (e_ (apply_action x r h)) = next_h (e_ x).
Proof.
  unfold apply_action. destruct (r_action r) as [|fld v|]; try (split; reflexivity).
  destruct (rev (facts_of_type (e_ x) (r_type r))) as [|lastf l]; [split; reflexivity|].
  destruct (match dget (f_data lastf) fld with Some old => old =? v | None => false end); [split; reflexivity|].
  unfold handles. cbn [with_wm e_ wm next_h]. split; [|reflexivity]. apply map_fh_map. intros g.
  destruct ((f_type g =? r_type r) && negb (f_retracted g)); reflexivity.
Qed.

Lemma fire_loop_handles fuel : forall iter x out, handles (fst (fire_loop fuel iter x out)) = handles x /\ next_h (e_ (fst (fire_loop fuel iter x out))) = next_h (e_ x).
Proof.
  induction fuel as [|fu IH]; intros iter x out; cbn [fire_loop]; [split; reflexivity|].
  destruct (get_next (S (length (stack (ag (e_ x))))) (ag (e_ x))) as [a1 r]. cbv zeta.
  set (x1 := {| e_ := {| wm := wm (e_ x); next_h := next_h (e_ x); ag := a1; seq := seq (e_ x); rules := rules (e_ x) |}; matched := matched x |}).
  assert (H1 : handles x1 = handles x /\ next_h (e_ x1) = next_h (e_ x)) by (split; reflexivity).
  destruct r as [a|]; [|exact H1].
  destruct ((incr_max_iterations <? iter + 1)%N); [exact H1|].
  destruct (find (fun r => r_name r =? a_name a) (rules (e_ x))) as [rl|]; [|rewrite (proj1 (IH _ x1 out)), (proj2 (IH _ x1 out)); exact H1].
  destruct (live_fact (e_ x1) _) as [f|]; [|rewrite (proj1 (IH _ x1 out)), (proj2 (IH _ x1 out)); exact H1].
  destruct (negb ((f_type f =? r_type rl) && eval (f_data f) (r_cond rl))); [rewrite (proj1 (IH _ x1 out)), (proj2 (IH _ x1 out)); exact H1|].
  match goal with |- context [fire_loop fu _ ?X5 ?O] => rewrite (proj1 (IH _ X5 O)), (proj2 (IH _ X5 O)) end.
  set (h := match find (fun p => fst p =? a_id a) (matched x) with Some p => snd p | None => 0 end).
  set (x2 := apply_action x1 rl h). set (x3 := propagate_all x2).
  assert (H3 : handles x3 = handles x /\ next_h (e_ x3) = next_h (e_ x)).
  { unfold x3, handles. rewrite propagate_all_wm, propagate_all_next. destruct (apply_action_handles x1 rl h) as [A B]. unfold handles in A. fold x2 in A, B. rewrite A, B. exact H1. }
  destruct (r_action rl); cbn [e_ wm next_h handles]; try exact H3.
  destruct (do_retract_handles x3 h) as [A B]. unfold handles in *. cbn [e_ wm next_h]. rewrite A, B. exact H3.
Qed.

Lemma step_inv sorted x o : WMInv x -> WMInv (fst (step sorted x o)).
Proof.
  intros (ND & Hn & Hb).
  assert (Same : forall x', handles x' = handles x -> next_h (e_ x') = next_h (e_ x) -> WMInv x').
  { intros x' A B. split; [rewrite A; exact ND|]. split; [rewrite B; exact Hn|]. intros h0 H0. rewrite A in H0. rewrite B. apply Hb. exact H0. }
  destruct o as [t d|h d|h| |]; cbn [step].
  - destruct (do_insert x t d) as [x' h] eqn:E. cbn [fst]. pose proof (do_insert_handles x t d) as [A B]. rewrite E in A, B. cbn [fst] in A, B.
    split; [|split].
    + rewrite A. clear - ND Hb. induction (handles x) as [|y l IH]; cbn [app]; [constructor; [intros []|constructor]|].
      inversion ND as [|? ? Hy ND']; subst. constructor.
      * intros Hc. apply in_app_or in Hc. destruct Hc as [Hc|[Hc|[]]]; [exact (Hy Hc)|]. pose proof (Hb y (or_introl eq_refl)). lia.
      * apply IH; [exact ND'|intros h0 H0; apply Hb; right; exact H0].
    + rewrite B. lia.
    + intros h0 H0. rewrite A in H0. rewrite B. apply in_app_or in H0. destruct H0 as [H0|[<-|[]]]; [pose proof (Hb h0 H0); lia|lia].
  - destruct (do_update x h d) as [x' b] eqn:E. cbn [fst]. pose proof (do_update_handles x h d) as [A B]. rewrite E in A, B. apply Same; assumption.
  - destruct (do_retract x h) as [x' b] eqn:E. cbn [fst]. pose proof (do_retract_handles x h) as [A B]. rewrite E in A, B. apply Same; assumption.
  - destruct (fire_all x) as [x' fs] eqn:E. cbn [fst]. unfold fire_all in E. pose proof (fire_loop_handles (S (S (N.to_nat incr_max_iterations))) 0%N x []) as [A B]. rewrite E in A, B. apply Same; assumption.
  - cbn [fst]. apply Same; reflexivity.
Qed.

Fixpoint exec (sorted : bool) (x : engx) (ops : list op) : engx := match ops with [] => x | o :: r => exec sorted (fst (step sorted x o)) r end.
Lemma exec_inv sorted ops : forall x, WMInv x -> WMInv (exec sorted x ops).
Proof. induction ops as [|o r IH]; intros x H; cbn [exec]; [exact H|]. apply IH. apply step_inv. exact H. Qed.
Lemma init_inv rs : WMInv {| e_ := init rs; matched := [] |}.
Proof. split; [constructor|]. split; [cbn; lia|intros h []]. Qed.

(** * the views *)
Section Views.
Variable x : engx.
Hypothesis HI : WMInv x.
Let e := e_ x.

Lemma unique_by_handle f g : In f (wm e) -> In g (wm e) -> f_h f = f_h g -> f = g.
Proof.
  destruct HI as [ND _]. unfold handles in ND. fold e in ND. clear HI. induction (wm e) as [|y l IH]; intros Hf Hg Heq; [destruct Hf|].
  cbn [map] in ND. inversion ND as [|? ? Hy ND']; subst.
  destruct Hf as [->|Hf], Hg as [->|Hg]; [reflexivity| | |apply IH; assumption].
  - exfalso. apply Hy. rewrite Heq. apply in_map. exact Hg.
  - exfalso. apply Hy. rewrite <- Heq. apply in_map. exact Hf.
Qed.

(** a fact is in the full listing iff it is found by its handle iff it is listed under its type; it is then not retracted *)
Theorem views_agree f :
  (In f (all_live e) <-> live_fact e (f_h f) = Some f)
  /\ (In f (all_live e) <-> In f (facts_of_type e (f_type f)))
  /\ (In f (all_live e) <-> In f (wm e) /\ f_retracted f = false).
Proof.
  assert (A : In f (all_live e) <-> In f (wm e) /\ f_retracted f = false).
  { unfold all_live. rewrite filter_In. rewrite negb_true_iff. reflexivity. }
  split; [|split; [|exact A]].
  - rewrite A. split.
    + intros [Hin Hr]. unfold live_fact. destruct (find (fun g => (f_h g =? f_h f) && negb (f_retracted g)) (wm e)) as [g|] eqn:F.
      * apply find_some in F. destruct F as [Hg Hb]. apply andb_true_iff in Hb. destruct Hb as [H1 _]. apply Z.eqb_eq in H1. f_equal. apply unique_by_handle; assumption.
      * exfalso. pose proof (find_none _ _ F f Hin) as Hn. cbn beta in Hn. rewrite Z.eqb_refl, Hr in Hn. discriminate.
    + intros H. apply live_fact_h in H. tauto.
  - rewrite A. unfold facts_of_type. rewrite filter_In, Z.eqb_refl. cbn [andb]. rewrite negb_true_iff. reflexivity.
Qed.

(** a retracted fact is in none of the views, and nothing else answers to its handle *)
Theorem retracted_in_no_view f : In f (wm e) -> f_retracted f = true ->
  live_fact e (f_h f) = None /\ ~ In f (all_live e) /\ ~ In f (facts_of_type e (f_type f)).
Proof.
  intros Hin Hr. split; [|split].
  - destruct (live_fact e (f_h f)) as [g|] eqn:F; [|reflexivity]. apply live_fact_h in F. destruct F as (H1 & H2 & H3).
    assert (g = f) by (apply unique_by_handle; assumption). subst g. congruence.
  - unfold all_live. rewrite filter_In, Hr. cbn. intros [_ H]. discriminate.
  - unfold facts_of_type. rewrite filter_In, Hr. cbn [negb]. rewrite andb_false_r. intros [_ H]. discriminate.
Qed.
End Views.
