(** C15 — the sequential KnowledgeBase refines the abstract specification: for every operation sequence the
    observations (result, listing, lookup of every name, version) are those of "a bag of rules with unique names,
    listed by salience descending and insertion order among equals". *)
From RRE Require Import Base.Sx Model.KB Proofs.KBProofs.
From Coq Require Import Lia Permutation Sorting.Sorted.
Open Scope Z_scope.

Definition ssort (l : list srule) : list srule := fold_left (fun acc x => sinsert x acc) l [].
Lemma slisting_ssort k : slisting k = map s_rule (ssort (srules k)). Proof. reflexivity. Qed.
Lemma ssort_snoc l x : ssort (l ++ [x]) = sinsert x (ssort l).
Proof. unfold ssort. rewrite fold_left_app. reflexivity. Qed.
Lemma stable_sort_snoc l x : stable_sort (l ++ [x]) = insert_stable x (stable_sort l).
Proof. unfold stable_sort. rewrite fold_left_app. reflexivity. Qed.

Definition name_of (s : srule) : Z := r_name (s_rule s).
Definition rfind (n : Z) (rs : list rule) : option rule := find (fun r => Z.eqb (r_name r) n) rs.
Fixpoint pos_of (n : Z) (rs : list rule) : option nat :=
  match rs with [] => None | r :: rest => if Z.eqb (r_name r) n then Some O else option_map S (pos_of n rest) end.

(** * the order of the specification *)
Lemma before_trans a b c : before a b = true -> before b c = true -> before a c = true.
Proof. unfold before. intros H1 H2. apply orb_true_iff in H1. apply orb_true_iff in H2. apply orb_true_iff.
  destruct H1 as [H1|H1], H2 as [H2|H2]; try (apply andb_true_iff in H1; destruct H1 as [H1a H1b]); try (apply andb_true_iff in H2; destruct H2 as [H2a H2b]).
  - left. apply Z.ltb_lt in H1, H2. apply Z.ltb_lt. lia.
  - left. apply Z.ltb_lt in H1. apply Z.eqb_eq in H2a. apply Z.ltb_lt. lia.
  - left. apply Z.ltb_lt in H2. apply Z.eqb_eq in H1a. apply Z.ltb_lt. lia.
  - right. apply Z.eqb_eq in H1a, H2a. apply Z.ltb_lt in H1b, H2b. apply andb_true_iff. split; [apply Z.eqb_eq; lia|apply Z.ltb_lt; lia].
Qed.
Lemma before_total a b : s_seq a <> s_seq b -> before a b = false -> before b a = true.
Proof. unfold before. intros Hne H. apply orb_false_iff in H. destruct H as [H1 H2]. apply Z.ltb_ge in H1.
  destruct (Z.eqb (r_sal (s_rule a)) (r_sal (s_rule b))) eqn:E; cbn [andb] in H2.
  - apply Z.eqb_eq in E. apply Z.ltb_ge in H2. apply orb_true_iff. right. apply andb_true_iff. split; [apply Z.eqb_eq; lia|apply Z.ltb_lt; lia].
  - apply Z.eqb_neq in E. apply orb_true_iff. left. apply Z.ltb_lt. lia.
Qed.

Definition bef (a b : srule) : Prop := before a b = true.

Lemma sinsert_in x l y : In y (sinsert x l) <-> y = x \/ In y l.
Proof. induction l as [|z l IH]; cbn [sinsert In]; [intuition|]. destruct (before x z); cbn [In]; [intuition|rewrite IH; intuition]. Qed.

Lemma sinsert_sorted x l : (forall y, In y l -> s_seq y <> s_seq x) -> StronglySorted bef l -> StronglySorted bef (sinsert x l).
Proof.
  intros Hseq Hs. induction Hs as [|z l Hs IH Hz]; cbn [sinsert]; [constructor; constructor|].
  destruct (before x z) eqn:E.
  - constructor; [constructor; assumption|]. constructor; [exact E|]. rewrite Forall_forall in *. intros y Hy. eapply before_trans; [exact E|apply Hz; exact Hy].
  - constructor; [apply IH; intros y Hy; apply Hseq; right; exact Hy|]. rewrite Forall_forall in *. intros y Hy. apply sinsert_in in Hy. destruct Hy as [->|Hy]; [|apply Hz; exact Hy].
    apply before_total; [apply not_eq_sym; apply Hseq; left; reflexivity|exact E].
Qed.

Lemma ssort_perm l : Permutation (ssort l) l.
Proof.
  assert (G : forall l acc, Permutation (fold_left (fun acc x => sinsert x acc) l acc) (acc ++ l)).
  { induction l0 as [|x l0 IH]; intros acc; cbn [fold_left]; [rewrite app_nil_r; reflexivity|]. rewrite IH.
    assert (P : forall a, Permutation (sinsert x a) (x :: a)).
    { induction a as [|z a IHa]; cbn [sinsert]; [reflexivity|]. destruct (before x z); [reflexivity|]. rewrite IHa. apply perm_swap. }
    rewrite P. cbn [app]. apply Permutation_middle. }
  apply (G l []).
Qed.

Lemma NoDup_snoc_inv {T} (l : list T) x : NoDup (l ++ [x]) -> NoDup l /\ ~ In x l.
Proof.
  induction l as [|y l IH]; cbn [app]; intros H; [split; [constructor|intros []]|].
  inversion H as [|? ? Hy H']; subst. destruct (IH H') as [A B]. split.
  - constructor; [intros Hc; apply Hy; apply in_or_app; left; exact Hc|exact A].
  - intros [->|Hc]; [apply Hy; apply in_or_app; right; left; reflexivity|exact (B Hc)].
Qed.

Lemma NoDup_snoc_inv_rev {T} (l : list T) x : NoDup l -> ~ In x l -> NoDup (l ++ [x]).
Proof.
  induction l as [|y l IH]; intros ND Hn; cbn [app]; [constructor; [intros []|constructor]|].
  inversion ND as [|? ? Hy ND']; subst. constructor.
  - intros Hc. apply in_app_or in Hc. destruct Hc as [Hc|[Hc|[]]]; [exact (Hy Hc)|apply Hn; left; symmetry; exact Hc].
  - apply IH; [exact ND'|intros Hc; apply Hn; right; exact Hc].
Qed.

Lemma ssort_sorted l : NoDup (map s_seq l) -> StronglySorted bef (ssort l).
Proof.
  induction l as [|x l IH] using rev_ind; intros ND; [constructor|]. rewrite ssort_snoc.
  rewrite map_app in ND. cbn [map] in ND. destruct (NoDup_snoc_inv _ _ ND) as [NDl Hnx]. apply sinsert_sorted; [|apply IH; exact NDl].
  intros y Hy Heq. apply (Permutation_in _ (ssort_perm l)) in Hy. apply Hnx. rewrite <- Heq. apply in_map. exact Hy.
Qed.

(** * insertion of the newest rule *)
Lemma sinsert_newest x l : (forall y, In y l -> s_seq y < s_seq x) ->
  map s_rule (sinsert x l) = insert_stable (s_rule x) (map s_rule l).
Proof.
  induction l as [|z l IH]; intros H; cbn [sinsert map insert_stable]; [reflexivity|].
  assert (E : before x z = (r_sal (s_rule z) <? r_sal (s_rule x))).
  { unfold before. pose proof (H z (or_introl eq_refl)) as Hz. replace (s_seq x <? s_seq z) with false by (symmetry; apply Z.ltb_ge; lia).
    rewrite andb_false_r, orb_false_r. reflexivity. }
  rewrite E. destruct (r_sal (s_rule z) <? r_sal (s_rule x)); cbn [map]; [reflexivity|]. f_equal. apply IH. intros y Hy. apply H. right. exact Hy.
Qed.

Lemma sorted_app_rel {T} (R : T -> T -> Prop) a b : StronglySorted R (a ++ b) -> forall x y, In x a -> In y b -> R x y.
Proof.
  induction a as [|z a IH]; cbn [app]; intros H x y Hx Hy; [destruct Hx|]. inversion H as [|? ? Hs Hf]; subst.
  destruct Hx as [->|Hx]; [rewrite Forall_forall in Hf; apply Hf; apply in_or_app; right; exact Hy|apply IH; assumption].
Qed.

Lemma insert_stable_last x pre : (forall y, In y pre -> r_sal x <= r_sal y) -> insert_stable x pre = pre ++ [x].
Proof.
  induction pre as [|z pre IH]; intros H; cbn [insert_stable app]; [reflexivity|].
  replace (r_sal z <? r_sal x) with false by (symmetry; apply Z.ltb_ge; apply H; left; reflexivity).
  f_equal. apply IH. intros y Hy. apply H. right. exact Hy.
Qed.

Lemma stable_sort_sorted_id l : StronglySorted desc l -> stable_sort l = l.
Proof.
  intros Hs. unfold stable_sort.
  assert (G : forall suf pre, StronglySorted desc (pre ++ suf) -> fold_left (fun acc x => insert_stable x acc) suf pre = pre ++ suf).
  { induction suf as [|x suf IH]; intros pre H; cbn [fold_left]; [rewrite app_nil_r; reflexivity|].
    rewrite insert_stable_last.
    - rewrite IH; [rewrite <- app_assoc; reflexivity|rewrite <- app_assoc; exact H].
    - intros y Hy. apply (sorted_app_rel desc pre (x :: suf) H y x Hy (or_introl eq_refl)). }
  apply (G l []). exact Hs.
Qed.

Lemma bef_desc a b : bef a b -> desc (s_rule a) (s_rule b).
Proof. unfold bef, before, desc. intros H. apply orb_true_iff in H. destruct H as [H|H]; [apply Z.ltb_lt in H; lia|apply andb_true_iff in H; destruct H as [H _]; apply Z.eqb_eq in H; lia]. Qed.

Lemma sorted_map_desc l : StronglySorted bef l -> StronglySorted desc (map s_rule l).
Proof.
  intros H. induction H as [|z l Hs IH Hf]; cbn [map]; constructor; [exact IH|]. rewrite Forall_forall in *. intros y Hy.
  apply in_map_iff in Hy. destruct Hy as [s [<- Hs']]. apply bef_desc. apply Hf. exact Hs'.
Qed.

(** * removal and flag changes commute with the sort *)
Lemma sinsert_first x m : (forall w, In w m -> before x w = true) -> sinsert x m = x :: m.
Proof. destruct m as [|w m]; intros H; cbn [sinsert]; [reflexivity|]. rewrite (H w (or_introl eq_refl)). reflexivity. Qed.

Lemma filter_sinsert (P : srule -> bool) x l : StronglySorted bef l ->
  filter P (sinsert x l) = if P x then sinsert x (filter P l) else filter P l.
Proof.
  intros Hs. induction Hs as [|z l Hs IH Hf]; cbn [sinsert filter]; [destruct (P x); reflexivity|].
  destruct (before x z) eqn:E.
  - cbn [filter]. destruct (P x) eqn:Px; [|reflexivity]. destruct (P z) eqn:Pz.
    + cbn [sinsert]. rewrite E. reflexivity.
    + symmetry. apply sinsert_first. intros w Hw. apply filter_In in Hw. destruct Hw as [Hw _]. rewrite Forall_forall in Hf.
      eapply before_trans; [exact E|apply Hf; exact Hw].
  - cbn [filter]. rewrite IH. destruct (P z) eqn:Pz; destruct (P x) eqn:Px; try reflexivity. cbn [sinsert]. rewrite E. reflexivity.
Qed.

Lemma ssort_filter (P : srule -> bool) l : NoDup (map s_seq l) -> ssort (filter P l) = filter P (ssort l).
Proof.
  induction l as [|x l IH] using rev_ind; intros ND; [reflexivity|].
  rewrite map_app in ND. cbn [map] in ND. destruct (NoDup_snoc_inv _ _ ND) as [NDl _].
  rewrite filter_app, ssort_snoc, filter_sinsert by (apply ssort_sorted; exact NDl). cbn [filter]. destruct (P x).
  - rewrite ssort_snoc, IH by exact NDl. reflexivity.
  - rewrite app_nil_r. apply IH. exact NDl.
Qed.

Lemma ssort_map (g : srule -> srule) l : (forall a b, before (g a) (g b) = before a b) -> ssort (map g l) = map g (ssort l).
Proof.
  intros Hg. assert (Hi : forall x m, sinsert (g x) (map g m) = map g (sinsert x m)).
  { induction m as [|z m IHm]; cbn [sinsert map]; [reflexivity|]. rewrite Hg. destruct (before x z); cbn [map]; [reflexivity|]. rewrite IHm. reflexivity. }
  induction l as [|x l IH] using rev_ind; [reflexivity|]. rewrite map_app. cbn [map]. rewrite !ssort_snoc, IH, Hi. reflexivity.
Qed.

(** * lookups *)
Lemma sfind_some_iff l n s : NoDup (map name_of l) -> (sfind l n = Some s <-> In s l /\ name_of s = n).
Proof.
  unfold sfind. induction l as [|z l IH]; intros ND; cbn [find map]; [split; [discriminate|intros [[] _]]|].
  cbn [map] in ND. inversion ND as [|? ? Hz ND']; subst. fold (name_of z). destruct (Z.eqb (name_of z) n) eqn:E.
  - apply Z.eqb_eq in E. split; [intros H; injection H as <-; split; [left; reflexivity|exact E]|].
    intros [[->|Hin] Hn]; [reflexivity|]. exfalso. apply Hz. rewrite E, <- Hn. apply in_map. exact Hin.
  - apply Z.eqb_neq in E. rewrite (IH ND'). split; [intros [A B]; split; [right; exact A|exact B]|].
    intros [[->|Hin] Hn]; [contradiction|split; assumption].
Qed.
Lemma sfind_perm l l' n : NoDup (map name_of l) -> Permutation l l' -> sfind l n = sfind l' n.
Proof.
  intros ND P. assert (ND' : NoDup (map name_of l')) by (eapply Permutation_NoDup; [apply Permutation_map; exact P|exact ND]).
  destruct (sfind l n) as [s|] eqn:F.
  - symmetry. apply (sfind_some_iff l' n s ND'). apply (sfind_some_iff l n s ND) in F. destruct F as [A B]. split; [eapply Permutation_in; eauto|exact B].
  - destruct (sfind l' n) as [s'|] eqn:F'; [|reflexivity]. apply (sfind_some_iff l' n s' ND') in F'. destruct F' as [A B].
    assert (sfind l n = Some s') by (apply (sfind_some_iff l n s' ND); split; [eapply Permutation_in; [symmetry; exact P|exact A]|exact B]). congruence.
Qed.
Lemma rfind_map L n : rfind n (map s_rule L) = option_map s_rule (sfind L n).
Proof. unfold rfind, sfind. induction L as [|z L IH]; cbn [map find option_map]; [reflexivity|]. destruct (Z.eqb (r_name (s_rule z)) n); [reflexivity|exact IH]. Qed.
Lemma nth_pos_of n rs : (match pos_of n rs with Some p => nth_error rs p | None => None end) = rfind n rs.
Proof.
  unfold rfind. induction rs as [|r rs IH]; cbn [pos_of find]; [reflexivity|]. destruct (Z.eqb (r_name r) n); [reflexivity|].
  destruct (pos_of n rs) as [p|]; cbn [option_map nth_error]; exact IH.
Qed.

(** * the name index after a rebuild *)
Lemma idx_get_insert ix k p n : idx_get (idx_insert ix k p) n = if Z.eqb k n then Some p else idx_get ix n.
Proof.
  unfold idx_insert. cbn [idx_get]. destruct (Z.eqb k n) eqn:E; [reflexivity|].
  induction ix as [|[k' p'] ix IH]; cbn [filter idx_get fst]; [reflexivity|].
  destruct (Z.eqb k' k) eqn:E2; cbn [negb].
  - apply Z.eqb_eq in E2. subst k'. rewrite E. exact IH.
  - cbn [idx_get]. destruct (Z.eqb k' n); [reflexivity|exact IH].
Qed.
Lemma pos_of_none n rs : pos_of n rs = None <-> ~ In n (map r_name rs).
Proof.
  induction rs as [|r rs IH]; cbn [pos_of map In]; [split; [intros _ []|reflexivity]|]. destruct (Z.eqb (r_name r) n) eqn:E.
  - apply Z.eqb_eq in E. split; [discriminate|intros H; exfalso; apply H; left; exact E].
  - apply Z.eqb_neq in E. destruct (pos_of n rs) as [p|]; cbn [option_map].
    + split; [discriminate|]. intros H. exfalso. assert (Hn : ~ In n (map r_name rs)) by (intros Hc; apply H; right; exact Hc). apply IH in Hn. discriminate.
    + split; [|reflexivity]. intros _ [H|H]; [contradiction|]. apply (proj1 IH eq_refl). exact H.
Qed.
Lemma rebuild_from_spec rs : NoDup (map r_name rs) -> forall p ix n,
  idx_get (rebuild_from p rs ix) n = match pos_of n rs with Some q => Some (p + q)%nat | None => idx_get ix n end.
Proof.
  induction rs as [|r rs IH]; intros ND p ix n; cbn [rebuild_from pos_of]; [reflexivity|].
  cbn [map] in ND. inversion ND as [|? ? Hr ND']; subst. rewrite (IH ND'). destruct (Z.eqb (r_name r) n) eqn:E.
  - apply Z.eqb_eq in E. assert (Hn : pos_of n rs = None) by (apply pos_of_none; rewrite <- E; exact Hr). rewrite Hn, idx_get_insert.
    rewrite (proj2 (Z.eqb_eq _ _) E). f_equal. lia.
  - destruct (pos_of n rs) as [q|]; cbn [option_map]; [f_equal; lia|]. rewrite idx_get_insert, E. reflexivity.
Qed.
Lemma rebuild_spec rs n : NoDup (map r_name rs) -> idx_get (rebuild rs) n = pos_of n rs.
Proof. intros ND. unfold rebuild. rewrite (rebuild_from_spec rs ND 0%nat [] n). destruct (pos_of n rs); reflexivity. Qed.

(** * removing / re-flagging the rule at the indexed position *)
Lemma remove_at_pos n rs p : NoDup (map r_name rs) -> pos_of n rs = Some p ->
  remove_nth p rs = filter (fun r => negb (Z.eqb (r_name r) n)) rs.
Proof.
  revert p. induction rs as [|r rs IH]; intros p ND H; [discriminate|]. cbn [pos_of] in H. cbn [map] in ND. inversion ND as [|? ? Hr ND']; subst. cbn [filter].
  destruct (Z.eqb (r_name r) n) eqn:E.
  - inversion H; subst p. cbn [remove_nth negb]. apply Z.eqb_eq in E.
    symmetry. clear - Hr E. induction rs as [|x rs IHr]; cbn [filter]; [reflexivity|].
    assert (Hx : Z.eqb (r_name x) n = false) by (apply Z.eqb_neq; intros Hc; apply Hr; left; rewrite E; exact Hc).
    rewrite Hx. cbn [negb]. f_equal. apply IHr. intros Hc. apply Hr. right. exact Hc.
  - destruct (pos_of n rs) as [q|] eqn:Hq; [|discriminate]. inversion H; subst p. cbn [remove_nth negb]. f_equal. apply IH; [exact ND'|reflexivity].
Qed.

Definition reflag (n : Z) (b : bool) (r : rule) : rule :=
  if Z.eqb (r_name r) n then {| r_name := r_name r; r_sal := r_sal r; r_enabled := b; r_tag := r_tag r |} else r.
Lemma set_enabled_at_pos n b rs p : NoDup (map r_name rs) -> pos_of n rs = Some p ->
  set_enabled_nth p b rs = Some (map (reflag n b) rs).
Proof.
  revert p. induction rs as [|r rs IH]; intros p ND H; [discriminate|]. cbn [pos_of] in H. cbn [map] in ND. inversion ND as [|? ? Hr ND']; subst.
  cbn [map]. unfold reflag at 1. destruct (Z.eqb (r_name r) n) eqn:E.
  - inversion H; subst p. cbn [set_enabled_nth]. apply Z.eqb_eq in E. f_equal. f_equal.
    clear - Hr E. induction rs as [|x rs IHr]; cbn [map]; [reflexivity|]. unfold reflag at 1.
    assert (Hx : Z.eqb (r_name x) n = false) by (apply Z.eqb_neq; intros Hc; apply Hr; left; rewrite E; exact Hc).
    rewrite Hx. f_equal. apply IHr. intros Hc. apply Hr. right. exact Hc.
  - destruct (pos_of n rs) as [q|] eqn:Hq; [|discriminate]. inversion H; subst p. cbn [set_enabled_nth]. rewrite (IH q ND' eq_refl). reflexivity.
Qed.
Lemma pos_of_reflag n b m rs : pos_of m (map (reflag n b) rs) = pos_of m rs.
Proof. induction rs as [|r rs IH]; cbn [map pos_of]; [reflexivity|]. rewrite IH. unfold reflag. destruct (Z.eqb (r_name r) n); reflexivity. Qed.

Lemma NoDup_map_filter {X Y} (f : X -> Y) (P : X -> bool) l : NoDup (map f l) -> NoDup (map f (filter P l)).
Proof.
  induction l as [|y l IH]; cbn [map filter]; intros H; [constructor|]. inversion H as [|? ? Hy H']; subst.
  destruct (P y); cbn [map]; [|apply IH; exact H'].
  constructor; [|apply IH; exact H']. intros Hc. apply Hy. apply in_map_iff in Hc. destruct Hc as [z [Hz1 Hz2]]. apply filter_In in Hz2. rewrite <- Hz1. apply in_map. apply Hz2.
Qed.

(** * the simulation *)
Record Sim (k : kb) (s : skb) : Prop := {
  sim_rules : rules k = map s_rule (ssort (srules s));
  sim_index : forall n, idx_get (index k) n = pos_of n (rules k);
  sim_version : version k = sversion s;
  sim_names : NoDup (map name_of (srules s));
  sim_seqs : NoDup (map s_seq (srules s));
  sim_next : forall x, In x (srules s) -> s_seq x < snext s }.

Lemma Sim_model_names k s : Sim k s -> NoDup (map r_name (rules k)).
Proof.
  intros S. rewrite (sim_rules k s S), map_map. eapply Permutation_NoDup; [|apply (sim_names k s S)].
  symmetry. apply (Permutation_map name_of). apply ssort_perm.
Qed.

Lemma Sim_lookup k s n : Sim k s ->
  (match idx_get (index k) n with Some p => nth_error (rules k) p | None => None end) = option_map s_rule (sfind (srules s) n).
Proof.
  intros S. rewrite (sim_index k s S), nth_pos_of, (sim_rules k s S), rfind_map. f_equal.
  symmetry. apply sfind_perm; [apply S|symmetry; apply ssort_perm].
Qed.

Lemma Sim_index_some k s n : Sim k s -> (idx_get (index k) n = None <-> sfind (srules s) n = None).
Proof.
  intros S. pose proof (Sim_lookup k s n S) as L. rewrite (sim_index k s S) in *.
  destruct (pos_of n (rules k)) as [p|] eqn:P.
  - split; [discriminate|]. intros H. rewrite H in L. cbn in L. rewrite <- (sim_index k s S) in P.
    rewrite (sim_index k s S) in P. pose proof (nth_pos_of n (rules k)) as Np. rewrite P in Np. rewrite Np in L.
    unfold rfind in L. destruct (find _ (rules k)) eqn:Fd; [discriminate|].
    exfalso. clear - P Fd. revert p P. induction (rules k) as [|r rs IH]; intros p P; [discriminate|]. cbn [pos_of find] in *.
    destruct (Z.eqb (r_name r) n); [discriminate|]. destruct (pos_of n rs) as [q|]; [eapply IH; eauto|discriminate].
  - split; [|reflexivity]. intros _. cbn in L. destruct (sfind (srules s) n); [discriminate|reflexivity].
Qed.

Lemma Sim_init : Sim init sinit.
Proof. constructor; cbn; try reflexivity; try constructor; intros; contradiction. Qed.

Lemma step_sim k s o : Sim k s -> Sim (fst (step k o)) (fst (sstep s o)) /\ snd (step k o) = snd (sstep s o).
Proof.
  intros S. pose proof (Sim_model_names k s S) as NDm. destruct o as [n sal tag|n|n b| |n| |]; cbn [step sstep].
  - (* Add *)
    destruct (idx_get (index k) n) as [p|] eqn:Ix.
    + destruct (sfind (srules s) n) as [x|] eqn:Sf; [split; [exact S|reflexivity]|]. apply (Sim_index_some k s n S) in Sf. congruence.
    + assert (Sf : sfind (srules s) n = None) by (apply (Sim_index_some k s n S); exact Ix). rewrite Sf. cbn [fst snd]. split; [|reflexivity].
      set (r := {| r_name := n; r_sal := sal; r_enabled := true; r_tag := tag |}). set (x := {| s_seq := snext s; s_rule := r |}).
      assert (Hr : stable_sort (rules k ++ [r]) = map s_rule (ssort (srules s ++ [x]))).
      { rewrite stable_sort_snoc, ssort_snoc, sinsert_newest.
        - rewrite stable_sort_sorted_id; [rewrite (sim_rules k s S); reflexivity|]. rewrite (sim_rules k s S). apply sorted_map_desc. apply ssort_sorted. apply S.
        - intros y Hy. apply (Permutation_in _ (ssort_perm _)) in Hy. cbn [x s_seq]. apply (sim_next k s S y Hy). }
      assert (Hn : ~ In n (map name_of (srules s))).
      { intros Hc. apply in_map_iff in Hc. destruct Hc as [y [Hy1 Hy2]].
        assert (sfind (srules s) n = Some y \/ True) by (right; exact I).
        destruct (sfind (srules s) n) eqn:F; [discriminate|]. unfold sfind in F. pose proof (find_none _ _ F y Hy2) as Hq. cbn beta in Hq. fold (name_of y) in Hq. rewrite Hy1, Z.eqb_refl in Hq. discriminate. }
      constructor; cbn [rules index version srules snext sversion].
      * exact Hr.
      * intros m. apply rebuild_spec. rewrite Hr, map_map. eapply Permutation_NoDup; [symmetry; apply (Permutation_map name_of); apply ssort_perm|].
        rewrite map_app. cbn [map]. apply NoDup_snoc_inv_rev; [apply S|exact Hn].
      * rewrite (sim_version k s S). reflexivity.
      * rewrite map_app. cbn [map]. apply NoDup_snoc_inv_rev; [apply S|exact Hn].
      * rewrite map_app. cbn [map]. apply NoDup_snoc_inv_rev; [apply S|]. cbn [x s_seq]. intros Hc. apply in_map_iff in Hc. destruct Hc as [y [Hy1 Hy2]]. pose proof (sim_next k s S y Hy2). lia.
      * intros y Hy. apply in_app_or in Hy. destruct Hy as [Hy|[<-|[]]]; [pose proof (sim_next k s S y Hy); lia|cbn [x s_seq]; lia].
  - (* Remove *)
    destruct (idx_get (index k) n) as [p|] eqn:Ix.
    + destruct (sfind (srules s) n) as [x|] eqn:Sf; [|apply (Sim_index_some k s n S) in Sf; congruence]. cbn [fst snd]. split; [|reflexivity].
      rewrite (sim_index k s S) in Ix.
      assert (Hr : remove_nth p (rules k) = map s_rule (ssort (filter (fun y => negb (Z.eqb (r_name (s_rule y)) n)) (srules s)))).
      { rewrite (remove_at_pos n (rules k) p NDm Ix), (sim_rules k s S), ssort_filter by apply S.
        clear. induction (ssort (srules s)) as [|y l IH]; cbn [map filter]; [reflexivity|]. destruct (Z.eqb (r_name (s_rule y)) n); cbn [negb map]; [exact IH|f_equal; exact IH]. }
      constructor; cbn [rules index version srules snext sversion].
      * exact Hr.
      * intros m. apply rebuild_spec. rewrite Hr, map_map. eapply Permutation_NoDup; [symmetry; apply (Permutation_map name_of); apply ssort_perm|]. apply NoDup_map_filter. apply S.
      * rewrite (sim_version k s S). reflexivity.
      * apply NoDup_map_filter. apply S.
      * apply NoDup_map_filter. apply S.
      * intros y Hy. apply filter_In in Hy. apply (sim_next k s S y (proj1 Hy)).
    + assert (Sf : sfind (srules s) n = None) by (apply (Sim_index_some k s n S); exact Ix). rewrite Sf. split; [exact S|reflexivity].
  - (* Enable *)
    destruct (idx_get (index k) n) as [p|] eqn:Ix.
    + destruct (sfind (srules s) n) as [x|] eqn:Sf; [|apply (Sim_index_some k s n S) in Sf; congruence].
      rewrite (sim_index k s S) in Ix. rewrite (set_enabled_at_pos n b (rules k) p NDm Ix). cbn [fst snd]. split; [|reflexivity].
      set (g := fun y : srule => if Z.eqb (r_name (s_rule y)) n then {| s_seq := s_seq y; s_rule := {| r_name := n; r_sal := r_sal (s_rule y); r_enabled := b; r_tag := r_tag (s_rule y) |} |} else y).
      assert (Hg : forall a c, before (g a) (g c) = before a c).
      { intros a c. unfold g, before. destruct (Z.eqb (r_name (s_rule a)) n), (Z.eqb (r_name (s_rule c)) n); reflexivity. }
      assert (Hgn : forall y, name_of (g y) = name_of y).
      { intros y. unfold g, name_of. destruct (Z.eqb (r_name (s_rule y)) n) eqn:E; [apply Z.eqb_eq in E; cbn; symmetry; exact E|reflexivity]. }
      assert (Hgs : forall y, s_seq (g y) = s_seq y) by (intros y; unfold g; destruct (Z.eqb (r_name (s_rule y)) n); reflexivity).
      assert (Hr : map (reflag n b) (rules k) = map s_rule (ssort (map g (srules s)))).
      { rewrite (ssort_map g _ Hg), (sim_rules k s S), !map_map. apply map_ext. intros y. unfold reflag, g.
        destruct (Z.eqb (r_name (s_rule y)) n) eqn:E; [|reflexivity]. cbn [s_rule]. apply Z.eqb_eq in E. rewrite E. reflexivity. }
      constructor; cbn [rules index version srules snext sversion].
      * exact Hr.
      * intros m. rewrite pos_of_reflag. apply (sim_index k s S).
      * rewrite (sim_version k s S). reflexivity.
      * rewrite map_map. rewrite (map_ext _ name_of Hgn). apply S.
      * rewrite map_map. rewrite (map_ext _ s_seq Hgs). apply S.
      * intros y Hy. apply in_map_iff in Hy. destruct Hy as [z [<- Hz]]. rewrite Hgs. apply (sim_next k s S z Hz).
    + assert (Sf : sfind (srules s) n = None) by (apply (Sim_index_some k s n S); exact Ix). rewrite Sf. split; [exact S|reflexivity].
  - (* Clear *)
    cbn [fst snd]. split; [|reflexivity]. constructor; cbn [rules index version srules snext sversion]; try reflexivity; try constructor; [rewrite (sim_version k s S); reflexivity|intros x []].
  - cbn [fst snd]. split; [exact S|]. f_equal. apply (Sim_lookup k s n S).
  - cbn [fst snd]. split; [exact S|]. f_equal. apply (sim_version k s S).
  - cbn [fst snd]. split; [exact S|]. f_equal. rewrite slisting_ssort. apply (sim_rules k s S).
Qed.

Lemma observe_eq k s r : Sim k s -> observe k r = sobserve s r.
Proof.
  intros S. unfold observe, sobserve. rewrite slisting_ssort, <- (sim_rules k s S), (sim_version k s S). f_equal. f_equal. f_equal. f_equal. f_equal.
  apply map_ext. intros n. f_equal. apply (Sim_lookup k s n S).
Qed.

(** THE REFINEMENT: every sequential history is observed exactly as the abstract specification says *)
Theorem run_refines : forall ops k s, Sim k s -> run_from k ops = srun_from s ops.
Proof.
  induction ops as [|o ops IH]; intros k s S; cbn [run_from srun_from]; [reflexivity|].
  destruct (step_sim k s o S) as [S' R]. destruct (step k o) as [k' r], (sstep s o) as [s' r']. cbn [fst snd] in S', R. subst r'.
  rewrite (observe_eq k' s' r S'). f_equal. apply IH. exact S'.
Qed.

Corollary kb_refines_spec ops : run_from init ops = srun_from sinit ops.
Proof. apply run_refines. exact Sim_init. Qed.

(** the specification's listing has every stored rule once, salience descending, insertion order among equals *)
Theorem spec_listing_sorted s : NoDup (map s_seq (srules s)) ->
  Permutation (slisting s) (map s_rule (srules s)) /\ StronglySorted bef (ssort (srules s)).
Proof. intros ND. split; [rewrite slisting_ssort; apply Permutation_map; apply ssort_perm|apply ssort_sorted; exact ND]. Qed.
