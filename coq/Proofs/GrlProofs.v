(** C04 — the splitting algorithm of the condition-tree parser: what is inside a string literal or inside
    parentheses never separates conditions, and a top-level && / || separates exactly there.  Proofs. *)
From RRE Require Import Base.Sx Base.Float Base.Num Model.ExprShape Model.Forward Model.ForwardSpec Model.Grl.
From Coq Require Import Lia.
Open Scope Z_scope.

Lemma inert_weaken op t : inert op t -> inert_in op t.
Proof. intros H rest depth cur Hd. apply H. lia. Qed.

Lemma inert_nil op : inert op [].
Proof. intros rest depth cur _. reflexivity. Qed.

Lemma inert_app op a b : inert op a -> inert op b -> inert op (a ++ b).
Proof.
  intros Ha Hb rest depth cur Hd. rewrite <- app_assoc. rewrite Ha by exact Hd. rewrite Hb by exact Hd.
  rewrite rev_app_distr, <- app_assoc. reflexivity.
Qed.

Lemma inert_in_app op a b : inert_in op a -> inert_in op b -> inert_in op (a ++ b).
Proof.
  intros Ha Hb rest depth cur Hd. rewrite <- app_assoc. rewrite Ha by exact Hd. rewrite Hb by exact Hd.
  rewrite rev_app_distr, <- app_assoc. reflexivity.
Qed.

(** an ordinary character: not a quote, not a parenthesis, not the separator character *)
Definition ordinary (op c : Z) : bool :=
  negb (c =? 34) && negb (c =? 39) && negb (c =? 40) && negb (c =? 41) && negb (c =? op).

Lemma inert_char op c : ordinary op c = true -> inert op [c].
Proof.
  unfold ordinary. intros H. repeat (apply andb_true_iff in H; destruct H as [H ?]).
  repeat match goal with X : negb _ = true |- _ => apply negb_true_iff in X end.
  intros rest depth cur _. cbn [app split_logical rev].
  match goal with X : (c =? 34) = false |- _ => rewrite X end.
  match goal with X : (c =? 39) = false |- _ => rewrite X end.
  match goal with X : (c =? 40) = false |- _ => rewrite X end.
  match goal with X : (c =? 41) = false |- _ => rewrite X end.
  match goal with X : (c =? op) = false |- _ => rewrite X end. reflexivity.
Qed.

Lemma inert_ordinary op : forall t, forallb (ordinary op) t = true -> inert op t.
Proof.
  induction t as [|c t IH]; intros H; [apply inert_nil|].
  cbn [forallb] in H. apply andb_true_iff in H. destruct H as [Hc Ht].
  change (c :: t) with ([c] ++ t). apply inert_app; [apply inert_char; exact Hc|apply IH; exact Ht].
Qed.

(** string literals are opaque: whatever is between two equal quote characters is copied, never split *)
Lemma in_quote op q : forall s rest depth cur, memc q s = false ->
  split_logical op (s ++ q :: rest) depth (Some q) cur false = split_logical op rest depth None (q :: rev s ++ cur) false.
Proof.
  induction s as [|c s IH]; intros rest depth cur H.
  - cbn [app split_logical rev]. rewrite Z.eqb_refl. reflexivity.
  - unfold memc in H. cbn [existsb] in H. apply orb_false_iff in H. destruct H as [Hc Hs].
    cbn [app split_logical]. rewrite Z.eqb_sym in Hc. rewrite Hc. rewrite IH by exact Hs.
    cbn [rev]. rewrite <- app_assoc. reflexivity.
Qed.

Theorem inert_quoted op q s : ((q =? 34) || (q =? 39)) = true -> memc q s = false -> inert op (q :: s ++ [q]).
Proof.
  intros Hq Hs rest depth cur _. cbn [app]. rewrite <- app_assoc. cbn [app split_logical]. rewrite Hq.
  rewrite in_quote by exact Hs. f_equal. cbn [rev]. rewrite rev_app_distr. cbn [rev app]. rewrite <- app_assoc. reflexivity.
Qed.

(** parentheses protect: whatever may split at its own top level does not split once parenthesised *)
Theorem inert_paren op t : inert_in op t -> op <> 40 -> op <> 41 -> inert op (40 :: t ++ [41]).
Proof.
  intros Ht N1 N2 rest depth cur Hd. cbn [app]. rewrite <- app_assoc. cbn [app split_logical].
  change ((40 =? 34) || (40 =? 39)) with false. change (40 =? 40) with true. cbn iota.
  rewrite Ht by lia. cbn [split_logical].
  change ((41 =? 34) || (41 =? 39)) with false. change (41 =? 40) with false. change (41 =? 41) with true. cbn iota.
  replace (depth + 1 - 1) with depth by lia. f_equal.
  cbn [rev]. rewrite rev_app_distr. cbn [rev app]. rewrite <- app_assoc. reflexivity.
Qed.

(** a separator at depth >= 1 is copied *)
Lemma inert_in_sep op : op <> 34 -> op <> 39 -> op <> 40 -> op <> 41 -> inert_in op [op; op].
Proof.
  intros N1 N2 N3 N4 rest depth cur Hd. cbn [app split_logical rev].
  assert (D : (depth =? 0) = false) by (apply Z.eqb_neq; lia).
  assert (E1 : (op =? 34) = false) by (apply Z.eqb_neq; exact N1). assert (E2 : (op =? 39) = false) by (apply Z.eqb_neq; exact N2).
  assert (E3 : (op =? 40) = false) by (apply Z.eqb_neq; exact N3). assert (E4 : (op =? 41) = false) by (apply Z.eqb_neq; exact N4).
  rewrite E1, E2, E3, E4, D. cbn [orb andb]. rewrite andb_false_r. cbn [andb]. reflexivity.
Qed.

(** a top-level separator between two inert texts separates exactly there, and only there *)
Theorem split_two op a b : op <> 34 -> op <> 39 -> op <> 40 -> op <> 41 ->
  inert op a -> inert op b -> trim ws_unicode b <> [] ->
  split_on op (a ++ [op; op] ++ b) = Some [trim ws_unicode a; trim ws_unicode b].
Proof.
  intros N1 N2 N3 N4 Ha Hb Hne.
  assert (E1 : (op =? 34) = false) by (apply Z.eqb_neq; exact N1). assert (E2 : (op =? 39) = false) by (apply Z.eqb_neq; exact N2).
  assert (E3 : (op =? 40) = false) by (apply Z.eqb_neq; exact N3). assert (E4 : (op =? 41) = false) by (apply Z.eqb_neq; exact N4).
  assert (P : split_logical op (a ++ [op; op] ++ b) 0 None [] false = [trim ws_unicode a; trim ws_unicode b]).
  { rewrite Ha by lia. cbn [app split_logical]. rewrite E1, E2, E3, E4. cbn [orb]. rewrite !Z.eqb_refl. cbn [andb].
    rewrite app_nil_r, rev_involutive.
    pose proof (Hb [] 0 [] ltac:(lia)) as Hb'. rewrite app_nil_r in Hb'. rewrite Hb'. cbn [split_logical].
    rewrite app_nil_r, rev_involutive.
    destruct (trim ws_unicode b) eqn:T; [contradiction|]. reflexivity. }
  unfold split_on. rewrite P. reflexivity.
Qed.
