(** C12 — proofs about Model/Window.v *)
From RRE Require Import Base.Sx Base.Float Model.Window.
From Coq Require Import Lia.
Open Scope N_scope.

Lemma drop_front_incl {T} n : forall (l : list T) x, In x (drop_front n l) -> In x l.
Proof.
  induction n as [|n IH]; intros l x H; cbn in H; [exact H|].
  destruct l as [|y l]; [contradiction|]. right. apply IH. exact H.
Qed.

Lemma drop_front_length {T} n : forall (l : list T), length (drop_front n l) = (length l - n)%nat.
Proof.
  induction n as [|n IH]; intros l; cbn; [lia|].
  destruct l as [|y l]; cbn; [reflexivity|]. apply IH.
Qed.

Lemma cap_events_incl cap l x : In x (cap_events cap l) -> In x l.
Proof. apply drop_front_incl. Qed.

Lemma cap_events_length cap l : (length (cap_events cap l) <= N.to_nat cap)%nat.
Proof. unfold cap_events. rewrite drop_front_length. lia. Qed.

Lemma drop_front_last {T} n : forall (l : list T) x,
  (n < length (l ++ [x]))%nat -> In x (drop_front n (l ++ [x])).
Proof.
  induction n as [|n IH]; intros l x H; cbn.
  - apply in_or_app. right. left. reflexivity.
  - destruct l as [|y l]; cbn in *; [lia|]. apply IH. lia.
Qed.

(** After each record, no retained event is older than the window duration relative to the
    recorded event. *)
Lemma record_no_old dur cap w e x :
  In x (w_events (record dur cap w e)) -> ets e - dur <= ets x.
Proof.
  unfold record. cbn [w_events]. intros H. apply cap_events_incl in H.
  apply filter_In in H. destruct H as [_ H]. apply negb_true_iff in H. apply N.ltb_ge in H. exact H.
Qed.

(** retained events are events that were already retained, or the recorded one *)
Lemma record_subset dur cap w e x :
  In x (w_events (record dur cap w e)) -> In x (w_events w) \/ x = e.
Proof.
  unfold record. cbn [w_events]. intros H. apply cap_events_incl in H.
  apply filter_In in H. destruct H as [H _]. apply in_app_or in H. destruct H as [H|[H|[]]]; auto.
Qed.

Lemma record_capped dur cap w e : (length (w_events (record dur cap w e)) <= N.to_nat cap)%nat.
Proof. unfold record. cbn [w_events]. apply cap_events_length. Qed.

Lemma filter_app_last {T} (f : T -> bool) l x : f x = true -> filter f (l ++ [x]) = filter f l ++ [x].
Proof. intros H. rewrite filter_app. cbn. rewrite H. reflexivity. Qed.

(** the recorded event itself is retained (cap >= 1) *)
Lemma record_keeps_new dur cap w e : 1 <= cap -> In e (w_events (record dur cap w e)).
Proof.
  intros Hc. unfold record. cbn [w_events].
  rewrite filter_app_last by (apply negb_true_iff; apply N.ltb_ge; lia).
  unfold cap_events. apply drop_front_last. rewrite app_length. cbn. lia.
Qed.

(** no younger retained event is dropped except oldest-first by the cap: the retained list is
    exactly the last min(cap, n) of the n young events among (retained before ++ [e]) *)
Lemma record_young_suffix dur cap w e :
  let young := filter (fun x => negb (ets x <? ets e - dur)) (w_events w ++ [e]) in
  exists k, w_events (record dur cap w e) = drop_front k young
            /\ k = (length young - N.to_nat cap)%nat.
Proof. cbn. eexists. split; reflexivity. Qed.

(** ---- tumbling placement (WindowedStream) ---- *)
Definition aligned (dur : N) (w : window) : Prop :=
  w_end w = w_start w + dur /\ forall x, In x (w_events w) -> w_start w = (ets x / dur) * dur.

Lemma add_event_aligned dur cap w e :
  aligned dur w -> w_start w = (ets e / dur) * dur -> aligned dur (fst (add_event cap w e)).
Proof.
  intros [He Hx] Hs. unfold add_event.
  destruct ((w_start w <=? ets e) && (ets e <? w_end w)); cbn [fst]; [|split; assumption].
  split; cbn [w_start w_end w_events]; [exact He|].
  intros x Hin. apply cap_events_incl in Hin. apply in_app_or in Hin.
  destruct Hin as [Hin|[<-|[]]]; auto.
Qed.

Lemma group_add_aligned dur cap ws e :
  Forall (aligned dur) ws -> Forall (aligned dur) (group_add dur cap ws e).
Proof.
  induction ws as [|w r IH]; intros H; cbn [group_add].
  - constructor; [|constructor]. apply add_event_aligned; [|reflexivity].
    split; cbn; [reflexivity|intros x []].
  - inversion H as [|? ? Hw Hr]; subst.
    destruct (w_start w =? (ets e / dur) * dur) eqn:E.
    + apply N.eqb_eq in E. constructor; [|exact Hr]. apply add_event_aligned; assumption.
    + constructor; [exact Hw|]. apply IH. exact Hr.
Qed.

Lemma insert_sorted_in w l x : In x (insert_sorted w l) <-> x = w \/ In x l.
Proof.
  induction l as [|y l IH]; cbn.
  - intuition (subst; auto).
  - destruct (w_start w <? w_start y); cbn.
    + intuition (subst; auto).
    + rewrite IH. intuition (subst; auto).
Qed.

Lemma sort_windows_in l x : In x (sort_windows l) <-> In x l.
Proof.
  unfold sort_windows.
  assert (G : forall l acc, In x (fold_left (fun acc w => insert_sorted w acc) l acc) <-> In x l \/ In x acc).
  { clear l. induction l as [|w l IH]; intros acc; cbn [fold_left].
    - split; [auto|intros [[]|H]; exact H].
    - rewrite IH, insert_sorted_in. cbn. intuition (subst; auto). }
  rewrite G. cbn. tauto.
Qed.

(** Every event that tumbling windowing places is placed in the aligned interval that
    contains its timestamp: start = floor(ts/dur)*dur, end = start + dur. *)
Theorem windowed_aligned dur cap es w x :
  In w (windowed dur cap es) -> In x (w_events w) ->
  w_start w = (ets x / dur) * dur /\ w_end w = w_start w + dur.
Proof.
  unfold windowed. rewrite sort_windows_in. intros Hw Hx.
  assert (G : forall es ws, Forall (aligned dur) ws -> Forall (aligned dur) (fold_left (group_add dur cap) es ws)).
  { clear. induction es as [|e es IH]; intros ws H; cbn [fold_left]; [exact H|].
    apply IH. apply group_add_aligned. exact H. }
  specialize (G es [] (Forall_nil _)). rewrite Forall_forall in G.
  destruct (G w Hw) as [He Ha]. split; [apply Ha; exact Hx|exact He].
Qed.

Lemma add_event_start cap w e : w_start (fst (add_event cap w e)) = w_start w.
Proof. unfold add_event. destruct (_ && _); reflexivity. Qed.

(** starts of the tumbling windows are pairwise distinct (one window per aligned interval) *)
Lemma group_add_starts dur cap ws e :
  NoDup (map w_start ws) ->
  NoDup (map w_start (group_add dur cap ws e)) /\
  (forall s, In s (map w_start (group_add dur cap ws e)) <-> In s (map w_start ws) \/ s = (ets e / dur) * dur).
Proof.
  induction ws as [|w r IH]; intros H; cbn [group_add].
  - cbn [map]. rewrite add_event_start. cbn [w_start].
    split; [constructor; [intros []|constructor]|intros s; cbn; intuition (subst; auto)].
  - destruct (w_start w =? (ets e / dur) * dur) eqn:E.
    + apply N.eqb_eq in E.
      cbn [map]. rewrite add_event_start. split; [exact H|]. intros s. cbn. rewrite <- E. intuition (subst; auto).
    + inversion H as [|? ? Hn Hr]; subst. destruct (IH Hr) as [I1 I2]. cbn [map]. split.
      * constructor; [|exact I1]. rewrite I2. intros [Hc|Hc]; [contradiction|].
        apply N.eqb_neq in E. congruence.
      * intros s. cbn. rewrite I2. intuition (subst; auto).
Qed.
