(** C04 — the quote-aware splitting layer (Model/GrlSplit.v): string literals are opaque to the statement split, the argument
    split and find_outside_strings; what was written comes back piece for piece; no slice is taken off a character boundary. *)
From RRE Require Import Base.Sx Model.ExprShape Model.GrlSplit Proofs.ExprShapeProofs.
From Coq Require Import Lia.
Open Scope Z_scope.

Lemma scan_app q a b : scan q (a ++ b) = scan (scan q a) b.
Proof. unfold scan. apply fold_left_app. Qed.

(** scanning a piece that holds no separator outside its literals only accumulates it *)
Lemma split_q_through sep : forall p q cur rest, nosep_q sep p q = true ->
  split_q sep (p ++ rest) q cur = split_q sep rest (scan q p) (rev p ++ cur).
Proof.
  induction p as [|c p IH]; intros q cur rest H; [reflexivity|].
  cbn [app split_q nosep_q scan fold_left rev] in *. destruct q as [x|].
  - rewrite (IH _ _ _ H). rewrite <- app_assoc. reflexivity.
  - apply andb_true_iff in H as [Hs H]. apply negb_true_iff in Hs. cbn [qstep] in *.
    destruct (is_quote c) eqn:Q.
    + rewrite (IH _ _ _ H). rewrite <- app_assoc. reflexivity.
    + rewrite Hs. rewrite (IH _ _ _ H). rewrite <- app_assoc. reflexivity.
Qed.

Lemma split_q_piece_end sep p cur : piece_ok sep p -> split_q sep p None cur = [rev cur ++ p].
Proof.
  intros [Hc Hn]. pose proof (split_q_through sep p None cur [] Hn) as H. rewrite app_nil_r in H. rewrite H, Hc.
  cbn [split_q]. rewrite rev_app_distr, rev_involutive. reflexivity.
Qed.

Lemma split_q_piece_sep sep p cur rest : is_quote sep = false -> piece_ok sep p ->
  split_q sep (p ++ sep :: rest) None cur = (rev cur ++ p) :: split_q sep rest None [].
Proof.
  intros Hq [Hc Hn]. rewrite (split_q_through sep p None cur (sep :: rest) Hn), Hc.
  cbn [split_q]. rewrite Hq, Z.eqb_refl. rewrite rev_app_distr, rev_involutive. reflexivity.
Qed.

(** THE ROUND TRIP: pieces joined by the separator come back exactly, whatever their string literals contain *)
Theorem split_join sep : is_quote sep = false -> forall ps, ps <> [] -> Forall (piece_ok sep) ps ->
  split_q sep (join sep ps) None [] = ps.
Proof.
  intros Hq. induction ps as [|p ps IH]; intros Hne F; [contradiction|]. inversion F as [|? ? Hp F']; subst.
  destruct ps as [|p2 ps].
  - cbn [join]. rewrite (split_q_piece_end sep p [] Hp). reflexivity.
  - cbn [join]. fold (join sep (p2 :: ps)). rewrite (split_q_piece_sep sep p [] _ Hq Hp). cbn [rev app]. f_equal.
    apply IH; [discriminate|exact F'].
Qed.

(** pieces: a string literal whose content is free of its own quote character is one, whatever else it contains *)
Lemma scan_inside x : forall content, ~ In x content -> scan (Some x) content = Some x.
Proof.
  induction content as [|c r IH]; intros H; [reflexivity|]. cbn [scan fold_left qstep].
  destruct (c =? x) eqn:E; [apply Z.eqb_eq in E; exfalso; apply H; left; exact E|]. apply IH. intros Hin. apply H. right. exact Hin.
Qed.
Lemma nosep_inside sep x : forall content, ~ In x content -> nosep_q sep (content ++ [x]) (Some x) = true.
Proof.
  induction content as [|c r IH]; intros H; cbn [app nosep_q qstep].
  - reflexivity.
  - destruct (c =? x) eqn:E; [apply Z.eqb_eq in E; exfalso; apply H; left; exact E|]. apply IH. intros Hin. apply H. right. exact Hin.
Qed.
Theorem literal_is_piece sep x content : is_quote x = true -> is_quote sep = false -> ~ In x content ->
  piece_ok sep (literal x content).
Proof.
  intros Hx Hs Hc. unfold literal, piece_ok. split.
  - cbn [scan fold_left qstep]. rewrite Hx. change (fold_left qstep (content ++ [x]) (Some x)) with (scan (Some x) (content ++ [x])).
    rewrite scan_app, (scan_inside x content Hc). cbn. rewrite Z.eqb_refl. reflexivity.
  - cbn [nosep_q qstep]. rewrite Hx.
    assert (x =? sep = false). { destruct (x =? sep) eqn:E; [apply Z.eqb_eq in E; subst; congruence|reflexivity]. }
    rewrite H. cbn [negb andb]. apply nosep_inside. exact Hc.
Qed.

(** text without quotes and without the separator is a piece; pieces concatenate *)
Lemma plain_is_piece sep : forall t, (forall c, In c t -> is_quote c = false /\ c <> sep) -> piece_ok sep t.
Proof.
  induction t as [|c t IH]; intros H; [split; reflexivity|].
  destruct (H c (or_introl eq_refl)) as [Hq Hs]. destruct IH as [I1 I2]; [intros c' Hc'; apply H; right; exact Hc'|].
  split.
  - cbn [scan fold_left qstep]. rewrite Hq. exact I1.
  - cbn [nosep_q qstep]. rewrite Hq. destruct (c =? sep) eqn:E; [apply Z.eqb_eq in E; contradiction|]. exact I2.
Qed.
Lemma nosep_app sep : forall a q b, nosep_q sep a q = true -> nosep_q sep b (scan q a) = true -> nosep_q sep (a ++ b) q = true.
Proof.
  induction a as [|c a IH]; intros q b Ha Hb; [exact Hb|]. cbn [app nosep_q scan fold_left] in *. destruct q as [x|].
  - apply IH; assumption.
  - apply andb_true_iff in Ha as [H1 H2]. rewrite H1. cbn [andb]. apply IH; assumption.
Qed.
Theorem pieces_compose sep a b : piece_ok sep a -> piece_ok sep b -> piece_ok sep (a ++ b).
Proof.
  intros [A1 A2] [B1 B2]. split; [rewrite scan_app, A1; exact B1|]. apply nosep_app; [exact A2|rewrite A1; exact B2].
Qed.

(** the then clause: statements written one after the other, each ended by ';', come back as exactly those statements *)
Theorem then_statements_roundtrip : forall ps, ps <> [] -> Forall (piece_ok 59) ps ->
  then_statements (join 59 ps) = filter nonempty (map trimw ps).
Proof. intros ps Hne F. unfold then_statements. rewrite (split_join 59 eq_refl ps Hne F). reflexivity. Qed.

Theorem split_arguments_roundtrip : forall ps, ps <> [] -> Forall (piece_ok 44) ps -> split_arguments (join 44 ps) = ps.
Proof. intros ps Hne F. apply (split_join 44 eq_refl ps Hne F). Qed.

(** ---------- no slice off a character boundary ---------- *)
Lemma find_out_spec pat : forall s q off i, find_out pat s q off = Some i ->
  exists a b, s = a ++ b /\ i = off + blen a /\ starts_with b pat = true.
Proof.
  induction s as [|c s IH]; intros q off i H; cbn [find_out] in H; [discriminate|].
  assert (Step : forall q', find_out pat s q' (off + utf8_len c) = Some i -> exists a b, c :: s = a ++ b /\ i = off + blen a /\ starts_with b pat = true).
  { intros q' H'. destruct (IH _ _ _ H') as (a & b & E1 & E2 & E3). exists (c :: a), b. subst s. cbn [app blen]. repeat split; [lia|exact E3]. }
  destruct q as [x|]; [eapply Step; exact H|].
  destruct (is_quote c); [eapply Step; exact H|].
  destruct (starts_with (c :: s) pat) eqn:E; [|eapply Step; exact H].
  inversion H; subst. exists [], (c :: s). cbn. repeat split; [lia|exact E].
Qed.

Lemma starts_with_app' : forall p s, starts_with s p = true -> exists r, s = p ++ r.
Proof.
  induction p as [|x p IH]; intros s H; [exists s; reflexivity|].
  destruct s as [|y s]; [discriminate|]. cbn in H. apply andb_true_iff in H as [E H]. apply Z.eqb_eq in E. subst y.
  destruct (IH s H) as [r Er]. exists r. subst s. reflexivity.
Qed.

Lemma slices_at_find t pat p : find_outside t pat = Some p ->
  exists a r, slice t 0 p = Some a /\ slice t (p + blen pat) (blen t) = Some r.
Proof.
  unfold find_outside. intros H. destruct (find_out_spec _ _ _ _ _ H) as (a & b & E1 & E2 & E3).
  destruct (starts_with_app' _ _ E3) as [r Er]. subst b. exists a, r. subst t p. split.
  - pose proof (slice_app [] a (pat ++ r)) as S. cbn [app blen] in S. exact S.
  - pose proof (slice_app (a ++ pat) r []) as S. rewrite app_nil_r, <- app_assoc in S. rewrite blen_app in S.
    rewrite !blen_app. replace (0 + blen a + blen pat) with (blen a + blen pat) by lia.
    replace (blen a + (blen pat + blen r)) with (blen a + blen pat + blen r) by lia. exact S.
Qed.

Theorem classify_no_panic : forall st, classify st <> SPanic.
Proof.
  intros st. unfold classify. set (t := trimw st).
  destruct (find_outside t s_pluseq) as [p|] eqn:F1.
  - destruct (slices_at_find _ _ _ F1) as (a & r & S1 & S2). change (blen s_pluseq) with 2 in S2. rewrite S1, S2. discriminate.
  - destruct (find_outside t s_eq) as [p|] eqn:F2; [|discriminate].
    destruct (slices_at_find _ _ _ F2) as (a & r & S1 & S2). change (blen s_eq) with 1 in S2. rewrite S1, S2. discriminate.
Qed.

(** an assignment whose field text holds no quote and no '=' and whose value text starts outside a literal is classified as
    that assignment, whatever the value contains (quotes, '=', "+=" inside literals or not: the FIRST '=' outside literals wins,
    and it is the written one) *)
Lemma find_out_plain pat : forall f rest off, (forall c, In c f -> is_quote c = false) -> (forall a b, f = a ++ b -> b <> [] -> starts_with (b ++ rest) pat = false) ->
  find_out pat (f ++ rest) None off = find_out pat rest None (off + blen f).
Proof.
  induction f as [|c f IH]; intros rest off Hq Hn; [cbn; f_equal; lia|].
  cbn [app find_out]. rewrite (Hq c (or_introl eq_refl)).
  pose proof (Hn [] (c :: f) eq_refl ltac:(discriminate)) as E0. cbn [app] in E0. rewrite E0.
  rewrite IH; [cbn [blen]; f_equal; lia|intros c' H; apply Hq; right; exact H|].
  intros a b E Hb. apply (Hn (c :: a) b); [cbn; rewrite E; reflexivity|exact Hb].
Qed.

(** ---------- the braces of a rule block (repairs 631953a): the block ends at the first `}` outside string literals, the
    attributes at the first `{` outside string literals - both are [find_outside] with a one-character pattern ---------- *)
Lemma find_out_char_through c : is_quote c = false -> forall p q rest off, nosep_q c p q = true ->
  find_out [c] (p ++ rest) q off = find_out [c] rest (scan q p) (off + blen p).
Proof.
  intros Hc. induction p as [|x p IH]; intros q rest off H; [cbn; f_equal; lia|].
  cbn [app find_out nosep_q scan fold_left blen] in *. destruct q as [y|].
  - rewrite (IH _ _ _ H). f_equal. lia.
  - apply andb_true_iff in H as [Hx H]. apply negb_true_iff in Hx. cbn [qstep] in *.
    destruct (is_quote x) eqn:Q.
    + rewrite (IH _ _ _ H). f_equal. lia.
    + cbn [starts_with]. rewrite (Z.eqb_sym c x), Hx. cbn [andb]. rewrite (IH _ _ _ H). f_equal. lia.
Qed.

Theorem brace_found_after_piece : forall c p rest, is_quote c = false -> piece_ok c p ->
  find_outside (p ++ c :: rest) [c] = Some (blen p).
Proof.
  intros c p rest Hc [Hs Hn]. unfold find_outside. rewrite (find_out_char_through c Hc p None (c :: rest) 0 Hn), Hs.
  cbn [find_out]. rewrite Hc. cbn [starts_with]. rewrite Z.eqb_refl. cbn [andb].
  assert (E : starts_with rest [] = true) by (destruct rest; reflexivity). rewrite E. reflexivity.
Qed.

(** ---------- split_when_then (repair fded141): a string literal of the conditions is opaque to the search for `then` ---------- *)
Lemma scan_then_inside x : forall content rest acc, ~ In x content ->
  scan_then (content ++ x :: rest) (Some x) acc false = scan_then rest None (x :: rev content ++ acc) false.
Proof.
  induction content as [|c r IH]; intros rest acc H; cbn [app scan_then qstep rev].
  - rewrite Z.eqb_refl. reflexivity.
  - destruct (c =? x) eqn:E; [apply Z.eqb_eq in E; exfalso; apply H; left; exact E|].
    rewrite IH by (intros Hin; apply H; right; exact Hin). rewrite <- app_assoc. reflexivity.
Qed.

Theorem scan_then_through_literal : forall x content rest acc first, is_quote x = true -> ~ In x content ->
  scan_then (literal x content ++ rest) None acc first = scan_then rest None (rev (literal x content) ++ acc) false.
Proof.
  intros x content rest acc first Hx Hc. unfold literal. cbn [app scan_then]. rewrite Hx.
  rewrite <- app_assoc. cbn [app]. rewrite (scan_then_inside x content rest (x :: acc) Hc).
  cbn [rev]. rewrite rev_app_distr. cbn [rev app]. rewrite <- !app_assoc. reflexivity.
Qed.

(** the conditions [c] are passed without a split when no whitespace character of [c] outside its literals (other than its first
    character) is followed - after further whitespace - by `then`, whitespace and a non-empty rest; [passes] says so by the
    recursion of the scan itself, [rest] being the text after the conditions *)
Fixpoint passes (c rest : str) (q : option Z) (first : bool) : bool :=
  match c with
  | [] => true
  | x :: r =>
      match q with
      | Some _ => passes r rest (qstep q x) false
      | None =>
          if is_quote x then passes r rest (Some x) false
          else if ws_unicode x && negb first then
                 let t := tstart ((x :: r) ++ rest) in
                 if starts_with t s_then then
                   let tail := skipn 4 t in
                   if (length (tstart tail) <? length tail)%nat && nonempty (tstart tail) then false
                   else passes r rest None false
                 else passes r rest None false
               else passes r rest None false
      end
  end.

Lemma scan_then_passes : forall c rest q acc first, passes c rest q first = true ->
  scan_then (c ++ rest) q acc first = scan_then rest (scan q c) (rev c ++ acc) (first && match c with [] => true | _ => false end).
Proof.
  induction c as [|x r IH]; intros rest q acc first H.
  - cbn. rewrite andb_true_r. reflexivity.
  - cbn [app scan_then passes scan fold_left rev] in *. rewrite andb_false_r.
    assert (Step : forall q', passes r rest q' false = true ->
              scan_then (r ++ rest) q' (x :: acc) false = scan_then rest (scan q' r) ((rev r ++ [x]) ++ acc) false).
    { intros q' H'. rewrite (IH rest q' (x :: acc) false H'). rewrite <- app_assoc. cbn [app]. destruct r; reflexivity. }
    destruct q as [y|]; [apply Step; exact H|].
    cbn [qstep]. destruct (is_quote x) eqn:Q; [apply Step; exact H|].
    destruct (ws_unicode x && negb first) eqn:W; [|apply Step; exact H].
    change (x :: r ++ rest) with ((x :: r) ++ rest) in *.
    destruct (starts_with (tstart ((x :: r) ++ rest)) s_then) eqn:T; [|apply Step; exact H].
    destruct ((length (tstart (skipn 4 (tstart ((x :: r) ++ rest)))) <? length (skipn 4 (tstart ((x :: r) ++ rest))))%nat
              && nonempty (tstart (skipn 4 (tstart ((x :: r) ++ rest))))) eqn:L; [discriminate|apply Step; exact H].
Qed.

Definition all_ws (s : str) : Prop := forall c, In c s -> ws_unicode c = true.
Lemma tstart_ws_app w s : all_ws w -> tstart (w ++ s) = tstart s.
Proof.
  induction w as [|c w IH]; intros H; [reflexivity|]. unfold tstart in *. cbn [app trim_start]. rewrite (H c (or_introl eq_refl)).
  apply IH. intros d Hd. apply H. right. exact Hd.
Qed.
Lemma tstart_nonws c s : ws_unicode c = false -> tstart (c :: s) = c :: s.
Proof. intros H. unfold tstart. cbn [trim_start]. rewrite H. reflexivity. Qed.

(** THE WRITTEN SPLIT: conditions [c] that the scan passes and that end outside a literal, then whitespace, `then`, whitespace and
    actions [a] that start with a visible character: the split is exactly (c, a) *)
Theorem scan_then_splits_at_the_written_then : forall c x w2 w3 y a,
  c <> [] -> passes c (x :: w2 ++ s_then ++ w3 ++ y :: a) None true = true -> scan None c = None ->
  ws_unicode x = true -> all_ws w2 -> w3 <> [] -> all_ws w3 -> ws_unicode y = false ->
  scan_then (c ++ x :: w2 ++ s_then ++ w3 ++ y :: a) None [] true = Some (c, y :: a).
Proof.
  intros c x w2 w3 y a Hc Hp Hs Hx Hw2 Hw3 Aw3 Hy.
  rewrite (scan_then_passes c _ None [] true Hp), Hs. rewrite app_nil_r.
  assert (E : (true && match c with [] => true | _ => false end) = false) by (destruct c; [contradiction|reflexivity]). rewrite E.
  cbn [scan_then]. assert (Qx : is_quote x = false).
  { unfold is_quote. unfold ws_unicode in Hx. destruct (x =? 34) eqn:E1; [apply Z.eqb_eq in E1; subst x; discriminate|].
    destruct (x =? 39) eqn:E2; [apply Z.eqb_eq in E2; subst x; discriminate|reflexivity]. }
  rewrite Qx, Hx. cbn [negb andb].
  assert (T1 : tstart (x :: w2 ++ s_then ++ w3 ++ y :: a) = s_then ++ w3 ++ y :: a).
  { change (x :: w2 ++ s_then ++ w3 ++ y :: a) with ((x :: w2) ++ s_then ++ w3 ++ y :: a).
    rewrite tstart_ws_app by (intros d [<-|Hd]; [exact Hx|apply Hw2; exact Hd]). apply tstart_nonws. reflexivity. }
  rewrite T1. cbn [s_then app starts_with]. rewrite !Z.eqb_refl. cbn [andb].
  assert (S0 : starts_with (w3 ++ y :: a) [] = true) by (destruct (w3 ++ y :: a); reflexivity). rewrite S0.
  cbn [skipn]. rewrite (tstart_ws_app w3 (y :: a) Aw3), (tstart_nonws y a Hy).
  assert (L : (length (y :: a) <? length (w3 ++ y :: a))%nat = true).
  { apply Nat.ltb_lt. rewrite app_length. destruct w3; [contradiction|cbn; lia]. }
  rewrite L. cbn [nonempty andb]. rewrite rev_involutive. reflexivity.
Qed.
