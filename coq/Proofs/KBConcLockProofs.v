(** C15 — lock-level concurrent model (Model/KBConc.v): the lock table and the threads' guard lists agree in every
    reachable state (mutual exclusion), and the frame properties of the sequential method bodies. *)
From RRE Require Import Base.Sx Model.KB Model.KBConc.
From Coq Require Import Lia Permutation.
Open Scope Z_scope.

(** ---------- list plumbing ---------- *)
Lemma nth_set_nth_eq {T} : forall (l : list T) t x y, nth_error l t = Some y -> nth_error (set_nth t x l) t = Some x.
Proof. induction l as [|a l IH]; intros [|t] x y H; cbn in *; try discriminate; [reflexivity|eapply IH; exact H]. Qed.
Lemma nth_set_nth_ne {T} : forall (l : list T) t t' x, t <> t' -> nth_error (set_nth t x l) t' = nth_error l t'.
Proof. induction l as [|a l IH]; intros [|t] [|t'] x H; cbn; try reflexivity; [congruence|apply IH; congruence]. Qed.
Lemma set_nth_split {T} : forall (l : list T) t x y, nth_error l t = Some y ->
  exists l1 l2, l = l1 ++ y :: l2 /\ set_nth t x l = l1 ++ x :: l2.
Proof.
  induction l as [|a l IH]; intros [|t] x y H; cbn in *; try discriminate.
  - inversion H; subst. exists [], l. split; reflexivity.
  - destruct (IH t x y H) as (l1 & l2 & E1 & E2). exists (a :: l1), l2. cbn. rewrite E2. split; [f_equal; exact E1|reflexivity].
Qed.

Lemma upd_eq {T} (f : nat -> T) i v : upd f i v i = v.
Proof. unfold upd. rewrite Nat.eqb_refl. reflexivity. Qed.
Lemma upd_ne {T} (f : nat -> T) i j v : j <> i -> upd f i v j = f j.
Proof. intros H. unfold upd. destruct (Nat.eqb_spec j i); [contradiction|reflexivity]. Qed.

Lemma in_remove1_ne t t' l : t <> t' -> In t l -> In t (remove1 t' l).
Proof.
  intros Hne. induction l as [|x l IH]; cbn; [tauto|]. intros [E|H].
  - subst x. destruct (Nat.eqb_spec t t'); [contradiction|left; reflexivity].
  - destruct (Nat.eqb_spec x t'); [exact H|right; apply IH; exact H].
Qed.

(** ---------- frame properties of the sequential bodies ---------- *)
Lemma kb_eta (a b : kb) : rules a = rules b -> index a = index b -> version a = version b -> a = b.
Proof. destruct a, b; cbn; intros; subst; reflexivity. Qed.

Lemma agree_refl c k : agree c k k.
Proof. destruct c as [|[|[|c]]]; cbn; reflexivity. Qed.
Lemma agree_sym c a b : agree c a b -> agree c b a.
Proof. destruct c as [|[|[|c]]]; cbn; intros; auto. Qed.
Lemma agree_trans c a b d : agree c a b -> agree c b d -> agree c a d.
Proof. destruct c as [|[|[|c]]]; cbn; intros; auto; congruence. Qed.

Lemma frame_all k1 k2 : (forall c, In c [0; 1; 2]%nat -> agree c k1 k2) -> k1 = k2.
Proof. intros H. apply kb_eta; [apply (H 0%nat)|apply (H 1%nat)|apply (H 2%nat)]; cbn; auto. Qed.

Lemma frame_res o k1 k2 : (forall c, In c (footprint o) -> agree c k1 k2) -> snd (step k1 o) = snd (step k2 o).
Proof.
  intros H. destruct o; cbn [footprint] in H; try (rewrite (frame_all _ _ H); reflexivity).
  - reflexivity.
  - cbn [step snd]. pose proof (H 0%nat) as H0. pose proof (H 1%nat) as H1. cbn in H0, H1. rewrite H0, H1 by auto. reflexivity.
  - cbn [step snd]. pose proof (H 2%nat) as H2. cbn in H2. rewrite H2 by auto. reflexivity.
  - cbn [step snd]. pose proof (H 0%nat) as H0. cbn in H0. rewrite H0 by auto. reflexivity.
Qed.

Lemma frame_write o k1 k2 : (forall c, In c (footprint o) -> agree c k1 k2) ->
  forall c, In c (wset o) -> agree c (fst (step k1 o)) (fst (step k2 o)).
Proof.
  intros H c Hc. destruct o; cbn [footprint wset] in *; try (rewrite (frame_all _ _ H); apply agree_refl); try contradiction.
  pose proof (H 2%nat) as H2. cbn in H2. cbn [step fst].
  destruct Hc as [E|[E|[E|[]]]]; subst c; cbn; try reflexivity. rewrite H2 by auto. reflexivity.
Qed.

Lemma frame_keep o k c : ~ In c (wset o) -> agree c (fst (step k o)) k.
Proof.
  intros H. destruct o; cbn [wset] in H; try apply agree_refl;
    try (destruct c as [|[|[|c]]]; cbn in H; try (exfalso; tauto); exact I).
  (* Enable: the index is never changed *)
  destruct c as [|[|[|c]]]; cbn in H; try (exfalso; tauto); [|exact I].
  cbn [step]. destruct (idx_get (index k) n); [destruct (set_enabled_nth _ _ _)|]; reflexivity.
Qed.

Lemma write_cell_same c src dst : (c < 3)%nat -> agree c (write_cell c src dst) src.
Proof. destruct c as [|[|[|c]]]; cbn; intros; try reflexivity; lia. Qed.
Lemma write_cell_other c c' src dst : c <> c' -> agree c' (write_cell c src dst) dst.
Proof. destruct c as [|[|[|c]]], c' as [|[|[|c']]]; cbn; intros; try reflexivity; try congruence; try exact I; apply agree_refl. Qed.

(** ---------- the lock invariant ---------- *)
Definition held_of (p : pc) : list lockreq :=
  match p with PIdle => [] | PAcq _ _ _ h => h | PWrite _ _ _ _ _ _ h => h | PRel _ _ _ _ h => h end.
Definition pending_of (p : pc) : list lockreq := match p with PAcq _ _ todo _ => todo | _ => [] end.

Section Locks.
Variable locks_of : op -> list lockreq.
Hypothesis table : forall o, ascending_from 0 (locks_of o) = true /\ covers (locks_of o) o = true.

Record InvL (s : gst) : Prop := {
  l_W : forall t th l, nth_error (thr s) t = Some th -> In (l, MW) (held_of (tpc th)) -> wr (lk s l) = Some t;
  l_R : forall t th l, nth_error (thr s) t = Some th -> In (l, MR) (held_of (tpc th)) -> In t (rd (lk s l));
  l_3 : forall l t, wr (lk s l) = Some t -> rd (lk s l) = [];
  l_nodup : forall t th, nth_error (thr s) t = Some th -> NoDup (map fst (pending_of (tpc th) ++ held_of (tpc th)));
  l_acq : forall t th o inv todo held, nth_error (thr s) t = Some th -> tpc th = PAcq o inv todo held ->
          locks_of o = rev held ++ todo
}.

Lemma ascending_lt lo l : ascending_from lo l = true -> forall q, In q l -> (lo <= fst q < 3)%nat.
Proof.
  revert lo. induction l as [|[c m] l IH]; intros lo H q Hq; [contradiction|]. cbn [ascending_from] in H.
  apply andb_prop in H as [H H3]. apply andb_prop in H as [H1 H2].
  apply Nat.leb_le in H1. apply Nat.ltb_lt in H2. destruct Hq as [E|Hq]; [subst q; cbn; lia|].
  specialize (IH _ H3 q Hq). lia.
Qed.
Lemma ascending_nodup lo l : ascending_from lo l = true -> NoDup (map fst l).
Proof.
  revert lo. induction l as [|[c m] l IH]; intros lo H; cbn [map fst]; [constructor|]. cbn [ascending_from] in H.
  apply andb_prop in H as [H H3]. constructor; [|eapply IH; exact H3].
  intros Hin. apply in_map_iff in Hin as (q & E & Hq). pose proof (ascending_lt _ _ H3 q Hq). lia.
Qed.

Lemma locks_nodup o : NoDup (map fst (locks_of o)).
Proof. destruct (table o) as [H _]. eapply ascending_nodup; exact H. Qed.
Lemma locks_lt3 o q : In q (locks_of o) -> (fst q < 3)%nat.
Proof. destruct (table o) as [H _]. intros Hq. pose proof (ascending_lt _ _ H q Hq). lia. Qed.

Lemma InvL_init progs : InvL (ginit progs).
Proof.
  constructor; unfold ginit; cbn.
  - intros t th l H Hin. apply nth_error_In in H. apply in_map_iff in H as (p & E & _). subst th. contradiction.
  - intros t th l H Hin. apply nth_error_In in H. apply in_map_iff in H as (p & E & _). subst th. contradiction.
  - intros l t H. discriminate.
  - intros t th H. apply nth_error_In in H. apply in_map_iff in H as (p & E & _). subst th. cbn. constructor.
  - intros t th o inv todo held H E. apply nth_error_In in H. apply in_map_iff in H as (p & E' & _). subst th. discriminate.
Qed.

(** mutual exclusion, derived: a guard held by t (any mode) excludes a write guard of another thread on the same lock *)
Lemma excl s t t' th th' l m : InvL s -> nth_error (thr s) t = Some th -> nth_error (thr s) t' = Some th' ->
  In (l, m) (held_of (tpc th)) -> In (l, MW) (held_of (tpc th')) -> t = t'.
Proof.
  intros I H H' Hm HW. pose proof (l_W _ I _ _ _ H' HW) as W'. destruct m.
  - pose proof (l_R _ I _ _ _ H Hm) as R. rewrite (l_3 _ I _ _ W') in R. contradiction.
  - pose proof (l_W _ I _ _ _ H Hm) as W. congruence.
Qed.

Lemma NoDup_map_fst_mid (l1 : list lockreq) q l2 : NoDup (map fst (l1 ++ q :: l2)) -> NoDup (map fst (l1 ++ l2)) /\ ~ In (fst q) (map fst (l1 ++ l2)).
Proof.
  rewrite !map_app. cbn. intros H. split; [eapply NoDup_remove_1; exact H|].
  rewrite <- map_app. rewrite map_app. eapply NoDup_remove_2; exact H.
Qed.

Lemma step_InvL s t s' : InvL s -> cstep locks_of t s = Some s' -> InvL s'.
Proof.
  intros I H. unfold cstep in H. destruct (nth_error (thr s) t) as [th|] eqn:Hth; [|discriminate].
  destruct (tpc th) as [|o inv todo held|o inv lin r loc todo held|o inv lin r held] eqn:Hpc.
  - (* invoke *)
    destruct (prog th) as [|o rest] eqn:Hprog; [discriminate|]. inversion H; subst s'; clear H.
    constructor; cbn.
    + intros t' th' l H Hin. destruct (Nat.eq_dec t t') as [E|E].
      * subst t'. rewrite (nth_set_nth_eq _ _ _ _ Hth) in H. inversion H; subst th'. contradiction.
      * rewrite nth_set_nth_ne in H by exact E. eapply l_W; eauto.
    + intros t' th' l H Hin. destruct (Nat.eq_dec t t') as [E|E].
      * subst t'. rewrite (nth_set_nth_eq _ _ _ _ Hth) in H. inversion H; subst th'. contradiction.
      * rewrite nth_set_nth_ne in H by exact E. eapply l_R; eauto.
    + apply (l_3 _ I).
    + intros t' th' H. destruct (Nat.eq_dec t t') as [E|E].
      * subst t'. rewrite (nth_set_nth_eq _ _ _ _ Hth) in H. inversion H; subst th'. cbn. rewrite app_nil_r. apply locks_nodup.
      * rewrite nth_set_nth_ne in H by exact E. eapply l_nodup; eauto.
    + intros t' th' o' inv' todo' held' H E'. destruct (Nat.eq_dec t t') as [E|E].
      * subst t'. rewrite (nth_set_nth_eq _ _ _ _ Hth) in H. inversion H; subst th'. cbn in E'. inversion E'; subst. reflexivity.
      * rewrite nth_set_nth_ne in H by exact E. eapply l_acq; eauto.
  - destruct todo as [|[l m] todo].
    + (* compute *)
      inversion H; subst s'; clear H. constructor; cbn.
      * intros t' th' l H Hin. destruct (Nat.eq_dec t t') as [E|E].
        -- subst t'. rewrite (nth_set_nth_eq _ _ _ _ Hth) in H. inversion H; subst th'. cbn in Hin.
           eapply (l_W _ I); [exact Hth|rewrite Hpc; exact Hin].
        -- rewrite nth_set_nth_ne in H by exact E. eapply l_W; eauto.
      * intros t' th' l H Hin. destruct (Nat.eq_dec t t') as [E|E].
        -- subst t'. rewrite (nth_set_nth_eq _ _ _ _ Hth) in H. inversion H; subst th'. cbn in Hin.
           eapply (l_R _ I); [exact Hth|rewrite Hpc; exact Hin].
        -- rewrite nth_set_nth_ne in H by exact E. eapply l_R; eauto.
      * apply (l_3 _ I).
      * intros t' th' H. destruct (Nat.eq_dec t t') as [E|E].
        -- subst t'. rewrite (nth_set_nth_eq _ _ _ _ Hth) in H. inversion H; subst th'. cbn.
           pose proof (l_nodup _ I _ _ Hth) as N. rewrite Hpc in N. exact N.
        -- rewrite nth_set_nth_ne in H by exact E. eapply l_nodup; eauto.
      * intros t' th' o' inv' todo' held' H E'. destruct (Nat.eq_dec t t') as [E|E].
        -- subst t'. rewrite (nth_set_nth_eq _ _ _ _ Hth) in H. inversion H; subst th'. discriminate.
        -- rewrite nth_set_nth_ne in H by exact E. eapply l_acq; eauto.
    + (* acquire *)
      destruct (can_acq m (lk s l)) eqn:Hcan; [|discriminate]. inversion H; subst s'; clear H.
      pose proof (l_nodup _ I _ _ Hth) as N. rewrite Hpc in N. cbn [pending_of held_of] in N.
      assert (Nl : ~ In l (map fst held)).
      { change ((l, m) :: todo) with ([] ++ (l, m) :: todo) in N. rewrite <- app_assoc in N.
        cbn [app] in N. cbn [map] in N. inversion N as [|? ? Nin _]; subst. intros Hin. apply Nin. rewrite map_app. apply in_or_app. right. exact Hin. }
      constructor; cbn.
      * (* l_W *)
        intros t' th' l' H Hin. destruct (Nat.eq_dec t t') as [E|E].
        -- subst t'. rewrite (nth_set_nth_eq _ _ _ _ Hth) in H. inversion H; subst th'. cbn in Hin. destruct Hin as [E1|Hin].
           ++ inversion E1; subst l' m. rewrite upd_eq. reflexivity.
           ++ assert (l' <> l) by (intros ->; apply Nl; apply in_map_iff; exists (l, MW); split; [reflexivity|exact Hin]).
              rewrite upd_ne by assumption. eapply (l_W _ I); [exact Hth|rewrite Hpc; exact Hin].
        -- rewrite nth_set_nth_ne in H by exact E. pose proof (l_W _ I _ _ _ H Hin) as W.
           destruct (Nat.eq_dec l' l) as [El|El]; [|rewrite upd_ne by exact El; exact W].
           subst l'. exfalso. unfold can_acq in Hcan. rewrite W in Hcan. destruct m; discriminate.
      * (* l_R *)
        intros t' th' l' H Hin. destruct (Nat.eq_dec t t') as [E|E].
        -- subst t'. rewrite (nth_set_nth_eq _ _ _ _ Hth) in H. inversion H; subst th'. cbn in Hin. destruct Hin as [E1|Hin].
           ++ inversion E1; subst l' m. rewrite upd_eq. cbn. left; reflexivity.
           ++ assert (l' <> l) by (intros ->; apply Nl; apply in_map_iff; exists (l, MR); split; [reflexivity|exact Hin]).
              rewrite upd_ne by assumption. eapply (l_R _ I); [exact Hth|rewrite Hpc; exact Hin].
        -- rewrite nth_set_nth_ne in H by exact E. pose proof (l_R _ I _ _ _ H Hin) as R.
           destruct (Nat.eq_dec l' l) as [El|El]; [|rewrite upd_ne by exact El; exact R].
           subst l'. rewrite upd_eq. destruct m; cbn; [right; exact R|].
           exfalso. unfold can_acq in Hcan. destruct (wr (lk s l)); [discriminate|]. destruct (rd (lk s l)); [contradiction|discriminate].
      * (* l_3 *)
        intros l' t' W. destruct (Nat.eq_dec l' l) as [El|El]; [|rewrite upd_ne in * by exact El; eapply l_3; eauto].
        subst l'. rewrite upd_eq in *. unfold can_acq in Hcan. destruct m; cbn in *.
        -- destruct (wr (lk s l)); [discriminate|discriminate].
        -- destruct (wr (lk s l)); [discriminate|]. destruct (rd (lk s l)); [reflexivity|discriminate].
      * (* nodup *)
        intros t' th' H. destruct (Nat.eq_dec t t') as [E|E].
        -- subst t'. rewrite (nth_set_nth_eq _ _ _ _ Hth) in H. inversion H; subst th'. cbn [tpc pending_of held_of].
           rewrite map_app in *. cbn [map] in *. eapply Permutation_NoDup; [apply Permutation_middle|exact N].
        -- rewrite nth_set_nth_ne in H by exact E. eapply l_nodup; eauto.
      * (* acq *)
        intros t' th' o' inv' todo' held' H E'. destruct (Nat.eq_dec t t') as [E|E].
        -- subst t'. rewrite (nth_set_nth_eq _ _ _ _ Hth) in H. inversion H; subst th'. cbn in E'. inversion E'; subst.
           rewrite (l_acq _ I _ _ _ _ _ _ Hth Hpc). cbn [rev]. rewrite <- app_assoc. reflexivity.
        -- rewrite nth_set_nth_ne in H by exact E. eapply l_acq; eauto.
  - (* write back / end of write back: locks untouched, held unchanged *)
    assert (G : exists todo', s' = {| cells := cells s'; sigma := sigma s; lk := lk s;
                                      thr := set_nth t {| prog := prog th; tpc := match todo with [] => PRel o inv lin r held | _ :: td => PWrite o inv lin r loc td held end |} (thr s);
                                      now := now s + 1; linlog := linlog s; hist := hist s |} /\ todo' = todo).
    { exists todo. destruct todo; inversion H; subst s'; cbn; split; reflexivity. }
    destruct G as (_ & G & _). rewrite G. clear G H.
    assert (Hh : held_of (match todo with [] => PRel o inv lin r held | _ :: td => PWrite o inv lin r loc td held end) = held) by (destruct todo; reflexivity).
    assert (Hp : pending_of (match todo with [] => PRel o inv lin r held | _ :: td => PWrite o inv lin r loc td held end) = []) by (destruct todo; reflexivity).
    constructor; cbn.
    + intros t' th' l H Hin. destruct (Nat.eq_dec t t') as [E|E].
      * subst t'. rewrite (nth_set_nth_eq _ _ _ _ Hth) in H. inversion H; subst th'. cbn [tpc] in Hin. rewrite Hh in Hin.
        eapply (l_W _ I); [exact Hth|rewrite Hpc; exact Hin].
      * rewrite nth_set_nth_ne in H by exact E. eapply l_W; eauto.
    + intros t' th' l H Hin. destruct (Nat.eq_dec t t') as [E|E].
      * subst t'. rewrite (nth_set_nth_eq _ _ _ _ Hth) in H. inversion H; subst th'. cbn [tpc] in Hin. rewrite Hh in Hin.
        eapply (l_R _ I); [exact Hth|rewrite Hpc; exact Hin].
      * rewrite nth_set_nth_ne in H by exact E. eapply l_R; eauto.
    + apply (l_3 _ I).
    + intros t' th' H. destruct (Nat.eq_dec t t') as [E|E].
      * subst t'. rewrite (nth_set_nth_eq _ _ _ _ Hth) in H. inversion H; subst th'. cbn [tpc]. rewrite Hh, Hp.
        pose proof (l_nodup _ I _ _ Hth) as N. rewrite Hpc in N. exact N.
      * rewrite nth_set_nth_ne in H by exact E. eapply l_nodup; eauto.
    + intros t' th' o' inv' todo' held' H E'. destruct (Nat.eq_dec t t') as [E|E].
      * subst t'. rewrite (nth_set_nth_eq _ _ _ _ Hth) in H. inversion H; subst th'. cbn in E'. destruct todo; discriminate.
      * rewrite nth_set_nth_ne in H by exact E. eapply l_acq; eauto.
  - destruct held as [|[l m] held].
    + (* respond *)
      inversion H; subst s'; clear H. constructor; cbn.
      * intros t' th' l H Hin. destruct (Nat.eq_dec t t') as [E|E].
        -- subst t'. rewrite (nth_set_nth_eq _ _ _ _ Hth) in H. inversion H; subst th'. contradiction.
        -- rewrite nth_set_nth_ne in H by exact E. eapply l_W; eauto.
      * intros t' th' l H Hin. destruct (Nat.eq_dec t t') as [E|E].
        -- subst t'. rewrite (nth_set_nth_eq _ _ _ _ Hth) in H. inversion H; subst th'. contradiction.
        -- rewrite nth_set_nth_ne in H by exact E. eapply l_R; eauto.
      * apply (l_3 _ I).
      * intros t' th' H. destruct (Nat.eq_dec t t') as [E|E].
        -- subst t'. rewrite (nth_set_nth_eq _ _ _ _ Hth) in H. inversion H; subst th'. cbn. constructor.
        -- rewrite nth_set_nth_ne in H by exact E. eapply l_nodup; eauto.
      * intros t' th' o' inv' todo' held' H E'. destruct (Nat.eq_dec t t') as [E|E].
        -- subst t'. rewrite (nth_set_nth_eq _ _ _ _ Hth) in H. inversion H; subst th'. discriminate.
        -- rewrite nth_set_nth_ne in H by exact E. eapply l_acq; eauto.
    + (* release *)
      inversion H; subst s'; clear H.
      pose proof (l_nodup _ I _ _ Hth) as N. rewrite Hpc in N. cbn [pending_of held_of app map fst] in N.
      inversion N as [|? ? Nl N']; subst.
      assert (Hme : In (l, m) (held_of (tpc th))) by (rewrite Hpc; left; reflexivity).
      constructor; cbn.
      * intros t' th' l' H Hin. destruct (Nat.eq_dec t t') as [E|E].
        -- subst t'. rewrite (nth_set_nth_eq _ _ _ _ Hth) in H. inversion H; subst th'. cbn in Hin.
           assert (l' <> l) by (intros ->; apply Nl; apply in_map_iff; exists (l, MW); split; [reflexivity|exact Hin]).
           rewrite upd_ne by assumption. eapply (l_W _ I); [exact Hth|rewrite Hpc; right; exact Hin].
        -- rewrite nth_set_nth_ne in H by exact E. pose proof (l_W _ I _ _ _ H Hin) as W.
           destruct (Nat.eq_dec l' l) as [El|El]; [|rewrite upd_ne by exact El; exact W].
           subst l'. exfalso. apply E. eapply (excl s t t' th th' l m); eauto.
      * intros t' th' l' H Hin. destruct (Nat.eq_dec t t') as [E|E].
        -- subst t'. rewrite (nth_set_nth_eq _ _ _ _ Hth) in H. inversion H; subst th'. cbn in Hin.
           assert (l' <> l) by (intros ->; apply Nl; apply in_map_iff; exists (l, MR); split; [reflexivity|exact Hin]).
           rewrite upd_ne by assumption. eapply (l_R _ I); [exact Hth|rewrite Hpc; right; exact Hin].
        -- rewrite nth_set_nth_ne in H by exact E. pose proof (l_R _ I _ _ _ H Hin) as R.
           destruct (Nat.eq_dec l' l) as [El|El]; [|rewrite upd_ne by exact El; exact R].
           subst l'. rewrite upd_eq. destruct m; cbn; [|exact R]. apply in_remove1_ne; [congruence|exact R].
      * intros l' t' W. destruct (Nat.eq_dec l' l) as [El|El]; [|rewrite upd_ne in * by exact El; eapply l_3; eauto].
        subst l'. rewrite upd_eq in *. destruct m; cbn in *; [|discriminate].
        rewrite (l_3 _ I _ _ W). reflexivity.
      * intros t' th' H. destruct (Nat.eq_dec t t') as [E|E].
        -- subst t'. rewrite (nth_set_nth_eq _ _ _ _ Hth) in H. inversion H; subst th'. cbn. exact N'.
        -- rewrite nth_set_nth_ne in H by exact E. eapply l_nodup; eauto.
      * intros t' th' o' inv' todo' held' H E'. destruct (Nat.eq_dec t t') as [E|E].
        -- subst t'. rewrite (nth_set_nth_eq _ _ _ _ Hth) in H. inversion H; subst th'. discriminate.
        -- rewrite nth_set_nth_ne in H by exact E. eapply l_acq; eauto.
Qed.

End Locks.
