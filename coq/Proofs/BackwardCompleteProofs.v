(** C09 — bounded completeness of the depth-first search on Horn instances: conjunctive rules with positive
    comparisons against non-numeric literals over a single-valued instance (every field is given one value by the
    facts and all rules).  A goal that holds at level h <= max_depth of the bounded forward derivation is proved. *)
From RRE Require Import Base.Sx Base.Float Base.Num Model.ExprShape Model.Forward Model.ForwardSpec Model.Backward Proofs.BackwardProofs Proofs.BackwardClosureProofs.
From Coq Require Import Lia.
Open Scope Z_scope.

Definition ext (f g : facts) : Prop := forall k v, fget f k = Some v -> fget g k = Some v.
Lemma ext_refl f : ext f f. Proof. intros k v H. exact H. Qed.
Lemma ext_trans f g h : ext f g -> ext g h -> ext f h. Proof. intros A B k v H. apply B, A, H. Qed.

Fixpoint gdepth (g : bgroup) : nat := match g with BSingle _ => O | BAnd a b | BOr a b => S (Nat.max (gdepth a) (gdepth b)) end.
Fixpoint conj (g : bgroup) : bool := match g with BSingle _ => true | BAnd a b => conj a && conj b | BOr _ _ => false end.
Definition nonnum (v : value) : bool := match v with VInt _ | VNum _ => false | _ => true end.
Fixpoint gnonnum (g : bgroup) : bool := match g with BSingle c => nonnum (b_val c) | BAnd a b | BOr a b => gnonnum a && gnonnum b end.

Lemma str_starts_app a b : str_starts (a ++ b) a = true.
Proof. induction a as [|x a IH]; cbn [app str_starts]; [destruct b; reflexivity|]. rewrite Z.eqb_refl. exact IH. Qed.
Lemma str_contains_app a b : str_contains (a ++ b) a = true.
Proof. destruct (a ++ b) eqn:E; cbn [str_contains]; rewrite <- E, str_starts_app; reflexivity. Qed.

Lemma fget_in f k v : fget f k = Some v -> In (k, v) f.
Proof. induction f as [|[k' v'] f IH]; cbn [fget]; [discriminate|]. destruct (str_eqb k' k) eqn:E; [intros H; inversion H; subst; apply str_eqb_eq in E; subst; left; reflexivity|intros H; right; apply IH; exact H]. Qed.

Lemma bholds_ext f g c : flat f -> flat g -> ext f g -> positive_op (b_op c) = true -> bholds f c = true -> bholds g c = true.
Proof.
  intros Ff Fg E Hp H. unfold bholds in *. rewrite (flat_blookup f _ Ff) in H. rewrite (flat_blookup g _ Fg).
  destruct (fget f (b_field c)) as [v|] eqn:G; [rewrite (E _ _ G); exact H|]. destruct (b_op c); cbn in Hp, H; discriminate.
Qed.
Lemma gholds_ext f g : flat f -> flat g -> ext f g -> forall c, positive c = true -> gholds f c = true -> gholds g c = true.
Proof.
  intros Ff Fg E. induction c as [c|a IHa b IHb|a IHa b IHb]; cbn [positive gholds]; intros Hp H.
  - exact (bholds_ext f g c Ff Fg E Hp H).
  - apply andb_true_iff in Hp, H. destruct Hp, H. apply andb_true_iff. split; auto.
  - apply andb_true_iff in Hp. destruct Hp. apply orb_true_iff in H. apply orb_true_iff. destruct H; [left|right]; auto.
Qed.
Lemma goal_holds_nonnum f g : nonnum (b_val g) = true -> goal_holds f g = bholds f g.
Proof. unfold goal_holds. destruct (b_val g); try reflexivity; discriminate. Qed.
Lemma subgoal_nonnum c : nonnum (b_val c) = true -> subgoal_of c = c.
Proof. unfold subgoal_of, reparse_val. destruct c as [k o v]. cbn. destruct v; try reflexivity; discriminate. Qed.

(** literals of rule conditions: an integer literal survives the code's re-parsing through f64 (a decidable condition on the
    literal) and is compared with an integer-valued field; a float literal is compared with a field that is not integer-valued *)
Definition lit_ok (D : atoms) (c : bcond) : Prop :=
  match b_val c with
  | VInt z => is_whole_small (f_of_Z z) = true /\ f_to_i64 (f_of_Z z) = z /\ (forall v, In (b_field c, v) D -> exists z', v = VInt z')
  | VNum _ => forall v, In (b_field c, v) D -> forall z', v <> VInt z'
  | _ => True end.
Fixpoint glit_ok (D : atoms) (g : bgroup) : Prop :=
  match g with BSingle c => lit_ok D c | BAnd a b | BOr a b => glit_ok D a /\ glit_ok D b end.

Lemma sub_equiv D g c : covers D g -> lit_ok D c -> goal_holds g (subgoal_of c) = bholds g c.
Proof.
  intros [Hf Hc] Hl. destruct c as [k o v]. unfold lit_ok in Hl. cbn [b_val b_field] in Hl.
  unfold goal_holds, subgoal_of, reparse_val. cbn [b_val b_field b_op].
  destruct v as [s|x|z|b|l|ob| |e]; try reflexivity.
  - (* float literal *)
    destruct (blookup g k) as [w|] eqn:B; [|reflexivity]. destruct w as [ws|wx|wz|wb|wl|wo| |we]; try reflexivity.
    exfalso. rewrite (flat_blookup g k Hf) in B. exact (Hl (VInt wz) (Hc k _ B) wz eq_refl).
  - (* integer literal *)
    destruct Hl as (H1 & H2 & H3). destruct (blookup g k) as [w|] eqn:B.
    + rewrite (flat_blookup g k Hf) in B. destruct (H3 w (Hc k w B)) as [z' ->]. rewrite H1, H2. reflexivity.
    + unfold bholds. cbn [b_field b_op b_val]. rewrite B. reflexivity.
Qed.

Section Complete.
Variable rules : list brule.
Variable max_depth : Z.
Variable f0 : facts.
Let D : atoms := f0 ++ flat_map br_sets rules.
Hypothesis Hflat0 : flat f0.
Hypothesis Hhorn : horn rules.
Hypothesis Hsv : forall k v v', In (k, v) D -> In (k, v') D -> v = v'.

Lemma D_closed : closedD rules D.
Proof. intros r Hr _ kv Hkv. unfold D. apply in_or_app. right. apply in_flat_map. exists r. split; assumption. Qed.
Lemma D_covers0 : covers D f0.
Proof. split; [exact Hflat0|]. intros k v H. unfold D. apply in_or_app. left. apply fget_in. exact H. Qed.

Lemma sets_in_D r kv : In r rules -> In kv (br_sets r) -> In kv D.
Proof. intros Hr Hk. unfold D. apply in_or_app. right. apply in_flat_map. exists r. split; assumption. Qed.

Lemma fold_fset_props sets : forall g, covers D g -> (forall kv, In kv sets -> In kv D /\ scalar (snd kv)) ->
  let g' := fold_left (fun f kv => fset f (fst kv) (snd kv)) sets g in
  covers D g' /\ ext g g' /\ forall k v, In (k, v) sets -> fget g' k = Some v.
Proof.
  induction sets as [|[k0 v0] sets IH]; intros g Hc Hs; cbn [fold_left]; [split; [exact Hc|split; [apply ext_refl|intros k v []]]|].
  destruct (Hs (k0, v0) (or_introl eq_refl)) as [HD Hsc]. cbn [fst snd] in *.
  assert (Hc1 : covers D (fset g k0 v0)).
  { destruct Hc as [Hf Hc]. split; [apply flat_fset; assumption|]. intros k v H. rewrite fget_fset in H. destruct (str_eqb k0 k) eqn:E; [|apply Hc; exact H].
    apply str_eqb_eq in E. subst k. inversion H; subst. exact HD. }
  assert (He1 : ext g (fset g k0 v0)).
  { intros k v H. rewrite fget_fset. destruct (str_eqb k0 k) eqn:E; [|exact H]. apply str_eqb_eq in E. subst k. f_equal. apply (Hsv k0); [exact HD|apply (proj2 Hc); exact H]. }
  destruct (IH (fset g k0 v0) Hc1 (fun kv H => Hs kv (or_intror H))) as (A & B & C). cbn zeta in *.
  split; [exact A|]. split; [eapply ext_trans; eassumption|]. intros k v [Hkv|Hkv]; [|apply C; exact Hkv].
  inversion Hkv; subst. apply B. rewrite fget_fset, str_eqb_refl. reflexivity.
Qed.

Lemma bexec_props g r : In r rules -> covers D g ->
  covers D (bexec g r) /\ ext g (bexec g r) /\ forall k v, In (k, v) (br_sets r) -> fget (bexec g r) k = Some v.
Proof.
  intros Hr Hc. unfold bexec. apply fold_fset_props; [exact Hc|]. intros kv Hk. split; [apply (sets_in_D r); assumption|apply (proj2 (Hhorn r Hr)); exact Hk].
Qed.

(** whatever the search returns extends what it was given *)
Lemma try_cands_ext provef goal depth f :
  (forall g d f1 b f2, covers D f1 -> provef g d f1 = (b, f2) -> covers D f2 /\ ext f1 f2) ->
  forall cs, (forall r, In r cs -> In r rules) -> covers D f -> forall b f', try_cands provef goal depth f cs = (b, f') -> ext f f'.
Proof.
  intros Hp. induction cs as [|r rest IH]; intros Hsub Hc b f' H; cbn [try_cands] in H; [inversion H; subst; apply ext_refl|].
  assert (Hr : In r rules) by (apply Hsub; left; reflexivity).
  assert (Hrest : forall r0, In r0 rest -> In r0 rules) by (intros r0 H0; apply Hsub; right; exact H0).
  unfold try_exec in H. destruct (gholds f (br_cond r)) eqn:G1.
  - destruct (goal_holds (bexec f r) goal); [inversion H; subst; apply (bexec_props f r Hr Hc)|eapply IH; eassumption].
  - destruct (provef (br_cond r) (depth + 1) f) as [[|] f2] eqn:P; [|eapply IH; eassumption].
    destruct (Hp _ _ _ _ _ Hc P) as [Hc2 He2].
    destruct (gholds f2 (br_cond r)) eqn:G2; [|eapply IH; eassumption].
    destruct (goal_holds (bexec f2 r) goal); [|eapply IH; eassumption].
    inversion H; subst. eapply ext_trans; [exact He2|apply (bexec_props f2 r Hr Hc2)].
Qed.

Lemma search_prove_ext : forall fuel,
  (forall goal cands depth f b f', (forall r, In r cands -> In r rules) -> covers D f ->
     search rules max_depth fuel goal cands depth f = (b, f') -> ext f f')
  /\ (forall g depth f b f', covers D f -> prove rules max_depth fuel g depth f = (b, f') -> ext f f').
Proof.
  induction fuel as [|fu [IHs IHp]]; split.
  - intros goal cands depth f b f' _ Hc H. inversion H; subst. apply ext_refl.
  - intros g depth f b f' Hc H. inversion H; subst. apply ext_refl.
  - intros goal cands depth f b f' Hsub Hc H. rewrite search_S in H.
    destruct (max_depth <? depth); [inversion H; subst; apply ext_refl|].
    destruct (goal_holds f goal); [inversion H; subst; apply ext_refl|].
    eapply try_cands_ext; [|exact Hsub|exact Hc|exact H].
    intros g d f1 b0 f2 Hc1 P. split; [eapply (proj2 (search_prove_covers rules max_depth D Hhorn D_closed fu)); eassumption|eapply IHp; eassumption].
  - intros g depth f b f' Hc H. change (prove rules max_depth (S fu) g depth f) with
      (match g with
       | BSingle c => if bholds f c then (true, f) else search rules max_depth fu (subgoal_of c) (sub_candidates rules c) depth f
       | BAnd a b0 => match prove rules max_depth fu a depth f with (true, f1) => prove rules max_depth fu b0 depth f1 | (false, f1) => (false, f1) end
       | BOr a b0 => match prove rules max_depth fu a depth f with (true, f1) => (true, f1) | (false, f1) => prove rules max_depth fu b0 depth f1 end
       end) in H.
    pose proof (proj2 (search_prove_covers rules max_depth D Hhorn D_closed fu)) as Hcov.
    destruct g as [c|a b0|a b0].
    + destruct (bholds f c); [inversion H; subst; apply ext_refl|]. eapply IHs; [|exact Hc|exact H].
      intros r Hr. unfold sub_candidates in Hr. eapply filter_sub. exact Hr.
    + destruct (prove rules max_depth fu a depth f) as [[|] f1] eqn:P1.
      * eapply ext_trans; [eapply IHp; eassumption|eapply IHp; [eapply Hcov; eassumption|exact H]].
      * inversion H; subst. eapply IHp; eassumption.
    + destruct (prove rules max_depth fu a depth f) as [[|] f1] eqn:P1.
      * inversion H; subst. eapply IHp; eassumption.
      * eapply ext_trans; [eapply IHp; eassumption|eapply IHp; [eapply Hcov; eassumption|exact H]].
Qed.

(** * the bounded forward derivation *)
Lemma fold_fset_from k v : forall sets a, fget (fold_left (fun f kv => fset f (fst kv) (snd kv)) sets a) k = Some v -> In (k, v) sets \/ fget a k = Some v.
Proof.
  induction sets as [|[k1 v1] sets IH]; intros a H; cbn [fold_left] in H; [right; exact H|]. cbn [fst snd] in H.
  destruct (IH _ H) as [H2|H2]; [left; right; exact H2|]. rewrite fget_fset in H2. destruct (str_eqb k1 k) eqn:E1; [|right; exact H2].
  apply str_eqb_eq in E1. subst k1. inversion H2; subst. left. left. reflexivity.
Qed.

Lemma fold_level_props g : covers D g -> forall rs acc, (forall r, In r rs -> In r rules) -> covers D acc ->
  let acc' := fold_left (fun acc r => if gholds g (br_cond r) then bexec acc r else acc) rs acc in
  covers D acc' /\ ext acc acc'
  /\ (forall k v, fget acc' k = Some v -> fget acc k = Some v \/ exists r, In r rs /\ gholds g (br_cond r) = true /\ In (k, v) (br_sets r)).
Proof.
  intros Hg. induction rs as [|r rs IH]; intros acc Hsub Hc; cbn [fold_left]; [split; [exact Hc|split; [apply ext_refl|intros k v H; left; exact H]]|].
  assert (Hr : In r rules) by (apply Hsub; left; reflexivity).
  destruct (gholds g (br_cond r)) eqn:G.
  - destruct (bexec_props acc r Hr Hc) as (A & B & C0).
    destruct (IH (bexec acc r) (fun r0 H0 => Hsub r0 (or_intror H0)) A) as (A' & B' & C'). cbn zeta in *.
    split; [exact A'|]. split; [eapply ext_trans; eassumption|]. intros k v H. destruct (C' k v H) as [H1|[r0 [R1 [R2 R3]]]]; [|right; exists r0; split; [right; exact R1|split; assumption]].
    unfold bexec in H1. destruct (fold_fset_from k v _ _ H1) as [H2|H2]; [right; exists r; split; [left; reflexivity|split; assumption]|left; exact H2].
  - destruct (IH acc (fun r0 H0 => Hsub r0 (or_intror H0)) Hc) as (A' & B' & C'). cbn zeta in *.
    split; [exact A'|]. split; [exact B'|]. intros k v H. destruct (C' k v H) as [H1|[r0 [R1 [R2 R3]]]]; [left; exact H1|right; exists r0; split; [right; exact R1|split; assumption]].
Qed.

Lemma level_props : forall h, covers D (level h rules f0) /\ ext f0 (level h rules f0).
Proof.
  induction h as [|h [IHc IHe]]; cbn [level]; [split; [apply D_covers0|apply ext_refl]|].
  destruct (fold_level_props (level h rules f0) IHc rules (level h rules f0) (fun r H => H) IHc) as (A & B & _). cbn zeta in *.
  split; [exact A|eapply ext_trans; eassumption].
Qed.
Lemma level_step k v h : fget (level (S h) rules f0) k = Some v ->
  fget (level h rules f0) k = Some v \/ exists r, In r rules /\ gholds (level h rules f0) (br_cond r) = true /\ In (k, v) (br_sets r).
Proof.
  cbn [level]. destruct (level_props h) as [IHc _].
  destruct (fold_level_props (level h rules f0) IHc rules (level h rules f0) (fun r H => H) IHc) as (_ & _ & C). cbn zeta in C. apply C.
Qed.

Lemma prove_S_single fu c depth f :
  prove rules max_depth (S fu) (BSingle c) depth f = if bholds f c then (true, f) else search rules max_depth fu (subgoal_of c) (sub_candidates rules c) depth f.
Proof. reflexivity. Qed.
Lemma prove_S_and fu a b depth f :
  prove rules max_depth (S fu) (BAnd a b) depth f = match prove rules max_depth fu a depth f with (true, f1) => prove rules max_depth fu b depth f1 | (false, f1) => (false, f1) end.
Proof. reflexivity. Qed.

(** * completeness *)
Hypothesis Hconj : forall r, In r rules -> conj (br_cond r) = true.
Hypothesis Hlit : forall r, In r rules -> glit_ok D (br_cond r).
Hypothesis Hgd : forall r, In r rules -> (gdepth (br_cond r) <= 62)%nat.

Definition F (h : nat) : nat := (64 * (h + 1))%nat.
Definition cands_ok (goal : bcond) (cs : list brule) : Prop :=
  (forall r, In r cs -> In r rules) /\ forall r v, In r rules -> In (b_field goal, v) (br_sets r) -> In r cs.

Lemma sub_candidates_ok c : cands_ok c (sub_candidates rules c).
Proof.
  split; [intros r Hr; unfold sub_candidates in Hr; eapply filter_sub; exact Hr|].
  intros r v Hr Hk. unfold sub_candidates. apply filter_In. split; [exact Hr|]. unfold sets_field_in. apply existsb_exists. exists (b_field c, v). split; [exact Hk|].
  cbn [fst]. unfold pattern_of. apply str_contains_app.
Qed.

Lemma root_candidates_ok goal : cands_ok goal (root_candidates rules goal).
Proof.
  unfold root_candidates. set (p := fun r => _ || _).
  assert (Hd : forall r v, In r rules -> In (b_field goal, v) (br_sets r) -> p r = true).
  { intros r v Hr Hk. unfold p. apply orb_true_iff. left. apply existsb_exists. exists (b_field goal, v). split; [exact Hk|apply str_eqb_refl]. }
  destruct (filter p rules) as [|r0 l] eqn:Ef.
  - split; [intros r Hr; eapply filter_sub; exact Hr|]. intros r v Hr Hk. exfalso.
    assert (In r (filter p rules)) by (apply filter_In; split; [exact Hr|eapply Hd; eassumption]). rewrite Ef in H. destruct H.
  - rewrite <- Ef. split; [intros r Hr; eapply filter_sub; exact Hr|]. intros r v Hr Hk. apply filter_In. split; [exact Hr|eapply Hd; eassumption].
Qed.

(** the statement for level h, as a predicate on h *)
Definition CompleteAt (h : nat) : Prop :=
  forall goal, positive_op (b_op goal) = true -> goal_holds (level h rules f0) goal = true ->
  forall g depth fuel cands, covers D g -> ext f0 g -> depth + Z.of_nat h <= max_depth -> (F h <= fuel)%nat -> cands_ok goal cands ->
  exists g', search rules max_depth fuel goal cands depth g = (true, g').

Lemma goal_holds_ext f g goal : flat f -> flat g -> ext f g -> positive_op (b_op goal) = true -> goal_holds f goal = true -> goal_holds g goal = true.
Proof.
  intros Ff Fg E Hp H. rewrite goal_holds_sat in *. rewrite (flat_blookup f _ Ff) in H. rewrite (flat_blookup g _ Fg).
  destruct (fget f (b_field goal)) as [v|] eqn:G; [rewrite (E _ _ G); exact H|].
  unfold goal_sat in H. destruct (b_val goal); cbn in H; destruct (b_op goal); cbn in Hp; discriminate.
Qed.

(** proving the (conjunctive) conditions of a rule whose conditions hold at level h *)
Lemma prove_complete h : CompleteAt h -> forall c, conj c = true -> positive c = true -> glit_ok D c ->
  gholds (level h rules f0) c = true ->
  forall g depth fuel, covers D g -> ext f0 g -> depth + Z.of_nat h <= max_depth -> (gdepth c + 1 + F h <= fuel)%nat ->
  exists g2, prove rules max_depth fuel c depth g = (true, g2) /\ gholds g2 c = true.
Proof.
  intros IH. induction c as [c|a IHa b IHb|a IHa b IHb]; cbn [conj positive glit_ok gholds gdepth]; intros Hcj Hp Hn Hh g depth fuel Hc He Hd Hf.
  - destruct fuel as [|fu]; [unfold F in Hf; lia|]. rewrite prove_S_single.
    destruct (bholds g c) eqn:Eb; [exists g; split; [reflexivity|exact Eb]|].
    assert (Hp' : positive_op (b_op (subgoal_of c)) = true) by exact Hp.
    assert (Hg' : goal_holds (level h rules f0) (subgoal_of c) = true) by (rewrite (sub_equiv D _ c (proj1 (level_props h)) Hn); exact Hh).
    assert (Hok : cands_ok (subgoal_of c) (sub_candidates rules c)) by (destruct (sub_candidates_ok c) as [A B]; split; [exact A|exact B]).
    assert (Hfu : (F h <= fu)%nat) by lia.
    destruct (IH (subgoal_of c) Hp' Hg' g depth fu (sub_candidates rules c) Hc He Hd Hfu Hok) as [g2 Hs].
    exists g2. split; [exact Hs|].
    pose proof (proj1 (search_prove_covers rules max_depth D Hhorn D_closed fu) (subgoal_of c) (sub_candidates rules c) depth g true g2 (proj1 (sub_candidates_ok c)) Hc Hs) as Hc2.
    rewrite <- (sub_equiv D g2 c Hc2 Hn). eapply search_sound. exact Hs.
  - apply andb_true_iff in Hcj, Hp, Hh. destruct Hcj as [Ca Cb], Hp as [Pa Pb], Hn as [Na Nb], Hh as [Ha Hb].
    destruct fuel as [|fu]; [lia|]. rewrite prove_S_and.
    destruct (IHa Ca Pa Na Ha g depth fu Hc He Hd) as [g1 [P1 G1]]; [lia|]. rewrite P1.
    pose proof (proj2 (search_prove_covers rules max_depth D Hhorn D_closed fu) a depth g true g1 Hc P1) as Hc1.
    pose proof (proj2 (search_prove_ext fu) a depth g true g1 Hc P1) as He1.
    destruct (IHb Cb Pb Nb Hb g1 depth fu Hc1 (ext_trans _ _ _ He He1) Hd) as [g2 [P2 G2]]; [lia|].
    exists g2. split; [exact P2|]. apply andb_true_iff. split; [|exact G2].
    pose proof (proj2 (search_prove_covers rules max_depth D Hhorn D_closed fu) b depth g1 true g2 Hc1 P2) as Hc2.
    pose proof (proj2 (search_prove_ext fu) b depth g1 true g2 Hc1 P2) as He2.
    eapply gholds_ext; [apply Hc1|apply Hc2|exact He2|exact Pa|exact G1].
  - discriminate.
Qed.

Lemma try_cands_complete h fu goal depth r v : CompleteAt h ->
  In r rules -> gholds (level h rules f0) (br_cond r) = true -> In (b_field goal, v) (br_sets r) -> goal_sat (Some v) goal = true ->
  depth + 1 + Z.of_nat h <= max_depth -> (63 + F h <= fu)%nat ->
  forall cs, (forall c, In c cs -> In c rules) -> In r cs -> forall g, covers D g -> ext f0 g ->
  exists g', try_cands (prove rules max_depth fu) goal depth g cs = (true, g').
Proof.
  intros IH Hr Hh Hk Hsat Hd Hf.
  assert (Hexec : forall g1, covers D g1 -> goal_holds (bexec g1 r) goal = true).
  { intros g1 Hc1. destruct (bexec_props g1 r Hr Hc1) as (A & _ & C). rewrite goal_holds_sat, (flat_blookup _ _ (proj1 A)), (C _ _ Hk). exact Hsat. }
  induction cs as [|c rest IHcs]; intros Hsub Hin g Hc He; [destruct Hin|]. cbn [try_cands].
  assert (Hrest : forall c0, In c0 rest -> In c0 rules) by (intros c0 H0; apply Hsub; right; exact H0).
  destruct Hin as [->|Hin].
  - (* the rule that works *)
    unfold try_exec. destruct (gholds g (br_cond r)) eqn:G1.
    + rewrite (Hexec g Hc). eauto.
    + destruct (prove_complete h IH (br_cond r) (Hconj r Hr) (proj1 (Hhorn r Hr)) (Hlit r Hr) Hh g (depth + 1) fu Hc He) as [g2 [P2 G2]]; [lia|pose proof (Hgd r Hr); lia|].
      rewrite P2, G2.
      pose proof (proj2 (search_prove_covers rules max_depth D Hhorn D_closed fu) _ _ _ _ _ Hc P2) as Hc2.
      rewrite (Hexec g2 Hc2). eauto.
  - (* another candidate first: either it succeeds, or the facts are handed on unchanged *)
    destruct (try_exec g c) as [f1|] eqn:E1.
    + destruct (goal_holds f1 goal); [eauto|apply IHcs; assumption].
    + destruct (prove rules max_depth fu (br_cond c) (depth + 1) g) as [[|] f2] eqn:P; [|apply IHcs; assumption].
      destruct (try_exec f2 c) as [f3|]; [|apply IHcs; assumption].
      destruct (goal_holds f3 goal); [eauto|apply IHcs; assumption].
Qed.

Theorem complete_at : forall h, CompleteAt h.
Proof.
  induction h as [|h IH]; intros goal Hp Hg g depth fuel cands Hc He Hd Hf Hok.
  - cbn [level] in Hg. destruct fuel as [|fu]; [unfold F in Hf; lia|]. rewrite search_S.
    replace (max_depth <? depth) with false by (symmetry; apply Z.ltb_ge; lia).
    rewrite (goal_holds_ext f0 g goal Hflat0 (proj1 Hc) He Hp Hg). eauto.
  - destruct (level_props (S h)) as [HcL _]. pose proof Hg as Hg'. rewrite goal_holds_sat, (flat_blookup _ _ (proj1 HcL)) in Hg'.
    destruct (fget (level (S h) rules f0) (b_field goal)) as [v|] eqn:Ek.
    2:{ unfold goal_sat in Hg'. destruct (b_val goal); cbn in Hg'; destruct (b_op goal); cbn in Hp; discriminate. }
    destruct (level_step _ _ _ Ek) as [Eh|[r [Hr [Hh Hk]]]].
    + (* already true one level below *)
      apply (IH goal Hp); try assumption; [|lia|unfold F in *; lia].
      destruct (level_props h) as [HcL' _]. rewrite goal_holds_sat, (flat_blookup _ _ (proj1 HcL')), Eh. exact Hg'.
    + destruct fuel as [|fu]; [unfold F in Hf; lia|]. rewrite search_S.
      replace (max_depth <? depth) with false by (symmetry; apply Z.ltb_ge; lia).
      destruct (goal_holds g goal); [eauto|].
      apply (try_cands_complete h fu goal depth r v IH Hr Hh Hk Hg'); [lia|unfold F in *; lia|apply Hok|apply (proj2 Hok r v Hr Hk)|exact Hc|exact He].
Qed.

(** BOUNDED COMPLETENESS of the depth-first search *)
Theorem dfs_bounded_complete goal h : positive_op (b_op goal) = true -> Z.of_nat h <= max_depth ->
  goal_holds (level h rules f0) goal = true -> fst (dfs rules max_depth goal f0) = true.
Proof.
  intros Hp Hh Hg. unfold dfs.
  destruct (complete_at h goal Hp Hg f0 0 (fuel_for rules max_depth) (root_candidates rules goal) D_covers0 (ext_refl f0)) as [g' Hs]; [lia| |apply root_candidates_ok|rewrite Hs; reflexivity].
  unfold fuel_for, F. assert (Z.to_nat (max_depth + 2) >= h + 2)%nat by lia. lia.
Qed.
End Complete.
