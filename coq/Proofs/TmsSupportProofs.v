(** C08 — the support invariant: after any well-formed history a fact that was not itself the target of a
    retraction is present exactly when one of its justifications is explicit or has all its premises present.
    Proofs: (1) the cascade computes a set closed under "loss of support" (Post), (2) its fuel never runs out,
    (3) the engine invariant Good is kept by every operation. *)
From RRE Require Import Base.Sx Model.Tms Proofs.TmsProofs.
From Coq Require Import Lia.
Open Scope N_scope.

(** * sets of handles *)
Lemma memN_In x l : memN x l = true <-> In x l.
Proof.
  induction l as [|y l IH]; cbn [memN In]; [split; [discriminate|intros []]|].
  rewrite orb_true_iff, IH, N.eqb_eq. split; intros [H|H]; auto.
Qed.
Lemma memN_app x a b : memN x (a ++ b) = memN x a || memN x b.
Proof. induction a as [|y a IH]; cbn [app memN]; [reflexivity|]. rewrite IH, orb_assoc. reflexivity. Qed.
Lemma memN_addN x y l : memN x (addN y l) = memN x l || N.eqb x y.
Proof. unfold addN. destruct (memN y l) eqn:E.
  - destruct (N.eqb x y) eqn:E2; [apply N.eqb_eq in E2; subst; rewrite E; reflexivity|rewrite orb_false_r; reflexivity].
  - rewrite memN_app. cbn [memN]. rewrite orb_false_r. reflexivity.
Qed.

Definition sub (R R' : list N) : Prop := forall h, memN h R = true -> memN h R' = true.
Lemma sub_refl R : sub R R. Proof. intros h H. exact H. Qed.
Lemma sub_trans R R' R'' : sub R R' -> sub R' R'' -> sub R R''. Proof. intros A B h H. apply B, A, H. Qed.
Lemma sub_addN x R : sub R (addN x R). Proof. intros h H. rewrite memN_addN, H. reflexivity. Qed.

(** * validity is antitone in the retracted set *)
Lemma jvalid_anti R R' j : sub R R' -> jvalid R' j = true -> jvalid R j = true.
Proof.
  intros S H. unfold jvalid in *. destruct (jexplicit j); [reflexivity|]. cbn [orb] in *.
  apply negb_true_iff in H. apply negb_true_iff. destruct (existsb (fun p => memN p R) (jprems j)) eqn:E; [|reflexivity].
  apply existsb_exists in E. destruct E as [p [Hp Hm]].
  assert (existsb (fun p => memN p R') (jprems j) = true) by (apply existsb_exists; exists p; split; [exact Hp|apply S; exact Hm]). congruence.
Qed.
Lemma hv_anti js R R' d : sub R R' -> has_valid js R' d = true -> has_valid js R d = true.
Proof.
  intros S H. unfold has_valid in *. apply existsb_exists in H. destruct H as [j [Hj Hv]]. apply existsb_exists. exists j. split; [exact Hj|].
  apply andb_true_iff in Hv. destruct Hv as [H1 H2]. rewrite H1. cbn [andb]. eapply jvalid_anti; eauto.
Qed.
Lemma hv_anti_false js R R' d : sub R R' -> has_valid js R d = false -> has_valid js R' d = false.
Proof. intros S H. destruct (has_valid js R' d) eqn:E; [|reflexivity]. rewrite (hv_anti js R R' d S E) in H. discriminate. Qed.

Lemma dependents_in js j p : In j js -> In p (jprems j) -> In (jconcl j) (dependents js p).
Proof.
  intros Hj Hp. unfold dependents. apply in_flat_map. exists j. split; [exact Hj|].
  apply in_map_iff. exists p. split; [reflexivity|]. apply filter_In. split; [exact Hp|apply N.eqb_refl].
Qed.
Lemma dependents_concl js p d : In d (dependents js p) -> In d (map jconcl js).
Proof.
  unfold dependents. intros H. apply in_flat_map in H. destruct H as [j [Hj Hd]]. apply in_map_iff in Hd. destruct Hd as [q [<- _]].
  apply in_map. exact Hj.
Qed.

(** * what a finished cascade guarantees *)
Definition Post (js : list just) (R R' : list N) : Prop :=
  sub R R' /\ forall p, memN p R' = true -> memN p R = false ->
              forall d, In d (dependents js p) -> has_valid js R' d = true \/ memN d R' = true.

Lemma Post_refl js R : Post js R R.
Proof. split; [apply sub_refl|]. intros p H1 H2. congruence. Qed.

Lemma Post_stable js R R' d : Post js R R' -> has_valid js R d = true -> has_valid js R' d = true \/ memN d R' = true.
Proof.
  intros [S P] H. unfold has_valid in H. apply existsb_exists in H. destruct H as [j [Hj Hv]].
  apply andb_true_iff in Hv. destruct Hv as [H1 H2]. apply N.eqb_eq in H1.
  destruct (jvalid R' j) eqn:E.
  - left. unfold has_valid. apply existsb_exists. exists j. split; [exact Hj|]. rewrite E. subst d. rewrite N.eqb_refl. reflexivity.
  - unfold jvalid in E, H2. destruct (jexplicit j); [discriminate|]. cbn [orb] in *.
    apply negb_false_iff in E. apply existsb_exists in E. destruct E as [p [Hp Hm]].
    apply negb_true_iff in H2. assert (Hn : memN p R = false).
    { destruct (memN p R) eqn:Em; [|reflexivity]. assert (existsb (fun p => memN p R) (jprems j) = true) by (apply existsb_exists; exists p; split; assumption). congruence. }
    subst d. apply (P p Hm Hn). apply dependents_in; assumption.
Qed.

Lemma Post_trans js R R' R'' : Post js R R' -> Post js R' R'' -> Post js R R''.
Proof.
  intros A B. split; [eapply sub_trans; [apply A|apply B]|]. intros p H2 H0 d Hd.
  destruct (memN p R') eqn:E1.
  - destruct (proj2 A p E1 H0 d Hd) as [Hv|Hm]; [exact (Post_stable js R' R'' d B Hv)|right; apply (proj1 B); exact Hm].
  - exact (proj2 B p H2 E1 d Hd).
Qed.

Lemma loop_oof_true f js : forall ds t acc, exists t' l, loop_of f js ds t acc true = (t', l, true).
Proof.
  induction ds as [|d r IH]; intros t acc; cbn [loop_of]; [eauto|].
  destruct (has_valid js (t_ret t) d); [apply IH|]. destruct (memN d (t_ret t)); [apply IH|].
  destruct (cascade f js d t) as [[t2 l2] o2]. cbn [orb]. apply IH.
Qed.

Lemma cascade_post : forall f js x t t' l,
  cascade f js x t = (t', l, false) -> Post js (t_ret t) (t_ret t') /\ memN x (t_ret t') = true.
Proof.
  induction f as [|f IH]; intros js x t t' l H; [cbn in H; discriminate|].
  rewrite cascade_S in H.
  set (t1 := {| t_ret := addN x (t_ret t); t_log := remN x (t_log t); t_exp := remN x (t_exp t) |}) in *.
  assert (G : forall ds t0 acc oof t2 l2, loop_of f js ds t0 acc oof = (t2, l2, false) ->
              Post js (t_ret t0) (t_ret t2) /\ forall d, In d ds -> has_valid js (t_ret t2) d = true \/ memN d (t_ret t2) = true).
  { induction ds as [|d r IHds]; intros t0 acc oof t2 l2 HL.
    - cbn in HL. inversion HL; subst. split; [apply Post_refl|intros d []].
    - cbn [loop_of] in HL. destruct (has_valid js (t_ret t0) d) eqn:Ev.
      + destruct (IHds _ _ _ _ _ HL) as [P Q]. split; [exact P|]. intros d0 [<-|Hd0]; [exact (Post_stable _ _ _ _ P Ev)|auto].
      + destruct (memN d (t_ret t0)) eqn:Em.
        * destruct (IHds _ _ _ _ _ HL) as [P Q]. split; [exact P|]. intros d0 [<-|Hd0]; [right; apply (proj1 P); exact Em|auto].
        * destruct (cascade f js d t0) as [[t3 l3] o3] eqn:Ec.
          destruct o3.
          { exfalso. rewrite orb_true_r in HL. destruct (loop_oof_true f js r t3 (acc ++ d :: l3)) as [ta [la Ha]]. rewrite Ha in HL. discriminate. }
          destruct (IH _ _ _ _ _ Ec) as [Pc Mc]. destruct (IHds _ _ _ _ _ HL) as [P Q].
          split; [eapply Post_trans; eauto|]. intros d0 [<-|Hd0]; [right; apply (proj1 P); exact Mc|auto]. }
  destruct (G _ _ _ _ _ _ H) as [P Q]. cbn [t1 t_ret] in P.
  assert (Hx : memN x (t_ret t') = true) by (apply (proj1 P); rewrite memN_addN, N.eqb_refl, orb_true_r; reflexivity).
  split; [|exact Hx]. split; [eapply sub_trans; [apply sub_addN|apply P]|].
  intros p H2 H0 d Hd. destruct (N.eqb p x) eqn:Epx.
  - apply N.eqb_eq in Epx. subst p. apply Q. exact Hd.
  - apply (proj2 P p H2); [|exact Hd]. rewrite memN_addN, H0, Epx. reflexivity.
Qed.

(** the retracted set only grows (whatever the fuel) *)
Lemma cascade_sub : forall f js x t t' l o, cascade f js x t = (t', l, o) -> sub (t_ret t) (t_ret t').
Proof.
  induction f as [|f IH]; intros js x t t' l o H; [cbn in H; inversion H; subst; apply sub_refl|].
  rewrite cascade_S in H.
  assert (G : forall ds t0 acc oof t2 l2 o2, loop_of f js ds t0 acc oof = (t2, l2, o2) -> sub (t_ret t0) (t_ret t2)).
  { induction ds as [|d r IHds]; intros t0 acc oof t2 l2 o2 HL; [cbn in HL; inversion HL; subst; apply sub_refl|].
    cbn [loop_of] in HL. destruct (has_valid js (t_ret t0) d); [eapply IHds; eauto|].
    destruct (memN d (t_ret t0)); [eapply IHds; eauto|].
    destruct (cascade f js d t0) as [[t3 l3] o3] eqn:Ec. eapply sub_trans; [eapply IH; eauto|eapply IHds; eauto]. }
  eapply sub_trans; [|eapply G; eauto]. cbn [t_ret]. apply sub_addN.
Qed.

(** everything on the list of a finished cascade is in the retracted set and has no valid justification left;
    the retracted set grew by the target and that list only *)
Lemma cascade_props : forall f js x t t' l,
  cascade f js x t = (t', l, false) ->
  (forall h, memN h (t_ret t') = true -> memN h (t_ret t) = true \/ h = x \/ In h l)
  /\ (forall d, In d l -> memN d (t_ret t') = true /\ has_valid js (t_ret t') d = false).
Proof.
  induction f as [|f IH]; intros js x t t' l H; [cbn in H; discriminate|].
  rewrite cascade_S in H.
  set (t1 := {| t_ret := addN x (t_ret t); t_log := remN x (t_log t); t_exp := remN x (t_exp t) |}) in *.
  assert (G : forall ds t0 acc oof t2 l2, loop_of f js ds t0 acc oof = (t2, l2, false) ->
              (forall d, In d acc -> In d l2)
              /\ (forall h, memN h (t_ret t2) = true -> memN h (t_ret t0) = true \/ In h l2)
              /\ (forall d, In d l2 -> In d acc \/ (memN d (t_ret t2) = true /\ has_valid js (t_ret t2) d = false))).
  { induction ds as [|d r IHds]; intros t0 acc oof t2 l2 HL.
    - cbn in HL. inversion HL; subst. split; [auto|]. split; [intros h Hh; left; exact Hh|intros d Hd; left; exact Hd].
    - cbn [loop_of] in HL. destruct (has_valid js (t_ret t0) d) eqn:Ev; [eapply IHds; eauto|].
      destruct (memN d (t_ret t0)) eqn:Em; [eapply IHds; eauto|].
      destruct (cascade f js d t0) as [[t3 l3] o3] eqn:Ec.
      destruct o3.
      { exfalso. rewrite orb_true_r in HL. destruct (loop_oof_true f js r t3 (acc ++ d :: l3)) as [ta [la Ha]]. rewrite Ha in HL. discriminate. }
      destruct (IH _ _ _ _ _ Ec) as (C3 & L3). destruct (cascade_post _ _ _ _ _ _ Ec) as [P3 M3].
      pose proof (cascade_sub _ _ _ _ _ _ _ Ec) as S3.
      destruct (IHds _ _ _ _ _ HL) as (A2 & C2 & L2).
      assert (S2 : sub (t_ret t3) (t_ret t2)).
      { clear - HL IH. revert HL. generalize (acc ++ d :: l3) (oof || false). generalize t3. clear t3.
        induction r as [|d0 r IHr]; intros t3 acc0 oof0 HL; [cbn in HL; inversion HL; subst; apply sub_refl|].
        cbn [loop_of] in HL. destruct (has_valid js (t_ret t3) d0); [eapply IHr; eauto|]. destruct (memN d0 (t_ret t3)); [eapply IHr; eauto|].
        destruct (cascade f js d0 t3) as [[t4 l4] o4] eqn:Ec4. eapply sub_trans; [eapply cascade_sub; eauto|eapply IHr; eauto]. }
      split; [intros d0 Hd0; apply A2; apply in_or_app; left; exact Hd0|]. split.
      + intros h Hh. destruct (C2 h Hh) as [Hh3|Hl]; [|right; exact Hl].
        destruct (C3 h Hh3) as [H0|[->|Hl3]]; [left; exact H0| |]; right; apply A2; apply in_or_app; right; [left; reflexivity|right; exact Hl3].
      + intros d0 Hd0. destruct (L2 d0 Hd0) as [Hacc|Hr]; [|right; exact Hr].
        apply in_app_or in Hacc. destruct Hacc as [Hacc|[<-|Hl3]]; [left; exact Hacc| |]; right.
        * split; [apply S2; exact M3|]. eapply hv_anti_false; [|exact Ev]. eapply sub_trans; eauto.
        * destruct (L3 d0 Hl3) as [Q1 Q2]. split; [apply S2; exact Q1|eapply hv_anti_false; eauto]. }
  destruct (G _ _ _ _ _ _ H) as (A & C & L). cbn [t1 t_ret] in C. split.
  - intros h Hh. destruct (C h Hh) as [H0|Hl]; [|right; right; exact Hl].
    rewrite memN_addN in H0. apply orb_true_iff in H0. destruct H0 as [H0|H0]; [left; exact H0|right; left; apply N.eqb_eq; exact H0].
  - intros d Hd. destruct (L d Hd) as [[]|Hr]. exact Hr.
Qed.

(** * the fuel never runs out *)
Definition unret (js : list just) (R : list N) : nat := length (filter (fun c => negb (memN c R)) (map jconcl js)).

Lemma unret_anti js R R' : sub R R' -> (unret js R' <= unret js R)%nat.
Proof.
  intros S. unfold unret. induction (map jconcl js) as [|c l IH]; cbn [filter length]; [lia|].
  destruct (memN c R) eqn:E; [rewrite (S c E); cbn [negb]; exact IH|].
  destruct (memN c R'); cbn [negb length]; lia.
Qed.
Lemma unret_add js R d : In d (map jconcl js) -> memN d R = false -> (unret js (addN d R) < unret js R)%nat.
Proof.
  intros Hin Hd. unfold unret. induction (map jconcl js) as [|c l IH]; [destruct Hin|]. cbn [filter].
  destruct Hin as [->|Hin].
  - rewrite memN_addN, Hd, N.eqb_refl. cbn [orb negb length].
    assert (H : (length (filter (fun c => negb (memN c (addN d R))) l) <= length (filter (fun c => negb (memN c R)) l))%nat).
    { clear. induction l as [|c l IH]; cbn [filter length]; [lia|]. rewrite memN_addN. destruct (memN c R); cbn [orb negb]; [exact IH|]. destruct (N.eqb c d); cbn [negb length]; lia. }
    apply Nat.lt_succ_r. exact H.
  - specialize (IH Hin). rewrite memN_addN. destruct (memN c R); cbn [orb negb]; [exact IH|]. destruct (N.eqb c d); cbn [negb length]; lia.
Qed.

Lemma cascade_fuel : forall f js x t t' l o,
  (unret js (addN x (t_ret t)) < f)%nat -> cascade f js x t = (t', l, o) -> o = false.
Proof.
  induction f as [|f IH]; intros js x t t' l o Hm H; [lia|].
  rewrite cascade_S in H.
  assert (G : forall ds t0 acc t2 l2 o2, (forall d, In d ds -> In d (map jconcl js)) -> (unret js (t_ret t0) <= f)%nat ->
              loop_of f js ds t0 acc false = (t2, l2, o2) -> o2 = false).
  { induction ds as [|d r IHds]; intros t0 acc t2 l2 o2 Hds Hle HL; [cbn in HL; inversion HL; reflexivity|].
    assert (Hr : forall d0, In d0 r -> In d0 (map jconcl js)) by (intros d0 Hd0; apply Hds; right; exact Hd0).
    cbn [loop_of] in HL. destruct (has_valid js (t_ret t0) d); [eapply IHds; eauto|].
    destruct (memN d (t_ret t0)) eqn:Em; [eapply IHds; eauto|].
    destruct (cascade f js d t0) as [[t3 l3] o3] eqn:Ec.
    assert (o3 = false).
    { eapply IH; [|exact Ec]. pose proof (unret_add js (t_ret t0) d (Hds d (or_introl eq_refl)) Em). lia. }
    subst o3. cbn [orb] in HL. eapply IHds; [exact Hr| |exact HL].
    pose proof (unret_anti js _ _ (cascade_sub _ _ _ _ _ _ _ Ec)). lia. }
  refine (G (dependents js x) {| t_ret := addN x (t_ret t); t_log := remN x (t_log t); t_exp := remN x (t_exp t) |} [] t' l o (fun d Hd => dependents_concl js x d Hd) _ H).
  cbv [t_ret]. apply Nat.lt_succ_r. exact Hm.
Qed.

Lemma unret_le js R : (unret js R <= length js)%nat.
Proof. unfold unret. rewrite <- (map_length jconcl js). induction (map jconcl js) as [|c l IH]; cbn [filter length]; [lia|]. destruct (negb (memN c R)); cbn [length]; lia. Qed.

(** * liveness in working memory *)
Lemma live_in w h : live w h = true -> In h (map fst w).
Proof. unfold live. intros H. apply existsb_exists in H. destruct H as [e [He Hh]]. apply andb_true_iff in Hh. destruct Hh as [H1 _]. apply N.eqb_eq in H1. subst h. apply in_map. exact He. Qed.
Lemma fst_wm_retract w c : map fst (wm_retract w c) = map fst w.
Proof. unfold wm_retract. induction w as [|[k b] w IH]; cbn [map fst]; [reflexivity|]. rewrite IH. destruct (N.eqb k c); reflexivity. Qed.
Lemma live_wm_retract w c h : live (wm_retract w c) h = live w h && negb (N.eqb h c).
Proof.
  unfold live, wm_retract. induction w as [|[k b] w IH]; cbn [map existsb]; [reflexivity|]. rewrite IH. clear IH.
  set (rest := existsb (fun e : N * bool => N.eqb (fst e) h && negb (snd e)) w).
  cbn [fst snd]. destruct (N.eqb k c) eqn:E; cbn [fst snd].
  - apply N.eqb_eq in E. subst k. cbn [negb]. rewrite andb_false_r. cbn [orb].
    destruct (N.eqb h c) eqn:E2; cbn [negb].
    + rewrite !andb_false_r. reflexivity.
    + rewrite N.eqb_sym, E2. cbn [andb orb]. reflexivity.
  - destruct (N.eqb k h) eqn:E2; cbn [andb orb].
    + apply N.eqb_eq in E2. subst k. rewrite E. cbn [negb]. rewrite !andb_true_r. reflexivity.
    + reflexivity.
Qed.
Definition retract_all (casc : list N) (w : list (N * bool)) : list (N * bool) :=
  fold_left (fun w c => if live w c then wm_retract w c else w) casc w.
Lemma live_retract_all casc : forall w h, live (retract_all casc w) h = live w h && negb (memN h casc).
Proof.
  induction casc as [|c r IH]; intros w h; cbn [retract_all fold_left memN]; [rewrite andb_true_r; reflexivity|].
  fold (retract_all r (if live w c then wm_retract w c else w)). rewrite IH.
  destruct (live w c) eqn:E.
  - rewrite live_wm_retract. destruct (N.eqb h c); cbn [negb orb]; [rewrite andb_false_r; reflexivity|rewrite andb_true_r; reflexivity].
  - destruct (N.eqb h c) eqn:E2; cbn [orb negb]; [|reflexivity]. apply N.eqb_eq in E2. subst h. rewrite E. reflexivity.
Qed.
Lemma fst_retract_all casc : forall w, map fst (retract_all casc w) = map fst w.
Proof. induction casc as [|c r IH]; intros w; cbn [retract_all fold_left]; [reflexivity|]. fold (retract_all r (if live w c then wm_retract w c else w)). rewrite IH. destruct (live w c); [apply fst_wm_retract|reflexivity]. Qed.

Lemma cascade_list_concl : forall f js x t t' l o, cascade f js x t = (t', l, o) -> forall d, In d l -> In d (map jconcl js).
Proof.
  induction f as [|f IH]; intros js x t t' l o H d Hd; [cbn in H; inversion H; subst; destruct Hd|].
  rewrite cascade_S in H.
  assert (G : forall ds t0 acc oof t2 l2 o2, (forall d, In d ds -> In d (map jconcl js)) -> loop_of f js ds t0 acc oof = (t2, l2, o2) ->
              (forall d, In d acc -> In d (map jconcl js)) -> forall d, In d l2 -> In d (map jconcl js)).
  { induction ds as [|d0 r IHds]; intros t0 acc oof t2 l2 o2 Hds HL Hacc d1 Hd1; [cbn in HL; inversion HL; subst; auto|].
    assert (Hr : forall d, In d r -> In d (map jconcl js)) by (intros d2 Hd2; apply Hds; right; exact Hd2).
    cbn [loop_of] in HL. destruct (has_valid js (t_ret t0) d0); [eapply IHds; eauto|]. destruct (memN d0 (t_ret t0)); [eapply IHds; eauto|].
    destruct (cascade f js d0 t0) as [[t3 l3] o3] eqn:Ec. eapply IHds; [exact Hr|exact HL| |exact Hd1].
    intros d2 Hd2. apply in_app_or in Hd2. destruct Hd2 as [Hd2|[<-|Hd2]]; [auto|apply Hds; left; reflexivity|eapply IH; eauto]. }
  eapply G; [|exact H| |exact Hd]; [intros d0 Hd0; eapply dependents_concl; eauto|intros d0 []].
Qed.

(** * the engine invariant *)
Definition inwm (e : eng) (h : N) : Prop := In h (map fst (wm e)).
Record Good (T : list N) (e : eng) : Prop := {
  g_fresh : forall h, inwm e h -> h < next_id e;
  g_ret_in : forall h, memN h (retracted e) = true -> inwm e h;
  g_ret_dead : forall h, memN h (retracted e) = true -> live (wm e) h = false;
  g_dead_ret : forall h, inwm e h -> live (wm e) h = false -> memN h (retracted e) = true;
  g_justs : forall j, In j (justs e) -> inwm e (jconcl j) /\ forall p, In p (jprems j) -> inwm e p;
  g_live_valid : forall h, live (wm e) h = true -> has_valid (justs e) (retracted e) h = true;
  g_dead_invalid : forall h, inwm e h -> live (wm e) h = false -> ~ In h T -> has_valid (justs e) (retracted e) h = false;
  g_targets : forall h, In h T -> inwm e h /\ live (wm e) h = false }.

Definition op_ok (e : eng) (o : op) : Prop :=
  match o with
  | InsLogical ps => forall p, In p ps -> live (wm e) p = true
  | AddJust h ps => live (wm e) h = true /\ forall p, In p ps -> live (wm e) p = true
  | _ => True end.
(** the handles that were the target of an EFFECTIVE retraction (a retraction of an absent handle is refused) *)
Definition tg (T : list N) (e : eng) (o : op) : list N := match o with Retract x => if live (wm e) x then x :: T else T | _ => T end.
Definition next (e : eng) (o : op) : eng := fst (fst (step e o)).

Lemma has_valid_app js j R h : has_valid (js ++ [j]) R h = has_valid js R h || (N.eqb (jconcl j) h && jvalid R j).
Proof. unfold has_valid. rewrite existsb_app. cbn [existsb]. rewrite orb_false_r. reflexivity. Qed.

Lemma prems_live_valid R (w : list (N * bool)) ps ex h :
  (forall x, memN x R = true -> live w x = false) -> (forall p, In p ps -> live w p = true) ->
  jvalid R {| jconcl := h; jexplicit := ex; jprems := ps |} = true.
Proof.
  intros HR Hp. unfold jvalid. cbn [jexplicit jprems]. destruct ex; [reflexivity|]. cbn [orb]. apply negb_true_iff.
  destruct (existsb (fun p => memN p R) ps) eqn:E; [|reflexivity]. apply existsb_exists in E. destruct E as [p [Hin Hm]].
  specialize (Hp p Hin). rewrite (HR p Hm) in Hp. discriminate.
Qed.

Lemma in_app_new (w : list (N * bool)) k h : In h (map fst (w ++ [(k, false)])) <-> In h (map fst w) \/ h = k.
Proof. rewrite map_app, in_app_iff. cbn. intuition. Qed.

(** insertion of a new fact with one (valid) justification *)
Lemma insert_good T e ex ps lg exs :
  Good T e -> (forall p, In p ps -> live (wm e) p = true) ->
  Good T {| wm := wm e ++ [(next_id e, false)]; next_id := next_id e + 1;
            justs := justs e ++ [{| jconcl := next_id e; jexplicit := ex; jprems := ps |}];
            logical := lg; explicit_ := exs; retracted := retracted e |}.
Proof.
  intros G Hp. set (h0 := next_id e).
  assert (Hfr : forall h, inwm e h -> N.eqb h0 h = false) by (intros h Hh; apply N.eqb_neq; pose proof (g_fresh T e G h Hh); unfold h0; lia).
  assert (Hv0 : jvalid (retracted e) {| jconcl := h0; jexplicit := ex; jprems := ps |} = true) by (eapply prems_live_valid; [apply (g_ret_dead T e G)|exact Hp]).
  constructor; unfold inwm; cbn [wm next_id justs retracted].
  - intros h Hh. apply in_app_new in Hh. destruct Hh as [Hh| ->]; [pose proof (g_fresh T e G h Hh); lia|lia].
  - intros h Hh. apply in_app_new. left. apply (g_ret_in T e G h Hh).
  - intros h Hh. rewrite live_app_new, (g_ret_dead T e G h Hh), (Hfr h (g_ret_in T e G h Hh)). reflexivity.
  - intros h Hh Hl. rewrite live_app_new in Hl. apply orb_false_iff in Hl. destruct Hl as [Hl He].
    apply in_app_new in Hh. destruct Hh as [Hh| ->]; [apply (g_dead_ret T e G h Hh Hl)|fold h0 in He; rewrite N.eqb_refl in He; discriminate].
  - intros j Hj. apply in_app_or in Hj. destruct Hj as [Hj|[<-|[]]].
    + destruct (g_justs T e G j Hj) as [A B]. split; [apply in_app_new; left; exact A|intros p Hpp; apply in_app_new; left; apply B; exact Hpp].
    + cbn [jconcl jprems]. split; [apply in_app_new; right; reflexivity|]. intros p Hpp. apply in_app_new. left. apply live_in. apply Hp. exact Hpp.
  - intros h Hl. rewrite has_valid_app. rewrite live_app_new in Hl. apply orb_true_iff in Hl. destruct Hl as [Hl|Hl].
    + rewrite (g_live_valid T e G h Hl). reflexivity.
    + cbn [jconcl]. fold h0. fold h0 in Hl. rewrite Hl, Hv0. apply orb_true_r.
  - intros h Hh Hl Hn. rewrite live_app_new in Hl. apply orb_false_iff in Hl. destruct Hl as [Hl He].
    apply in_app_new in Hh. destruct Hh as [Hh| ->]; [|fold h0 in He; rewrite N.eqb_refl in He; discriminate].
    rewrite has_valid_app, (g_dead_invalid T e G h Hh Hl Hn). cbn [jconcl orb]. fold h0. fold h0 in He. rewrite He. reflexivity.
  - intros h Hh. destruct (g_targets T e G h Hh) as [A B]. split; [apply in_app_new; left; exact A|].
    rewrite live_app_new, B, (Hfr h A). reflexivity.
Qed.

Lemma step_good T e o : Good T e -> op_ok e o -> Good (tg T e o) (next e o).
Proof.
  intros G Hok. destruct o as [|ps|k ps|x]; unfold next; cbn [step fst tg].
  - apply insert_good; [exact G|intros p []].
  - apply insert_good; [exact G|exact Hok].
  - (* AddJust *)
    destruct Hok as [Hk Hps].
    assert (Hv0 : jvalid (retracted e) {| jconcl := k; jexplicit := false; jprems := ps |} = true) by (eapply prems_live_valid; [apply (g_ret_dead T e G)|exact Hps]).
    constructor; unfold inwm; cbn [wm next_id justs retracted].
    + apply (g_fresh T e G).
    + apply (g_ret_in T e G).
    + apply (g_ret_dead T e G).
    + apply (g_dead_ret T e G).
    + intros j Hj. apply in_app_or in Hj. destruct Hj as [Hj|[<-|[]]]; [apply (g_justs T e G j Hj)|].
      cbn [jconcl jprems]. split; [apply live_in; exact Hk|intros p Hp; apply live_in; apply Hps; exact Hp].
    + intros h Hl. rewrite has_valid_app, (g_live_valid T e G h Hl). reflexivity.
    + intros h Hh Hl Hn. rewrite has_valid_app, (g_dead_invalid T e G h Hh Hl Hn). cbn [jconcl orb].
      destruct (N.eqb k h) eqn:E; [|reflexivity]. apply N.eqb_eq in E. subst k. congruence.
    + apply (g_targets T e G).
  - (* Retract *)
    destruct (live (wm e) x) eqn:Elx; [|cbn [fst]; exact G].
    destruct (cascade (fuel_of e) (justs e) x {| t_ret := retracted e; t_log := logical e; t_exp := explicit_ e |}) as [[t' casc] oof] eqn:Ec.
    cbn [fst].
    assert (Hoof : oof = false).
    { eapply cascade_fuel; [|exact Ec]. unfold fuel_of. pose proof (unret_le (justs e) (addN x (retracted e))). cbn [t_ret]. lia. }
    subst oof.
    destruct (cascade_post _ _ _ _ _ _ Ec) as [P Mx]. destruct (cascade_props _ _ _ _ _ _ Ec) as [C L]. cbn [t_ret] in P, C.
    pose proof (cascade_list_concl _ _ _ _ _ _ _ Ec) as Lc.
    fold (retract_all casc (wm_retract (wm e) x)).
    assert (Hlive : forall h, live (retract_all casc (wm_retract (wm e) x)) h = live (wm e) h && negb (N.eqb h x) && negb (memN h casc))
      by (intros h; rewrite live_retract_all, live_wm_retract; reflexivity).
    assert (Hin : forall h, In h (map fst (retract_all casc (wm_retract (wm e) x))) <-> inwm e h)
      by (intros h; rewrite fst_retract_all, fst_wm_retract; reflexivity).
    assert (Hcin : forall d, In d casc -> inwm e d).
    { intros d Hd. specialize (Lc d Hd). apply in_map_iff in Lc. destruct Lc as [j [<- Hj]]. apply (proj1 (g_justs T e G j Hj)). }
    assert (Hdead' : forall h, memN h (t_ret t') = true -> live (retract_all casc (wm_retract (wm e) x)) h = false).
    { intros h Hh. rewrite Hlive. destruct (C h Hh) as [H0|[ ->|Hl]].
      - rewrite (g_ret_dead T e G h H0). reflexivity.
      - rewrite N.eqb_refl. cbn [negb]. rewrite andb_false_r. reflexivity.
      - apply memN_In in Hl. rewrite Hl. cbn [negb]. apply andb_false_r. }
    constructor; unfold inwm; cbn [wm next_id justs retracted].
    + intros h Hh. apply Hin in Hh. apply (g_fresh T e G h Hh).
    + intros h Hh. apply Hin. destruct (C h Hh) as [H0|[ ->|Hl]]; [apply (g_ret_in T e G h H0)|apply live_in; exact Elx|apply Hcin; exact Hl].
    + exact Hdead'.
    + intros h Hh Hl. apply Hin in Hh. rewrite Hlive in Hl.
      destruct (live (wm e) h) eqn:E1; [|apply (proj1 P); apply (g_dead_ret T e G h Hh E1)].
      destruct (N.eqb h x) eqn:E2; [apply N.eqb_eq in E2; subst h; exact Mx|].
      destruct (memN h casc) eqn:E3; [|discriminate]. apply memN_In in E3. apply (L h E3).
    + intros j Hj. destruct (g_justs T e G j Hj) as [A B]. split; [apply Hin; exact A|intros p Hp; apply Hin; apply B; exact Hp].
    + intros h Hl. pose proof Hl as Hl0. rewrite Hlive in Hl. apply andb_true_iff in Hl. destruct Hl as [Hl _]. apply andb_true_iff in Hl. destruct Hl as [Hl _].
      destruct (Post_stable _ _ _ h P (g_live_valid T e G h Hl)) as [Hv|Hm]; [exact Hv|]. rewrite (Hdead' h Hm) in Hl0. discriminate.
    + intros h Hh Hl Hn. apply Hin in Hh. rewrite Hlive in Hl.
      destruct (live (wm e) h) eqn:E1.
      * destruct (N.eqb h x) eqn:E2; [apply N.eqb_eq in E2; subst h; exfalso; apply Hn; left; reflexivity|].
        destruct (memN h casc) eqn:E3; [|discriminate]. apply memN_In in E3. apply (L h E3).
      * eapply hv_anti_false; [apply (proj1 P)|]. apply (g_dead_invalid T e G h Hh E1). intros Hc. apply Hn. right. exact Hc.
    + intros h [<-|Hh].
      * split; [apply Hin; apply live_in; exact Elx|]. rewrite Hlive, N.eqb_refl. cbn [negb]. rewrite andb_false_r. reflexivity.
      * destruct (g_targets T e G h Hh) as [A B]. split; [apply Hin; exact A|]. rewrite Hlive, B. reflexivity.
Qed.

(** * histories *)
Fixpoint wf_run (e : eng) (ops : list op) : Prop :=
  match ops with [] => True | o :: r => op_ok e o /\ wf_run (next e o) r end.
Fixpoint exec (e : eng) (ops : list op) : eng := match ops with [] => e | o :: r => exec (next e o) r end.
Fixpoint targets (T : list N) (e : eng) (ops : list op) : list N :=
  match ops with [] => T | o :: r => targets (tg T e o) (next e o) r end.

Lemma Good_init : Good [] init.
Proof.
  constructor; unfold inwm; cbn [init wm next_id justs retracted memN live existsb map]; try (intros; contradiction); try (intros; discriminate); try reflexivity.
Qed.

Lemma exec_good ops : forall T e, Good T e -> wf_run e ops -> Good (targets T e ops) (exec e ops).
Proof.
  induction ops as [|o r IH]; intros T e G W; cbn [targets exec]; [exact G|].
  destruct W as [W1 W2]. apply IH; [apply step_good; assumption|exact W2].
Qed.

(** the property's own vocabulary: h has a justification that is explicit or has all its premises present *)
Definition supported (e : eng) (h : N) : Prop :=
  exists j, In j (justs e) /\ jconcl j = h /\ (jexplicit j = true \/ forall p, In p (jprems j) -> live (wm e) p = true).

Lemma valid_iff_supported T e h : Good T e -> (has_valid (justs e) (retracted e) h = true <-> supported e h).
Proof.
  intros G. unfold has_valid, supported. rewrite existsb_exists. split.
  - intros [j [Hj Hv]]. apply andb_true_iff in Hv. destruct Hv as [H1 H2]. apply N.eqb_eq in H1. exists j. split; [exact Hj|]. split; [exact H1|].
    unfold jvalid in H2. destruct (jexplicit j); [left; reflexivity|right]. cbn [orb] in H2. apply negb_true_iff in H2.
    intros p Hp. destruct (live (wm e) p) eqn:El; [reflexivity|].
    assert (Hm : memN p (retracted e) = true) by (apply (g_dead_ret T e G p); [apply (proj2 (g_justs T e G j Hj) p Hp)|exact El]).
    assert (existsb (fun p => memN p (retracted e)) (jprems j) = true) by (apply existsb_exists; exists p; split; assumption). congruence.
  - intros [j [Hj [H1 H2]]]. exists j. split; [exact Hj|]. subst h. rewrite N.eqb_refl. cbn [andb]. unfold jvalid.
    destruct H2 as [H2|H2]; [rewrite H2; reflexivity|]. destruct (jexplicit j); [reflexivity|]. cbn [orb]. apply negb_true_iff.
    destruct (existsb (fun p => memN p (retracted e)) (jprems j)) eqn:E; [|reflexivity]. apply existsb_exists in E. destruct E as [p [Hp Hm]].
    specialize (H2 p Hp). rewrite (g_ret_dead T e G p Hm) in H2. discriminate.
Qed.

(** THE SUPPORT INVARIANT.  After any well-formed history (premises present when a justification is recorded,
    extra justifications only for present facts): a handle that was issued and was not itself the target of
    an effective retraction is present exactly when it is supported; targets of retractions stay absent. *)
Theorem support_invariant ops : wf_run init ops ->
  let e := exec init ops in let T := targets [] init ops in
  (forall h, inwm e h -> ~ In h T -> (live (wm e) h = true <-> supported e h))
  /\ (forall h, In h T -> live (wm e) h = false).
Proof.
  intros W e T. pose proof (exec_good ops [] init Good_init W) as G. fold e T in G. split.
  - intros h Hh Hn. rewrite <- (valid_iff_supported T e h G). split.
    + apply (g_live_valid T e G).
    + intros Hv. destruct (live (wm e) h) eqn:El; [reflexivity|]. rewrite (g_dead_invalid T e G h Hh El Hn) in Hv. discriminate.
  - intros h Hh. apply (g_targets T e G h Hh).
Qed.

(** one retraction removes, in the same call, the target and exactly the facts it leaves without support *)
Theorem retract_removes_exactly ops x : wf_run init ops ->
  let e := exec init ops in let e' := next e (Retract x) in
  live (wm e) x = true ->
  forall h, live (wm e) h = true -> (live (wm e') h = false <-> h = x \/ ~ supported e' h).
Proof.
  intros W e e' Hx h Hl. pose proof (exec_good ops [] init Good_init W) as G. fold e in G.
  set (T := targets [] init ops) in *.
  pose proof (step_good T e (Retract x) G I) as G'. fold e' in G'. cbn [tg] in G'. rewrite Hx in G'.
  assert (HT : ~ In h T) by (intros Hc; rewrite (proj2 (g_targets T e G h Hc)) in Hl; discriminate).
  assert (Hin : inwm e' h).
  { unfold e', next, inwm. cbn [step]. rewrite Hx. destruct (cascade _ _ _ _) as [[t' casc] oof]. cbn [fst wm].
    fold (retract_all casc (wm_retract (wm e) x)). rewrite fst_retract_all, fst_wm_retract. apply live_in. exact Hl. }
  split.
  - intros Hd. destruct (N.eq_dec h x) as [->|Hne]; [left; reflexivity|right].
    intros Hs. apply (valid_iff_supported _ e' h G') in Hs.
    rewrite (g_dead_invalid _ e' G' h Hin Hd) in Hs; [discriminate|]. intros [Hc|Hc]; [apply Hne; symmetry; exact Hc|exact (HT Hc)].
  - intros [->|Hns].
    + apply (proj2 (g_targets _ e' G' x (or_introl eq_refl))).
    + destruct (live (wm e') h) eqn:El; [|reflexivity]. exfalso. apply Hns. apply (valid_iff_supported _ e' h G'). apply (g_live_valid _ e' G' h El).
Qed.

(** explicitly inserted facts disappear only when retracted explicitly *)
Theorem explicit_only_by_retraction ops h : wf_run init ops ->
  let e := exec init ops in
  has_explicit (justs e) h = true -> inwm e h -> ~ In h (targets [] init ops) -> live (wm e) h = true.
Proof.
  intros W e He Hh Hn. destruct (support_invariant ops W) as [A _]. apply (A h Hh Hn).
  unfold has_explicit in He. apply existsb_exists in He. destruct He as [j [Hj Hv]]. apply andb_true_iff in Hv. destruct Hv as [H1 H2].
  exists j. split; [exact Hj|]. split; [apply N.eqb_eq; exact H1|left; exact H2].
Qed.

(** the cascade of the engine never runs out of fuel *)
Theorem retract_never_out_of_fuel e x : snd (step e (Retract x)) = false.
Proof.
  cbn [step]. destruct (live (wm e) x); [|reflexivity].
  destruct (cascade (fuel_of e) (justs e) x {| t_ret := retracted e; t_log := logical e; t_exp := explicit_ e |}) as [[t' casc] oof] eqn:Ec.
  cbn [snd]. eapply cascade_fuel; [|exact Ec]. unfold fuel_of. pose proof (unret_le (justs e) (addN x (retracted e))). cbn [t_ret]. lia.
Qed.
