(** C17 — the invalidation of the proof graph computes exactly the least set of proofs that lose all support:
    invariant [Inv] (every remaining justification of every cached proof is clean; a valid proof has one),
    exactness of [invalidate] (what each node keeps, who stays valid) and minimality (nothing dies that need not). *)
From RRE Require Import Base.Sx Model.ProofGraph Proofs.ProofGraphProofs.
From Coq Require Import Lia.
Open Scope N_scope.

Lemma memN_In x l : memN x l = true <-> In x l.
Proof.
  induction l as [|y l IH]; cbn [memN In]; [split; [discriminate|intros []]|].
  rewrite orb_true_iff, IH, N.eqb_eq. split; intros [H|H]; auto.
Qed.

Definition handles (ns : list node) : list N := map n_h ns.
Definition avoid (Ps J : list N) : bool := negb (existsb (fun p => memN p J) Ps).
Definition nonempty {T} (l : list T) : bool := match l with [] => false | _ => true end.

Lemma avoid_nil J : avoid [] J = true. Proof. reflexivity. Qed.
Lemma avoid_app Ps Qs J : avoid (Ps ++ Qs) J = avoid Ps J && avoid Qs J.
Proof. unfold avoid. rewrite existsb_app, negb_orb. reflexivity. Qed.
Lemma avoid_single p J : avoid [p] J = negb (memN p J).
Proof. unfold avoid. cbn [existsb]. rewrite orb_false_r. reflexivity. Qed.
Lemma filter_filter {T} (f g : T -> bool) l : filter g (filter f l) = filter (fun x => f x && g x) l.
Proof. induction l as [|x l IH]; cbn [filter]; [reflexivity|]. destruct (f x); cbn [filter andb]; [destruct (g x); rewrite IH; reflexivity|exact IH]. Qed.
Lemma filter_true {T} (l : list T) : filter (fun _ => true) l = l.
Proof. induction l as [|x l IH]; cbn [filter]; [reflexivity|rewrite IH; reflexivity]. Qed.
Lemma filter_avoid_app Ps Qs l : filter (avoid Qs) (filter (avoid Ps) l) = filter (avoid (Ps ++ Qs)) l.
Proof. rewrite filter_filter. apply filter_ext. intros J. rewrite avoid_app. reflexivity. Qed.
Lemma filter_len {T} (f : T -> bool) l : (length (filter f l) <= length l)%nat.
Proof. induction l as [|x l IH]; cbn [filter length]; [lia|]. destruct (f x); cbn [length]; lia. Qed.
Lemma filter_len_eq {T} (f : T -> bool) l : length (filter f l) = length l -> filter f l = l.
Proof.
  induction l as [|x l IH]; cbn [filter length]; [reflexivity|]. destruct (f x); cbn [length]; intros H.
  - f_equal. apply IH. lia.
  - pose proof (filter_len f l). lia.
Qed.

(** * nodes as a finite map *)
Lemma find_node_in ns h n : find_node ns h = Some n -> In n ns.
Proof. unfold find_node. intros F. apply find_some in F. tauto. Qed.
Lemma find_node_none ns h : find_node ns h = None <-> ~ In h (handles ns).
Proof.
  unfold find_node, handles. induction ns as [|m ns IH]; cbn [find map In]; [split; [intros _ []|reflexivity]|].
  destruct (N.eqb (n_h m) h) eqn:E.
  - apply N.eqb_eq in E. split; [discriminate|]. intros H. exfalso. apply H. left. exact E.
  - apply N.eqb_neq in E. rewrite IH. split; [intros H [H1|H1]; [contradiction|exact (H H1)]|intros H H1; apply H; right; exact H1].
Qed.
Lemma handles_upd ns n' : handles (upd_node ns n') = handles ns.
Proof.
  unfold handles, upd_node. rewrite map_map. apply map_ext_in. intros m _. destruct (N.eqb (n_h m) (n_h n')) eqn:E; [apply N.eqb_eq in E; symmetry; exact E|reflexivity].
Qed.
Lemma find_upd ns n' x : find_node (upd_node ns n') x =
  if N.eqb (n_h n') x then match find_node ns x with Some _ => Some n' | None => None end else find_node ns x.
Proof.
  destruct (N.eqb (n_h n') x) eqn:E.
  - apply N.eqb_eq in E. subst x. destruct (find_node ns (n_h n')) as [n|] eqn:F; [eapply find_node_upd; eauto|].
    apply find_node_none. rewrite handles_upd. apply find_node_none. exact F.
  - apply upd_node_find_other. apply N.eqb_neq. exact E.
Qed.

Lemma total_justs_upd ns n n' : NoDup (handles ns) -> find_node ns (n_h n') = Some n ->
  (total_justs (upd_node ns n') + length (n_justs n) = total_justs ns + length (n_justs n'))%nat.
Proof.
  unfold handles, find_node, upd_node, total_justs. induction ns as [|m ns IH]; intros ND F; [discriminate|].
  cbn [map] in ND. inversion ND as [|? ? Hnin ND']; subst. cbn [find] in F. cbn [map fold_right].
  destruct (N.eqb (n_h m) (n_h n')) eqn:E.
  - inversion F; subst m. apply N.eqb_eq in E.
    assert (Hsame : map (fun m0 => if N.eqb (n_h m0) (n_h n') then n' else m0) ns = ns).
    { rewrite <- (map_id ns) at 2. apply map_ext_in. intros m0 Hm0. destruct (N.eqb (n_h m0) (n_h n')) eqn:E0; [|reflexivity].
      apply N.eqb_eq in E0. exfalso. apply Hnin. rewrite E, <- E0. apply in_map. exact Hm0. }
    rewrite Hsame. lia.
  - specialize (IH ND' F). lia.
Qed.

(** * badness: an invalid cached proof, or a handle of the set X (handles being invalidated directly) *)
Section WithX.
Variable X : list N.
Definition bad (ns : list node) (p : N) : bool := memN p X || match find_node ns p with Some n => negb (n_valid n) | None => false end.

(** * how an invalidation may change the graph *)
Definition rel_node (ns' : list node) (n n' : node) : Prop :=
  n_h n' = n_h n /\ n_key n' = n_key n
  /\ (exists Ps, (forall p, In p Ps -> bad ns' p = true) /\ n_justs n' = filter (avoid Ps) (n_justs n))
  /\ n_valid n' = n_valid n && nonempty (n_justs n').
Definition Rel (ns ns' : list node) : Prop :=
  handles ns' = handles ns /\ forall x n, find_node ns x = Some n -> exists n', find_node ns' x = Some n' /\ rel_node ns' n n'.

Definition JustInv (ns : list node) : Prop := forall x n, find_node ns x = Some n -> n_valid n = true -> n_justs n <> [].
Definition Edges (dp : list (N * N)) (ns : list node) : Prop :=
  forall x n J q, find_node ns x = Some n -> In J (n_justs n) -> In q J -> In x (deps_of dp q).
(** clean except for the pending premises W *)
Definition CE (ns : list node) (W : list N) : Prop :=
  forall x n J q, find_node ns x = Some n -> In J (n_justs n) -> In q J -> bad ns q = true -> In q W.

Lemma nonempty_true {T} (l : list T) : nonempty l = true <-> l <> [].
Proof. destruct l; cbn; split; intros H; try congruence; try reflexivity; try discriminate. Qed.

Lemma Rel_refl ns : JustInv ns -> Rel ns ns.
Proof.
  intros JI. split; [reflexivity|]. intros x n F. exists n. split; [exact F|]. repeat split.
  - exists []. split; [intros p []|]. symmetry. rewrite (filter_ext _ (fun _ => true)) by (intros; apply avoid_nil). apply filter_true.
  - destruct (n_valid n) eqn:E; [|reflexivity]. symmetry. apply nonempty_true. apply (JI x n F E).
Qed.

Lemma Rel_bad_mono ns ns' p : Rel ns ns' -> bad ns p = true -> bad ns' p = true.
Proof.
  intros [_ R] H. unfold bad in *. destruct (memN p X); [reflexivity|]. cbn [orb] in *. destruct (find_node ns p) as [n|] eqn:F; [|discriminate].
  destruct (R p n F) as [n' [F' (_ & _ & _ & Hv)]]. rewrite F'. rewrite Hv. apply negb_true_iff in H. rewrite H. reflexivity.
Qed.

Lemma Rel_trans ns ns' ns'' : Rel ns ns' -> Rel ns' ns'' -> Rel ns ns''.
Proof.
  intros A B. split; [rewrite (proj1 B); apply (proj1 A)|]. intros x n F.
  destruct (proj2 A x n F) as [n' [F' (H1 & K1 & [Ps [HPs J1]] & V1)]].
  destruct (proj2 B x n' F') as [n'' [F'' (H2 & K2 & [Qs [HQs J2]] & V2)]].
  exists n''. split; [exact F''|]. repeat split; [congruence|congruence| |].
  - exists (Ps ++ Qs). split.
    + intros p Hp. apply in_app_or in Hp. destruct Hp as [Hp|Hp]; [eapply Rel_bad_mono; [exact B|apply HPs; exact Hp]|apply HQs; exact Hp].
    + rewrite J2, J1. apply filter_avoid_app.
  - rewrite V2, V1. destruct (n_valid n); cbn [andb]; [|reflexivity].
    destruct (n_justs n') eqn:E1; [rewrite J2; reflexivity|reflexivity].
Qed.

Lemma Rel_justs_incl ns ns' x n n' : Rel ns ns' -> find_node ns x = Some n -> find_node ns' x = Some n' -> incl (n_justs n') (n_justs n).
Proof.
  intros R F F'. destruct (proj2 R x n F) as [m [Fm (_ & _ & [Ps [_ J]] & _)]]. rewrite F' in Fm. inversion Fm; subst m.
  rewrite J. intros a Ha. apply filter_In in Ha. tauto.
Qed.
Lemma Rel_find_back ns ns' x n' : Rel ns ns' -> find_node ns' x = Some n' -> exists n, find_node ns x = Some n.
Proof.
  intros R F'. destruct (find_node ns x) as [n|] eqn:F; [eauto|]. exfalso.
  apply find_node_none in F. rewrite <- (proj1 R) in F. apply find_node_none in F. congruence.
Qed.
Lemma Rel_Edges dp ns ns' : Rel ns ns' -> Edges dp ns -> Edges dp ns'.
Proof.
  intros R E x n' J q F' HJ Hq. destruct (Rel_find_back _ _ _ _ R F') as [n F].
  eapply E; [exact F| |exact Hq]. eapply Rel_justs_incl; eauto.
Qed.

(** * the propagation, relative to a fixed origin graph ns0 and a closed set C *)
Section Propagation.
Variable dp : list (N * N).
Variable ns0 : list node.
Variable C : N -> Prop.
(** C is closed under loss of support in the origin graph *)
Hypothesis C_closed : forall x n, find_node ns0 x = Some n -> n_justs n <> [] ->
  (forall J, In J (n_justs n) -> exists q, In q J /\ C q) -> C x.

Record Hyp (ns : list node) (f : nat) (p : N) (W : list N) : Prop := {
  h_nodup : NoDup (handles ns);
  h_just : JustInv ns;
  h_edges : Edges dp ns;
  h_fuel : (total_justs ns < f)%nat;
  h_bad : bad ns p = true;
  h_ce : CE ns W;
  h_inW : In p W;
  h_rel0 : Rel ns0 ns;
  h_just0 : JustInv ns0;
  h_badC : forall q, bad ns q = true -> C q }.

Record Concl (ns ns' : list node) (W : list N) : Prop := {
  c_rel : Rel ns ns';
  c_just : JustInv ns';
  c_ce : CE ns' W;
  c_tot : (total_justs ns' <= total_justs ns)%nat;
  c_badC : forall q, bad ns' q = true -> C q }.

Definition PSpec (f : nat) : Prop := forall ns d p W, Hyp ns f p W ->
  Concl ns (propagate f dp ns d p) W
  /\ forall n', find_node (propagate f dp ns d p) d = Some n' -> forall J, In J (n_justs n') -> memN p J = false.

Lemma Hyp_next ns ns' f p W : Hyp ns f p W -> Concl ns ns' W -> Hyp ns' f p W.
Proof.
  intros H Cc. constructor.
  - rewrite (proj1 (c_rel _ _ _ Cc)). apply (h_nodup _ _ _ _ H).
  - apply (c_just _ _ _ Cc).
  - eapply Rel_Edges; [apply (c_rel _ _ _ Cc)|apply (h_edges _ _ _ _ H)].
  - pose proof (c_tot _ _ _ Cc). pose proof (h_fuel _ _ _ _ H). lia.
  - eapply Rel_bad_mono; [apply (c_rel _ _ _ Cc)|apply (h_bad _ _ _ _ H)].
  - apply (c_ce _ _ _ Cc).
  - apply (h_inW _ _ _ _ H).
  - eapply Rel_trans; [apply (h_rel0 _ _ _ _ H)|apply (c_rel _ _ _ Cc)].
  - apply (h_just0 _ _ _ _ H).
  - apply (c_badC _ _ _ Cc).
Qed.

Lemma Concl_trans ns ns' ns'' W : Concl ns ns' W -> Concl ns' ns'' W -> Concl ns ns'' W.
Proof.
  intros A B. constructor; [eapply Rel_trans; [apply A|apply B]|apply B|apply B| |apply B].
  pose proof (c_tot _ _ _ A). pose proof (c_tot _ _ _ B). lia.
Qed.

(** the fold over the dependents of p *)
Lemma fold_spec f : PSpec f -> forall l ns p W, Hyp ns f p W ->
  let ns' := fold_left (fun ns d => propagate f dp ns d p) l ns in
  Concl ns ns' W /\ forall d, In d l -> forall n', find_node ns' d = Some n' -> forall J, In J (n_justs n') -> memN p J = false.
Proof.
  intros PS. induction l as [|d l IH]; intros ns p W H; cbn [fold_left].
  - split; [|intros d []]. constructor; [apply Rel_refl; apply H|apply H|apply H|lia|apply H].
  - destruct (PS ns d p W H) as [C1 N1]. set (ns1 := propagate f dp ns d p) in *.
    pose proof (Hyp_next _ _ _ _ _ H C1) as H1. destruct (IH ns1 p W H1) as [C2 N2]. cbn zeta in C2, N2.
    split; [eapply Concl_trans; eauto|]. intros d0 [<-|Hd0]; [|apply N2; exact Hd0].
    intros n' F' J HJ. destruct (Rel_find_back _ _ _ _ (c_rel _ _ _ C2) F') as [n1 F1].
    apply (N1 n1 F1 J). eapply Rel_justs_incl; [apply (c_rel _ _ _ C2)|exact F1|exact F'|exact HJ].
Qed.

Lemma filter_nil_all {T} (f : T -> bool) l : filter f l = [] -> forall x, In x l -> f x = false.
Proof. induction l as [|y l IH]; cbn [filter]; intros H x Hx; [destruct Hx|]. destruct (f y) eqn:E; [discriminate|]. destruct Hx as [<-|Hx]; [exact E|apply IH; assumption]. Qed.

Definition step1 (n : node) (d p : N) : node :=
  let js' := filter (fun J => negb (memN p J)) (n_justs n) in
  {| n_h := d; n_key := n_key n; n_justs := js'; n_valid := match js' with [] => false | _ => n_valid n end |}.

Lemma propagate_S f ns d p :
  propagate (S f) dp ns d p =
  match find_node ns d with
  | None => ns
  | Some n =>
      let n1 := step1 n d p in
      let ns1 := upd_node ns n1 in
      if negb (Nat.eqb (length (n_justs n1)) (length (n_justs n))) && negb (n_valid n1)
      then fold_left (fun ns fd => propagate f dp ns fd d) (deps_of dp d) ns1 else ns1
  end.
Proof. reflexivity. Qed.

Lemma step1_valid n d p : n_valid (step1 n d p) = n_valid n && nonempty (n_justs (step1 n d p)).
Proof. unfold step1. cbn [n_valid n_justs]. destruct (filter _ (n_justs n)); cbn [nonempty]; [rewrite andb_false_r|rewrite andb_true_r]; reflexivity. Qed.

Lemma step1_props ns d p W n : NoDup (handles ns) -> JustInv ns -> find_node ns d = Some n -> bad ns p = true -> CE ns W ->
  let n1 := step1 n d p in let ns1 := upd_node ns n1 in
  (forall x, find_node ns1 x = if N.eqb d x then Some n1 else find_node ns x)
  /\ (forall q, bad ns1 q = if N.eqb d q then memN q X || negb (n_valid n1) else bad ns q)
  /\ Rel ns ns1 /\ JustInv ns1 /\ CE ns1 (d :: W)
  /\ (total_justs ns1 + length (n_justs n) = total_justs ns + length (n_justs n1))%nat.
Proof.
  intros ND JI F Hb HCE n1 ns1.
  assert (Hd : n_h n = d) by (eapply find_node_h; eauto).
  assert (Ff : forall x, find_node ns1 x = if N.eqb d x then Some n1 else find_node ns x).
  { intros x. unfold ns1. rewrite find_upd. cbn [n1 step1 n_h]. destruct (N.eqb d x) eqn:E; [|reflexivity]. apply N.eqb_eq in E. subst x. rewrite F. reflexivity. }
  assert (Fb : forall q, bad ns1 q = if N.eqb d q then memN q X || negb (n_valid n1) else bad ns q).
  { intros q. unfold bad. rewrite Ff. destruct (N.eqb d q); reflexivity. }
  assert (Hbp : bad ns1 p = true).
  { rewrite Fb. destruct (N.eqb d p) eqn:E; [|exact Hb]. apply N.eqb_eq in E. subst p. unfold bad in Hb. rewrite F in Hb.
    destruct (memN d X); [reflexivity|]. cbn [orb] in *.
    unfold n1. rewrite step1_valid. apply negb_true_iff in Hb. rewrite Hb. reflexivity. }
  split; [exact Ff|]. split; [exact Fb|]. split; [|split; [|split]].
  - split; [apply handles_upd|]. intros x m Fm. rewrite Ff. destruct (N.eqb d x) eqn:E.
    + apply N.eqb_eq in E. subst x. rewrite F in Fm. inversion Fm; subst m. exists n1. split; [reflexivity|]. repeat split.
      * cbn. symmetry. exact Hd.
      * exists [p]. split; [intros q [<-|[]]; exact Hbp|]. cbn [n1 step1 n_justs]. apply filter_ext. intros J. rewrite avoid_single. reflexivity.
      * apply step1_valid.
    + exists m. split; [exact Fm|]. repeat split.
      * exists []. split; [intros q []|]. symmetry. rewrite (filter_ext _ (fun _ => true)) by (intros; apply avoid_nil). apply filter_true.
      * destruct (n_valid m) eqn:Ev; [|reflexivity]. symmetry. apply nonempty_true. apply (JI x m Fm Ev).
  - intros x m Fm Hv. rewrite Ff in Fm. destruct (N.eqb d x) eqn:E; [|apply (JI x m Fm Hv)].
    inversion Fm; subst m. unfold n1 in Hv. rewrite step1_valid in Hv. apply andb_true_iff in Hv. apply nonempty_true. apply Hv.
  - intros x m J q Fm HJ Hq Hbq. rewrite Fb in Hbq. destruct (N.eqb d q) eqn:Eq; [left; apply N.eqb_eq; exact Eq|]. right.
    rewrite Ff in Fm. destruct (N.eqb d x) eqn:E.
    + inversion Fm; subst m. cbn [n1 step1 n_justs] in HJ. apply filter_In in HJ. apply (HCE d n J q F (proj1 HJ) Hq Hbq).
    + apply (HCE x m J q Fm HJ Hq Hbq).
  - unfold ns1. apply total_justs_upd; [exact ND|]. cbn [n1 step1 n_h]. exact F.
Qed.

Theorem propagate_spec : forall f, PSpec f.
Proof.
  induction f as [|f IH]; intros ns d p W H; [pose proof (h_fuel _ _ _ _ H); lia|].
  rewrite propagate_S. destruct (find_node ns d) as [n|] eqn:F.
  2:{ split; [|intros n' F'; congruence]. constructor; [apply Rel_refl; apply H|apply H|apply H|lia|apply H]. }
  destruct (step1_props ns d p W n (h_nodup _ _ _ _ H) (h_just _ _ _ _ H) F (h_bad _ _ _ _ H) (h_ce _ _ _ _ H)) as (Ff & Fb & R1 & J1 & CE1 & T1).
  cbn zeta. set (n1 := step1 n d p) in *. set (ns1 := upd_node ns n1) in *.
  assert (Hd : n_h n = d) by (eapply find_node_h; eauto).
  assert (Hv1eq : n_valid n1 = n_valid n && nonempty (n_justs n1)) by apply step1_valid.
  assert (Hlen : (length (n_justs n1) <= length (n_justs n))%nat) by (cbn [n1 step1 n_justs]; apply filter_len).
  assert (Hnop : forall J, In J (n_justs n1) -> memN p J = false).
  { intros J HJ. cbn [n1 step1 n_justs] in HJ. apply filter_In in HJ. apply negb_true_iff. apply HJ. }
  (* a newly invalid d is in C *)
  assert (HnewC : bad ns d = false -> n_valid n1 = false -> C d).
  { intros Hbd Hv1. unfold bad in Hbd. rewrite F in Hbd. apply orb_false_iff in Hbd. destruct Hbd as [HdX Hbd]. apply negb_false_iff in Hbd.
    rewrite Hv1eq, Hbd in Hv1. cbn [andb] in Hv1. destruct (n_justs n1) eqn:Ej; [|discriminate].
    destruct (Rel_find_back _ _ _ _ (h_rel0 _ _ _ _ H) F) as [n0 F0].
    destruct (proj2 (h_rel0 _ _ _ _ H) d n0 F0) as [m [Fm (_ & _ & [Ps [HPs Jn]] & Vn)]]. rewrite F in Fm. inversion Fm; subst m.
    assert (V0 : n_valid n0 = true) by (rewrite Vn in Hbd; apply andb_true_iff in Hbd; apply Hbd).
    apply (C_closed d n0 F0 (h_just0 _ _ _ _ H d n0 F0 V0)). intros J HJ.
    cbn [n1 step1 n_justs] in Ej. rewrite Jn, filter_filter in Ej.
    pose proof (filter_nil_all _ _ Ej J HJ) as Hf. cbn beta in Hf. apply andb_false_iff in Hf. destruct Hf as [Hf|Hf].
    - unfold avoid in Hf. apply negb_false_iff in Hf. apply existsb_exists in Hf. destruct Hf as [q [Hq Hm]].
      exists q. split; [apply memN_In; exact Hm|apply (h_badC _ _ _ _ H); apply HPs; exact Hq].
    - apply negb_false_iff in Hf. exists p. split; [apply memN_In; exact Hf|apply (h_badC _ _ _ _ H); apply (h_bad _ _ _ _ H)]. }
  assert (HbadC1 : forall q, bad ns1 q = true -> C q).
  { intros q Hq. rewrite Fb in Hq. destruct (N.eqb d q) eqn:E; [|apply (h_badC _ _ _ _ H q Hq)].
    apply N.eqb_eq in E. subst q. destruct (bad ns d) eqn:Ebd; [apply (h_badC _ _ _ _ H d Ebd)|].
    apply HnewC; [reflexivity|]. unfold bad in Ebd. apply orb_false_iff in Ebd. rewrite (proj1 Ebd) in Hq. cbn [orb] in Hq. apply negb_true_iff in Hq. exact Hq. }
  destruct (negb (Nat.eqb (length (n_justs n1)) (length (n_justs n))) && negb (n_valid n1)) eqn:Cond.
  - (* d lost a justification and is invalid: recurse through its dependents *)
    apply andb_true_iff in Cond. destruct Cond as [Ch Nv]. apply negb_true_iff in Ch. apply Nat.eqb_neq in Ch. apply negb_true_iff in Nv.
    assert (H1 : Hyp ns1 f d (d :: W)).
    { constructor.
      - unfold ns1. rewrite handles_upd. apply H.
      - exact J1.
      - eapply Rel_Edges; [exact R1|apply H].
      - pose proof (h_fuel _ _ _ _ H). lia.
      - rewrite Fb, N.eqb_refl, Nv. apply orb_true_r.
      - exact CE1.
      - left. reflexivity.
      - eapply Rel_trans; [apply H|exact R1].
      - apply H.
      - exact HbadC1. }
    destruct (fold_spec f IH (deps_of dp d) ns1 d (d :: W) H1) as [C2 N2]. cbn zeta in C2, N2.
    set (ns' := fold_left (fun ns fd => propagate f dp ns fd d) (deps_of dp d) ns1) in *.
    assert (Rt : Rel ns ns') by (eapply Rel_trans; [exact R1|apply C2]).
    split.
    + constructor; [exact Rt|apply C2| | |apply C2].
      * intros x m J q Fm HJ Hq Hbq. destruct (c_ce _ _ _ C2 x m J q Fm HJ Hq Hbq) as [<-|Hw]; [|exact Hw]. exfalso.
        assert (Hx : In x (deps_of dp d)) by (eapply (Rel_Edges dp ns ns' Rt (h_edges _ _ _ _ H)); eauto).
        pose proof (N2 x Hx m Fm J HJ) as Hm. apply memN_In in Hq. congruence.
      * pose proof (c_tot _ _ _ C2) as Hc2. lia.
    + intros n' F' J HJ. apply Hnop. assert (F1 : find_node ns1 d = Some n1) by (rewrite Ff, N.eqb_refl; reflexivity).
      eapply Rel_justs_incl; [apply C2|exact F1|exact F'|exact HJ].
  - (* nothing (more) to propagate *)
    assert (Hsame : bad ns1 d = bad ns d).
    { rewrite Fb, N.eqb_refl. unfold bad. rewrite F. f_equal. f_equal. rewrite Hv1eq. destruct (n_valid n) eqn:Ev; cbn [andb]; [|reflexivity].
      destruct (n_justs n1) eqn:Ej; cbn [nonempty]; [|reflexivity]. exfalso.
      apply andb_false_iff in Cond. destruct Cond as [Cd|Cd].
      - apply negb_false_iff in Cd. apply Nat.eqb_eq in Cd. cbn in Cd.
        pose proof (h_just _ _ _ _ H d n F Ev) as Hne. destruct (n_justs n); [apply Hne; reflexivity|discriminate].
      - apply negb_false_iff in Cd. rewrite Hv1eq in Cd. cbn in Cd. discriminate. }
    split.
    + constructor; [exact R1|exact J1| |lia|].
      * intros x m J q Fm HJ Hq Hbq. destruct (CE1 x m J q Fm HJ Hq Hbq) as [<-|Hw]; [|exact Hw].
        rewrite Hsame in Hbq. rewrite Ff in Fm. destruct (N.eqb d x) eqn:E.
        -- inversion Fm; subst m. cbn [n1 step1 n_justs] in HJ. apply filter_In in HJ. apply (h_ce _ _ _ _ H d n J d F (proj1 HJ) Hq Hbq).
        -- apply (h_ce _ _ _ _ H x m J d Fm HJ Hq Hbq).
      * exact HbadC1.
    + intros n' F' J HJ. rewrite Ff, N.eqb_refl in F'. inversion F'; subst n'. apply Hnop. exact HJ.
Qed.
End Propagation.
End WithX.

(** * the graph invariant and the exact effect of invalidate *)
Record Inv (g : pg) : Prop := {
  i_nodup : NoDup (handles (nodes g));
  i_just : JustInv (nodes g);
  i_edges : Edges (deps g) (nodes g);
  i_clean : CE [] (nodes g) [] }.

Definition cleanb (X : list N) (ns : list node) (J : list N) : bool := forallb (fun q => negb (bad X ns q)) J.

Definition mark (ns : list node) (h : N) : list node :=
  match find_node ns h with
  | Some n => upd_node ns {| n_h := h; n_key := n_key n; n_justs := n_justs n; n_valid := false |}
  | None => ns end.

Lemma invalidate_unfold g h :
  nodes (invalidate g h) =
  fold_left (fun ns d => propagate (S (total_justs (mark (nodes g) h))) (deps g) ns d h) (deps_of (deps g) h) (mark (nodes g) h).
Proof. reflexivity. Qed.

Lemma find_mark ns h x : find_node (mark ns h) x =
  match find_node ns x with
  | Some n => Some (if N.eqb h x then {| n_h := h; n_key := n_key n; n_justs := n_justs n; n_valid := false |} else n)
  | None => None end.
Proof.
  unfold mark. destruct (find_node ns h) as [nh|] eqn:Fh.
  - rewrite find_upd. cbn [n_h]. destruct (N.eqb h x) eqn:E; [apply N.eqb_eq in E; subst x; rewrite Fh; reflexivity|]. destruct (find_node ns x); reflexivity.
  - destruct (find_node ns x) as [n|] eqn:F; [|reflexivity]. destruct (N.eqb h x) eqn:E; [apply N.eqb_eq in E; subst x; congruence|reflexivity].
Qed.
Lemma handles_mark ns h : handles (mark ns h) = handles ns.
Proof. unfold mark. destruct (find_node ns h); [apply handles_upd|reflexivity]. Qed.

Section Invalidate.
Variable g : pg.
Variable h : N.
Hypothesis HI : Inv g.
(** C: any set containing h and the already invalid proofs that is closed under loss of support in g *)
Variable C : N -> Prop.
Hypothesis C_h : C h.
Hypothesis C_old : forall q, bad [] (nodes g) q = true -> C q.
Hypothesis C_closed : forall x n, find_node (nodes g) x = Some n -> n_justs n <> [] ->
  (forall J, In J (n_justs n) -> exists q, In q J /\ C q) -> C x.

Let nsm := mark (nodes g) h.

Lemma bad_mark q : bad [h] nsm q = N.eqb q h || bad [] (nodes g) q.
Proof.
  unfold bad, nsm. cbn [memN]. rewrite orb_false_r. cbn [orb]. rewrite find_mark.
  destruct (N.eqb q h) eqn:E; [reflexivity|]. cbn [orb]. destruct (find_node (nodes g) q) as [n|]; [|reflexivity].
  rewrite N.eqb_sym, E. reflexivity.
Qed.

Lemma hyp_mark : Hyp [h] (deps g) nsm C nsm (S (total_justs nsm)) h [h].
Proof.
  assert (JIm : JustInv nsm).
  { intros x n F Hv. unfold nsm in F. rewrite find_mark in F. destruct (find_node (nodes g) x) as [n0|] eqn:F0; [|discriminate].
    inversion F; subst n. destruct (N.eqb h x); [discriminate|apply (i_just g HI x n0 F0 Hv)]. }
  constructor.
  - unfold nsm. rewrite handles_mark. apply HI.
  - exact JIm.
  - intros x n J q F HJ Hq. unfold nsm in F. rewrite find_mark in F. destruct (find_node (nodes g) x) as [n0|] eqn:F0; [|discriminate].
    inversion F; subst n. apply (i_edges g HI x n0 J q F0); [|exact Hq]. destruct (N.eqb h x); exact HJ.
  - lia.
  - rewrite bad_mark, N.eqb_refl. reflexivity.
  - intros x n J q F HJ Hq Hb. rewrite bad_mark in Hb. apply orb_true_iff in Hb. destruct Hb as [Hb|Hb]; [left; symmetry; apply N.eqb_eq; exact Hb|].
    exfalso. unfold nsm in F. rewrite find_mark in F. destruct (find_node (nodes g) x) as [n0|] eqn:F0; [|discriminate].
    inversion F; subst n. apply (i_clean g HI x n0 J q F0); [destruct (N.eqb h x); exact HJ|exact Hq|exact Hb].
  - left. reflexivity.
  - apply Rel_refl. exact JIm.
  - exact JIm.
  - intros q Hb. rewrite bad_mark in Hb. apply orb_true_iff in Hb. destruct Hb as [Hb|Hb]; [apply N.eqb_eq in Hb; subst q; exact C_h|apply C_old; exact Hb].
Qed.

Lemma C_closed_mark : forall x n, find_node nsm x = Some n -> n_justs n <> [] -> (forall J, In J (n_justs n) -> exists q, In q J /\ C q) -> C x.
Proof.
  intros x n F Hne Hall. unfold nsm in F. rewrite find_mark in F. destruct (find_node (nodes g) x) as [n0|] eqn:F0; [|discriminate].
  inversion F; subst n. apply (C_closed x n0 F0); destruct (N.eqb h x); assumption.
Qed.

Let ns1 := nodes (invalidate g h).

Lemma invalidate_concl :
  Concl [h] C nsm ns1 [h]
  /\ forall x n J, find_node ns1 x = Some n -> In J (n_justs n) -> memN h J = false.
Proof.
  unfold ns1. rewrite invalidate_unfold. fold nsm.
  destruct (fold_spec [h] (deps g) nsm C (S (total_justs nsm)) (propagate_spec [h] (deps g) nsm C C_closed_mark (S (total_justs nsm)))
              (deps_of (deps g) h) nsm h [h] hyp_mark) as [Cc Nn]. cbn zeta in Cc, Nn.
  split; [exact Cc|]. intros x n J F HJ. destruct (memN h J) eqn:Em; [|reflexivity]. exfalso.
  assert (Hx : In x (deps_of (deps g) h)).
  { eapply (Rel_Edges [h] (deps g) nsm _ (c_rel _ _ _ _ _ Cc) (h_edges _ _ _ _ _ _ _ _ hyp_mark)); [exact F|exact HJ|apply memN_In; exact Em]. }
  rewrite (Nn x Hx n F J HJ) in Em. discriminate.
Qed.
End Invalidate.

Lemma bad_weaken X ns q : bad [] ns q = true -> bad X ns q = true.
Proof. unfold bad. cbn [memN orb]. intros H. rewrite H. apply orb_true_r. Qed.

Theorem invalidate_Inv g h : Inv g -> Inv (invalidate g h).
Proof.
  intros HI.
  destruct (invalidate_concl g h HI (fun _ => True) I (fun _ _ => I) (fun _ _ _ _ _ => I)) as [Cc Nh].
  pose proof (hyp_mark g h HI (fun _ => True) I (fun _ _ => I)) as Hm.
  constructor.
  - rewrite (proj1 (c_rel _ _ _ _ _ Cc)). rewrite handles_mark. apply HI.
  - apply (c_just _ _ _ _ _ Cc).
  - change (deps (invalidate g h)) with (deps g). eapply Rel_Edges; [apply (c_rel _ _ _ _ _ Cc)|apply (h_edges _ _ _ _ _ _ _ _ Hm)].
  - intros x n J q F HJ Hq Hb. destruct (c_ce _ _ _ _ _ Cc x n J q F HJ Hq (bad_weaken [h] _ q Hb)) as [<-|[]].
    pose proof (Nh x n J F HJ) as Hn. apply memN_In in Hq. congruence.
Qed.

(** exactness: every cached proof keeps exactly its justifications without a dead premise, and stays valid
    exactly when it was valid, is not the invalidated handle, and keeps a justification *)
Theorem invalidate_exact g h : Inv g -> forall x n, find_node (nodes g) x = Some n ->
  exists n', find_node (nodes (invalidate g h)) x = Some n'
    /\ n_justs n' = filter (cleanb [h] (nodes (invalidate g h))) (n_justs n)
    /\ n_valid n' = n_valid n && negb (N.eqb x h) && nonempty (n_justs n').
Proof.
  intros HI x n F.
  destruct (invalidate_concl g h HI (fun _ => True) I (fun _ _ => I) (fun _ _ _ _ _ => I)) as [Cc Nh].
  set (ns1 := nodes (invalidate g h)) in *.
  set (nm := if N.eqb h x then {| n_h := h; n_key := n_key n; n_justs := n_justs n; n_valid := false |} else n).
  assert (Jm : n_justs nm = n_justs n) by (unfold nm; destruct (N.eqb h x); reflexivity).
  assert (Vm : n_valid nm = n_valid n && negb (N.eqb x h)).
  { unfold nm. rewrite (N.eqb_sym x h). destruct (N.eqb h x); cbn [n_valid negb]; [rewrite andb_false_r|rewrite andb_true_r]; reflexivity. }
  assert (Fm : find_node (mark (nodes g) h) x = Some nm) by (rewrite find_mark, F; reflexivity).
  destruct (proj2 (c_rel _ _ _ _ _ Cc) x nm Fm) as [n' [F' (_ & _ & [Ps [HPs Jn]] & Vn)]].
  rewrite Jm in Jn. rewrite Vm in Vn.
  exists n'. split; [exact F'|]. split; [|exact Vn].
  rewrite Jn. apply filter_ext_in. intros J HJ. unfold cleanb. destruct (avoid Ps J) eqn:Ea.
  - symmetry. apply forallb_forall. intros q Hq. apply negb_true_iff. destruct (bad [h] ns1 q) eqn:Eb; [|reflexivity]. exfalso.
    assert (HJ' : In J (n_justs n')) by (rewrite Jn; apply filter_In; split; [exact HJ|exact Ea]).
    destruct (c_ce _ _ _ _ _ Cc x n' J q F' HJ' Hq Eb) as [<-|[]].
    pose proof (Nh x n' J F' HJ') as Hn. apply memN_In in Hq. congruence.
  - symmetry. unfold avoid in Ea. apply negb_false_iff in Ea. apply existsb_exists in Ea. destruct Ea as [p [Hp Hm]].
    destruct (forallb (fun q => negb (bad [h] ns1 q)) J) eqn:Ef; [|reflexivity].
    rewrite forallb_forall in Ef. specialize (Ef p (proj1 (memN_In p J) Hm)). rewrite (HPs p Hp) in Ef. discriminate.
Qed.

(** minimality: nothing is dead after the call unless every closed set that contains h and the old dead contains it *)
Theorem invalidate_minimal g h (C : N -> Prop) : Inv g -> C h -> (forall q, bad [] (nodes g) q = true -> C q) ->
  (forall x n, find_node (nodes g) x = Some n -> n_justs n <> [] -> (forall J, In J (n_justs n) -> exists q, In q J /\ C q) -> C x) ->
  forall q, bad [h] (nodes (invalidate g h)) q = true -> C q.
Proof. intros HI Ch Co Cc. destruct (invalidate_concl g h HI C Ch Co Cc) as [Cn _]. apply (c_badC _ _ _ _ _ Cn). Qed.

(** * insertion keeps the invariant *)
Lemma deps_of_app d p x q : deps_of (d ++ [(p, x)]) q = deps_of d q ++ (if N.eqb p q then [x] else []).
Proof. unfold deps_of. rewrite filter_app, map_app. cbn [filter fst]. destruct (N.eqb p q); reflexivity. Qed.
Lemma has_edge_deps d p x : has_edge d p x = true -> In x (deps_of d p).
Proof.
  unfold has_edge, deps_of. intros H. apply existsb_exists in H. destruct H as [e [He Hh]]. apply andb_true_iff in Hh. destruct Hh as [H1 H2].
  apply N.eqb_eq in H2. subst x. apply in_map. apply filter_In. split; [exact He|exact H1].
Qed.
Lemma add_edges_mono ps : forall d x y q, In y (deps_of d q) -> In y (deps_of (add_edges d x ps) q).
Proof.
  unfold add_edges. induction ps as [|p ps IH]; intros d x y q H; cbn [fold_left]; [exact H|].
  apply IH. destruct (has_edge d p x); [exact H|]. rewrite deps_of_app. apply in_or_app. left. exact H.
Qed.
Lemma add_edges_has ps : forall d x q, In q ps -> In x (deps_of (add_edges d x ps) q).
Proof.
  induction ps as [|p ps IH]; intros d x q Hin; [destruct Hin|]. destruct Hin as [->|Hq].
  - unfold add_edges. cbn [fold_left]. apply (add_edges_mono ps).
    destruct (has_edge d q x) eqn:E; [apply has_edge_deps; exact E|]. rewrite deps_of_app, N.eqb_refl. apply in_or_app. right. left. reflexivity.
  - unfold add_edges. cbn [fold_left]. apply IH. exact Hq.
Qed.

Lemma find_app' {T} (f : T -> bool) l1 l2 : find f (l1 ++ l2) = match find f l1 with Some x => Some x | None => find f l2 end.
Proof. induction l1 as [|y l1 IH]; cbn [app find]; [reflexivity|]. destruct (f y); [reflexivity|exact IH]. Qed.

Lemma NoDup_snoc {T} (l : list T) x : NoDup l -> ~ In x l -> NoDup (l ++ [x]).
Proof.
  induction l as [|y l IH]; intros ND Hn; cbn [app]; [constructor; [intros []|constructor]|].
  inversion ND as [|? ? Hy ND']; subst. constructor.
  - intros Hc. apply in_app_or in Hc. destruct Hc as [Hc|[Hc|[]]]; [exact (Hy Hc)|apply Hn; left; symmetry; exact Hc].
  - apply IH; [exact ND'|intros Hc; apply Hn; right; exact Hc].
Qed.

Definition node_after (g : pg) (h key : N) (ps : list N) : node :=
  match find_node (nodes g) h with
  | Some n => {| n_h := h; n_key := n_key n; n_justs := n_justs n ++ [ps]; n_valid := true |}
  | None => {| n_h := h; n_key := key; n_justs := [ps]; n_valid := true |} end.

Lemma find_insert g h key ps x :
  find_node (nodes (insert_proof g h key ps)) x = if N.eqb h x then Some (node_after g h key ps) else find_node (nodes g) x.
Proof.
  unfold insert_proof, node_after. cbn [nodes]. destruct (find_node (nodes g) h) as [n|] eqn:Fh.
  - rewrite find_upd. cbn [n_h]. destruct (N.eqb h x) eqn:E; [|reflexivity]. apply N.eqb_eq in E. subst x. rewrite Fh. reflexivity.
  - unfold find_node in *. rewrite find_app'. destruct (find (fun n => N.eqb (n_h n) x) (nodes g)) as [m|] eqn:Fx.
    + destruct (N.eqb h x) eqn:E; [|reflexivity]. apply N.eqb_eq in E. subst x. congruence.
    + cbn [find n_h]. destruct (N.eqb h x); reflexivity.
Qed.

Theorem insert_Inv g h key ps : Inv g -> (forall p, In p ps -> bad [] (nodes g) p = false) -> Inv (insert_proof g h key ps).
Proof.
  intros HI Hps.
  assert (Hbad : forall q, bad [] (nodes (insert_proof g h key ps)) q = true -> bad [] (nodes g) q = true).
  { intros q. unfold bad. cbn [memN orb]. rewrite find_insert. destruct (N.eqb h q); [|auto]. unfold node_after. destruct (find_node (nodes g) h); cbn [n_valid negb]; discriminate. }
  constructor.
  - unfold insert_proof. cbn [nodes]. destruct (find_node (nodes g) h) as [n|] eqn:Fh; [rewrite handles_upd; apply HI|].
    unfold handles. rewrite map_app. cbn [map n_h]. apply find_node_none in Fh.
    apply NoDup_snoc; [apply HI|exact Fh].
  - intros x n F Hv. rewrite find_insert in F. destruct (N.eqb h x); [|apply (i_just g HI x n F Hv)].
    inversion F; subst n. unfold node_after. destruct (find_node (nodes g) h) as [m|]; cbn [n_justs]; [|discriminate]. intros Hc. apply app_eq_nil in Hc. destruct Hc; discriminate.
  - intros x n J q F HJ Hq. change (deps (insert_proof g h key ps)) with (add_edges (deps g) h ps). rewrite find_insert in F.
    destruct (N.eqb h x) eqn:E.
    + apply N.eqb_eq in E. subst x. inversion F; subst n. unfold node_after in HJ. destruct (find_node (nodes g) h) as [m|] eqn:Fh; cbn [n_justs] in HJ.
      * apply in_app_or in HJ. destruct HJ as [HJ|[<-|[]]]; [apply add_edges_mono; apply (i_edges g HI h m J q Fh HJ Hq)|apply add_edges_has; exact Hq].
      * destruct HJ as [<-|[]]. apply add_edges_has. exact Hq.
    + apply add_edges_mono. apply (i_edges g HI x n J q F HJ Hq).
  - intros x n J q F HJ Hq Hb. apply Hbad in Hb. rewrite find_insert in F. destruct (N.eqb h x) eqn:E.
    + inversion F; subst n. unfold node_after in HJ. destruct (find_node (nodes g) h) as [m|] eqn:Fh; cbn [n_justs] in HJ.
      * apply in_app_or in HJ. destruct HJ as [HJ|[<-|[]]]; [apply (i_clean g HI h m J q Fh HJ Hq Hb)|rewrite (Hps q Hq) in Hb; discriminate].
      * destruct HJ as [<-|[]]. rewrite (Hps q Hq) in Hb. discriminate.
    + apply (i_clean g HI x n J q F HJ Hq Hb).
Qed.

(** * histories *)
Definition op_ok (g : pg) (o : op) : Prop :=
  match o with Insert _ _ ps => forall p, In p ps -> bad [] (nodes g) p = false | _ => True end.
Fixpoint wf_run (g : pg) (ops : list op) : Prop :=
  match ops with [] => True | o :: r => op_ok g o /\ wf_run (fst (step g o)) r end.
Fixpoint exec (g : pg) (ops : list op) : pg := match ops with [] => g | o :: r => exec (fst (step g o)) r end.

Lemma Inv_init : Inv init.
Proof. constructor; cbn; try constructor; intros x n; try discriminate; intros; discriminate. Qed.

Lemma step_Inv g o : Inv g -> op_ok g o -> Inv (fst (step g o)).
Proof. intros HI Hok. destruct o as [h k ps|h|k]; cbn [step fst]; [apply insert_Inv; assumption|apply invalidate_Inv; exact HI|exact HI]. Qed.

Theorem exec_Inv ops : forall g, Inv g -> wf_run g ops -> Inv (exec g ops).
Proof. induction ops as [|o r IH]; intros g HI W; cbn [exec]; [exact HI|]. destruct W as [W1 W2]. apply IH; [apply step_Inv; assumption|exact W2]. Qed.
