(** C12 — tumbling windowing (WindowedStream::new) places every event in exactly one window: the window of the aligned
    interval that contains its timestamp; a window holds exactly the events of its interval, in arrival order, cut to the
    newest [cap]; there is one window per interval that received an event and no other window. *)
From RRE Require Import Base.Sx Base.Float Model.Window Proofs.WindowProofs.
From Coq Require Import Lia.
Open Scope N_scope.

Definition al (dur : N) (e : event) : N := (ets e / dur) * dur.
Definition content (dur cap : N) (es : list event) (s : N) : list event := cap_events cap (filter (fun x => al dur x =? s) es).

Lemma al_range dur e : 0 < dur -> al dur e <= ets e /\ ets e < al dur e + dur.
Proof.
  intros Hd. unfold al. pose proof (N.div_mod' (ets e) dur) as E. pose proof (N.mod_lt (ets e) dur ltac:(lia)) as M.
  rewrite (N.mul_comm (ets e / dur) dur).
  set (q := ets e / dur) in *. set (r := ets e mod dur) in *. clearbody q r. lia.
Qed.

Lemma drop_front_add {T} a : forall b (l : list T), drop_front (a + b) l = drop_front b (drop_front a l).
Proof.
  induction a as [|a IH]; intros b l; cbn [Nat.add drop_front]; [reflexivity|].
  destruct l as [|y l]; [destruct b; reflexivity|]. apply IH.
Qed.
Lemma drop_front_app {T} k : forall (l m : list T), (k <= length l)%nat -> drop_front k (l ++ m) = drop_front k l ++ m.
Proof.
  induction k as [|k IH]; intros l m H; cbn [drop_front]; [reflexivity|].
  destruct l as [|y l]; cbn [length] in H; [lia|]. cbn [app]. apply IH. lia.
Qed.
Lemma drop_front_all {T} k : forall (l : list T), (length l <= k)%nat -> drop_front k l = [].
Proof. induction k as [|k IH]; intros l H; destruct l as [|y l]; cbn [length] in H; cbn [drop_front]; try reflexivity; [lia|apply IH; lia]. Qed.

Lemma cap_cap cap l e : cap_events cap (cap_events cap l ++ [e]) = cap_events cap (l ++ [e]).
Proof.
  unfold cap_events. rewrite !app_length, drop_front_length. cbn [length].
  set (n := length l). set (c := N.to_nat cap).
  destruct (Nat.le_gt_cases n c) as [H|H].
  - replace (n - c)%nat with 0%nat by lia. cbn [drop_front]. fold n. replace (n - 0 + 1 - c)%nat with (n + 1 - c)%nat by lia. reflexivity.
  - replace (n - (n - c) + 1 - c)%nat with 1%nat by lia. replace (n + 1 - c)%nat with ((n - c) + 1)%nat by lia.
    rewrite drop_front_add. rewrite (drop_front_app (n - c) l [e]) by (fold n; lia). reflexivity.
Qed.
Lemma cap_id cap l : (length l <= N.to_nat cap)%nat -> cap_events cap l = l.
Proof. intros H. unfold cap_events. replace (length l - N.to_nat cap)%nat with 0%nat by lia. reflexivity. Qed.

Lemma filter_len_le {T} (p : T -> bool) l : (length (filter p l) <= length l)%nat.
Proof. induction l as [|y l IH]; cbn [filter length]; [lia|]. destruct (p y); cbn [length]; lia. Qed.

Section Tumbling.
Variables dur cap : N.
Hypothesis Hdur : 0 < dur.

Definition Good (es : list event) (w : window) : Prop :=
  w_end w = w_start w + dur /\ w_events w = content dur cap es (w_start w) /\ exists e, In e es /\ al dur e = w_start w.

Record GInv (es : list event) (ws : list window) : Prop := {
  g_nodup : NoDup (map w_start ws);
  g_good : forall w, In w ws -> Good es w;
  g_cover : forall e, In e es -> In (al dur e) (map w_start ws)
}.

Lemma group_add_new e : forall ws, ~ In (al dur e) (map w_start ws) ->
  group_add dur cap ws e = ws ++ [fst (add_event cap {| w_start := al dur e; w_end := al dur e + dur; w_events := [] |} e)].
Proof.
  induction ws as [|w r IH]; intros H; cbn [group_add app]; [reflexivity|]. fold (al dur e).
  cbn [map] in H. destruct (w_start w =? al dur e) eqn:E; [apply N.eqb_eq in E; exfalso; apply H; left; exact E|].
  rewrite IH; [reflexivity|]. intros Hc. apply H. right. exact Hc.
Qed.
Lemma group_add_hit e w r2 : forall r1, ~ In (al dur e) (map w_start r1) -> w_start w = al dur e ->
  group_add dur cap (r1 ++ w :: r2) e = r1 ++ fst (add_event cap w e) :: r2.
Proof.
  induction r1 as [|y r1 IH]; intros H Hs; cbn [group_add app]; fold (al dur e).
  - rewrite Hs, N.eqb_refl. reflexivity.
  - cbn [map] in H. destruct (w_start y =? al dur e) eqn:E; [apply N.eqb_eq in E; exfalso; apply H; left; exact E|].
    rewrite IH; [reflexivity| |exact Hs]. intros Hc. apply H. right. exact Hc.
Qed.

Lemma add_event_in w e : w_start w = al dur e -> w_end w = w_start w + dur ->
  fst (add_event cap w e) = {| w_start := w_start w; w_end := w_end w; w_events := cap_events cap (w_events w ++ [e]) |}.
Proof.
  intros Hs He. unfold add_event. destruct (al_range dur e Hdur) as [R1 R2].
  assert (C : (w_start w <=? ets e) && (ets e <? w_end w) = true).
  { apply andb_true_iff. split; [apply N.leb_le; lia|apply N.ltb_lt; lia]. }
  rewrite C. reflexivity.
Qed.

Lemma filter_snoc (s : N) es e : filter (fun x => al dur x =? s) (es ++ [e]) = filter (fun x => al dur x =? s) es ++ (if al dur e =? s then [e] else []).
Proof. rewrite filter_app. cbn [filter]. destruct (al dur e =? s); reflexivity. Qed.

Lemma Good_other es e w : Good es w -> w_start w <> al dur e -> Good (es ++ [e]) w.
Proof.
  intros (G1 & G2 & x & Hx & Ha) Hne. split; [exact G1|]. split.
  - rewrite G2. unfold content. rewrite filter_snoc. destruct (al dur e =? w_start w) eqn:E; [apply N.eqb_eq in E; congruence|]. rewrite app_nil_r. reflexivity.
  - exists x. split; [apply in_or_app; left; exact Hx|exact Ha].
Qed.

Lemma group_add_inv es ws e : GInv es ws -> GInv (es ++ [e]) (group_add dur cap ws e).
Proof.
  intros [ND GG CV]. destruct (in_dec N.eq_dec (al dur e) (map w_start ws)) as [Hin|Hnin].
  - (* the interval already has its window *)
    apply in_map_iff in Hin. destruct Hin as (w & Hs & Hw). apply in_split in Hw. destruct Hw as (r1 & r2 & ->).
    assert (Hr1 : ~ In (al dur e) (map w_start r1) /\ ~ In (al dur e) (map w_start r2)).
    { rewrite map_app in ND. cbn [map] in ND. rewrite <- Hs. split; intros Hc.
      - clear - ND Hc. induction r1 as [|y r1 IH]; [destruct Hc|]. cbn [map app] in ND. inversion ND as [|? ? Hy ND']; subst.
        destruct Hc as [Hc|Hc]; [apply Hy; rewrite Hc; apply in_or_app; right; left; reflexivity|apply IH; assumption].
      - apply NoDup_remove_2 in ND. apply ND. apply in_or_app. right. exact Hc. }
    destruct Hr1 as [Hr1 Hr2]. rewrite (group_add_hit e w r2 r1 Hr1 Hs).
    destruct (GG w ltac:(apply in_or_app; right; left; reflexivity)) as (G1 & G2 & x & Hx & Ha).
    rewrite (add_event_in w e Hs G1).
    assert (Hmap : map w_start (r1 ++ {| w_start := w_start w; w_end := w_end w; w_events := cap_events cap (w_events w ++ [e]) |} :: r2) = map w_start (r1 ++ w :: r2)).
    { rewrite !map_app. reflexivity. }
    constructor.
    + rewrite Hmap. exact ND.
    + intros w' Hw'. apply in_app_or in Hw'. destruct Hw' as [Hw'|[<-|Hw']].
      * apply Good_other; [apply GG; apply in_or_app; left; exact Hw'|]. intros Hc. apply Hr1. rewrite <- Hc. apply in_map. exact Hw'.
      * split; [exact G1|]. cbn [w_start w_events]. split.
        -- rewrite G2. unfold content. rewrite filter_snoc, Hs, N.eqb_refl. apply cap_cap.
        -- exists e. split; [apply in_or_app; right; left; reflexivity|symmetry; exact Hs].
      * apply Good_other; [apply GG; apply in_or_app; right; right; exact Hw'|]. intros Hc. apply Hr2. rewrite <- Hc. apply in_map. exact Hw'.
    + intros e' He'. rewrite Hmap. apply in_app_or in He'. destruct He' as [He'|[<-|[]]]; [apply CV; exact He'|].
      rewrite <- Hs. apply in_map. apply in_or_app. right. left. reflexivity.
  - (* a new window *)
    rewrite (group_add_new e ws Hnin).
    rewrite (add_event_in {| w_start := al dur e; w_end := al dur e + dur; w_events := [] |} e eq_refl eq_refl). cbn [w_start w_end w_events app].
    assert (Hempty : filter (fun x => al dur x =? al dur e) es = []).
    { clear - CV Hnin. induction es as [|y l IH]; [reflexivity|]. cbn [filter]. destruct (al dur y =? al dur e) eqn:E.
      - apply N.eqb_eq in E. exfalso. apply Hnin. rewrite <- E. apply CV. left. reflexivity.
      - apply IH. intros e' He'. apply CV. right. exact He'. }
    constructor.
    + rewrite map_app. cbn [map w_start]. clear - ND Hnin. induction (map w_start ws) as [|s l IH]; cbn [app]; [constructor; [intros []|constructor]|].
      inversion ND as [|? ? Hs ND']; subst. constructor.
      * intros Hc. apply in_app_or in Hc. destruct Hc as [Hc|[Hc|[]]]; [exact (Hs Hc)|apply Hnin; left; symmetry; exact Hc].
      * apply IH; [exact ND'|intros Hc; apply Hnin; right; exact Hc].
    + intros w' Hw'. apply in_app_or in Hw'. destruct Hw' as [Hw'|[<-|[]]].
      * apply Good_other; [apply GG; exact Hw'|]. intros Hc. apply Hnin. rewrite <- Hc. apply in_map. exact Hw'.
      * split; [reflexivity|]. cbn [w_start w_events]. split.
        -- unfold content. rewrite filter_snoc, Hempty, N.eqb_refl. reflexivity.
        -- exists e. split; [apply in_or_app; right; left; reflexivity|reflexivity].
    + intros e' He'. rewrite map_app. apply in_or_app. apply in_app_or in He'. destruct He' as [He'|[<-|[]]]; [left; apply CV; exact He'|right; left; reflexivity].
Qed.

Lemma fold_group_add_inv : forall es2 es1 ws, GInv es1 ws -> GInv (es1 ++ es2) (fold_left (group_add dur cap) es2 ws).
Proof.
  induction es2 as [|e es2 IH]; intros es1 ws H; cbn [fold_left]; [rewrite app_nil_r; exact H|].
  replace (es1 ++ e :: es2) with ((es1 ++ [e]) ++ es2) by (rewrite <- app_assoc; reflexivity). apply IH. apply group_add_inv. exact H.
Qed.

(** every window of the result is the window of an aligned interval that received an event, and it holds exactly the
    events of that interval in arrival order (the newest [cap] of them); windows are determined by their start; every
    event's interval has its window *)
Theorem windowed_exact es :
  (forall w, In w (windowed dur cap es) -> Good es w) /\
  (forall w1 w2, In w1 (windowed dur cap es) -> In w2 (windowed dur cap es) -> w_start w1 = w_start w2 -> w1 = w2) /\
  (forall e, In e es -> exists w, In w (windowed dur cap es) /\ w_start w = al dur e).
Proof.
  assert (I0 : GInv [] []) by (constructor; [constructor|intros w []|intros e []]).
  pose proof (fold_group_add_inv es [] [] I0) as [ND GG CV]. cbn [app] in *.
  unfold windowed. split; [|split].
  - intros w Hw. rewrite sort_windows_in in Hw. apply GG. exact Hw.
  - intros w1 w2 H1 H2 Hs. rewrite sort_windows_in in H1, H2.
    clear - ND H1 H2 Hs. induction (fold_left (group_add dur cap) es []) as [|y l IH]; [destruct H1|]. cbn [map] in ND. inversion ND as [|? ? Hy ND']; subst.
    destruct H1 as [->|H1], H2 as [->|H2]; [reflexivity| | |apply IH; assumption].
    + exfalso. apply Hy. rewrite Hs. apply in_map. exact H2.
    + exfalso. apply Hy. rewrite <- Hs. apply in_map. exact H1.
  - intros e He. specialize (CV e He). apply in_map_iff in CV. destruct CV as (w & Hs & Hw). exists w. split; [apply sort_windows_in; exact Hw|exact Hs].
Qed.

(** exactly one window: when no interval receives more than [cap] events, an offered event is in a window iff it is the
    window of its aligned interval *)
Theorem windowed_exactly_one es e w : (length es <= N.to_nat cap)%nat -> In e es -> In w (windowed dur cap es) ->
  (In e (w_events w) <-> w_start w = al dur e).
Proof.
  intros Hc He Hw. destruct (windowed_exact es) as (GG & _ & _). destruct (GG w Hw) as (_ & G2 & _). rewrite G2. unfold content.
  rewrite cap_id by (pose proof (filter_len_le (fun x => al dur x =? w_start w) es); lia).
  rewrite filter_In. rewrite N.eqb_eq. split; [intros [_ H]; symmetry; exact H|intros H; split; [exact He|symmetry; exact H]].
Qed.
End Tumbling.
