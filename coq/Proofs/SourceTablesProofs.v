(** Ties between tables of the models and the tables of the source as re-read by tools/consts.py on every run
    (Generated/Consts.v): the operator texts of Operator::from_str (types.rs) and the operator alternation of the GRL
    condition regex (parser/grl.rs).  A change of either table in the source breaks these lemmas. *)
From RRE Require Import Base.Sx Base.Float Base.Num Generated.Consts Model.ExprShape Model.Forward Model.ForwardSpec Model.Grl.
Open Scope Z_scope.

(** the name of the Rust variant a model operator stands for *)
Definition oper_variant (o : oper) : str :=
  match o with
  | OEq => [69; 113; 117; 97; 108]                                              (* Equal *)
  | ONe => [78; 111; 116; 69; 113; 117; 97; 108]                                (* NotEqual *)
  | OGt => [71; 114; 101; 97; 116; 101; 114; 84; 104; 97; 110]                  (* GreaterThan *)
  | OGe => [71; 114; 101; 97; 116; 101; 114; 84; 104; 97; 110; 79; 114; 69; 113; 117; 97; 108]
  | OLt => [76; 101; 115; 115; 84; 104; 97; 110]                                (* LessThan *)
  | OLe => [76; 101; 115; 115; 84; 104; 97; 110; 79; 114; 69; 113; 117; 97; 108]
  | OContains => [67; 111; 110; 116; 97; 105; 110; 115]
  | ONotContains => [78; 111; 116; 67; 111; 110; 116; 97; 105; 110; 115]
  | OStartsWith => [83; 116; 97; 114; 116; 115; 87; 105; 116; 104]
  | OEndsWith => [69; 110; 100; 115; 87; 105; 116; 104]
  | OMatches => [77; 97; 116; 99; 104; 101; 115]
  | OIn => [73; 110]
  end.

Definition all_opers : list oper := [OEq; ONe; OGt; OGe; OLt; OLe; OContains; ONotContains; OStartsWith; OEndsWith; OMatches; OIn].

Fixpoint src_from_str (t : list (list Z * list Z)) (s : str) : option str :=
  match t with [] => None | (k, v) :: r => if str_eqb k s then Some v else src_from_str r s end.

Fixpoint lists_eqb (a b : list str) : bool :=
  match a, b with [], [] => true | x :: a', y :: b' => str_eqb x y && lists_eqb a' b' | _, _ => false end.

Definition same_opt (a : option str) (b : str) : bool := match a with Some x => str_eqb x b | None => false end.

(** every variant named by the source's table is a model operator, and no model operator is missing from it *)
Definition variants_covered : bool :=
  forallb (fun p => existsb (fun o => str_eqb (snd p) (oper_variant o)) all_opers) operator_from_str
  && forallb (fun o => existsb (fun p => str_eqb (snd p) (oper_variant o)) operator_from_str) all_opers.

(** the text the model prints for an operator is a text Operator::from_str maps to that operator *)
Definition printed_texts_parse_back : bool :=
  forallb (fun o => same_opt (src_from_str operator_from_str (op_str o)) (oper_variant o)) all_opers.

(** the GRL condition regex offers exactly the operator texts of the model's table, in the same order (leftmost wins),
    and Operator::from_str maps each of them to the operator the model's table gives *)
Definition grl_table_is_source : bool :=
  lists_eqb (map fst op_table) grl_condition_ops
  && forallb (fun p => same_opt (src_from_str operator_from_str (fst p)) (oper_variant (snd p))) op_table.

Lemma source_tables_tied : variants_covered = true /\ printed_texts_parse_back = true /\ grl_table_is_source = true.
Proof. vm_compute. repeat split. Qed.

Lemma all_opers_complete o : In o all_opers.
Proof. destruct o; cbn; tauto. Qed.
