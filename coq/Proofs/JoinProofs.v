(** C14 — proofs about Model/Join.v *)
From RRE Require Import Base.Sx Model.Join.
From Coq Require Import Lia Permutation.
Open Scope Z_scope.

Section JoinProofs.
Variable cond : event -> event -> bool.
Variable w : Z.

Definition haskey (k : Z) (e : event) : bool :=
  match ekey e with Some k' => Z.eqb k' k | None => false end.

(** buffers hold, per key, exactly the keyed events that arrived, in arrival order *)
Definition BufInv (b : buf) (Es : list event) : Prop :=
  forall k, buf_get b k = filter (haskey k) Es.

Lemma buf_get_push_same b k e : buf_get (buf_push b k e) k = buf_get b k ++ [e].
Proof.
  unfold buf_push, buf_get.
  destruct (existsb (fun x => fst x =? k) b) eqn:Ex.
  - induction b as [|[k0 q] b IH]; cbn in *; [discriminate|].
    destruct (k0 =? k) eqn:E; cbn; rewrite E; [reflexivity|].
    cbn in Ex. apply IH. exact Ex.
  - induction b as [|[k0 q] b IH]; cbn in *.
    + rewrite Z.eqb_refl. reflexivity.
    + destruct (k0 =? k) eqn:E; cbn in Ex; [discriminate|]. apply IH. exact Ex.
Qed.

Lemma buf_get_push_other b k k' e : k <> k' -> buf_get (buf_push b k e) k' = buf_get b k'.
Proof.
  intros Hne. unfold buf_push, buf_get.
  destruct (existsb (fun x => fst x =? k) b) eqn:Ex.
  - clear Ex. induction b as [|[k0 q] b IH]; cbn; [reflexivity|].
    destruct (k0 =? k) eqn:E; cbn.
    + apply Z.eqb_eq in E. subst k0.
      destruct (k =? k') eqn:E2; [apply Z.eqb_eq in E2; contradiction|]. exact IH.
    + destruct (k0 =? k') eqn:E2; [reflexivity|exact IH].
  - clear Ex. induction b as [|[k0 q] b IH]; cbn.
    + destruct (k =? k') eqn:E2; [apply Z.eqb_eq in E2; contradiction|reflexivity].
    + destruct (k0 =? k'); [reflexivity|exact IH].
Qed.

Lemma BufInv_push b Es e k : ekey e = Some k -> BufInv b Es -> BufInv (buf_push b k e) (Es ++ [e]).
Proof.
  intros Hk HI k'. rewrite filter_app. cbn. unfold haskey at 2. rewrite Hk.
  destruct (Z.eq_dec k k') as [<-|Hne].
  - rewrite Z.eqb_refl, buf_get_push_same, HI. reflexivity.
  - rewrite buf_get_push_other by exact Hne.
    destruct (k =? k') eqn:E; [apply Z.eqb_eq in E; contradiction|]. rewrite app_nil_r. apply HI.
Qed.

Lemma BufInv_nokey b Es e : ekey e = None -> BufInv b Es -> BufInv b (Es ++ [e]).
Proof.
  intros Hk HI k. rewrite filter_app. cbn. unfold haskey at 2. rewrite Hk, app_nil_r. apply HI.
Qed.

Lemma filter_filter {T} (f g : T -> bool) l : filter f (filter g l) = filter (fun x => g x && f x) l.
Proof.
  induction l as [|x l IH]; cbn; [reflexivity|].
  destruct (g x); cbn; [destruct (f x); cbn; rewrite IH; reflexivity|exact IH].
Qed.

(** reference join, incremental on the left *)
Lemma ref_join_left_app Ls Rs e :
  ref_join cond w (Ls ++ [e]) Rs =
  ref_join cond w Ls Rs ++ map (fun r => (eid e, eid r)) (filter (fun r => same_key e r && within w e r && cond e r) Rs).
Proof. unfold ref_join. rewrite flat_map_app. cbn. rewrite app_nil_r. reflexivity. Qed.

Lemma Permutation_flat_map_app {X Y} (f g : X -> list Y) l :
  Permutation (flat_map (fun x => f x ++ g x) l) (flat_map f l ++ flat_map g l).
Proof.
  induction l as [|x l IH]; cbn; [constructor|].
  rewrite <- !app_assoc. apply Permutation_app_head.
  eapply Permutation_trans; [apply Permutation_app_head; exact IH|].
  rewrite !app_assoc. apply Permutation_app_tail. apply Permutation_app_comm.
Qed.

(** reference join, incremental on the right (up to order) *)
Lemma ref_join_right_app Ls Rs e :
  Permutation (ref_join cond w Ls (Rs ++ [e]))
              (ref_join cond w Ls Rs ++
               map (fun l => (eid l, eid e)) (filter (fun l => same_key l e && within w l e && cond l e) Ls)).
Proof.
  unfold ref_join.
  assert (E : flat_map (fun l => map (fun r => (eid l, eid r))
                 (filter (fun r => same_key l r && within w l r && cond l r) (Rs ++ [e]))) Ls =
              flat_map (fun l => map (fun r => (eid l, eid r)) (filter (fun r => same_key l r && within w l r && cond l r) Rs)
                                 ++ (if same_key l e && within w l e && cond l e then [(eid l, eid e)] else [])) Ls).
  { apply flat_map_ext. intro l. rewrite filter_app, map_app. cbn.
    destruct (same_key l e && within w l e && cond l e); reflexivity. }
  rewrite E. eapply Permutation_trans; [apply Permutation_flat_map_app|].
  apply Permutation_app_head. clear E.
  induction Ls as [|l Ls IH]; cbn; [constructor|].
  destruct (same_key l e && within w l e && cond l e); cbn; [apply perm_skip|]; exact IH.
Qed.

Lemma lefts_L e ops : lefts (OLeft e :: ops) = [e] ++ lefts ops. Proof. reflexivity. Qed.
Lemma lefts_R e ops : lefts (ORight e :: ops) = lefts ops. Proof. reflexivity. Qed.
Lemma rights_L e ops : rights (OLeft e :: ops) = rights ops. Proof. reflexivity. Qed.
Lemma rights_R e ops : rights (ORight e :: ops) = [e] ++ rights ops. Proof. reflexivity. Qed.

Definition arrivals_only (ops : list op) : Prop := forall z, ~ In (OWm z) ops.

Lemma same_key_haskey e r k : ekey e = Some k -> same_key e r = haskey k r.
Proof. intros H. unfold same_key, haskey. rewrite H. destruct (ekey r); [apply Z.eqb_sym|reflexivity]. Qed.

Lemma same_key_haskey_r l e k : ekey e = Some k -> same_key l e = haskey k l.
Proof. intros H. unfold same_key, haskey. rewrite H. destruct (ekey l); reflexivity. Qed.

Lemma same_key_none_l e r : ekey e = None -> same_key e r = false.
Proof. intros H. unfold same_key. rewrite H. reflexivity. Qed.
Lemma same_key_none_r l e : ekey e = None -> same_key l e = false.
Proof. intros H. unfold same_key. rewrite H. destruct (ekey l); reflexivity. Qed.

Lemma filter_false {T} (l : list T) : filter (fun _ => false) l = [].
Proof. induction l; cbn; auto. Qed.

(** Main lemma: for arrivals of the two streams in ANY interleaving, what the node emits on
    top of what was emitted before is, as a multiset, what the reference join gains. *)
Lemma arrivals_exact ops : forall s Ls Rs,
  arrivals_only ops -> BufInv (lbuf s) Ls -> BufInv (rbuf s) Rs ->
  Permutation (ref_join cond w Ls Rs ++ concat (run_from cond w s ops))
              (ref_join cond w (Ls ++ lefts ops) (Rs ++ rights ops)).
Proof.
  induction ops as [|o ops IH]; intros s Ls Rs Ha HL HR.
  - cbn. rewrite !app_nil_r. apply Permutation_refl.
  - assert (Ha' : arrivals_only ops) by (intros z Hz; apply (Ha z); right; exact Hz).
    destruct o as [e|e|z]; [| |exfalso; apply (Ha z); left; reflexivity].
    + (* left arrival *)
      cbn [run_from step]. rewrite lefts_L, rights_L.
      unfold process_left. destruct (ekey e) as [k|] eqn:Hk.
      * cbn [concat]. rewrite app_assoc.
        rewrite (app_assoc Ls [e]).
        match goal with |- context [run_from cond w ?s' ops] =>
          eapply Permutation_trans; [|apply (IH s' (Ls ++ [e]) Rs Ha'); cbn [lbuf rbuf]; [apply BufInv_push; assumption|exact HR]] end.
        apply Permutation_app_tail.
        rewrite ref_join_left_app. apply Permutation_app_head.
        rewrite (HR k), filter_filter.
        rewrite (filter_ext _ (fun r => same_key e r && within w e r && cond e r)); [apply Permutation_refl|].
        intro r. rewrite (same_key_haskey e r k Hk). rewrite andb_assoc. reflexivity.
      * cbn [concat]. rewrite app_nil_l.
        rewrite (app_assoc Ls [e]).
        eapply Permutation_trans; [|apply (IH s (Ls ++ [e]) Rs Ha'); [apply BufInv_nokey; assumption|exact HR]].
        apply Permutation_app_tail. rewrite ref_join_left_app.
        rewrite (filter_ext _ (fun _ => false)); [rewrite filter_false; cbn; rewrite app_nil_r; apply Permutation_refl|].
        intro r. rewrite (same_key_none_l e r Hk). reflexivity.
    + (* right arrival *)
      cbn [run_from step]. rewrite lefts_R, rights_R.
      unfold process_right. destruct (ekey e) as [k|] eqn:Hk.
      * cbn [concat]. rewrite app_assoc.
        rewrite (app_assoc Rs [e]).
        match goal with |- context [run_from cond w ?s' ops] =>
          eapply Permutation_trans; [|apply (IH s' Ls (Rs ++ [e]) Ha'); cbn [lbuf rbuf]; [exact HL|apply BufInv_push; assumption]] end.
        apply Permutation_app_tail.
        eapply Permutation_trans; [|apply Permutation_sym; apply ref_join_right_app].
        apply Permutation_app_head.
        rewrite (HL k), filter_filter.
        rewrite (filter_ext _ (fun l => same_key l e && within w l e && cond l e)); [apply Permutation_refl|].
        intro l. rewrite (same_key_haskey_r l e k Hk). rewrite andb_assoc. reflexivity.
      * cbn [concat]. rewrite app_nil_l.
        rewrite (app_assoc Rs [e]).
        eapply Permutation_trans; [|apply (IH s Ls (Rs ++ [e]) Ha'); [exact HL|apply BufInv_nokey; assumption]].
        apply Permutation_app_tail.
        eapply Permutation_trans; [|apply Permutation_sym; apply ref_join_right_app].
        rewrite (filter_ext _ (fun _ => false)); [rewrite filter_false; cbn; rewrite app_nil_r; apply Permutation_refl|].
        intro l. rewrite (same_key_none_r l e Hk). reflexivity.
Qed.

Lemma BufInv_init : BufInv [] [].
Proof. intro k. reflexivity. Qed.

(** The pairs emitted over a run of arrivals are exactly the reference join, each once,
    whatever the interleaving of the two streams. *)
Theorem inner_join_exact ops :
  arrivals_only ops ->
  Permutation (concat (run_from cond w init ops)) (ref_join cond w (lefts ops) (rights ops)).
Proof.
  intros Ha. pose proof (arrivals_exact ops init [] [] Ha BufInv_init BufInv_init) as H.
  cbn in H. exact H.
Qed.

(** Interleaving independence: two merges of the same two arrival orders emit the same pairs. *)
Theorem inner_join_interleaving_indep ops1 ops2 :
  arrivals_only ops1 -> arrivals_only ops2 ->
  lefts ops1 = lefts ops2 -> rights ops1 = rights ops2 ->
  Permutation (concat (run_from cond w init ops1)) (concat (run_from cond w init ops2)).
Proof.
  intros H1 H2 EL ER.
  eapply Permutation_trans; [apply inner_join_exact; exact H1|].
  rewrite EL, ER. apply Permutation_sym. apply inner_join_exact. exact H2.
Qed.

End JoinProofs.
