(** C13 — proofs about Model/Watermark.v *)
From RRE Require Import Base.Sx Model.Watermark.
From Coq Require Import Lia.
Open Scope N_scope.

Lemma eqNs_refl l : eqNs l l = true.
Proof. unfold eqNs. destruct (list_eq_dec N.eq_dec l l); congruence. Qed.

Lemma eqNs_true a b : eqNs a b = true -> a = b.
Proof. unfold eqNs. destruct (list_eq_dec N.eq_dec a b); congruence. Qed.

Lemma lenN_app {T} (a b : list T) : lenN (a ++ b) = lenN a + lenN b.
Proof. unfold lenN. rewrite app_length. lia. Qed.

Lemma lenN_map {X Y} (f : X -> Y) l : lenN (map f l) = lenN l.
Proof. unfold lenN. now rewrite map_length. Qed.

(** Invariant of reachable stream states. [mx] = largest timestamp offered so far,
    [off] = number of events offered so far. *)
Record Inv (ws : wstrat) (mx off : N) (s : wstream) : Prop := {
  inv_max : maxts s = mx;
  inv_le : cur s <= maxts s;
  inv_bounded : match ws with WBounded d => cur s = maxts s - d | _ => True end;
  inv_acc : lenN (evs s) + dropped s + lenN (side s) = off;
  inv_late : late s = dropped s + allowed s + lenN (side s)
}.

Lemma inv_init ws : Inv ws 0 0 init.
Proof. split; cbn; try lia. destruct ws; cbn; auto. Qed.

Lemma gen_some ws c m w : gen ws c m = Some w -> c < w /\ (match ws with WBounded d => w = m - d | WCustom => False | _ => w = m end).
Proof.
  unfold gen, candidate. destruct ws as [d| | |e].
  - destruct (c <? m - d) eqn:E; [|discriminate]. rewrite E. intros [= <-]. apply N.ltb_lt in E. auto.
  - destruct (c <? m) eqn:E; [|discriminate]. rewrite E. intros [= <-]. apply N.ltb_lt in E. auto.
  - discriminate.
  - destruct e; [|discriminate]. destruct (c <? m) eqn:E; [|discriminate]. intros [= <-]. apply N.ltb_lt in E. auto.
Qed.

Lemma gen_none ws c m : gen ws c m = None ->
  match ws with WBounded d => m - d <= c | _ => True end.
Proof.
  unfold gen, candidate. destruct ws as [d| | |e]; auto.
  destruct (c <? m - d) eqn:E.
  - rewrite E. discriminate.
  - intros _. apply N.ltb_ge in E. exact E.
Qed.

Lemma add_event_inv ws ls mx off s e :
  Inv ws mx off s -> Inv ws (N.max mx (ets e)) (off + 1) (add_event ws ls s e).
Proof.
  intros [Hm Hle Hb Ha Hl]. unfold add_event.
  destruct (ets e <? cur s) eqn:Elate.
  - apply N.ltb_lt in Elate.
    assert (Hmx : N.max mx (ets e) = mx) by lia.
    destruct (decide ls (cur s) (ets e)); split; cbn; rewrite ?lenN_app; cbn; try lia; try exact Hb.
  - apply N.ltb_ge in Elate.
    set (m := if maxts s <? ets e then ets e else maxts s).
    assert (Hmval : m = N.max mx (ets e)).
    { unfold m. destruct (maxts s <? ets e) eqn:E; [apply N.ltb_lt in E|apply N.ltb_ge in E]; lia. }
    assert (Hmge : maxts s <= m) by lia.
    destruct (gen ws (cur s) m) as [w|] eqn:G.
    + apply gen_some in G. destruct G as [Hlt Hw].
      split; cbn; rewrite ?lenN_app; cbn; try lia.
      * destruct ws; try lia; contradiction.
      * destruct ws; auto.
    + apply gen_none in G.
      split; cbn; rewrite ?lenN_app; cbn; try lia.
      destruct ws; auto. lia.
Qed.

Ltac norm :=
  cbn [evs side cur maxts hist late dropped allowed map app andb];
  repeat (rewrite ?map_app, ?lenN_app, ?lenN_map, ?eqNs_refl, ?N.eqb_refl, ?N.leb_refl, ?N.ltb_irrefl;
          cbn [evs side cur maxts hist late dropped allowed map app andb]).

(** one model step satisfies the executable statement *)
Lemma add_event_step_ok ws ls mx off s e :
  Inv ws mx off s ->
  step_ok ws ls (observe s) mx e (observe (add_event ws ls s e)) = true
  /\ account_ok (off + 1) (observe (add_event ws ls s e)) = true.
Proof.
  intros I. pose proof (add_event_inv ws ls mx off s e I) as I'.
  destruct I as [Hm Hle Hb Ha Hl].
  split.
  2:{ destruct I' as [_ _ _ Ha' Hl']. unfold account_ok, observe; cbn.
      rewrite lenN_map. apply andb_true_intro; split; apply N.eqb_eq; lia. }
  clear I'. unfold step_ok, add_event. cbn [observe o_wm o_hist o_evs o_side o_late o_dropped o_allowed o_sidelen].
  destruct (ets e <? cur s) eqn:Elate.
  - apply N.ltb_lt in Elate.
    destruct ls as [|ml| |]; cbn [decide].
    + norm. destruct ws; reflexivity.
    + destruct (cur s - ets e <=? ml) eqn:El; norm; destruct ws; reflexivity.
    + norm. destruct ws; reflexivity.
    + norm. destruct ws; reflexivity.
  - apply N.ltb_ge in Elate.
    set (m := if maxts s <? ets e then ets e else maxts s).
    assert (Hmval : m = N.max mx (ets e)).
    { unfold m. destruct (maxts s <? ets e) eqn:E; [apply N.ltb_lt in E|apply N.ltb_ge in E]; lia. }
    destruct (gen ws (cur s) m) as [w|] eqn:G.
    + apply gen_some in G. destruct G as [Hlt Hw].
      assert (E1 : cur s <=? w = true) by (apply N.leb_le; lia).
      assert (E2 : cur s <? w = true) by (apply N.ltb_lt; lia).
      norm. rewrite E1, E2. norm.
      destruct ws as [d| | |]; cbn; try reflexivity.
      rewrite <- Hmval. subst w. rewrite N.eqb_refl. reflexivity.
    + apply gen_none in G.
      norm.
      destruct ws as [d| | |]; cbn; try reflexivity.
      rewrite <- Hmval.
      assert (E : cur s =? m - d = true).
      { apply N.eqb_eq. cbn in Hb. assert (maxts s <= m) by lia. lia. }
      rewrite E. reflexivity.
Qed.

Lemma trace_ok ws ls es : forall s mx off,
  Inv ws mx off s ->
  steps_ok ws ls (observe s) mx off es (map observe (trace ws ls s es)) = true.
Proof.
  induction es as [|e es IH]; intros s mx off I; cbn [trace map steps_ok]; [reflexivity|].
  destruct (add_event_step_ok ws ls mx off s e I) as [H1 H2].
  rewrite H1, H2. cbn [andb].
  apply IH. apply add_event_inv. exact I.
Qed.

Lemma observe_init : observe init = obs0.
Proof. reflexivity. Qed.

Lemma ok_run ws ls es : ok ws ls es (run (ws, ls, es)) = true.
Proof.
  unfold ok, run. rewrite <- observe_init. apply trace_ok. apply inv_init.
Qed.

(** ------------------------------------------------------------------ *)
(** Prop-level reading of the model (the property's sentences), for every history. *)

Fixpoint states (ws : wstrat) (ls : lstrat) (s : wstream) (es : list event) : list wstream :=
  s :: match es with [] => [] | e :: r => states ws ls (add_event ws ls s e) r end.

Lemma cur_mono_step ws ls s e : cur s <= cur (add_event ws ls s e).
Proof.
  unfold add_event. destruct (ets e <? cur s).
  - destruct (decide ls (cur s) (ets e)); cbn; lia.
  - destruct (gen ws (cur s) _) as [w|] eqn:G; cbn; [|lia].
    apply gen_some in G. lia.
Qed.

(** Watermarks never move backwards: over every history, every prefix. *)
Lemma wm_monotone_run ws ls : forall es s,
  cur s <= cur (fold_left (add_event ws ls) es s).
Proof.
  induction es as [|e es IH]; intros s; cbn; [lia|].
  specialize (IH (add_event ws ls s e)). pose proof (cur_mono_step ws ls s e). lia.
Qed.

Lemma maxN_app a b : maxN (a ++ b) = N.max (maxN a) (maxN b).
Proof. induction a as [|x a IH]; cbn; [lia|]. rewrite IH. lia. Qed.

Lemma fold_inv ws ls : forall es s mx off,
  Inv ws mx off s ->
  Inv ws (N.max mx (maxN (map ets es))) (off + lenN es) (fold_left (add_event ws ls) es s).
Proof.
  induction es as [|e es IH]; intros s mx off I; cbn [fold_left map maxN].
  - replace (N.max mx 0) with mx by lia. replace (off + lenN []) with off by (unfold lenN; cbn; lia). exact I.
  - apply (add_event_inv ws ls mx off s e) in I. apply IH in I.
    replace (N.max mx (N.max (ets e) (maxN (map ets es)))) with (N.max (N.max mx (ets e)) (maxN (map ets es))) by lia.
    replace (off + lenN (e :: es)) with (off + 1 + lenN es) by (unfold lenN; cbn [length]; lia).
    exact I.
Qed.

(** Bounded out-of-orderness: in every reachable state the watermark is
    (largest timestamp offered) - delay, truncated at zero. *)
Lemma wm_bounded_exact d ls es :
  cur (fold_left (add_event (WBounded d) ls) es init) = maxN (map ets es) - d.
Proof.
  pose proof (fold_inv (WBounded d) ls es init 0 0 (inv_init _)) as [Hm _ Hb _ _].
  cbn in Hb. rewrite Hb, Hm. lia.
Qed.

(** Accounting in every reachable state. *)
Lemma accounting_run ws ls es :
  let s := fold_left (add_event ws ls) es init in
  lenN (evs s) + dropped s + lenN (side s) = lenN es /\
  late s = dropped s + allowed s + lenN (side s).
Proof.
  pose proof (fold_inv ws ls es init 0 0 (inv_init _)) as [_ _ _ Ha Hl].
  cbn. split; [rewrite Ha; lia | exact Hl].
Qed.

(** Late exactly when below the current watermark, and the three outcomes. *)
Lemma late_iff_below ws ls s e :
  let s' := add_event ws ls s e in
  (ets e < cur s ->
     late s' = late s + 1 /\ cur s' = cur s /\
     match decide ls (cur s) (ets e) with
     | DDrop => evs s' = evs s /\ side s' = side s /\ dropped s' = dropped s + 1
     | DSide => evs s' = evs s /\ side s' = side s ++ [e] /\ dropped s' = dropped s
     | _ => evs s' = evs s ++ [e] /\ side s' = side s /\ dropped s' = dropped s
     end) /\
  (cur s <= ets e ->
     late s' = late s /\ evs s' = evs s ++ [e] /\ side s' = side s /\ dropped s' = dropped s).
Proof.
  cbn. split; intros H.
  - unfold add_event. apply N.ltb_lt in H. rewrite H.
    destruct (decide ls (cur s) (ets e)); cbn; auto.
  - unfold add_event. apply N.ltb_ge in H. rewrite H.
    destruct (gen ws (cur s) _); cbn; auto.
Qed.
