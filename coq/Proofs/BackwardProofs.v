(** C09 / C11 — proofs about the backward-chaining model. *)
From RRE Require Import Base.Sx Base.Float Base.Num Model.ExprShape Model.Forward Model.ForwardSpec Model.Backward.
From Coq Require Import Lia.
Open Scope Z_scope.

Section Sound.
Variable rules : list brule.
Variable max_depth : Z.

(** Soundness of the depth-first search with execution: whenever it reports a goal proven, the goal
    comparison holds in the facts it hands back - for every rule set, goal, candidate list, depth and
    fact store, whatever the rules conclude (wrong values, cycles, dead ends). *)
Lemma try_cands_sound provef goal depth f : forall cs f', try_cands provef goal depth f cs = (true, f') -> goal_holds f' goal = true.
Proof.
  induction cs as [|r rest IH]; intros f' H; cbn [try_cands] in H; [discriminate|].
  destruct (try_exec f r) as [f1|] eqn:E1.
  - destruct (goal_holds f1 goal) eqn:G1; [inversion H; subst; exact G1|apply IH; exact H].
  - destruct (provef (br_cond r) (depth + 1) f) as [[|] f2] eqn:P; [|apply IH; exact H].
    destruct (try_exec f2 r) as [f3|] eqn:E3; [|apply IH; exact H].
    destruct (goal_holds f3 goal) eqn:G3; [inversion H; subst; exact G3|apply IH; exact H].
Qed.

Lemma try_cands_failure provef goal depth f : forall cs f', try_cands provef goal depth f cs = (false, f') -> f' = f.
Proof.
  induction cs as [|r rest IH]; intros f' H; cbn [try_cands] in H; [inversion H; reflexivity|].
  destruct (try_exec f r) as [f1|].
  - destruct (goal_holds f1 goal); [discriminate|apply IH; exact H].
  - destruct (provef (br_cond r) (depth + 1) f) as [[|] f2]; [|apply IH; exact H].
    destruct (try_exec f2 r) as [f3|]; [|apply IH; exact H].
    destruct (goal_holds f3 goal); [discriminate|apply IH; exact H].
Qed.

Lemma search_S fu goal cands depth f :
  search rules max_depth (S fu) goal cands depth f =
  if max_depth <? depth then (false, f)
  else if goal_holds f goal then (true, f)
  else try_cands (prove rules max_depth fu) goal depth f cands.
Proof. reflexivity. Qed.

Theorem search_sound : forall fuel goal cands depth f f',
  search rules max_depth fuel goal cands depth f = (true, f') -> goal_holds f' goal = true.
Proof.
  destruct fuel as [|fu]; intros goal cands depth f f' H; [discriminate|]. rewrite search_S in H.
  destruct (max_depth <? depth); [discriminate|].
  destruct (goal_holds f goal) eqn:G0; [inversion H; subst; exact G0|].
  eapply try_cands_sound; exact H.
Qed.

Corollary dfs_sound : forall goal f f', dfs rules max_depth goal f = (true, f') -> goal_holds f' goal = true.
Proof. intros goal f f' H. unfold dfs in H. eapply search_sound; exact H. Qed.

(** a search that does not prove its goal hands back the facts it was given *)
Theorem search_failure_restores : forall fuel goal cands depth f f',
  search rules max_depth fuel goal cands depth f = (false, f') -> f' = f.
Proof.
  destruct fuel as [|fu]; intros goal cands depth f f' H; [inversion H; reflexivity|]. rewrite search_S in H.
  destruct (max_depth <? depth); [inversion H; reflexivity|].
  destruct (goal_holds f goal); [discriminate|].
  eapply try_cands_failure; exact H.
Qed.
End Sound.

Lemma ids_sound rules md goal f f' : ids rules md goal f = (true, f') -> goal_holds f' goal = true.
Proof. unfold ids. destruct (root_candidates rules goal); [discriminate|]. apply dfs_sound. Qed.

(** ---------- the memo table never changes an answer ---------- *)
Section Memo.
Variable rules : list brule.
Variable max_depth : Z.
(** the verdict depends on the facts only through their canonical (sorted) encoding, which is what the
    memo key is built from *)
Hypothesis verdict_canonical : forall goal f f', enc_facts f = enc_facts f' ->
  fst (dfs rules max_depth goal f) = fst (dfs rules max_depth goal f').

Definition memo_sound (e : bengine) : Prop :=
  forall q fx b, In (q, fx, b) (memo e) ->
    forall goal f, dec_bcond q = Some goal -> enc_facts f = fx -> fst (dfs rules max_depth goal f) = b.

Lemma memo_get_in e q fx b : memo_get e q fx = Some b -> exists q' fx', In (q', fx', b) (memo e) /\ sx_eqb q q' = true /\ sx_eqb fx fx' = true.
Proof.
  unfold memo_get. induction (memo e) as [|[[q' f'] b'] l IH]; intros H; [discriminate|].
  destruct (sx_eqb q q' && sx_eqb fx f') eqn:E.
  - inversion H; subst. apply andb_true_iff in E. exists q', f'. split; [left; reflexivity|exact E].
  - destruct (IH H) as [q0 [f0 [I J]]]. exists q0, f0. split; [right; exact I|exact J].
Qed.

Hypothesis sx_eqb_eq : forall a b, sx_eqb a b = true -> a = b.

(** Whatever queries were asked before, on whatever facts: the verdict of a query is the verdict of a
    fresh search on the facts passed in, and the table stays sound. *)
Theorem equery_is_fresh : forall e q goal f, memo_sound e -> dec_bcond q = Some goal ->
  fst (snd (equery rules max_depth e q goal f)) = fst (dfs rules max_depth goal f)
  /\ memo_sound (fst (equery rules max_depth e q goal f)).
Proof.
  intros e q goal f Hs Hq. unfold equery.
  destruct (memo_get e q (enc_facts f)) as [[|]|] eqn:M.
  - cbn [fst snd]. split; [reflexivity|].
    intros q0 fx0 b0 [E|I] goal0 f0 D0 F0; [|eapply Hs; eassumption].
    injection E as E1 E2 E3. subst q0 b0. rewrite Hq in D0. injection D0 as D0. subst goal0. apply verdict_canonical. rewrite F0, E2. reflexivity.
  - cbn [fst snd]. split; [|exact Hs].
    destruct (memo_get_in e q (enc_facts f) false M) as [q' [fx' [I [E1 E2]]]].
    apply sx_eqb_eq in E1, E2. subst q' fx'. symmetry. eapply Hs; [exact I|exact Hq|reflexivity].
  - cbn [fst snd]. split; [reflexivity|].
    intros q0 fx0 b0 [E|I] goal0 f0 D0 F0; [|eapply Hs; eassumption].
    injection E as E1 E2 E3. subst q0 b0. rewrite Hq in D0. injection D0 as D0. subst goal0. apply verdict_canonical. rewrite F0, E2. reflexivity.
Qed.
End Memo.

(** structural equality decided by sx_eqb *)
Lemma sx_eqb_true_eq : forall a b, sx_eqb a b = true -> a = b.
Proof.
  fix IH 1. intros a b H. destruct a as [x|l]; destruct b as [y|m]; cbn [sx_eqb] in H; try discriminate.
  - apply Z.eqb_eq in H. subst. reflexivity.
  - f_equal. revert m H. induction l as [|u l IHl]; intros m H; destruct m as [|w m]; try discriminate; [reflexivity|].
    apply andb_true_iff in H. destruct H as [H1 H2]. f_equal; [apply IH; exact H1|apply IHl; exact H2].
Qed.
