(** C16 — the beta (join-key) index answers every lookup with exactly the live facts carrying that key, in add order,
    after any history of add / remove / lookup; and the conclusion index proposes every enabled rule that assigns the
    goal's field, after any history of add_rule / remove_rule. *)
From RRE Require Import Base.Sx Base.Float Model.Index Proofs.IndexProofs Proofs.IndexAlphaProofs.
From Coq Require Import Lia.
Open Scope Z_scope.

(** * beta index *)
Definition keys_distinct (b : beta) : Prop :=
  forall i j ki li kj lj, nth_error b i = Some (ki, li) -> nth_error b j = Some (kj, lj) -> i <> j -> dbg_eqb ki kj = false.

Fixpoint bdistinct (b : beta) : Prop :=
  match b with [] => True | (k, _) :: r => (forall k' l', In (k', l') r -> dbg_eqb k k' = false) /\ bdistinct r end.

Definition live_of (live : list (value * Z)) (k : value) : list Z := map snd (filter (fun e => dbg_eqb (fst e) k) live).

Lemma b_lookup_none b k : (forall k' l', In (k', l') b -> dbg_eqb k' k = false) -> b_lookup b k = [].
Proof. induction b as [|[k' l] b IH]; intros H; cbn [b_lookup]; [reflexivity|]. rewrite (H k' l (or_introl eq_refl)). apply IH. intros k2 l2 H2. apply (H k2 l2). right. exact H2. Qed.

Lemma b_lookup_push b v i k : b_lookup (b_push b v i) k = if dbg_eqb v k then b_lookup b k ++ [i] else b_lookup b k.
Proof.
  induction b as [|[k' l] b IH]; cbn [b_push b_lookup]; [destruct (dbg_eqb v k); reflexivity|].
  destruct (dbg_eqb k' v) eqn:E; cbn [b_lookup].
  - destruct (dbg_eqb k' k) eqn:E2.
    + replace (dbg_eqb v k) with true; [reflexivity|]. symmetry. apply (dbg_trans v k' k); [rewrite dbg_sym; exact E|exact E2].
    + replace (dbg_eqb v k) with false; [reflexivity|]. symmetry. destruct (dbg_eqb v k) eqn:E3; [|reflexivity]. rewrite (dbg_trans k' v k E E3) in E2. discriminate.
  - destruct (dbg_eqb k' k) eqn:E2.
    + replace (dbg_eqb v k) with false; [reflexivity|]. symmetry. destruct (dbg_eqb v k) eqn:E3; [|reflexivity].
      assert (dbg_eqb k' v = true) by (apply (dbg_trans k' k v E2); rewrite dbg_sym; exact E3). congruence.
    + exact IH.
Qed.

Lemma bdistinct_push b v i : bdistinct b -> bdistinct (b_push b v i).
Proof.
  induction b as [|[k' l] b IH]; cbn [b_push bdistinct]; [intros _; split; [intros k2 l2 []|exact I]|].
  intros [H1 H2]. destruct (dbg_eqb k' v) eqn:E; cbn [bdistinct]; [split; assumption|]. split; [|apply IH; exact H2].
  intros k2 l2 Hin. clear IH. revert Hin. induction b as [|[k3 l3] b IHb]; cbn [b_push In].
  - intros [Hx|[]]. inversion Hx; subst. exact E.
  - destruct (dbg_eqb k3 v); cbn [In]; intros [Hx|Hx].
    + inversion Hx; subst. apply (H1 k2 l3). left. reflexivity.
    + apply (H1 k2 l2). right. exact Hx.
    + inversion Hx; subst. apply (H1 k2 l2). left. reflexivity.
    + apply IHb; [intros k4 l4 H4; apply (H1 k4 l4); right; exact H4|destruct H2; assumption|exact Hx].
Qed.

Lemma b_remove_in b v i k l : In (k, l) (b_remove b v i) -> exists l0, In (k, l0) b.
Proof.
  induction b as [|[k1 l1] b IH]; cbn [b_remove]; [intros []|]. destruct (dbg_eqb k1 v).
  - destruct (filter (fun x => negb (Z.eqb x i)) l1) as [|x xs].
    + intros H. exists l. right. exact H.
    + intros [H|H]; [inversion H; subst; exists l1; left; reflexivity|exists l; right; exact H].
  - intros [H|H]; [inversion H; subst; exists l; left; reflexivity|]. destruct (IH H) as [l0 H0]. exists l0. right. exact H0.
Qed.

Lemma bdistinct_remove b v i : bdistinct b -> bdistinct (b_remove b v i).
Proof.
  induction b as [|[k' l] b IH]; cbn [b_remove bdistinct]; [auto|]. intros [H1 H2]. destruct (dbg_eqb k' v).
  - destruct (filter _ l) as [|x xs]; [exact H2|]. cbn [bdistinct]. split; assumption.
  - cbn [bdistinct]. split; [|apply IH; exact H2]. intros k2 l2 Hin. destruct (b_remove_in _ _ _ _ _ Hin) as [l0 H0]. apply (H1 k2 l0 H0).
Qed.

Lemma b_lookup_remove b v i k : bdistinct b ->
  b_lookup (b_remove b v i) k = if dbg_eqb v k then filter (fun x => negb (Z.eqb x i)) (b_lookup b k) else b_lookup b k.
Proof.
  induction b as [|[k' l] b IH]; intros Hd; cbn [b_remove b_lookup]; [destruct (dbg_eqb v k); reflexivity|].
  destruct Hd as [H1 H2]. destruct (dbg_eqb k' v) eqn:E.
  - destruct (dbg_eqb k' k) eqn:E2.
    + replace (dbg_eqb v k) with true by (symmetry; apply (dbg_trans v k' k); [rewrite dbg_sym; exact E|exact E2]).
      destruct (filter (fun x => negb (Z.eqb x i)) l) as [|x xs] eqn:Ef; [|cbn [b_lookup]; rewrite E2; reflexivity].
      apply b_lookup_none. intros k2 l2 H. destruct (dbg_eqb k2 k) eqn:E3; [|reflexivity].
      assert (dbg_eqb k' k2 = true) by (apply (dbg_trans k' k k2 E2); rewrite dbg_sym; exact E3). rewrite (H1 k2 l2 H) in H0. discriminate.
    + replace (dbg_eqb v k) with false by (symmetry; destruct (dbg_eqb v k) eqn:E3; [rewrite (dbg_trans k' v k E E3) in E2; discriminate|reflexivity]).
      destruct (filter (fun x => negb (Z.eqb x i)) l) as [|x xs]; [reflexivity|]. cbn [b_lookup]. rewrite E2. reflexivity.
  - cbn [b_lookup]. destruct (dbg_eqb k' k) eqn:E2.
    + replace (dbg_eqb v k) with false; [reflexivity|]. symmetry. destruct (dbg_eqb v k) eqn:E3; [|reflexivity].
      assert (dbg_eqb k' v = true) by (apply (dbg_trans k' k v E2); rewrite dbg_sym; exact E3). congruence.
    + apply IH. exact H2.
Qed.

Definition BSim (b : beta) (live : list (value * Z)) : Prop := bdistinct b /\ forall k, b_lookup b k = live_of live k.

Lemma live_of_push live v i k : live_of (live ++ [(v, i)]) k = if dbg_eqb v k then live_of live k ++ [i] else live_of live k.
Proof. unfold live_of. rewrite filter_app, map_app. cbn [filter fst]. destruct (dbg_eqb v k); cbn [map snd]; [reflexivity|rewrite app_nil_r; reflexivity]. Qed.

Lemma live_of_remove live v i k :
  live_of (filter (fun e => negb (dbg_eqb (fst e) v && Z.eqb (snd e) i)) live) k
  = if dbg_eqb v k then filter (fun x => negb (Z.eqb x i)) (live_of live k) else live_of live k.
Proof.
  unfold live_of. induction live as [|[kv idx] live IH]; [destruct (dbg_eqb v k); reflexivity|].
  cbn [filter]. simpl (fst (kv, idx)). simpl (snd (kv, idx)).
  destruct (dbg_eqb kv k) eqn:E3.
  - (* the entry carries the key asked for *)
    destruct (dbg_eqb v k) eqn:E4.
    + assert (E1 : dbg_eqb kv v = true) by (apply (dbg_trans kv k v E3); rewrite dbg_sym; exact E4). rewrite E1. cbn [andb].
      destruct (Z.eqb idx i) eqn:E2; cbn [negb].
      * cbn [map filter]. simpl (snd (kv, idx)). rewrite E2. cbn [negb]. exact IH.
      * cbn [filter]. simpl (fst (kv, idx)). rewrite E3. cbn [map filter]. simpl (snd (kv, idx)). rewrite E2. cbn [negb]. f_equal. exact IH.
    + assert (E1 : dbg_eqb kv v = false).
      { destruct (dbg_eqb kv v) eqn:E1; [|reflexivity]. assert (dbg_eqb v k = true) by (apply (dbg_trans v kv k); [rewrite dbg_sym; exact E1|exact E3]). congruence. }
      rewrite E1. cbn [andb negb filter]. simpl (fst (kv, idx)). rewrite E3. cbn [map]. f_equal. exact IH.
  - destruct (negb (dbg_eqb kv v && Z.eqb idx i)); [cbn [filter]; simpl (fst (kv, idx)); rewrite E3|]; exact IH.
Qed.

Theorem beta_refines : forall ops b live, BSim b live -> run_beta b ops = spec_beta live ops.
Proof.
  induction ops as [|o ops IH]; intros b live [Hd Hl]; [reflexivity|].
  destruct o as [[v|] i|[v|] i|v]; cbn [run_beta spec_beta]; f_equal.
  - apply IH. split; [apply bdistinct_push; exact Hd|]. intros k. rewrite b_lookup_push, live_of_push, Hl. reflexivity.
  - apply IH. split; assumption.
  - apply IH. split; [apply bdistinct_remove; exact Hd|]. intros k. rewrite (b_lookup_remove b v i k Hd), live_of_remove, Hl. reflexivity.
  - apply IH. split; assumption.
  - rewrite Hl. reflexivity.
  - apply IH. split; assumption.
Qed.

Corollary beta_index_exact ops : run_beta [] ops = spec_beta [] ops.
Proof. apply beta_refines. split; [exact I|intros k; reflexivity]. Qed.

(** * conclusion index *)
Lemma seqb_refl s : str_eqb s s = true. Proof. apply list_eqb_Zrefl. Qed.
Lemma seqb_eq a b : str_eqb a b = true -> a = b. Proof. apply list_eqb_Zeq. Qed.

Lemma mem_add_str x y l : mem_str x (add_str y l) = mem_str x l || str_eqb x y.
Proof.
  unfold add_str. destruct (mem_str y l) eqn:E.
  - destruct (str_eqb x y) eqn:E2; [apply seqb_eq in E2; subst; rewrite E; reflexivity|rewrite orb_false_r; reflexivity].
  - unfold mem_str. rewrite existsb_app. cbn [existsb]. rewrite orb_false_r. reflexivity.
Qed.
Lemma mem_dedup x l : mem_str x (dedup l) = mem_str x l.
Proof.
  unfold dedup. assert (G : forall l acc, mem_str x (fold_left (fun a y => add_str y a) l acc) = mem_str x acc || mem_str x l).
  { induction l0 as [|y l0 IH]; intros acc; cbn [fold_left]; [unfold mem_str at 3; cbn; rewrite orb_false_r; reflexivity|].
    rewrite IH, mem_add_str. unfold mem_str at 4. cbn [existsb]. fold (mem_str x l0). rewrite <- orb_assoc. reflexivity. }
  rewrite G. reflexivity.
Qed.

Definition f2r_get (m : list (str * list str)) (fld : str) : list str :=
  match find (fun kv => str_eqb (fst kv) fld) m with Some kv => snd kv | None => [] end.

Lemma f2r_get_cons k l m fld : f2r_get ((k, l) :: m) fld = if str_eqb k fld then l else f2r_get m fld.
Proof. unfold f2r_get. cbn [find fst]. destruct (str_eqb k fld); reflexivity. Qed.

Lemma f2r_get_add m f name fld : mem_str name (f2r_get (f2r_add m f name) fld) = mem_str name (f2r_get m fld) || str_eqb f fld.
Proof.
  induction m as [|[k l] m IH]; cbn [f2r_add].
  - rewrite f2r_get_cons. destruct (str_eqb f fld); [unfold mem_str; cbn [existsb]; rewrite seqb_refl; reflexivity|reflexivity].
  - destruct (str_eqb k f) eqn:E1; rewrite !f2r_get_cons.
    + apply seqb_eq in E1. subst k. destruct (str_eqb f fld); [rewrite mem_add_str, seqb_refl, orb_true_r; reflexivity|rewrite orb_false_r; reflexivity].
    + destruct (str_eqb k fld) eqn:E2; [|exact IH].
      destruct (str_eqb f fld) eqn:E3; [apply seqb_eq in E2, E3; subst; rewrite seqb_refl in E1; discriminate|rewrite orb_false_r; reflexivity].
Qed.

Lemma f2r_get_fold_add concl name : forall m fld,
  mem_str name (f2r_get (fold_left (fun m f => f2r_add m f name) concl m) fld) = mem_str name (f2r_get m fld) || mem_str fld concl.
Proof.
  induction concl as [|f concl IH]; intros m fld; cbn [fold_left]; [unfold mem_str at 3; cbn; rewrite orb_false_r; reflexivity|].
  rewrite IH, f2r_get_add. unfold mem_str at 4. cbn [existsb]. fold (mem_str fld concl).
  rewrite <- orb_assoc. f_equal. f_equal. unfold str_eqb. rewrite list_eqb_Zsym. reflexivity.
Qed.

(** other rules' entries survive the addition of a rule *)
Lemma f2r_get_fold_add_other concl name other : forall m fld, mem_str other (f2r_get m fld) = true ->
  mem_str other (f2r_get (fold_left (fun m f => f2r_add m f name) concl m) fld) = true.
Proof.
  induction concl as [|f concl IH]; intros m fld H; cbn [fold_left]; [exact H|]. apply IH.
  clear IH. induction m as [|[k l] m IHm]; cbn [f2r_add].
  - rewrite f2r_get_cons. unfold f2r_get in H. cbn in H. discriminate.
  - rewrite f2r_get_cons in H. destruct (str_eqb k f) eqn:E1; rewrite f2r_get_cons.
    + destruct (str_eqb k fld); [rewrite mem_add_str, H; reflexivity|exact H].
    + destruct (str_eqb k fld); [exact H|apply IHm; exact H].
Qed.

(** removing a rule only takes that rule's name out of the buckets *)
Lemma c_remove_other c name other fld : str_eqb other name = false -> mem_str other (f2r_get (f2r c) fld) = true ->
  mem_str other (f2r_get (f2r (c_remove c name)) fld) = true.
Proof.
  intros Hne H. unfold c_remove. destruct (find (fun e => str_eqb (fst e) name) (r2c c)) as [e|]; [|exact H]. cbn [f2r].
  induction (f2r c) as [|[k l] m IH]; [exact H|]. rewrite f2r_get_cons in H. cbn [map filter fst snd].
  assert (Hkeep : forall l0, mem_str other l0 = true -> mem_str other (filter (fun r => negb (str_eqb r name)) l0) = true).
  { intros l0 H0. unfold mem_str in *. apply existsb_exists in H0. destruct H0 as [x [Hx Ex]]. apply existsb_exists. exists x. split; [|exact Ex].
    apply filter_In. split; [exact Hx|]. apply seqb_eq in Ex. subst x. rewrite Hne. reflexivity. }
  destruct (str_eqb k fld) eqn:E.
  - destruct (mem_str k (snd e)); cbn [snd fst].
    + destruct (filter (fun r => negb (str_eqb r name)) l) eqn:Ef.
      * specialize (Hkeep l H). rewrite Ef in Hkeep. discriminate.
      * rewrite f2r_get_cons, E, <- Ef. apply Hkeep. exact H.
    + destruct l as [|x xs]; [discriminate|]. rewrite f2r_get_cons, E. exact H.
  - assert (Hrest := IH H). destruct (mem_str k (snd e)); cbn [snd fst].
    + destruct (filter (fun r => negb (str_eqb r name)) l); [exact Hrest|rewrite f2r_get_cons, E; exact Hrest].
    + destruct l; [exact Hrest|rewrite f2r_get_cons, E; exact Hrest].
Qed.

Definition cstep (c : cindex) (o : cop2) : cindex :=
  match o with C2 (CAdd n b fs) => c_add c n b fs | C2 (CRemove n) => c_remove c n | _ => c end.
Definition pstep (present : list (str * list str)) (o : cop2) : list (str * list str) :=
  match o with
  | C2 (CAdd n b fs) => if b then match dedup fs with [] => present | _ => (n, fs) :: filter (fun e => negb (str_eqb (fst e) n)) present end else present
  | C2 (CRemove n) => filter (fun e => negb (str_eqb (fst e) n)) present
  | _ => present end.

Definition CInv (c : cindex) (present : list (str * list str)) : Prop :=
  forall n fs fld, In (n, fs) present -> mem_str fld fs = true -> mem_str n (f2r_get (f2r c) fld) = true.

Lemma cstep_inv c present o : CInv c present -> CInv (cstep c o) (pstep present o).
Proof.
  intros HI. destruct o as [[n b fs|n|g]|fld g]; cbn [cstep pstep]; try exact HI.
  - unfold c_add. destruct b; cbn [negb]; [|exact HI]. destruct (dedup fs) as [|d0 ds] eqn:Ed; [exact HI|]. unfold CInv. cbn [f2r].
    intros m fs' fld [Hin|Hin] Hf.
    + inversion Hin; subst m fs'. rewrite f2r_get_fold_add. rewrite <- Ed, mem_dedup, Hf. apply orb_true_r.
    + apply filter_In in Hin. destruct Hin as [Hin _]. apply f2r_get_fold_add_other. eapply HI; eassumption.
  - intros m fs' fld Hin Hf. apply filter_In in Hin. destruct Hin as [Hin Hne]. cbn [fst] in Hne. apply negb_true_iff in Hne.
    apply c_remove_other; [exact Hne|eapply HI; eassumption].
Qed.

(** after ANY history: every enabled rule that is in the index and assigns the goal's field is proposed *)
Theorem conclusion_index_complete ops :
  let c := fold_left cstep ops cinit in let present := fold_left pstep ops [] in
  forall n fs goal, In (n, fs) present -> mem_str (extract_field goal) fs = true -> mem_str n (c_find c goal) = true.
Proof.
  intros c present. assert (HI : CInv c present).
  { unfold c, present. assert (G : forall ops c0 p0, CInv c0 p0 -> CInv (fold_left cstep ops c0) (fold_left pstep ops p0)).
    { induction ops0 as [|o ops0 IH]; intros c0 p0 H; cbn [fold_left]; [exact H|]. apply IH. apply cstep_inv. exact H. }
    apply G. intros n fs fld []. }
  intros n fs goal Hin Hf. unfold c_find. rewrite mem_dedup. unfold mem_str. rewrite existsb_app. apply orb_true_iff. left.
  exact (HI n fs (extract_field goal) Hin Hf).
Qed.
