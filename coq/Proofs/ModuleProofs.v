(** C18 — proofs about Model/Module.v *)
From RRE Require Import Base.Sx Model.Module.
From Coq Require Import Lia.
Open Scope N_scope.

Lemma str_eqb_refl s : str_eqb s s = true.
Proof. induction s as [|x s IH]; cbn; [reflexivity|]. rewrite N.eqb_refl. exact IH. Qed.

Lemma str_eqb_eq a : forall b, str_eqb a b = true -> a = b.
Proof.
  induction a as [|x a IH]; intros [|y b] H; cbn in H; try discriminate; [reflexivity|].
  apply andb_true_iff in H. destruct H as [H1 H2]. apply N.eqb_eq in H1. f_equal; auto.
Qed.

Lemma str_eqb_neq a b : a <> b -> str_eqb a b = false.
Proof. intros H. destruct (str_eqb a b) eqn:E; [apply str_eqb_eq in E; contradiction|reflexivity]. Qed.

Lemma str_eqb_sym a b : str_eqb a b = str_eqb b a.
Proof.
  destruct (str_eqb a b) eqn:E.
  - apply str_eqb_eq in E. subst. symmetry. apply str_eqb_refl.
  - destruct (str_eqb b a) eqn:E2; [apply str_eqb_eq in E2; subst; rewrite str_eqb_refl in E; discriminate|reflexivity].
Qed.

(** * a refused operation changes nothing *)
Lemma refused_noop g o g' : step g o = (g', false) -> g' = g.
Proof.
  destruct o as [n|n|n e|n r|to from t pat re]; cbn [step].
  - destruct (find_mod (mods g) n); intros H; inversion H; reflexivity.
  - destruct (str_eqb n main); [intros H; inversion H; reflexivity|].
    destruct (find_mod (mods g) n); intros H; inversion H; reflexivity.
  - destruct (find_mod (mods g) n); intros H; inversion H; reflexivity.
  - destruct (find_mod (mods g) n); intros H; inversion H; reflexivity.
  - destruct (find_mod (mods g) from); [|intros H; inversion H; reflexivity].
    destruct (detect_cycle g to from); [|intros H; inversion H; reflexivity].
    destruct (find_mod (mods g) to); intros H; inversion H; reflexivity.
Qed.

(** a self-import is always refused *)
Lemma self_import_refused g n t pat re : snd (step g (Import n n t pat re)) = false.
Proof.
  cbn [step]. destruct (find_mod (mods g) n); [|reflexivity].
  unfold detect_cycle. rewrite str_eqb_refl. reflexivity.
Qed.

(** * every declared source module exists *)
Definition exists_mod (ms : list module) (n : str) : bool :=
  match find_mod ms n with Some _ => true | None => false end.

Definition Inv (ms : list module) : Prop :=
  forall m, In m ms -> forall i, In i (m_imports m) -> exists_mod ms (i_from i) = true.

Lemma find_mod_app ms n m' :
  find_mod (ms ++ [m']) n = match find_mod ms n with Some m => Some m | None => if str_eqb (m_name m') n then Some m' else None end.
Proof.
  unfold find_mod. induction ms as [|m ms IH]; cbn; [reflexivity|].
  destruct (str_eqb (m_name m) n); [reflexivity|exact IH].
Qed.

Lemma exists_mod_app ms n m' : exists_mod ms n = true -> exists_mod (ms ++ [m']) n = true.
Proof. unfold exists_mod. rewrite find_mod_app. destruct (find_mod ms n); [auto|discriminate]. Qed.

Lemma find_mod_upd ms m' n :
  find_mod (upd_mod ms m') n =
  match find_mod ms n with
  | Some m => if str_eqb (m_name m) (m_name m') then Some m' else Some m
  | None => None end.
Proof.
  induction ms as [|m ms IH]; [reflexivity|].
  unfold upd_mod, find_mod in *. cbn [map find].
  destruct (str_eqb (m_name m) (m_name m')) eqn:E.
  - assert (En : m_name m' = m_name m) by (symmetry; apply str_eqb_eq; exact E).
    replace (str_eqb (m_name m') n) with (str_eqb (m_name m) n) by (rewrite En; reflexivity).
    destruct (str_eqb (m_name m) n) eqn:E2.
    + rewrite E. reflexivity.
    + exact IH.
  - destruct (str_eqb (m_name m) n) eqn:E2.
    + rewrite E. reflexivity.
    + exact IH.
Qed.

Lemma exists_mod_upd ms m' n : exists_mod (upd_mod ms m') n = exists_mod ms n.
Proof.
  unfold exists_mod. rewrite find_mod_upd. destruct (find_mod ms n) as [m|]; [|reflexivity].
  destruct (str_eqb (m_name m) (m_name m')); reflexivity.
Qed.

Lemma find_mod_name ms n m : find_mod ms n = Some m -> m_name m = n /\ In m ms.
Proof.
  unfold find_mod. intros H. apply find_some in H. destruct H as [H1 H2]. split; [apply str_eqb_eq; exact H2|exact H1].
Qed.

Lemma in_upd_mod ms m' x : In x (upd_mod ms m') -> x = m' \/ In x ms.
Proof.
  unfold upd_mod. intros H. apply in_map_iff in H. destruct H as [y [Hy Hin]].
  destruct (str_eqb (m_name y) (m_name m')); [left; auto|right; subst; exact Hin].
Qed.

Lemma Inv_init : Inv [new_module main].
Proof. intros m [<-|[]] i Hi. cbn in Hi. contradiction. Qed.

Lemma step_Inv g o : Inv (mods g) -> Inv (mods (fst (step g o))).
Proof.
  intros HI. destruct o as [n|n|n e|n r|to from t pat re]; cbn [step].
  - destruct (find_mod (mods g) n) as [dm|]; cbn [fst mods]; [exact HI|].
    intros m Hm i Hi. apply in_app_or in Hm. destruct Hm as [Hm|[<-|[]]].
    + apply exists_mod_app. eapply HI; eauto.
    + unfold new_module in Hi. cbn in Hi. contradiction.
  - destruct (str_eqb n main); cbn [fst]; [exact HI|].
    destruct (find_mod (mods g) n) as [dm|] eqn:F; cbn [fst mods]; [|exact HI].
    intros m Hm i Hi. apply in_map_iff in Hm. destruct Hm as [m0 [<- Hm0]]. cbn [m_imports] in Hi.
    apply filter_In in Hm0. destruct Hm0 as [Hm0 Hn0].
    apply filter_In in Hi. destruct Hi as [Hi Hne].
    pose proof (HI m0 Hm0 i Hi) as Hex.
    unfold exists_mod in *. destruct (find_mod (mods g) (i_from i)) as [fm|] eqn:Ff; [|discriminate].
    destruct (find_mod_name _ _ _ Ff) as [Hfn Hfin].
    (* fm survives the filter and the map *)
    set (ms' := map _ (filter _ (mods g))).
    assert (Hfind : exists fm', find_mod ms' (i_from i) = Some fm').
    { unfold ms', find_mod. clear - Hfin Hfn Hne.
      induction (mods g) as [|x xs IH]; [contradiction|]. cbn.
      destruct (str_eqb (m_name x) n) eqn:Ex; cbn.
      - destruct Hfin as [->|Hfin]; [|auto].
        rewrite Hfn in Ex. rewrite Ex in Hne. discriminate.
      - destruct (str_eqb (m_name x) (i_from i)) eqn:Ei; [eauto|].
        destruct Hfin as [->|Hfin]; [rewrite Hfn, str_eqb_refl in Ei; discriminate|auto]. }
    destruct Hfind as [fm' ->]. reflexivity.
  - destruct (find_mod (mods g) n) as [m0|] eqn:F; cbn [fst mods]; [|exact HI].
    intros m Hm i Hi. rewrite exists_mod_upd.
    apply in_upd_mod in Hm. destruct Hm as [->|Hm]; [|eapply HI; eauto].
    cbn in Hi. destruct (find_mod_name _ _ _ F) as [_ Hin]. eapply HI; eauto.
  - destruct (find_mod (mods g) n) as [m0|] eqn:F; cbn [fst mods]; [|exact HI].
    intros m Hm i Hi. rewrite exists_mod_upd.
    apply in_upd_mod in Hm. destruct Hm as [->|Hm]; [|eapply HI; eauto].
    cbn in Hi. destruct (find_mod_name _ _ _ F) as [_ Hin]. eapply HI; eauto.
  - destruct (find_mod (mods g) from) as [fm|] eqn:Ff; cbn [fst]; [|exact HI].
    destruct (detect_cycle g to from); cbn [fst]; [|exact HI].
    destruct (find_mod (mods g) to) as [m0|] eqn:F; cbn [fst mods]; [|exact HI].
    intros m Hm i Hi. rewrite exists_mod_upd.
    apply in_upd_mod in Hm. destruct Hm as [->|Hm]; [|eapply HI; eauto].
    cbn in Hi. apply in_app_or in Hi. destruct Hi as [Hi|[<-|[]]].
    + destruct (find_mod_name _ _ _ F) as [_ Hin]. eapply HI; eauto.
    + cbn. unfold exists_mod. rewrite Ff. reflexivity.
Qed.

Definition exec (g : mgr) (ops : list op) : mgr := fold_left (fun g o => fst (step g o)) ops g.

Lemma exec_Inv ops : forall g, Inv (mods g) -> Inv (mods (exec g ops)).
Proof. induction ops as [|o ops IH]; intros g H; cbn; [exact H|]. apply IH. apply step_Inv. exact H. Qed.

(** * visibility queries always answer, and agree with the declarative definition *)
Lemma visible_imports_spec ms is_ r :
  (forall i, In i is_ -> exists_mod ms (i_from i) = true) ->
  visible_imports ms is_ r =
  if existsb (fun i => rule_import i &&
                match find_mod ms (i_from i) with
                | Some fm => exports_rule fm r && pattern_matches (i_pat i) r
                | None => false end) is_ then 1 else 0.
Proof.
  induction is_ as [|i rest IH]; intros Hex; cbn [visible_imports existsb]; [reflexivity|].
  assert (Hrest : forall i0, In i0 rest -> exists_mod ms (i_from i0) = true) by (intros; apply Hex; right; assumption).
  destruct (rule_import i); cbn [andb orb]; [|apply IH; exact Hrest].
  pose proof (Hex i (or_introl eq_refl)) as Hi. unfold exists_mod in Hi.
  destruct (find_mod ms (i_from i)) as [fm|]; [|discriminate].
  destruct (exports_rule fm r && pattern_matches (i_pat i) r); cbn [orb]; [reflexivity|apply IH; exact Hrest].
Qed.

Lemma visible_eq_spec g r to : Inv (mods g) -> is_rule_visible g r to = spec_visible (mods g) r to.
Proof.
  intros HI. unfold is_rule_visible, spec_visible.
  destruct (find_mod (mods g) to) as [m|] eqn:F; [|reflexivity].
  destruct (mem_str r (m_rules m)); [reflexivity|].
  apply visible_imports_spec. intros i Hi. destruct (find_mod_name _ _ _ F) as [_ Hin]. eapply HI; eauto.
Qed.

Theorem visibility_total ops r to :
  exists_mod (mods (exec init ops)) to = true -> is_rule_visible (exec init ops) r to <> 2.
Proof.
  intros Hex. rewrite visible_eq_spec by (apply exec_Inv; apply Inv_init).
  unfold spec_visible. unfold exists_mod in Hex.
  destruct (find_mod (mods (exec init ops)) to); [|discriminate].
  destruct (mem_str r (m_rules m)); [discriminate|].
  destruct (existsb _ _); discriminate.
Qed.

Theorem visible_iff_declared ops r to :
  is_rule_visible (exec init ops) r to = spec_visible (mods (exec init ops)) r to.
Proof. apply visible_eq_spec. apply exec_Inv. apply Inv_init. Qed.
