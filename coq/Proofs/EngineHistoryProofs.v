(** C02 — "a no-loop rule fires at most once until its tracking is reset", over whole histories of engine calls:
    several execute calls with any number of cycles each, focus changes, activate_agenda_group, enabling and
    disabling rules in between.  First for every condition language and action semantics (cycles / execute of
    Model/Engine.v), then for the histories of the concrete instance the correspondence runs use. *)
From RRE Require Import Base.Sx Model.Engine Proofs.EngineProofs Model.EngineConc.
From Coq Require Import Lia Permutation.
Open Scope Z_scope.

Section Gen.
Variables (cond action store : Type).
Variable eval : cond -> store -> bool.
Variable act : action -> store -> store * list effect.
Notation rule := (rule cond action).
Notation engine := (engine cond action).
Notation pass := (pass eval act).
Notation cycles := (cycles eval act).
Notation execute := (execute eval act).

Lemma count_app n a b : count n (a ++ b) = (count n a + count n b)%nat.
Proof. induction a as [|x a IH]; cbn; [reflexivity|]. rewrite IH. lia. Qed.
Lemma count_in n l : In n l -> (1 <= count n l)%nat.
Proof. induction l as [|x l IH]; [intros []|]. intros [E|H]; cbn; [subst; rewrite Z.eqb_refl; lia|specialize (IH H); lia]. Qed.

(** what a run may assume of the rule vector, for the rule name n *)
Definition nl_ok (n : Z) (rs : list rule) : Prop :=
  NoDup (map r_name rs) /\ forall r, In r rs -> r_name r = n -> r_noloop r = true.

Lemma cycles_noloop k : forall t (e : engine) s c n, nl_ok n (rules e) ->
  let r := cycles k t e s c in
  let e' := fst (fst (fst r)) in
  let trs := snd r in
  rules e' = rules e /\
  (memZ n (fired_global e) = true -> ~ In n (concat trs) /\ memZ n (fired_global e') = true) /\
  (count n (concat trs) <= 1)%nat /\
  (In n (concat trs) -> memZ n (fired_global e') = true).
Proof.
  induction k as [|k IH]; intros t e s c n OK; cbn [Engine.cycles].
  - cbn. repeat split; auto; try lia; intros [].
  - set (e0 := reset_cycle e).
    assert (OK0 : nl_ok n (rules e0)) by exact OK.
    destruct OK0 as [ND NL].
    pose proof (pass_rules cond action store eval act (rules e0) t e0 s) as PR.
    pose proof (pass_noloop cond action store eval act (rules e0) t e0 s n) as PN.
    pose proof (pass_noloop_once cond action store eval act (rules e0) t e0 s n ND NL) as [PO1 PO2].
    destruct (Engine.pass eval act (rules e0) t e0 s) as [[e1 s1] tr] eqn:EP. cbn [fst snd] in *.
    destruct tr as [|x tr].
    + cbn [fst snd concat app]. split; [exact PR|]. split; [|split; [cbn; lia|intros []]].
      intros Hm. split; [intros []|]. apply PN; [exact Hm|exact NL].
    + assert (OK1 : nl_ok n (rules (sync e1))) by (cbn [sync rules]; rewrite PR; exact OK).
      specialize (IH t (sync e1) s1 (c + 1) n OK1).
      destruct (Engine.cycles eval act k t (sync e1) s1 (c + 1)) as [[[e2 s2] c2] trs] eqn:EC. cbn [fst snd] in *.
      destruct IH as (IR & IM & IC & II). cbn [sync rules fired_global] in *.
      split; [rewrite IR; exact PR|]. cbn [concat]. split; [|split].
      * intros Hm. destruct (PN Hm NL) as [P1 P2]. destruct (IM P2) as [I1 I2]. split; [|exact I2].
        intros H. apply in_app_or in H as [H|H]; [apply P1; exact H|apply I1; exact H].
      * rewrite count_app.
        destruct (in_dec Z.eq_dec n (x :: tr)) as [Hin|Hin].
        -- destruct (IM (PO2 Hin)) as [I1 _]. rewrite (count_notin n (concat trs) I1). lia.
        -- rewrite (count_notin n (x :: tr) Hin). lia.
      * intros H. apply in_app_or in H as [H|H]; [|apply II; exact H]. apply IM. apply PO2. exact H.
Qed.

Lemma execute_noloop mc t (e : engine) s n : nl_ok n (rules e) ->
  let r := execute mc t e s in
  let e' := fst (fst r) in
  let tr := concat (res_trace (snd r)) in
  rules e' = rules e /\
  (memZ n (fired_global e) = true -> ~ In n tr /\ memZ n (fired_global e') = true) /\
  (count n tr <= 1)%nat /\ (In n tr -> memZ n (fired_global e') = true).
Proof.
  intros OK. unfold Engine.execute.
  pose proof (cycles_noloop mc t (sync e) s 0 n OK) as H.
  destruct (Engine.cycles eval act mc t (sync e) s 0) as [[[e1 s1] c] trs]. cbn [fst snd res_trace] in *. exact H.
Qed.
End Gen.

(** ---------- histories of the concrete instance ---------- *)
Definition hop_fired (es : cengine * store) (o : hop) : list Z :=
  match o with
  | HExecute t mc => concat (res_trace (snd (execute eval act mc t (fst es) (snd es))))
  | _ => []
  end.
Fixpoint hfired (es : cengine * store) (ops : list hop) : list Z :=
  match ops with [] => [] | o :: r => hop_fired es o ++ hfired (fst (hstep es o)) r end.
(** histories without reset_no_loop_tracking in which every rule added under the name n is a no-loop rule *)
Definition no_reset_for (n : Z) (ops : list hop) : Prop :=
  forall o, In o ops -> o <> HResetNoLoop /\ (forall r, o = HAddRule r -> r_name r = n -> r_noloop r = true).

Lemma insert_stable_perm (x : crule) l : Permutation (insert_stable x l) (x :: l).
Proof.
  induction l as [|y l IH]; cbn [insert_stable]; [reflexivity|].
  destruct (r_sal y <? r_sal x); [reflexivity|]. etransitivity; [apply perm_skip; exact IH|apply perm_swap].
Qed.

Lemma add_rule_nl_ok n (e : cengine) r : (r_name r = n -> r_noloop r = true) -> nl_ok _ _ n (rules e) -> nl_ok _ _ n (rules (add_rule e r)).
Proof.
  intros Hr [ND NL]. unfold add_rule. destruct (existsb (fun y => r_name y =? r_name r) (rules e)) eqn:E; [split; assumption|].
  cbn [rules]. pose proof (insert_stable_perm r (rules e)) as P. split.
  - eapply Permutation_NoDup; [apply Permutation_map; symmetry; exact P|]. cbn [map]. constructor; [|exact ND].
    intros Hin. apply in_map_iff in Hin as (y & En & Hy).
    assert (existsb (fun y => r_name y =? r_name r) (rules e) = true) by (apply existsb_exists; exists y; split; [exact Hy|apply Z.eqb_eq; exact En]).
    congruence.
  - intros r0 Hin En. apply (Permutation_in _ P) in Hin. destruct Hin as [E0|Hin]; [subst r0; apply Hr; exact En|apply (NL r0 Hin En)].
Qed.

Lemma remove_rule_nl_ok n (rs : list crule) m : nl_ok _ _ n rs -> nl_ok _ _ n (filter (fun r => negb (r_name r =? m)) rs).
Proof.
  intros [ND NL]. split.
  - induction rs as [|r rs IH]; cbn; [constructor|]. inversion ND as [|? ? Hr ND']; subst.
    assert (IH' := IH ND' (fun r0 H => NL r0 (or_intror H))).
    destruct (negb (r_name r =? m)); [|exact IH']. cbn. constructor; [|exact IH'].
    intros Hin. apply Hr. apply in_map_iff in Hin as (y & En & Hy). apply filter_In in Hy as [Hy _]. apply in_map_iff. exists y. auto.
  - intros r Hin En. apply filter_In in Hin as [Hin _]. apply (NL r Hin En).
Qed.

Lemma set_enabled_nl_ok n (e : cengine) m b : nl_ok _ _ n (rules e) -> nl_ok _ _ n (rules (set_enabled e m b)).
Proof.
  intros [ND NL]. unfold set_enabled. cbn [rules]. split.
  - rewrite map_map. erewrite map_ext; [exact ND|]. intros r. cbn. destruct (r_name r =? m); reflexivity.
  - intros r Hin En. apply in_map_iff in Hin as (r0 & E & Hin). destruct (r_name r0 =? m); subst r; cbn in *; apply (NL r0 Hin En).
Qed.

Lemma hstep_noloop (es : cengine * store) o n : o <> HResetNoLoop -> (forall r, o = HAddRule r -> r_name r = n -> r_noloop r = true) ->
  nl_ok _ _ n (rules (fst es)) ->
  let es' := fst (hstep es o) in
  nl_ok _ _ n (rules (fst es')) /\
  (memZ n (fired_global (fst es)) = true -> ~ In n (hop_fired es o) /\ memZ n (fired_global (fst es')) = true) /\
  (count n (hop_fired es o) <= 1)%nat /\ (In n (hop_fired es o) -> memZ n (fired_global (fst es')) = true).
Proof.
  intros NR AR OK. destruct es as [e s].
  assert (Quiet : forall e1 : cengine, rules e1 = rules e -> fired_global e1 = fired_global e ->
            nl_ok _ _ n (rules e1) /\
            (memZ n (fired_global e) = true -> ~ In n [] /\ memZ n (fired_global e1) = true) /\
            (count n [] <= 1)%nat /\ (In n [] -> memZ n (fired_global e1) = true)).
  { intros e1 E1 E2. rewrite E1, E2. split; [exact OK|]. cbn. repeat split; auto; try lia; try tauto. }
  destruct o as [t maxc|g| | | |m b|m|r|g]; cbn [hstep hop_fired fst snd]; try congruence.
  - (* execute *)
    pose proof (execute_noloop _ _ _ eval act maxc t e s n OK) as H.
    destruct (execute eval act maxc t e s) as [[e1 s1] r] eqn:E. cbn [fst snd] in *.
    destruct H as (HR & HM & HC & HI). split; [rewrite HR; exact OK|]. split; [exact HM|]. split; [exact HC|exact HI].
  - apply Quiet; reflexivity.
  - apply Quiet; reflexivity.
  - apply Quiet; reflexivity.
  - (* enable / disable *)
    split; [apply set_enabled_nl_ok; exact OK|]. cbn. repeat split; auto; try lia; try tauto.
  - (* remove_rule *)
    split; [cbn [rules]; apply remove_rule_nl_ok; exact OK|]. cbn. repeat split; auto; try lia; try tauto.
  - (* add_rule *)
    split; [apply add_rule_nl_ok; [apply AR; reflexivity|exact OK]|].
    assert (F : fired_global (add_rule e r) = fired_global e) by (unfold add_rule; destruct (existsb _ _); reflexivity).
    rewrite F. cbn. repeat split; auto; try lia; try tauto.
  - apply Quiet; reflexivity.
Qed.

Theorem history_noloop_once : forall ops (es : cengine * store) n, no_reset_for n ops -> nl_ok _ _ n (rules (fst es)) ->
  (count n (hfired es ops) <= 1)%nat /\
  (memZ n (fired_global (fst es)) = true -> ~ In n (hfired es ops)).
Proof.
  induction ops as [|o ops IH]; intros es n NR OK; cbn [hfired]; [split; [cbn; lia|intros _ []]|].
  destruct (NR o (or_introl eq_refl)) as [NRo ARo].
  assert (NR' : no_reset_for n ops) by (intros o' H; apply NR; right; exact H).
  destruct (hstep_noloop es o n NRo ARo OK) as (OK' & HM & HC & HI).
  destruct (IH (fst (hstep es o)) n NR' OK') as [IC IM].
  split.
  - rewrite count_app. destruct (in_dec Z.eq_dec n (hop_fired es o)) as [Hin|Hin].
    + rewrite (count_notin n _ (IM (HI Hin))). lia.
    + rewrite (count_notin n _ Hin). lia.
  - intros Hm. destruct (HM Hm) as [H1 H2]. intros H. apply in_app_or in H as [H|H]; [apply H1; exact H|apply (IM H2); exact H].
Qed.
