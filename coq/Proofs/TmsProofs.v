(** C08 — proofs about Model/Tms.v *)
From RRE Require Import Base.Sx Model.Tms.
From Coq Require Import Lia.
Open Scope N_scope.

Definition has_explicit (js : list just) (h : N) : bool :=
  existsb (fun j => N.eqb (jconcl j) h && jexplicit j) js.

Lemma has_explicit_valid js ret h : has_explicit js h = true -> has_valid js ret h = true.
Proof.
  unfold has_explicit, has_valid. rewrite !existsb_exists.
  intros [j [Hin Hj]]. exists j. split; [exact Hin|].
  apply andb_true_iff in Hj. destruct Hj as [H1 H2].
  unfold jvalid. rewrite H1, H2. reflexivity.
Qed.

(** the inner loop of retract_with_cascade, as a standalone function (same text as the
    anonymous fix inside [cascade]) *)
Definition loop_of (f : nat) (js : list just) :=
  fix loop (ds : list N) (t : tset) (acc : list N) (oof : bool) : tset * list N * bool :=
    match ds with
    | [] => (t, acc, oof)
    | d :: r =>
        if has_valid js (t_ret t) d then loop r t acc oof
        else if memN d (t_ret t) then loop r t acc oof
        else
          let '(t', l, o) := cascade f js d t in
          loop r t' (acc ++ d :: l) (oof || o)
    end.

Lemma cascade_S f js x t :
  cascade (S f) js x t =
  loop_of f js (dependents js x)
     {| t_ret := addN x (t_ret t); t_log := remN x (t_log t); t_exp := remN x (t_exp t) |} [] false.
Proof. reflexivity. Qed.

(** Every fact put on the cascade list had no valid justification at that moment; in
    particular a fact with an explicit justification is never cascaded. *)
Lemma cascade_no_explicit : forall fuel js x t t' l o,
  cascade fuel js x t = (t', l, o) ->
  forall d, In d l -> has_explicit js d = false.
Proof.
  induction fuel as [|f IH]; intros js x t t' l o H d Hd.
  - cbn in H. inversion H; subst. contradiction.
  - rewrite cascade_S in H.
    assert (G : forall ds t0 acc oof t1 l1 o1,
               loop_of f js ds t0 acc oof = (t1, l1, o1) ->
               (forall d, In d acc -> has_explicit js d = false) ->
               forall d, In d l1 -> has_explicit js d = false).
    { induction ds as [|d0 r IHds]; intros t0 acc oof t1 l1 o1 HL Hacc d1 Hd1.
      - cbn in HL. inversion HL; subst. auto.
      - cbn in HL.
        destruct (has_valid js (t_ret t0) d0) eqn:Ev.
        + eapply IHds; eauto.
        + destruct (memN d0 (t_ret t0)) eqn:Em.
          * eapply IHds; eauto.
          * destruct (cascade f js d0 t0) as [[t2 l2] o2] eqn:Ec.
            eapply IHds; [exact HL| |exact Hd1].
            intros d2 Hd2. apply in_app_or in Hd2. destruct Hd2 as [Hd2|Hd2]; [auto|].
            destruct Hd2 as [<-|Hd2].
            -- destruct (has_explicit js d0) eqn:Ee; [|reflexivity].
               apply (has_explicit_valid js (t_ret t0)) in Ee. congruence.
            -- eapply IH; eauto. }
    eapply G; eauto. intros ? [].
Qed.

Lemma live_wm_retract_other w h c : h <> c -> live (wm_retract w c) h = live w h.
Proof.
  intros Hne. unfold live, wm_retract. induction w as [|[k b] w IH]; cbn; [reflexivity|].
  rewrite IH. destruct (N.eqb k c) eqn:E; cbn; [|reflexivity].
  apply N.eqb_eq in E. subst k.
  destruct (N.eqb c h) eqn:E2; [apply N.eqb_eq in E2; congruence|]. reflexivity.
Qed.

Lemma live_fold_retract_notin casc : forall w h,
  ~ In h casc ->
  live (fold_left (fun w c => if live w c then wm_retract w c else w) casc w) h = live w h.
Proof.
  induction casc as [|c r IH]; intros w h Hn; cbn [fold_left]; [reflexivity|].
  rewrite IH by (intro; apply Hn; right; assumption).
  destruct (live w c); [|reflexivity].
  apply live_wm_retract_other. intro; subst; apply Hn; left; reflexivity.
Qed.

(** Explicitly inserted facts disappear only when retracted explicitly: a retraction of
    another handle never changes the liveness of a fact that carries an explicit justification. *)
Lemma explicit_survives_other_retract e x h :
  has_explicit (justs e) h = true -> x <> h ->
  live (wm (fst (fst (step e (Retract x))))) h = live (wm e) h.
Proof.
  intros He Hne. cbn [step].
  destruct (live (wm e) x) eqn:Elx; [|reflexivity].
  destruct (cascade (fuel_of e) (justs e) x _) as [[t casc] oof] eqn:Ec. cbn [fst wm].
  rewrite live_fold_retract_notin.
  - apply live_wm_retract_other. congruence.
  - intro Hin. pose proof (cascade_no_explicit _ _ _ _ _ _ _ Ec h Hin). congruence.
Qed.

(** non-retraction ops never remove anything *)
Lemma live_app_new w h k : live (w ++ [(k, false)]) h = live w h || N.eqb k h.
Proof.
  unfold live. rewrite existsb_app. cbn. rewrite orb_false_r, andb_true_r. reflexivity.
Qed.

Lemma nonretract_keeps_live e o h :
  (forall x, o <> Retract x) -> live (wm e) h = true ->
  live (wm (fst (fst (step e o)))) h = true.
Proof.
  intros Hn Hl. destruct o as [|ps|k ps|x]; cbn [step fst wm].
  - rewrite live_app_new, Hl. reflexivity.
  - rewrite live_app_new, Hl. reflexivity.
  - exact Hl.
  - exfalso. eapply Hn. reflexivity.
Qed.
