(** C04 — the condition-tree parser recovers the written tree: for every tree of comparisons joined by
    &&, || and !, with any number of redundant parentheses, parse_when (print tree) = tree.  Proofs. *)
From RRE Require Import Base.Sx Base.Float Base.Num Model.ExprShape Model.Forward Model.ForwardSpec Model.Grl Proofs.GrlProofs Proofs.ExprShapeProofs.
From Coq Require Import Lia.
Open Scope Z_scope.

(** ---------- neutrality of printed trees ---------- *)
Lemma bal_inert_app a b : bal_inert a -> bal_inert b -> bal_inert (a ++ b).
Proof. intros Ha Hb rest n Hn. rewrite <- app_assoc. rewrite Ha by exact Hn. apply Hb. exact Hn. Qed.

Lemma bal_inert_char c : (c =? 34) = false -> (c =? 39) = false -> (c =? 40) = false -> (c =? 41) = false -> bal_inert [c].
Proof. intros E1 E2 E3 E4 rest n _. cbn [app balanced_q]. rewrite E1, E2, E3, E4. reflexivity. Qed.

Lemma bal_inert_paren t : bal_inert t -> bal_inert (40 :: t ++ [41]).
Proof.
  intros Ht rest n Hn. cbn [app]. rewrite <- app_assoc. cbn [app balanced_q].
  change ((40 =? 34) || (40 =? 39)) with false. change (40 =? 40) with true. cbn iota.
  rewrite Ht by lia. cbn [balanced_q].
  change ((41 =? 34) || (41 =? 39)) with false. change (41 =? 40) with false. change (41 =? 41) with true. cbn iota.
  destruct (n + 1 - 1 <? 0) eqn:E; [apply Z.ltb_lt in E; lia|]. replace (n + 1 - 1) with n by lia. reflexivity.
Qed.

Definition sep_and : str := [32; 38; 38; 32].
Definition sep_or : str := [32; 124; 124; 32].
Lemma bal_inert_sep_and : bal_inert sep_and.
Proof. intros rest n _. reflexivity. Qed.
Lemma bal_inert_sep_or : bal_inert sep_or.
Proof. intros rest n _. reflexivity. Qed.

Lemma pr_g_bal : forall g, wf_g g -> bal_inert (pr_g g).
Proof.
  induction g as [c|a IHa|a IHa b IHb|a IHa b IHb|a IHa]; cbn [wf_g pr_g]; intros H.
  - exact (lf_bal _ H).
  - apply bal_inert_paren. apply IHa. exact H.
  - destruct H as [Ha Hb]. apply bal_inert_app; [|apply bal_inert_app; [exact bal_inert_sep_and|]].
    + destruct (gcompound a); [apply bal_inert_paren|]; apply IHa; exact Ha.
    + destruct (gcompound b); [apply bal_inert_paren|]; apply IHb; exact Hb.
  - destruct H as [Ha Hb]. apply bal_inert_app; [|apply bal_inert_app; [exact bal_inert_sep_or|]].
    + destruct (gcompound a); [apply bal_inert_paren|]; apply IHa; exact Ha.
    + destruct (gcompound b); [apply bal_inert_paren|]; apply IHb; exact Hb.
  - change (33 :: 40 :: pr_g a ++ [41]) with ([33] ++ (40 :: pr_g a ++ [41])).
    apply bal_inert_app; [apply bal_inert_char; reflexivity|apply bal_inert_paren; apply IHa; exact H].
Qed.

Lemma op_cases (op : Z) : op = 38 \/ op = 124 -> op <> 34 /\ op <> 39 /\ op <> 40 /\ op <> 41.
Proof. intros [E|E]; subst; repeat split; discriminate. Qed.

Lemma inert_in_sep_text op : op = 38 \/ op = 124 -> inert_in op sep_and /\ inert_in op sep_or.
Proof.
  intros Hop. destruct (op_cases op Hop) as [N1 [N2 [N3 N4]]].
  assert (S32 : inert op [32]) by (apply inert_char; destruct Hop; subst; reflexivity).
  split.
  - change sep_and with ([32] ++ [38; 38] ++ [32]). apply inert_in_app; [apply inert_weaken; exact S32|apply inert_in_app; [|apply inert_weaken; exact S32]].
    destruct Hop; subst; [apply inert_in_sep; discriminate|apply inert_weaken; apply inert_ordinary; reflexivity].
  - change sep_or with ([32] ++ [124; 124] ++ [32]). apply inert_in_app; [apply inert_weaken; exact S32|apply inert_in_app; [|apply inert_weaken; exact S32]].
    destruct Hop; subst; [apply inert_weaken; apply inert_ordinary; reflexivity|apply inert_in_sep; discriminate].
Qed.

(** inside parentheses a printed tree never splits *)
Lemma pr_g_inert_in op : op = 38 \/ op = 124 -> forall g, wf_g g -> inert_in op (pr_g g).
Proof.
  intros Hop. destruct (op_cases op Hop) as [N1 [N2 [N3 N4]]]. destruct (inert_in_sep_text op Hop) as [SA SO].
  induction g as [c|a IHa|a IHa b IHb|a IHa b IHb|a IHa]; cbn [wf_g pr_g]; intros H.
  - apply inert_weaken. destruct Hop; subst; [exact (lf_and _ H)|exact (lf_or _ H)].
  - apply inert_weaken. apply inert_paren; [apply IHa; exact H|exact N3|exact N4].
  - destruct H as [Ha Hb]. apply inert_in_app; [|apply inert_in_app; [exact SA|]].
    + destruct (gcompound a); [apply inert_weaken; apply inert_paren; [apply IHa; exact Ha|exact N3|exact N4]|apply IHa; exact Ha].
    + destruct (gcompound b); [apply inert_weaken; apply inert_paren; [apply IHb; exact Hb|exact N3|exact N4]|apply IHb; exact Hb].
  - destruct H as [Ha Hb]. apply inert_in_app; [|apply inert_in_app; [exact SO|]].
    + destruct (gcompound a); [apply inert_weaken; apply inert_paren; [apply IHa; exact Ha|exact N3|exact N4]|apply IHa; exact Ha].
    + destruct (gcompound b); [apply inert_weaken; apply inert_paren; [apply IHb; exact Hb|exact N3|exact N4]|apply IHb; exact Hb].
  - change (33 :: 40 :: pr_g a ++ [41]) with ([33] ++ (40 :: pr_g a ++ [41])).
    apply inert_in_app; apply inert_weaken; [apply inert_char; destruct Hop; subst; reflexivity|apply inert_paren; [apply IHa; exact H|exact N3|exact N4]].
Qed.

(** an operand as it is printed under && / ||: never splits at its own top level *)
Definition wrapg (g : gcond) : str := if gcompound g then 40 :: pr_g g ++ [41] else pr_g g.
Lemma wrapg_inert op : op = 38 \/ op = 124 -> forall g, wf_g g -> inert op (wrapg g).
Proof.
  intros Hop g H. destruct (op_cases op Hop) as [N1 [N2 [N3 N4]]]. unfold wrapg.
  destruct g as [c|a|a b|a b|a]; cbn [gcompound pr_g wf_g] in *.
  - destruct Hop; subst; [exact (lf_and _ H)|exact (lf_or _ H)].
  - apply inert_paren; [apply pr_g_inert_in; assumption|exact N3|exact N4].
  - apply inert_paren; [apply (pr_g_inert_in op Hop (GAnd2 a b)); exact H|exact N3|exact N4].
  - apply inert_paren; [apply (pr_g_inert_in op Hop (GOr2 a b)); exact H|exact N3|exact N4].
  - change (33 :: 40 :: pr_g a ++ [41]) with ([33] ++ (40 :: pr_g a ++ [41])).
    apply inert_app; [apply inert_char; destruct Hop; subst; reflexivity|apply inert_paren; [apply pr_g_inert_in; assumption|exact N3|exact N4]].
Qed.

(** ---------- first and last characters; trimming ---------- *)
Lemma wrapg_is_pr g : wrapg g = pr_g (if gcompound g then GParen g else g).
Proof. unfold wrapg. destruct (gcompound g); reflexivity. Qed.
Lemma wf_wrap g : wf_g g -> wf_g (if gcompound g then GParen g else g).
Proof. intros H. destruct (gcompound g); exact H. Qed.

Lemma pr_g_first : forall g, wf_g g -> exists c r, pr_g g = c :: r /\ ws_unicode c = false.
Proof.
  induction g as [c|a IHa|a IHa b IHb|a IHa b IHb|a IHa]; cbn [wf_g pr_g]; intros H.
  - destruct (lf_first _ H) as [c0 [r [E [W _]]]]. exists c0, r. split; assumption.
  - eexists; eexists; split; reflexivity.
  - destruct H as [Ha _]. destruct (gcompound a); [eexists; eexists; split; reflexivity|].
    destruct (IHa Ha) as [c0 [r [E W]]]. rewrite E. eexists; eexists; split; [reflexivity|exact W].
  - destruct H as [Ha _]. destruct (gcompound a); [eexists; eexists; split; reflexivity|].
    destruct (IHa Ha) as [c0 [r [E W]]]. rewrite E. eexists; eexists; split; [reflexivity|exact W].
  - eexists; eexists; split; reflexivity.
Qed.

Lemma rev_snoc {T} (l : list T) x : rev (l ++ [x]) = x :: rev l.
Proof. rewrite rev_app_distr. reflexivity. Qed.

Lemma pr_g_last : forall g, wf_g g -> exists c r, rev (pr_g g) = c :: r /\ ws_unicode c = false.
Proof.
  induction g as [c|a IHa|a IHa b IHb|a IHa b IHb|a IHa]; cbn [wf_g pr_g]; intros H.
  - exact (lf_last _ H).
  - change (40 :: pr_g a ++ [41]) with ((40 :: pr_g a) ++ [41]). rewrite rev_snoc. eexists; eexists; split; reflexivity.
  - destruct H as [_ Hb]. rewrite !rev_app_distr. destruct (gcompound b).
    + change (40 :: pr_g b ++ [41]) with ((40 :: pr_g b) ++ [41]). rewrite rev_snoc. eexists; eexists; split; reflexivity.
    + destruct (IHb Hb) as [c0 [r [E W]]]. rewrite E. eexists; eexists; split; [reflexivity|exact W].
  - destruct H as [_ Hb]. rewrite !rev_app_distr. destruct (gcompound b).
    + change (40 :: pr_g b ++ [41]) with ((40 :: pr_g b) ++ [41]). rewrite rev_snoc. eexists; eexists; split; reflexivity.
    + destruct (IHb Hb) as [c0 [r [E W]]]. rewrite E. eexists; eexists; split; [reflexivity|exact W].
  - change (33 :: 40 :: pr_g a ++ [41]) with ((33 :: 40 :: pr_g a) ++ [41]). rewrite rev_snoc. eexists; eexists; split; reflexivity.
Qed.

Lemma trim_ends (t : str) : (exists c r, t = c :: r /\ ws_unicode c = false) -> (exists c r, rev t = c :: r /\ ws_unicode c = false) ->
  trim ws_unicode t = t /\ trim ws_unicode (t ++ [32]) = t /\ trim ws_unicode (32 :: t) = t.
Proof.
  intros [c [r [E W]]] [c' [r' [E' W']]].
  assert (T1 : trim ws_unicode t = t).
  { unfold trim. rewrite E. cbn [trim_start]. rewrite W. rewrite <- E, E'. cbn [trim_start]. rewrite W'. rewrite <- E'. apply rev_involutive. }
  repeat split; [exact T1| |].
  - unfold trim. rewrite E. cbn [app trim_start]. rewrite W. change (c :: r ++ [32]) with ((c :: r) ++ [32]). rewrite <- E, rev_snoc.
    cbn [trim_start]. change (ws_unicode 32) with true. cbn iota. rewrite E'. cbn [trim_start]. rewrite W'. rewrite <- E'. apply rev_involutive.
  - unfold trim. cbn [trim_start]. change (ws_unicode 32) with true. cbn iota. exact T1.
Qed.

Lemma trim_pr_g g : wf_g g -> trim ws_unicode (pr_g g) = pr_g g /\ trim ws_unicode (pr_g g ++ [32]) = pr_g g /\ trim ws_unicode (32 :: pr_g g) = pr_g g.
Proof. intros H. apply trim_ends; [apply pr_g_first|apply pr_g_last]; exact H. Qed.

(** ---------- outer parentheses ---------- *)
Lemma strip_ends_paren X : strip_ends (40 :: X ++ [41]) = X.
Proof. unfold strip_ends. rewrite rev_snoc. cbn [tl]. apply rev_involutive. Qed.
Lemma last_is_paren X : last_is (40 :: X ++ [41]) 41 = true.
Proof. unfold last_is. change (40 :: X ++ [41]) with ((40 :: X) ++ [41]). rewrite rev_snoc. reflexivity. Qed.

Lemma balanced_pr g : wf_g g -> balanced (pr_g g) 0 = true.
Proof. intros H. unfold balanced. pose proof (pr_g_bal g H [] 0 ltac:(lia)) as B. rewrite app_nil_r in B. rewrite B. reflexivity. Qed.

Lemma unbalanced_close X rest : bal_inert X -> balanced (X ++ 41 :: rest) 0 = false.
Proof. intros H. unfold balanced. rewrite H by lia. reflexivity. Qed.

Fixpoint unparen (g : gcond) : gcond := match g with GParen a => unparen a | x => x end.
Fixpoint layers (g : gcond) : nat := match g with GParen a => S (layers a) | _ => O end.
Lemma wf_unparen g : wf_g g -> wf_g (unparen g).
Proof. induction g; cbn [wf_g unparen]; auto. Qed.
Lemma skel_unparen g : skel (unparen g) = skel g.
Proof. induction g; cbn [skel unparen]; auto. Qed.
Lemma layers_le g : (layers g <= length (pr_g g))%nat.
Proof. induction g; cbn [layers pr_g length]; try lia. rewrite app_length. cbn. lia. Qed.

(** a tree that is not a parenthesised tree is not stripped *)
Definition nonparen (g : gcond) : Prop := match g with GParen _ => False | _ => True end.
Lemma nonparen_unparen g : nonparen (unparen g).
Proof. induction g; cbn; auto. Qed.

Lemma operand_shape g : wf_g g ->
  (exists c r, wrapg g = c :: r /\ (c =? 40) = false) \/ (exists X, wrapg g = 40 :: X ++ [41] /\ bal_inert X).
Proof.
  intros H. unfold wrapg. destruct g as [c|a|a b|a b|a]; cbn [gcompound pr_g wf_g] in *.
  - left. destruct (lf_first _ H) as [c0 [r [E [_ [P _]]]]]. exists c0, r. split; assumption.
  - right. exists (pr_g a). split; [reflexivity|apply pr_g_bal; exact H].
  - right. eexists. split; [reflexivity|apply (pr_g_bal (GAnd2 a b)); exact H].
  - right. eexists. split; [reflexivity|apply (pr_g_bal (GOr2 a b)); exact H].
  - left. eexists; eexists; split; reflexivity.
Qed.

Lemma strip_ends_removelast c (r : str) : strip_ends (c :: r) = removelast r.
Proof.
  unfold strip_ends. induction r as [|x l _] using rev_ind; [reflexivity|].
  rewrite rev_snoc. cbn [tl]. rewrite rev_involutive, removelast_last. reflexivity.
Qed.

Lemma strip_ends_operand X (M W : str) : M <> [] -> exists Y, strip_ends ((40 :: X ++ [41]) ++ M ++ W) = X ++ 41 :: Y.
Proof.
  intros HM. cbn [app]. rewrite strip_ends_removelast. rewrite removelast_app by (destruct M; [contradiction|discriminate]).
  exists (removelast (M ++ W)). rewrite <- app_assoc. reflexivity.
Qed.

Lemma pr_and a b : pr_g (GAnd2 a b) = wrapg a ++ [32; 38; 38; 32] ++ wrapg b.
Proof. reflexivity. Qed.
Lemma pr_or a b : pr_g (GOr2 a b) = wrapg a ++ [32; 124; 124; 32] ++ wrapg b.
Proof. reflexivity. Qed.

Lemma strip_stable_nonparen : forall n g, wf_g g -> nonparen g -> strip_outer n (pr_g g) = pr_g g.
Proof.
  intros n g H Hn. destruct n as [|n]; [reflexivity|]. cbn [strip_outer].
  assert (Stop : first_is (pr_g g) 40 && last_is (pr_g g) 41 && balanced (strip_ends (pr_g g)) 0 = false); [|rewrite Stop; reflexivity].
  destruct g as [c|a|a b|a b|a]; cbn [nonparen] in Hn; try contradiction; cbn [wf_g] in *.
  - cbn [pr_g]. destruct (lf_first _ H) as [c0 [r [E [_ [P _]]]]]. rewrite E. unfold first_is. rewrite P. reflexivity.
  - destruct H as [Ha Hb]. rewrite pr_and.
    destruct (operand_shape a Ha) as [[c0 [r [E P]]]|[X [E B]]]; rewrite E.
    + unfold first_is. cbn [app]. rewrite P. reflexivity.
    + destruct (first_is ((40 :: X ++ [41]) ++ [32; 38; 38; 32] ++ wrapg b) 40 && last_is ((40 :: X ++ [41]) ++ [32; 38; 38; 32] ++ wrapg b) 41); [|reflexivity].
      cbn [andb]. destruct (strip_ends_operand X [32; 38; 38; 32] (wrapg b) ltac:(discriminate)) as [Y RY]. rewrite RY. apply unbalanced_close. exact B.
  - destruct H as [Ha Hb]. rewrite pr_or.
    destruct (operand_shape a Ha) as [[c0 [r [E P]]]|[X [E B]]]; rewrite E.
    + unfold first_is. cbn [app]. rewrite P. reflexivity.
    + destruct (first_is ((40 :: X ++ [41]) ++ [32; 124; 124; 32] ++ wrapg b) 40 && last_is ((40 :: X ++ [41]) ++ [32; 124; 124; 32] ++ wrapg b) 41); [|reflexivity].
      cbn [andb]. destruct (strip_ends_operand X [32; 124; 124; 32] (wrapg b) ltac:(discriminate)) as [Y RY]. rewrite RY. apply unbalanced_close. exact B.
  - reflexivity.
Qed.

Lemma strip_outer_pr : forall g n, wf_g g -> (layers g <= n)%nat -> strip_outer n (pr_g g) = pr_g (unparen g).
Proof.
  induction g as [c|a IHa|a IHa b IHb|a IHa b IHb|a IHa]; intros n H Hl;
    try (apply (strip_stable_nonparen n _ H); exact I).
  cbn [layers] in Hl. destruct n as [|n]; [lia|]. cbn [wf_g unparen pr_g] in *. cbn [strip_outer].
  unfold first_is at 1. cbn [Z.eqb Pos.eqb]. rewrite last_is_paren, strip_ends_paren, (balanced_pr a H). cbn [andb].
  destruct (trim_pr_g a H) as [T _]. rewrite T. apply IHa; [exact H|lia].
Qed.

(** ---------- the parser on a printed tree ---------- *)
Definition parse_body (pw : str -> ptree) (clause : str) : ptree :=
  match split_on 124 clause with
  | Some parts => fold_left1 POr (map pw parts) (PLeaf clause)
  | None =>
      match split_on 38 clause with
      | Some parts => fold_left1 PAnd (map pw parts) (PLeaf clause)
      | None =>
          let c := trim_start ws_unicode clause in
          if first_is c 33 then PNot (pw (trim ws_unicode (tl c)))
          else let c1 := trim ws_unicode clause in
               PLeaf (if first_is c1 40 && last_is c1 41 && balanced (strip_ends c1) 0 then trim ws_unicode (strip_ends c1) else c1)
      end
  end.
Lemma parse_when_S fu s :
  parse_when (S fu) s = parse_body (parse_when fu) (strip_outer (length (trim ws_unicode s)) (trim ws_unicode s)).
Proof. reflexivity. Qed.

Lemma split_none op t : inert op t -> trim ws_unicode t <> [] -> split_on op t = None.
Proof.
  intros Hi Hne. unfold split_on. pose proof (Hi [] 0 [] ltac:(lia)) as E. rewrite !app_nil_r in E. rewrite E.
  cbn [split_logical]. rewrite rev_involutive. destruct (trim ws_unicode t); [contradiction|]. reflexivity.
Qed.

Lemma nonempty_first (t : str) : (exists c r, t = c :: r /\ ws_unicode c = false) -> t <> [].
Proof. intros [c [r [E _]]]. rewrite E. discriminate. Qed.

Lemma inert_space op : op = 38 \/ op = 124 -> inert op [32].
Proof. intros H. apply inert_char. destruct H; subst; reflexivity. Qed.

(** Main theorem of C04's condition parser: for EVERY tree - any depth, any number of redundant
    parentheses, leaves that are neutral texts - parsing the printed text yields exactly the tree:
    && binds tighter than ||, parentheses and ! are respected. *)
Theorem parse_when_pr : forall fuel g, wf_g g -> (length (pr_g g) < fuel)%nat -> parse_when fuel (pr_g g) = skel g.
Proof.
  induction fuel as [|fu IH]; intros g H Hlen; [lia|].
  rewrite parse_when_S. destruct (trim_pr_g g H) as [T _]. rewrite T.
  rewrite (strip_outer_pr g _ H (layers_le g)). rewrite <- (skel_unparen g).
  pose proof (wf_unparen g H) as H0. pose proof (nonparen_unparen g) as N0.
  assert (L0 : (length (pr_g (unparen g)) <= length (pr_g g))%nat).
  { clear. induction g; cbn [unparen pr_g length]; try lia. rewrite app_length. cbn. lia. }
  remember (unparen g) as g0 eqn:Eg0. clear Eg0 H T. unfold parse_body.
  destruct g0 as [c|a|a b|a b|a]; cbn [nonparen] in N0; try contradiction; cbn [wf_g skel] in *.
  - (* a comparison *)
    cbn [pr_g].
    assert (F2 : exists c0 r, pr_cond c = c0 :: r /\ ws_unicode c0 = false).
    { destruct (lf_first _ H0) as [c0 [r [E [W _]]]]. exists c0, r. split; assumption. }
    pose proof (nonempty_first _ F2) as NE.
    destruct (trim_ends _ F2 (lf_last _ H0)) as [T1 _].
    rewrite (split_none 124 _ (lf_or _ H0)) by (rewrite T1; exact NE).
    rewrite (split_none 38 _ (lf_and _ H0)) by (rewrite T1; exact NE).
    destruct (lf_first _ H0) as [c0 [r [E [W [P1 P2]]]]].
    assert (TS : trim_start ws_unicode (pr_cond c) = pr_cond c) by (rewrite E; cbn [trim_start]; rewrite W; reflexivity).
    cbv zeta. rewrite TS, T1. rewrite E. unfold first_is. rewrite P2, P1. reflexivity.
  - (* && *)
    destruct H0 as [Ha Hb]. rewrite pr_and.
    pose proof (wrapg_inert 124 (or_intror eq_refl) a Ha) as IoA. pose proof (wrapg_inert 124 (or_intror eq_refl) b Hb) as IoB.
    pose proof (wrapg_inert 38 (or_introl eq_refl) a Ha) as IaA. pose proof (wrapg_inert 38 (or_introl eq_refl) b Hb) as IaB.
    rewrite (wrapg_is_pr a), (wrapg_is_pr b) in *.
    set (a' := if gcompound a then GParen a else a) in *. set (b' := if gcompound b then GParen b else b) in *.
    assert (Wa : wf_g a') by (apply wf_wrap; exact Ha). assert (Wb : wf_g b') by (apply wf_wrap; exact Hb).
    destruct (trim_pr_g a' Wa) as [Ta [Ta2 _]]. destruct (trim_pr_g b' Wb) as [Tb [_ Tb3]].
    (* no top-level || *)
    assert (Ior : inert 124 (pr_g a' ++ [32; 38; 38; 32] ++ pr_g b')).
    { apply inert_app; [exact IoA|apply inert_app; [apply inert_ordinary; reflexivity|exact IoB]]. }
    assert (Tall : trim ws_unicode (pr_g a' ++ [32; 38; 38; 32] ++ pr_g b') = pr_g a' ++ [32; 38; 38; 32] ++ pr_g b').
    { apply trim_ends.
      - destruct (pr_g_first a' Wa) as [c0 [r [E W]]]. rewrite E. eexists; eexists; split; [reflexivity|exact W].
      - destruct (pr_g_last b' Wb) as [c0 [r [E W]]]. rewrite !rev_app_distr, E. eexists; eexists; split; [reflexivity|exact W]. }
    rewrite (split_none 124 _ Ior) by (rewrite Tall; destruct (pr_g_first a' Wa) as [c0 [r [E _]]]; rewrite E; discriminate).
    (* the top-level && *)
    change (pr_g a' ++ [32; 38; 38; 32] ++ pr_g b') with (pr_g a' ++ [32] ++ [38; 38] ++ (32 :: pr_g b')).
    rewrite app_assoc.
    rewrite (split_two 38 (pr_g a' ++ [32]) (32 :: pr_g b')); try discriminate.
    + rewrite Ta2, Tb3. cbn [map fold_left1 fold_left].
      assert (La : (length (pr_g a') < fu)%nat). { rewrite pr_and in L0. rewrite (wrapg_is_pr a), (wrapg_is_pr b) in L0. fold a' b' in L0. rewrite !app_length in L0. cbn in L0. lia. }
      assert (Lb : (length (pr_g b') < fu)%nat). { rewrite pr_and in L0. rewrite (wrapg_is_pr a), (wrapg_is_pr b) in L0. fold a' b' in L0. rewrite !app_length in L0. cbn in L0. lia. }
      rewrite (IH a' Wa La), (IH b' Wb Lb). unfold a', b'. destruct (gcompound a), (gcompound b); reflexivity.
    + apply inert_app; [exact IaA|apply inert_space; left; reflexivity].
    + change (32 :: pr_g b') with ([32] ++ pr_g b'). apply inert_app; [apply inert_space; left; reflexivity|exact IaB].
    + rewrite Tb3. destruct (pr_g_first b' Wb) as [c0 [r [E _]]]. rewrite E. discriminate.
  - (* || *)
    destruct H0 as [Ha Hb]. rewrite pr_or.
    pose proof (wrapg_inert 124 (or_intror eq_refl) a Ha) as IoA. pose proof (wrapg_inert 124 (or_intror eq_refl) b Hb) as IoB.
    rewrite (wrapg_is_pr a), (wrapg_is_pr b) in *.
    set (a' := if gcompound a then GParen a else a) in *. set (b' := if gcompound b then GParen b else b) in *.
    assert (Wa : wf_g a') by (apply wf_wrap; exact Ha). assert (Wb : wf_g b') by (apply wf_wrap; exact Hb).
    destruct (trim_pr_g a' Wa) as [Ta [Ta2 _]]. destruct (trim_pr_g b' Wb) as [Tb [_ Tb3]].
    change (pr_g a' ++ [32; 124; 124; 32] ++ pr_g b') with (pr_g a' ++ [32] ++ [124; 124] ++ (32 :: pr_g b')).
    rewrite app_assoc.
    rewrite (split_two 124 (pr_g a' ++ [32]) (32 :: pr_g b')); try discriminate.
    + rewrite Ta2, Tb3. cbn [map fold_left1 fold_left].
      assert (La : (length (pr_g a') < fu)%nat). { rewrite pr_or in L0. rewrite (wrapg_is_pr a), (wrapg_is_pr b) in L0. fold a' b' in L0. rewrite !app_length in L0. cbn in L0. lia. }
      assert (Lb : (length (pr_g b') < fu)%nat). { rewrite pr_or in L0. rewrite (wrapg_is_pr a), (wrapg_is_pr b) in L0. fold a' b' in L0. rewrite !app_length in L0. cbn in L0. lia. }
      rewrite (IH a' Wa La), (IH b' Wb Lb). unfold a', b'. destruct (gcompound a), (gcompound b); reflexivity.
    + apply inert_app; [exact IoA|apply inert_space; right; reflexivity].
    + change (32 :: pr_g b') with ([32] ++ pr_g b'). apply inert_app; [apply inert_space; right; reflexivity|exact IoB].
    + rewrite Tb3. destruct (pr_g_first b' Wb) as [c0 [r [E _]]]. rewrite E. discriminate.
  - (* ! *)
    cbn [pr_g].
    assert (In124 : inert 124 (33 :: 40 :: pr_g a ++ [41])).
    { change (33 :: 40 :: pr_g a ++ [41]) with ([33] ++ (40 :: pr_g a ++ [41])). apply inert_app; [apply inert_char; reflexivity|apply inert_paren; [apply pr_g_inert_in; [right; reflexivity|exact H0]|discriminate|discriminate]]. }
    assert (In38 : inert 38 (33 :: 40 :: pr_g a ++ [41])).
    { change (33 :: 40 :: pr_g a ++ [41]) with ([33] ++ (40 :: pr_g a ++ [41])). apply inert_app; [apply inert_char; reflexivity|apply inert_paren; [apply pr_g_inert_in; [left; reflexivity|exact H0]|discriminate|discriminate]]. }
    assert (Tn : trim ws_unicode (33 :: 40 :: pr_g a ++ [41]) = 33 :: 40 :: pr_g a ++ [41]).
    { apply (trim_pr_g (GNot2 a) H0). }
    rewrite (split_none 124 _ In124) by (rewrite Tn; discriminate).
    rewrite (split_none 38 _ In38) by (rewrite Tn; discriminate).
    cbv zeta. cbn [trim_start]. change (ws_unicode 33) with false. cbn iota. unfold first_is at 1. cbn [Z.eqb Pos.eqb tl].
    destruct (trim_pr_g (GParen a) H0) as [Tp _]. cbn [pr_g] in Tp. rewrite Tp.
    f_equal. apply (IH (GParen a) H0). cbn [pr_g length] in *. lia.
Qed.

Corollary parse_when_text_pr g : wf_g g -> parse_when_text (pr_g g) = skel g.
Proof. intros H. unfold parse_when_text. apply parse_when_pr; [exact H|lia]. Qed.

(** ---------- which leaves are neutral: ordinary text, possibly ending in a string literal ---------- *)
Definition ord2 (c : Z) : bool := ordinary 38 c && ordinary 124 c.

Lemma ord2_facts c : ord2 c = true -> ordinary 38 c = true /\ ordinary 124 c = true /\
  (c =? 34) = false /\ (c =? 39) = false /\ (c =? 40) = false /\ (c =? 41) = false.
Proof.
  unfold ord2. intros H. apply andb_true_iff in H. destruct H as [H1 H2]. repeat split; try assumption;
    unfold ordinary in H1; repeat (apply andb_true_iff in H1; destruct H1 as [H1 ?]);
    repeat match goal with X : negb _ = true |- _ => apply negb_true_iff in X end; assumption.
Qed.

Lemma bal_inert_ord : forall t, forallb ord2 t = true -> bal_inert t.
Proof.
  induction t as [|c t IH]; intros H; [intros rest n _; reflexivity|].
  cbn [forallb] in H. apply andb_true_iff in H. destruct H as [Hc Ht].
  destruct (ord2_facts c Hc) as [_ [_ [E1 [E2 [E3 E4]]]]].
  change (c :: t) with ([c] ++ t). apply bal_inert_app; [apply bal_inert_char; assumption|apply IH; exact Ht].
Qed.

Lemma bal_in_quote q : forall s rest n, memc q s = false ->
  balanced_q (s ++ q :: rest) n (Some q) = balanced_q rest n None.
Proof.
  induction s as [|c s IH]; intros rest n H.
  - cbn [app balanced_q]. rewrite Z.eqb_refl. reflexivity.
  - unfold memc in H. cbn [existsb] in H. apply orb_false_iff in H. destruct H as [Hc Hs].
    cbn [app balanced_q]. rewrite Z.eqb_sym in Hc. rewrite Hc. apply IH. exact Hs.
Qed.

Lemma bal_inert_quoted q s : ((q =? 34) || (q =? 39)) = true -> memc q s = false -> bal_inert (q :: s ++ [q]).
Proof.
  intros Hq Hs rest n _. cbn [app]. rewrite <- app_assoc. cbn [app balanced_q]. rewrite Hq. apply bal_in_quote. exact Hs.
Qed.

Lemma forallb_ord_inert op : op = 38 \/ op = 124 -> forall t, forallb ord2 t = true -> inert op t.
Proof.
  intros Hop t H. apply inert_ordinary. rewrite forallb_forall in *. intros c Hin. destruct (ord2_facts c (H c Hin)) as [O1 [O2 _]].
  destruct Hop; subst; assumption.
Qed.

(** `field op 123`, `a.b >= x`, ... : ordinary characters only *)
Theorem leaf_ok_plain t c r c' r' : t = c :: r -> rev t = c' :: r' -> forallb ord2 t = true ->
  ws_unicode c = false -> (c =? 33) = false -> ws_unicode c' = false -> leaf_ok t.
Proof.
  intros E E' H W P W'. assert (O := H). rewrite E in O. cbn [forallb] in O. apply andb_true_iff in O. destruct O as [Oc _].
  destruct (ord2_facts c Oc) as [_ [_ [_ [_ [P40 _]]]]].
  constructor.
  - exists c, r. repeat split; assumption.
  - exists c', r'. split; assumption.
  - apply forallb_ord_inert; [left; reflexivity|exact H].
  - apply forallb_ord_inert; [right; reflexivity|exact H].
  - apply bal_inert_ord. exact H.
Qed.

(** `field == "any text with && || ( ) in it"` : ordinary text followed by a string literal *)
Theorem leaf_ok_string a c r q s : a = c :: r -> forallb ord2 a = true -> ws_unicode c = false -> (c =? 33) = false ->
  ((q =? 34) || (q =? 39)) = true -> memc q s = false -> leaf_ok (a ++ q :: s ++ [q]).
Proof.
  intros E H W P Hq Hs. assert (O := H). rewrite E in O. cbn [forallb] in O. apply andb_true_iff in O. destruct O as [Oc _].
  destruct (ord2_facts c Oc) as [_ [_ [_ [_ [P40 _]]]]].
  constructor.
  - exists c, (r ++ q :: s ++ [q]). rewrite E. repeat split; assumption.
  - exists q, (rev s ++ [q] ++ rev a). split.
    + rewrite rev_app_distr. change (q :: s ++ [q]) with ((q :: s) ++ [q]). rewrite rev_snoc. cbn [rev app]. rewrite <- app_assoc. reflexivity.
    + apply orb_true_iff in Hq. destruct Hq as [Q|Q]; apply Z.eqb_eq in Q; subst q; reflexivity.
  - apply inert_app; [apply forallb_ord_inert; [left; reflexivity|exact H]|apply inert_quoted; assumption].
  - apply inert_app; [apply forallb_ord_inert; [right; reflexivity|exact H]|apply inert_quoted; assumption].
  - apply bal_inert_app; [apply bal_inert_ord; exact H|apply bal_inert_quoted; assumption].
Qed.
