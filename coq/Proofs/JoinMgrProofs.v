(** C14 — StreamJoinManager: every join over two different streams receives exactly its own projection of the history
    (each event of its left stream once as a left event, each event of its right stream once as a right event, each
    watermark of either stream once; nothing of other streams), in order; the pairs handed to its handler are the pairs its
    node emits on that projection. *)
From RRE Require Import Base.Sx Model.Join Model.JoinMgr.
From Coq Require Import Lia Permutation.
Open Scope Z_scope.

Lemma flat_map_ext_in' {X Y} (f g : X -> list Y) l : (forall a, In a l -> f a = g a) -> flat_map f l = flat_map g l.
Proof. induction l as [|a l IH]; intros H; cbn; [reflexivity|]. rewrite (H a (or_introl eq_refl)), IH; [reflexivity|intros b Hb; apply H; right; exact Hb]. Qed.

Lemma flat_map_map' {X Y W} (g : X -> Y) (f : Y -> list W) l : flat_map f (map g l) = flat_map (fun x => f (g x)) l.
Proof. induction l as [|a l IH]; cbn; [reflexivity|]. rewrite IH. reflexivity. Qed.

Definition same_params (a b : jreg) : Prop :=
  j_id a = j_id b /\ j_left a = j_left b /\ j_right a = j_right b /\ j_w a = j_w b /\ j_kind a = j_kind b.

Definition with_st (j : jreg) (st : jstate) : jreg :=
  {| j_id := j_id j; j_left := j_left j; j_right := j_right j; j_w := j_w j; j_kind := j_kind j; j_st := st |}.
Definition jstep (j : jreg) (o : op) : jstate * list (Z * Z) := step (cond_of (j_kind j)) (j_w j) (j_st j) o.

Lemma jfind_in js id j : jfind js id = Some j -> In j js /\ j_id j = id.
Proof.
  induction js as [|x js IH]; cbn; [discriminate|]. destruct (j_id x =? id) eqn:E.
  - intros H; inversion H; subst. apply Z.eqb_eq in E. auto.
  - intros H. destruct (IH H). auto.
Qed.
Lemma jfind_nodup js j : NoDup (map j_id js) -> In j js -> jfind js (j_id j) = Some j.
Proof.
  induction js as [|x js IH]; intros ND Hin; [contradiction|]. cbn in ND. inversion ND as [|? ? Hx ND']; subst. cbn.
  destruct Hin as [<-|Hin]; [rewrite Z.eqb_refl; reflexivity|].
  destruct (j_id x =? j_id j) eqn:E; [|apply IH; assumption].
  apply Z.eqb_eq in E. exfalso. apply Hx. rewrite E. apply in_map. exact Hin.
Qed.

(** replacing the state of one join: the list keeps its shape *)
Lemma jput_with_st js j st : NoDup (map j_id js) -> In j js ->
  jput js (with_st j st) = map (fun x => if j_id x =? j_id j then with_st x st else x) js.
Proof.
  induction js as [|x js IH]; intros ND Hin; [contradiction|]. cbn in ND. inversion ND as [|? ? Hx ND']; subst. cbn [jput map with_st j_id].
  destruct Hin as [<-|Hin].
  - rewrite Z.eqb_refl. f_equal. rewrite <- (map_id js) at 1. apply map_ext_in. intros y Hy.
    destruct (j_id y =? j_id x) eqn:E; [|reflexivity]. apply Z.eqb_eq in E. exfalso. apply Hx. rewrite <- E. apply in_map. exact Hy.
  - destruct (j_id x =? j_id j) eqn:E.
    + apply Z.eqb_eq in E. exfalso. apply Hx. rewrite E. apply in_map. exact Hin.
    + f_equal. apply IH; assumption.
Qed.

Definition upd (ids : list Z) (f : jreg -> op) (j : jreg) : jreg :=
  if memZ (j_id j) ids then with_st j (fst (jstep j (f j))) else j.
Definition outs_of (js : list jreg) (ids : list Z) (f : jreg -> op) : list (Z * list (Z * Z)) :=
  flat_map (fun id => match jfind js id with Some j => [(id, snd (jstep j (f j)))] | None => [] end) ids.

Lemma map_ids_upd ids f js : map j_id (map (upd ids f) js) = map j_id js.
Proof. rewrite map_map. apply map_ext. intros j. unfold upd. destruct (memZ _ _); reflexivity. Qed.

Lemma memZ_In x l : memZ x l = true <-> In x l.
Proof.
  induction l as [|y l IH]; cbn; [split; [discriminate|tauto]|]. rewrite orb_true_iff, IH, Z.eqb_eq. split; intros [H|H]; auto.
Qed.

(** [route] over a duplicate-free id list = one step of every listed join, each on its own state, outputs in list order *)
Lemma route_spec (f : jreg -> op) (Hf : forall a b, same_params a b -> f a = f b) :
  forall ids js out, NoDup (map j_id js) -> NoDup ids ->
  route js ids f out = (map (upd ids f) js, out ++ outs_of js ids f).
Proof.
  induction ids as [|id ids IH]; intros js out ND NDi.
  - cbn. rewrite app_nil_r. f_equal. rewrite <- (map_id js) at 1. apply map_ext. intros j. reflexivity.
  - inversion NDi as [|? ? Hid NDi']; subst. cbn [route outs_of flat_map].
    destruct (jfind js id) as [j|] eqn:F.
    + destruct (jfind_in _ _ _ F) as [Hin Eid].
      destruct (step (cond_of (j_kind j)) (j_w j) (j_st j) (f j)) as [st' pairs] eqn:S.
      change {| j_id := j_id j; j_left := j_left j; j_right := j_right j; j_w := j_w j; j_kind := j_kind j; j_st := st' |} with (with_st j st').
      rewrite (jput_with_st js j st' ND Hin).
      set (js1 := map (fun x => if j_id x =? j_id j then with_st x st' else x) js).
      assert (ND1 : NoDup (map j_id js1)).
      { unfold js1. rewrite map_map. erewrite map_ext; [exact ND|]. intros x. destruct (j_id x =? j_id j); reflexivity. }
      rewrite (IH js1 _ ND1 NDi'). f_equal.
      * unfold js1. rewrite map_map. apply map_ext_in. intros x Hx. unfold upd. cbn [memZ].
        destruct (j_id x =? j_id j) eqn:E.
        -- apply Z.eqb_eq in E. assert (x = j).
           { pose proof (jfind_nodup js x ND Hx) as Fx. rewrite E, Eid, F in Fx. inversion Fx. reflexivity. }
           subst x. cbn [with_st j_id]. rewrite Eid, Z.eqb_refl. cbn [orb].
           assert (memZ id ids = false) by (destruct (memZ id ids) eqn:M; [apply memZ_In in M; contradiction|reflexivity]).
           rewrite H. unfold jstep. rewrite S. reflexivity.
        -- assert (j_id x =? id = false) by (rewrite <- Eid; exact E). rewrite H. cbn [orb]. reflexivity.
      * rewrite <- app_assoc. f_equal. cbn [app]. unfold jstep. rewrite S. cbn [snd]. f_equal.
        (* the joins stepped later are found unchanged: their ids differ from id *)
        unfold outs_of. apply flat_map_ext_in'. intros id' Hid'.
        assert (Hne : id' <> id) by (intros ->; contradiction).
        assert (Fe : jfind js1 id' = jfind js id').
        { unfold js1. clear - Hne Eid. induction js as [|x js IHj]; [reflexivity|]. cbn [map jfind].
          destruct (j_id x =? j_id j) eqn:E.
          - cbn [with_st j_id]. apply Z.eqb_eq in E. assert (j_id x =? id' = false) by (apply Z.eqb_neq; lia). rewrite H. exact IHj.
          - destruct (j_id x =? id'); [reflexivity|exact IHj]. }
        rewrite Fe. reflexivity.
    + (* an id without a node: skipped *)
      rewrite (IH js out ND NDi'). f_equal.
      apply map_ext_in. intros x Hx. unfold upd. cbn [memZ].
      assert (j_id x =? id = false).
      { destruct (j_id x =? id) eqn:E; [|reflexivity]. apply Z.eqb_eq in E. pose proof (jfind_nodup js x ND Hx) as Fx. rewrite E, F in Fx. discriminate. }
      rewrite H. reflexivity.
Qed.

(** ---------- the manager ---------- *)
Definition consumers (js : list jreg) (s : Z) : list Z :=
  flat_map (fun j => (if j_left j =? s then [j_id j] else []) ++ (if j_right j =? s then [j_id j] else [])) js.

Record WF (m : mgr) : Prop := {
  wf_ids : NoDup (map j_id (joins m));
  wf_two : forall j, In j (joins m) -> j_left j <> j_right j;
  wf_s2j : forall s, sget (s2j m) s = consumers (joins m) s
}.

Lemma consumers_in js s id : In id (consumers js s) <-> exists j, In j js /\ j_id j = id /\ (j_left j = s \/ j_right j = s).
Proof.
  unfold consumers. rewrite in_flat_map. split.
  - intros (j & Hj & Hin). exists j. split; [exact Hj|]. apply in_app_or in Hin as [H|H].
    + destruct (j_left j =? s) eqn:E; [|contradiction]. destruct H as [<-|[]]. apply Z.eqb_eq in E. auto.
    + destruct (j_right j =? s) eqn:E; [|contradiction]. destruct H as [<-|[]]. apply Z.eqb_eq in E. auto.
  - intros (j & Hj & Eid & [E|E]); exists j; (split; [exact Hj|]); apply in_or_app.
    + left. rewrite E, Z.eqb_refl. left. exact Eid.
    + right. rewrite E, Z.eqb_refl. left. exact Eid.
Qed.

Lemma consumers_nodup js s : NoDup (map j_id js) -> (forall j, In j js -> j_left j <> j_right j) -> NoDup (consumers js s).
Proof.
  induction js as [|j js IH]; intros ND Two; [constructor|]. cbn in ND. inversion ND as [|? ? Hj ND']; subst.
  unfold consumers. cbn [flat_map]. fold (consumers js s).
  assert (IH' := IH ND' (fun x Hx => Two x (or_intror Hx))).
  assert (Hnot : ~ In (j_id j) (consumers js s)).
  { intros Hin. apply consumers_in in Hin as (x & Hx & Ex & _). apply Hj. rewrite <- Ex. apply in_map. exact Hx. }
  pose proof (Two j (or_introl eq_refl)) as T.
  destruct (j_left j =? s) eqn:El; destruct (j_right j =? s) eqn:Er; cbn [app].
  - apply Z.eqb_eq in El, Er. congruence.
  - constructor; assumption.
  - constructor; assumption.
  - exact IH'.
Qed.

Fixpoint exec (c : event -> event -> bool) (w : Z) (s : jstate) (ops : list op) : jstate * list (Z * Z) :=
  match ops with
  | [] => (s, [])
  | o :: r => let '(s', p) := step c w s o in let '(s'', q) := exec c w s' r in (s'', p ++ q)
  end.
Lemma exec_concat c w : forall ops s, snd (exec c w s ops) = concat (run_from c w s ops).
Proof.
  induction ops as [|o r IH]; intros s; [reflexivity|]. cbn [exec run_from]. destruct (step c w s o) as [s' p].
  specialize (IH s'). destruct (exec c w s' r) as [s'' q]. cbn [snd concat] in *. rewrite IH. reflexivity.
Qed.
Lemma exec_app c w : forall a b s, exec c w s (a ++ b) =
  let '(s1, p) := exec c w s a in let '(s2, q) := exec c w s1 b in (s2, p ++ q).
Proof.
  induction a as [|o a IH]; intros b s; cbn [app exec].
  - destruct (exec c w s b); reflexivity.
  - destruct (step c w s o) as [s' p]. rewrite IH. destruct (exec c w s' a) as [s1 p1]. destruct (exec c w s1 b) as [s2 q].
    rewrite app_assoc. reflexivity.
Qed.

Definition is_traffic (o : mop) : Prop := match o with MEvent _ _ | MWm _ _ => True | _ => False end.
Definition jproj (j : jreg) (o : mop) : list op := proj (j_id j) (j_left j) (j_right j) o.
Definition jexec (j : jreg) (ops : list op) : jstate * list (Z * Z) := exec (cond_of (j_kind j)) (j_w j) (j_st j) ops.

Lemma deliver_outs js ids f j : NoDup (map j_id js) -> NoDup ids -> In j js ->
  flat_map (fun d : Z * list (Z * Z) => if fst d =? j_id j then snd d else []) (outs_of js ids f) =
  if memZ (j_id j) ids then snd (jstep j (f j)) else [].
Proof.
  intros ND NDi Hin. induction ids as [|id ids IH]; [reflexivity|]. inversion NDi as [|? ? Hid NDi']; subst.
  unfold outs_of. cbn [flat_map memZ]. fold (outs_of js ids f). rewrite flat_map_app, (IH NDi').
  destruct (j_id j =? id) eqn:E.
  - apply Z.eqb_eq in E. subst id. rewrite (jfind_nodup js j ND Hin). cbn [flat_map fst snd app]. rewrite Z.eqb_refl, app_nil_r.
    assert (memZ (j_id j) ids = false) by (destruct (memZ (j_id j) ids) eqn:M; [apply memZ_In in M; contradiction|reflexivity]).
    rewrite H, app_nil_r. reflexivity.
  - cbn [orb]. destruct (jfind js id) as [x|] eqn:F; [|reflexivity].
    cbn [flat_map fst snd app]. assert (id =? j_id j = false) by (rewrite Z.eqb_sym; exact E). rewrite H. reflexivity.
Qed.

(** one manager operation = for every join, one run of its node over its projection of the operation *)
Lemma mstep_traffic m o : WF m -> is_traffic o ->
  let '(m', out) := mstep m o in
  WF m' /\ exists g, joins m' = map g (joins m) /\
    forall j, In j (joins m) -> same_params (g j) j /\ j_st (g j) = fst (jexec j (jproj j o)) /\
      flat_map (fun d : Z * list (Z * Z) => if fst d =? j_id j then snd d else []) out = snd (jexec j (jproj j o)).
Proof.
  intros W T. destruct o as [| |s e|s z]; try contradiction.
  - (* an event of stream s *)
    cbn [mstep]. set (f := fun j : jreg => if j_left j =? s then OLeft e else ORight e).
    pose proof (consumers_nodup (joins m) s (wf_ids _ W) (wf_two _ W)) as NDc.
    rewrite (wf_s2j _ W s). rewrite (route_spec f) by (try exact (wf_ids _ W); try exact NDc; intros a b (_ & E & _); unfold f; rewrite E; reflexivity).
    cbn [app]. split.
    + constructor; cbn [joins s2j].
      * rewrite map_ids_upd. apply (wf_ids _ W).
      * intros j Hj. apply in_map_iff in Hj as (x & <- & Hx). unfold upd. destruct (memZ _ _); cbn; apply (wf_two _ W x Hx).
      * intros s'. rewrite (wf_s2j _ W s'). unfold consumers. rewrite flat_map_map'.
        apply flat_map_ext_in'. intros x _. unfold upd. destruct (memZ _ _); reflexivity.
    + exists (upd (consumers (joins m) s) f). split; [reflexivity|]. intros j Hj.
      rewrite (deliver_outs _ _ f j (wf_ids _ W) NDc Hj). unfold upd, jexec, jproj, proj.
      destruct (memZ (j_id j) (consumers (joins m) s)) eqn:M.
      * apply memZ_In in M. apply consumers_in in M as (x & Hx & Ex & Hs).
        assert (x = j) by (pose proof (jfind_nodup _ x (wf_ids _ W) Hx) as F1; pose proof (jfind_nodup _ j (wf_ids _ W) Hj) as F2; rewrite Ex in F1; congruence). subst x.
        split; [repeat split|]. unfold f, jstep.
        destruct (j_left j =? s) eqn:El.
        -- cbn [exec with_st j_st]. destruct (step _ _ _ (OLeft e)) as [s' p]. cbn. rewrite app_nil_r. split; reflexivity.
        -- assert (j_right j =? s = true) by (destruct Hs as [H|H]; [apply Z.eqb_neq in El; contradiction|apply Z.eqb_eq; exact H]).
           rewrite H. cbn [exec with_st j_st]. destruct (step _ _ _ (ORight e)) as [s' p]. cbn. rewrite app_nil_r. split; reflexivity.
      * split; [repeat split|].
        assert (Hno : ~ In (j_id j) (consumers (joins m) s)) by (intros Hin; apply memZ_In in Hin; congruence).
        destruct (j_left j =? s) eqn:El; [exfalso; apply Hno; apply consumers_in; exists j; apply Z.eqb_eq in El; auto|].
        destruct (j_right j =? s) eqn:Er; [exfalso; apply Hno; apply consumers_in; exists j; apply Z.eqb_eq in Er; auto|].
        cbn. split; reflexivity.
  - (* a watermark of stream s *)
    cbn [mstep]. set (f := fun _ : jreg => OWm z).
    pose proof (consumers_nodup (joins m) s (wf_ids _ W) (wf_two _ W)) as NDc.
    rewrite (wf_s2j _ W s). rewrite (route_spec f) by (try exact (wf_ids _ W); try exact NDc; intros; reflexivity).
    cbn [app]. split.
    + constructor; cbn [joins s2j].
      * rewrite map_ids_upd. apply (wf_ids _ W).
      * intros j Hj. apply in_map_iff in Hj as (x & <- & Hx). unfold upd. destruct (memZ _ _); cbn; apply (wf_two _ W x Hx).
      * intros s'. rewrite (wf_s2j _ W s'). unfold consumers. rewrite flat_map_map'.
        apply flat_map_ext_in'. intros x _. unfold upd. destruct (memZ _ _); reflexivity.
    + exists (upd (consumers (joins m) s) f). split; [reflexivity|]. intros j Hj.
      rewrite (deliver_outs _ _ f j (wf_ids _ W) NDc Hj). unfold upd, jexec, jproj, proj.
      destruct (memZ (j_id j) (consumers (joins m) s)) eqn:M.
      * apply memZ_In in M. apply consumers_in in M as (x & Hx & Ex & Hs).
        assert (x = j) by (pose proof (jfind_nodup _ x (wf_ids _ W) Hx) as F1; pose proof (jfind_nodup _ j (wf_ids _ W) Hj) as F2; rewrite Ex in F1; congruence). subst x.
        split; [repeat split|].
        assert ((j_left j =? s) || (j_right j =? s) = true) by (destruct Hs as [H|H]; rewrite H, Z.eqb_refl; [reflexivity|apply orb_true_r]).
        rewrite H. unfold f, jstep. cbn [exec with_st j_st]. destruct (step _ _ _ (OWm z)) as [s' p]. cbn. rewrite app_nil_r. split; reflexivity.
      * split; [repeat split|].
        assert (Hno : ~ In (j_id j) (consumers (joins m) s)) by (intros Hin; apply memZ_In in Hin; congruence).
        destruct (j_left j =? s) eqn:El; [exfalso; apply Hno; apply consumers_in; exists j; apply Z.eqb_eq in El; auto|].
        destruct (j_right j =? s) eqn:Er; [exfalso; apply Hno; apply consumers_in; exists j; apply Z.eqb_eq in Er; auto|].
        cbn. split; reflexivity.
Qed.

(** THE THEOREM: over any traffic (events and watermarks of any streams, in any order) the pairs handed to the handler of a
    join are exactly what its node emits on the join's own projection of the traffic, started from the node's state *)
Theorem manager_delivers_projection : forall evs m, WF m -> Forall is_traffic evs ->
  forall j, In j (joins m) ->
  delivered (j_id j) (mrun m evs) =
  concat (run_from (cond_of (j_kind j)) (j_w j) (j_st j) (flat_map (jproj j) evs)).
Proof.
  induction evs as [|o evs IH]; intros m W F j Hj; [reflexivity|].
  inversion F as [|? ? To F']; subst. cbn [mrun flat_map].
  pose proof (mstep_traffic m o W To) as S. destruct (mstep m o) as [m' out].
  destruct S as (W' & g & Eg & Hg). destruct (Hg j Hj) as ((Ei & El & Er & Ew & Ek) & Est & Eout).
  unfold delivered. cbn [flat_map]. fold (delivered (j_id j) (mrun m' evs)). rewrite Eout.
  assert (Hj' : In (g j) (joins m')) by (rewrite Eg; apply in_map; exact Hj).
  pose proof (IH m' W' F' (g j) Hj') as I. rewrite Ei, Ek, Ew in I.
  assert (Ep : flat_map (jproj (g j)) evs = flat_map (jproj j) evs) by (apply flat_map_ext_in'; intros a _; unfold jproj; rewrite Ei, El, Er; reflexivity).
  rewrite Ep, Est in I. rewrite I.
  rewrite <- !exec_concat. unfold jexec. rewrite exec_app.
  destruct (exec (cond_of (j_kind j)) (j_w j) (j_st j) (jproj j o)) as [s1 p]. cbn [fst snd].
  destruct (exec (cond_of (j_kind j)) (j_w j) s1 (flat_map (jproj j) evs)) as [s2 q]. reflexivity.
Qed.

(** registrations of joins with different ids over two different streams lead to a well-formed manager *)
Lemma sget_spush m s id s' : sget (spush m s id) s' = if s =? s' then sget m s' ++ [id] else sget m s'.
Proof.
  induction m as [|[k v] m IH]; cbn [spush sget].
  - destruct (s =? s'); reflexivity.
  - destruct (k =? s) eqn:E; cbn [sget].
    + apply Z.eqb_eq in E. subst k. destruct (s =? s') eqn:E2; reflexivity.
    + destruct (k =? s') eqn:E3; [|exact IH]. destruct (s =? s') eqn:E2; [|reflexivity].
      apply Z.eqb_eq in E2, E3. subst. rewrite Z.eqb_refl in E. discriminate.
Qed.
Lemma jput_fresh js j : ~ In (j_id j) (map j_id js) -> jput js j = js ++ [j].
Proof.
  induction js as [|x js IH]; intros H; [reflexivity|]. cbn [jput app]. destruct (j_id x =? j_id j) eqn:E.
  - apply Z.eqb_eq in E. exfalso. apply H. left. exact E.
  - f_equal. apply IH. intros Hin. apply H. right. exact Hin.
Qed.
Lemma register_WF m id l r w k : WF m -> ~ In id (map j_id (joins m)) -> l <> r ->
  WF (fst (mstep m (MRegister id l r w k))).
Proof.
  intros W Hid Hlr. cbn [mstep fst]. set (j := {| j_id := id; j_left := l; j_right := r; j_w := w; j_kind := k; j_st := init |}).
  rewrite (jput_fresh (joins m) j Hid). constructor; cbn [joins s2j].
  - rewrite map_app. cbn [map]. eapply Permutation_NoDup; [apply Permutation_cons_append|]. constructor; [exact Hid|apply (wf_ids _ W)].
  - intros x Hx. apply in_app_or in Hx as [Hx|[<-|[]]]; [apply (wf_two _ W x Hx)|exact Hlr].
  - intros s. rewrite !sget_spush, (wf_s2j _ W s). unfold consumers. rewrite flat_map_app. cbn [flat_map j_left j_right j_id j]. rewrite app_nil_r.
    destruct (l =? s) eqn:El; destruct (r =? s) eqn:Er; cbn [app]; rewrite <- ?app_assoc, ?app_nil_r; reflexivity.
Qed.
Lemma WF_minit : WF minit.
Proof. constructor; cbn; [constructor|intros j []|reflexivity]. Qed.

(** ---------- from an empty manager ---------- *)
Definition regop (g : Z * Z * Z * Z * Z) : mop := let '(id, l, r, w, k) := g in MRegister id l r w k.
Definition regjoin (g : Z * Z * Z * Z * Z) : jreg :=
  let '(id, l, r, w, k) := g in {| j_id := id; j_left := l; j_right := r; j_w := w; j_kind := k; j_st := init |}.
Definition reg_ok (g : Z * Z * Z * Z * Z) : Prop := let '(id, l, r, w, k) := g in l <> r.

Lemma mrun_app : forall a b m, mrun m (a ++ b) = mrun m a ++ mrun (fold_left (fun m o => fst (mstep m o)) a m) b.
Proof.
  induction a as [|o a IH]; intros b m; [reflexivity|]. cbn [app mrun fold_left].
  destruct (mstep m o) as [m' out] eqn:E. cbn [fst]. rewrite IH. reflexivity.
Qed.

Lemma registrations : forall regs m, WF m ->
  NoDup (map j_id (joins m) ++ map (fun g => j_id (regjoin g)) regs) -> Forall reg_ok regs ->
  let m' := fold_left (fun m o => fst (mstep m o)) (map regop regs) m in
  WF m' /\ joins m' = joins m ++ map regjoin regs /\ forall id, delivered id (mrun m (map regop regs)) = [].
Proof.
  induction regs as [|g regs IH]; intros m W ND OK; cbn zeta.
  - cbn. rewrite app_nil_r. auto.
  - inversion OK as [|? ? Og OK']; subst. destruct g as [[[[id l] r] w] k]. cbn [map regop fold_left].
    assert (Hid : ~ In id (map j_id (joins m))).
    { cbn [map regjoin j_id] in ND. apply NoDup_remove_2 in ND. intros Hin. apply ND. apply in_or_app. left. exact Hin. }
    pose proof (register_WF m id l r w k W Hid Og) as W1.
    set (m1 := fst (mstep m (MRegister id l r w k))) in *.
    assert (J1 : joins m1 = joins m ++ [regjoin (id, l, r, w, k)]).
    { unfold m1. cbn [mstep fst joins]. apply jput_fresh. exact Hid. }
    assert (ND1 : NoDup (map j_id (joins m1) ++ map (fun g => j_id (regjoin g)) regs)).
    { rewrite J1, map_app. cbn [map regjoin j_id]. rewrite <- app_assoc. cbn [app]. cbn [map regjoin j_id] in ND. exact ND. }
    destruct (IH m1 W1 ND1 OK') as (W' & J' & D'). cbn zeta in W', J', D'.
    split; [exact W'|]. split; [rewrite J', J1, <- app_assoc; reflexivity|].
    intros id'. cbn [mrun]. unfold m1 in D'. cbn [mstep] in *. cbn [fst] in D'. unfold delivered. cbn [flat_map app]. apply D'.
Qed.

Theorem manager_from_empty : forall regs evs, NoDup (map (fun g => j_id (regjoin g)) regs) -> Forall reg_ok regs -> Forall is_traffic evs ->
  forall g, In g regs ->
  let j := regjoin g in
  delivered (j_id j) (mrun minit (map regop regs ++ evs)) =
  concat (run_from (cond_of (j_kind j)) (j_w j) init (flat_map (jproj j) evs)).
Proof.
  intros regs evs ND OK T g Hg j.
  destruct (registrations regs minit WF_minit ND OK) as (W' & J' & D'). cbn zeta in W', J', D'.
  rewrite mrun_app. unfold delivered. rewrite flat_map_app. fold (delivered (j_id j) (mrun minit (map regop regs))). rewrite D'. cbn [app].
  set (m' := fold_left (fun m o => fst (mstep m o)) (map regop regs) minit) in *.
  assert (Hj : In j (joins m')) by (rewrite J'; cbn [joins minit app]; apply in_map; exact Hg).
  pose proof (manager_delivers_projection evs m' W' T j Hj) as H.
  unfold delivered in H. rewrite H. unfold j. destruct g as [[[[id l] r] w] k]. reflexivity.
Qed.
