(** C09 / C11 — the search sees a fact store only through its lookup function: two stores that answer every
    lookup alike give the same verdict (and hand back stores that again answer every lookup alike).  Proofs. *)
From RRE Require Import Base.Sx Base.Float Base.Num Model.ExprShape Model.Forward Model.ForwardSpec Model.Backward Proofs.BackwardProofs Proofs.BackwardClosureProofs.
From Coq Require Import Lia.
Open Scope Z_scope.

Definition feq (f f' : facts) : Prop := forall k, fget f k = fget f' k.

Lemma feq_refl f : feq f f. Proof. intros k. reflexivity. Qed.

Lemma get_nested_feq f f' k : feq f f' -> get_nested f k = get_nested f' k.
Proof. intros H. unfold get_nested. destruct (parts_of k) as [|root rest]; [reflexivity|]. rewrite (H root). reflexivity. Qed.

Lemma blookup_feq f f' k : feq f f' -> blookup f k = blookup f' k.
Proof. intros H. unfold blookup. rewrite (get_nested_feq f f' k H), (H k). reflexivity. Qed.

Lemma bholds_feq f f' c : feq f f' -> bholds f c = bholds f' c.
Proof. intros H. unfold bholds. rewrite (blookup_feq f f' _ H). reflexivity. Qed.

Lemma gholds_feq f f' : feq f f' -> forall g, gholds f g = gholds f' g.
Proof. intros H. induction g as [c|a IHa b IHb|a IHa b IHb]; cbn [gholds]; [apply bholds_feq; exact H|rewrite IHa, IHb; reflexivity|rewrite IHa, IHb; reflexivity]. Qed.

Lemma goal_holds_feq f f' g : feq f f' -> goal_holds f g = goal_holds f' g.
Proof. intros H. rewrite !goal_holds_sat. rewrite (blookup_feq f f' _ H). reflexivity. Qed.

Lemma fset_feq f f' k v : feq f f' -> feq (fset f k v) (fset f' k v).
Proof. intros H q. rewrite !fget_fset. rewrite (H q). reflexivity. Qed.

Lemma bexec_feq r : forall f f', feq f f' -> feq (bexec f r) (bexec f' r).
Proof.
  unfold bexec. induction (br_sets r) as [|[k v] sets IH]; intros f f' H; cbn [fold_left]; [exact H|].
  apply IH. apply fset_feq. exact H.
Qed.

Definition res_eq (a b : bool * facts) : Prop := fst a = fst b /\ feq (snd a) (snd b).

Lemma try_exec_feq f f' r : feq f f' ->
  match try_exec f r, try_exec f' r with Some a, Some b => feq a b | None, None => True | _, _ => False end.
Proof. intros H. unfold try_exec. rewrite (gholds_feq f f' H). destruct (gholds f' (br_cond r)); [apply bexec_feq; exact H|exact I]. Qed.

Section Equiv.
Variable rules : list brule.
Variable max_depth : Z.

Lemma try_cands_feq provef provef' goal depth :
  (forall g d f f', feq f f' -> res_eq (provef g d f) (provef' g d f')) ->
  forall cs f f', feq f f' -> res_eq (try_cands provef goal depth f cs) (try_cands provef' goal depth f' cs).
Proof.
  intros Hp. induction cs as [|r rest IH]; intros f f' H; cbn [try_cands]; [split; [reflexivity|exact H]|].
  pose proof (try_exec_feq f f' r H) as E.
  destruct (try_exec f r) as [f1|], (try_exec f' r) as [f1'|]; try contradiction.
  - rewrite (goal_holds_feq f1 f1' goal E). destruct (goal_holds f1' goal); [split; [reflexivity|exact E]|apply IH; exact H].
  - destruct (Hp (br_cond r) (depth + 1) f f' H) as [Pb Pf].
    destruct (provef (br_cond r) (depth + 1) f) as [b f2], (provef' (br_cond r) (depth + 1) f') as [b' f2']. cbn [fst snd] in Pb, Pf. subst b'.
    destruct b; [|apply IH; exact H].
    pose proof (try_exec_feq f2 f2' r Pf) as E3.
    destruct (try_exec f2 r) as [f3|], (try_exec f2' r) as [f3'|]; try contradiction; [|apply IH; exact H].
    rewrite (goal_holds_feq f3 f3' goal E3). destruct (goal_holds f3' goal); [split; [reflexivity|exact E3]|apply IH; exact H].
Qed.

Lemma prove_S fu g depth f :
  prove rules max_depth (S fu) g depth f =
  match g with
  | BSingle c => if bholds f c then (true, f) else search rules max_depth fu (subgoal_of c) (sub_candidates rules c) depth f
  | BAnd a b => match prove rules max_depth fu a depth f with (true, f1) => prove rules max_depth fu b depth f1 | (false, f1) => (false, f1) end
  | BOr a b => match prove rules max_depth fu a depth f with (true, f1) => (true, f1) | (false, f1) => prove rules max_depth fu b depth f1 end
  end.
Proof. destruct g; reflexivity. Qed.

Lemma search_prove_feq : forall fuel,
  (forall goal cands depth f f', feq f f' -> res_eq (search rules max_depth fuel goal cands depth f) (search rules max_depth fuel goal cands depth f'))
  /\ (forall g depth f f', feq f f' -> res_eq (prove rules max_depth fuel g depth f) (prove rules max_depth fuel g depth f')).
Proof.
  induction fuel as [|fu [IHs IHp]]; split.
  - intros goal cands depth f f' H. split; [reflexivity|exact H].
  - intros g depth f f' H. split; [reflexivity|exact H].
  - intros goal cands depth f f' H. rewrite !search_S.
    destruct (max_depth <? depth); [split; [reflexivity|exact H]|].
    rewrite (goal_holds_feq f f' goal H). destruct (goal_holds f' goal); [split; [reflexivity|exact H]|].
    apply try_cands_feq; [|exact H]. intros g d f0 f0' H0. apply IHp. exact H0.
  - intros g depth f f' H. rewrite !prove_S. destruct g as [c|a b|a b].
    + rewrite (bholds_feq f f' c H). destruct (bholds f' c); [split; [reflexivity|exact H]|]. apply IHs. exact H.
    + destruct (IHp a depth f f' H) as [Pb Pf].
      destruct (prove rules max_depth fu a depth f) as [b1 f1], (prove rules max_depth fu a depth f') as [b1' f1']. cbn [fst snd] in Pb, Pf. subst b1'.
      destruct b1; [apply IHp; exact Pf|split; [reflexivity|exact Pf]].
    + destruct (IHp a depth f f' H) as [Pb Pf].
      destruct (prove rules max_depth fu a depth f) as [b1 f1], (prove rules max_depth fu a depth f') as [b1' f1']. cbn [fst snd] in Pb, Pf. subst b1'.
      destruct b1; [split; [reflexivity|exact Pf]|apply IHp; exact Pf].
Qed.

(** the verdict of a query depends on the store only through its lookup function *)
Theorem dfs_feq goal f f' : feq f f' -> fst (dfs rules max_depth goal f) = fst (dfs rules max_depth goal f').
Proof. intros H. unfold dfs. destruct (search_prove_feq (fuel_for rules max_depth)) as [Hs _]. apply (Hs goal _ 0 f f' H). Qed.
End Equiv.

(** * the canonical encoding of a store of discrete values determines its lookup function *)
From Coq Require Import Permutation.

Definition discrete (v : value) : Prop := match v with VInt _ | VStr _ | VBool _ | VNull => True | _ => False end.
Definition dstore (f : facts) : Prop := NoDup (map fst f) /\ forall k v, In (k, v) f -> discrete v.

Lemma map_A_inj : forall a b : list Z, map A a = map A b -> a = b.
Proof. induction a as [|x a IH]; intros [|y b] H; cbn in H; try discriminate; [reflexivity|]. inversion H. f_equal. apply IH. assumption. Qed.

Lemma enc_val_inj v v' : discrete v -> discrete v' -> enc_val v = enc_val v' -> v = v'.
Proof.
  destruct v as [s|x|z|b|l|o| |e]; intros D; try destruct D; destruct v' as [s'|x'|z'|b'|l'|o'| |e']; intros D'; try destruct D'; cbn [enc_val]; intros H; try discriminate; try reflexivity.
  - inversion H as [H1]. apply map_A_inj in H1. subst. reflexivity.
  - inversion H. reflexivity.
  - destruct b, b'; try reflexivity; discriminate.
Qed.

Lemma ins_key_in {T} k (v : T) l x : In x (ins_key k v l) <-> x = (k, v) \/ In x l.
Proof.
  induction l as [|[k' v'] l IH]; cbn [ins_key].
  - cbn. intuition.
  - destruct (str_ltb k k'); cbn [In].
    + intuition.
    + rewrite IH. intuition.
Qed.
Lemma ins_key_perm {T} k (v : T) l : Permutation (map fst (ins_key k v l)) (k :: map fst l).
Proof.
  induction l as [|[k' v'] l IH]; cbn [ins_key map fst]; [reflexivity|].
  destruct (str_ltb k k'); cbn [map fst]; [reflexivity|].
  rewrite IH. apply perm_swap.
Qed.
Lemma sort_fold_in {T} (l : list (str * T)) : forall acc x, In x (fold_left (fun acc '(k, v) => ins_key k v acc) l acc) <-> In x l \/ In x acc.
Proof.
  induction l as [|[k v] l IH]; intros acc x; cbn [fold_left]; [cbn; intuition|].
  rewrite IH, ins_key_in. cbn [In]. intuition.
Qed.
Lemma sort_fold_perm {T} (l : list (str * T)) : forall acc, Permutation (map fst (fold_left (fun acc '(k, v) => ins_key k v acc) l acc)) (map fst l ++ map fst acc).
Proof.
  induction l as [|[k v] l IH]; intros acc; cbn [fold_left map fst app]; [reflexivity|].
  rewrite IH, ins_key_perm. symmetry. apply Permutation_middle.
Qed.
Lemma sort_keys_in {T} (l : list (str * T)) x : In x (sort_keys l) <-> In x l.
Proof. unfold sort_keys. rewrite sort_fold_in. cbn. intuition. Qed.
Lemma sort_keys_nodup {T} (l : list (str * T)) : NoDup (map fst l) -> NoDup (map fst (sort_keys l)).
Proof. intros H. unfold sort_keys. eapply Permutation_NoDup; [symmetry; apply sort_fold_perm|]. cbn [map]. rewrite app_nil_r. exact H. Qed.

Lemma fget_in f : NoDup (map fst f) -> forall k v, fget f k = Some v <-> In (k, v) f.
Proof.
  induction f as [|[k' v'] f IH]; intros ND k v; cbn [fget]; [split; [discriminate|intros []]|].
  cbn [map fst] in ND. inversion ND as [|? ? Hnin ND']; subst.
  destruct (str_eqb k' k) eqn:E.
  - apply str_eqb_eq in E. subst k'. split.
    + intros H. inversion H. left. reflexivity.
    + intros [H|H]; [inversion H; reflexivity|]. exfalso. apply Hnin. apply in_map_iff. exists (k, v). split; [reflexivity|exact H].
  - rewrite (IH ND'). split; [intros H; right; exact H|]. intros [H|H]; [|exact H]. inversion H; subst. rewrite str_eqb_refl in E. discriminate.
Qed.

Lemma map_inj_on {X Y} (g : X -> Y) : forall l l', (forall x x', In x l -> In x' l' -> g x = g x' -> x = x') -> map g l = map g l' -> l = l'.
Proof.
  induction l as [|x l IH]; intros [|x' l'] Hinj H; cbn in H; try discriminate; [reflexivity|].
  inversion H. f_equal; [apply Hinj; [left; reflexivity|left; reflexivity|assumption]|].
  apply IH; [|assumption]. intros y y' Hy Hy'. apply Hinj; right; assumption.
Qed.

Theorem enc_facts_determines_lookups f f' : dstore f -> dstore f' -> enc_facts f = enc_facts f' -> feq f f'.
Proof.
  intros [ND D] [ND' D'] H. unfold enc_facts in H. inversion H as [H1]. clear H.
  assert (Hs : sort_keys f = sort_keys f').
  { eapply map_inj_on; [|exact H1].
    intros [k v] [k' v'] Hx Hx' E. rewrite sort_keys_in in Hx. rewrite sort_keys_in in Hx'.
    inversion E as [[E1 E2]]. apply map_A_inj in E1. subst k'. f_equal.
    apply enc_val_inj; [eapply D; eauto|eapply D'; eauto|exact E2]. }
  intros k. destruct (fget f k) as [v|] eqn:F.
  - rewrite (fget_in f ND) in F. rewrite <- sort_keys_in, Hs, sort_keys_in in F. rewrite <- (fget_in f' ND') in F. symmetry. exact F.
  - destruct (fget f' k) as [v'|] eqn:F'; [|reflexivity].
    rewrite (fget_in f' ND') in F'. rewrite <- sort_keys_in, <- Hs, sort_keys_in in F'. rewrite <- (fget_in f ND) in F'. rewrite F in F'. discriminate.
Qed.

(** * the memo table of the engine never changes an answer, on stores of discrete values: no premise left *)
Section Memo.
Variable rules : list brule.
Variable max_depth : Z.

Definition memo_sound_d (e : bengine) : Prop :=
  forall q fx b, In (q, fx, b) (memo e) ->
    forall goal f, dstore f -> dec_bcond q = Some goal -> enc_facts f = fx -> fst (dfs rules max_depth goal f) = b.

Lemma verdict_canonical_d goal f f' : dstore f -> dstore f' -> enc_facts f = enc_facts f' ->
  fst (dfs rules max_depth goal f) = fst (dfs rules max_depth goal f').
Proof. intros D D' H. apply dfs_feq. apply enc_facts_determines_lookups; assumption. Qed.

Theorem equery_is_fresh_d : forall e q goal f, dstore f -> memo_sound_d e -> dec_bcond q = Some goal ->
  fst (snd (equery rules max_depth e q goal f)) = fst (dfs rules max_depth goal f)
  /\ memo_sound_d (fst (equery rules max_depth e q goal f)).
Proof.
  intros e q goal f Df Hs Hq. unfold equery.
  destruct (memo_get e q (enc_facts f)) as [[|]|] eqn:M.
  - cbn [fst snd]. split; [reflexivity|].
    intros q0 fx0 b0 [E|I] goal0 f0 Df0 D0 F0; [|eapply Hs; eassumption].
    injection E as E1 E2 E3. subst q0 b0. rewrite Hq in D0. injection D0 as D0. subst goal0. apply verdict_canonical_d; [exact Df0|exact Df|]. rewrite F0, E2. reflexivity.
  - cbn [fst snd]. split; [|exact Hs].
    destruct (memo_get_in e q (enc_facts f) false M) as [q' [fx' [I [E1 E2]]]].
    apply sx_eqb_true_eq in E1, E2. subst q' fx'. symmetry. eapply Hs; [exact I|exact Df|exact Hq|reflexivity].
  - cbn [fst snd]. split; [reflexivity|].
    intros q0 fx0 b0 [E|I] goal0 f0 Df0 D0 F0; [|eapply Hs; eassumption].
    injection E as E1 E2 E3. subst q0 b0. rewrite Hq in D0. injection D0 as D0. subst goal0. apply verdict_canonical_d; [exact Df0|exact Df|]. rewrite F0, E2. reflexivity.
Qed.

(** a whole history of queries, each on its own store: every answer is the fresh answer *)
Fixpoint equeries (e : bengine) (qs : list (sx * bcond * facts)) : list bool :=
  match qs with
  | [] => []
  | (q, goal, f) :: r => let '(e', (b, _)) := equery rules max_depth e q goal f in b :: equeries e' r
  end.
Theorem history_is_fresh : forall qs e, memo_sound_d e ->
  (forall q goal f, In (q, goal, f) qs -> dstore f /\ dec_bcond q = Some goal) ->
  equeries e qs = map (fun '(q, goal, f) => fst (dfs rules max_depth goal f)) qs.
Proof.
  induction qs as [|[[q goal] f] qs IH]; intros e Hs Hq; cbn [equeries map]; [reflexivity|].
  destruct (Hq q goal f (or_introl eq_refl)) as [Df Dq].
  destruct (equery_is_fresh_d e q goal f Df Hs Dq) as [H1 H2].
  destruct (equery rules max_depth e q goal f) as [e' [b f']]. cbn [fst snd] in H1, H2. subst b. f_equal.
  apply IH; [exact H2|]. intros q0 g0 f0 Hin. apply Hq. right. exact Hin.
Qed.
End Memo.
