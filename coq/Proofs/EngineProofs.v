(** C02 / C03 — proofs about Model/Engine.v, for every condition language and action semantics. *)
From RRE Require Import Base.Sx Model.Engine.
From Coq Require Import Lia Sorting.Sorted.
Open Scope Z_scope.

Section EngineProofs.
Variables (cond action store : Type).
Variable eval : cond -> store -> bool.
Variable act : action -> store -> store * list effect.
Notation rule := (rule cond action).
Notation engine := (engine cond action).
Notation pass := (pass eval act).
Notation cycles := (cycles eval act).
Notation execute := (execute eval act).
Notation fire := (fire act).

(** * the rule vector is not changed by running *)
Lemma apply_effects_rules (e : engine) fx : rules (apply_effects e fx) = rules e.
Proof.
  unfold apply_effects. revert e. induction fx as [|f fx IH]; intros e; cbn [fold_left]; [reflexivity|]. rewrite IH. destruct f; reflexivity.
Qed.

Lemma fire_rules (e : engine) s r : rules (fst (fire e s r)) = rules e.
Proof.
  unfold Engine.fire.
  assert (G : forall l (e0 : engine) s0, rules (fst (fold_left (fun es a => let '(e1, s1) := es in let '(s', fx) := act a s1 in (apply_effects e1 fx, s')) l (e0, s0))) = rules e0).
  { induction l as [|a l IH]; intros e0 s0; cbn [fold_left]; [reflexivity|].
    destruct (act a s0) as [s' fx]. rewrite IH. apply apply_effects_rules. }
  specialize (G (r_actions r) e s).
  destruct (fold_left _ (r_actions r) (e, s)) as [e1 s1]. cbn [fst] in *. exact G.
Qed.

Lemma pass_rules rs : forall t (e : engine) s, rules (fst (fst (pass rs t e s))) = rules e.
Proof.
  induction rs as [|r rs IH]; intros t e s; cbn [Engine.pass]; [reflexivity|].
  destruct (gates e t r && eval (r_cond r) s); [|apply IH].
  destruct (fire e s r) as [e1 s1] eqn:F.
  specialize (IH t e1 s1). destruct (pass rs t e1 s1) as [[e2 s2] tr]. cbn [fst] in *.
  rewrite IH. replace e1 with (fst (fire e s r)) by (rewrite F; reflexivity). apply fire_rules.
Qed.

(** * C03: cycle accounting *)
Lemma cycles_count n : forall t (e : engine) s c,
  let '(_, _, c', trs) := cycles n t e s c in
  c' = c + Z.of_nat (length trs) /\ (length trs <= n)%nat.
Proof.
  induction n as [|n IH]; intros t e s c; cbn [Engine.cycles]; [split; cbn; lia|].
  destruct (pass (rules (reset_cycle e)) t (reset_cycle e) s) as [[e1 s1] tr].
  destruct tr as [|x tr]; [split; cbn; lia|].
  specialize (IH t (sync e1) s1 (c + 1)).
  destruct (cycles n t (sync e1) s1 (c + 1)) as [[[e2 s2] c2] trs]. destruct IH as [H1 H2].
  split; cbn [length]; lia.
Qed.

(** the shape of the pass traces: every pass but possibly the last fired something; if the
    loop stopped before the bound, the last pass fired nothing *)
Fixpoint shape_ok (n : nat) (trs : list (list Z)) : Prop :=
  match trs with
  | [] => n = O
  | [tr] => tr = [] \/ n = 1%nat
  | tr :: rest => tr <> [] /\ match n with O => False | S k => shape_ok k rest end
  end.

Lemma cycles_shape n : forall t (e : engine) s c,
  let '(_, _, _, trs) := cycles n t e s c in shape_ok n trs.
Proof.
  induction n as [|n IH]; intros t e s c; cbn [Engine.cycles]; [reflexivity|].
  destruct (pass (rules (reset_cycle e)) t (reset_cycle e) s) as [[e1 s1] tr].
  destruct tr as [|x tr]; [cbn; left; reflexivity|].
  specialize (IH t (sync e1) s1 (c + 1)).
  destruct (cycles n t (sync e1) s1 (c + 1)) as [[[e2 s2] c2] trs].
  destruct trs as [|tr2 rest].
  - destruct n as [|n']; [right; reflexivity|cbn in IH; discriminate].
  - cbn [shape_ok]. split; [discriminate|exact IH].
Qed.

Theorem execute_cycles_bounded maxc t (e : engine) s :
  let '(_, _, r) := execute maxc t e s in
  0 <= res_cycles r <= Z.of_nat maxc /\ res_cycles r = Z.of_nat (length (res_trace r))
  /\ res_fired r = Z.of_nat (length (concat (res_trace r))).
Proof.
  unfold Engine.execute. pose proof (cycles_count maxc t (sync e) s 0) as H.
  destruct (cycles maxc t (sync e) s 0) as [[[e1 s1] c] trs]. destruct H as [H1 H2]. cbn. lia.
Qed.

(** it stops before the bound exactly when a pass fired nothing *)
Theorem execute_stops_iff_quiet maxc t (e : engine) s :
  let '(_, _, r) := execute maxc t e s in
  shape_ok maxc (res_trace r).
Proof.
  unfold Engine.execute. pose proof (cycles_shape maxc t (sync e) s 0) as H.
  destruct (cycles maxc t (sync e) s 0) as [[[e1 s1] c] trs]. exact H.
Qed.

(** * a quiet pass changes nothing and certifies a fixpoint *)
Lemma pass_quiet rs : forall t (e : engine) s e' s',
  pass rs t e s = (e', s', []) ->
  e' = e /\ s' = s /\ forall r, In r rs -> gates e t r && eval (r_cond r) s = false.
Proof.
  induction rs as [|r rs IH]; intros t e s e' s' H; cbn [Engine.pass] in H.
  - inversion H; subst. repeat split; auto. intros r [].
  - destruct (gates e t r && eval (r_cond r) s) eqn:G.
    + destruct (fire e s r) as [e1 s1]. destruct (pass rs t e1 s1) as [[e2 s2] tr]. inversion H.
    + destruct (IH t e s e' s' H) as [H1 [H2 H3]]. repeat split; auto.
      intros r0 [<-|Hin]; [exact G|apply H3; exact Hin].
Qed.

(** When execute stops before the bound, the final facts are a fixpoint: no rule that is still
    eligible (all gates) has a true condition on them. *)
Theorem cycles_fixpoint n : forall t (e : engine) s c e' s' c' trs,
  cycles n t e s c = (e', s', c', trs) ->
  last trs [0] = [] -> trs <> [] ->
  forall r, In r (rules e') -> gates e' t r && eval (r_cond r) s' = false.
Proof.
  induction n as [|n IH]; intros t e s c e' s' c' trs H Hlast Hne; cbn [Engine.cycles] in H.
  - inversion H; subst. contradiction.
  - destruct (pass (rules (reset_cycle e)) t (reset_cycle e) s) as [[e1 s1] tr] eqn:P.
    destruct tr as [|x tr].
    + inversion H; subst. destruct (pass_quiet _ _ _ _ _ _ P) as [-> [-> H3]]. exact H3.
    + destruct (cycles n t (sync e1) s1 (c + 1)) as [[[e2 s2] c2] trs2] eqn:C. inversion H; subst.
      destruct trs2 as [|tr2 rest].
      * cbn in Hlast. discriminate.
      * eapply IH; [exact C| |discriminate]. exact Hlast.
Qed.

(** * C02: firing order within a pass *)
Inductive subseq {T} : list T -> list T -> Prop :=
| sub_nil : forall l, subseq [] l
| sub_take : forall x a b, subseq a b -> subseq (x :: a) (x :: b)
| sub_skip : forall x a b, subseq a b -> subseq a (x :: b).

Lemma pass_subseq rs : forall t (e : engine) s,
  subseq (snd (pass rs t e s)) (map r_name rs).
Proof.
  induction rs as [|r rs IH]; intros t e s; cbn [Engine.pass map]; [constructor|].
  destruct (gates e t r && eval (r_cond r) s).
  - destruct (fire e s r) as [e1 s1]. specialize (IH t e1 s1).
    destruct (pass rs t e1 s1) as [[e2 s2] tr]. cbn [snd] in *. constructor. exact IH.
  - constructor. apply IH.
Qed.

(** the knowledge base keeps the vector in descending salience (insertion order among equals:
    a rule is inserted after every rule of greater or equal salience) *)
Definition desc (a b : rule) : Prop := r_sal b <= r_sal a.

Lemma insert_stable_sorted (x : rule) l : StronglySorted desc l -> StronglySorted desc (insert_stable x l).
Proof.
  induction l as [|y l IH]; intros H; cbn.
  - constructor; constructor.
  - inversion H as [|? ? Hs Hf]; subst.
    destruct (r_sal y <? r_sal x) eqn:E.
    + apply Z.ltb_lt in E. constructor; [exact H|]. constructor; [unfold desc; lia|].
      rewrite Forall_forall in *. intros z Hz. specialize (Hf z Hz). unfold desc in *. lia.
    + apply Z.ltb_ge in E. constructor; [apply IH; exact Hs|].
      assert (G : forall l, Forall (desc y) l -> Forall (desc y) (insert_stable x l)).
      { clear - E. induction l as [|z l IHl]; intros Hl; cbn.
        - constructor; [unfold desc; lia|constructor].
        - inversion Hl; subst. destruct (r_sal z <? r_sal x).
          + constructor; [unfold desc; lia|constructor; auto].
          + constructor; auto. }
      apply G. exact Hf.
Qed.

Lemma insert_stable_after_equals (x : rule) l :
  exists a b, insert_stable x l = a ++ x :: b /\ l = a ++ b /\
              Forall (fun y => r_sal x <= r_sal y) a.
Proof.
  induction l as [|y l IH]; cbn.
  - exists [], []. repeat split; constructor.
  - destruct (r_sal y <? r_sal x) eqn:E.
    + exists [], (y :: l). repeat split; constructor.
    + apply Z.ltb_ge in E. destruct IH as [a [b [H1 [H2 H3]]]].
      exists (y :: a), b. rewrite H1, H2. repeat split. constructor; [exact E|exact H3].
Qed.

Theorem rules_sorted (rs : list rule) :
  StronglySorted desc (rules (fold_left add_rule rs engine_init)).
Proof.
  assert (G : forall rs (e : engine), StronglySorted desc (rules e) -> StronglySorted desc (rules (fold_left add_rule rs e))).
  { clear rs. induction rs as [|r rs IH]; intros e H; cbn [fold_left]; [exact H|].
    apply IH. unfold add_rule. destruct (existsb _ (rules e)); [exact H|]. cbn [rules]. apply insert_stable_sorted. exact H. }
  apply G. constructor.
Qed.

(** * every firing passed every gate at the moment the rule was considered *)
Fixpoint pass_log (rs : list rule) (t : Z) (e : engine) (s : store) : list (engine * store * rule) :=
  match rs with
  | [] => []
  | r :: rest =>
      if gates e t r && eval (r_cond r) s then
        let '(e1, s1) := fire e s r in (e, s, r) :: pass_log rest t e1 s1
      else pass_log rest t e s
  end.

Lemma pass_log_names rs : forall t e s,
  map (fun x => r_name (snd x)) (pass_log rs t e s) = snd (pass rs t e s).
Proof.
  induction rs as [|r rs IH]; intros t e s; cbn [pass_log Engine.pass]; [reflexivity|].
  destruct (gates e t r && eval (r_cond r) s); [|apply IH].
  destruct (fire e s r) as [e1 s1]. specialize (IH t e1 s1).
  destruct (pass rs t e1 s1) as [[e2 s2] tr]. cbn [snd map] in *. rewrite IH. reflexivity.
Qed.

Theorem gates_respected rs : forall t e s e0 s0 r,
  In (e0, s0, r) (pass_log rs t e s) ->
  In r rs /\ eval (r_cond r) s0 = true /\
  r_enabled r = true /\ group_of r = active (ag e0) /\ active_at r t = true /\
  can_fire_lock (ag e0) r = true /\
  (forall g, r_actgroup r = Some g -> memZ g (act_fired e0) = false) /\
  (r_noloop r = true -> memZ (r_name r) (fired_global e0) = false).
Proof.
  induction rs as [|r0 rs IH]; intros t e s e0 s0 r H; cbn [pass_log] in H; [contradiction|].
  destruct (gates e t r0 && eval (r_cond r0) s) eqn:G.
  - destruct (fire e s r0) as [e1 s1]. destruct H as [H|H].
    + inversion H; subst. apply andb_true_iff in G. destruct G as [G Ev].
      unfold gates in G. repeat (apply andb_true_iff in G; destruct G as [G ?]).
      split; [left; reflexivity|]. split; [exact Ev|]. split; [exact G|].
      split; [unfold should_evaluate in *; apply Z.eqb_eq; assumption|].
      split; [assumption|]. split; [assumption|]. split.
      * intros g Hg. rewrite Hg in *. apply negb_true_iff. assumption.
      * intros Hn. rewrite Hn in *. cbn in *. apply negb_true_iff. assumption.
    + destruct (IH _ _ _ _ _ _ H) as [Hin Hrest]. split; [right; exact Hin|exact Hrest].
  - destruct (IH _ _ _ _ _ _ H) as [Hin Hrest]. split; [right; exact Hin|exact Hrest].
Qed.

(** * no-loop: once fired, a no-loop rule is blocked until the tracking is reset *)
Lemma apply_effects_fired (e : engine) fx : fired_global (apply_effects e fx) = fired_global e.
Proof. unfold apply_effects. revert e. induction fx as [|f fx IH]; intros e; cbn [fold_left]; [reflexivity|]. rewrite IH. destruct f; reflexivity. Qed.

Lemma memZ_addZ x y l : memZ x (addZ y l) = (x =? y) || memZ x l.
Proof.
  unfold addZ. destruct (memZ y l) eqn:E.
  - destruct (x =? y) eqn:E2; [apply Z.eqb_eq in E2; subst; rewrite E; reflexivity|reflexivity].
  - induction l as [|z l IH]; cbn; [rewrite orb_false_r; reflexivity|].
    cbn in E. apply orb_false_iff in E. destruct E as [_ E]. rewrite (IH E).
    destruct (x =? z), (x =? y); reflexivity.
Qed.

Lemma fire_fired_global (e : engine) s r n :
  memZ n (fired_global (fst (fire e s r))) = memZ n (fired_global e) || (r_noloop r && (n =? r_name r)).
Proof.
  unfold Engine.fire.
  assert (G : forall l (e0 : engine) s0, fired_global (fst (fold_left (fun es a => let '(e1, s1) := es in let '(s', fx) := act a s1 in (apply_effects e1 fx, s')) l (e0, s0))) = fired_global e0).
  { induction l as [|a l IH]; intros e0 s0; cbn [fold_left]; [reflexivity|].
    destruct (act a s0) as [s' fx]. rewrite IH. apply apply_effects_fired. }
  specialize (G (r_actions r) e s).
  destruct (fold_left _ (r_actions r) (e, s)) as [e1 s1]. cbn [fst fired_global] in *.
  destruct (r_noloop r); cbn.
  - rewrite memZ_addZ, G. apply orb_comm.
  - rewrite G, orb_false_r. reflexivity.
Qed.

(** a no-loop rule whose name is in the tracking set never fires in a pass, and the set only grows *)
Lemma pass_noloop rs : forall t (e : engine) s n,
  memZ n (fired_global e) = true ->
  (forall r, In r rs -> r_name r = n -> r_noloop r = true) ->
  ~ In n (snd (pass rs t e s)) /\ memZ n (fired_global (fst (fst (pass rs t e s)))) = true.
Proof.
  induction rs as [|r rs IH]; intros t e s n Hm Hnl; cbn [Engine.pass]; [split; [intros []|exact Hm]|].
  assert (Hnl' : forall r0, In r0 rs -> r_name r0 = n -> r_noloop r0 = true) by (intros; apply Hnl; [right|]; assumption).
  destruct (gates e t r && eval (r_cond r) s) eqn:G; [|apply IH; assumption].
  destruct (fire e s r) as [e1 s1] eqn:F.
  assert (Hm1 : memZ n (fired_global e1) = true).
  { replace e1 with (fst (fire e s r)) by (rewrite F; reflexivity). rewrite fire_fired_global, Hm. reflexivity. }
  destruct (IH t e1 s1 n Hm1 Hnl') as [I1 I2].
  destruct (pass rs t e1 s1) as [[e2 s2] tr]. cbn [fst snd] in *. split; [|exact I2].
  intros [Heq|Hin]; [|contradiction].
  (* r itself has name n: then it is no-loop and its gate was closed *)
  apply andb_true_iff in G. destruct G as [G _]. unfold gates in G.
  apply andb_true_iff in G. destruct G as [_ G]. apply negb_true_iff in G.
  rewrite (Hnl r (or_introl eq_refl) Heq), Heq, Hm in G. discriminate.
Qed.

Fixpoint count (n : Z) (l : list Z) : nat := match l with [] => O | x :: r => ((if Z.eqb x n then 1 else 0) + count n r)%nat end.

Lemma count_notin n l : ~ In n l -> count n l = O.
Proof.
  induction l as [|x l IH]; intros H; cbn; [reflexivity|].
  destruct (x =? n) eqn:E; [apply Z.eqb_eq in E; exfalso; apply H; left; exact E|].
  apply IH. intro Hin. apply H. right. exact Hin.
Qed.

(** within one pass over rules with distinct names, a no-loop rule fires at most once, and if it
    fires it is recorded *)
Lemma pass_noloop_once rs : forall t (e : engine) s n,
  NoDup (map r_name rs) ->
  (forall r, In r rs -> r_name r = n -> r_noloop r = true) ->
  (count n (snd (pass rs t e s)) <= 1)%nat /\
  (In n (snd (pass rs t e s)) -> memZ n (fired_global (fst (fst (pass rs t e s)))) = true).
Proof.
  induction rs as [|r rs IH]; intros t e s n Hnd Hnl; cbn [Engine.pass]; [split; [cbn; lia|intros []]|].
  cbn in Hnd. inversion Hnd as [|? ? Hr Hnd']; subst.
  assert (Hnl' : forall r0, In r0 rs -> r_name r0 = n -> r_noloop r0 = true) by (intros; apply Hnl; [right|]; assumption).
  destruct (gates e t r && eval (r_cond r) s) eqn:G; [|apply IH; assumption].
  destruct (fire e s r) as [e1 s1] eqn:F.
  destruct (Z.eq_dec (r_name r) n) as [En|En].
  - (* r is the rule named n: it is recorded, so it cannot fire again in the rest of the pass *)
    assert (Hm1 : memZ n (fired_global e1) = true).
    { replace e1 with (fst (fire e s r)) by (rewrite F; reflexivity). rewrite fire_fired_global.
      rewrite (Hnl r (or_introl eq_refl) En), En, Z.eqb_refl. cbn. apply orb_true_r. }
    destruct (pass_noloop rs t e1 s1 n Hm1 Hnl') as [I1 I2].
    destruct (pass rs t e1 s1) as [[e2 s2] tr]. cbn [fst snd count] in *.
    rewrite En, Z.eqb_refl, (count_notin n tr I1). split; [lia|intros _; exact I2].
  - destruct (IH t e1 s1 n Hnd' Hnl') as [I1 I2].
    destruct (pass rs t e1 s1) as [[e2 s2] tr]. cbn [fst snd count] in *.
    destruct (r_name r =? n) eqn:E; [apply Z.eqb_eq in E; contradiction|]. split; [exact I1|].
    intros [H|H]; [contradiction|apply I2; exact H].
Qed.

(** * activation groups: at most one rule of a group fires per pass *)
Lemma pass_log_actgroup rs : forall t (e : engine) s g,
  memZ g (act_fired e) = true ->
  forall x, In x (pass_log rs t e s) -> r_actgroup (snd x) <> Some g.
Proof.
  induction rs as [|r rs IH]; intros t e s g Hm x Hx; cbn [pass_log] in Hx; [contradiction|].
  destruct (gates e t r && eval (r_cond r) s) eqn:G; [|eapply IH; eauto].
  destruct (fire e s r) as [e1 s1] eqn:F. destruct Hx as [<-|Hx].
  - cbn [snd]. intro Hg. apply andb_true_iff in G. destruct G as [G _]. unfold gates in G.
    apply andb_true_iff in G. destruct G as [G _]. apply andb_true_iff in G. destruct G as [_ G].
    rewrite Hg, Hm in G. discriminate.
  - eapply (IH t e1 s1 g); [|exact Hx].
    replace e1 with (fst (fire e s r)) by (rewrite F; reflexivity).
    unfold Engine.fire.
    assert (GA : forall l (e0 : engine) s0, act_fired (fst (fold_left (fun es a => let '(e2, s2) := es in let '(s', fx) := act a s2 in (apply_effects e2 fx, s')) l (e0, s0))) = act_fired e0).
    { induction l as [|a l IHl]; intros e0 s0; cbn [fold_left]; [reflexivity|].
      destruct (act a s0) as [s' fx]. rewrite IHl. clear. unfold apply_effects. revert e0. induction fx as [|f fx IHf]; intros e0; cbn [fold_left]; [reflexivity|]. rewrite IHf. destruct f; reflexivity. }
    specialize (GA (r_actions r) e s). destruct (fold_left _ (r_actions r) (e, s)) as [e2 s2]. cbn [fst act_fired] in *.
    destruct (r_actgroup r); [rewrite memZ_addZ, GA, Hm; apply orb_true_r|rewrite GA; exact Hm].
Qed.

Theorem actgroup_at_most_one rs : forall t (e : engine) s g,
  (length (filter (fun x => match r_actgroup (snd x) with Some g' => Z.eqb g' g | None => false end)
                  (pass_log rs t e s)) <= 1)%nat.
Proof.
  induction rs as [|r rs IH]; intros t e s g; cbn [pass_log]; [cbn; lia|].
  destruct (gates e t r && eval (r_cond r) s) eqn:G; [|apply IH].
  destruct (fire e s r) as [e1 s1] eqn:F. cbn [filter snd].
  destruct (r_actgroup r) as [g'|] eqn:Ag; [|apply IH].
  destruct (g' =? g) eqn:E; [|apply IH]. apply Z.eqb_eq in E. subst g'.
  (* after this firing the group is marked: nothing else of the group fires in this pass *)
  assert (Hm : memZ g (act_fired e1) = true).
  { replace e1 with (fst (fire e s r)) by (rewrite F; reflexivity). unfold Engine.fire.
    destruct (fold_left _ (r_actions r) (e, s)) as [e2 s2]. cbn [fst act_fired]. rewrite Ag, memZ_addZ, Z.eqb_refl. reflexivity. }
  assert (Hnone : filter (fun x => match r_actgroup (snd x) with Some g' => Z.eqb g' g | None => false end) (pass_log rs t e1 s1) = []).
  { pose proof (pass_log_actgroup rs t e1 s1 g Hm) as H.
    induction (pass_log rs t e1 s1) as [|x l IHl]; [reflexivity|]. cbn.
    destruct (r_actgroup (snd x)) as [g2|] eqn:E2.
    - destruct (g2 =? g) eqn:E3; [apply Z.eqb_eq in E3; subst; exfalso; apply (H x (or_introl eq_refl)); exact E2|].
      apply IHl. intros y Hy. apply H. right. exact Hy.
    - apply IHl. intros y Hy. apply H. right. exact Hy. }
  cbn [length]. rewrite Hnone. cbn. lia.
Qed.

End EngineProofs.

(** * lock-on-active: after it fired, a lock-on-active rule is blocked until its group is activated again *)
Section Lock.
Variables (cond action : Type).
Notation rule := (rule cond action).

Lemma fp_get_set m g l g' : fp_get (fp_set m g l) g' = if g =? g' then Some l else fp_get m g'.
Proof.
  unfold fp_get, fp_set. cbn. destruct (g =? g') eqn:E; [reflexivity|].
  induction m as [|[k v] m IH]; cbn; [reflexivity|].
  destruct (k =? g) eqn:E1; cbn.
  - apply Z.eqb_eq in E1. subst k. rewrite E. exact IH.
  - destruct (k =? g'); [reflexivity|exact IH].
Qed.

Lemma lock_blocks_after_fire (a : agenda) (r : rule) :
  r_lock r = true -> can_fire_lock (mark_lock a r) r = false.
Proof.
  intros Hl. unfold can_fire_lock, mark_lock. rewrite Hl. cbn [negb activated fired_per].
  rewrite memZ_addZ, Z.eqb_refl. cbn. rewrite fp_get_set, Z.eqb_refl, memZ_addZ, Z.eqb_refl. reflexivity.
Qed.

Lemma lock_stays_blocked_mark (a : agenda) (r r' : rule) :
  can_fire_lock a r = false -> can_fire_lock (mark_lock a r') r = false.
Proof.
  unfold can_fire_lock, mark_lock. destruct (r_lock r); cbn [negb]; [|discriminate].
  destruct (memZ (group_of r) (activated a)) eqn:Ma; cbn [negb]; [|discriminate].
  destruct (fp_get (fired_per a) (group_of r)) as [l|] eqn:Fg; [|discriminate].
  intros H. apply negb_false_iff in H.
  destruct (r_lock r'); [|rewrite Ma, Fg, H; reflexivity]. cbn [activated fired_per].
  rewrite memZ_addZ, Ma, orb_true_r. cbn. rewrite fp_get_set.
  destruct (group_of r' =? group_of r) eqn:E.
  - apply Z.eqb_eq in E. rewrite E, Fg, memZ_addZ, H, orb_true_r. reflexivity.
  - rewrite Fg, H. reflexivity.
Qed.

Lemma lock_stays_blocked_other_focus (a : agenda) (r : rule) g :
  g <> group_of r -> can_fire_lock a r = false -> can_fire_lock (set_focus a g) r = false.
Proof.
  intros Hne. unfold can_fire_lock, set_focus. destruct (r_lock r); cbn [negb]; [|discriminate].
  destruct (memZ (group_of r) (activated a)) eqn:Ma; cbn [negb]; [|discriminate].
  destruct (fp_get (fired_per a) (group_of r)) as [l|] eqn:Fg; [|discriminate].
  intros H. cbn [activated fired_per]. rewrite memZ_addZ, Ma, orb_true_r. cbn. rewrite fp_get_set.
  destruct (g =? group_of r) eqn:E; [apply Z.eqb_eq in E; contradiction|]. rewrite Fg. exact H.
Qed.

Lemma lock_stays_blocked_pop_clear (a : agenda) (r : rule) :
  can_fire_lock a r = false -> can_fire_lock (pop_focus a) r = false /\ can_fire_lock (clear_focus a) r = false.
Proof.
  intros H. split.
  - unfold pop_focus. destruct (rev (fstack a)) as [|top [|prev rest]]; exact H.
  - exact H.
Qed.
End Lock.
