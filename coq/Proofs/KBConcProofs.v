(** C15 — lock-level concurrent model (Model/KBConc.v): every execution of every schedule is linearizable, the shared
    cells equal the abstract state whenever no write-back is pending, and the results the threads return are the results
    of the sequential methods in linearization order. *)
From RRE Require Import Base.Sx Model.KB Model.KBConc Proofs.KBRefineProofs Proofs.KBLinProofs Proofs.KBConcLockProofs.
From Coq Require Import Lia Permutation Sorting.Sorted.
Open Scope Z_scope.

Lemma sx_eqb_refl' : forall s, sx_eqb s s = true.
Proof.
  fix IH 1. intros [z|l]; cbn.
  - apply Z.eqb_refl.
  - induction l as [|x l IHl]; [reflexivity|]. rewrite IH. exact IHl.
Qed.

Definition hkey (h : hev) : op * res * Z := (h_op h, h_res h, h_lin h).
Definition inflight (th : thread) : list (op * res * Z) :=
  match tpc th with
  | PWrite o _ lin r _ _ _ => [(o, r, lin)]
  | PRel o _ lin r _ => [(o, r, lin)]
  | _ => []
  end.

Inductive Replays : kb -> list (op * res * Z) -> kb -> Prop :=
| R_nil k : Replays k [] k
| R_cons k o z rest k' : Replays (fst (step k o)) rest k' -> Replays k ((o, snd (step k o), z) :: rest) k'.

Lemma Replays_snoc k l k' o z : Replays k l k' -> Replays k (l ++ [(o, snd (step k' o), z)]) (fst (step k' o)).
Proof. induction 1 as [k|k o' z' rest k' H IH]; cbn; [constructor; constructor|constructor; exact IH]. Qed.

Lemma SSorted_snoc {T} (R : T -> T -> Prop) l x : StronglySorted R l -> Forall (fun a => R a x) l -> StronglySorted R (l ++ [x]).
Proof.
  induction 1 as [|a l H IH Ha]; intros F; cbn; [constructor; constructor|].
  inversion F; subst. constructor; [apply IH; assumption|]. apply Forall_app. split; [exact Ha|constructor; [assumption|constructor]].
Qed.

Section Conc.
Variable locks_of : op -> list lockreq.
Hypothesis table : forall o, ascending_from 0 (locks_of o) = true /\ covers (locks_of o) o = true.

Notation InvL := (InvL locks_of).
Notation cstep := (cstep locks_of).
Notation run := (run locks_of).

(** ---------- the cells ---------- *)
Record InvC (s : gst) : Prop := {
  c_1 : forall t th o inv lin r loc todo held, nth_error (thr s) t = Some th -> tpc th = PWrite o inv lin r loc todo held ->
        forall c, In c todo -> In (c, MW) held /\ agree c loc (sigma s) /\ (c < 3)%nat;
  c_2 : forall c, agree c (cells s) (sigma s) \/
        exists t th o inv lin r loc todo held,
          nth_error (thr s) t = Some th /\ tpc th = PWrite o inv lin r loc todo held /\ In c todo
}.

Lemma InvC_init progs : InvC (ginit progs).
Proof.
  constructor; unfold ginit; cbn.
  - intros t th o inv lin r loc todo held H E. apply nth_error_In in H. apply in_map_iff in H as (p & E' & _). subst th. discriminate.
  - intros c. left. apply agree_refl.
Qed.

(** a cell whose guard is held by a thread that is still acquiring is clean *)
Lemma held_clean s t th o inv todo held c m : InvL s -> InvC s -> nth_error (thr s) t = Some th -> tpc th = PAcq o inv todo held ->
  In (c, m) held -> agree c (cells s) (sigma s).
Proof.
  intros IL IC Hth Hpc Hin. destruct (c_2 _ IC c) as [A|(t' & th' & o' & inv' & lin' & r' & loc' & todo' & held' & H' & E' & Hc)]; [exact A|].
  destruct (c_1 _ IC _ _ _ _ _ _ _ _ _ H' E' c Hc) as (HW & _ & _).
  assert (t = t') by (eapply (excl locks_of s t t' th th' c m); eauto; [rewrite Hpc; exact Hin|rewrite E'; exact HW]).
  subst t'. rewrite Hth in H'. inversion H'; subst th'. congruence.
Qed.

Lemma covers_foot o c : In c (footprint o) -> exists m, In (c, m) (locks_of o).
Proof.
  destruct (table o) as [_ H]. unfold covers in H. apply andb_prop in H as [H _]. intros Hc.
  rewrite forallb_forall in H. specialize (H c Hc). apply existsb_exists in H as ([c' m] & Hin & E).
  apply Nat.eqb_eq in E. cbn in E. subst c'. exists m. exact Hin.
Qed.
Lemma covers_wset o c : In c (wset o) -> In (c, MW) (locks_of o).
Proof.
  destruct (table o) as [_ H]. unfold covers in H. apply andb_prop in H as [_ H]. intros Hc.
  rewrite forallb_forall in H. specialize (H c Hc). apply existsb_exists in H as ([c' m] & Hin & E).
  apply andb_prop in E as [E1 E2]. apply Nat.eqb_eq in E1. cbn in E1, E2. subst c'. destruct m; [discriminate|exact Hin].
Qed.
Lemma wlocks_in held c : In c (wlocks held) <-> In (c, MW) held.
Proof.
  unfold wlocks. rewrite in_map_iff. split.
  - intros ([c' m] & E & H). apply filter_In in H as [H Hm]. cbn in *. subst c'. destruct m; [discriminate|exact H].
  - intros H. exists (c, MW). split; [reflexivity|]. apply filter_In. split; [exact H|reflexivity].
Qed.

Lemma step_InvC s t s' : InvL s -> InvC s -> cstep t s = Some s' -> InvC s'.
Proof.
  intros IL IC H. unfold KBConc.cstep in H. destruct (nth_error (thr s) t) as [th|] eqn:Hth; [|discriminate].
  destruct (tpc th) as [|o inv todo held|o inv lin r loc todo held|o inv lin r held] eqn:Hpc.
  - (* invoke *)
    destruct (prog th) as [|o rest] eqn:Hprog; [discriminate|]. inversion H; subst s'; clear H. constructor; cbn.
    + intros t' th' o' inv' lin' r' loc' todo' held' H E'. destruct (Nat.eq_dec t t') as [E|E].
      * subst t'. rewrite (nth_set_nth_eq _ _ _ _ Hth) in H. inversion H; subst th'. discriminate.
      * rewrite nth_set_nth_ne in H by exact E. eapply (c_1 _ IC); eauto.
    + intros c. destruct (c_2 _ IC c) as [A|(t' & th' & o' & inv' & lin' & r' & loc' & todo' & held' & H' & E' & Hc)]; [left; exact A|right].
      assert (t <> t') by (intros ->; rewrite Hth in H'; inversion H'; subst th'; congruence).
      exists t', th', o', inv', lin', r', loc', todo', held'. rewrite nth_set_nth_ne by assumption. auto.
  - destruct todo as [|[l m] todo].
    + (* compute *)
      inversion H; subst s'; clear H.
      pose proof (l_acq _ _ IL _ _ _ _ _ _ Hth Hpc) as Hlocks. rewrite app_nil_r in Hlocks.
      assert (Hin_held : forall q, In q (locks_of o) -> In q held) by (intros q Hq; rewrite Hlocks in Hq; apply in_rev; exact Hq).
      assert (Hfoot : forall c, In c (footprint o) -> agree c (cells s) (sigma s)).
      { intros c Hc. destruct (covers_foot o c Hc) as [m Hm]. eapply held_clean; eauto. }
      constructor; cbn.
      * intros t' th' o' inv' lin' r' loc' todo' held' H E' c Hc. destruct (Nat.eq_dec t t') as [E|E].
        -- subst t'. rewrite (nth_set_nth_eq _ _ _ _ Hth) in H. inversion H; subst th'. cbn in E'. inversion E'; subst. clear E' H.
           apply wlocks_in in Hc. split; [exact Hc|]. split.
           ++ destruct (in_dec Nat.eq_dec c (wset o')) as [Hw|Hw]; [apply frame_write; assumption|].
              eapply agree_trans; [apply frame_keep; exact Hw|]. eapply agree_trans; [|apply agree_sym; apply frame_keep; exact Hw].
              eapply held_clean; eauto.
           ++ apply (locks_lt3 locks_of table o' (c, MW)). rewrite Hlocks. apply -> in_rev. exact Hc.
        -- rewrite nth_set_nth_ne in H by exact E. destruct (c_1 _ IC _ _ _ _ _ _ _ _ _ H E' c Hc) as (HW & Ha & H3).
           split; [exact HW|]. split; [|exact H3]. eapply agree_trans; [exact Ha|]. apply agree_sym. apply frame_keep.
           intros Hw. apply E. eapply (excl locks_of s t t' th th' c MW); eauto.
           ++ rewrite Hpc. apply Hin_held. apply covers_wset. exact Hw.
           ++ rewrite E'. exact HW.
      * intros c. destruct (in_dec Nat.eq_dec c (wlocks held)) as [Hw|Hw].
        -- right. exists t, {| prog := prog th; tpc := PWrite o inv (now s) (snd (step (cells s) o)) (fst (step (cells s) o)) (wlocks held) held |}.
           do 7 eexists. split; [apply (nth_set_nth_eq _ _ _ _ Hth)|]. split; [reflexivity|exact Hw].
        -- assert (Hk : agree c (fst (step (sigma s) o)) (sigma s)).
           { apply frame_keep. intros Hc. apply Hw. apply wlocks_in. apply Hin_held. apply covers_wset. exact Hc. }
           destruct (c_2 _ IC c) as [A|(t' & th' & o' & inv' & lin' & r' & loc' & todo' & held' & H' & E' & Hc)].
           ++ left. eapply agree_trans; [exact A|apply agree_sym; exact Hk].
           ++ right. assert (t <> t') by (intros ->; rewrite Hth in H'; inversion H'; subst th'; congruence).
              exists t', th', o', inv', lin', r', loc', todo', held'. rewrite nth_set_nth_ne by assumption. auto.
    + (* acquire *)
      destruct (can_acq m (lk s l)); [|discriminate]. inversion H; subst s'; clear H. constructor; cbn.
      * intros t' th' o' inv' lin' r' loc' todo' held' H E'. destruct (Nat.eq_dec t t') as [E|E].
        -- subst t'. rewrite (nth_set_nth_eq _ _ _ _ Hth) in H. inversion H; subst th'. discriminate.
        -- rewrite nth_set_nth_ne in H by exact E. eapply (c_1 _ IC); eauto.
      * intros c. destruct (c_2 _ IC c) as [A|(t' & th' & o' & inv' & lin' & r' & loc' & todo' & held' & H' & E' & Hc)]; [left; exact A|right].
        assert (t <> t') by (intros ->; rewrite Hth in H'; inversion H'; subst th'; congruence).
        exists t', th', o', inv', lin', r', loc', todo', held'. rewrite nth_set_nth_ne by assumption. auto.
  - destruct todo as [|c0 todo].
    + (* end of write-back *)
      inversion H; subst s'; clear H. constructor; cbn.
      * intros t' th' o' inv' lin' r' loc' todo' held' H E'. destruct (Nat.eq_dec t t') as [E|E].
        -- subst t'. rewrite (nth_set_nth_eq _ _ _ _ Hth) in H. inversion H; subst th'. discriminate.
        -- rewrite nth_set_nth_ne in H by exact E. eapply (c_1 _ IC); eauto.
      * intros c. destruct (c_2 _ IC c) as [A|(t' & th' & o' & inv' & lin' & r' & loc' & todo' & held' & H' & E' & Hc)]; [left; exact A|right].
        assert (t <> t') by (intros ->; rewrite Hth in H'; inversion H'; subst th'; rewrite Hpc in E'; inversion E'; subst; contradiction).
        exists t', th', o', inv', lin', r', loc', todo', held'. rewrite nth_set_nth_ne by assumption. auto.
    + (* write one cell *)
      inversion H; subst s'; clear H.
      destruct (c_1 _ IC _ _ _ _ _ _ _ _ _ Hth Hpc c0 (or_introl eq_refl)) as (HW0 & Ha0 & H30).
      constructor; cbn.
      * intros t' th' o' inv' lin' r' loc' todo' held' H E' c Hc. destruct (Nat.eq_dec t t') as [E|E].
        -- subst t'. rewrite (nth_set_nth_eq _ _ _ _ Hth) in H. inversion H; subst th'. cbn in E'. inversion E'; subst.
           eapply (c_1 _ IC); [exact Hth|exact Hpc|right; exact Hc].
        -- rewrite nth_set_nth_ne in H by exact E. eapply (c_1 _ IC); eauto.
      * intros c. destruct (Nat.eq_dec c0 c) as [Ec|Ec].
        -- subst c. left. eapply agree_trans; [apply write_cell_same; exact H30|exact Ha0].
        -- destruct (c_2 _ IC c) as [A|(t' & th' & o' & inv' & lin' & r' & loc' & todo' & held' & H' & E' & Hc)].
           ++ left. eapply agree_trans; [apply write_cell_other; exact Ec|exact A].
           ++ right. destruct (Nat.eq_dec t t') as [E|E].
              ** subst t'. rewrite Hth in H'. inversion H'; subst th'. rewrite Hpc in E'. inversion E'; subst.
                 exists t, {| prog := prog th; tpc := PWrite o' inv' lin' r' loc' todo held' |}. do 7 eexists.
                 split; [apply (nth_set_nth_eq _ _ _ _ Hth)|]. split; [reflexivity|]. destruct Hc as [Hc|Hc]; [contradiction|exact Hc].
              ** exists t', th', o', inv', lin', r', loc', todo', held'. rewrite nth_set_nth_ne by assumption. auto.
  - (* release / respond: no thread is in write-back because of t, cells and sigma unchanged *)
    assert (G : cells s' = cells s /\ sigma s' = sigma s /\ exists p, thr s' = set_nth t {| prog := prog th; tpc := p |} (thr s) /\ (forall a b c d e f g, p <> PWrite a b c d e f g)).
    { destruct held as [|[l m] held]; inversion H; subst s'; cbn; (split; [reflexivity|split; [reflexivity|]]); eexists; (split; [reflexivity|]); intros; discriminate. }
    destruct G as (Gc & Gs & p & Gt & Gp). constructor; rewrite ?Gc, ?Gs, ?Gt.
    + intros t' th' o' inv' lin' r' loc' todo' held' H0 E'. destruct (Nat.eq_dec t t') as [E|E].
      * subst t'. rewrite (nth_set_nth_eq _ _ _ _ Hth) in H0. inversion H0; subst th'. cbn in E'. exfalso. eapply Gp; exact E'.
      * rewrite nth_set_nth_ne in H0 by exact E. eapply (c_1 _ IC); eauto.
    + intros c. destruct (c_2 _ IC c) as [A|(t' & th' & o' & inv' & lin' & r' & loc' & todo' & held' & H' & E' & Hc)]; [left; exact A|right].
      assert (t <> t') by (intros ->; rewrite Hth in H'; inversion H'; subst th'; congruence).
      exists t', th', o', inv', lin', r', loc', todo', held'. rewrite nth_set_nth_ne by assumption. auto.
Qed.

(** ---------- the history ---------- *)
Definition pc_times (bound : Z) (p : pc) : Prop :=
  match p with
  | PIdle => True
  | PAcq _ inv _ _ => inv < bound
  | PWrite _ inv lin _ _ _ _ => inv < lin < bound
  | PRel _ inv lin _ _ => inv < lin < bound
  end.

Record InvH (s : gst) : Prop := {
  h_replay : Replays init (linlog s) (sigma s);
  h_sorted : StronglySorted (fun a b : op * res * Z => snd a < snd b) (linlog s);
  h_bound : Forall (fun a : op * res * Z => snd a < now s) (linlog s);
  h_perm : Permutation (linlog s) (map hkey (hist s) ++ flat_map inflight (thr s));
  h_hist : Forall (fun h => h_inv h < h_lin h < h_resp h) (hist s);
  h_thr : forall t th, nth_error (thr s) t = Some th -> pc_times (now s) (tpc th)
}.

Lemma InvH_init progs : InvH (ginit progs).
Proof.
  constructor; unfold ginit; cbn; try (constructor; fail).
  - induction progs as [|p progs IH]; cbn; [constructor|exact IH].
  - intros t th H. apply nth_error_In in H. apply in_map_iff in H as (p & E & _). subst th. exact I.
Qed.

Lemma flat_set_same (thr0 : list thread) t x y : nth_error thr0 t = Some y -> inflight x = inflight y ->
  flat_map inflight (set_nth t x thr0) = flat_map inflight thr0.
Proof.
  intros H E. destruct (set_nth_split _ _ x _ H) as (l1 & l2 & E1 & E2). rewrite E2, E1.
  rewrite !flat_map_app. cbn. rewrite E. reflexivity.
Qed.

Lemma pc_times_mono b b' p : b <= b' -> pc_times b p -> pc_times b' p.
Proof. destruct p; cbn; intros; lia. Qed.

Lemma Forall_lt_mono (l : list (op * res * Z)) b : Forall (fun a => snd a < b) l -> Forall (fun a => snd a < b + 1) l.
Proof. intros H. eapply Forall_impl; [|exact H]. cbn. intros; lia. Qed.

Lemma step_InvH s t s' : InvL s -> InvC s -> InvH s -> cstep t s = Some s' -> InvH s'.
Proof.
  intros IL IC IH H. unfold KBConc.cstep in H. destruct (nth_error (thr s) t) as [th|] eqn:Hth; [|discriminate].
  pose proof (h_thr _ IH _ _ Hth) as Tt.
  assert (Others : forall p t' th', nth_error (set_nth t {| prog := prog th; tpc := p |} (thr s)) t' = Some th' ->
                     pc_times (now s + 1) p -> pc_times (now s + 1) (tpc th')).
  { intros p t' th' H0 Hp. destruct (Nat.eq_dec t t') as [E|E].
    - subst t'. rewrite (nth_set_nth_eq _ _ _ _ Hth) in H0. inversion H0; subst th'. exact Hp.
    - rewrite nth_set_nth_ne in H0 by exact E. eapply pc_times_mono; [|eapply (h_thr _ IH); exact H0]. lia. }
  destruct (tpc th) as [|o inv todo held|o inv lin r loc todo held|o inv lin r held] eqn:Hpc.
  - (* invoke *)
    destruct (prog th) as [|o rest] eqn:Hprog; [discriminate|]. inversion H; subst s'; clear H. constructor; cbn.
    + apply (h_replay _ IH).
    + apply (h_sorted _ IH).
    + apply Forall_lt_mono. apply (h_bound _ IH).
    + rewrite (flat_set_same _ _ _ _ Hth); [apply (h_perm _ IH)|]. unfold inflight. cbn. rewrite Hpc. reflexivity.
    + apply (h_hist _ IH).
    + intros t' th' H0. destruct (Nat.eq_dec t t') as [E|E].
      * subst t'. rewrite (nth_set_nth_eq _ _ _ _ Hth) in H0. inversion H0; subst th'. cbn. lia.
      * rewrite nth_set_nth_ne in H0 by exact E. eapply pc_times_mono; [|eapply (h_thr _ IH); exact H0]. lia.
  - destruct todo as [|[l m] todo].
    + (* compute: the linearization point *)
      inversion H; subst s'; clear H.
      pose proof (l_acq _ _ IL _ _ _ _ _ _ Hth Hpc) as Hlocks. rewrite app_nil_r in Hlocks.
      assert (Hres : snd (step (cells s) o) = snd (step (sigma s) o)).
      { apply frame_res. intros c Hc. destruct (covers_foot o c Hc) as [m Hm]. eapply held_clean; eauto.
        rewrite Hlocks in Hm. apply in_rev. exact Hm. }
      constructor; cbn.
      * apply Replays_snoc. apply (h_replay _ IH).
      * apply SSorted_snoc; [apply (h_sorted _ IH)|]. apply (h_bound _ IH).
      * apply Forall_app. split; [apply Forall_lt_mono; apply (h_bound _ IH)|constructor; [cbn; lia|constructor]].
      * destruct (set_nth_split _ _ {| prog := prog th; tpc := PWrite o inv (now s) (snd (step (cells s) o)) (fst (step (cells s) o)) (wlocks held) held |} _ Hth)
          as (l1 & l2 & E1 & E2). rewrite E2. pose proof (h_perm _ IH) as P. rewrite E1 in P.
        rewrite !flat_map_app in *. cbn [flat_map] in *. unfold inflight at 2 in P. rewrite Hpc in P. cbn [app] in P.
        unfold inflight at 2. cbn [tpc app]. rewrite Hres.
        set (e := (o, snd (step (sigma s) o), now s)) in *.
        etransitivity; [apply Permutation_app_tail; exact P|].
        rewrite <- !app_assoc. apply Permutation_app_head. apply Permutation_app_head.
        etransitivity; [apply Permutation_app_comm|]. cbn. reflexivity.
      * apply (h_hist _ IH).
      * intros t' th' H0. eapply Others; [exact H0|]. cbn in *. lia.
    + (* acquire *)
      destruct (can_acq m (lk s l)); [|discriminate]. inversion H; subst s'; clear H. constructor; cbn.
      * apply (h_replay _ IH).
      * apply (h_sorted _ IH).
      * apply Forall_lt_mono. apply (h_bound _ IH).
      * rewrite (flat_set_same _ _ _ _ Hth); [apply (h_perm _ IH)|]. unfold inflight. cbn. rewrite Hpc. reflexivity.
      * apply (h_hist _ IH).
      * intros t' th' H0. eapply Others; [exact H0|]. cbn in *. lia.
  - (* write-back steps *)
    assert (G : exists p, inflight {| prog := prog th; tpc := p |} = inflight th /\ pc_times (now s + 1) p /\
                 s' = {| cells := cells s'; sigma := sigma s; lk := lk s; thr := set_nth t {| prog := prog th; tpc := p |} (thr s);
                         now := now s + 1; linlog := linlog s; hist := hist s |}).
    { destruct todo as [|c0 todo]; inversion H; subst s'; cbn; eexists; (split; [|split; [|reflexivity]]);
        try (unfold inflight; cbn; rewrite Hpc; reflexivity); cbn in *; lia. }
    destruct G as (p & Gi & Gp & G). rewrite G. clear G H. constructor; cbn.
    + apply (h_replay _ IH).
    + apply (h_sorted _ IH).
    + apply Forall_lt_mono. apply (h_bound _ IH).
    + rewrite (flat_set_same _ _ _ _ Hth Gi). apply (h_perm _ IH).
    + apply (h_hist _ IH).
    + intros t' th' H0. eapply Others; [exact H0|exact Gp].
  - destruct held as [|[l m] held].
    + (* respond *)
      inversion H; subst s'; clear H. constructor; cbn.
      * apply (h_replay _ IH).
      * apply (h_sorted _ IH).
      * apply Forall_lt_mono. apply (h_bound _ IH).
      * destruct (set_nth_split _ _ {| prog := prog th; tpc := PIdle |} _ Hth) as (l1 & l2 & E1 & E2). rewrite E2.
        pose proof (h_perm _ IH) as P. rewrite E1 in P.
        rewrite !flat_map_app in *. cbn [flat_map] in *. unfold inflight at 2 in P. rewrite Hpc in P.
        unfold inflight at 2. cbn [tpc app] in *. rewrite map_app. cbn [map]. unfold hkey at 2. cbn [h_op h_res h_lin].
        etransitivity; [exact P|]. rewrite <- !app_assoc. apply Permutation_app_head. cbn [app].
        symmetry. apply (Permutation_middle (flat_map inflight l1) (flat_map inflight l2) (o, r, lin)).
      * apply Forall_app. split; [apply (h_hist _ IH)|constructor; [cbn in *; lia|constructor]].
      * intros t' th' H0. eapply Others; [exact H0|exact I].
    + (* release *)
      inversion H; subst s'; clear H. constructor; cbn.
      * apply (h_replay _ IH).
      * apply (h_sorted _ IH).
      * apply Forall_lt_mono. apply (h_bound _ IH).
      * rewrite (flat_set_same _ _ _ _ Hth); [apply (h_perm _ IH)|]. unfold inflight. cbn. rewrite Hpc. reflexivity.
      * apply (h_hist _ IH).
      * intros t' th' H0. eapply Others; [exact H0|]. cbn in *. lia.
Qed.

(** ---------- every reachable state ---------- *)
Record Inv (s : gst) : Prop := { inv_L : InvL s; inv_C : InvC s; inv_H : InvH s }.

Lemma run_Inv sched : forall s, Inv s -> Inv (run sched s).
Proof.
  induction sched as [|t sched IH]; intros s I; cbn; [exact I|].
  destruct (KBConc.cstep locks_of t s) as [s'|] eqn:E; [|apply IH; exact I].
  apply IH. destruct I as [IL IC IH']. constructor.
  - eapply step_InvL; eauto.
  - eapply step_InvC; eauto.
  - eapply step_InvH; eauto.
Qed.

Theorem reachable_Inv progs sched : Inv (run sched (ginit progs)).
Proof. apply run_Inv. constructor; [apply InvL_init; exact table|apply InvC_init|apply InvH_init]. Qed.

(** ---------- consequences at quiescence ---------- *)
Lemma quiescent_no_inflight s : quiescent s -> flat_map inflight (thr s) = [].
Proof.
  unfold quiescent. intros Q. induction (thr s) as [|th l IH]; [reflexivity|]. cbn.
  rewrite IH by (intros t th' H; apply (Q (S t) th'); exact H).
  unfold inflight. rewrite (Q 0%nat th eq_refl). reflexivity.
Qed.

Lemma quiescent_cells s : Inv s -> quiescent s -> cells s = sigma s.
Proof.
  intros I Q. apply kb_eta.
  - destruct (c_2 _ (inv_C _ I) 0%nat) as [A|(t & th & o & inv & lin & r & loc & todo & held & H & E & _)]; [exact A|]. rewrite (Q _ _ H) in E. discriminate.
  - destruct (c_2 _ (inv_C _ I) 1%nat) as [A|(t & th & o & inv & lin & r & loc & todo & held & H & E & _)]; [exact A|]. rewrite (Q _ _ H) in E. discriminate.
  - destruct (c_2 _ (inv_C _ I) 2%nat) as [A|(t & th & o & inv & lin & r & loc & todo & held & H & E & _)]; [exact A|]. rewrite (Q _ _ H) in E. discriminate.
Qed.

Lemma replay_of_Replays : forall l k sk k', Sim k sk -> Replays k (map hkey l) k' -> replay sk (map to_cevent l) = true.
Proof.
  induction l as [|h l IH]; intros k sk k' S R; [reflexivity|].
  destruct h as [ho hr hi hl hp]. cbn [map hkey h_op h_res h_lin] in R.
  inversion R as [|k0 o z rest k1 R' E0 E1 E2]; subst. clear R.
  cbn [map to_cevent replay c_op c_res h_op h_res].
  destruct (step_sim k sk ho S) as [S' Er]. destruct (sstep sk ho) as [sk' sr] eqn:Es. cbn [fst snd] in *.
  rewrite <- Er. rewrite sx_eqb_refl'. cbn [andb]. eapply IH; [exact S'|exact R'].
Qed.

Lemma rt_of_sorted : forall l, Forall (fun h => h_inv h < h_lin h < h_resp h) l ->
  StronglySorted (fun a b : op * res * Z => snd a < snd b) (map hkey l) -> rt (map to_cevent l) = true.
Proof.
  induction l as [|h l IH]; intros F S; cbn [map rt]; [reflexivity|].
  inversion F as [|? ? Fh Fl]; subst. inversion S as [|? ? Sl Sh]; subst.
  rewrite (IH Fl Sl), andb_true_r. unfold minimal. cbn [forallb]. apply andb_true_intro. split.
  - cbn. destruct (Z.ltb_spec (h_resp h) (h_inv h)); [lia|reflexivity].
  - apply forallb_forall. intros f Hf. apply in_map_iff in Hf as (g & E & Hg). subst f. cbn.
    rewrite Forall_forall in Fl, Sh. specialize (Fl g Hg). specialize (Sh (hkey g) (in_map hkey _ _ Hg)). cbn in Sh.
    destruct (Z.ltb_spec (h_resp g) (h_inv h)); [lia|reflexivity].
Qed.

(** THE THEOREM: whatever the programs and the schedule, when no operation is in flight the completed operations - with the
    results the threads actually computed from the shared cells - form a linearizable history of the sequential
    specification, and the shared cells hold exactly the state that linearization leaves. *)
Theorem conc_linearizable progs sched :
  let s := run sched (ginit progs) in
  quiescent s ->
  linearizable sinit (map to_cevent (hist s)) /\ cells s = sigma s /\
  exists order, Permutation order (hist s) /\ Replays init (map hkey order) (cells s).
Proof.
  intros s Q. pose proof (reachable_Inv progs sched) as I. fold s in I.
  pose proof (h_perm _ (inv_H _ I)) as P. rewrite (quiescent_no_inflight _ Q), app_nil_r in P.
  destruct (Permutation_map_inv _ _ P) as (order & E & Po).
  pose proof (quiescent_cells _ I Q) as Ec.
  split; [|split; [exact Ec|]].
  - exists (map to_cevent order). split; [apply Permutation_map; symmetry; exact Po|]. split.
    + apply rt_of_sorted.
      * eapply Permutation_Forall; [exact Po|apply (h_hist _ (inv_H _ I))].
      * rewrite <- E. apply (h_sorted _ (inv_H _ I)).
    + eapply replay_of_Replays; [apply Sim_init|]. rewrite <- E. apply (h_replay _ (inv_H _ I)).
  - exists order. split; [symmetry; exact Po|]. rewrite <- E, Ec. apply (h_replay _ (inv_H _ I)).
Qed.

End Conc.
