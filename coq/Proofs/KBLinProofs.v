(** C15 — the linearizability checker KB.lin (the monitor applied to concurrent histories of the real KnowledgeBase) decides
    linearizability: it answers true exactly when the events can be arranged in a sequence that respects real time (no event
    is placed before one that responded before it was invoked) and in which the sequential specification returns every
    event's observed result. *)
From RRE Require Import Base.Sx Model.KB.
From Coq Require Import Lia Permutation.
Open Scope Z_scope.

(** replay of a candidate linearisation against the sequential specification *)
Fixpoint replay (k : skb) (s : list cevent) : bool :=
  match s with
  | [] => true
  | e :: r => let '(k', res) := sstep k (c_op e) in sx_eqb (enc_res res) (c_res e) && replay k' r
  end.
(** real-time order: nothing placed after e responded before e was invoked (and e itself is well formed) *)
Fixpoint rt (s : list cevent) : bool :=
  match s with [] => true | e :: r => minimal e (e :: r) && rt r end.

Definition linearizable (k : skb) (p : list cevent) : Prop := exists s, Permutation s p /\ rt s = true /\ replay k s = true.

(** the inner loop of [lin], named *)
Fixpoint try_ (linf : skb -> list cevent -> bool) (k : skb) (pending : list cevent) (i : nat) (cands : list cevent) : bool :=
  match cands with
  | [] => false
  | e :: rest =>
      (minimal e pending &&
       (let '(k', r) := sstep k (c_op e) in
        sx_eqb (enc_res r) (c_res e) && linf k' (remove_at i pending)))
      || try_ linf k pending (S i) rest
  end.
Lemma lin_S f k e p : lin (S f) k (e :: p) = try_ (lin f) k (e :: p) O (e :: p).
Proof.
  set (pend := e :: p).
  assert (G : forall cands i,
    (fix try (i : nat) (cands : list cevent) : bool :=
        match cands with
        | [] => false
        | e1 :: rest =>
            (minimal e1 pend &&
             (let '(k', r) := sstep k (c_op e1) in
              sx_eqb (enc_res r) (c_res e1) && lin f k' (remove_at i pend)))
            || try (S i) rest
        end) i cands = try_ (lin f) k pend i cands).
  { induction cands as [|c rest IH]; intros i; [reflexivity|]. cbn [try_]. rewrite <- IH. reflexivity. }
  rewrite <- G. reflexivity.
Qed.

Lemma minimal_perm e p q : Permutation p q -> minimal e p = minimal e q.
Proof.
  intros H. unfold minimal. induction H as [|x l l' H IH|x y l|l l' l'' H1 IH1 H2 IH2]; cbn [forallb]; [reflexivity|rewrite IH; reflexivity| |congruence].
  rewrite !andb_assoc. rewrite (andb_comm (negb (c_resp y <? c_inv e))). reflexivity.
Qed.

Lemma remove_at_perm {T} : forall i (l : list T) x, nth_error l i = Some x -> Permutation (x :: remove_at i l) l.
Proof.
  induction i as [|i IH]; intros l x H; destruct l as [|y l]; try discriminate; cbn [nth_error remove_at] in *.
  - inversion H; subst. reflexivity.
  - etransitivity; [apply perm_swap|]. constructor. apply IH. exact H.
Qed.
Lemma remove_at_length {T} : forall i (l : list T) x, nth_error l i = Some x -> S (length (remove_at i l)) = length l.
Proof. intros i l x H. pose proof (Permutation_length (remove_at_perm i l x H)) as E. cbn [length] in E. exact E. Qed.

(** the loop succeeds iff some candidate at position >= i works *)
Lemma try_spec linf k pending : forall cands i,
  try_ linf k pending i cands = true <->
  exists j e, nth_error cands j = Some e /\ minimal e pending = true /\
              sx_eqb (enc_res (snd (sstep k (c_op e)))) (c_res e) = true /\ linf (fst (sstep k (c_op e))) (remove_at (i + j) pending) = true.
Proof.
  induction cands as [|c rest IH]; intros i; cbn [try_].
  - split; [discriminate|intros (j & e & H & _); destruct j; discriminate].
  - rewrite orb_true_iff, IH. destruct (sstep k (c_op c)) as [k' r] eqn:E. split.
    + intros [H|(j & e & H1 & H2 & H3 & H4)].
      * apply andb_true_iff in H. destruct H as [Hm H]. apply andb_true_iff in H. destruct H as [Hr Hl].
        exists O, c. rewrite E. cbn [nth_error fst snd]. rewrite Nat.add_0_r. auto.
      * exists (S j), e. cbn [nth_error]. replace (i + S j)%nat with (S i + j)%nat by lia. auto.
    + intros (j & e & H1 & H2 & H3 & H4). destruct j as [|j]; cbn [nth_error] in H1.
      * inversion H1; subst e. rewrite E in H3, H4. cbn [fst snd] in *. rewrite Nat.add_0_r in H4. left. rewrite H2, H3, H4. reflexivity.
      * right. exists j, e. replace (S i + j)%nat with (i + S j)%nat by lia. auto.
Qed.

Theorem lin_sound : forall fuel k p, lin fuel k p = true -> linearizable k p.
Proof.
  induction fuel as [|f IH]; intros k p H.
  - destruct p; [exists []; repeat split; constructor|discriminate].
  - destruct p as [|e0 p0]; [exists []; repeat split; constructor|].
    rewrite lin_S in H. apply try_spec in H. destruct H as (j & e & Hn & Hm & Hr & Hl). cbn [Nat.add] in Hl.
    destruct (IH _ _ Hl) as (s & Hp & Hrt & Hrep).
    pose proof (remove_at_perm j (e0 :: p0) e Hn) as Pe.
    exists (e :: s). split; [etransitivity; [constructor; exact Hp|exact Pe]|]. split.
    + cbn [rt]. rewrite Hrt, andb_true_r. rewrite (minimal_perm e (e :: s) (e0 :: p0)); [exact Hm|]. etransitivity; [constructor; exact Hp|exact Pe].
    + cbn [replay]. destruct (sstep k (c_op e)) as [k' r]. cbn [fst snd] in *. rewrite Hr, Hrep. reflexivity.
Qed.

Lemma perm_nth {T} (x : T) s p : Permutation (x :: s) p -> exists j, nth_error p j = Some x.
Proof. intros H. apply (In_nth_error p x). eapply Permutation_in; [exact H|left; reflexivity]. Qed.

Theorem lin_complete : forall fuel k p, (length p <= fuel)%nat -> linearizable k p -> lin fuel k p = true.
Proof.
  induction fuel as [|f IH]; intros k p Hl (s & Hp & Hrt & Hrep).
  - destruct p; [reflexivity|cbn in Hl; lia].
  - destruct p as [|e0 p0]; [reflexivity|]. rewrite lin_S. apply try_spec.
    destruct s as [|e s]; [apply Permutation_length in Hp; discriminate|].
    destruct (perm_nth e s _ Hp) as (j & Hn). exists j, e. cbn [Nat.add]. split; [exact Hn|].
    cbn [rt] in Hrt. apply andb_true_iff in Hrt. destruct Hrt as [Hm Hrt].
    cbn [replay] in Hrep. destruct (sstep k (c_op e)) as [k' r]. apply andb_true_iff in Hrep. destruct Hrep as [Hr Hrep]. cbn [fst snd].
    split; [rewrite <- (minimal_perm e _ _ Hp); exact Hm|]. split; [exact Hr|].
    pose proof (remove_at_perm j (e0 :: p0) e Hn) as Pe.
    apply IH.
    + pose proof (remove_at_length j (e0 :: p0) e Hn). cbn [length] in *. lia.
    + exists s. split; [|auto]. apply (Permutation_cons_inv (a := e)). etransitivity; [exact Hp|symmetry; exact Pe].
Qed.

Theorem lin_decides k p : lin (length p) k p = true <-> linearizable k p.
Proof. split; [apply lin_sound|apply lin_complete; lia]. Qed.
