(** C09 — a goal the depth-first search proves is true in the forward closure: every set of atoms that
    contains the initial facts and is closed under the rules contains an atom that satisfies the goal.  Proofs. *)
From RRE Require Import Base.Sx Base.Float Base.Num Model.ExprShape Model.Forward Model.ForwardSpec Model.Backward Proofs.BackwardProofs.
From Coq Require Import Lia.
Open Scope Z_scope.

(** ---------- flat stores: no object values, so a lookup is a lookup of the exact key ---------- *)
Lemma split_dot_nonempty : forall s cur, split_dot s cur <> [].
Proof. induction s as [|c s IH]; intros cur; cbn [split_dot]; [discriminate|]. destruct (c =? 46); [discriminate|apply IH]. Qed.

Lemma split_dot_single : forall s cur x, split_dot s cur = [x] -> x = rev cur ++ s.
Proof.
  induction s as [|c s IH]; intros cur x H; cbn [split_dot] in H.
  - inversion H. rewrite app_nil_r. reflexivity.
  - destruct (c =? 46).
    + inversion H as [[E1 E2]]. exfalso. exact (split_dot_nonempty s [] E2).
    + rewrite (IH (c :: cur) x H). cbn [rev]. rewrite <- app_assoc. reflexivity.
Qed.

Lemma descend_scalar v ps : scalar v -> ps <> [] -> descend v ps = None.
Proof. intros Hs Hp. destruct ps as [|p rest]; [contradiction|]. cbn [descend]. destruct v; try reflexivity. contradiction. Qed.

Lemma flat_get_nested f k : flat f -> get_nested f k = None \/ get_nested f k = fget f k.
Proof.
  intros Hf. unfold get_nested, parts_of. destruct (split_dot k []) as [|root rest] eqn:P; [left; reflexivity|].
  destruct rest as [|r2 rest].
  - apply split_dot_single in P. cbn [rev app] in P. subst root. right. destruct (fget f k); reflexivity.
  - destruct (fget f root) as [v|] eqn:G; [|left; reflexivity].
    left. apply descend_scalar; [exact (Hf root v G)|discriminate].
Qed.

Lemma flat_blookup f k : flat f -> blookup f k = fget f k.
Proof. intros Hf. unfold blookup. destruct (flat_get_nested f k Hf) as [E|E]; rewrite E; [reflexivity|destruct (fget f k); reflexivity]. Qed.

Lemma str_eqb_refl s : str_eqb s s = true.
Proof. induction s as [|c s IH]; cbn; [reflexivity|]. rewrite Z.eqb_refl. exact IH. Qed.
Lemma str_eqb_eq a : forall b, str_eqb a b = true -> a = b.
Proof.
  induction a as [|x a IH]; intros [|y b] H; cbn in H; try discriminate; [reflexivity|].
  apply andb_true_iff in H. destruct H as [H1 H2]. apply Z.eqb_eq in H1. subst. f_equal. apply IH. exact H2.
Qed.

Lemma str_eqb_sym a : forall b, str_eqb a b = str_eqb b a.
Proof. induction a as [|x a IH]; intros [|y b]; cbn; try reflexivity. rewrite Z.eqb_sym, IH. reflexivity. Qed.

Lemma fget_fset f k v q : fget (fset f k v) q = if str_eqb k q then Some v else fget f q.
Proof.
  induction f as [|[k0 v0] f IH]; cbn [fset fget]; [reflexivity|].
  destruct (str_eqb k0 k) eqn:E; cbn [fget].
  - apply str_eqb_eq in E. subst k0. destruct (str_eqb k q); reflexivity.
  - destruct (str_eqb k0 q) eqn:E'; [|exact IH].
    apply str_eqb_eq in E'. subst k0. rewrite str_eqb_sym in E. rewrite E. reflexivity.
Qed.

Lemma flat_fset f k v : flat f -> scalar v -> flat (fset f k v).
Proof. intros Hf Hv k' v' H. rewrite fget_fset in H. destruct (str_eqb k k'); [inversion H; subst; exact Hv|exact (Hf k' v' H)]. Qed.

(** ---------- closed sets of atoms ---------- *)
Lemma bholds_D D f c : covers D f -> positive_op (b_op c) = true -> bholds f c = true -> holdsD D c.
Proof.
  intros [Hf Hc] Hp H. unfold bholds in H. rewrite (flat_blookup f _ Hf) in H.
  destruct (fget f (b_field c)) as [v|] eqn:G; [exists v; split; [apply Hc; exact G|exact H]|].
  destruct (b_op c); try discriminate.
Qed.

Lemma gholds_D D f : covers D f -> forall g, positive g = true -> gholds f g = true -> gholdsD D g.
Proof.
  intros Hc. induction g as [c|a IHa b IHb|a IHa b IHb]; cbn [positive gholds gholdsD]; intros Hp H.
  - eapply bholds_D; eassumption.
  - apply andb_true_iff in Hp, H. destruct Hp, H. split; auto.
  - apply andb_true_iff in Hp. destruct Hp. apply orb_true_iff in H. destruct H; [left|right]; auto.
Qed.

Lemma bexec_covers D f sets : covers D f -> (forall kv, In kv sets -> In kv D /\ scalar (snd kv)) ->
  covers D (fold_left (fun f kv => fset f (fst kv) (snd kv)) sets f).
Proof.
  revert f. induction sets as [|[k v] sets IH]; intros f Hc Hs; cbn [fold_left]; [exact Hc|].
  apply IH; [|intros kv Hin; apply Hs; right; exact Hin].
  destruct Hc as [Hf Hc]. destruct (Hs (k, v) (or_introl eq_refl)) as [HinD Hsc]. cbn [fst snd] in *. split.
  - apply flat_fset; assumption.
  - intros k' v' H. rewrite fget_fset in H. destruct (str_eqb k k') eqn:E; [|apply Hc; exact H].
    apply str_eqb_eq in E. subst k'. inversion H; subst. exact HinD.
Qed.

Lemma goal_holds_sat f g : goal_holds f g = goal_sat (blookup f (b_field g)) g.
Proof.
  unfold goal_holds, goal_sat, bholds.
  destruct (b_val g) as [s|n|z|bb|l|o| |e] eqn:V; try reflexivity.
  destruct (blookup f (b_field g)) as [[vs|vn|vz|vb|vl|vo| |ve]|] eqn:B; try (rewrite B; reflexivity).
  destruct (is_whole_small n); cbn [b_field b_op b_val]; rewrite B; reflexivity.
Qed.

Section Closed.
Variable rules : list brule.
Variable max_depth : Z.
Variable D : atoms.
Hypothesis Hhorn : horn rules.
Hypothesis Hclosed : closedD rules D.

Lemma try_exec_covers f r f' : In r rules -> covers D f -> try_exec f r = Some f' -> covers D f'.
Proof.
  intros Hin Hc H. unfold try_exec in H. destruct (gholds f (br_cond r)) eqn:G; [|discriminate]. inversion H; subst f'.
  destruct (Hhorn r Hin) as [Hp Hs]. unfold bexec. apply bexec_covers; [exact Hc|].
  intros kv Hk. split; [|apply Hs; exact Hk]. apply (Hclosed r Hin); [|exact Hk]. eapply gholds_D; eassumption.
Qed.

Lemma try_cands_covers provef goal depth f :
  (forall g d f0 b f1, covers D f0 -> provef g d f0 = (b, f1) -> covers D f1) ->
  forall cs, (forall r, In r cs -> In r rules) -> covers D f -> forall b f', try_cands provef goal depth f cs = (b, f') -> covers D f'.
Proof.
  intros Hp. induction cs as [|r rest IH]; intros Hsub Hc b f' H; cbn [try_cands] in H; [inversion H; subst; exact Hc|].
  assert (Hr : In r rules) by (apply Hsub; left; reflexivity).
  assert (Hrest : forall r0, In r0 rest -> In r0 rules) by (intros r0 H0; apply Hsub; right; exact H0).
  destruct (try_exec f r) as [f1|] eqn:E1.
  - destruct (goal_holds f1 goal); [inversion H; subst; eapply try_exec_covers; eassumption|eapply IH; eassumption].
  - destruct (provef (br_cond r) (depth + 1) f) as [[|] f2] eqn:P; [|eapply IH; eassumption].
    destruct (try_exec f2 r) as [f3|] eqn:E3; [|eapply IH; eassumption].
    destruct (goal_holds f3 goal); [|eapply IH; eassumption].
    inversion H; subst. eapply try_exec_covers; [exact Hr| |exact E3]. eapply Hp; [exact Hc|exact P].
Qed.

Lemma filter_sub {T} (p : T -> bool) l : forall x, In x (filter p l) -> In x l.
Proof. intros x H. apply filter_In in H. tauto. Qed.

Lemma search_prove_covers : forall fuel,
  (forall goal cands depth f b f', (forall r, In r cands -> In r rules) -> covers D f ->
     search rules max_depth fuel goal cands depth f = (b, f') -> covers D f')
  /\ (forall g depth f b f', covers D f -> prove rules max_depth fuel g depth f = (b, f') -> covers D f').
Proof.
  induction fuel as [|fu [IHs IHp]]; split.
  - intros goal cands depth f b f' _ Hc H. inversion H; subst. exact Hc.
  - intros g depth f b f' Hc H. inversion H; subst. exact Hc.
  - intros goal cands depth f b f' Hsub Hc H. rewrite search_S in H.
    destruct (max_depth <? depth); [inversion H; subst; exact Hc|].
    destruct (goal_holds f goal); [inversion H; subst; exact Hc|].
    eapply try_cands_covers; [|exact Hsub|exact Hc|exact H].
    intros g d f0 b0 f1 Hc0 P. eapply IHp; eassumption.
  - intros g depth f b f' Hc H. change (prove rules max_depth (S fu) g depth f) with
      (match g with
       | BSingle c => if bholds f c then (true, f) else search rules max_depth fu (subgoal_of c) (sub_candidates rules c) depth f
       | BAnd a b0 => match prove rules max_depth fu a depth f with (true, f1) => prove rules max_depth fu b0 depth f1 | (false, f1) => (false, f1) end
       | BOr a b0 => match prove rules max_depth fu a depth f with (true, f1) => (true, f1) | (false, f1) => prove rules max_depth fu b0 depth f1 end
       end) in H.
    destruct g as [c|a b0|a b0].
    + destruct (bholds f c); [inversion H; subst; exact Hc|]. eapply IHs; [|exact Hc|exact H].
      intros r Hr. unfold sub_candidates in Hr. eapply filter_sub. exact Hr.
    + destruct (prove rules max_depth fu a depth f) as [[|] f1] eqn:P1.
      * eapply IHp; [|exact H]. eapply IHp; eassumption.
      * inversion H; subst. eapply IHp; eassumption.
    + destruct (prove rules max_depth fu a depth f) as [[|] f1] eqn:P1.
      * inversion H; subst. eapply IHp; eassumption.
      * eapply IHp; [|exact H]. eapply IHp; eassumption.
Qed.

(** Whatever the search hands back is covered by every closed set of atoms that covers what it was given. *)
Theorem dfs_covers goal f b f' : covers D f -> dfs rules max_depth goal f = (b, f') -> covers D f'.
Proof.
  intros Hc H. unfold dfs in H. destruct (search_prove_covers (fuel_for rules max_depth)) as [Hs _].
  eapply Hs; [|exact Hc|exact H]. intros r Hr. unfold root_candidates in Hr.
  destruct (filter _ rules) eqn:F in Hr; [eapply filter_sub; exact Hr|]. rewrite <- F in Hr. eapply filter_sub. exact Hr.
Qed.

(** Soundness with respect to the forward closure: a goal reported provable is satisfied by an atom of D
    (or it is a comparison that holds of an absent field, i.e. `!=`). *)
Theorem dfs_goal_in_closed goal f f' : covers D f -> dfs rules max_depth goal f = (true, f') ->
  (exists v, In (b_field goal, v) D /\ goal_sat (Some v) goal = true) \/ goal_sat None goal = true.
Proof.
  intros Hc H. pose proof (dfs_covers goal f true f' Hc H) as [Hf' Hc']. pose proof (dfs_sound rules max_depth goal f f' H) as G.
  rewrite goal_holds_sat in G. rewrite (flat_blookup f' _ Hf') in G.
  destruct (fget f' (b_field goal)) as [v|] eqn:E; [left; exists v; split; [apply Hc'; exact E|exact G]|right; exact G].
Qed.
End Closed.
