(** C10 (store part) — the undo-frame model refines the snapshot-stack specification. *)
From RRE Require Import Base.Sx Model.Undo.
From Coq Require Import Lia.
Open Scope N_scope.

(** * finite-map lemmas *)
Section Maps.
Context {V : Type}.
Implicit Types s : list (N * V).

Lemma lookup_remove_same s k : lookup (remove_k s k) k = None.
Proof.
  induction s as [|[k' v] s IH]; cbn; [reflexivity|].
  destruct (N.eqb k' k) eqn:E; [exact IH|]. cbn. rewrite E. exact IH.
Qed.

Lemma lookup_remove_other s k k' : k <> k' -> lookup (remove_k s k) k' = lookup s k'.
Proof.
  intros Hne. induction s as [|[k0 v] s IH]; cbn; [reflexivity|].
  destruct (N.eqb k0 k) eqn:E.
  - apply N.eqb_eq in E. subst k0.
    destruct (N.eqb k k') eqn:E2; [apply N.eqb_eq in E2; contradiction|]. exact IH.
  - cbn. destruct (N.eqb k0 k'); [reflexivity|exact IH].
Qed.

Lemma lookup_set_same s k v : lookup (set_k s k v) k = Some v.
Proof. unfold set_k. cbn. rewrite N.eqb_refl. reflexivity. Qed.

Lemma lookup_set_other s k k' v : k <> k' -> lookup (set_k s k v) k' = lookup s k'.
Proof.
  intros Hne. unfold set_k. cbn.
  destruct (N.eqb k k') eqn:E; [apply N.eqb_eq in E; contradiction|].
  apply lookup_remove_other. exact Hne.
Qed.

Lemma lookup_put_same s k o : lookup (put_opt s k o) k = o.
Proof. destruct o; cbn [put_opt]; [apply lookup_set_same|apply lookup_remove_same]. Qed.

Lemma lookup_put_other s k k' o : k <> k' -> lookup (put_opt s k o) k' = lookup s k'.
Proof. intros H. destruct o; cbn [put_opt]; [apply lookup_set_other|apply lookup_remove_other]; exact H. Qed.
End Maps.

Definition seq {V} (a b : list (N * V)) : Prop := forall k, lookup a k = lookup b k.
Definition peq (a b : store * tstore) : Prop := seq (fst a) (fst b) /\ seq (snd a) (snd b).

Lemma peq_refl a : peq a a. Proof. split; intro; reflexivity. Qed.
Lemma peq_sym a b : peq a b -> peq b a. Proof. intros [H1 H2]. split; intro k; symmetry; auto. Qed.
Lemma peq_trans a b c : peq a b -> peq b c -> peq a c.
Proof. intros [H1 H2] [H3 H4]. split; intro k; [rewrite H1; apply H3|rewrite H2; apply H4]. Qed.

(** * replaying a frame *)
Definition find_e (fr : list entry) (k : N) : option entry := find (fun e => N.eqb (e_key e) k) fr.

Definition restore (fr : list entry) (dt : store * tstore) : store * tstore :=
  fold_left restore_entry (rev fr) dt.

Lemma restore_lookup fr : forall dt k,
  lookup (fst (restore fr dt)) k = match find_e fr k with Some e => e_val e | None => lookup (fst dt) k end
  /\ lookup (snd (restore fr dt)) k = match find_e fr k with Some e => e_ty e | None => lookup (snd dt) k end.
Proof.
  unfold restore. induction fr as [|e fr IH]; intros dt k; cbn [rev find_e find]; [cbn; auto|].
  rewrite fold_left_app. cbn [fold_left].
  set (mid := fold_left restore_entry (rev fr) dt).
  destruct (IH dt k) as [I1 I2]. fold mid in I1, I2.
  unfold restore_entry. cbn [fst snd].
  destruct (N.eqb (e_key e) k) eqn:E.
  - apply N.eqb_eq in E. subst k. rewrite !lookup_put_same. auto.
  - assert (Hne : e_key e <> k) by (intro; subst; rewrite N.eqb_refl in E; discriminate).
    rewrite !lookup_put_other by exact Hne. unfold find_e in I1, I2. auto.
Qed.

Lemma restore_peq fr a b : peq a b -> peq (restore fr a) (restore fr b).
Proof.
  intros [H1 H2]. split; intro k.
  - destruct (restore_lookup fr a k) as [-> _]. destruct (restore_lookup fr b k) as [-> _].
    destruct (find_e fr k); auto.
  - destruct (restore_lookup fr a k) as [_ ->]. destruct (restore_lookup fr b k) as [_ ->].
    destruct (find_e fr k); auto.
Qed.

(** * the simulation relation *)
Fixpoint Chain (frs : list (list entry)) (Ss : list (store * tstore)) (cur : store * tstore) : Prop :=
  match frs, Ss with
  | [], [] => True
  | fr :: frs', Sn :: Ss' => peq (restore fr cur) Sn /\ Chain frs' Ss' Sn
  | _, _ => False
  end.

Lemma Chain_peq frs Ss a b : peq a b -> Chain frs Ss a -> Chain frs Ss b.
Proof.
  destruct frs as [|fr frs], Ss as [|Sn Ss]; cbn; auto.
  intros Hab [H1 H2]. split; [|exact H2].
  eapply peq_trans; [apply restore_peq; apply peq_sym; exact Hab|exact H1].
Qed.

Definition Rel (f : facts) (sf : sfacts) : Prop :=
  peq (data f, types f) (sdata sf, stypes sf) /\ Chain (frames f) (snaps sf) (data f, types f).

Lemma find_e_app_other fr e k : e_key e <> k -> find_e (fr ++ [e]) k = find_e fr k.
Proof.
  intros Hne. unfold find_e. induction fr as [|x fr IH]; cbn.
  - destruct (N.eqb (e_key e) k) eqn:E; [apply N.eqb_eq in E; contradiction|reflexivity].
  - destruct (N.eqb (e_key x) k); [reflexivity|exact IH].
Qed.

Lemma find_e_app_new fr e : has_key fr (e_key e) = false -> find_e (fr ++ [e]) (e_key e) = Some e.
Proof.
  unfold find_e, has_key. induction fr as [|x fr IH]; cbn.
  - rewrite N.eqb_refl. reflexivity.
  - destruct (N.eqb (e_key x) (e_key e)); cbn; [discriminate|exact IH].
Qed.

Lemma has_key_find fr k : has_key fr k = true -> exists e, find_e fr k = Some e.
Proof.
  unfold has_key, find_e. induction fr as [|x fr IH]; cbn; [discriminate|].
  destruct (N.eqb (e_key x) k); cbn; [eauto|exact IH].
Qed.

Lemma has_key_false_find fr k : has_key fr k = false -> find_e fr k = None.
Proof.
  unfold has_key, find_e. induction fr as [|x fr IH]; cbn; [reflexivity|].
  destruct (N.eqb (e_key x) k); cbn; [discriminate|exact IH].
Qed.

(** record k, then change the store at key k only: the chain is preserved *)
Lemma record_modify f Ss k d' t' :
  Chain (frames f) Ss (data f, types f) ->
  (forall k', k <> k' -> lookup d' k' = lookup (data f) k') ->
  (forall k', k <> k' -> lookup t' k' = lookup (types f) k') ->
  Chain (frames (record f k)) Ss (d', t').
Proof.
  intros HC Hd Ht. unfold record.
  destruct (frames f) as [|top rest] eqn:Ef; [cbn in *; rewrite Ef; exact HC|].
  destruct Ss as [|Sn Ss]; [cbn in HC; contradiction|]. cbn in HC. destruct HC as [H1 H2].
  assert (Goal : forall top', (forall k', find_e top' k' =
                       if N.eqb k k' then
                         (if has_key top k then find_e top k
                          else Some {| e_key := k; e_val := lookup (data f) k; e_ty := lookup (types f) k |})
                       else find_e top k') ->
                 peq (restore top' (d', t')) Sn).
  { intros top' Hf. eapply peq_trans; [|exact H1]. split; intro k'.
    - destruct (restore_lookup top' (d', t') k') as [-> _].
      destruct (restore_lookup top (data f, types f) k') as [-> _].
      rewrite Hf. cbn [fst].
      destruct (N.eqb k k') eqn:E.
      + apply N.eqb_eq in E. subst k'.
        destruct (has_key top k) eqn:Hk.
        * destruct (has_key_find top k Hk) as [e He]. rewrite He. reflexivity.
        * rewrite (has_key_false_find top k Hk). reflexivity.
      + assert (k <> k') by (intro; subst; rewrite N.eqb_refl in E; discriminate).
        destruct (find_e top k'); [reflexivity|]. apply Hd. assumption.
    - destruct (restore_lookup top' (d', t') k') as [_ ->].
      destruct (restore_lookup top (data f, types f) k') as [_ ->].
      rewrite Hf. cbn [snd].
      destruct (N.eqb k k') eqn:E.
      + apply N.eqb_eq in E. subst k'.
        destruct (has_key top k) eqn:Hk.
        * destruct (has_key_find top k Hk) as [e He]. rewrite He. reflexivity.
        * rewrite (has_key_false_find top k Hk). reflexivity.
      + assert (k <> k') by (intro; subst; rewrite N.eqb_refl in E; discriminate).
        destruct (find_e top k'); [reflexivity|]. apply Ht. assumption. }
  destruct (has_key top k) eqn:Hk.
  - rewrite Ef. cbn. split; [|exact H2]. apply Goal. intros k'.
    destruct (N.eqb k k') eqn:E; [apply N.eqb_eq in E; subst; reflexivity|reflexivity].
  - cbn [frames]. cbn. split; [|exact H2]. apply Goal. intros k'.
    destruct (N.eqb k k') eqn:E.
    + apply N.eqb_eq in E. subst k'.
      apply (find_e_app_new top {| e_key := k; e_val := lookup (data f) k; e_ty := lookup (types f) k |}). exact Hk.
    + apply find_e_app_other. cbn. intro; subst. rewrite N.eqb_refl in E. discriminate.
Qed.

Lemma record_data f k : data (record f k) = data f /\ types (record f k) = types f.
Proof. unfold record. destruct (frames f) as [|top rest]; [auto|]. destruct (has_key top k); auto. Qed.

(** merging a committed frame into its parent *)
Definition merge (top parent : list entry) : list entry :=
  fold_left (fun p e => if has_key p (e_key e) then p else p ++ [e]) top parent.

Lemma find_e_merge top : forall parent k,
  find_e (merge top parent) k = match find_e parent k with Some e => Some e | None => find_e top k end.
Proof.
  unfold merge. induction top as [|e top IH]; intros parent k; cbn [fold_left].
  - destruct (find_e parent k); reflexivity.
  - rewrite IH. destruct (has_key parent (e_key e)) eqn:Hk.
    + destruct (find_e parent k) eqn:Fp; [reflexivity|].
      unfold find_e at 2. cbn [find]. destruct (N.eqb (e_key e) k) eqn:E; [|reflexivity].
      apply N.eqb_eq in E. subst k. destruct (has_key_find _ _ Hk) as [x Hx]. congruence.
    + destruct (N.eqb (e_key e) k) eqn:E.
      * apply N.eqb_eq in E. subst k. rewrite (find_e_app_new parent e Hk).
        rewrite (has_key_false_find _ _ Hk). unfold find_e. cbn [find]. rewrite N.eqb_refl. reflexivity.
      * assert (Hne : e_key e <> k) by (intro; subst; rewrite N.eqb_refl in E; discriminate).
        rewrite (find_e_app_other parent e k Hne).
        destruct (find_e parent k); [reflexivity|]. unfold find_e. cbn [find]. rewrite E. reflexivity.
Qed.

Lemma step_sim f sf o :
  Rel f sf ->
  Rel (fst (step f o)) (fst (sstep sf o)) /\ snd (step f o) = snd (sstep sf o).
Proof.
  intros [Hpe HC].
  destruct o as [| | |k v|k fld z|k].
  - (* Begin *) cbn. split; [|reflexivity]. split; [exact Hpe|]. cbn. split.
    + exact Hpe.
    + eapply Chain_peq in HC; [|exact Hpe]. exact HC.
  - (* Commit *) cbn [step sstep].
    destruct (frames f) as [|top [|parent rest]] eqn:Ef; cbn [fst snd].
    + split; [|reflexivity]. split; [exact Hpe|]. cbn [frames snaps]. rewrite Ef.
      destruct (snaps sf); cbn in HC |- *; [exact I|contradiction].
    + split; [|reflexivity]. split; [exact Hpe|]. cbn [frames snaps data types].
      destruct (snaps sf) as [|Sn [|S2 Ss]]; cbn in HC |- *; tauto.
    + split; [|reflexivity]. split; [exact Hpe|]. cbn [frames snaps data types].
      destruct (snaps sf) as [|Sn [|S2 Ss]]; cbn in HC; try tauto.
      destruct HC as [H1 [H2 H3]]. cbn. split; [|exact H3].
      fold (merge top parent).
      eapply peq_trans; [|exact H2]. split; intro k.
      * destruct (restore_lookup (merge top parent) (data f, types f) k) as [-> _].
        destruct (restore_lookup parent Sn k) as [-> _].
        rewrite find_e_merge. destruct (find_e parent k); [reflexivity|].
        destruct H1 as [H1 _]. rewrite <- (H1 k).
        destruct (restore_lookup top (data f, types f) k) as [-> _]. reflexivity.
      * destruct (restore_lookup (merge top parent) (data f, types f) k) as [_ ->].
        destruct (restore_lookup parent Sn k) as [_ ->].
        rewrite find_e_merge. destruct (find_e parent k); [reflexivity|].
        destruct H1 as [_ H1]. rewrite <- (H1 k).
        destruct (restore_lookup top (data f, types f) k) as [_ ->]. reflexivity.
  - (* Rollback *) cbn [step sstep].
    destruct (frames f) as [|top rest] eqn:Ef.
    + destruct (snaps sf) as [|Sn Ss] eqn:Es; [|cbn in HC; contradiction].
      cbn. split; [|reflexivity]. split; [exact Hpe|]. rewrite Ef, Es. exact I.
    + destruct (snaps sf) as [|[d t] Ss] eqn:Es; [cbn in HC; contradiction|].
      cbn in HC. destruct HC as [H1 H2].
      fold (restore top (data f, types f)).
      destruct (restore top (data f, types f)) as [d' t'] eqn:Er. cbn [fst snd].
      split; [|reflexivity]. split; [exact H1|]. cbn [frames snaps data types].
      eapply Chain_peq; [apply peq_sym; exact H1|exact H2].
  - (* SetV *) cbn [step sstep fst snd]. split; [|reflexivity].
    destruct (record_data f k) as [Ed Et]. rewrite Ed, Et.
    split.
    + destruct Hpe as [H1 H2]. split; cbn [fst snd data types sdata stypes]; [|exact H2].
      intro k'. destruct (N.eq_dec k k') as [->|Hne].
      * rewrite !lookup_set_same. reflexivity.
      * rewrite !lookup_set_other by exact Hne. apply H1.
    + cbn [frames data types snaps]. apply record_modify; [exact HC| |auto].
      intros k' Hne. apply lookup_set_other. exact Hne.
  - (* SetNested *) cbn [step sstep].
    destruct (record_data f k) as [Ed Et]. rewrite Ed.
    destruct Hpe as [H1 H2]. cbn [fst snd] in H1, H2.
    rewrite <- (H1 k).
    destruct (lookup (data f) k) as [[zz|fs]|] eqn:El; cbn [fst snd].
    + split; [|reflexivity]. split; [split; cbn [fst snd]; rewrite ?Ed, ?Et; assumption|].
      cbn [snaps]. rewrite Ed, Et. apply record_modify; auto.
    + split; [|reflexivity]. rewrite Et. split.
      * split; cbn [fst snd data types sdata stypes]; [|exact H2].
        intro k'. destruct (N.eq_dec k k') as [->|Hne].
        -- rewrite !lookup_set_same. reflexivity.
        -- rewrite !lookup_set_other by exact Hne. apply H1.
      * cbn [frames data types snaps]. apply record_modify; [exact HC| |auto].
        intros k' Hne. apply lookup_set_other. exact Hne.
    + split; [|reflexivity]. split; [split; cbn [fst snd]; rewrite ?Ed, ?Et; assumption|].
      cbn [snaps]. rewrite Ed, Et. apply record_modify; auto.
  - (* Remove *) cbn [step sstep fst snd]. split; [|reflexivity].
    destruct (record_data f k) as [Ed Et]. rewrite Ed, Et.
    destruct Hpe as [H1 H2]. cbn [fst snd] in H1, H2.
    split.
    + split; cbn [fst snd data types sdata stypes]; intro k'; (destruct (N.eq_dec k k') as [->|Hne];
        [rewrite !lookup_remove_same; reflexivity|rewrite !lookup_remove_other by exact Hne; auto]).
    + cbn [frames data types snaps]. apply record_modify; [exact HC| |];
        intros k' Hne; apply lookup_remove_other; exact Hne.
Qed.

Lemma Rel_init kv : Rel (init_of kv) (sinit_of kv).
Proof. split; [apply peq_refl|exact I]. Qed.

(** * observations coincide, for every operation sequence *)
Lemma observe_peq nk d t d' t' res : peq (d, t) (d', t') -> observe nk d t res = observe nk d' t' res.
Proof.
  intros [H1 H2]. cbn [fst snd] in *. unfold observe. do 4 f_equal.
  apply map_ext. intro k. rewrite (H1 k), (H2 k). reflexivity.
Qed.

Lemma run_refines nk ops : forall f sf, Rel f sf -> run_from nk f ops = srun_from nk sf ops.
Proof.
  induction ops as [|o ops IH]; intros f sf HR; cbn [run_from srun_from]; [reflexivity|].
  destruct (step_sim f sf o HR) as [HR' Hres].
  destruct (step f o) as [f' res]. destruct (sstep sf o) as [sf' sres]. cbn [fst snd] in *. subst sres.
  f_equal; [|apply IH; exact HR'].
  apply observe_peq. destruct HR' as [Hp _]. exact Hp.
Qed.

Lemma sx_eqb_refl : forall s, sx_eqb s s = true.
Proof.
  fix IH 1. intros [z|l]; cbn.
  - apply Z.eqb_refl.
  - induction l as [|x l IHl]; [reflexivity|]. rewrite IH. exact IHl.
Qed.

Theorem undo_refines_snapshots nk kv ops : run nk kv ops = srun nk kv ops.
Proof. apply run_refines. apply Rel_init. Qed.

Theorem ok_run nk kv ops : ok nk kv ops (run nk kv ops) = true.
Proof. unfold ok. rewrite undo_refines_snapshots. apply sx_eqb_refl. Qed.

(** * the property's sentence: rollback restores the store of the matching begin *)
Definition exec (f : facts) (ops : list op) : facts := fold_left (fun f o => fst (step f o)) ops f.
Definition sexec (f : sfacts) (ops : list op) : sfacts := fold_left (fun f o => fst (sstep f o)) ops f.

(** [stays d ops]: ops never close a frame below the d frames currently open above the marked
    one; result = number of frames open above it afterwards *)
Fixpoint stays (d : nat) (ops : list op) : option nat :=
  match ops with
  | [] => Some d
  | Begin :: r => stays (S d) r
  | (Commit | Rollback) :: r => match d with O => None | S d' => stays d' r end
  | _ :: r => stays d r
  end.

Lemma sexec_stays ops : forall sf pre base d',
  snaps sf = pre ++ base -> stays (length pre) ops = Some d' ->
  exists pre', snaps (sexec sf ops) = pre' ++ base /\ length pre' = d'.
Proof.
  induction ops as [|o ops IH]; intros sf pre base d' Hs Hst; cbn [stays sexec fold_left] in *.
  - inversion Hst; subst. eauto.
  - destruct o as [| | |k v|k fld z|k].
    + apply (IH _ ((sdata sf, stypes sf) :: pre) base d'); [cbn; rewrite Hs; reflexivity|exact Hst].
    + destruct pre as [|x pre]; [discriminate|]. apply (IH _ pre base d'); [cbn; rewrite Hs; reflexivity|exact Hst].
    + destruct pre as [|[xd xt] pre]; [discriminate|].
      apply (IH _ pre base d'); [cbn; rewrite Hs; reflexivity|exact Hst].
    + apply (IH _ pre base d'); [cbn; exact Hs|exact Hst].
    + apply (IH _ pre base d'); [|exact Hst]. cbn.
      destruct (lookup (sdata sf) k) as [[?|?]|]; cbn; exact Hs.
    + apply (IH _ pre base d'); [cbn; exact Hs|exact Hst].
Qed.

Lemma exec_sim ops : forall f sf, Rel f sf -> Rel (exec f ops) (sexec sf ops).
Proof.
  induction ops as [|o ops IH]; intros f sf HR; cbn; [exact HR|].
  apply IH. apply step_sim. exact HR.
Qed.

Theorem rollback_restores kv ops0 ops :
  stays 0 ops = Some 0%nat ->
  let f := exec (init_of kv) ops0 in
  let f' := exec f (Begin :: ops ++ [Rollback]) in
  seq (data f') (data f) /\ seq (types f') (types f).
Proof.
  intros Hst f f'.
  set (sf := sexec (sinit_of kv) ops0).
  assert (HR : Rel f sf) by (apply exec_sim; apply Rel_init).
  assert (HR' : Rel f' (sexec sf (Begin :: ops ++ [Rollback]))) by (apply exec_sim; exact HR).
  (* specification side: the snapshot taken at Begin is on top again before the Rollback *)
  unfold sexec in HR'. cbn [fold_left] in HR'. rewrite fold_left_app in HR'. cbn [fold_left] in HR'.
  set (s1 := fst (sstep sf Begin)) in HR'.
  destruct (sexec_stays ops s1 [] (snaps s1) 0%nat eq_refl Hst) as [pre' [Hsn Hlen]].
  destruct pre'; [|discriminate]. cbn [app] in Hsn.
  fold (sexec s1 ops) in HR'.
  assert (Hs1 : snaps s1 = (sdata sf, stypes sf) :: snaps sf) by reflexivity.
  unfold sstep at 1 in HR'. rewrite Hsn, Hs1 in HR'. cbn [fst] in HR'.
  destruct HR' as [[H1 H2] _]. cbn [fst snd sdata stypes] in H1, H2.
  destruct HR as [[G1 G2] _]. cbn [fst snd] in G1, G2.
  split; intro k; [rewrite H1, G1|rewrite H2, G2]; reflexivity.
Qed.
