(** C07 — over whole histories of the agenda operations: what get_next_activation returns is never a no-loop rule that
    was marked fired since the last reset, never a member of an activation group of which a member was marked fired since
    the last reset, and never a lock-on-active activation of an agenda group locked since the last reset. *)
From RRE Require Import Base.Sx Generated.Consts Model.ReteAgenda.
From Coq Require Import Lia.
Open Scope Z_scope.

Lemma memZ_In x l : memZ x l = true <-> In x l.
Proof.
  induction l as [|y l IH]; cbn [memZ In]; [split; [discriminate|intros []]|].
  rewrite orb_true_iff, IH, Z.eqb_eq. split; intros [H|H]; auto.
Qed.
Lemma addZ_In x y l : In x (addZ y l) <-> x = y \/ In x l.
Proof.
  unfold addZ. destruct (memZ y l) eqn:M.
  - apply memZ_In in M. split; [auto|intros [->|H]; assumption].
  - rewrite in_app_iff. cbn [In]. split; [intros [H|[H|[]]]; auto|intros [H|H]; auto].
Qed.

(** the flags are only written by mark_rule_fired and reset_fired_flags *)
Definition flags_eq (a b : agenda) : Prop := fired_rules a = fired_rules b /\ fired_agroups a = fired_agroups b /\ locked a = locked b.

Lemma pop_eligible_elig a : forall fuel heap m rest, pop_eligible fuel a heap = (Some m, rest) -> eligible a m = true.
Proof.
  induction fuel as [|fu IH]; intros heap m rest H; cbn [pop_eligible] in H; [discriminate|].
  destruct (pop_max heap) as [[x r]|]; [|discriminate]. destruct (eligible a x) eqn:E; [inversion H; subst; exact E|]. eapply IH. exact H.
Qed.

Lemma get_next_elig : forall n a a' m, get_next n a = (a', Some m) -> eligible a m = true /\ flags_eq a' a.
Proof.
  induction n as [|n IH]; intros a a' m H; cbn [get_next] in H; [discriminate|].
  destruct (grp_get (groups a) (focus a)) as [heap|].
  - destruct (pop_eligible (S (length heap)) a heap) as [r rest] eqn:PE. destruct r as [x|].
    + inversion H; subst. split; [eapply pop_eligible_elig; exact PE|repeat split].
    + cbn [stack] in H. destruct (rev (stack a)) as [|top rest']; [discriminate|].
      apply IH in H. destruct H as [He (F1 & F2 & F3)]. cbn [fired_rules fired_agroups locked] in *. split; [|repeat split; assumption].
      unfold eligible in *. cbn [fired_rules fired_agroups locked] in He. exact He.
  - destruct (rev (stack a)) as [|top rest']; [discriminate|].
    apply IH in H. destruct H as [He (F1 & F2 & F3)]. cbn [fired_rules fired_agroups locked] in *. split; [|repeat split; assumption].
    unfold eligible in *. cbn [fired_rules fired_agroups locked] in He. exact He.
Qed.
Lemma get_next_flags : forall n a, flags_eq (fst (get_next n a)) a.
Proof.
  induction n as [|n IH]; intros a; cbn [get_next]; [repeat split|].
  destruct (grp_get (groups a) (focus a)) as [heap|].
  - destruct (pop_eligible (S (length heap)) a heap) as [r rest]. destruct r as [x|]; [repeat split|].
    cbn [stack]. destruct (rev (stack a)) as [|top rest']; [repeat split|].
    match goal with |- flags_eq (fst (get_next n ?A)) _ => destruct (IH A) as (F1 & F2 & F3) end. repeat split; assumption.
  - destruct (rev (stack a)) as [|top rest']; [repeat split|].
    match goal with |- flags_eq (fst (get_next n ?A)) _ => destruct (IH A) as (F1 & F2 & F3) end. repeat split; assumption.
Qed.

(** what "not fired since the last reset" means for an activation about to be returned *)
Definition fresh (x : act) (marks : list act) : Prop :=
  (a_noloop x = true -> forall y, In y marks -> a_name y <> a_name x) /\
  (forall g, a_agroup x = Some g -> forall y, In y marks -> a_agroup y <> Some g) /\
  (a_lock x = true -> forall y, In y marks -> a_lock y = true -> a_group y <> a_group x).

(** [marks]: the activations marked fired since the last reset *)
Fixpoint hist_sound (st : agenda * option act) (marks : list act) (ops : list op) : Prop :=
  match ops with
  | [] => True
  | o :: r =>
      let st' := fst (step st o) in
      match o with
      | ONext => match snd st' with Some x => fresh x marks | None => True end /\ hist_sound st' marks r
      | OMark => hist_sound st' (match snd st with Some x => x :: marks | None => marks end) r
      | OReset => hist_sound st' [] r
      | _ => hist_sound st' marks r
      end
  end.

Record Track (a : agenda) (marks : list act) : Prop := {
  t_rules : forall n, In n (fired_rules a) <-> exists y, In y marks /\ a_name y = n;
  t_agroups : forall g, In g (fired_agroups a) <-> exists y, In y marks /\ a_agroup y = Some g;
  t_locked : forall g, In g (locked a) <-> exists y, In y marks /\ a_lock y = true /\ a_group y = g
}.
Lemma Track_flags a b marks : flags_eq b a -> Track a marks -> Track b marks.
Proof. intros (F1 & F2 & F3) [T1 T2 T3]. constructor; [rewrite F1; exact T1|rewrite F2; exact T2|rewrite F3; exact T3]. Qed.

Lemma elig_fresh a x marks : Track a marks -> eligible a x = true -> fresh x marks.
Proof.
  intros [T1 T2 T3] He. unfold eligible in He. apply andb_true_iff in He. destruct He as [He H3]. apply andb_true_iff in He. destruct He as [H1 H2].
  apply negb_true_iff in H1, H2, H3. split; [|split].
  - intros Hn y Hy E. rewrite Hn in H1. cbn [andb] in H1. assert (In (a_name x) (fired_rules a)) by (apply T1; exists y; auto). apply memZ_In in H. congruence.
  - intros g Hg y Hy E. rewrite Hg in H3. assert (In g (fired_agroups a)) by (apply T2; exists y; auto). apply memZ_In in H. congruence.
  - intros Hl y Hy Ly E. rewrite Hl in H2. cbn [andb] in H2. assert (In (a_group x) (locked a)) by (apply T3; exists y; auto). apply memZ_In in H. congruence.
Qed.

Lemma add_flags a x : flags_eq (add_activation a x) a.
Proof.
  unfold add_activation. set (a1 := if a_autofocus x && negb (a_group x =? focus a) then set_focus a (a_group x) else a).
  assert (F : flags_eq a1 a). { unfold a1. destruct (_ && _); [|repeat split]. unfold set_focus. destruct (_ =? _); repeat split. }
  destruct (a_agroup x) as [g|]; [destruct (memZ g (fired_agroups a1))|]; exact F.
Qed.

Theorem history_sound : forall ops st marks, Track (fst st) marks -> hist_sound st marks ops.
Proof.
  induction ops as [|o r IH]; intros [a last] marks T; [exact I|]. cbn [hist_sound fst] in *.
  destruct o as [x| | |g|]; cbn [step fst snd].
  - apply IH. cbn [fst]. eapply Track_flags; [apply add_flags|exact T].
  - destruct (get_next (S (length (stack a))) a) as [a' res] eqn:G. cbn [fst snd]. split.
    + destruct res as [x|]; [|exact I]. apply get_next_elig in G. destruct G as [He _]. eapply elig_fresh; eassumption.
    + apply IH. cbn [fst]. eapply Track_flags; [|exact T]. pose proof (get_next_flags (S (length (stack a))) a) as F. rewrite G in F. exact F.
  - destruct last as [x|]; cbn [fst snd]; apply IH; cbn [fst]; [|exact T].
    destruct T as [T1 T2 T3]. constructor; cbn [mark_fired fired_rules fired_agroups locked].
    + intros n. rewrite addZ_In, T1. split.
      * intros [->|(y & Hy & E)]; [exists x; split; [left; reflexivity|reflexivity]|exists y; split; [right; exact Hy|exact E]].
      * intros (y & [<-|Hy] & E); [left; symmetry; exact E|right; exists y; auto].
    + intros g. destruct (a_agroup x) as [gx|] eqn:Ex.
      * rewrite addZ_In, T2. split.
        -- intros [->|(y & Hy & E)]; [exists x; split; [left; reflexivity|exact Ex]|exists y; split; [right; exact Hy|exact E]].
        -- intros (y & [<-|Hy] & E); [left; congruence|right; exists y; auto].
      * rewrite T2. split; [intros (y & Hy & E); exists y; split; [right; exact Hy|exact E]|intros (y & [<-|Hy] & E); [congruence|exists y; auto]].
    + intros g. destruct (a_lock x) eqn:Lx.
      * rewrite addZ_In, T3. split.
        -- intros [->|(y & Hy & E)]; [exists x; split; [left; reflexivity|split; [exact Lx|reflexivity]]|exists y; split; [right; exact Hy|exact E]].
        -- intros (y & [<-|Hy] & E1 & E2); [left; symmetry; exact E2|right; exists y; auto].
      * rewrite T3. split; [intros (y & Hy & E); exists y; split; [right; exact Hy|exact E]|intros (y & [<-|Hy] & E1 & E2); [congruence|exists y; auto]].
  - apply IH. cbn [fst]. eapply Track_flags; [|exact T]. unfold set_focus. destruct (_ =? _); repeat split.
  - apply IH. cbn [fst]. constructor; cbn [reset_flags fired_rules fired_agroups locked]; intros k; (split; [intros []|intros (y & [] & _)]).
Qed.

Theorem agenda_histories_sound ops : hist_sound (init, None) [] ops.
Proof.
  apply history_sound. constructor; cbn; intros k; (split; [intros []|intros (y & [] & _)]).
Qed.
