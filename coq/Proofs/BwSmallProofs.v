(** C05 — the aggregate-query, nested-query and disjunction parsers (Model/BwSmall.v) never slice off a character boundary,
    never index a Vec<char> out of range and always terminate, for EVERY input text. *)
From RRE Require Import Base.Sx Model.ExprShape Model.BwSmall Proofs.ExprShapeProofs.
From Coq Require Import Lia.
Open Scope Z_scope.

(** str::find returns the byte offset of a decomposition of the text *)
Lemma find_from_spec p : forall s off i, find_from p s off = Some i ->
  exists a b, s = a ++ b /\ i = off + blen a /\ starts_with b p = true.
Proof.
  induction s as [|c s IH]; intros off i H; cbn [find_from] in H.
  - destruct (starts_with [] p) eqn:E; [|discriminate]. inversion H; subst. exists [], []. cbn. repeat split; [lia|exact E].
  - destruct (starts_with (c :: s) p) eqn:E.
    + inversion H; subst. exists [], (c :: s). cbn. repeat split; [lia|exact E].
    + destruct (IH _ _ H) as (a & b & E1 & E2 & E3). exists (c :: a), b. subst s. cbn. repeat split; [lia|exact E3].
Qed.

Lemma starts_with_app : forall p s, starts_with s p = true -> exists r, s = p ++ r.
Proof.
  induction p as [|x p IH]; intros s H; [exists s; reflexivity|].
  destruct s as [|y s]; [discriminate|]. cbn in H. apply andb_true_iff in H as [E H]. apply Z.eqb_eq in E. subst y.
  destruct (IH s H) as [r Er]. exists r. subst s. reflexivity.
Qed.

(** str::rfind(char) likewise *)
Lemma rfind_from_spec c : forall s off last i, rfind_from c s off last = Some i ->
  (last = Some i) \/ exists a b, s = a ++ c :: b /\ i = off + blen a.
Proof.
  induction s as [|x s IH]; intros off last i H; cbn [rfind_from] in H; [left; exact H|].
  destruct (IH _ _ _ H) as [E|(a & b & E1 & E2)].
  - destruct (x =? c) eqn:Ex; [|left; exact E]. inversion E; subst. apply Z.eqb_eq in Ex. subst x.
    right. exists [], s. cbn. split; [reflexivity|lia].
  - right. exists (x :: a), b. subst s. cbn. split; [reflexivity|lia].
Qed.

(** s[i..] to the end, at a boundary *)
Lemma slice_suffix a b : slice (a ++ b) (blen a) (blen (a ++ b)) = Some b.
Proof.
  pose proof (slice_app a b []) as H. rewrite app_nil_r in H. rewrite blen_app. exact H.
Qed.

(** ---------- aggregation.rs ---------- *)
Lemma parse_function_call_no_panic s : parse_function_call s <> inl AggPanic.
Proof.
  unfold parse_function_call. set (t := trimu s).
  destruct (find_sub [40] t) as [op|] eqn:F; [|discriminate].
  destruct (rfind_char 41 t) as [cl|] eqn:R; [|discriminate].
  destruct (cl <=? op) eqn:L; [discriminate|]. apply Z.leb_gt in L.
  unfold find_sub in F. destruct (find_from_spec _ _ _ _ F) as (a & b & E1 & E2 & E3).
  destruct (starts_with_app _ _ E3) as [r Er]. cbn [app] in Er. subst b.
  unfold rfind_char in R. destruct (rfind_from_spec _ _ _ _ _ R) as [E|(a' & b' & E1' & E2')]; [discriminate|].
  (* t = a ++ '(' :: r = a' ++ ')' :: b' with blen a < blen a': the closing parenthesis lies in r *)
  assert (Hop : op = blen a) by lia. assert (Hcl : cl = blen a') by lia. clear E2 E2'. subst op cl.
  assert (S1 : slice t 0 (blen a) = Some a).
  { rewrite E1. pose proof (slice_app [] a (40 :: r)) as H. cbn [app blen] in H. exact H. }
  rewrite S1.
  assert (Hsplit : exists m, a' = a ++ 40 :: m).
  { clear - E1 E1' L. rewrite E1 in E1'. clear E1. revert a' E1' L. induction a as [|x a IH]; intros a' E L.
    - cbn [app] in E. destruct a' as [|y a']; [cbn in L; lia|]. cbn [app] in E. inversion E; subst. exists a'. reflexivity.
    - destruct a' as [|y a'].
      + cbn in L. pose proof (blen_nonneg a). pose proof (utf8_len_pos x). lia.
      + cbn [app] in E. inversion E; subst. destruct (IH a' H1) as [m Em]; [cbn [blen] in L; lia|]. exists m. subst a'. reflexivity. }
  destruct Hsplit as [m Em]. subst a'.
  assert (S2 : slice t (blen a + 1) (blen (a ++ 40 :: m)) = Some m).
  { rewrite E1'. pose proof (slice_app (a ++ [40]) m (41 :: b')) as H. rewrite <- !app_assoc in H. cbn [app] in H.
    rewrite blen_app in H. cbn [blen] in H. replace (utf8_len 40) with 1 in H by reflexivity.
    rewrite blen_app. cbn [blen]. replace (utf8_len 40) with 1 by reflexivity.
    replace (blen a + (1 + 0)) with (blen a + 1) in H by lia. replace (blen a + (1 + blen m)) with (blen a + 1 + blen m) by lia. rewrite <- app_assoc. cbn [app]. exact H. }
  rewrite S2. discriminate.
Qed.

Theorem parse_aggregate_no_panic : forall t, parse_aggregate t <> AggPanic.
Proof.
  intros t. unfold parse_aggregate. destruct (split_first s_where (trimu t) []) as [[fp pp]|]; [|discriminate].
  pose proof (parse_function_call_no_panic (trimu fp)) as H.
  destruct (parse_function_call (trimu fp)) as [e|[fname var]]; [intro E; apply H; f_equal; exact E|].
  destruct (find _ names) as [[[n k] needs]|]; [|discriminate].
  destruct (needs && _); [discriminate|]. destruct (split_first s_and (trimu pp) []) as [[a b]|]; discriminate.
Qed.

(** ---------- nested.rs ---------- *)
Theorem nested_parse_no_panic : forall q, nested_parse q <> GPanic.
Proof.
  intros q. unfold nested_parse. destruct (find_sub s_where q) as [i|] eqn:F; [|discriminate].
  unfold find_sub in F. destruct (find_from_spec _ _ _ _ F) as (a & b & E1 & E2 & E3).
  destruct (starts_with_app _ _ E3) as [r Er]. subst b.
  assert (S : slice q (i + 7) (blen q) = Some r).
  { subst q i. pose proof (slice_suffix (a ++ s_where) r) as H. rewrite <- app_assoc in H. rewrite blen_app in H.
    replace (blen s_where) with 7 in H by reflexivity. replace (0 + blen a + 7) with (blen a + 7) by lia. exact H. }
  rewrite S. discriminate.
Qed.

Lemma nth_error_in_range {T} (l : list T) i : 0 <= i -> i < Z.of_nat (length l) -> nth_error l (Z.to_nat i) <> None.
Proof. intros H0 H1. apply nth_error_Some. lia. Qed.

Theorem has_nested_total : forall q, has_nested q <> None.
Proof.
  intros q. unfold has_nested.
  assert (G : forall fuel i depth inp, 0 <= i -> has_nested_from fuel q i depth inp <> None).
  { induction fuel as [|f IH]; intros i depth inp Hi; cbn [has_nested_from]; [discriminate|].
    destruct (Z.of_nat (length q) <=? i) eqn:E; [discriminate|]. apply Z.leb_gt in E.
    destruct (nth_error q (Z.to_nat i)) as [c|] eqn:N; [|exfalso; revert N; apply nth_error_in_range; lia].
    destruct (c =? 40); [apply IH; lia|]. destruct (c =? 41); [apply IH; lia|].
    destruct ((c =? 87) && inp && (0 <? depth) && (i + 5 <? Z.of_nat (length q))) eqn:G; [|apply IH; lia].
    apply andb_true_iff in G as [_ G]. apply Z.ltb_lt in G.
    destruct (Z.of_nat (length q) <? i + 5) eqn:E5; [apply Z.ltb_lt in E5; lia|].
    destruct (str_eqb _ _); [discriminate|apply IH; lia]. }
  apply G. lia.
Qed.

(** ---------- disjunction.rs ---------- *)
Lemma split_or_from_total chars : forall fuel i depth instr cur parts,
  0 <= i -> (Z.to_nat (Z.of_nat (length chars) - i) < fuel)%nat -> split_or_from fuel chars i depth instr cur parts <> None.
Proof.
  induction fuel as [|f IH]; intros i depth instr cur parts Hi Hf; [lia|]. cbn [split_or_from].
  destruct (Z.of_nat (length chars) <=? i) eqn:E; [discriminate|]. apply Z.leb_gt in E.
  destruct (nth_error chars (Z.to_nat i)) as [c|] eqn:N; [|exfalso; revert N; apply nth_error_in_range; lia].
  assert (Step : forall d s c' p, split_or_from f chars (i + 1) d s c' p <> None) by (intros; apply IH; lia).
  destruct (c =? 34); [apply Step|]. destruct ((c =? 40) && negb instr); [apply Step|]. destruct ((c =? 41) && negb instr); [apply Step|].
  destruct ((c =? 32) && negb instr && (depth =? 0)); [|apply Step].
  destruct ((i + 4 <=? Z.of_nat (length chars)) && str_eqb (firstn 4 (skipn (Z.to_nat i) chars)) s_or) eqn:G; [|apply Step].
  apply andb_true_iff in G as [G _]. apply Z.leb_le in G. apply IH; lia.
Qed.

Theorem split_top_level_or_total : forall s, split_top_level_or s <> None.
Proof. intros s. unfold split_top_level_or. apply split_or_from_total; lia. Qed.

Theorem disj_parse_no_panic : forall p, disj_parse p <> DPanic.
Proof.
  intros p0. unfold disj_parse. set (p := trimu p0). destruct (enclosed p 40 41) eqn:En; [|discriminate].
  assert (L2 : 2 <= blen p).
  { unfold enclosed in En. destruct p as [|c p']; [discriminate|]. destruct (rev (c :: p')) as [|d rest] eqn:R; [discriminate|].
    apply andb_true_iff in En as [Ec Ed]. apply Z.eqb_eq in Ec, Ed. subst c d.
    destruct p' as [|x p'']; [cbn in R; inversion R|].
    cbn [blen]. pose proof (utf8_len_pos x). pose proof (blen_nonneg p''). replace (utf8_len 40) with 1 by reflexivity. lia. }
  destruct (enclosed_slice p 40 41 ltac:(lia) ltac:(lia) En L2) as (inner & S & _). rewrite S.
  destruct (find_sub s_or inner); [|discriminate].
  pose proof (split_top_level_or_total inner) as T. destruct (split_top_level_or inner) as [parts|]; [|contradiction].
  destruct (length parts <? 2)%nat; discriminate.
Qed.

Theorem contains_or_total : forall p, contains_or p <> None.
Proof. intros p. unfold contains_or. pose proof (split_top_level_or_total p) as T. destruct (split_top_level_or p); [discriminate|contradiction]. Qed.
