(** C16 — the alpha-memory index: with or without an index, a filter returns exactly the scan of
    everything inserted so far, for every history of inserts, index creations, drops and filters.  Proofs. *)
From RRE Require Import Base.Sx Base.Float Model.Index Proofs.IndexProofs.
From Coq Require Import Lia Floats.SpecFloat.
Open Scope Z_scope.

(** ---------- Debug-rendering equality is an equivalence ---------- *)
Lemma list_eqb_Zsym a b : list_eqb Z.eqb a b = list_eqb Z.eqb b a.
Proof. revert b. induction a as [|x a IH]; intros [|y b]; cbn; try reflexivity. rewrite Z.eqb_sym, IH. reflexivity. Qed.

Lemma dbg_sym : forall a b, dbg_eqb a b = dbg_eqb b a.
Proof.
  induction a as [s|z|x|bb| |l IH] using value_ind2; intros b; destruct b as [s'|z'|x'|b'|l'| ]; cbn [dbg_eqb]; try reflexivity.
  - apply list_eqb_Zsym.
  - apply Z.eqb_sym.
  - rewrite (Z.eqb_sym x x'). rewrite (andb_comm (fl_is_nan x)), (andb_comm (negb (fl_is_nan x))). reflexivity.
  - destruct bb, b'; reflexivity.
  - revert l'. induction IH as [|u l Hu Hl IHl]; intros [|w l']; try reflexivity. rewrite (Hu w), IHl. reflexivity.
Qed.

Lemma dbg_trans : forall a b c, dbg_eqb a b = true -> dbg_eqb b c = true -> dbg_eqb a c = true.
Proof.
  induction a as [s|z|x|bb| |l IH] using value_ind2; intros b c H1 H2;
    destruct b as [s'|z'|x'|b'|l'| ]; cbn [dbg_eqb] in H1; try discriminate;
    destruct c as [s''|z''|x''|b''|l''| ]; cbn [dbg_eqb] in H2; try discriminate; cbn [dbg_eqb].
  - apply list_eqb_Zeq in H1, H2. subst. apply list_eqb_Zrefl.
  - apply Z.eqb_eq in H1, H2. subst. apply Z.eqb_refl.
  - destruct (fl_is_nan x), (fl_is_nan x'), (fl_is_nan x''); cbn in *; try discriminate; try reflexivity.
    apply Z.eqb_eq in H1, H2. subst. apply Z.eqb_refl.
  - destruct bb, b', b''; try discriminate; reflexivity.
  - reflexivity.
  - revert l' l'' H1 H2. induction IH as [|u l Hu Hl IHl]; intros [|w l'] [|y l''] H1 H2; try discriminate; try reflexivity.
    apply andb_true_iff in H1, H2. destruct H1 as [A1 A2], H2 as [B1 B2]. rewrite (Hu w y A1 B1). cbn [andb]. exact (IHl l' l'' A2 B2).
Qed.

Lemma key_refl a : key_eqb a a = true.
Proof. apply dbg_refl. Qed.
Lemma key_sym a b : key_eqb a b = key_eqb b a.
Proof. apply dbg_sym. Qed.
Lemma key_trans a b c : key_eqb a b = true -> key_eqb b c = true -> key_eqb a c = true.
Proof. apply dbg_trans. Qed.

(** ---------- equal values (==) share an index key ---------- *)
Lemma sfeqb_eq a b : SFeqb a b = true -> a = b \/ (exists s t, a = S754_zero s /\ b = S754_zero t).
Proof.
  unfold SFeqb, SFcompare.
  destruct a as [sa|sa| |sa ma ea]; destruct b as [sb|sb| |sb mb eb]; try discriminate;
    try (destruct sa; discriminate); try (destruct sb; discriminate).
  - intros _. right. eauto.
  - destruct sa, sb; try discriminate; intros _; left; reflexivity.
  - destruct sa, sb; try discriminate.
    + destruct (Z.compare ea eb) eqn:E; try discriminate. apply Z.compare_eq in E. subst eb.
      change (Pos.compare_cont Eq ma mb) with (Pos.compare ma mb). destruct (Pos.compare ma mb) eqn:P; cbn; try discriminate.
      apply Pos.compare_eq in P. intros _. left. subst. reflexivity.
    + destruct (Z.compare ea eb) eqn:E; try discriminate. apply Z.compare_eq in E. subst eb.
      change (Pos.compare_cont Eq ma mb) with (Pos.compare ma mb). destruct (Pos.compare ma mb) eqn:P; cbn; try discriminate.
      apply Pos.compare_eq in P. intros _. left. subst. reflexivity.
Qed.

Lemma val_key : forall a b, wfv a -> wfv b -> val_eqb a b = true -> key_eqb a b = true.
Proof.
  unfold key_eqb.
  induction a as [s|z|x|bb| |l IH] using value_ind2; intros b Wa Wb H; destruct b as [s'|z'|x'|b'|l'| ]; cbn [val_eqb] in H; try discriminate; cbn [norm dbg_eqb].
  - exact H.
  - exact H.
  - (* floats *)
    destruct (fl_is_nan x) eqn:Nx; [rewrite (feqb_nan_l x x' Nx) in H; discriminate|].
    destruct (fl_is_nan x') eqn:Nx'; [rewrite (feqb_nan_r x x' Nx') in H; discriminate|].
    cbn [wfv] in Wa, Wb. destruct Wa as [Wa|Wa]; [congruence|]. destruct Wb as [Wb|Wb]; [congruence|].
    unfold feqb in H. destruct (sfeqb_eq _ _ H) as [E|[sa [sb [Ea Eb]]]].
    + assert (x = x') by (rewrite <- Wa, <- Wb, E; reflexivity). subst x'.
      destruct (fl_is_zero x); cbn [dbg_eqb]; [rewrite zero_bits_nan; cbn; reflexivity|rewrite Nx; cbn; apply Z.eqb_refl].
    + assert (Zx : fl_is_zero x = true) by (unfold fl_is_zero; rewrite Ea; reflexivity).
      assert (Zx' : fl_is_zero x' = true) by (unfold fl_is_zero; rewrite Eb; reflexivity).
      rewrite Zx, Zx'. cbn [dbg_eqb]. rewrite zero_bits_nan. reflexivity.
  - exact H.
  - reflexivity.
  - (* arrays *)
    cbn [wfv] in Wa, Wb. revert l' Wb H. induction IH as [|u l Hu Hl IHl]; intros [|w l'] Wb H; try discriminate; [reflexivity|].
    destruct Wa as [Wu Wl]. destruct Wb as [Ww Wl']. apply andb_true_iff in H. destruct H as [H1 H2].
    cbn [map]. rewrite (Hu w Wu Ww H1). cbn [andb]. exact (IHl Wl l' Wl' H2).
Qed.

Lemma key_cong k v : key_eqb k v = true -> forall x, key_eqb x k = key_eqb x v.
Proof.
  intros H x. destruct (key_eqb x k) eqn:A.
  - symmetry. eapply key_trans; eassumption.
  - destruct (key_eqb x v) eqn:B; [|reflexivity]. rewrite key_sym in H. rewrite (key_trans x v k B H) in A. discriminate.
Qed.

(** ---------- one index over the fact list ---------- *)
Definition at_index (fs : list fact) (i : nat) : list fact := match nth_error fs i with Some f => [f] | None => [] end.
Definition facts_at (fs : list fact) (l : list nat) : list fact := flat_map (at_index fs) l.
Definition bucket (fs : list fact) (ix : list (value * list nat)) (v : value) : list fact :=
  match idx_find ix v with Some l => facts_at fs l | None => [] end.

Lemma find_push_same ix k i : forall v, key_eqb k v = true ->
  idx_find (idx_push ix k i) v = Some (match idx_find ix v with Some l => l ++ [i] | None => [i] end).
Proof.
  intros v Hkv. induction ix as [|[k' l] ix IH]; cbn [idx_push idx_find].
  - rewrite Hkv. reflexivity.
  - rewrite (key_cong k v Hkv k'). destruct (key_eqb k' v) eqn:E; cbn [idx_find]; rewrite E; [reflexivity|exact IH].
Qed.

Lemma find_push_other ix k i : forall v, key_eqb k v = false -> idx_find (idx_push ix k i) v = idx_find ix v.
Proof.
  intros v Hkv. induction ix as [|[k' l] ix IH]; cbn [idx_push idx_find].
  - rewrite Hkv. reflexivity.
  - destruct (key_eqb k' k) eqn:E; cbn [idx_find].
    + destruct (key_eqb k' v) eqn:F; [|reflexivity].
      rewrite key_sym in E. rewrite (key_trans k k' v E F) in Hkv. discriminate.
    + destruct (key_eqb k' v); [reflexivity|exact IH].
Qed.

Definition bounded (fs : list fact) (ix : list (value * list nat)) : Prop :=
  forall k l, In (k, l) ix -> Forall (fun i => (i < length fs)%nat) l.

Lemma idx_find_in ix v l : idx_find ix v = Some l -> exists k, In (k, l) ix.
Proof.
  induction ix as [|[k' l'] ix IH]; cbn [idx_find]; [discriminate|].
  destruct (key_eqb k' v); [intros H; inversion H; subst; exists k'; left; reflexivity|].
  intros H. destruct (IH H) as [k Hk]. exists k. right. exact Hk.
Qed.

Lemma bounded_push fs ix k f : bounded fs ix -> bounded (fs ++ [f]) (idx_push ix k (length fs)).
Proof.
  intros B k0 l0 Hin. assert (W : forall l, Forall (fun i => (i < length fs)%nat) l -> Forall (fun i => (i < length (fs ++ [f]))%nat) l).
  { intros l Hl. eapply Forall_impl; [|exact Hl]. intros a Ha. cbv beta in Ha |- *. rewrite app_length. cbn [length]. lia. }
  induction ix as [|[k' l'] ix IH]; cbn [idx_push] in Hin.
  - destruct Hin as [E|[]]. inversion E; subst. constructor; [rewrite app_length; cbn; lia|constructor].
  - destruct (key_eqb k' k).
    + destruct Hin as [E|Hin].
      * inversion E; subst. apply Forall_app. split; [apply W; apply (B k0 l'); left; reflexivity|constructor; [rewrite app_length; cbn; lia|constructor]].
      * apply W. apply (B k0 l0). right. exact Hin.
    + destruct Hin as [E|Hin].
      * inversion E; subst. apply W. apply (B k0 l0). left. reflexivity.
      * apply IH; [|exact Hin]. intros k1 l1 H1. apply (B k1 l1). right. exact H1.
Qed.

Lemma bounded_weaken fs ix f : bounded fs ix -> bounded (fs ++ [f]) ix.
Proof. intros B k l Hin. eapply Forall_impl; [|apply (B k l Hin)]. intros a Ha. cbv beta in Ha |- *. rewrite app_length. cbn [length]. lia. Qed.

Lemma facts_at_app fs f l : Forall (fun i => (i < length fs)%nat) l -> facts_at (fs ++ [f]) l = facts_at fs l.
Proof.
  induction 1 as [|i l Hi Hl IH]; [reflexivity|]. unfold facts_at in *. cbn [flat_map]. rewrite IH. f_equal.
  unfold at_index. rewrite nth_error_app1 by exact Hi. reflexivity.
Qed.

Lemma facts_at_last fs f : facts_at (fs ++ [f]) [length fs] = [f].
Proof. unfold facts_at, at_index. cbn [flat_map]. rewrite nth_error_app2 by lia. rewrite Nat.sub_diag. reflexivity. Qed.

Lemma facts_at_snoc fs l i : facts_at fs (l ++ [i]) = facts_at fs l ++ facts_at fs [i].
Proof. unfold facts_at. rewrite flat_map_app. reflexivity. Qed.

(** the invariant of one index: every bucket, filtered, is the scan *)
Definition IdxInv (fs : list fact) (fld : Z) (ix : list (value * list nat)) : Prop :=
  bounded fs ix /\ forall v, wfv v -> filter (matches fld v) (bucket fs ix v) = scan fs fld v.

Lemma inv_insert fs fld ix f : wf_fact f -> IdxInv fs fld ix ->
  IdxInv (fs ++ [f]) fld (match fget f fld with Some x => idx_push ix x (length fs) | None => ix end).
Proof.
  intros Wf [B I]. destruct (fget f fld) as [x|] eqn:G.
  - split; [apply bounded_push; exact B|]. intros v Wv. unfold scan. rewrite filter_app. cbn [filter]. unfold scan in I. rewrite <- (I v Wv).
    unfold bucket. destruct (key_eqb x v) eqn:K.
    + rewrite (find_push_same ix x (length fs) v K).
      destruct (idx_find ix v) as [l|] eqn:F.
      * destruct (idx_find_in ix v l F) as [k0 Hk0]. rewrite facts_at_snoc, filter_app, facts_at_last.
        rewrite (facts_at_app fs f l (B k0 l Hk0)). reflexivity.
      * rewrite facts_at_last. reflexivity.
    + rewrite (find_push_other ix x (length fs) v K).
      assert (M : matches fld v f = false).
      { unfold matches. rewrite G. destruct (val_eqb x v) eqn:E; [|reflexivity]. rewrite (val_key x v (Wf fld x G) Wv E) in K. discriminate. }
      rewrite M, app_nil_r. destruct (idx_find ix v) as [l|] eqn:F; [|reflexivity].
      destruct (idx_find_in ix v l F) as [k0 Hk0]. rewrite (facts_at_app fs f l (B k0 l Hk0)). reflexivity.
  - split; [apply bounded_weaken; exact B|]. intros v Wv. unfold scan. rewrite filter_app. cbn [filter]. unfold scan in I. rewrite <- (I v Wv).
    assert (M : matches fld v f = false) by (unfold matches; rewrite G; reflexivity). rewrite M, app_nil_r.
    unfold bucket. destruct (idx_find ix v) as [l|] eqn:F; [|reflexivity].
    destruct (idx_find_in ix v l F) as [k0 Hk0]. rewrite (facts_at_app fs f l (B k0 l Hk0)). reflexivity.
Qed.

Lemma inv_empty fld : IdxInv [] fld [].
Proof. split; [intros k l []|intros v _; reflexivity]. Qed.

(** build_index is the sequence of insertions *)
Lemma build_index_inv fld : forall fs, Forall wf_fact fs -> IdxInv fs fld (build_index fs fld).
Proof.
  intros fs Hw. unfold build_index.
  assert (G : forall done rest ix, Forall wf_fact rest -> IdxInv done fld ix ->
            IdxInv (done ++ rest) fld (snd (fold_left (fun acc f => let '(i, ix) := acc in
                               (S i, match fget f fld with Some v => idx_push ix v i | None => ix end)) rest (length done, ix)))).
  { intros done rest. revert done. induction rest as [|f rest IH]; intros done ix Hr Hi; cbn [fold_left snd]; [rewrite app_nil_r; exact Hi|].
    inversion Hr; subst. replace (done ++ f :: rest) with ((done ++ [f]) ++ rest) by (rewrite <- app_assoc; reflexivity).
    replace (S (length done)) with (length (done ++ [f])) by (rewrite app_length; cbn; lia).
    apply IH; [assumption|]. apply inv_insert; assumption. }
  apply (G [] fs [] Hw (inv_empty fld)).
Qed.

(** ---------- the alpha memory with all its indexes ---------- *)
Definition AlphaInv (a : alpha) : Prop :=
  Forall wf_fact (a_facts a) /\ forall e, In e (a_indexes a) -> IdxInv (a_facts a) (fst e) (snd e).

Lemma alpha_init_inv : AlphaInv alpha_init.
Proof. split; [constructor|intros e []]. Qed.

Lemma a_filter_scan a fld v : AlphaInv a -> wfv v -> a_filter a fld v = scan (a_facts a) fld v.
Proof.
  intros [_ I] Wv. unfold a_filter.
  destruct (find (fun e => Z.eqb (fst e) fld) (a_indexes a)) as [e|] eqn:F; [|reflexivity].
  apply find_some in F. destruct F as [Hin Hf]. apply Z.eqb_eq in Hf. subst fld.
  destruct (I e Hin) as [_ J]. specialize (J v Wv). unfold bucket in J.
  destruct (idx_find (snd e) v) as [l|]; [exact J|]. cbn [filter] in J. exact J.
Qed.

Lemma a_insert_inv a f : AlphaInv a -> wf_fact f -> AlphaInv (a_insert a f).
Proof.
  intros [Wf I] Hf. unfold a_insert. split; cbn [a_facts a_indexes].
  - apply Forall_app. split; [exact Wf|constructor; [exact Hf|constructor]].
  - intros e Hin. apply in_map_iff in Hin. destruct Hin as [e0 [E Hin0]]. subst e. cbn [fst snd].
    apply inv_insert; [exact Hf|apply I; exact Hin0].
Qed.

Lemma a_create_inv a fld : AlphaInv a -> AlphaInv (a_create a fld).
Proof.
  intros [Wf I]. unfold a_create. destruct (existsb (fun e => Z.eqb (fst e) fld) (a_indexes a)); [split; assumption|].
  split; cbn [a_facts a_indexes]; [exact Wf|]. intros e Hin. apply in_app_iff in Hin. destruct Hin as [Hin|[E|[]]]; [apply I; exact Hin|].
  subst e. cbn [fst snd]. apply build_index_inv. exact Wf.
Qed.

Lemma a_drop_inv a fld : AlphaInv a -> AlphaInv (a_drop a fld).
Proof.
  intros [Wf I]. unfold a_drop. split; cbn [a_facts a_indexes]; [exact Wf|].
  intros e Hin. apply filter_In in Hin. destruct Hin as [Hin _]. apply I. exact Hin.
Qed.

Lemma a_create_facts a fld : a_facts (a_create a fld) = a_facts a.
Proof. unfold a_create. destruct (existsb _ _); reflexivity. Qed.
Lemma a_drop_facts a fld : a_facts (a_drop a fld) = a_facts a.
Proof. reflexivity. Qed.

(** Main theorem of C16 for the alpha memory: for EVERY history of insertions, index creations, index drops
    and filters, on every field and value (NaN, signed zeros, nested arrays), the answers are those of the
    index-free scan of everything inserted so far. *)
Theorem run_alpha_is_scan : forall ops a, AlphaInv a -> Forall aop_wf ops -> run_alpha a ops = spec_alpha (a_facts a) ops.
Proof.
  induction ops as [|o ops IH]; intros a Ha Hw; [reflexivity|].
  inversion Hw as [|? ? Ho Hr]; subst. destruct o as [f|fld|fld|fld v]; cbn [run_alpha spec_alpha aop_wf] in *.
  - f_equal. rewrite (IH (a_insert a f) (a_insert_inv a f Ha Ho) Hr). reflexivity.
  - f_equal. rewrite (IH (a_create a fld) (a_create_inv a fld Ha) Hr). rewrite a_create_facts. reflexivity.
  - f_equal. rewrite (IH (a_drop a fld) (a_drop_inv a fld Ha) Hr). rewrite a_drop_facts. reflexivity.
  - rewrite (a_filter_scan a fld v Ha Ho). f_equal. apply IH; assumption.
Qed.

Corollary run_alpha_from_empty ops : Forall aop_wf ops -> run_alpha alpha_init ops = spec_alpha [] ops.
Proof. intros H. apply (run_alpha_is_scan ops alpha_init alpha_init_inv H). Qed.
