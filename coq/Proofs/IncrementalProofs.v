(** C06 — proofs about Model/Incremental.v *)
From RRE Require Import Base.Sx Generated.Consts Model.ReteAgenda Model.Incremental.
From Coq Require Import Lia.
Open Scope Z_scope.

(** * fire_all only ever fires a rule for a live fact whose current contents satisfy the rule *)
Definition firing_ok (rs : list rule) (fi : firing) : Prop :=
  exists rl, find (fun r => r_name r =? fi_rule fi) rs = Some rl /\ eval (fi_data fi) (r_cond rl) = true.

Definition add_one (r : rule) (x : engx) (f : fact) : engx :=
  if (f_type f =? r_type r) && eval (f_data f) (r_cond r) then
    let e := e_ x in
    {| e_ := {| wm := wm e; next_h := next_h e; ag := add_activation (ag e) (mk_act (seq e) r (f_h f)); seq := seq e + 1; rules := rules e |};
       matched := (seq e, f_h f) :: matched x |}
  else x.

Lemma add_one_fold_rules r fs : forall x, rules (e_ (fold_left (add_one r) fs x)) = rules (e_ x) /\ next_h (e_ (fold_left (add_one r) fs x)) = next_h (e_ x).
Proof.
  induction fs as [|f fs IH]; intros x; cbn [fold_left]; [split; reflexivity|].
  destruct (IH (add_one r x f)) as [I1 I2]. rewrite I1, I2. unfold add_one.
  destruct ((f_type f =? r_type r) && eval (f_data f) (r_cond r)); split; reflexivity.
Qed.

Lemma add_matching_keeps rs : forall x fs b,
  rules (e_ (add_matching x rs fs b)) = rules (e_ x) /\ next_h (e_ (add_matching x rs fs b)) = next_h (e_ x).
Proof.
  unfold add_matching. induction rs as [|r rs IH]; intros x fs b; cbn [fold_left]; [split; reflexivity|].
  match goal with |- context [fold_left ?F rs ?X0] => destruct (IH X0 fs b) as [I1 I2] end.
  rewrite I1, I2.
  destruct (b && r_noloop r && memZ (r_name r) (fired_rules (ag (e_ x)))); [split; reflexivity|].
  apply (add_one_fold_rules r fs x).
Qed.

Lemma add_matching_rules x rs fs b : rules (e_ (add_matching x rs fs b)) = rules (e_ x).
Proof. apply add_matching_keeps. Qed.

Lemma propagate_all_rules x : rules (e_ (propagate_all x)) = rules (e_ x).
Proof.
  unfold propagate_all. generalize (types_present (e_ x)). intros l. revert x.
  induction l as [|t l IH]; intros x; cbn [fold_left]; [reflexivity|]. rewrite IH. apply add_matching_rules.
Qed.

Lemma propagate_type_rules x t : rules (e_ (propagate_type x t)) = rules (e_ x).
Proof. unfold propagate_type. apply add_matching_rules. Qed.

Lemma with_wm_rules x w : rules (e_ (with_wm x w)) = rules (e_ x). Proof. reflexivity. Qed.

Lemma apply_action_rules x r h : rules (e_ (apply_action x r h)) = rules (e_ x).
Proof.
  unfold apply_action. destruct (r_action r); try reflexivity.
  destruct (rev (facts_of_type (e_ x) (r_type r))) as [|lf l]; [reflexivity|].
  destruct (match dget (f_data lf) f with Some old => old =? v | None => false end); reflexivity.
Qed.

Lemma do_retract_rules x h : rules (e_ (fst (do_retract x h))) = rules (e_ x).
Proof. unfold do_retract. destruct (live_fact (e_ x) h); cbn [fst]; [rewrite propagate_type_rules; reflexivity|reflexivity]. Qed.

Theorem fire_loop_sound fuel : forall iter x out x' out',
  fire_loop fuel iter x out = (x', out') ->
  Forall (firing_ok (rules (e_ x))) out -> Forall (firing_ok (rules (e_ x))) out'.
Proof.
  induction fuel as [|fu IH]; intros iter x out x' out' H Hout; cbn [fire_loop] in H; [inversion H; subst; exact Hout|].
  destruct (get_next (S (length (stack (ag (e_ x))))) (ag (e_ x))) as [a1 r] eqn:G.
  destruct r as [a|]; [|inversion H; subst; exact Hout].
  destruct (incr_max_iterations <? iter + 1)%N; [inversion H; subst; exact Hout|].
  destruct (find (fun r => r_name r =? a_name a) (rules (e_ x))) as [rl|] eqn:F.
  2:{ eapply IH in H; [exact H|exact Hout]. }
  set (h := match find (fun p => fst p =? a_id a) (matched x) with Some p => snd p | None => 0 end) in *.
  match type of H with context [live_fact ?e0 h] => destruct (live_fact e0 h) as [f|] eqn:L end.
  2:{ eapply IH in H; [exact H|exact Hout]. }
  destruct (negb ((f_type f =? r_type rl) && eval (f_data f) (r_cond rl))) eqn:E.
  { eapply IH in H; [exact H|exact Hout]. }
  apply negb_false_iff in E. apply andb_true_iff in E. destruct E as [_ Ev].
  eapply IH in H.
  - cbn [e_ rules] in H.
    match type of H with Forall (firing_ok ?R) _ => replace R with (rules (e_ x)) in H end; [exact H|].
    destruct (r_action rl); cbn [fst]; rewrite ?do_retract_rules, propagate_all_rules, apply_action_rules; reflexivity.
  - cbn [e_ rules].
    match goal with |- Forall (firing_ok ?R) _ => replace R with (rules (e_ x)) end.
    + apply Forall_app. split; [exact Hout|]. constructor; [|constructor].
      exists rl. cbn [fi_rule fi_data]. split; [|exact Ev].
      (* the rule found by the activation's name has that name *)
      pose proof (find_some _ _ F) as [_ Hn]. apply Z.eqb_eq in Hn.
      rewrite Hn. exact F.
    + destruct (r_action rl); cbn [fst]; rewrite ?do_retract_rules, propagate_all_rules, apply_action_rules; reflexivity.
Qed.

Theorem fire_all_sound x x' out :
  fire_all x = (x', out) -> Forall (firing_ok (rules (e_ x))) out.
Proof. intros H. eapply fire_loop_sound; [exact H|constructor]. Qed.

(** * handles are issued in increasing order and never reused *)
Lemma do_insert_handle x t d : snd (do_insert x t d) = next_h (e_ x) /\ next_h (e_ (fst (do_insert x t d))) = next_h (e_ x) + 1.
Proof.
  unfold do_insert. cbn [snd fst]. split; [reflexivity|].
  unfold propagate_type. destruct (add_matching_keeps (filter (fun r => r_type r =? t) (rules (e_ {| e_ := {| wm := wm (e_ x) ++ [{| f_h := next_h (e_ x); f_type := t; f_data := d; f_retracted := false |}]; next_h := next_h (e_ x) + 1; ag := ag (e_ x); seq := seq (e_ x); rules := rules (e_ x) |}; matched := matched x |})))
     {| e_ := {| wm := wm (e_ x) ++ [{| f_h := next_h (e_ x); f_type := t; f_data := d; f_retracted := false |}]; next_h := next_h (e_ x) + 1; ag := ag (e_ x); seq := seq (e_ x); rules := rules (e_ x) |}; matched := matched x |}
     (facts_of_type (e_ {| e_ := {| wm := wm (e_ x) ++ [{| f_h := next_h (e_ x); f_type := t; f_data := d; f_retracted := false |}]; next_h := next_h (e_ x) + 1; ag := ag (e_ x); seq := seq (e_ x); rules := rules (e_ x) |}; matched := matched x |}) t) false) as [_ H].
  exact H.
Qed.
