(** C06 — exactly-once firing of no-loop rules under inert actions, on the model of the incremental engine. *)
From RRE Require Import Base.Sx Generated.Consts Model.ReteAgenda Model.Incremental Proofs.IncrementalProofs Proofs.IncrementalViewsProofs.
From RRE Require Proofs.ReteAgendaProofs.
From Coq Require Import Lia.
Open Scope Z_scope.

Definition hp (x : engx) : list act := match groups (ag (e_ x)) with [(_, l)] => l | _ => [] end.
Definition mh (m : list (Z * Z)) (id : Z) : Z := match find (fun p => fst p =? id) m with Some p => snd p | None => 0 end.
Definition fired (x : engx) : list Z := fired_rules (ag (e_ x)).

Lemma add_act_shape a l x : groups a = [(main_group, l)] -> a_autofocus x = false -> a_agroup x = None -> a_group x = main_group ->
  add_activation a x = {| groups := [(main_group, l ++ [x])]; focus := focus a; stack := stack a; fired_rules := fired_rules a;
                          fired_agroups := fired_agroups a; locked := locked a |}.
Proof. intros G AF AG GR. unfold add_activation. rewrite AF. cbn [andb]. rewrite AG, GR, G. cbn. reflexivity. Qed.

Lemma get_next_shape a l : groups a = [(main_group, l)] -> focus a = main_group -> stack a = [] ->
  get_next 1 a = ({| groups := [(main_group, snd (pop_eligible (S (length l)) a l))]; focus := main_group; stack := [];
                     fired_rules := fired_rules a; fired_agroups := fired_agroups a; locked := locked a |},
                  fst (pop_eligible (S (length l)) a l)).
Proof.
  intros G F St. cbn [get_next]. rewrite F, G. cbn [grp_get find fst snd main_group Z.eqb].
  destruct (pop_eligible (S (length l)) a l) as [r rest]. cbn [grp_set existsb fst snd Z.eqb orb map main_group].
  rewrite St. destruct r as [m|]; reflexivity.
Qed.

(** pop_eligible on a heap with distinct ids *)
Lemma pe_spec a : forall fuel heap r rest,
  (length heap < fuel)%nat -> NoDup (map a_id heap) -> pop_eligible fuel a heap = (r, rest) ->
  exists p, rest = filter p heap /\
    match r with
    | None => forall y, In y heap -> eligible a y = false
    | Some m => In m heap /\ eligible a m = true /\ p m = false /\ forall y, In y heap -> eligible a y = true -> a_id y <> a_id m -> p y = true
    end.
Proof.
  induction fuel as [|fu IH]; intros heap r rest Hl ND H; [lia|]. cbn [pop_eligible] in H.
  destruct heap as [|x0 l0]; [cbn in H; inversion H; subst; exists (fun _ => true); split; [reflexivity|intros y []]|].
  remember (x0 :: l0) as heap eqn:Eh.
  assert (Hpm : pop_max heap = Some (max_of x0 l0, filter (fun y => negb (a_id y =? a_id (max_of x0 l0))) heap)) by (subst heap; reflexivity).
  rewrite Hpm in H. set (m := max_of x0 l0) in *.
  assert (Hm : In m heap) by (subst heap; apply ReteAgendaProofs.max_of_in).
  assert (Same : forall y, In y heap -> a_id y = a_id m -> y = m).
  { intros y Hy E. clear - ND Hy Hm E. induction heap as [|z l IH]; [destruct Hy|]. cbn [map] in ND. inversion ND as [|? ? Hz ND']; subst.
    destruct Hy as [->|Hy], Hm as [->|Hm]; [reflexivity| | |apply IH; assumption].
    - exfalso. apply Hz. rewrite E. apply in_map. exact Hm.
    - exfalso. apply Hz. rewrite <- E. apply in_map. exact Hy. }
  destruct (eligible a m) eqn:El.
  - inversion H; subst r rest. exists (fun y => negb (a_id y =? a_id m)). split; [reflexivity|]. split; [exact Hm|]. split; [exact El|]. split; [rewrite Z.eqb_refl; reflexivity|].
    intros y _ _ Hne. apply negb_true_iff. apply Z.eqb_neq. exact Hne.
  - set (p1 := fun y => negb (a_id y =? a_id m)) in *.
    assert (Hl1 : (length (filter p1 heap) < fu)%nat).
    { pose proof (ReteAgendaProofs.filter_length_lt p1 heap m Hm) as Hlt. unfold p1 in Hlt at 1. rewrite Z.eqb_refl in Hlt. specialize (Hlt eq_refl). lia. }
    destruct (IH (filter p1 heap) r rest Hl1 (ReteAgendaProofs.NoDup_map_filter a_id p1 heap ND) H) as (p & Hr & Hs).
    exists (fun y => p1 y && p y). split.
    { rewrite Hr. clear. induction heap as [|z l IH]; [reflexivity|]. cbn [filter]. destruct (p1 z); cbn [filter andb]; [destruct (p z); rewrite IH; reflexivity|exact IH]. }
    destruct r as [m'|].
    + destruct Hs as (Hin & He & Hp & Hall). apply filter_In in Hin. destruct Hin as [Hin Hp1]. split; [exact Hin|]. split; [exact He|]. split; [rewrite Hp; apply andb_false_r|].
      intros y Hy Hey Hne. assert (P1 : p1 y = true).
      { unfold p1. apply negb_true_iff. apply Z.eqb_neq. intros E. rewrite (Same y Hy E) in Hey. congruence. }
      rewrite P1. cbn [andb]. apply Hall; [apply filter_In; split; assumption|exact Hey|exact Hne].
    + intros y Hy. destruct (a_id y =? a_id m) eqn:E.
      * apply Z.eqb_eq in E. rewrite (Same y Hy E). exact El.
      * apply Hs. apply filter_In. split; [exact Hy|]. unfold p1. rewrite E. reflexivity.
Qed.

Lemma mh_cons_other m k v id : k <> id -> mh ((k, v) :: m) id = mh m id.
Proof. intros H. unfold mh. cbn [find fst]. destruct (k =? id) eqn:E; [apply Z.eqb_eq in E; contradiction|reflexivity]. Qed.
Lemma mh_cons_same m k v : mh ((k, v) :: m) k = v.
Proof. unfold mh. cbn [find fst]. rewrite Z.eqb_refl. reflexivity. Qed.

Section Once.
Variable rs : list rule.
Hypothesis Hnl : forallb r_noloop rs = true.
Hypothesis Hinert : inert rs = true.
Hypothesis Hnd : NoDup (map r_name rs).

Record Base (x : engx) : Prop := {
  b_rules : rules (e_ x) = rs;
  b_groups : groups (ag (e_ x)) = [(main_group, hp x)];
  b_focus : focus (ag (e_ x)) = main_group;
  b_stack : stack (ag (e_ x)) = [];
  b_acts : forall a, In a (hp x) ->
             a_noloop a = true /\ a_lock a = false /\ a_agroup a = None /\ a_id a < seq (e_ x) /\ exists r, In r rs /\ a_name a = r_name r;
  b_ids : NoDup (map a_id (hp x));
  b_keys : forall p, In p (matched x) -> fst p < seq (e_ x);
  b_fired : NoDup (fired x)
}.

Definition Sat (r : rule) (f : fact) : Prop := f_retracted f = false /\ f_type f = r_type r /\ eval (f_data f) (r_cond r) = true.
Definition Has (x : engx) (n h : Z) : Prop := exists a, In a (hp x) /\ a_name a = n /\ mh (matched x) (a_id a) = h.
Definition Cover (x : engx) : Prop :=
  forall r f, In r rs -> memZ (r_name r) (fired x) = false -> In f (wm (e_ x)) -> Sat r f -> Has x (r_name r) (f_h f).

Record Ext (x x' : engx) : Prop := {
  x_wm : wm (e_ x') = wm (e_ x);
  x_fired : fired x' = fired x;
  x_next : next_h (e_ x') = next_h (e_ x);
  x_hp : exists l, hp x' = hp x ++ l;
  x_mh : forall a, In a (hp x) -> mh (matched x') (a_id a) = mh (matched x) (a_id a)
}.
Lemma Ext_refl x : Ext x x.
Proof. constructor; try reflexivity. exists []. symmetry. apply app_nil_r. Qed.
Lemma Ext_trans x y z : Ext x y -> Ext y z -> Ext x z.
Proof.
  intros A B. constructor.
  - rewrite (x_wm _ _ B). apply A.
  - rewrite (x_fired _ _ B). apply A.
  - rewrite (x_next _ _ B). apply A.
  - destruct (x_hp _ _ A) as [l1 E1]. destruct (x_hp _ _ B) as [l2 E2]. exists (l1 ++ l2). rewrite E2, E1, app_assoc. reflexivity.
  - intros a Ha. rewrite (x_mh _ _ B); [apply A; exact Ha|]. destruct (x_hp _ _ A) as [l1 E1]. rewrite E1. apply in_or_app. left. exact Ha.
Qed.
Lemma Has_ext x x' n h : Ext x x' -> Has x n h -> Has x' n h.
Proof.
  intros E (a & Ha & Hn & Hm). exists a. split; [|split; [exact Hn|rewrite (x_mh _ _ E a Ha); exact Hm]].
  destruct (x_hp _ _ E) as [l El]. rewrite El. apply in_or_app. left. exact Ha.
Qed.

Lemma rule_noloop r : In r rs -> r_noloop r = true.
Proof. intros H. rewrite forallb_forall in Hnl. apply Hnl. exact H. Qed.

Lemma add_one_spec r f x : Base x -> In r rs ->
  Base (add_one r x f) /\ Ext x (add_one r x f) /\
  (f_type f = r_type r -> eval (f_data f) (r_cond r) = true -> Has (add_one r x f) (r_name r) (f_h f)).
Proof.
  intros B Hr. unfold add_one. destruct ((f_type f =? r_type r) && eval (f_data f) (r_cond r)) eqn:C.
  2:{ split; [exact B|]. split; [apply Ext_refl|]. intros T Ev. rewrite T, Z.eqb_refl, Ev in C. discriminate. }
  cbv zeta.
  set (nw := mk_act (seq (e_ x)) r (f_h f)).
  pose proof (add_act_shape (ag (e_ x)) (hp x) nw (b_groups x B) eq_refl eq_refl eq_refl) as Sh.
  set (x' := {| e_ := {| wm := wm (e_ x); next_h := next_h (e_ x); ag := add_activation (ag (e_ x)) nw; seq := seq (e_ x) + 1; rules := rules (e_ x) |};
               matched := (seq (e_ x), f_h f) :: matched x |}).
  assert (Hhp : hp x' = hp x ++ [nw]). { unfold hp at 1. unfold x'. cbn [e_ ag]. rewrite Sh. reflexivity. }
  assert (Hmh : forall a, In a (hp x) -> mh (matched x') (a_id a) = mh (matched x) (a_id a)).
  { intros a Ha. unfold x'. cbn [matched]. apply mh_cons_other. pose proof (b_acts x B a Ha) as (_ & _ & _ & Hlt & _). lia. }
  split; [|split].
  - constructor.
    + exact (b_rules x B).
    + rewrite Hhp. unfold x'. cbn [e_ ag]. rewrite Sh. reflexivity.
    + unfold x'. cbn [e_ ag]. rewrite Sh. cbn [focus]. exact (b_focus x B).
    + unfold x'. cbn [e_ ag]. rewrite Sh. cbn [stack]. exact (b_stack x B).
    + intros a Ha. rewrite Hhp in Ha. apply in_app_or in Ha. unfold x' at 1. cbn [e_ seq]. destruct Ha as [Ha|[<-|[]]].
      * pose proof (b_acts x B a Ha) as (A1 & A2 & A3 & A4 & A5). repeat split; try assumption. lia.
      * unfold nw. cbn [mk_act a_noloop a_lock a_agroup a_id a_name]. repeat split; [apply rule_noloop; exact Hr|lia|]. exists r. split; [exact Hr|reflexivity].
    + rewrite Hhp. apply ReteAgendaProofs.NoDup_map_app_new; [exact (b_ids x B)|].
      intros y Hy. pose proof (b_acts x B y Hy) as (_ & _ & _ & Hlt & _). exact Hlt.
    + intros p Hp. unfold x' in Hp |- *. cbn [matched e_ seq] in *. destruct Hp as [<-|Hp]; [cbn [fst]; lia|]. pose proof (b_keys x B p Hp). lia.
    + unfold fired, x'. cbn [e_ ag]. rewrite Sh. cbn [fired_rules]. exact (b_fired x B).
  - constructor; try reflexivity.
    + exists [nw]. exact Hhp.
    + exact Hmh.
  - intros _ _. exists nw. split; [rewrite Hhp; apply in_or_app; right; left; reflexivity|]. split; [reflexivity|].
    unfold x', nw. cbn [matched mk_act a_id]. apply mh_cons_same.
Qed.

Lemma memZ_In x l : memZ x l = true <-> In x l.
Proof.
  induction l as [|y l IH]; cbn [memZ In]; [split; [discriminate|intros []]|].
  rewrite orb_true_iff, IH, Z.eqb_eq. split; intros [H|H]; auto.
Qed.
Lemma memZ_nIn x l : memZ x l = false <-> ~ In x l.
Proof. rewrite <- memZ_In. destruct (memZ x l); split; congruence. Qed.

Lemma add_fold_spec r : In r rs -> forall fs x, Base x ->
  Base (fold_left (add_one r) fs x) /\ Ext x (fold_left (add_one r) fs x) /\
  forall f, In f fs -> f_type f = r_type r -> eval (f_data f) (r_cond r) = true -> Has (fold_left (add_one r) fs x) (r_name r) (f_h f).
Proof.
  intros Hr. induction fs as [|g fs IH]; intros x B; cbn [fold_left].
  - split; [exact B|]. split; [apply Ext_refl|]. intros f [].
  - destruct (add_one_spec r g x B Hr) as (B1 & E1 & H1). destruct (IH _ B1) as (B2 & E2 & H2).
    split; [exact B2|]. split; [eapply Ext_trans; eassumption|].
    intros f [<-|Hf] T Ev; [eapply Has_ext; [exact E2|apply H1; assumption]|apply H2; assumption].
Qed.

Lemma add_matching_spec b : forall rl x fs, (forall r, In r rl -> In r rs) -> Base x ->
  Base (add_matching x rl fs b) /\ Ext x (add_matching x rl fs b) /\
  forall r f, In r rl -> (b = true -> memZ (r_name r) (fired x) = false) -> In f fs -> f_type f = r_type r -> eval (f_data f) (r_cond r) = true ->
              Has (add_matching x rl fs b) (r_name r) (f_h f).
Proof.
  unfold add_matching. induction rl as [|r0 rl IH]; intros x fs Hsub B; cbn [fold_left].
  - split; [exact B|]. split; [apply Ext_refl|]. intros r f [].
  - set (x1 := if b && r_noloop r0 && memZ (r_name r0) (fired_rules (ag (e_ x))) then x else fold_left (add_one r0) fs x).
    assert (S1 : Base x1 /\ Ext x x1 /\ ((b = true -> memZ (r_name r0) (fired x) = false) ->
                 forall f, In f fs -> f_type f = r_type r0 -> eval (f_data f) (r_cond r0) = true -> Has x1 (r_name r0) (f_h f))).
    { unfold x1. destruct (b && r_noloop r0 && memZ (r_name r0) (fired_rules (ag (e_ x)))) eqn:C.
      - split; [exact B|]. split; [apply Ext_refl|]. intros Hu. exfalso. apply andb_true_iff in C. destruct C as [C1 C2]. apply andb_true_iff in C1. destruct C1 as [C1 _].
        specialize (Hu C1). unfold fired in Hu. congruence.
      - destruct (add_fold_spec r0 (Hsub r0 (or_introl eq_refl)) fs x B) as (B1 & E1 & H1). split; [exact B1|]. split; [exact E1|]. intros _. exact H1. }
    destruct S1 as (B1 & E1 & H1).
    destruct (IH x1 fs (fun r Hr => Hsub r (or_intror Hr)) B1) as (B2 & E2 & H2).
    change (fold_left _ rl x1) with (fold_left (fun x r => if b && r_noloop r && memZ (r_name r) (fired_rules (ag (e_ x))) then x else fold_left (add_one r) fs x) rl x1) in *.
    split; [exact B2|]. split; [eapply Ext_trans; eassumption|].
    intros r f [<-|Hr] Hu Hf T Ev.
    + eapply Has_ext; [exact E2|]. apply H1; assumption.
    + apply H2; try assumption. rewrite (x_fired _ _ E1). exact Hu.
Qed.

Lemma propagate_type_spec x t : Base x ->
  Base (propagate_type x t) /\ Ext x (propagate_type x t) /\
  forall r f, In r rs -> r_type r = t -> In f (wm (e_ x)) -> Sat r f -> Has (propagate_type x t) (r_name r) (f_h f).
Proof.
  intros B. unfold propagate_type. rewrite (b_rules x B).
  destruct (add_matching_spec false (filter (fun r => r_type r =? t) rs) x (facts_of_type (e_ x) t)) as (B1 & E1 & H1); [intros r Hr; apply filter_In in Hr; tauto|exact B|].
  split; [exact B1|]. split; [exact E1|]. intros r f Hr Ht Hf (S1 & S2 & S3). apply H1; try assumption.
  - apply filter_In. split; [exact Hr|apply Z.eqb_eq; exact Ht].
  - discriminate.
  - unfold facts_of_type. apply filter_In. split; [exact Hf|]. rewrite S2, Ht, Z.eqb_refl, S1. reflexivity.
Qed.

Lemma types_present_in e f : In f (wm e) -> f_retracted f = false -> In (f_type f) (types_present e).
Proof.
  intros Hf Hl. unfold types_present. assert (Ha : In f (all_live e)) by (unfold all_live; apply filter_In; rewrite Hl; auto).
  revert Ha. generalize (all_live e). intros l.
  assert (G : forall acc, In (f_type f) acc \/ In f l -> In (f_type f) (fold_left (fun a f => if memZ (f_type f) a then a else a ++ [f_type f]) l acc)).
  { induction l as [|g l IH]; intros acc [H|H]; cbn [fold_left]; [exact H|destruct H| |].
    - apply IH. left. destruct (memZ (f_type g) acc); [exact H|apply in_or_app; left; exact H].
    - destruct H as [->|H]; [|apply IH; right; exact H]. apply IH. left. destruct (memZ (f_type f) acc) eqn:M; [apply memZ_In; exact M|apply in_or_app; right; left; reflexivity]. }
  intros Ha. apply G. right. exact Ha.
Qed.

Lemma propagate_all_spec x : Base x ->
  Base (propagate_all x) /\ Ext x (propagate_all x) /\
  forall r f, In r rs -> memZ (r_name r) (fired x) = false -> In f (wm (e_ x)) -> Sat r f -> Has (propagate_all x) (r_name r) (f_h f).
Proof.
  intros B. unfold propagate_all.
  assert (G : forall tl y, Base y ->
            let y' := fold_left (fun x t => add_matching x (rules (e_ x)) (facts_of_type (e_ x) t) true) tl y in
            Base y' /\ Ext y y' /\ forall r f, In r rs -> memZ (r_name r) (fired y) = false -> In (f_type f) tl -> In f (wm (e_ y)) -> Sat r f -> Has y' (r_name r) (f_h f)).
  { induction tl as [|t tl IH]; intros y By; cbn [fold_left]; cbv zeta.
    - split; [exact By|]. split; [apply Ext_refl|]. intros r f _ _ [].
    - rewrite (b_rules y By).
      destruct (add_matching_spec true rs y (facts_of_type (e_ y) t) (fun r H => H) By) as (B1 & E1 & H1).
      destruct (IH _ B1) as (B2 & E2 & H2). split; [exact B2|]. split; [eapply Ext_trans; eassumption|].
      intros r f Hr Hu [Et|Ht] Hf (S1 & S2 & S3).
      + subst t. eapply Has_ext; [exact E2|]. apply H1; try assumption; [intros _; exact Hu|].
        unfold facts_of_type. apply filter_In. split; [exact Hf|]. rewrite Z.eqb_refl, S1. reflexivity.
      + apply H2; try assumption; [rewrite (x_fired _ _ E1); exact Hu|rewrite (x_wm _ _ E1); exact Hf|repeat split; assumption]. }
  destruct (G (types_present (e_ x)) x B) as (B1 & E1 & H1). split; [exact B1|]. split; [exact E1|].
  intros r f Hr Hu Hf HS. apply H1; try assumption. destruct HS as (S1 & _). apply types_present_in; assumption.
Qed.

(** activations added by propagation are for live facts that satisfy the rule *)
Definition G (x : engx) (a : act) : Prop :=
  exists r f, In r rs /\ In f (wm (e_ x)) /\ Sat r f /\ a_name a = r_name r /\ mh (matched x) (a_id a) = f_h f.
Lemma G_ext x x' a : Ext x x' -> In a (hp x) -> G x a -> G x' a.
Proof. intros E Ha (r & f & H1 & H2 & H3 & H4 & H5). exists r, f. rewrite (x_wm _ _ E), (x_mh _ _ E a Ha). auto. Qed.

Definition NewG (x x' : engx) : Prop := forall a, In a (hp x') -> In a (hp x) \/ G x' a.
Lemma NewG_trans x y z : Ext x y -> Ext y z -> NewG x y -> NewG y z -> NewG x z.
Proof. intros E1 E2 N1 N2 a Ha. destruct (N2 a Ha) as [H|H]; [|right; exact H]. destruct (N1 a H) as [H'|H']; [left; exact H'|right; eapply G_ext; eassumption]. Qed.

Lemma add_one_new r f x : Base x -> In r rs -> In f (wm (e_ x)) -> f_retracted f = false -> NewG x (add_one r x f).
Proof.
  intros B Hr Hf Hl a Ha. destruct (add_one_spec r f x B Hr) as (B1 & E1 & H1). revert Ha H1. unfold add_one.
  destruct ((f_type f =? r_type r) && eval (f_data f) (r_cond r)) eqn:C; [|intros Ha _; left; exact Ha]. cbv zeta. intros Ha H1.
  apply andb_true_iff in C. destruct C as [C1 C2]. apply Z.eqb_eq in C1.
  set (nw := mk_act (seq (e_ x)) r (f_h f)) in *.
  pose proof (add_act_shape (ag (e_ x)) (hp x) nw (b_groups x B) eq_refl eq_refl eq_refl) as Sh.
  unfold hp at 1 in Ha. cbn [e_ ag] in Ha. rewrite Sh in Ha. cbn [groups] in Ha. apply in_app_or in Ha. destruct Ha as [Ha|[<-|[]]]; [left; exact Ha|right].
  exists r, f. cbn [e_ wm matched]. split; [exact Hr|]. split; [exact Hf|]. split; [repeat split; assumption|]. split; [reflexivity|]. unfold nw. cbn [mk_act a_id]. apply mh_cons_same.
Qed.

Lemma add_fold_new r : In r rs -> forall fs x, Base x -> (forall f, In f fs -> In f (wm (e_ x)) /\ f_retracted f = false) -> NewG x (fold_left (add_one r) fs x).
Proof.
  intros Hr. induction fs as [|g fs IH]; intros x B Hfs; cbn [fold_left]; [intros a Ha; left; exact Ha|].
  destruct (add_one_spec r g x B Hr) as (B1 & E1 & _). destruct (add_fold_spec r Hr fs _ B1) as (B2 & E2 & _).
  eapply NewG_trans; [exact E1|exact E2|apply add_one_new; try assumption; apply Hfs; left; reflexivity|].
  apply IH; [exact B1|]. intros f Hf. rewrite (x_wm _ _ E1). apply Hfs. right. exact Hf.
Qed.

Lemma add_matching_new b : forall rl x fs, (forall r, In r rl -> In r rs) -> Base x -> (forall f, In f fs -> In f (wm (e_ x)) /\ f_retracted f = false) ->
  NewG x (add_matching x rl fs b).
Proof.
  induction rl as [|r0 rl IH]; intros x fs Hsub B Hfs; [intros a Ha; left; exact Ha|].
  set (x1 := if b && r_noloop r0 && memZ (r_name r0) (fired_rules (ag (e_ x))) then x else fold_left (add_one r0) fs x).
  assert (E : add_matching x (r0 :: rl) fs b = add_matching x1 rl fs b) by reflexivity. rewrite E.
  assert (S1 : Base x1 /\ Ext x x1 /\ NewG x x1).
  { unfold x1. destruct (b && r_noloop r0 && memZ (r_name r0) (fired_rules (ag (e_ x)))).
    - split; [exact B|]. split; [apply Ext_refl|]. intros a Ha; left; exact Ha.
    - destruct (add_fold_spec r0 (Hsub r0 (or_introl eq_refl)) fs x B) as (B1 & E1 & _). split; [exact B1|]. split; [exact E1|].
      apply add_fold_new; try assumption. apply Hsub. left. reflexivity. }
  destruct S1 as (B1 & E1 & N1).
  destruct (add_matching_spec b rl x1 fs (fun r Hr => Hsub r (or_intror Hr)) B1) as (B2 & E2 & _).
  eapply NewG_trans; [exact E1|exact E2|exact N1|]. apply IH; [intros r Hr; apply Hsub; right; exact Hr|exact B1|].
  intros f Hf. rewrite (x_wm _ _ E1). apply Hfs. exact Hf.
Qed.

Lemma facts_of_type_sub e t f : In f (facts_of_type e t) -> In f (wm e) /\ f_retracted f = false.
Proof. unfold facts_of_type. intros H. apply filter_In in H. destruct H as [H1 H2]. apply andb_true_iff in H2. destruct H2 as [_ H2]. apply negb_true_iff in H2. auto. Qed.

Lemma propagate_all_new x : Base x -> NewG x (propagate_all x).
Proof.
  intros B. unfold propagate_all. generalize (types_present (e_ x)). intros tl. revert x B.
  induction tl as [|t tl IH]; intros x B; cbn [fold_left]; [intros a Ha; left; exact Ha|].
  rewrite (b_rules x B).
  destruct (add_matching_spec true rs x (facts_of_type (e_ x) t) (fun r H => H) B) as (B1 & E1 & _).
  pose proof (add_matching_new true rs x (facts_of_type (e_ x) t) (fun r H => H) B (facts_of_type_sub (e_ x) t)) as N1.
  set (x1 := add_matching x rs (facts_of_type (e_ x) t) true) in *.
  assert (E2 : Ext x1 (fold_left (fun x t => add_matching x (rules (e_ x)) (facts_of_type (e_ x) t) true) tl x1)).
  { clear N1 E1 IH. revert B1. generalize x1. induction tl as [|t' tl IH']; intros y By; cbn [fold_left]; [apply Ext_refl|].
    rewrite (b_rules y By). destruct (add_matching_spec true rs y (facts_of_type (e_ y) t') (fun r H => H) By) as (B2 & E2 & _).
    eapply Ext_trans; [exact E2|]. apply IH'. exact B2. }
  eapply NewG_trans; [exact E1|exact E2|exact N1|]. apply IH. exact B1.
Qed.

Definition LInv (x : engx) : Prop := Base x /\ WMInv x /\ Cover x.

Lemma Base_same x x1 : Base x -> ag (e_ x1) = ag (e_ x) -> seq (e_ x1) = seq (e_ x) -> rules (e_ x1) = rules (e_ x) -> matched x1 = matched x -> Base x1.
Proof.
  intros B A Sq R M. assert (Hh : hp x1 = hp x) by (unfold hp; rewrite A; reflexivity).
  destruct B as [B1 B2 B3 B4 B5 B6 B7 B8]. constructor; unfold fired in *; rewrite ?Hh, ?A, ?Sq, ?R, ?M; assumption.
Qed.

Lemma live_fact_of x f : WMInv x -> In f (wm (e_ x)) -> f_retracted f = false -> live_fact (e_ x) (f_h f) = Some f.
Proof. intros W Hf Hl. destruct (views_agree x W f) as (A & _ & C). apply A. apply C. auto. Qed.

Lemma cover_after x x1 t : Base x -> Cover x -> Base x1 -> hp x1 = hp x -> matched x1 = matched x -> fired x1 = fired x ->
  (forall f, In f (wm (e_ x1)) -> f_retracted f = false -> f_type f <> t -> In f (wm (e_ x))) ->
  Cover (propagate_type x1 t).
Proof.
  intros B C B1 Hh Hm Hf Hw r f Hr Hu Hin HS. destruct (propagate_type_spec x1 t B1) as (B2 & E2 & H2).
  rewrite (x_wm _ _ E2) in Hin. unfold fired in Hu. fold (fired (propagate_type x1 t)) in Hu. rewrite (x_fired _ _ E2), Hf in Hu.
  destruct (Z.eq_dec (r_type r) t) as [Et|Et]; [apply H2; assumption|].
  eapply Has_ext; [exact E2|]. destruct HS as (S1 & S2 & S3).
  destruct (C r f Hr Hu (Hw f Hin S1 ltac:(congruence)) (conj S1 (conj S2 S3))) as (a & Ha & Hn & Hmh).
  exists a. rewrite Hh, Hm. auto.
Qed.

Lemma fst_step_insert x t d : fst (step false x (OInsert t d)) = fst (do_insert x t d).
Proof. cbn [step]. destruct (do_insert x t d). reflexivity. Qed.
Lemma fst_step_update x h d : fst (step false x (OUpdate h d)) = fst (do_update x h d).
Proof. cbn [step]. destruct (do_update x h d). reflexivity. Qed.
Lemma fst_step_retract x h : fst (step false x (ORetract h)) = fst (do_retract x h).
Proof. cbn [step]. destruct (do_retract x h). reflexivity. Qed.

Lemma LInv_insert x t d : LInv x -> LInv (fst (do_insert x t d)).
Proof.
  intros (B & W & C). split; [|split].
  - unfold do_insert. cbn [fst]. apply propagate_type_spec. eapply Base_same; [exact B| | | |]; reflexivity.
  - rewrite <- fst_step_insert. apply step_inv. exact W.
  - unfold do_insert. cbn [fst]. apply (cover_after x); try assumption; try reflexivity.
    + eapply Base_same; [exact B| | | |]; reflexivity.
    + cbn [e_ wm]. intros f Hf Hl Ht. apply in_app_or in Hf. destruct Hf as [Hf|[<-|[]]]; [exact Hf|]. cbn in Ht. contradiction.
Qed.

Lemma LInv_update x h d : LInv x -> LInv (fst (do_update x h d)).
Proof.
  intros (B & W & C). split; [|split].
  - unfold do_update. destruct (live_fact (e_ x) h); cbn [fst]; [|exact B]. apply propagate_type_spec. eapply Base_same; [exact B| | | |]; reflexivity.
  - rewrite <- fst_step_update. apply step_inv. exact W.
  - unfold do_update. destruct (live_fact (e_ x) h) as [f0|] eqn:L; cbn [fst]; [|exact C]. apply (cover_after x); try assumption; try reflexivity.
    + eapply Base_same; [exact B| | | |]; reflexivity.
    + cbn [with_wm e_ wm]. intros f Hf Hl Ht. apply in_map_iff in Hf. destruct Hf as (g & Hg & Hin).
      destruct ((f_h g =? h) && negb (f_retracted g)) eqn:E; [|subst f; exact Hin].
      exfalso. apply andb_true_iff in E. destruct E as [E1 E2]. apply Z.eqb_eq in E1. apply negb_true_iff in E2.
      apply live_fact_h in L. destruct L as (L1 & L2 & L3).
      assert (g = f0) by (apply (unique_by_handle x W); [exact Hin|exact L3|congruence]). subst g f. cbn in Ht. contradiction.
Qed.

Lemma LInv_retract x h : LInv x -> LInv (fst (do_retract x h)).
Proof.
  intros (B & W & C). split; [|split].
  - unfold do_retract. destruct (live_fact (e_ x) h); cbn [fst]; [|exact B]. apply propagate_type_spec. eapply Base_same; [exact B| | | |]; reflexivity.
  - rewrite <- fst_step_retract. apply step_inv. exact W.
  - unfold do_retract. destruct (live_fact (e_ x) h) as [f0|] eqn:L; cbn [fst]; [|exact C]. apply (cover_after x); try assumption; try reflexivity.
    + eapply Base_same; [exact B| | | |]; reflexivity.
    + cbn [with_wm e_ wm]. intros f Hf Hl Ht. apply in_map_iff in Hf. destruct Hf as (g & Hg & Hin).
      destruct (f_h g =? h) eqn:E; [|subst f; exact Hin]. subst f. cbn in Hl. discriminate.
Qed.

(** * fire_all *)
Definition goodb (x : engx) (a : act) : bool :=
  match find (fun r => r_name r =? a_name a) rs with
  | None => false
  | Some rl => match live_fact (e_ x) (mh (matched x) (a_id a)) with
               | None => false
               | Some f => (f_type f =? r_type rl) && eval (f_data f) (r_cond rl) end end.
Definition staleb (x : engx) (a : act) : bool := negb (memZ (a_name a) (fired x)) && negb (goodb x a).
Definition unfiredb (x : engx) (r : rule) : bool := negb (memZ (r_name r) (fired x)).
Definition pot (x : engx) : nat := (length (filter (unfiredb x) rs) + length (filter (staleb x) (hp x)))%nat.

Definition FOK (w : list fact) (fi : firing) : Prop :=
  exists r f, In r rs /\ r_name r = fi_rule fi /\ In f w /\ Sat r f /\ fi_h fi = f_h f /\ fi_data fi = f_data f.
Definition Done (x : engx) : Prop := forall r f, In r rs -> memZ (r_name r) (fired x) = false -> In f (wm (e_ x)) -> Sat r f -> False.

Definition mk_x1 (x : engx) (rest : list act) : engx :=
  {| e_ := {| wm := wm (e_ x); next_h := next_h (e_ x);
              ag := {| groups := [(main_group, rest)]; focus := main_group; stack := []; fired_rules := fired_rules (ag (e_ x));
                       fired_agroups := fired_agroups (ag (e_ x)); locked := locked (ag (e_ x)) |};
              seq := seq (e_ x); rules := rules (e_ x) |}; matched := matched x |}.

Lemma find_rule_unique r : In r rs -> find (fun r' => r_name r' =? r_name r) rs = Some r.
Proof.
  clear Hnl Hinert. induction rs as [|r0 l IH]; intros Hr; [destruct Hr|]. cbn [map] in Hnd. inversion Hnd as [|? ? Hn ND']; subst.
  cbn [find]. destruct Hr as [->|Hr]; [rewrite Z.eqb_refl; reflexivity|].
  destruct (r_name r0 =? r_name r) eqn:E; [|apply IH; assumption]. apply Z.eqb_eq in E. exfalso. apply Hn. rewrite E. apply in_map. exact Hr.
Qed.

Lemma G_good x a : WMInv x -> G x a -> goodb x a = true.
Proof.
  intros W (r & f & Hr & Hf & (S1 & S2 & S3) & Hn & Hm). unfold goodb. rewrite Hn, (find_rule_unique r Hr), Hm, (live_fact_of x f W Hf S1), S2, Z.eqb_refl, S3. reflexivity.
Qed.

Lemma elig_base x a : Base x -> In a (hp x) -> eligible (ag (e_ x)) a = negb (memZ (a_name a) (fired x)).
Proof. intros B Ha. destruct (b_acts x B a Ha) as (A1 & A2 & A3 & _). unfold eligible. rewrite A1, A2, A3. cbn [andb negb]. rewrite !andb_true_r. reflexivity. Qed.

Lemma Base_x1 x p : Base x -> Base (mk_x1 x (filter p (hp x))).
Proof.
  intros B. destruct B as [B1 B2 B3 B4 B5 B6 B7 B8]. constructor; try assumption; try reflexivity.
  - intros a Ha. change (hp (mk_x1 x (filter p (hp x)))) with (filter p (hp x)) in Ha. apply filter_In in Ha. apply B5. apply Ha.
  - change (hp (mk_x1 x (filter p (hp x)))) with (filter p (hp x)). apply ReteAgendaProofs.NoDup_map_filter. exact B6.
Qed.

Lemma same_id_same x a b : Base x -> In a (hp x) -> In b (hp x) -> a_id a = a_id b -> a = b.
Proof.
  intros B. pose proof (b_ids x B) as ND. induction (hp x) as [|z l IH]; intros Ha Hb E; [destruct Ha|]. cbn [map] in ND. inversion ND as [|? ? Hz ND']; subst.
  destruct Ha as [->|Ha], Hb as [->|Hb]; [reflexivity| | |apply IH; assumption].
  - exfalso. apply Hz. rewrite E. apply in_map. exact Hb.
  - exfalso. apply Hz. rewrite <- E. apply in_map. exact Ha.
Qed.

Lemma filter_filter_lt {T} (st p : T -> bool) l a : In a l -> st a = true -> p a = false -> (length (filter st (filter p l)) < length (filter st l))%nat.
Proof.
  induction l as [|y l IH]; intros Ha Hs Hp; [destruct Ha|]. cbn [filter].
  assert (Le : forall l', (length (filter st (filter p l')) <= length (filter st l'))%nat).
  { induction l' as [|z l' IH']; [cbn; lia|]. cbn [filter]. destruct (p z); cbn [filter]; destruct (st z); cbn [length]; lia. }
  destruct Ha as [->|Ha].
  - rewrite Hp, Hs. cbn [length]. specialize (Le l). lia.
  - specialize (IH Ha Hs Hp). destruct (p y); cbn [filter]; destruct (st y); cbn [length]; lia.
Qed.
Lemma filter_filter_le {T} (st p : T -> bool) l : (length (filter st (filter p l)) <= length (filter st l))%nat.
Proof. induction l as [|z l IH]; [cbn; lia|]. cbn [filter]. destruct (p z); cbn [filter]; destruct (st z); cbn [length]; lia. Qed.
Lemma filter_lt_pointwise {T} (q' q : T -> bool) l a : (forall y, q' y = true -> q y = true) -> In a l -> q a = true -> q' a = false ->
  (length (filter q' l) < length (filter q l))%nat.
Proof.
  intros Himp. assert (Le : forall l', (length (filter q' l') <= length (filter q l'))%nat).
  { induction l' as [|z l' IH']; [cbn; lia|]. cbn [filter]. destruct (q' z) eqn:E; [rewrite (Himp z E); cbn [length]; lia|destruct (q z); cbn [length]; lia]. }
  induction l as [|y l IH]; intros Ha Hq Hq'; [destruct Ha|]. cbn [filter]. destruct Ha as [->|Ha].
  - rewrite Hq, Hq'. cbn [length]. specialize (Le l). lia.
  - specialize (IH Ha Hq Hq'). destruct (q' y) eqn:E; [rewrite (Himp y E); cbn [length]; lia|destruct (q y); cbn [length]; lia].
Qed.

Lemma skip_step x a p : LInv x -> In a (hp x) -> eligible (ag (e_ x)) a = true -> p a = false ->
  (forall y, In y (hp x) -> eligible (ag (e_ x)) y = true -> a_id y <> a_id a -> p y = true) ->
  goodb x a = false ->
  LInv (mk_x1 x (filter p (hp x))) /\ (pot (mk_x1 x (filter p (hp x))) < pot x)%nat.
Proof.
  intros (B & W & C) Ha He Hp Hall Hg. split; [split; [apply Base_x1; exact B|split; [exact W|]]|].
  - intros r f Hr Hu Hf HS. destruct (C r f Hr Hu Hf HS) as (b & Hb & Hn & Hm). exists b. split; [|split; assumption].
    change (hp (mk_x1 x (filter p (hp x)))) with (filter p (hp x)). apply filter_In. split; [exact Hb|]. apply Hall; [exact Hb| |].
    + rewrite (elig_base x b B Hb), Hn. change (fired (mk_x1 x (filter p (hp x)))) with (fired x) in Hu. rewrite Hu. reflexivity.
    + intros E. assert (b = a) by (apply (same_id_same x); assumption). subst b.
      assert (goodb x a = true) by (apply G_good; [exact W|exists r, f; auto]). congruence.
  - unfold pot. change (hp (mk_x1 x (filter p (hp x)))) with (filter p (hp x)).
    change (filter (unfiredb (mk_x1 x (filter p (hp x)))) rs) with (filter (unfiredb x) rs).
    change (staleb (mk_x1 x (filter p (hp x)))) with (staleb x).
    assert ((length (filter (staleb x) (filter p (hp x))) < length (filter (staleb x) (hp x)))%nat); [|lia].
    apply (filter_filter_lt _ _ _ a); [exact Ha| |exact Hp]. unfold staleb. rewrite Hg. rewrite (elig_base x a B Ha) in He. rewrite He. reflexivity.
Qed.

Lemma end_step x p : LInv x -> (forall y, In y (hp x) -> eligible (ag (e_ x)) y = false) ->
  LInv (mk_x1 x (filter p (hp x))) /\ Done (mk_x1 x (filter p (hp x))).
Proof.
  intros (B & W & C) Hall.
  assert (D : Done x).
  { intros r f Hr Hu Hf HS. destruct (C r f Hr Hu Hf HS) as (b & Hb & Hn & Hm). pose proof (Hall b Hb) as E. rewrite (elig_base x b B Hb), Hn, Hu in E. discriminate. }
  split; [split; [apply Base_x1; exact B|split; [exact W|]]|exact D].
  intros r f Hr Hu Hf HS. exfalso. exact (D r f Hr Hu Hf HS).
Qed.

Lemma memZ_snoc x l y : memZ x (l ++ [y]) = memZ x l || (x =? y).
Proof. induction l as [|z l IH]; cbn [app memZ]; [rewrite orb_false_r; reflexivity|]. rewrite IH, orb_assoc. reflexivity. Qed.
Lemma NoDup_snoc {T} (l : list T) y : NoDup l -> ~ In y l -> NoDup (l ++ [y]).
Proof.
  induction l as [|z l IH]; intros ND Hn; cbn [app]; [constructor; [intros []|constructor]|]. inversion ND as [|? ? Hz ND']; subst.
  constructor; [intros Hc; apply in_app_or in Hc; destruct Hc as [Hc|[Hc|[]]]; [exact (Hz Hc)|apply Hn; left; symmetry; exact Hc]|].
  apply IH; [exact ND'|intros Hc; apply Hn; right; exact Hc].
Qed.
Lemma NoDup_of_map {T} (g : T -> Z) l : NoDup (map g l) -> NoDup l.
Proof. induction l as [|z l IH]; intros ND; [constructor|]. cbn [map] in ND. inversion ND as [|? ? Hz ND']; subst. constructor; [intros Hc; apply Hz; apply in_map; exact Hc|apply IH; exact ND']. Qed.

Definition mk_x5 (x3 : engx) (a : act) : engx :=
  {| e_ := {| wm := wm (e_ x3); next_h := next_h (e_ x3); ag := mark_fired (ag (e_ x3)) a; seq := seq (e_ x3); rules := rules (e_ x3) |}; matched := matched x3 |}.

Lemma fire_step x a p rl f : LInv x -> In a (hp x) -> eligible (ag (e_ x)) a = true -> p a = false ->
  (forall y, In y (hp x) -> eligible (ag (e_ x)) y = true -> a_id y <> a_id a -> p y = true) ->
  find (fun r => r_name r =? a_name a) rs = Some rl -> live_fact (e_ x) (mh (matched x) (a_id a)) = Some f ->
  (f_type f =? r_type rl) && eval (f_data f) (r_cond rl) = true ->
  let x5 := mk_x5 (propagate_all (mk_x1 x (filter p (hp x)))) a in
  LInv x5 /\ (pot x5 < pot x)%nat /\ fired x5 = fired x ++ [r_name rl] /\ wm (e_ x5) = wm (e_ x) /\
  In rl rs /\ In f (wm (e_ x)) /\ Sat rl f /\ f_h f = mh (matched x) (a_id a).
Proof.
  intros (B & W & C) Ha He Hp Hall Hfind Hlive Hc. cbv zeta.
  set (x1 := mk_x1 x (filter p (hp x))). set (x3 := propagate_all x1). set (x5 := mk_x5 x3 a).
  pose proof (find_some _ _ Hfind) as [Hrl Hname]. apply Z.eqb_eq in Hname.
  apply live_fact_h in Hlive. destruct Hlive as (L1 & L2 & L3).
  apply andb_true_iff in Hc. destruct Hc as [Hc1 Hc2]. apply Z.eqb_eq in Hc1.
  assert (B1 : Base x1) by (apply Base_x1; exact B).
  destruct (propagate_all_spec x1 B1) as (B3 & E3 & H3). fold x3 in B3, E3, H3.
  pose proof (propagate_all_new x1 B1) as N3. fold x3 in N3.
  destruct (b_acts x B a Ha) as (A1 & A2 & A3 & A4 & A5).
  assert (Hunf : memZ (a_name a) (fired x) = false). { rewrite (elig_base x a B Ha) in He. apply negb_true_iff in He. exact He. }
  assert (F3 : fired x3 = fired x) by (rewrite (x_fired _ _ E3); reflexivity).
  assert (F5 : fired x5 = fired x ++ [r_name rl]).
  { unfold fired, x5, mk_x5. cbn [e_ ag mark_fired fired_rules]. unfold addZ. fold (fired x3). rewrite F3, Hunf, Hname. reflexivity. }
  assert (W5 : wm (e_ x5) = wm (e_ x)) by (unfold x5, mk_x5; cbn [e_ wm]; rewrite (x_wm _ _ E3); reflexivity).
  assert (WI5 : WMInv x5).
  { destruct W as (W1 & W2 & W3). unfold WMInv, handles. rewrite W5. unfold x5, mk_x5. cbn [e_ next_h]. rewrite (x_next _ _ E3). cbn [x1 mk_x1 e_ next_h]. auto. }
  assert (B5 : Base x5).
  { destruct B3 as [C1 C2 C3 C4 C5 C6 C7 C8]. constructor; [exact C1|exact C2|exact C3|exact C4|exact C5|exact C6|exact C7|].
    rewrite F5. apply NoDup_snoc; [exact (b_fired x B)|]. rewrite Hname. apply memZ_nIn. exact Hunf. }
  split; [split; [exact B5|split; [exact WI5|]]|].
  { intros r g Hr Hu Hg HS. rewrite F5, memZ_snoc in Hu. apply orb_false_iff in Hu. destruct Hu as [Hu _]. rewrite W5 in Hg.
    destruct (H3 r g Hr Hu Hg HS) as (b & Hb & Hn & Hm). exists b. auto. }
  split; [|split; [exact F5|split; [exact W5|split; [exact Hrl|split; [exact L3|split; [repeat split; assumption|exact L1]]]]]].
  (* the potential *)
  unfold pot.
  assert (U : (length (filter (unfiredb x5) rs) < length (filter (unfiredb x) rs))%nat).
  { apply (filter_lt_pointwise _ _ _ rl); [|exact Hrl| |].
    - intros y Hy. unfold unfiredb in *. rewrite F5, memZ_snoc in Hy. apply negb_true_iff in Hy. apply orb_false_iff in Hy. destruct Hy as [Hy _]. rewrite Hy. reflexivity.
    - unfold unfiredb. rewrite Hname, Hunf. reflexivity.
    - unfold unfiredb. rewrite F5, memZ_snoc, Z.eqb_refl, orb_true_r. reflexivity. }
  assert (S5 : (length (filter (staleb x5) (hp x5)) <= length (filter (staleb x) (hp x)))%nat); [|lia].
  etransitivity; [|apply (filter_filter_le (staleb x) p)].
  apply NoDup_incl_length; [apply NoDup_filter; apply (NoDup_of_map a_id); exact (b_ids x3 B3)|].
  intros y Hy. apply filter_In in Hy. destruct Hy as [Hy Hs]. change (hp x5) with (hp x3) in Hy.
  unfold staleb in Hs. apply andb_true_iff in Hs. destruct Hs as [Hs1 Hs2]. apply negb_true_iff in Hs2.
  destruct (N3 y Hy) as [Hy1|Hg]; [|exfalso; assert (goodb x5 y = true) by (apply G_good; [exact WI5|exact Hg]); congruence].
  apply filter_In. split; [exact Hy1|]. unfold staleb. apply andb_true_iff. split.
  - rewrite F5, memZ_snoc in Hs1. apply negb_true_iff in Hs1. apply orb_false_iff in Hs1. destruct Hs1 as [Hs1 _]. rewrite Hs1. reflexivity.
  - apply negb_true_iff. rewrite <- Hs2. unfold goodb. change (matched x5) with (matched x3). rewrite (x_mh _ _ E3 y Hy1). unfold live_fact. rewrite W5. reflexivity.
Qed.

Lemma rule_inert r : In r rs -> r_action r = ANop.
Proof. intros H. unfold inert in Hinert. rewrite forallb_forall in Hinert. specialize (Hinert r H). destruct (r_action r); [reflexivity|discriminate|discriminate]. Qed.

Lemma fire_loop_once : forall fuel iter x out x' out',
  LInv x -> (N.of_nat fuel + iter = 2 + incr_max_iterations)%N -> (iter + N.of_nat (pot x) <= incr_max_iterations)%N ->
  fire_loop fuel iter x out = (x', out') ->
  exists new, out' = out ++ new /\ fired x' = fired x ++ map fi_rule new /\ Forall (FOK (wm (e_ x))) new /\
              LInv x' /\ wm (e_ x') = wm (e_ x) /\ Done x'.
Proof.
  induction fuel as [|fu IH]; intros iter x out x' out' HL Hfuel Hpot H; [lia|].
  pose proof HL as (B & W & C).
  cbn [fire_loop] in H. rewrite (b_stack x B) in H. cbn [length] in H.
  rewrite (get_next_shape (ag (e_ x)) (hp x) (b_groups x B) (b_focus x B) (b_stack x B)) in H.
  destruct (pop_eligible (S (length (hp x))) (ag (e_ x)) (hp x)) as [r rest] eqn:PE. cbn [fst snd] in H.
  destruct (pe_spec (ag (e_ x)) (S (length (hp x))) (hp x) r rest (Nat.lt_succ_diag_r _) (b_ids x B) PE) as (p & Hrest & Hs). subst rest.
  change {| e_ := _; matched := matched x |} with (mk_x1 x (filter p (hp x))) in H.
  destruct r as [a|].
  2:{ inversion H; subst x' out'. destruct (end_step x p HL Hs) as (L1 & D1). exists []. cbn [map]. rewrite !app_nil_r. split; [reflexivity|]. split; [reflexivity|]. split; [constructor|]. split; [exact L1|]. split; [reflexivity|exact D1]. }
  destruct Hs as (Ha & He & Hp & Hall).
  (* the iteration bound is not reached: the popped activation is stale or its rule is unfired *)
  assert (Hpos : (1 <= pot x)%nat).
  { unfold pot. destruct (goodb x a) eqn:Gd.
    - unfold goodb in Gd. destruct (find (fun r => r_name r =? a_name a) rs) as [rl|] eqn:F; [|discriminate].
      pose proof (find_some _ _ F) as [Hrl Hn]. apply Z.eqb_eq in Hn.
      assert (In rl (filter (unfiredb x) rs)).
      { apply filter_In. split; [exact Hrl|]. unfold unfiredb. rewrite Hn. rewrite (elig_base x a B Ha) in He. exact He. }
      destruct (filter (unfiredb x) rs); [contradiction|cbn [length]; lia].
    - assert (In a (filter (staleb x) (hp x))).
      { apply filter_In. split; [exact Ha|]. unfold staleb. rewrite Gd. rewrite (elig_base x a B Ha) in He. rewrite He. reflexivity. }
      destruct (filter (staleb x) (hp x)); [contradiction|cbn [length]; lia]. }
  assert (Hit : (incr_max_iterations <? iter + 1)%N = false) by (apply N.ltb_ge; lia). rewrite Hit in H.
  rewrite (b_rules x B) in H.
  change (match find (fun q1 : Z * Z => fst q1 =? a_id a) (matched x) with Some q2 => snd q2 | None => 0 end) with (mh (matched x) (a_id a)) in H.
  change (live_fact (e_ (mk_x1 x (filter p (hp x)))) (mh (matched x) (a_id a))) with (live_fact (e_ x) (mh (matched x) (a_id a))) in H.
  assert (Skip : goodb x a = false -> fire_loop fu (iter + 1) (mk_x1 x (filter p (hp x))) out = (x', out') ->
          exists new, out' = out ++ new /\ fired x' = fired x ++ map fi_rule new /\ Forall (FOK (wm (e_ x))) new /\ LInv x' /\ wm (e_ x') = wm (e_ x) /\ Done x').
  { intros Gd H'. destruct (skip_step x a p HL Ha He Hp Hall Gd) as (L1 & P1).
    apply (IH (iter + 1)%N _ out x' out' L1) in H'; [exact H'|lia|lia]. }
  destruct (find (fun r => r_name r =? a_name a) rs) as [rl|] eqn:F.
  2:{ apply Skip; [unfold goodb; rewrite F; reflexivity|exact H]. }
  destruct (live_fact (e_ x) (mh (matched x) (a_id a))) as [f|] eqn:L.
  2:{ apply Skip; [unfold goodb; rewrite F, L; reflexivity|exact H]. }
  destruct ((f_type f =? r_type rl) && eval (f_data f) (r_cond rl)) eqn:Cd; cbn [negb] in H.
  2:{ apply Skip; [unfold goodb; rewrite F, L, Cd; reflexivity|exact H]. }
  destruct (fire_step x a p rl f HL Ha He Hp Hall F L Cd) as (L5 & P5 & F5 & W5 & Hrl & Hf & HS & Hh).
  assert (Act : r_action rl = ANop) by (apply rule_inert; exact Hrl).
  unfold apply_action in H. rewrite Act in H. cbn [fst] in H.
  change {| e_ := _; matched := matched (propagate_all (mk_x1 x (filter p (hp x)))) |} with (mk_x5 (propagate_all (mk_x1 x (filter p (hp x)))) a) in H.
  apply (IH (iter + 1)%N _ _ x' out' L5) in H; [|lia|lia].
  destruct H as (new & Hout & Hfired & Hfok & Lx' & Wx' & Dx').
  exists ({| fi_rule := r_name rl; fi_h := mh (matched x) (a_id a); fi_data := f_data f |} :: new).
  split; [rewrite Hout, <- app_assoc; reflexivity|]. split; [rewrite Hfired, F5, <- app_assoc; reflexivity|].
  split; [|split; [exact Lx'|split; [rewrite Wx'; exact W5|exact Dx']]].
  constructor; [|rewrite W5 in Hfok; exact Hfok]. exists rl, f. cbn [fi_rule fi_h fi_data]. repeat split; try assumption; try reflexivity; try apply HS. symmetry. exact Hh.
Qed.

(** the heap of pending activations and the rule set fit inside the iteration bound of fire_all *)
Definition fits (x : engx) : Prop := (N.of_nat (length rs + length (hp x)) <= incr_max_iterations)%N.

Theorem fire_all_once x x' fs : LInv x -> fits x -> fire_all x = (x', fs) ->
  LInv x' /\ wm (e_ x') = wm (e_ x) /\ fired x' = fired x ++ map fi_rule fs /\
  NoDup (map fi_rule fs) /\
  (forall n, In n (map fi_rule fs) <->
             ~ In n (fired x) /\ exists r f, In r rs /\ r_name r = n /\ In f (wm (e_ x)) /\ Sat r f) /\
  Forall (FOK (wm (e_ x))) fs.
Proof.
  intros HL Hfit H. unfold fire_all in H.
  assert (Hpot : (0 + N.of_nat (pot x) <= incr_max_iterations)%N).
  { unfold fits in Hfit. unfold pot. pose proof (ReteAgendaProofs.filter_length_le' (unfiredb x) rs). pose proof (ReteAgendaProofs.filter_length_le' (staleb x) (hp x)). lia. }
  apply (fire_loop_once _ 0%N x [] x' fs HL) in H; [|lia|exact Hpot].
  destruct H as (new & Hout & Hfired & Hfok & Lx' & Wx' & Dx'). cbn [app] in Hout. subst new.
  pose proof (b_fired x' (proj1 Lx')) as ND. rewrite Hfired in ND.
  split; [exact Lx'|]. split; [exact Wx'|]. split; [exact Hfired|].
  split; [clear - ND; induction (fired x) as [|z l IH]; [exact ND|cbn [app] in ND; inversion ND; subst; apply IH; assumption]|]. split; [|exact Hfok].
  intros n. split.
  - intros Hn. split.
    + intros Hc. clear - ND Hn Hc. induction (fired x) as [|z l IH]; [destruct Hc|]. cbn [app] in ND. inversion ND as [|? ? Hz ND']; subst.
      destruct Hc as [->|Hc]; [apply Hz; apply in_or_app; right; exact Hn|apply IH; assumption].
    + apply in_map_iff in Hn. destruct Hn as (fi & Hfi & Hin). rewrite Forall_forall in Hfok. destruct (Hfok fi Hin) as (r & f & H1 & H2 & H3 & H4 & _).
      exists r, f. rewrite H2. auto.
  - intros (Hnf & r & f & Hr & Hn & Hf & HS). destruct (memZ (r_name r) (fired x')) eqn:M.
    + apply memZ_In in M. rewrite Hfired in M. apply in_app_or in M. destruct M as [M|M]; [exfalso; apply Hnf; rewrite <- Hn; exact M|rewrite <- Hn; exact M].
    + exfalso. apply (Dx' r f Hr M); [rewrite Wx'; exact Hf|exact HS].
Qed.

(** histories: insert / update / retract / fire_all (no reset); every fire_all must fit the iteration bound *)
Fixpoint hist_ok (x : engx) (ops : list op) : Prop :=
  match ops with
  | [] => True
  | OReset :: _ => False
  | OFire :: r => fits x /\ hist_ok (fst (step false x OFire)) r
  | o :: r => hist_ok (fst (step false x o)) r
  end.

Lemma init_LInv : LInv {| e_ := init rs; matched := [] |}.
Proof.
  split; [|split; [apply IncrementalViewsProofs.init_inv|intros r f _ _ []]].
  constructor; try reflexivity; cbn; try (intros ? []); constructor.
Qed.

Lemma exec_LInv ops : forall x, LInv x -> hist_ok x ops -> LInv (exec false x ops).
Proof.
  induction ops as [|o r IH]; intros x HL Hok; cbn [exec]; [exact HL|].
  destruct o as [t d|h d|h| |]; cbn [hist_ok] in Hok.
  - apply IH; [|exact Hok]. rewrite fst_step_insert. apply LInv_insert. exact HL.
  - apply IH; [|exact Hok]. rewrite fst_step_update. apply LInv_update. exact HL.
  - apply IH; [|exact Hok]. rewrite fst_step_retract. apply LInv_retract. exact HL.
  - destruct Hok as [Hfit Hok]. apply IH; [|exact Hok]. cbn [step]. destruct (fire_all x) as [x' fs] eqn:E. cbn [fst].
    apply (fire_all_once x x' fs HL Hfit E).
  - destruct Hok.
Qed.
End Once.

(** * statements used by Properties/C06.v *)
Definition is_edit (o : op) : bool := match o with OInsert _ _ | OUpdate _ _ | ORetract _ => true | _ => false end.

Lemma edits_hist_ok rs ops : forallb is_edit ops = true -> forall x, hist_ok rs x ops.
Proof. induction ops as [|o r IH]; intros H x; [exact I|]. cbn [forallb] in H. apply andb_true_iff in H. destruct H as [H1 H2]. destruct o; try discriminate; cbn [hist_ok]; apply IH; exact H2. Qed.

Lemma edits_fired rs : forallb r_noloop rs = true -> forall ops x, Base rs x -> forallb is_edit ops = true ->
  Base rs (exec false x ops) /\ fired (exec false x ops) = fired x.
Proof.
  intros Hnl. induction ops as [|o r IH]; intros x B H; cbn [exec]; [split; [exact B|reflexivity]|].
  cbn [forallb] in H. apply andb_true_iff in H. destruct H as [H1 H2].
  assert (St : Base rs (fst (step false x o)) /\ fired (fst (step false x o)) = fired x).
  { destruct o as [t d|h d|h| |]; try discriminate.
    - rewrite fst_step_insert. unfold do_insert. cbn [fst].
      match goal with |- context [propagate_type ?X1 t] => assert (B1 : Base rs X1) by (eapply Base_same; [exact B| | | |]; reflexivity);
        destruct (propagate_type_spec rs Hnl X1 t B1) as (B2 & E2 & _) end. split; [exact B2|]. rewrite (x_fired _ _ E2). reflexivity.
    - rewrite fst_step_update. unfold do_update. destruct (live_fact (e_ x) h); cbn [fst]; [|split; [exact B|reflexivity]].
      match goal with |- context [propagate_type ?X1 ?T] => assert (B1 : Base rs X1) by (eapply Base_same; [exact B| | | |]; reflexivity);
        destruct (propagate_type_spec rs Hnl X1 T B1) as (B2 & E2 & _) end. split; [exact B2|]. rewrite (x_fired _ _ E2). reflexivity.
    - rewrite fst_step_retract. unfold do_retract. destruct (live_fact (e_ x) h); cbn [fst]; [|split; [exact B|reflexivity]].
      match goal with |- context [propagate_type ?X1 ?T] => assert (B1 : Base rs X1) by (eapply Base_same; [exact B| | | |]; reflexivity);
        destruct (propagate_type_spec rs Hnl X1 T B1) as (B2 & E2 & _) end. split; [exact B2|]. rewrite (x_fired _ _ E2). reflexivity. }
  destruct St as [B1 F1]. destruct (IH _ B1 H2) as [B2 F2]. split; [exact B2|]. rewrite F2. exact F1.
Qed.

Theorem fire_exactly_once rs ops x' fs :
  forallb r_noloop rs = true -> inert rs = true -> NoDup (map r_name rs) ->
  let x0 := {| e_ := init rs; matched := [] |} in
  let x := exec false x0 ops in
  hist_ok rs x0 ops -> fits rs x -> fire_all x = (x', fs) ->
  NoDup (map fi_rule fs) /\
  (forall n, In n (map fi_rule fs) <->
             ~ In n (fired x) /\ exists r f, In r rs /\ r_name r = n /\ In f (wm (e_ x)) /\ Sat r f) /\
  fired x' = fired x ++ map fi_rule fs /\ wm (e_ x') = wm (e_ x).
Proof.
  intros Hnl Hin Hnd x0 x Hok Hfit H.
  destruct (fire_all_once rs Hnl Hin Hnd x x' fs (exec_LInv rs Hnl Hin Hnd ops x0 (init_LInv rs) Hok) Hfit H) as (_ & W & F & ND & Hiff & _).
  auto.
Qed.

Theorem first_fire_exactly_once rs ops x' fs :
  forallb r_noloop rs = true -> inert rs = true -> NoDup (map r_name rs) ->
  forallb is_edit ops = true ->
  let x := exec false {| e_ := init rs; matched := [] |} ops in
  fits rs x -> fire_all x = (x', fs) ->
  NoDup (map fi_rule fs) /\
  forall n, In n (map fi_rule fs) <-> exists r f, In r rs /\ r_name r = n /\ In f (wm (e_ x)) /\ Sat r f.
Proof.
  intros Hnl Hin Hnd Hed x Hfit H.
  destruct (fire_exactly_once rs ops x' fs Hnl Hin Hnd (edits_hist_ok rs ops Hed _) Hfit H) as (ND & Hiff & _).
  split; [exact ND|]. intros n. rewrite Hiff.
  destruct (edits_fired rs Hnl ops _ (proj1 (init_LInv rs)) Hed) as [_ F]. unfold x in *. rewrite F. cbn [fired init e_ ag fired_rules ReteAgenda.init].
  split; [intros [_ E]; exact E|intros E; split; [intros []|exact E]].
Qed.
