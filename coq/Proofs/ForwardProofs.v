(** C01 — proofs about the forward-chaining model: the pass loop is a simulation (whatever the documented
    semantics prescribes for a run, the engine model does, provided each single consideration agrees). *)
From RRE Require Import Base.Sx Base.Float Base.Num Model.ExprShape Model.Forward Model.ForwardSpec.
From Coq Require Import Lia.
Open Scope Z_scope.

Section LoopSim.
Context {R1 R2 : Type}.
Variable step1 : facts -> R1 -> option sres.     (* documented reading: None = undefined *)
Variable step2 : facts -> R2 -> option sres.     (* the engine *)
Variable rel : R1 -> R2 -> Prop.
Hypothesis step_agree : forall f r1 r2 x, rel r1 r2 -> step1 f r1 = Some x -> step2 f r2 = Some x.

Definition rel_rules (a : list (Z * R1)) (b : list (Z * R2)) : Prop :=
  Forall2 (fun x y => fst x = fst y /\ rel (snd x) (snd y)) a b.

Lemma pass_sim : forall rs1 rs2, rel_rules rs1 rs2 -> forall s any res,
  pass step1 rs1 s any = Some res -> pass step2 rs2 s any = Some res.
Proof.
  induction 1 as [|[i r1] [j r2] rs1 rs2 [Hi Hr] Hrest IH]; intros s any res H; cbn [pass] in *; [exact H|].
  cbn [fst snd] in Hi, Hr. subst j.
  destruct (existsb (Z.eqb i) (l_fired s)); [apply IH; exact H|].
  destruct (step1 (l_f s) r1) as [x|] eqn:S1; [|discriminate].
  rewrite (step_agree _ _ _ _ Hr S1).
  destruct x as [f'| |k f']; [apply IH; exact H|apply IH; exact H|exact H].
Qed.

Lemma cycles_sim : forall fuel rs1 rs2, rel_rules rs1 rs2 -> forall s n res,
  cycles step1 fuel rs1 s n = Some res -> cycles step2 fuel rs2 s n = Some res.
Proof.
  induction fuel as [|fu IH]; intros rs1 rs2 Hr s n res H; cbn [cycles] in *; [exact H|].
  destruct (pass step1 rs1 s false) as [[[s' k] any]|] eqn:P; [|discriminate].
  rewrite (pass_sim _ _ Hr _ _ _ P).
  destruct (negb (k =? 0)); [exact H|]. destruct any; [apply (IH _ _ Hr); exact H|exact H].
Qed.

Theorem run_rules_sim : forall rs1 rs2 f res, rel_rules rs1 rs2 ->
  run_rules step1 rs1 f = Some res -> run_rules step2 rs2 f = Some res.
Proof. intros rs1 rs2 f res Hr H. unfold run_rules in *. eapply cycles_sim; eassumption. Qed.
End LoopSim.

(** sorting by salience keeps two rule lists with the same saliences and indices aligned *)
Lemma ins_sal_rel {T1 T2} (rel : T1 -> T2 -> Prop) : forall (l1 : list (Z * Z * T1)) (l2 : list (Z * Z * T2)) x1 x2,
  Forall2 (fun a b => fst a = fst b /\ rel (snd a) (snd b)) l1 l2 ->
  fst x1 = fst x2 -> rel (snd x1) (snd x2) ->
  Forall2 (fun a b => fst a = fst b /\ rel (snd a) (snd b)) (ins_sal x1 l1) (ins_sal x2 l2).
Proof.
  induction 1 as [|y1 y2 l1 l2 [Hy1 Hy2] Hrest IH]; intros Hx1 Hx2; cbn [ins_sal].
  - constructor; [split; assumption|constructor].
  - rewrite <- Hy1, <- Hx1.
    destruct (fst (fst y1) <? fst (fst x1)).
    + constructor; [split; assumption|]. constructor; [split; assumption|exact Hrest].
    + constructor; [split; assumption|]. apply IH; assumption.
Qed.

Lemma by_salience_rel {T1 T2} (rel : T1 -> T2 -> Prop) (l1 : list (Z * Z * T1)) (l2 : list (Z * Z * T2)) :
  Forall2 (fun a b => fst a = fst b /\ rel (snd a) (snd b)) l1 l2 ->
  Forall2 (fun x y => fst x = fst y /\ rel (snd x) (snd y)) (by_salience l1) (by_salience l2).
Proof.
  intros H. unfold by_salience.
  assert (G : forall a1 a2, Forall2 (fun a b => fst a = fst b /\ rel (snd a) (snd b)) a1 a2 ->
              Forall2 (fun a b => fst a = fst b /\ rel (snd a) (snd b))
                      (fold_left (fun acc x => ins_sal x acc) l1 a1) (fold_left (fun acc x => ins_sal x acc) l2 a2)).
  { induction H as [|x1 x2 l1 l2 [Hx1 Hx2] Hrest IH]; intros a1 a2 Ha; cbn [fold_left]; [exact Ha|].
    apply IH. apply ins_sal_rel; assumption. }
  specialize (G [] [] (Forall2_nil _)).
  induction G as [|[[s1 i1] r1] [[s2 i2] r2] m1 m2 [Hk Hr] Hrest IH]; cbn [map]; [constructor|].
  constructor; [|exact IH]. cbn [fst snd] in *. inversion Hk. split; [reflexivity|exact Hr].
Qed.
