(** C01 — one consideration of a rule: whenever the documented meaning of the condition and of the
    assignments is defined, the engine (on the rule the parser produces for the printed text) computes
    exactly it.  Proofs. *)
From RRE Require Import Base.Sx Base.Float Base.Num Model.ExprShape Model.Forward Model.ForwardSpec
  Proofs.ExprShapeProofs Proofs.ForwardExprProofs.
From Coq Require Import Lia.
Open Scope Z_scope.

(** ---------- leaves ---------- *)
Lemma get_nested_nil t : get_nested [] t = None.
Proof. unfold get_nested. destruct (parts_of t); reflexivity. Qed.

Lemma eleaf_ok_mono t v f : eleaf [] t = EOk v -> eleaf f t = EOk v.
Proof.
  unfold eleaf. rewrite get_nested_nil. cbn [fget].
  destruct ((2 <=? blen t) && (quoted t 34 || quoted t 39)).
  - destruct (slice t 1 (blen t - 1)) as [inner|]; [|discriminate].
    destruct ((quoted t 34 && negb (memc 34 inner)) || (quoted t 39 && negb (memc 39 inner))); [intros H; exact H|].
    destruct (parse_i64 t); [intros H; exact H|]. destruct (parse_f64 t); [intros H; exact H|discriminate].
  - destruct (parse_i64 t); [intros H; exact H|]. destruct (parse_f64 t); [intros H; exact H|discriminate].
Qed.

Definition lookup_expr (f : facts) (t : str) : eres :=
  match fget f t with Some v => EOk v | None => match get_nested f t with Some v => EOk v | None => EErr end end.

Lemma eleaf_err_lookup t f : eleaf [] t = EErr -> eleaf f t = lookup_expr f t.
Proof.
  unfold eleaf, lookup_expr. rewrite get_nested_nil. cbn [fget].
  destruct ((2 <=? blen t) && (quoted t 34 || quoted t 39)).
  - destruct (slice t 1 (blen t - 1)) as [inner|]; [|discriminate].
    destruct ((quoted t 34 && negb (memc 34 inner)) || (quoted t 39 && negb (memc 39 inner))); [discriminate|].
    destruct (parse_i64 t); [discriminate|]. destruct (parse_f64 t); [discriminate|reflexivity].
  - destruct (parse_i64 t); [discriminate|]. destruct (parse_f64 t); [discriminate|reflexivity].
Qed.

(** ---------- arithmetic ---------- *)
Lemma sem_apply op x y v : sem_arith op x y = Some v -> apply_operator x op y = EOk v.
Proof.
  unfold sem_arith, apply_operator.
  destruct x as [sx|nx|zx|bx|lx|ox| |ex]; destruct y as [sy|ny|zy|by_|ly|oy| |ey]; cbn [num_of]; try discriminate.
  - (* string, string *)
    destruct (parse_f64 sx) as [a|], (parse_f64 sy) as [b|]; cbn [negb andb]; rewrite ?andb_false_r; try discriminate;
      destruct (op =? 43); cbn [andb]; try discriminate; intros H; inversion H; reflexivity.
  - (* float, float *)
    intros H. destruct (op =? 43); [inversion H; reflexivity|]. destruct (op =? 45); [inversion H; reflexivity|].
    destruct (op =? 42); [inversion H; reflexivity|]. destruct (op =? 47); [destruct (feqb ny fzero); [discriminate|inversion H; reflexivity]|].
    destruct (op =? 37); [inversion H; reflexivity|discriminate].
  - (* float, int *)
    intros H. destruct (op =? 43); [inversion H; reflexivity|]. destruct (op =? 45); [inversion H; reflexivity|].
    destruct (op =? 42); [inversion H; reflexivity|]. destruct (op =? 47); [destruct (feqb (f_of_Z zy) fzero); [discriminate|inversion H; reflexivity]|].
    destruct (op =? 37); [inversion H; reflexivity|discriminate].
  - (* int, float *)
    intros H. destruct (op =? 43); [inversion H; reflexivity|]. destruct (op =? 45); [inversion H; reflexivity|].
    destruct (op =? 42); [inversion H; reflexivity|]. destruct (op =? 47); [destruct (feqb ny fzero); [discriminate|inversion H; reflexivity]|].
    destruct (op =? 37); [inversion H; reflexivity|discriminate].
  - (* int, int *)
    destruct (exact_int zx op zy) as [z|] eqn:E; [intros H; inversion H; reflexivity|].
    destruct (op =? 47) eqn:O47; cbn [andb]; [|discriminate].
    destruct (negb (zy =? 0)); cbn [andb]; [|discriminate]. destruct (negb (Z.rem zx zy =? 0)); cbn [andb]; [|discriminate].
    destruct (feqb (f_of_Z zy) fzero); cbn [negb]; [discriminate|].
    intros H. inversion H.
    assert (O43 : (op =? 43) = false) by (apply Z.eqb_eq in O47; subst op; reflexivity).
    assert (O45 : (op =? 45) = false) by (apply Z.eqb_eq in O47; subst op; reflexivity).
    assert (O42 : (op =? 42) = false) by (apply Z.eqb_eq in O47; subst op; reflexivity).
    rewrite O43, O45, O42. reflexivity.
Qed.

Lemma sget_lookup f t v : sget f t = Some v -> lookup_expr f t = EOk v.
Proof. unfold sget, lookup_expr. destruct (fget f t); [intros H; inversion H; reflexivity|]. intros H. rewrite H. reflexivity. Qed.

Lemma sget_none_lookup f t : sget f t = None -> lookup_expr f t = EErr /\ fget f t = None /\ get_nested f t = None.
Proof. unfold sget, lookup_expr. destruct (fget f t); [discriminate|]. intros H. rewrite H. repeat split. Qed.

(** L1: the tree-level evaluator computes the documented value *)
Lemma meval_den f : forall e v, atoms_ok e -> den f e = Some v -> meval f e = EOk v.
Proof.
  induction e as [l|p|op a IHa b IHb|a IHa]; intros v Ha Hd; cbn [meval den atoms_ok] in *.
  - destruct Ha as [v' [D E]]. rewrite D in Hd. inversion Hd; subst. apply eleaf_ok_mono. exact E.
  - rewrite (eleaf_err_lookup _ f Ha). apply sget_lookup. exact Hd.
  - destruct Ha as [Ha Hb]. destruct (den f a) as [x|] eqn:Da; [|discriminate]. destruct (den f b) as [y|] eqn:Db; [|discriminate].
    rewrite (IHa x Ha eq_refl), (IHb y Hb eq_refl). apply sem_apply. exact Hd.
  - apply IHa; assumption.
Qed.

Theorem evaluate_expression_den f e v : wf e = true -> atoms_ok e -> den f e = Some v ->
  evaluate_expression f (pr e) = EOk v.
Proof. intros Hw Ha Hd. rewrite evaluate_expression_print by exact Hw. apply meval_den; assumption. Qed.

(** ---------- comparisons ---------- *)
Section ValueInd.
Variable P : value -> Prop.
Hypothesis HStr : forall s, P (VStr s).
Hypothesis HNum : forall x, P (VNum x).
Hypothesis HInt : forall z, P (VInt z).
Hypothesis HBool : forall b, P (VBool b).
Hypothesis HArr : forall l, Forall P l -> P (VArr l).
Hypothesis HObj : forall fs, P (VObj fs).
Hypothesis HNull : P VNull.
Hypothesis HExpr : forall s, P (VExpr s).
Fixpoint value_ind_arr (v : value) : P v :=
  match v with
  | VStr s => HStr s | VNum x => HNum x | VInt z => HInt z | VBool b => HBool b
  | VArr l => HArr l ((fix go (l : list value) : Forall P l :=
                         match l with [] => Forall_nil P | x :: r => Forall_cons x (value_ind_arr x) (go r) end) l)
  | VObj fs => HObj fs | VNull => HNull | VExpr s => HExpr s
  end.
End ValueInd.

(** wherever the documented equality is defined, the derived PartialEq agrees with it *)
Lemma sem_eq_veqb : forall x y b, sem_eq x y = Some b -> veqb x y = b.
Proof.
  induction x as [s|n|z|c|l IH|fs| |e] using value_ind_arr; intros y b H; destruct y as [sy|ny|zy|cy|ly|oy| |ey];
    cbn [sem_eq veqb] in *; try discriminate; try (inversion H; reflexivity);
    try (destruct (str_eqb _ s_null); [discriminate|inversion H; reflexivity]).
  (* arrays *)
  revert ly b H. induction l as [|u l IHl]; intros ly b H; destruct ly as [|w ly]; try (inversion H; reflexivity).
  inversion IH as [|? ? Hu Hl]; subst.
  destruct (sem_eq u w) as [p|] eqn:E; [|discriminate].
  match type of H with match ?g with _ => _ end = _ => destruct g as [q|] eqn:G; [|discriminate] end.
  inversion H; subst. rewrite (Hu w p E). f_equal. exact (IHl Hl ly q G).
Qed.

Lemma sem_mem_existsb x : forall l b, sem_mem x l = Some b -> existsb (fun e => veqb e x) l = b.
Proof.
  induction l as [|y l IH]; intros b H; cbn [sem_mem existsb] in *; [inversion H; reflexivity|].
  destruct (sem_eq y x) as [p|] eqn:E; [|discriminate]. destruct (sem_mem x l) as [q|]; [|discriminate].
  inversion H; subst. rewrite (sem_eq_veqb y x p E), (IH q eq_refl). reflexivity.
Qed.

Lemma sem_eq_op x y b : sem_eq x y = Some b -> op_eval OEq x y = b.
Proof.
  intros H. pose proof (sem_eq_veqb x y b H) as V. unfold op_eval.
  destruct x as [s|n|z|c|l|fs| |e]; destruct y as [sy|ny|zy|cy|ly|oy| |ey]; try exact V;
    cbn [sem_eq is_nullish] in *; try discriminate; try (inversion H; reflexivity);
    try (destruct (str_eqb _ s_null); [discriminate|inversion H; reflexivity]).
Qed.

(** L4: wherever the documented comparison is defined, Operator::evaluate computes it *)
Theorem sem_cmp_op o x y b : sem_cmp o x y = Some b -> op_eval o x y = b.
Proof.
  destruct o; cbn [sem_cmp]; try discriminate.
  - apply sem_eq_op.
  - intros H. destruct (sem_eq x y) as [b'|] eqn:E; [|discriminate]. inversion H; subst.
    pose proof (sem_eq_op x y b' E) as V. unfold op_eval in *.
    destruct x; destruct y; try (rewrite V; reflexivity).
  - (* > *) intros H. unfold op_eval, ord2, num2.
    destruct x as [s|n|z|c|l|fs| |e]; destruct y as [sy|ny|zy|cy|ly|oy| |ey]; cbn [num_of to_number] in *; try discriminate;
      try (inversion H; reflexivity); try (destruct (parse_f64 _); inversion H; reflexivity).
  - (* >= *) intros H. unfold op_eval, ord2, num2.
    destruct x as [s|n|z|c|l|fs| |e]; destruct y as [sy|ny|zy|cy|ly|oy| |ey]; cbn [num_of to_number] in *; try discriminate;
      try (inversion H; reflexivity); try (destruct (parse_f64 _); inversion H; reflexivity).
  - (* < *) intros H. unfold op_eval, ord2, num2.
    destruct x as [s|n|z|c|l|fs| |e]; destruct y as [sy|ny|zy|cy|ly|oy| |ey]; cbn [num_of to_number] in *; try discriminate;
      try (inversion H; reflexivity); try (destruct (parse_f64 _); inversion H; reflexivity).
  - (* <= *) intros H. unfold op_eval, ord2, num2.
    destruct x as [s|n|z|c|l|fs| |e]; destruct y as [sy|ny|zy|cy|ly|oy| |ey]; cbn [num_of to_number] in *; try discriminate;
      try (inversion H; reflexivity); try (destruct (parse_f64 _); inversion H; reflexivity).
  - (* contains *) intros H. unfold op_eval, str2.
    destruct x as [s|n|z|c|l|fs| |e]; try discriminate.
    + destruct y; try discriminate. inversion H; reflexivity.
    + apply sem_mem_existsb. exact H.
    + inversion H. destruct y; reflexivity.
  - (* startsWith *) intros H. unfold op_eval, str2.
    destruct x as [s|n|z|c|l|fs| |e]; try discriminate; [destruct y; try discriminate; inversion H; reflexivity|inversion H; destruct y; reflexivity].
  - (* endsWith *) intros H. unfold op_eval, str2.
    destruct x as [s|n|z|c|l|fs| |e]; try discriminate; [destruct y; try discriminate; inversion H; reflexivity|inversion H; destruct y; reflexivity].
  - (* in *) intros H. unfold op_eval. destruct y; try discriminate. apply sem_mem_existsb. exact H.
Qed.

(** ---------- the engine's condition evaluation never panics (every slice is valid) ---------- *)
Definition no_panic (r : eres) : Prop := r <> EPanic /\ r <> EFuel.

Lemma eleaf_no_panic f e : no_panic (eleaf f e).
Proof.
  unfold eleaf, no_panic.
  assert (L : forall x, (match parse_i64 e with
                         | Some i => EOk (VInt i)
                         | None => match parse_f64 e with
                                   | Some x => EOk (VNum x)
                                   | None => match fget f e with Some v => EOk v | None => match get_nested f e with Some v => EOk v | None => EErr end end
                                   end end) = x -> x <> EPanic /\ x <> EFuel).
  { intros x Hx. subst x. destruct (parse_i64 e); [split; discriminate|]. destruct (parse_f64 e); [split; discriminate|].
    destruct (fget f e); [split; discriminate|]. destruct (get_nested f e); split; discriminate. }
  destruct ((2 <=? blen e) && (quoted e 34 || quoted e 39)) eqn:G; [|apply (L _ eq_refl)].
  apply andb_true_iff in G. destruct G as [G1 G2]. apply Z.leb_le in G1.
  destruct (slice e 1 (blen e - 1)) as [inner|] eqn:S.
  - destruct ((quoted e 34 && negb (memc 34 inner)) || (quoted e 39 && negb (memc 39 inner))); [split; discriminate|apply (L _ eq_refl)].
  - exfalso. apply orb_true_iff in G2. destruct G2 as [G2|G2];
      [apply (quoted_slice e 34) in G2; [contradiction|lia|exact G1]|apply (quoted_slice e 39) in G2; [contradiction|lia|exact G1]].
Qed.

Lemma apply_operator_no_panic l op r : no_panic (apply_operator l op r).
Proof.
  unfold apply_operator, no_panic.
  repeat match goal with
         | |- context [match ?x with _ => _ end] => destruct x
         | |- context [if ?x then _ else _] => destruct x
         end; split; discriminate.
Qed.

Theorem eval_expr_no_panic : forall fuel f s, (length s < fuel)%nat -> no_panic (eval_expr fuel f s).
Proof.
  induction fuel as [|fu IH]; intros f s Hlen; [lia|].
  rewrite eval_expr_S. cbv beta zeta. set (e := trim ws s).
  assert (He : (length e <= length s)%nat) by apply trim_length.
  assert (Node : forall ops pos, ascii_ops ops -> find_operator ws ops e = Some pos ->
            no_panic (match slice e 0 pos, slice e pos (pos + 1), slice e (pos + 1) (blen e) with
                      | Some l, Some [op], Some r =>
                          match eval_expr fu f l with
                          | EOk lv => match eval_expr fu f r with EOk rv => apply_operator lv op rv | x => x end
                          | x => x end
                      | _, _, _ => EPanic end)).
  { intros ops pos Ha Hf. destruct (split_around ws (fun _ => false) ops e pos Ha Hf) as [l [c [r [S1 [S2 [S3 [L1 L2]]]]]]].
    rewrite S1, S2, S3. pose proof (IH f l ltac:(lia)) as [A1 A2]. pose proof (IH f r ltac:(lia)) as [B1 B2].
    destruct (eval_expr fu f l) eqn:El; try (split; congruence).
    destruct (eval_expr fu f r) eqn:Er; try (split; congruence). apply apply_operator_no_panic. }
  destruct (find_operator ws plus_minus e) as [pos|] eqn:F1; [apply (Node plus_minus pos ascii_plus_minus F1)|].
  destruct (find_operator ws mul_div_mod e) as [pos|] eqn:F2; [apply (Node mul_div_mod pos ascii_mul_div_mod F2)|].
  destruct ((2 <=? blen e) && enclosed e 40 41) eqn:G; [|apply eleaf_no_panic].
  apply andb_true_iff in G. destruct G as [G1 G2]. apply Z.leb_le in G1.
  destruct (enclosed_slice e 40 41 ltac:(lia) ltac:(lia) G2 G1) as [inner [S L]]. rewrite S. apply IH. lia.
Qed.

Corollary evaluate_expression_no_panic f s : no_panic (evaluate_expression f s).
Proof. apply eval_expr_no_panic. lia. Qed.

(** rfind returns the byte offset of an occurrence of the pattern *)
Lemma str_starts_split : forall pat s, str_starts s pat = true -> exists post, s = pat ++ post.
Proof.
  induction pat as [|x pat IH]; intros s H; [exists s; reflexivity|].
  destruct s as [|y s]; [discriminate|]. cbn [str_starts] in H. apply andb_true_iff in H. destruct H as [E H].
  apply Z.eqb_eq in E. subst y. destruct (IH s H) as [post Hp]. exists post. cbn [app]. rewrite Hp. reflexivity.
Qed.

Lemma rfind_from_spec pat : forall s pos q last p, rfind_from s pat pos q last = Some p ->
  last = Some p \/ exists pre post, s = pre ++ pat ++ post /\ p = pos + blen pre.
Proof.
  induction s as [|c s IH]; intros pos q last p H; cbn [rfind_from] in H; [left; exact H|].
  assert (Hshift : forall q' last', rfind_from s pat (pos + utf8_len c) q' last' = Some p ->
            last' = Some p \/ exists pre post, c :: s = pre ++ pat ++ post /\ p = pos + blen pre).
  { intros q' last' H'. apply IH in H'. destruct H' as [H'|[pre [post [E1 E2]]]]; [left; exact H'|].
    right. exists (c :: pre), post. split; [cbn [app]; rewrite E1; reflexivity|cbn [blen]; lia]. }
  destruct q as [x|].
  - apply Hshift in H. exact H.
  - destruct (is_quote c); [apply Hshift in H; exact H|].
    apply Hshift in H. destruct H as [H|H]; [|right; exact H].
    destruct (str_starts (c :: s) pat) eqn:E; [|left; exact H].
    inversion H; subst. right. destruct (str_starts_split pat (c :: s) E) as [post Hp]. exists [], post. split; [exact Hp|cbn; lia].
Qed.

Lemma first_op_spec s : forall ops pos p o, first_op s ops = Some (pos, p, o) ->
  exists pre post, s = pre ++ p ++ post /\ pos = blen pre.
Proof.
  induction ops as [|[p' o'] ops IH]; intros pos p o H; cbn [first_op] in H; [discriminate|].
  destruct (rfind s p') as [q|] eqn:R; [|apply (IH _ _ _ H)].
  inversion H; subst. unfold rfind in R. apply rfind_from_spec in R. destruct R as [R|[pre [post [E1 E2]]]]; [discriminate|].
  exists pre, post. split; [exact E1|lia].
Qed.

Lemma slice_prefix pre rest : slice (pre ++ rest) 0 (blen pre) = Some pre.
Proof. pose proof (slice_app [] pre rest) as S. cbn [app blen] in S. exact S. Qed.
Lemma slice_suffix pre rest : slice (pre ++ rest) (blen pre) (blen (pre ++ rest)) = Some rest.
Proof. pose proof (slice_app pre rest []) as S. rewrite app_nil_r in S. rewrite blen_app. exact S. Qed.

Lemma eval_arith_cond_no_panic f e : eval_arith_cond f e <> BPanic.
Proof.
  unfold eval_arith_cond. destruct (first_op e cmp_ops) as [[[pos p] o]|] eqn:F; [|discriminate].
  destruct (first_op_spec e cmp_ops pos p o F) as [pre [post [E1 E2]]]. subst e pos.
  rewrite slice_prefix.
  replace (blen pre + blen p) with (blen (pre ++ p)) by (rewrite blen_app; reflexivity).
  rewrite app_assoc. rewrite slice_suffix.
  destruct (evaluate_expression_no_panic f (trim ws pre)) as [A1 A2].
  destruct (evaluate_expression f (trim ws pre)); try discriminate; try contradiction.
  destruct (evaluate_expression_no_panic f (trim ws post)) as [B1 B2].
  destruct (parse_i64 (trim ws post)); [discriminate|]. destruct (parse_f64 (trim ws post)); [discriminate|].
  destruct (evaluate_expression f (trim ws post)); try discriminate. contradiction.
Qed.

(** every condition the parser can produce for the typed core evaluates to a boolean *)
Lemma eval_single_total f c : exists b, eval_single f c = BOk b.
Proof.
  unfold eval_single. destruct (c_expr c) as [name|name].
  - destruct (match fget f (retracted_key (first_part name)) with Some (VBool true) => true | _ => false end); [exists false; reflexivity|].
    destruct (c_val c) as [s|n|z|b|l|fs| |e]; try (eexists; reflexivity).
    destruct (evaluate_expression_no_panic f e) as [A1 A2].
    destruct (evaluate_expression f e); try contradiction; eexists; reflexivity.
  - pose proof (eval_arith_cond_no_panic f name) as N.
    destruct (eval_arith_cond f name); try contradiction; eexists; reflexivity.
Qed.

Lemma eval_group_total f : forall g, exists b, eval_group f g = BOk b.
Proof.
  induction g as [c|a [x Ha] b [y Hb]|a [x Ha] b [y Hb]|a [x Ha]]; cbn [eval_group].
  - apply eval_single_total.
  - rewrite Ha, Hb. eexists; reflexivity.
  - rewrite Ha, Hb. eexists; reflexivity.
  - rewrite Ha. eexists; reflexivity.
Qed.

(** ---------- the comparison operator of an arithmetic condition is found where it was printed ---------- *)
Definition cmp_pat (pat : str) : Prop := exists c0 rest, pat = c0 :: rest /\ cmpc c0 = true.

Lemma starts_nocmp c s pat : cmpc c = false -> cmp_pat pat -> str_starts (c :: s) pat = false.
Proof.
  intros Hc [c0 [rest [E H0]]]. subst pat. cbn [str_starts].
  destruct (c0 =? c) eqn:Q; [|reflexivity]. apply Z.eqb_eq in Q. subst c0. congruence.
Qed.

Lemma rfind_from_nocmp pat : cmp_pat pat -> forall s pos q last, nocmp s = true -> rfind_from s pat pos q last = last.
Proof.
  intros Hp. induction s as [|c s IH]; intros pos q last H; cbn [rfind_from]; [reflexivity|].
  unfold nocmp in H. cbn [forallb] in H. apply andb_true_iff in H. destruct H as [Hc Hs]. apply negb_true_iff in Hc.
  destruct q as [x|]; [apply IH; exact Hs|]. destruct (is_quote c); [apply IH; exact Hs|].
  rewrite (starts_nocmp c s pat Hc Hp). apply IH. exact Hs.
Qed.

Lemma rfind_from_app_nocmp pat : cmp_pat pat -> forall L rest pos q last, nocmp L = true ->
  rfind_from (L ++ rest) pat pos q last = rfind_from rest pat (pos + blen L) (qafter L q) last.
Proof.
  intros Hp. induction L as [|c L IH]; intros rest pos q last H.
  - cbn [app blen qafter]. f_equal. lia.
  - unfold nocmp in H. cbn [forallb] in H. apply andb_true_iff in H. destruct H as [Hc Hs]. apply negb_true_iff in Hc.
    cbn [app rfind_from qafter blen].
    destruct q as [x|].
    + rewrite IH by exact Hs. f_equal. lia.
    + destruct (is_quote c).
      * rewrite IH by exact Hs. f_equal. lia.
      * rewrite (starts_nocmp c (L ++ rest) pat Hc Hp). rewrite IH by exact Hs. f_equal. lia.
Qed.

Ltac cmp_pat_solve := eexists; eexists; split; [reflexivity|reflexivity].

Lemma first_op_cmp L R o : nocmp L = true -> nocmp R = true -> balq L = true -> is_cmp6 o = true ->
  first_op (L ++ [32] ++ op_str o ++ [32] ++ R) cmp_ops = Some (blen L + 1, op_str o, o).
Proof.
  intros HL HR HB Ho.
  assert (HQ : qafter L None = None) by (unfold balq in HB; destruct (qafter L None); [discriminate|reflexivity]).
  assert (P1 : cmp_pat [62; 61]) by cmp_pat_solve. assert (P2 : cmp_pat [60; 61]) by cmp_pat_solve.
  assert (P3 : cmp_pat [61; 61]) by cmp_pat_solve. assert (P4 : cmp_pat [33; 61]) by cmp_pat_solve.
  assert (P5 : cmp_pat [62]) by cmp_pat_solve. assert (P6 : cmp_pat [60]) by cmp_pat_solve.
  destruct o; try discriminate; unfold first_op, cmp_ops, rfind, op_str;
    repeat (rewrite rfind_from_app_nocmp by assumption; rewrite HQ;
            cbn [app rfind_from str_starts is_quote Z.eqb Pos.eqb andb orb];
            rewrite rfind_from_nocmp by assumption);
    (f_equal; f_equal; f_equal; change (utf8_len 32) with 1; lia).
Qed.

Lemma den_lit_shape l v : den_lit l = Some v ->
  match v with VExpr _ | VObj _ => False | VStr s => l = LStr s | _ => True end.
Proof.
  destruct l as [z|t|s|b| |ls]; cbn [den_lit]; intros H.
  - inversion H. exact I.
  - destruct (parse_f64 t); inversion H. exact I.
  - inversion H. reflexivity.
  - inversion H. exact I.
  - inversion H. exact I.
  - match type of H with match ?g with _ => _ end = _ => destruct g end; inversion H. exact I.
Qed.

(** L3: a comparison whose left-hand side is a field *)
Lemma cfield_agree f p o r b : rhs_ok r -> den_cond true f (SCmp (AField p) o r) = Some b ->
  exists c, compile_cmp (AField p) o r = Some c /\ eval_single f c = BOk b.
Proof.
  intros Hr Hd. eexists. split; [reflexivity|].
  cbn [den_cond] in Hd. unfold eval_single. cbn [c_expr c_op c_val].
  unfold retracted in Hd.
  destruct (match fget f (retracted_key (first_part (join_dot p))) with Some (VBool true) => true | _ => false end);
    [inversion Hd; reflexivity|].
  cbn [andb] in Hd. destruct (names_fact f r) eqn:NF; [discriminate|].
  assert (SL : (match get_nested f (join_dot p) with Some v => v | None => match fget f (join_dot p) with Some v => v | None => VNull end end)
               = slookup f (join_dot p)) by reflexivity.
  rewrite SL.
  destruct r as [l|q|op a b0|a].
  - (* literal *)
    destruct Hr as [v [D Pv]]. cbn [pr]. rewrite Pv. cbn [den] in Hd. rewrite D in Hd.
    pose proof (den_lit_shape l v D) as Sh.
    destruct v as [s|n|z|c|ls|fs| |e]; try contradiction;
      try (rewrite (sem_cmp_op _ _ _ _ Hd); reflexivity).
    subst l. cbn [names_fact] in NF.
    destruct (get_nested f s); [discriminate|]. destruct (fget f s); [discriminate|].
    rewrite (sem_cmp_op _ _ _ _ Hd). reflexivity.
  - (* another field *)
    destruct Hr as [At [El [Pv Fc]]]. cbn [pr]. rewrite Pv.
    assert (EE : evaluate_expression f (join_dot q) = lookup_expr f (join_dot q)).
    { pose proof (evaluate_expression_print f (AField q) At) as X. cbn [pr meval] in X. rewrite X. apply eleaf_err_lookup. exact El. }
    change (pr (AField q)) with (join_dot q) in *. rewrite EE. unfold rlookup in Hd.
    destruct (sget f (join_dot q)) as [v|] eqn:SG.
    + rewrite (sget_lookup _ _ _ SG). rewrite (sem_cmp_op _ _ _ _ Hd). reflexivity.
    + destruct (sget_none_lookup _ _ SG) as [LE [FG GN]]. rewrite LE, GN, FG, Fc. rewrite (sem_cmp_op _ _ _ _ Hd). reflexivity.
  - (* arithmetic *)
    destruct Hr as [W [Ao Pv]]. rewrite Pv.
    destruct (den f (ABin op a b0)) as [y|] eqn:D; [|discriminate].
    rewrite (evaluate_expression_den f _ y W Ao D). rewrite (sem_cmp_op _ _ _ _ Hd). reflexivity.
  - destruct Hr as [W [Ao Pv]]. rewrite Pv.
    destruct (den f (APar a)) as [y|] eqn:D; [|discriminate].
    rewrite (evaluate_expression_den f _ y W Ao D). rewrite (sem_cmp_op _ _ _ _ Hd). reflexivity.
Qed.

(** L5: a comparison whose left-hand side is arithmetic (the parser turns it into a Test expression) *)
Lemma ctest_agree f l o r b : (forall p, l <> AField p) -> cmp_ok l o r -> den_cond true f (SCmp l o r) = Some b ->
  exists c, compile_cmp l o r = Some c /\ eval_single f c = BOk b.
Proof.
  intros Hnf Hok Hd.
  assert (Hok' : lhs_simple l = true /\ wf l = true /\ atoms_ok l /\ is_cmp6 o = true /\ wf r = true /\ atoms_ok r /\ ctest_rhs_ok r
                 /\ nocmp (pr l) = true /\ nocmp (pr r) = true /\ balq (pr l) = true).
  { destruct l; try exact Hok. exfalso. eapply Hnf. reflexivity. }
  destruct Hok' as [Ls [Wl [Al [O6 [Wr [Ar [Cr [Nl [Nr Bl]]]]]]]]].
  assert (Hd' : match den f l, den f r with Some x, Some y => sem_cmp o x y | _, _ => None end = Some b).
  { destruct l; try exact Hd. exfalso. eapply Hnf. reflexivity. }
  destruct (den f l) as [x|] eqn:Dl; [|discriminate]. destruct (den f r) as [y|] eqn:Dr; [|discriminate].
  exists {| c_expr := CTest (pr l ++ [32] ++ op_str o ++ [32] ++ trim ws (pr r)); c_op := OEq; c_val := VBool true |}.
  split. { unfold compile_cmp. rewrite Ls. destruct l; try reflexivity. exfalso. eapply Hnf. reflexivity. }
  unfold eval_single. cbn [c_expr]. rewrite (trim_pr r Wr).
  unfold eval_arith_cond. rewrite (first_op_cmp (pr l) (pr r) o Nl Nr Bl O6).
  assert (S1 : slice (pr l ++ [32] ++ op_str o ++ [32] ++ pr r) 0 (blen (pr l) + 1) = Some (pr l ++ [32])).
  { pose proof (slice_prefix (pr l ++ [32]) (op_str o ++ [32] ++ pr r)) as S. rewrite blen_app in S. cbn [blen] in S.
    change (utf8_len 32) with 1 in S. replace (blen (pr l) + (1 + 0)) with (blen (pr l) + 1) in S by lia.
    rewrite <- app_assoc in S. exact S. }
  assert (S2 : slice (pr l ++ [32] ++ op_str o ++ [32] ++ pr r) (blen (pr l) + 1 + blen (op_str o)) (blen (pr l ++ [32] ++ op_str o ++ [32] ++ pr r))
               = Some (32 :: pr r)).
  { pose proof (slice_suffix (pr l ++ [32] ++ op_str o) (32 :: pr r)) as S. rewrite !blen_app in S. cbn [blen] in S.
    change (utf8_len 32) with 1 in S. rewrite <- !app_assoc in S. cbn [app] in S. cbn [app].
    replace (blen (pr l) + (1 + 0 + blen (op_str o))) with (blen (pr l) + 1 + blen (op_str o)) in S by lia.
    rewrite !blen_app. cbn [blen]. change (utf8_len 32) with 1.
    replace (blen (pr l) + (1 + (blen (op_str o) + (1 + blen (pr r))))) with (blen (pr l) + 1 + blen (op_str o) + (1 + blen (pr r))) by lia.
    rewrite <- S. f_equal. rewrite blen_app. cbn [blen]. change (utf8_len 32) with 1. lia. }
  rewrite S1, S2. rewrite (trim_pr_space l Wl), (trim_space_pr r Wr).
  rewrite (evaluate_expression_den f l x Wl Al Dl).
  destruct Cr as [[z [Er Pz]]|[[t [x0 [Er [Pi Pf]]]]|[Pi Pf]]].
  - subst r. rewrite Pz. cbn [den den_lit] in Dr. inversion Dr; subst. rewrite (sem_cmp_op _ _ _ _ Hd'). reflexivity.
  - subst r. cbn [pr pr_lit] in *. rewrite Pi, Pf. cbn [den den_lit] in Dr. rewrite Pf in Dr. inversion Dr; subst.
    rewrite (sem_cmp_op _ _ _ _ Hd'). reflexivity.
  - rewrite Pi, Pf. rewrite (evaluate_expression_den f r y Wr Ar Dr). rewrite (sem_cmp_op _ _ _ _ Hd'). reflexivity.
Qed.

(** ---------- whole conditions ---------- *)
Lemma compile_cmp_ok l o r : cmp_ok l o r -> exists c, compile_cmp l o r = Some c.
Proof.
  intros H. unfold compile_cmp. destruct l as [x|p|op a b|a]; try (eexists; reflexivity);
    destruct H as [Ls _]; rewrite Ls; eexists; reflexivity.
Qed.

Lemma compile_cond_ok : forall c, cond_ok c -> exists g, compile_cond c = Some g.
Proof.
  induction c as [l o r|a IHa b IHb|a IHa b IHb|a IHa]; cbn [cond_ok compile_cond]; intros H.
  - destruct (compile_cmp_ok l o r H) as [c E]. rewrite E. eexists; reflexivity.
  - destruct H as [Ha Hb]. destruct (IHa Ha) as [x Ex]. destruct (IHb Hb) as [y Ey]. rewrite Ex, Ey. eexists; reflexivity.
  - destruct H as [Ha Hb]. destruct (IHa Ha) as [x Ex]. destruct (IHb Hb) as [y Ey]. rewrite Ex, Ey. eexists; reflexivity.
  - destruct (IHa H) as [x Ex]. rewrite Ex. eexists; reflexivity.
Qed.

Lemma cmp_agree f l o r b c : cmp_ok l o r -> compile_cmp l o r = Some c -> den_cond true f (SCmp l o r) = Some b ->
  eval_single f c = BOk b.
Proof.
  intros Hok Hc Hd.
  assert (X : exists c0, compile_cmp l o r = Some c0 /\ eval_single f c0 = BOk b).
  { destruct l as [x|p|op a b0|a].
    - apply ctest_agree; [intros p; discriminate|exact Hok|exact Hd].
    - apply cfield_agree; [exact Hok|exact Hd].
    - apply ctest_agree; [intros p; discriminate|exact Hok|exact Hd].
    - apply ctest_agree; [intros p; discriminate|exact Hok|exact Hd]. }
  destruct X as [c0 [E1 E2]]. rewrite Hc in E1. inversion E1; subst. exact E2.
Qed.

(** the condition: wherever the documented meaning is defined (a false conjunct or a true disjunct
    decides even when the other side is undefined), the engine computes it *)
Theorem cond_agree f : forall c g b, cond_ok c -> compile_cond c = Some g -> den_cond true f c = Some b ->
  eval_group f g = BOk b.
Proof.
  induction c as [l o r|a IHa b0 IHb|a IHa b0 IHb|a IHa]; intros g b Hok Hc Hd; cbn [cond_ok compile_cond den_cond] in *.
  - destruct (compile_cmp l o r) as [c|] eqn:E; [|discriminate]. inversion Hc; subst. cbn [eval_group].
    eapply cmp_agree; eassumption.
  - destruct Hok as [Ha Hb]. destruct (compile_cond a) as [ga|] eqn:Ea; [|discriminate]. destruct (compile_cond b0) as [gb|] eqn:Eb; [|discriminate].
    inversion Hc; subst. cbn [eval_group].
    destruct (eval_group_total f ga) as [xa Ta]. destruct (eval_group_total f gb) as [xb Tb].
    destruct (den_cond true f a) as [x|] eqn:Da; destruct (den_cond true f b0) as [y|] eqn:Db.
    + rewrite (IHa ga x Ha eq_refl eq_refl), (IHb gb y Hb eq_refl eq_refl). destruct x, y; inversion Hd; reflexivity.
    + destruct x; [discriminate|]. inversion Hd; subst. rewrite (IHa ga false Ha eq_refl eq_refl), Tb. reflexivity.
    + destruct y; [discriminate|]. inversion Hd; subst. rewrite Ta, (IHb gb false Hb eq_refl eq_refl). rewrite andb_false_r. reflexivity.
    + discriminate.
  - destruct Hok as [Ha Hb]. destruct (compile_cond a) as [ga|] eqn:Ea; [|discriminate]. destruct (compile_cond b0) as [gb|] eqn:Eb; [|discriminate].
    inversion Hc; subst. cbn [eval_group].
    destruct (eval_group_total f ga) as [xa Ta]. destruct (eval_group_total f gb) as [xb Tb].
    destruct (den_cond true f a) as [x|] eqn:Da; destruct (den_cond true f b0) as [y|] eqn:Db.
    + rewrite (IHa ga x Ha eq_refl eq_refl), (IHb gb y Hb eq_refl eq_refl). destruct x, y; inversion Hd; reflexivity.
    + destruct x; [|discriminate]. inversion Hd; subst. rewrite (IHa ga true Ha eq_refl eq_refl), Tb. reflexivity.
    + destruct y; [|discriminate]. inversion Hd; subst. rewrite Ta, (IHb gb true Hb eq_refl eq_refl). rewrite orb_true_r. reflexivity.
    + discriminate.
  - destruct (compile_cond a) as [ga|] eqn:Ea; [|discriminate]. inversion Hc; subst. cbn [eval_group].
    destruct (den_cond true f a) as [x|] eqn:Da; [|discriminate]. inversion Hd; subst.
    rewrite (IHa ga x Hok eq_refl eq_refl). reflexivity.
Qed.

(** ---------- assignments ---------- *)
Lemma set_agree f p e v : rhs_ok e -> den f e = Some v ->
  exec_set f (join_dot p) (parse_val (pr e)) = Some (assign f (join_dot p) v).
Proof.
  intros Hr Hd. unfold exec_set. destruct e as [l|q|op a b|a].
  - destruct Hr as [v' [D Pv]]. cbn [pr]. rewrite Pv. cbn [den] in Hd. rewrite D in Hd. assert (Ev : v' = v) by congruence. rewrite Ev in *.
    pose proof (den_lit_shape l v D) as Sh. destruct v; try contradiction; reflexivity.
  - destruct Hr as [At [El [Pv _]]]. cbn [pr]. rewrite Pv. cbn [den] in Hd.
    pose proof (evaluate_expression_print f (AField q) At) as X. cbn [pr meval] in X. rewrite X.
    rewrite (eleaf_err_lookup _ f El), (sget_lookup _ _ _ Hd). reflexivity.
  - destruct Hr as [W [Ao Pv]]. rewrite Pv. rewrite (evaluate_expression_den f _ v W Ao Hd). reflexivity.
  - destruct Hr as [W [Ao Pv]]. rewrite Pv. rewrite (evaluate_expression_den f _ v W Ao Hd). reflexivity.
Qed.

(** ---------- one consideration ---------- *)
Theorem step_agree f r cr x : rule_ok r -> compile_rule r = Some cr -> sem_step true f r = Some x -> model_step f cr = x.
Proof.
  destruct r as [sal c sets]. unfold rule_ok, compile_rule, sem_step. cbn [sr_cond sr_sets].
  intros [Hc Hs] Hcr Hsem. destruct (compile_cond c) as [g|] eqn:Eg; [|discriminate].
  inversion Hcr; subst cr. clear Hcr. unfold model_step, consider. cbn [r_cond r_sets].
  destruct (den_cond true f c) as [b|] eqn:Db; [|discriminate].
  rewrite (cond_agree f _ g b Hc Eg Db). destruct b; [|inversion Hsem; reflexivity].
  clear Db Eg Hc. revert f Hsem. induction Hs as [|[p e] sets Hpe Hrest IH]; intros f Hsem; cbn [map].
  - inversion Hsem; reflexivity.
  - cbn [snd] in Hpe. destruct (den f e) as [v|] eqn:De; [|discriminate].
    rewrite (set_agree f p e v Hpe De). apply IH. exact Hsem.
Qed.

(** ---------- whole runs ---------- *)
From RRE Require Import Proofs.ForwardProofs.

Definition rule_rel (r1 : srule) (r2 : rule) : Prop := rule_ok r1 /\ compile_rule r1 = Some r2.

Lemma indexed_rel : forall rs crs i, Forall rule_ok rs -> compiled rs = Some crs ->
  Forall2 (fun (a : Z * Z * srule) (b : Z * Z * rule) => fst a = fst b /\ rule_rel (snd a) (snd b))
    (map (fun '(i, r) => (sr_sal r, i, r)) (index_from i rs))
    (map (fun '(i, (sal, r)) => (sal, i, r)) (index_from i crs)).
Proof.
  unfold compiled. induction rs as [|r rs IH]; intros crs i Hok Hc; cbn [mapO] in Hc.
  - inversion Hc. constructor.
  - destruct (compile_rule r) as [cr|] eqn:E; [|discriminate].
    destruct (mapO (fun r0 => match compile_rule r0 with Some x => Some (sr_sal r0, x) | None => None end) rs) as [crs'|] eqn:M; [|discriminate].
    inversion Hc; subst crs. inversion Hok; subst. cbn [index_from map].
    constructor; [split; [reflexivity|split; assumption]|]. apply IH; [assumption|reflexivity].
Qed.

(** Main theorem: for every rule set of the typed core (rule_ok: static, decidable conditions on the
    printed atoms) and every fact store, whenever the documented semantics defines the run - which rules
    fire, in which order, the facts after each firing, the counters - the engine, run on the rules the
    parser produces for the printed text, does exactly that. *)
Theorem run_agree rs crs f res : Forall rule_ok rs -> compiled rs = Some crs ->
  run_rules (sem_step true) (sorted_spec rs) f = Some res ->
  run_rules (fun f r => Some (model_step f r)) (sorted_model crs) f = Some res.
Proof.
  intros Hok Hc Hrun.
  eapply (run_rules_sim (sem_step true) (fun f r => Some (model_step f r)) rule_rel); [| |exact Hrun].
  - intros f0 r1 r2 x [Ho Hcr] Hs. f_equal. eapply step_agree; eassumption.
  - unfold sorted_spec, sorted_model. apply by_salience_rel. apply indexed_rel; assumption.
Qed.

(** the strict reading (a string literal naming a fact is undefined) refines the literal reading used by the monitor *)
Lemma den_cond_strict_mono f : forall c b, den_cond true f c = Some b -> den_cond false f c = Some b.
Proof.
  induction c as [l o r|a IHa b0 IHb|a IHa b0 IHb|a IHa]; intros b H; cbn [den_cond] in *.
  - destruct l; try exact H. destruct (retracted f p); [exact H|]. cbn [andb] in *. destruct (names_fact f r); [discriminate|exact H].
  - destruct (den_cond true f a) as [x|]; destruct (den_cond true f b0) as [y|]; try discriminate.
    + rewrite (IHa x eq_refl), (IHb y eq_refl). exact H.
    + destruct x; [discriminate|]. rewrite (IHa false eq_refl). destruct (den_cond false f b0) as [[|]|]; inversion H; reflexivity.
    + destruct y; [discriminate|]. rewrite (IHb false eq_refl). destruct (den_cond false f a) as [[|]|]; inversion H; reflexivity.
  - destruct (den_cond true f a) as [x|]; destruct (den_cond true f b0) as [y|]; try discriminate.
    + rewrite (IHa x eq_refl), (IHb y eq_refl). exact H.
    + destruct x; [|discriminate]. rewrite (IHa true eq_refl). destruct (den_cond false f b0) as [[|]|]; inversion H; reflexivity.
    + destruct y; [|discriminate]. rewrite (IHb true eq_refl). destruct (den_cond false f a) as [[|]|]; inversion H; reflexivity.
  - destruct (den_cond true f a) as [x|]; [|discriminate]. rewrite (IHa x eq_refl). exact H.
Qed.

Lemma sem_step_strict_mono f r x : sem_step true f r = Some x -> sem_step false f r = Some x.
Proof.
  unfold sem_step. destruct (den_cond true f (sr_cond r)) as [b|] eqn:D; [|discriminate].
  rewrite (den_cond_strict_mono f _ b D). intros H; exact H.
Qed.

Theorem run_strict_mono rs f res : run_rules (sem_step true) rs f = Some res -> run_rules (sem_step false) rs f = Some res.
Proof.
  intros H. eapply (run_rules_sim (sem_step true) (sem_step false) eq); [| |exact H].
  - intros f0 r1 r2 x E Hs. subst r2. apply sem_step_strict_mono. exact Hs.
  - clear H. induction rs as [|[i r] rs IH]; [constructor|constructor; [split; reflexivity|exact IH]].
Qed.
