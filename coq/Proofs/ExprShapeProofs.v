(** C05 — the expression evaluator never slices off a character boundary and always terminates. *)
From RRE Require Import Base.Sx Model.ExprShape.
From Coq Require Import Lia.
Open Scope Z_scope.

Lemma utf8_len_pos c : 0 < utf8_len c.
Proof. unfold utf8_len. destruct (c <? 128); [lia|]. destruct (c <? 2048); [lia|]. destruct (c <? 65536); lia. Qed.

Lemma blen_nonneg s : 0 <= blen s.
Proof. induction s as [|c s IH]; cbn; [lia|]. pose proof (utf8_len_pos c). lia. Qed.

Lemma blen_app a b : blen (a ++ b) = blen a + blen b.
Proof. induction a as [|c a IH]; cbn; [reflexivity|]. rewrite IH. lia. Qed.

Lemma split_at_app a : forall b, split_at (a ++ b) (blen a) = Some (a, b).
Proof.
  induction a as [|c a IH]; intros b.
  - cbn. destruct b; reflexivity.
  - cbn [app blen split_at]. pose proof (utf8_len_pos c). pose proof (blen_nonneg a).
    destruct (utf8_len c + blen a =? 0) eqn:E; [apply Z.eqb_eq in E; lia|].
    destruct (utf8_len c + blen a <? utf8_len c) eqn:E2; [apply Z.ltb_lt in E2; lia|].
    replace (utf8_len c + blen a - utf8_len c) with (blen a) by lia. rewrite IH. reflexivity.
Qed.

(** s[a..b] succeeds whenever a and b are the byte offsets of a decomposition of s *)
Lemma slice_app a m b : slice (a ++ m ++ b) (blen a) (blen a + blen m) = Some m.
Proof.
  unfold slice. pose proof (blen_nonneg m).
  destruct (blen a + blen m <? blen a) eqn:E; [apply Z.ltb_lt in E; lia|].
  rewrite app_assoc. rewrite <- blen_app. rewrite split_at_app. rewrite split_at_app. reflexivity.
Qed.

Section Proofs.
Variable ws : Z -> bool.
Variable is_num : str -> bool.

Lemma trim_start_length s : (length (trim_start ws s) <= length s)%nat.
Proof. induction s as [|c s IH]; cbn; [lia|]. destruct (ws c); cbn; lia. Qed.

Lemma trim_length s : (length (trim ws s) <= length s)%nat.
Proof.
  unfold trim. rewrite rev_length.
  eapply Nat.le_trans; [apply trim_start_length|]. rewrite rev_length. apply trim_start_length.
Qed.

(** find_operator returns the byte offset of an operator character of the text *)
Lemma find_op_spec ops : forall s off depth prev quote last pos,
  find_op ws ops s off depth prev quote last = Some pos ->
  last = Some pos \/
  exists pre c post, s = pre ++ c :: post /\ pos = off + blen pre /\ memc c ops = true.
Proof.
  induction s as [|c s IH]; intros off depth prev quote last pos H; cbn [find_op] in H; [left; exact H|].
  assert (Shift : forall d p q l, find_op ws ops s (off + utf8_len c) d p q l = Some pos -> l = Some pos \/
            exists pre c0 post, c :: s = pre ++ c0 :: post /\ pos = off + blen pre /\ memc c0 ops = true).
  { intros d p q l Hf. destruct (IH _ _ _ _ _ _ Hf) as [Hl|[pre [c0 [post [E1 [E2 E3]]]]]]; [left; exact Hl|].
    right. exists (c :: pre), c0, post. cbn [app blen]. rewrite E1. repeat split; [lia|exact E3]. }
  destruct quote as [q|]; [apply Shift in H; exact H|].
  destruct ((c =? 34) || (c =? 39)); [apply Shift in H; exact H|].
  destruct (c =? 40); [apply Shift in H; exact H|].
  destruct (c =? 41); [apply Shift in H; exact H|].
  destruct ((depth =? 0) && memc c ops) eqn:E; [|apply Shift in H; exact H].
  apply Shift in H. destruct H as [H|H]; [|right; exact H].
  match type of H with (if ?b then _ else _) = _ => destruct b end; [left; exact H|].
  inversion H; subst. right. exists [], c, s. cbn. apply andb_true_iff in E. repeat split; [lia|tauto].
Qed.

Definition ascii_ops (ops : list Z) : Prop := forall c, memc c ops = true -> c < 128.

Lemma ascii_plus_minus : ascii_ops plus_minus.
Proof. intros c H. unfold memc, plus_minus in H. cbn in H. repeat (apply orb_true_iff in H; destruct H as [H|H]; [apply Z.eqb_eq in H; lia|]). discriminate. Qed.
Lemma ascii_mul_div_mod : ascii_ops mul_div_mod.
Proof. intros c H. unfold memc, mul_div_mod in H. cbn in H. repeat (apply orb_true_iff in H; destruct H as [H|H]; [apply Z.eqb_eq in H; lia|]). discriminate. Qed.

Lemma utf8_len_ascii c : c < 128 -> utf8_len c = 1.
Proof. intros H. unfold utf8_len. destruct (c <? 128) eqn:E; [reflexivity|apply Z.ltb_ge in E; lia]. Qed.

(** the three slices around the operator always succeed and yield strictly shorter operands *)
Lemma split_around ops e pos :
  ascii_ops ops -> find_operator ws ops e = Some pos ->
  exists l c r, slice e 0 pos = Some l /\ slice e pos (pos + 1) = Some [c] /\ slice e (pos + 1) (blen e) = Some r
                /\ (length l < length e)%nat /\ (length r < length e)%nat.
Proof.
  intros Ha H. destruct (find_op_spec ops e 0 0 None None None pos H) as [Hn|[pre [c [post [E1 [E2 E3]]]]]]; [discriminate|].
  pose proof (utf8_len_ascii c (Ha c E3)) as Hc. exists pre, c, post. subst e pos. cbn [Z.add].
  repeat split.
  - pose proof (slice_app [] pre (c :: post)) as S. cbn [app blen] in S. exact S.
  - pose proof (slice_app pre [c] post) as S. cbn [blen] in S. rewrite Hc in S.
    replace (blen pre + (1 + 0)) with (blen pre + 1) in S by lia. cbn [app] in S. exact S.
  - pose proof (slice_app (pre ++ [c]) post []) as S. rewrite app_nil_r in S.
    rewrite blen_app in S. cbn [blen] in S. rewrite Hc in S.
    replace (blen pre + (1 + 0)) with (blen pre + 1) in S by lia.
    rewrite <- app_assoc in S. cbn [app] in S.
    replace (blen (pre ++ c :: post)) with (blen pre + 1 + blen post); [exact S|].
    rewrite blen_app. cbn [blen]. rewrite Hc. lia.
  - rewrite app_length. cbn. lia.
  - rewrite app_length. cbn. lia.
Qed.

(** the slice that drops the first and last byte succeeds once both ends are known to be one-byte
    characters (quotes, or an opening and a closing parenthesis), and what is inside is shorter *)
Lemma enclosed_slice e a b :
  a < 128 -> b < 128 -> enclosed e a b = true -> 2 <= blen e ->
  exists inner, slice e 1 (blen e - 1) = Some inner /\ (length inner < length e)%nat.
Proof.
  intros Ha Hb Hqu Hlen. unfold enclosed in Hqu.
  destruct e as [|c e']; [discriminate|].
  destruct (rev (c :: e')) as [|d rest] eqn:R; [discriminate|].
  apply andb_true_iff in Hqu. destruct Hqu as [Hc Hd]. apply Z.eqb_eq in Hc, Hd. subst c d.
  assert (Hrev : a :: e' = rev rest ++ [b]) by (rewrite <- (rev_involutive (a :: e')), R; reflexivity).
  destruct (rev rest) as [|x mid] eqn:Rr.
  - (* a single character: blen = 1 *)
    cbn in Hrev. inversion Hrev; subst. cbn [blen] in Hlen. rewrite (utf8_len_ascii b Hb) in Hlen. lia.
  - cbn [app] in Hrev. injection Hrev as Hx He'. subst x e'.
    pose proof (slice_app [a] mid [b]) as S. cbn [blen app] in S. rewrite (utf8_len_ascii a Ha) in S.
    replace (1 + 0) with 1 in S by lia.
    replace (blen (a :: mid ++ [b]) - 1) with (1 + blen mid).
    + exists mid. split; [exact S|]. cbn [length]. rewrite app_length. cbn. lia.
    + cbn [blen]. rewrite blen_app. cbn [blen]. rewrite (utf8_len_ascii a Ha), (utf8_len_ascii b Hb). lia.
Qed.

Lemma quoted_slice e q :
  q < 128 -> quoted e q = true -> 2 <= blen e -> slice e 1 (blen e - 1) <> None.
Proof.
  intros Hq Hqu Hlen. destruct (enclosed_slice e q q Hq Hq Hqu Hlen) as [inner [S _]]. rewrite S. discriminate.
Qed.

Lemma leaf_no_panic e : leaf is_num e <> RPanic /\ leaf is_num e <> ROutOfFuel.
Proof.
  unfold leaf.
  destruct ((2 <=? blen e) && (quoted e 34 || quoted e 39)) eqn:G.
  - apply andb_true_iff in G. destruct G as [G1 G2]. apply Z.leb_le in G1.
    destruct (slice e 1 (blen e - 1)) as [inner|] eqn:S.
    + destruct ((quoted e 34 && negb (memc 34 inner)) || (quoted e 39 && negb (memc 39 inner))); [split; discriminate|].
      destruct (is_num e); split; discriminate.
    + exfalso. apply orb_true_iff in G2. destruct G2 as [G2|G2];
        [apply (quoted_slice e 34) in G2; [contradiction|lia|exact G1]|apply (quoted_slice e 39) in G2; [contradiction|lia|exact G1]].
  - destruct (is_num e); split; discriminate.
Qed.

(** Main theorem: with fuel above the length of the text the evaluator's skeleton never panics
    and never runs out of fuel (it terminates: each operand is strictly shorter). *)
Theorem shape_no_panic : forall fuel s, (length s < fuel)%nat ->
  shape ws is_num fuel s <> RPanic /\ shape ws is_num fuel s <> ROutOfFuel.
Proof.
  induction fuel as [|f IH]; intros s Hlen; [lia|]. cbn [shape].
  set (e := trim ws s). assert (He : (length e <= length s)%nat) by apply trim_length.
  assert (Node : forall ops pos, ascii_ops ops -> find_operator ws ops e = Some pos ->
            match slice e 0 pos, slice e pos (pos + 1), slice e (pos + 1) (blen e) with
            | Some l, Some _, Some r => match shape ws is_num f l with
                                         | RValue => match shape ws is_num f r with RValue => RValue | x => x end
                                         | x => x end
            | _, _, _ => RPanic end <> RPanic /\
            match slice e 0 pos, slice e pos (pos + 1), slice e (pos + 1) (blen e) with
            | Some l, Some _, Some r => match shape ws is_num f l with
                                         | RValue => match shape ws is_num f r with RValue => RValue | x => x end
                                         | x => x end
            | _, _, _ => RPanic end <> ROutOfFuel).
  { intros ops pos Ha Hf. destruct (split_around ops e pos Ha Hf) as [l [c [r [S1 [S2 [S3 [L1 L2]]]]]]].
    rewrite S1, S2, S3.
    destruct (IH l ltac:(lia)) as [A1 A2]. destruct (IH r ltac:(lia)) as [B1 B2].
    destruct (shape ws is_num f l); destruct (shape ws is_num f r); split; try discriminate;
      exfalso; first [apply A1; reflexivity|apply A2; reflexivity|apply B1; reflexivity|apply B2; reflexivity]. }
  destruct (find_operator ws plus_minus e) as [pos|] eqn:F1; [apply (Node plus_minus pos ascii_plus_minus F1)|].
  destruct (find_operator ws mul_div_mod e) as [pos|] eqn:F2; [apply (Node mul_div_mod pos ascii_mul_div_mod F2)|].
  destruct ((2 <=? blen e) && enclosed e 40 41) eqn:G; [|apply leaf_no_panic].
  apply andb_true_iff in G. destruct G as [G1 G2]. apply Z.leb_le in G1.
  destruct (enclosed_slice e 40 41 ltac:(lia) ltac:(lia) G2 G1) as [inner [S L]]. rewrite S. apply IH. lia.
Qed.

Corollary shape_of_no_panic s : shape_of ws is_num s <> RPanic /\ shape_of ws is_num s <> ROutOfFuel.
Proof. apply shape_no_panic. lia. Qed.

(** recursion depth is at most the number of characters: stack use is linear in the input *)
Fixpoint depth (fuel : nat) (e0 : str) : nat :=
  match fuel with
  | O => O
  | S f =>
      let e := trim ws e0 in
      let node (ops : list Z) (k : unit -> nat) : nat :=
        match find_operator ws ops e with
        | Some pos => match slice e 0 pos, slice e (pos + 1) (blen e) with
                      | Some l, Some r => S (Nat.max (depth f l) (depth f r))
                      | _, _ => 1%nat end
        | None => k tt end in
      node plus_minus (fun _ => node mul_div_mod (fun _ =>
        if (2 <=? blen e) && enclosed e 40 41 then
          match slice e 1 (blen e - 1) with Some inner => S (depth f inner) | None => 1%nat end
        else 1%nat))
  end.

Theorem depth_le_length : forall fuel s, (depth fuel s <= S (length s))%nat.
Proof.
  induction fuel as [|f IH]; intros s; cbn [depth]; [lia|].
  set (e := trim ws s). assert (He : (length e <= length s)%nat) by apply trim_length.
  assert (Node : forall ops pos, ascii_ops ops -> find_operator ws ops e = Some pos ->
     (match slice e 0 pos, slice e (pos + 1) (blen e) with
      | Some l, Some r => S (Nat.max (depth f l) (depth f r)) | _, _ => 1%nat end <= S (length s))%nat).
  { intros ops pos Ha Hf. destruct (split_around ops e pos Ha Hf) as [l [c [r [S1 [S2 [S3 [L1 L2]]]]]]].
    rewrite S1, S3. pose proof (IH l). pose proof (IH r). lia. }
  destruct (find_operator ws plus_minus e) as [pos|] eqn:F1; [apply (Node plus_minus pos ascii_plus_minus F1)|].
  destruct (find_operator ws mul_div_mod e) as [pos|] eqn:F2; [apply (Node mul_div_mod pos ascii_mul_div_mod F2)|].
  destruct ((2 <=? blen e) && enclosed e 40 41) eqn:G; [|lia].
  apply andb_true_iff in G. destruct G as [G1 G2]. apply Z.leb_le in G1.
  destruct (enclosed_slice e 40 41 ltac:(lia) ltac:(lia) G2 G1) as [inner [S0 L]]. rewrite S0. pose proof (IH inner). lia.
Qed.
End Proofs.
