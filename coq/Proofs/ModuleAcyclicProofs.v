(** C18 — the import relation stays acyclic: detect_cycle (BFS with fuel) is a correct reachability test,
    the separate import_graph always agrees with the declarations, and an accepted import never closes a cycle. *)
From RRE Require Import Base.Sx Model.Module Proofs.ModuleProofs.
From Coq Require Import Lia.
Open Scope N_scope.

Lemma mem_str_In x l : mem_str x l = true <-> In x l.
Proof.
  unfold mem_str. rewrite existsb_exists. split.
  - intros [y [Hy E]]. apply str_eqb_eq in E. subst. exact Hy.
  - intros H. exists x. split; [exact H|apply str_eqb_refl].
Qed.
Lemma mem_str_nIn x l : mem_str x l = false <-> ~ In x l.
Proof.
  rewrite <- mem_str_In. destruct (mem_str x l); split; intros H.
  - discriminate.
  - exfalso. apply H. reflexivity.
  - intros H1. discriminate.
  - reflexivity.
Qed.
Lemma mem_str_app x a b : mem_str x (a ++ b) = mem_str x a || mem_str x b.
Proof. unfold mem_str. apply existsb_app. Qed.

(** * paths *)
Section Paths.
Variable E : str -> str -> Prop.
Inductive path : str -> str -> Prop :=
| p1 a b : E a b -> path a b
| pS a b c : E a b -> path b c -> path a c.
Lemma path_trans a b c : path a b -> path b c -> path a c.
Proof. intros H. revert c. induction H as [a b H|a b c0 H Hp IH]; intros c Hc; [eapply pS; eauto|eapply pS; [exact H|apply IH; exact Hc]]. Qed.
Definition acyclic : Prop := forall a, ~ path a a.
End Paths.

Lemma path_sub (E E' : str -> str -> Prop) : (forall a b, E a b -> E' a b) -> forall a b, path E a b -> path E' a b.
Proof. intros H a b Hp. induction Hp as [a b H1|a b c H1 Hp IH]; [apply p1; auto|eapply pS; eauto]. Qed.

(** adding the edge to -> from to an acyclic relation in which from does not reach to keeps it acyclic *)
Lemma acyclic_add (E E' : str -> str -> Prop) to from :
  (forall a b, E' a b -> E a b \/ (a = to /\ b = from)) ->
  acyclic E -> to <> from -> ~ path E from to -> acyclic E'.
Proof.
  intros Hsub Hac Hne Hnp.
  assert (K : forall x y, path E' x y -> path E x y \/ ((x = to \/ path E x to) /\ (from = y \/ path E from y))).
  { intros x y Hp. induction Hp as [a b H1|a b c H1 Hp IH].
    - destruct (Hsub a b H1) as [He|[-> ->]]; [left; apply p1; exact He|right; split; left; reflexivity].
    - destruct (Hsub a b H1) as [He|[-> ->]].
      + destruct IH as [IH|[[->|Hbt] Hfc]].
        * left. eapply pS; eauto.
        * right. split; [right; apply p1; exact He|exact Hfc].
        * right. split; [right; eapply pS; eauto|exact Hfc].
      + destruct IH as [IH|[[Hft|Hft] _]].
        * right. split; [left; reflexivity|right; exact IH].
        * exfalso. apply Hne. symmetry. exact Hft.
        * exfalso. apply Hnp. exact Hft. }
  intros a Hp. destruct (K a a Hp) as [H|[[->|Hat] [Hfa|Hfa]]].
  - exact (Hac a H).
  - apply Hne. symmetry. exact Hfa.
  - apply Hnp. exact Hfa.
  - subst a. apply Hnp. exact Hat.
  - apply Hnp. eapply path_trans; eauto.
Qed.

(** * the breadth-first search of detect_cycle *)
Section BFS.
Variable gr : list (str * list str).
Variable to : str.
Definition gedge (g : list (str * list str)) (a b : str) : Prop := In b (graph_of g a).
Definition targets : list str := concat (map snd gr).
Variable U : list str.
Hypothesis U_targets : forall x, In x targets -> In x U.

Definition unv (v : list str) : nat := length (filter (fun u => negb (mem_str u v)) U).

Lemma graph_of_targets a x : In x (graph_of gr a) -> In x targets.
Proof.
  unfold graph_of, targets. destruct (find (fun e => str_eqb (fst e) a) gr) as [e|] eqn:F; [|intros []].
  apply find_some in F. destruct F as [F _]. intros Hx. apply in_concat. exists (snd e). split; [apply in_map; exact F|exact Hx].
Qed.

Lemma filter_len_le (W : list str) v i : (length (filter (fun u => negb (mem_str u (v ++ [i]))) W) <= length (filter (fun u => negb (mem_str u v)) W))%nat.
Proof.
  induction W as [|u W IH]; cbn [filter]; [lia|]. rewrite mem_str_app.
  destruct (mem_str u v); cbn [orb negb]; [exact IH|].
  destruct (mem_str u [i]); cbn [negb length]; lia.
Qed.
Lemma filter_len_lt (W : list str) v i : In i W -> mem_str i v = false ->
  (length (filter (fun u => negb (mem_str u (v ++ [i]))) W) < length (filter (fun u => negb (mem_str u v)) W))%nat.
Proof.
  induction W as [|u W IH]; intros Hin Hv; [destruct Hin|]. cbn [filter]. rewrite mem_str_app.
  destruct Hin as [->|Hin].
  - rewrite Hv. cbn [orb]. replace (mem_str i [i]) with true by (symmetry; apply mem_str_In; left; reflexivity).
    cbn [negb length]. pose proof (filter_len_le W v i). lia.
  - specialize (IH Hin Hv). destruct (mem_str u v); cbn [orb negb]; [exact IH|].
    destruct (mem_str u [i]); cbn [negb length]; lia.
Qed.

Definition bstep (qv : list str * list str) (i : str) : list str * list str :=
  if mem_str i (snd qv) then qv else (fst qv ++ [i], snd qv ++ [i]).

Lemma fold_props : forall imps q v q' v',
  (forall x, In x imps -> In x U) ->
  fold_left bstep imps (q, v) = (q', v') ->
  (forall x, In x q -> In x q') /\ (forall x, In x v -> In x v') /\ (forall x, In x imps -> In x v')
  /\ (forall x, In x imps -> In x v \/ In x q') /\ (length q' + unv v' <= length q + unv v)%nat.
Proof.
  induction imps as [|i imps IH]; intros q v q' v' HU H; cbn [fold_left] in H.
  - inversion H; subst. repeat split; auto; try (intros x []); lia.
  - unfold bstep at 2 in H. cbn [fst snd] in H.
    assert (HU' : forall x, In x imps -> In x U) by (intros x Hx; apply HU; right; exact Hx).
    destruct (mem_str i v) eqn:Ev.
    + destruct (IH q v q' v' HU' H) as (A1 & A2 & A3 & A4 & A5). repeat split; auto.
      * intros x [<-|Hx]; [apply A2; apply mem_str_In; exact Ev|auto].
      * intros x [<-|Hx]; [left; apply mem_str_In; exact Ev|auto].
    + destruct (IH (q ++ [i]) (v ++ [i]) q' v' HU' H) as (A1 & A2 & A3 & A4 & A5). repeat split.
      * intros x Hx. apply A1. apply in_or_app. left. exact Hx.
      * intros x Hx. apply A2. apply in_or_app. left. exact Hx.
      * intros x [<-|Hx]; [apply A2; apply in_or_app; right; left; reflexivity|auto].
      * intros x [<-|Hx]; [right; apply A1; apply in_or_app; right; left; reflexivity|].
        destruct (A4 x Hx) as [Hv|Hq]; [|right; exact Hq].
        apply in_app_or in Hv. destruct Hv as [Hv|[<-|[]]]; [left; exact Hv|right; apply A1; apply in_or_app; right; left; reflexivity].
      * rewrite app_length in A5. cbn [length] in A5.
        assert (Hlt : (unv (v ++ [i]) < unv v)%nat) by (apply filter_len_lt; [apply HU; left; reflexivity|exact Ev]). lia.
Qed.

Definition proc (V : list str) (x : str) : Prop := ~ In to (graph_of gr x) /\ forall y, In y (graph_of gr x) -> In y V.

Lemma bfs_S f queue visited :
  bfs (S f) gr to queue visited =
  match queue with
  | [] => true
  | cur :: q => if mem_str to (graph_of gr cur) then false
                else let '(q', v') := fold_left bstep (graph_of gr cur) (q, visited) in bfs f gr to q' v'
  end.
Proof. reflexivity. Qed.

Lemma bfs_sound : forall fuel q v,
  (length q + unv v < fuel)%nat ->
  (forall x, In x v -> In x q \/ proc v x) ->
  bfs fuel gr to q v = true ->
  exists V, (forall x, In x v -> In x V) /\ forall x, In x V -> proc V x.
Proof.
  induction fuel as [|f IH]; intros q v Hm Hinv Hb; [lia|].
  rewrite bfs_S in Hb. destruct q as [|cur q].
  - exists v. split; [auto|]. intros x Hx. destruct (Hinv x Hx) as [[]|Hp]. exact Hp.
  - destruct (mem_str to (graph_of gr cur)) eqn:Et; [discriminate|].
    destruct (fold_left bstep (graph_of gr cur) (q, v)) as [q' v'] eqn:Ef.
    destruct (fold_props _ _ _ _ _ (fun x Hx => U_targets x (graph_of_targets cur x Hx)) Ef) as (A1 & A2 & A3 & A4 & A5).
    cbn [length] in Hm.
    destruct (IH q' v') as [V [HV1 HV2]]; [lia| |exact Hb|].
    + intros x Hx.
      assert (Hmono : forall y, proc v y -> proc v' y) by (intros y [P1 P2]; split; [exact P1|intros z Hz; apply A2; apply P2; exact Hz]).
      assert (Hcur : proc v' cur) by (split; [apply mem_str_nIn; exact Et|intros y Hy; apply A3; exact Hy]).
      destruct (mem_str x v) eqn:Exv.
      * apply mem_str_In in Exv. destruct (Hinv x Exv) as [[<-|Hq]|Hp]; [right; exact Hcur|left; apply A1; exact Hq|right; apply Hmono; exact Hp].
      * apply mem_str_nIn in Exv.
        (* x is new: it came from imps *)
        assert (Hnew : forall imps q0 v0 q1 v1, fold_left bstep imps (q0, v0) = (q1, v1) -> forall z, In z v1 -> In z v0 \/ In z imps).
        { clear. induction imps as [|i imps IHi]; intros q0 v0 q1 v1 H z Hz; cbn [fold_left] in H; [inversion H; subst; left; exact Hz|].
          unfold bstep at 2 in H. cbn [fst snd] in H. destruct (mem_str i v0).
          - destruct (IHi _ _ _ _ H z Hz) as [Hl|Hr]; [left; exact Hl|right; right; exact Hr].
          - destruct (IHi _ _ _ _ H z Hz) as [Hl|Hr]; [|right; right; exact Hr].
            apply in_app_or in Hl. destruct Hl as [Hl|[<-|[]]]; [left; exact Hl|right; left; reflexivity]. }
        destruct (Hnew _ _ _ _ _ Ef x Hx) as [Hv|Himp]; [contradiction|].
        destruct (A4 x Himp) as [Hv|Hq]; [contradiction|left; exact Hq].
    + exists V. split; [intros x Hx; apply HV1; apply A2; exact Hx|exact HV2].
Qed.

Lemma closed_no_path V : (forall x, In x V -> proc V x) -> forall x y, path (gedge gr) x y -> In x V -> y <> to.
Proof.
  intros HV x y Hp. induction Hp as [a b H1|a b c H1 Hp IH]; intros Hin.
  - intros ->. destruct (HV a Hin) as [P1 _]. apply P1. exact H1.
  - apply IH. destruct (HV a Hin) as [_ P2]. apply P2. exact H1.
Qed.
End BFS.

Lemma filter_len_all {T} (p : T -> bool) l : (length (filter p l) <= length l)%nat.
Proof. induction l as [|x l IH]; cbn [filter length]; [lia|]. destruct (p x); cbn [length]; lia. Qed.

Lemma graph_size_ge gr : (length (targets gr) < graph_size gr)%nat.
Proof. unfold targets, graph_size. induction gr as [|e gr IH]; cbn [map concat fold_right length]; [lia|]. rewrite app_length. lia. Qed.

Lemma bfs_fold_eq fuel gr to q v : bfs fuel gr to q v = bfs fuel gr to q v. Proof. reflexivity. Qed.

Theorem detect_cycle_sound g to from : detect_cycle g to from = true -> to <> from /\ ~ path (gedge (graph g)) from to.
Proof.
  unfold detect_cycle. intros H. destruct (str_eqb to from) eqn:E; [discriminate|].
  split; [intros ->; rewrite str_eqb_refl in E; discriminate|].
  set (gr := graph g) in *. set (U := from :: targets gr).
  destruct (bfs_sound gr to U (fun x Hx => or_intror Hx) (S (graph_size gr)) [from] [from]) as [V [HV1 HV2]].
  - unfold unv, U. cbn [filter length]. replace (mem_str from [from]) with true by (symmetry; apply mem_str_In; left; reflexivity).
    cbn [negb]. pose proof (filter_len_all (fun u => negb (mem_str u [from])) (targets gr)). pose proof (graph_size_ge gr). lia.
  - intros x [<-|[]]. left. left. reflexivity.
  - exact H.
  - intros Hp. exact (closed_no_path gr to V HV2 from to Hp (HV1 from (or_introl eq_refl)) eq_refl).
Qed.

(** * the import graph agrees with the declarations, and both stay acyclic *)
Definition dedge (ms : list module) (a b : str) : Prop :=
  exists m, find_mod ms a = Some m /\ In b (map i_from (m_imports m)).
Definition Agree (g : mgr) : Prop := forall a b, gedge (graph g) a b <-> dedge (mods g) a b.
Definition J (g : mgr) : Prop := Agree g /\ acyclic (dedge (mods g)).

Lemma find_map_fst {T} (F : str * T -> str * T) (p : str -> bool) gr :
  (forall e, fst (F e) = fst e) ->
  find (fun e => p (fst e)) (map F gr) = option_map F (find (fun e => p (fst e)) gr).
Proof.
  intros HF. induction gr as [|e gr IH]; [reflexivity|]. cbn [map find]. rewrite HF.
  destruct (p (fst e)); [reflexivity|exact IH].
Qed.

Lemma graph_of_add gr to from a b :
  In b (graph_of (graph_add gr to from) a) <-> In b (graph_of gr a) \/ (a = to /\ b = from).
Proof.
  unfold graph_add. destruct (existsb (fun e => str_eqb (fst e) to) gr) eqn:Ex.
  - unfold graph_of.
    rewrite (find_map_fst (fun e => if str_eqb (fst e) to then (fst e, if mem_str from (snd e) then snd e else snd e ++ [from]) else e) (fun k => str_eqb k a))
      by (intros e; destruct (str_eqb (fst e) to); reflexivity).
    destruct (find (fun e => str_eqb (fst e) a) gr) as [e|] eqn:F; cbn [option_map].
    + apply find_some in F. destruct F as [_ Fa]. apply str_eqb_eq in Fa.
      destruct (str_eqb (fst e) to) eqn:Et.
      * apply str_eqb_eq in Et. cbn [snd]. destruct (mem_str from (snd e)) eqn:Em.
        -- split; [auto|]. intros [H|[_ ->]]; [exact H|apply mem_str_In; exact Em].
        -- rewrite in_app_iff. split.
           ++ intros [H|[<-|[]]]; [left; exact H|right; split; [congruence|reflexivity]].
           ++ intros [H|[_ ->]]; [left; exact H|right; left; reflexivity].
      * split; [auto|]. intros [H|[-> _]]; [exact H|]. rewrite Fa, str_eqb_refl in Et. discriminate.
    + split; [intros []|]. intros [[]|[-> ->]].
      apply existsb_exists in Ex. destruct Ex as [e [He Ee]].
      pose proof (find_none _ _ F e He) as Hc. cbn beta in Hc. rewrite Ee in Hc. discriminate.
  - unfold graph_of. 
    assert (Hfa : forall l, find (fun e : str * list str => str_eqb (fst e) a) (l ++ [(to, [from])]) =
                  match find (fun e => str_eqb (fst e) a) l with Some e => Some e | None => if str_eqb to a then Some (to, [from]) else None end).
    { induction l as [|e l IH]; cbn [app find fst]; [reflexivity|]. destruct (str_eqb (fst e) a); [reflexivity|exact IH]. }
    rewrite Hfa. destruct (find (fun e => str_eqb (fst e) a) gr) as [e|] eqn:F.
    + split; [auto|]. intros [H|[-> _]]; [exact H|].
      apply find_some in F. destruct F as [Fi Fa].
      assert (Hc : existsb (fun e => str_eqb (fst e) to) gr = true) by (apply existsb_exists; exists e; split; assumption).
      rewrite Hc in Ex. discriminate.
    + destruct (str_eqb to a) eqn:Eta.
      * apply str_eqb_eq in Eta. subst a. cbn [snd]. split; [intros [<-|[]]; right; split; reflexivity|intros [[]|[_ ->]]; left; reflexivity].
      * split; [intros []|]. intros [[]|[-> _]]. rewrite str_eqb_refl in Eta. discriminate.
Qed.

Lemma graph_of_del (gr : list (str * list str)) n a b :
  In b (graph_of (map (fun e => (fst e, filter (fun x => negb (str_eqb x n)) (snd e))) (filter (fun e => negb (str_eqb (fst e) n)) gr)) a)
  <-> In b (graph_of gr a) /\ a <> n /\ b <> n.
Proof.
  unfold graph_of.
  rewrite (find_map_fst (fun e => (fst e, filter (fun x => negb (str_eqb x n)) (snd e))) (fun k => str_eqb k a)) by reflexivity.
  assert (Hf : find (fun e : str * list str => str_eqb (fst e) a) (filter (fun e => negb (str_eqb (fst e) n)) gr) =
               if str_eqb a n then None else find (fun e => str_eqb (fst e) a) gr).
  { induction gr as [|e gr IH]; cbn [filter find]; [destruct (str_eqb a n); reflexivity|].
    destruct (str_eqb (fst e) n) eqn:En; cbn [negb find].
    - rewrite IH. destruct (str_eqb a n) eqn:Ean; [reflexivity|].
      destruct (str_eqb (fst e) a) eqn:Ea; [|reflexivity].
      apply str_eqb_eq in En. apply str_eqb_eq in Ea. rewrite <- Ea, En, str_eqb_refl in Ean. discriminate.
    - destruct (str_eqb (fst e) a) eqn:Ea.
      + apply str_eqb_eq in Ea. rewrite <- Ea, En. reflexivity.
      + exact IH. }
  rewrite Hf. destruct (str_eqb a n) eqn:Ean.
  - cbn [option_map]. split; [intros []|]. intros [_ [Hne _]]. apply str_eqb_eq in Ean. contradiction.
  - assert (Hane : a <> n) by (intros ->; rewrite str_eqb_refl in Ean; discriminate).
    destruct (find (fun e => str_eqb (fst e) a) gr) as [e|]; cbn [option_map snd].
    + rewrite filter_In. split.
      * intros [H1 H2]. repeat split; [exact H1|exact Hane|]. intros ->. rewrite str_eqb_refl in H2. discriminate.
      * intros [H1 [_ H3]]. split; [exact H1|]. rewrite str_eqb_neq by exact H3. reflexivity.
    + split; [intros []|intros [[] _]].
Qed.

Definition strip_imports (n : str) (m : module) : module :=
  {| m_name := m_name m; m_rules := m_rules m; m_exports := m_exports m; m_imports := filter (fun i => negb (str_eqb (i_from i) n)) (m_imports m) |}.

Lemma find_mod_del ms n a :
  find_mod (map (strip_imports n) (filter (fun m => negb (str_eqb (m_name m) n)) ms)) a =
  if str_eqb a n then None else option_map (strip_imports n) (find_mod ms a).
Proof.
  unfold find_mod. induction ms as [|m ms IH]; cbn [filter map find]; [destruct (str_eqb a n); reflexivity|].
  destruct (str_eqb (m_name m) n) eqn:En; cbn [negb map find].
  - rewrite IH. destruct (str_eqb a n) eqn:Ean; [reflexivity|].
    destruct (str_eqb (m_name m) a) eqn:Ea; [|reflexivity].
    apply str_eqb_eq in En. apply str_eqb_eq in Ea. rewrite <- Ea, En, str_eqb_refl in Ean. discriminate.
  - cbn [strip_imports m_name]. destruct (str_eqb (m_name m) a) eqn:Ea.
    + apply str_eqb_eq in Ea. rewrite <- Ea, En. reflexivity.
    + exact IH.
Qed.

Lemma dedge_upd_same ms m0 m' a b :
  find_mod ms (m_name m0) = Some m0 -> m_name m' = m_name m0 -> m_imports m' = m_imports m0 ->
  (dedge (upd_mod ms m') a b <-> dedge ms a b).
Proof.
  intros F Hn Hi. unfold dedge. rewrite find_mod_upd. split.
  - intros [m [Hm Hb]]. destruct (find_mod ms a) as [ma|] eqn:Fa; [|discriminate].
    destruct (str_eqb (m_name ma) (m_name m')) eqn:E.
    + inversion Hm; subst m. apply str_eqb_eq in E. destruct (find_mod_name _ _ _ Fa) as [Hna _].
      assert (Ha : a = m_name m0) by congruence. rewrite Ha, F in Fa. inversion Fa; subst ma. exists m0. split; [reflexivity|rewrite <- Hi; exact Hb].
    + exists ma. split; [reflexivity|inversion Hm; subst; exact Hb].
  - intros [m [Hm Hb]]. rewrite Hm. destruct (str_eqb (m_name m) (m_name m')) eqn:E.
    + exists m'. split; [reflexivity|]. apply str_eqb_eq in E. destruct (find_mod_name _ _ _ Hm) as [Hna _].
      assert (Ha : a = m_name m0) by congruence. rewrite Ha, F in Hm. inversion Hm; subst m. rewrite Hi. exact Hb.
    + exists m. split; [reflexivity|exact Hb].
Qed.

Lemma J_same_edges g g' : graph g' = graph g -> (forall a b, dedge (mods g') a b <-> dedge (mods g) a b) -> J g -> J g'.
Proof.
  intros Hg Hd [HA Hac]. split.
  - intros a b. rewrite Hg, Hd. apply HA.
  - intros a Hp. apply (Hac a). eapply path_sub; [|exact Hp]. intros x y. apply Hd.
Qed.

Lemma step_J g o : J g -> J (fst (step g o)).
Proof.
  intros HJ. destruct o as [n|n|n e|n r|to from t pat re]; cbn [step].
  - destruct (find_mod (mods g) n) as [dm|] eqn:F; cbn [fst]; [exact HJ|].
    apply (J_same_edges g); [reflexivity| |exact HJ]. cbn [mods]. intros a b. unfold dedge. rewrite find_mod_app.
    destruct (find_mod (mods g) a) as [ma|] eqn:Fa; [reflexivity|].
    destruct (str_eqb (m_name (new_module n)) a); split; intros [m [Hm Hb]]; try discriminate.
    inversion Hm; subst m. destruct Hb.
  - destruct (str_eqb n main); cbn [fst]; [exact HJ|].
    destruct (find_mod (mods g) n) as [dm|] eqn:F; cbn [fst]; [|exact HJ].
    destruct HJ as [HA Hac].
    assert (Hd : forall a b, dedge (map (strip_imports n) (filter (fun m => negb (str_eqb (m_name m) n)) (mods g))) a b <-> dedge (mods g) a b /\ a <> n /\ b <> n).
    { intros a b. unfold dedge. rewrite find_mod_del. destruct (str_eqb a n) eqn:Ean.
      - apply str_eqb_eq in Ean. split; [intros [m [Hm _]]; discriminate|intros [_ [Hne _]]; contradiction].
      - assert (Hane : a <> n) by (intros ->; rewrite str_eqb_refl in Ean; discriminate).
        destruct (find_mod (mods g) a) as [ma|]; cbn [option_map].
        + split.
          * intros [m [Hm Hb]]. inversion Hm; subst m. cbn [strip_imports m_imports] in Hb.
            apply in_map_iff in Hb. destruct Hb as [i [<- Hi]]. apply filter_In in Hi. destruct Hi as [Hi Hne].
            repeat split; [exists ma; split; [reflexivity|apply in_map; exact Hi]|exact Hane|].
            intros E. rewrite E, str_eqb_refl in Hne. discriminate.
          * intros [[m [Hm Hb]] [_ Hbn]]. inversion Hm; subst m. exists (strip_imports n ma). split; [reflexivity|].
            cbn [strip_imports m_imports]. apply in_map_iff in Hb. destruct Hb as [i [<- Hi]]. apply in_map. apply filter_In. split; [exact Hi|].
            rewrite str_eqb_neq by exact Hbn. reflexivity.
        + split; [intros [m [Hm _]]; discriminate|intros [[m [Hm _]] _]; discriminate]. }
    split.
    + intros a b. cbn [graph mods]. unfold gedge. rewrite graph_of_del. change (map _ (filter _ (mods g))) with (map (strip_imports n) (filter (fun m => negb (str_eqb (m_name m) n)) (mods g))).
      rewrite Hd. rewrite <- (HA a b). reflexivity.
    + cbn [mods]. change (map _ (filter _ (mods g))) with (map (strip_imports n) (filter (fun m => negb (str_eqb (m_name m) n)) (mods g))).
      intros a Hp. apply (Hac a). eapply path_sub; [|exact Hp]. intros x y Hxy. apply Hd in Hxy. tauto.
  - destruct (find_mod (mods g) n) as [m0|] eqn:F; cbn [fst]; [|exact HJ].
    destruct (find_mod_name _ _ _ F) as [Hn _]. subst n.
    apply (J_same_edges g); [reflexivity| |exact HJ]. cbn [mods]. intros a b. apply (dedge_upd_same (mods g) m0); [exact F|reflexivity|reflexivity].
  - destruct (find_mod (mods g) n) as [m0|] eqn:F; cbn [fst]; [|exact HJ].
    destruct (find_mod_name _ _ _ F) as [Hn _]. subst n.
    apply (J_same_edges g); [reflexivity| |exact HJ]. cbn [mods]. intros a b. apply (dedge_upd_same (mods g) m0); [exact F|reflexivity|reflexivity].
  - destruct (find_mod (mods g) from) as [fm|] eqn:Ff; cbn [fst]; [|exact HJ].
    destruct (detect_cycle g to from) eqn:Dc; cbn [fst]; [|exact HJ].
    destruct (find_mod (mods g) to) as [m0|] eqn:F; cbn [fst]; [|exact HJ].
    destruct (find_mod_name _ _ _ F) as [Hn _]. subst to.
    destruct HJ as [HA Hac]. destruct (detect_cycle_sound _ _ _ Dc) as [Hne Hnp].
    set (m' := {| m_name := m_name m0; m_rules := m_rules m0; m_exports := m_exports m0;
                  m_imports := m_imports m0 ++ [{| i_from := from; i_type := t; i_pat := pat; i_reexp := re |}] |}).
    assert (Hd : forall a b, dedge (upd_mod (mods g) m') a b <-> dedge (mods g) a b \/ (a = m_name m0 /\ b = from)).
    { intros a b. unfold dedge. rewrite find_mod_upd. destruct (find_mod (mods g) a) as [ma|] eqn:Fa.
      - destruct (find_mod_name _ _ _ Fa) as [Hna _]. destruct (str_eqb (m_name ma) (m_name m')) eqn:E.
        + apply str_eqb_eq in E. cbn [m' m_name] in E. assert (Ha : a = m_name m0) by congruence. rewrite Ha, F in Fa. inversion Fa; subst ma. clear Hna.
          split.
          * intros [m [Hm Hb]]. inversion Hm; subst m. cbn [m' m_imports] in Hb. rewrite map_app in Hb. apply in_app_or in Hb.
            destruct Hb as [Hb|[<-|[]]]; [left; exists m0; split; [reflexivity|exact Hb]|right; split; [exact Ha|reflexivity]].
          * intros [[m [Hm Hb]]|[_ ->]]; (exists m'; split; [reflexivity|]); cbn [m' m_imports]; rewrite map_app; apply in_or_app.
            -- inversion Hm; subst m. left. exact Hb.
            -- right. left. reflexivity.
        + split.
          * intros [m [Hm Hb]]. inversion Hm; subst m. left. exists ma. split; [reflexivity|exact Hb].
          * intros [[m [Hm Hb]]|[-> _]]; [exists m; split; [f_equal; inversion Hm; reflexivity|exact Hb]|].
            cbn [m' m_name] in E. rewrite Hna, str_eqb_refl in E. discriminate.
      - split; [intros [m [Hm _]]; discriminate|]. intros [[m [Hm _]]|[-> _]]; [discriminate|]. rewrite F in Fa. discriminate. }
    split.
    + intros a b. cbn [graph mods]. unfold gedge. rewrite graph_of_add. fold m'. rewrite Hd. rewrite <- (HA a b). reflexivity.
    + cbn [mods]. fold m'. apply (acyclic_add (dedge (mods g)) _ (m_name m0) from); [intros a b Hab; apply Hd; exact Hab|exact Hac|exact Hne|].
      intros Hp. apply Hnp. eapply path_sub; [|exact Hp]. intros x y Hxy. apply HA. exact Hxy.
Qed.

Lemma J_init : J init.
Proof.
  split.
  - intros a b. unfold gedge, dedge. cbn [init graph mods graph_of find]. split; [intros []|].
    intros [m [Hm Hb]]. unfold find_mod in Hm. cbn [find] in Hm. destruct (str_eqb (m_name (new_module main)) a); [|discriminate].
    inversion Hm; subst m. destruct Hb.
  - intros a Hp. assert (K : forall x y, path (dedge (mods init)) x y -> False); [|exact (K a a Hp)].
    intros x y Hxy. assert (E0 : forall u v, ~ dedge (mods init) u v).
    { intros u v [m [Hm Hb]]. unfold find_mod in Hm. cbn [init mods find] in Hm. destruct (str_eqb (m_name (new_module main)) u); [|discriminate].
      inversion Hm; subst m. destruct Hb. }
    destruct Hxy as [u v H|u v w H _]; exact (E0 _ _ H).
Qed.

Lemma exec_J ops : forall g, J g -> J (exec g ops).
Proof. induction ops as [|o ops IH]; intros g H; cbn; [exact H|]. apply IH. apply step_J. exact H. Qed.

(** after every operation sequence: no module reaches itself through declared imports, and the import graph
    the cycle check reads is exactly the set of declared imports *)
Theorem imports_acyclic ops : acyclic (dedge (mods (exec init ops))).
Proof. exact (proj2 (exec_J ops init J_init)). Qed.
Theorem graph_is_declarations ops : forall a b, gedge (graph (exec init ops)) a b <-> dedge (mods (exec init ops)) a b.
Proof. exact (proj1 (exec_J ops init J_init)). Qed.

(** the cycle test is complete too would need fuel reasoning in the other direction; what matters for the
    property is the other half of "refused": an import is refused ONLY for a reason the documentation gives *)

Lemma bfs_complete gr to (R : str -> Prop) :
  (forall x y, R x -> In y (graph_of gr x) -> R y) ->
  forall fuel q v, (forall x, In x q -> R x) -> bfs fuel gr to q v = false -> exists x, R x /\ In to (graph_of gr x).
Proof.
  intros HR. induction fuel as [|f IH]; intros q v Hq Hb; [discriminate|].
  rewrite bfs_S in Hb. destruct q as [|cur q]; [discriminate|].
  destruct (mem_str to (graph_of gr cur)) eqn:Et.
  - exists cur. split; [apply Hq; left; reflexivity|apply mem_str_In; exact Et].
  - destruct (fold_left bstep (graph_of gr cur) (q, v)) as [q' v'] eqn:Ef.
    apply (IH q' v'); [|exact Hb].
    assert (Hnew : forall imps q0 v0 q1 v1, fold_left bstep imps (q0, v0) = (q1, v1) -> forall z, In z q1 -> In z q0 \/ In z imps).
    { clear. induction imps as [|i imps IHi]; intros q0 v0 q1 v1 H z Hz; cbn [fold_left] in H; [inversion H; subst; left; exact Hz|].
      unfold bstep at 2 in H. cbn [fst snd] in H. destruct (mem_str i v0).
      - destruct (IHi _ _ _ _ H z Hz) as [Hl|Hr]; [left; exact Hl|right; right; exact Hr].
      - destruct (IHi _ _ _ _ H z Hz) as [Hl|Hr]; [|right; right; exact Hr].
        apply in_app_or in Hl. destruct Hl as [Hl|[<-|[]]]; [left; exact Hl|right; left; reflexivity]. }
    intros x Hx. destruct (Hnew _ _ _ _ _ Ef x Hx) as [Hl|Hr]; [apply Hq; right; exact Hl|].
    apply (HR cur x); [apply Hq; left; reflexivity|exact Hr].
Qed.

Theorem detect_cycle_complete g to from : detect_cycle g to from = false -> to = from \/ path (gedge (graph g)) from to.
Proof.
  unfold detect_cycle. destruct (str_eqb to from) eqn:E; [intros _; left; apply str_eqb_eq; exact E|]. intros H. right.
  destruct (bfs_complete (graph g) to (fun x => x = from \/ path (gedge (graph g)) from x)) with (fuel := S (graph_size (graph g))) (q := [from]) (v := [from]) as [x [[->|Hx] Hto]].
  - intros x y [->|Hx] Hy; right; [apply p1; exact Hy|eapply path_trans; [exact Hx|apply p1; exact Hy]].
  - intros x [<-|[]]. left. reflexivity.
  - exact H.
  - apply p1. exact Hto.
  - eapply path_trans; [exact Hx|apply p1; exact Hto].
Qed.

(** an import is refused only when a module is missing or the import would close a cycle *)
Theorem import_refused_only_for_cause ops to from t pat re :
  let g := exec init ops in
  snd (step g (Import to from t pat re)) = false ->
  find_mod (mods g) from = None \/ find_mod (mods g) to = None \/ to = from \/ path (dedge (mods g)) from to.
Proof.
  intros g. pose proof (graph_is_declarations ops) as HA. fold g in HA. cbn [step].
  destruct (find_mod (mods g) from) as [fm|]; [|intros _; left; reflexivity].
  destruct (detect_cycle g to from) eqn:Dc.
  - destruct (find_mod (mods g) to) as [m0|]; [discriminate|]. intros _. right. left. reflexivity.
  - intros _. right. right. destruct (detect_cycle_complete _ _ _ Dc) as [H|H]; [left; exact H|right].
    eapply path_sub; [|exact H]. intros x y Hxy. apply HA. exact Hxy.
Qed.

(** and it IS refused in those cases *)
Theorem import_closing_a_cycle_refused ops to from t pat re :
  let g := exec init ops in
  to = from \/ path (dedge (mods g)) from to -> snd (step g (Import to from t pat re)) = false.
Proof.
  intros g Hc. pose proof (graph_is_declarations ops) as HA. fold g in HA. cbn [step].
  destruct (find_mod (mods g) from) as [fm|]; [|reflexivity].
  destruct (detect_cycle g to from) eqn:Dc; [|reflexivity].
  destruct (detect_cycle_sound _ _ _ Dc) as [Hne Hnp]. exfalso. destruct Hc as [Hc|Hc]; [contradiction|].
  apply Hnp. eapply path_sub; [|exact Hc]. intros x y Hxy. apply HA. exact Hxy.
Qed.
