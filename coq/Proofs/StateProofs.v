(** C20 — proofs about Model/State.v *)
From RRE Require Import Base.Sx Model.State.
From Coq Require Import Lia.
Open Scope N_scope.

Lemma cid_eqb_eq a b : cid_eqb a b = true <-> a = b.
Proof.
  destruct a as [a1 a2], b as [b1 b2]. unfold cid_eqb. cbn. rewrite andb_true_iff, !N.eqb_eq.
  split; [intros [-> ->]; reflexivity|intros H; inversion H; auto].
Qed.
Lemma cid_eqb_refl a : cid_eqb a a = true. Proof. apply cid_eqb_eq. reflexivity. Qed.
Lemma cid_eqb_neq a b : a <> b -> cid_eqb a b = false.
Proof. intros H. destruct (cid_eqb a b) eqn:E; [apply cid_eqb_eq in E; contradiction|reflexivity]. Qed.

(** * checkpoint ids are distinct *)
Lemma fold_max_ge ms : forall l acc i, In i l -> fst i = ms ->
  snd i + 1 <= fold_left (fun acc i => if fst i =? ms then N.max acc (snd i + 1) else acc) l acc.
Proof.
  induction l as [|x l IH]; intros acc i Hin Hms; [contradiction|]. cbn [fold_left].
  assert (Mono : forall l a b, a <= b ->
     fold_left (fun acc i => if fst i =? ms then N.max acc (snd i + 1) else acc) l a <=
     fold_left (fun acc i => if fst i =? ms then N.max acc (snd i + 1) else acc) l b).
  { clear. induction l as [|y l IHl]; intros a b Hab; cbn; [exact Hab|]. apply IHl. destruct (fst y =? ms); lia. }
  assert (Ge : forall l a, a <= fold_left (fun acc i => if fst i =? ms then N.max acc (snd i + 1) else acc) l a).
  { clear. induction l as [|y l IHl]; intros a; cbn; [lia|].
    eapply N.le_trans; [|apply IHl]. destruct (fst y =? ms); lia. }
  destruct Hin as [->|Hin].
  - rewrite Hms, N.eqb_refl. eapply N.le_trans; [|apply Ge]. lia.
  - apply IH; assumption.
Qed.

Lemma fresh_not_used s : ~ In (fresh_id s) (ckpts s).
Proof.
  unfold fresh_id. intros Hin.
  pose proof (fold_max_ge (now s) (ckpts s) 0 _ Hin eq_refl) as H. cbn [fst snd] in H. lia.
Qed.

Lemma NoDup_app_intro_last {T} (l : list T) x : NoDup l -> ~ In x l -> NoDup (l ++ [x]).
Proof.
  induction l as [|y l IH]; intros Hn Hx; cbn.
  - constructor; [intros []|constructor].
  - inversion Hn as [|? ? Hy Hl]; subst. constructor.
    + intro H. apply in_app_or in H. destruct H as [H|[H|[]]]; [contradiction|]. subst. apply Hx. left. reflexivity.
    + apply IH; [exact Hl|]. intro H. apply Hx. right. exact H.
Qed.

(** * a retained checkpoint's file is never changed by later activity *)
Lemma fs_get_set_other f i j x : i <> j -> fs_get (fs_set f i x) j = fs_get f j.
Proof.
  intros Hne. unfold fs_get, fs_set.
  assert (G : forall l, find (fun e => cid_eqb (fst e) j) (filter (fun e => negb (cid_eqb (fst e) i)) l ++ [(i, x)]) =
                        find (fun e => cid_eqb (fst e) j) l).
  { induction l as [|[k v] l IH]; cbn.
    - rewrite (cid_eqb_neq i j Hne). reflexivity.
    - destruct (cid_eqb k i) eqn:E; cbn.
      + apply cid_eqb_eq in E. subst k. rewrite (cid_eqb_neq i j Hne). exact IH.
      + destruct (cid_eqb k j); [reflexivity|exact IH]. }
  rewrite G. reflexivity.
Qed.

Lemma fs_get_del_other f i j : i <> j -> fs_get (fs_del f i) j = fs_get f j.
Proof.
  intros Hne. unfold fs_get, fs_del.
  induction f as [|[k v] f IH]; cbn; [reflexivity|].
  destruct (cid_eqb k i) eqn:E; cbn.
  - apply cid_eqb_eq in E. subst k. rewrite (cid_eqb_neq i j Hne). exact IH.
  - destruct (cid_eqb k j); [reflexivity|exact IH].
Qed.

Lemma checkpoint_keeps_file s c p id x :
  NoDup (ckpts s) -> In id (ckpts s) -> fs_get (fs s) id = Some x ->
  In id (ckpts (fst (do_checkpoint s c p))) -> fs_get (fs (fst (do_checkpoint s c p))) id = Some x.
Proof.
  intros Hnd Hin Hf.
  assert (Hne : fresh_id s <> id) by (intro E; subst; apply (fresh_not_used s); exact Hin).
  unfold do_checkpoint.
  set (f1 := match fs_get (fs s) (fresh_id s) with Some _ => fs s | None => fs_set (fs s) (fresh_id s) DirOnly end).
  assert (H1 : fs_get f1 id = Some x).
  { unfold f1. destruct (fs_get (fs s) (fresh_id s)); [exact Hf|]. rewrite fs_get_set_other; assumption. }
  destruct (c =? 1); cbn [fst fs ckpts]; [intros _; exact H1|].
  destruct (c =? 2); cbn [fst fs ckpts]; [intros _; rewrite fs_get_set_other; assumption|].
  destruct (c =? 3); cbn [fst fs ckpts].
  { intros _. destruct p as [|[| |]]; rewrite ?fs_get_set_other; try assumption; rewrite fs_get_set_other; assumption. }
  assert (H3 : fs_get (fs_set (fs_set f1 (fresh_id s) FileEmpty) (fresh_id s) (FileFull (snapshot s))) id = Some x).
  { rewrite !fs_get_set_other; assumption. }
  destruct (c =? 4); cbn [fst fs ckpts]; [intros _; exact H3|].
  destruct (c =? 5); cbn [fst fs ckpts]; [intros _; exact H3|].
  destruct (ckpts s ++ [fresh_id s]) as [|old rest] eqn:Eck; cbn [fst fs ckpts]; [intros _; exact H3|].
  destruct (maxck s <? lenN (old :: rest)); cbn [fst fs ckpts]; [|intros _; exact H3].
  intros Hin'. rewrite fs_get_del_other; [exact H3|].
  (* old <> id because the extended list has no duplicates and id is in its tail *)
  assert (Hnd' : NoDup (old :: rest)).
  { rewrite <- Eck. apply NoDup_app_intro_last; [exact Hnd|apply fresh_not_used]. }
  inversion Hnd' as [|? ? Hnot _]; subst. intro E. subst old. contradiction.
Qed.

Lemma checkpoint_nodup s c p : NoDup (ckpts s) -> NoDup (ckpts (fst (do_checkpoint s c p))).
Proof.
  intros Hnd. unfold do_checkpoint.
  destruct (c =? 1); cbn [fst ckpts]; [exact Hnd|].
  destruct (c =? 2); cbn [fst ckpts]; [exact Hnd|].
  destruct (c =? 3); cbn [fst ckpts]; [exact Hnd|].
  destruct (c =? 4); cbn [fst ckpts]; [exact Hnd|].
  assert (Hnd' : NoDup (ckpts s ++ [fresh_id s])) by (apply NoDup_app_intro_last; [exact Hnd|apply fresh_not_used]).
  destruct (c =? 5); cbn [fst ckpts]; [exact Hnd'|].
  destruct (ckpts s ++ [fresh_id s]) as [|old rest] eqn:Eck; cbn [fst ckpts]; [exact Hnd|].
  destruct (maxck s <? lenN (old :: rest)); cbn [fst ckpts]; [inversion Hnd'; assumption|exact Hnd'].
Qed.

Lemma step_nodup s o : NoDup (ckpts s) -> NoDup (ckpts (fst (step s o))).
Proof.
  intros H. destruct o as [k v|k v t|k v|k|dt| |c p|j]; cbn [step]; try exact H.
  - destruct (find_entry (store s) k) as [e|]; [destruct (expired (now s) e)|]; exact H.
  - apply checkpoint_nodup. exact H.
  - apply checkpoint_nodup. exact H.
  - destruct (nth_error (issued s) j) as [id|]; [|exact H].
    destruct (fs_get (fs s) id) as [[| | |sn]|]; exact H.
Qed.

(** Whatever is put, updated, deleted, checkpointed (completely or interrupted at any point) or
    restored afterwards, the file of a checkpoint that is still retained is unchanged. *)
Lemma step_keeps_file s o id x :
  NoDup (ckpts s) -> In id (ckpts s) -> fs_get (fs s) id = Some x ->
  In id (ckpts (fst (step s o))) -> fs_get (fs (fst (step s o))) id = Some x.
Proof.
  intros Hnd Hin Hf. destruct o as [k v|k v t|k v|k|dt| |c p|j]; cbn [step]; try (intros _; exact Hf).
  - destruct (find_entry (store s) k) as [e|]; [destruct (expired (now s) e)|]; intros _; exact Hf.
  - apply checkpoint_keeps_file; assumption.
  - apply checkpoint_keeps_file; assumption.
  - destruct (nth_error (issued s) j) as [id'|]; [|intros _; exact Hf].
    destruct (fs_get (fs s) id') as [[| | |sn]|]; intros _; exact Hf.
Qed.

Definition exec (s : st) (ops : list op) : st := fold_left (fun s o => fst (step s o)) ops s.

(** retention only ever drops checkpoints: one that is retained at the end was retained all along *)
Lemma checkpoint_retained_before s c p id :
  In id (ckpts (fst (do_checkpoint s c p))) -> In id (ckpts s) \/ id = fresh_id s.
Proof.
  unfold do_checkpoint.
  destruct (c =? 1); cbn [fst ckpts]; [auto|].
  destruct (c =? 2); cbn [fst ckpts]; [auto|].
  destruct (c =? 3); cbn [fst ckpts]; [auto|].
  destruct (c =? 4); cbn [fst ckpts]; [auto|].
  assert (G : forall l, In id l -> l = ckpts s ++ [fresh_id s] -> In id (ckpts s) \/ id = fresh_id s).
  { intros l H ->. apply in_app_or in H. destruct H as [H|[H|[]]]; auto. }
  destruct (c =? 5); cbn [fst ckpts]; [intros H; eapply G; eauto|].
  destruct (ckpts s ++ [fresh_id s]) as [|old rest] eqn:Eck; cbn [fst ckpts]; [auto|].
  destruct (maxck s <? lenN (old :: rest)); cbn [fst ckpts]; intros H; eapply (G (old :: rest)); auto. right. exact H.
Qed.

Theorem retained_file_stable ops : forall s id x,
  NoDup (ckpts s) -> In id (ckpts s) -> fs_get (fs s) id = Some x ->
  (forall k, In id (ckpts (exec s (firstn k ops)))) ->
  fs_get (fs (exec s ops)) id = Some x.
Proof.
  induction ops as [|o ops IH]; intros s id x Hnd Hin Hf Hret; [exact Hf|].
  cbn [exec fold_left]. fold (exec (fst (step s o)) ops).
  assert (Hin' : In id (ckpts (fst (step s o)))) by (apply (Hret 1%nat)).
  apply IH.
  - apply step_nodup. exact Hnd.
  - exact Hin'.
  - apply step_keeps_file; assumption.
  - intro k. apply (Hret (S k)).
Qed.

(** * restoring reproduces the unexpired keys and values held at checkpoint time *)
Definition KeysUnique (l : list entry) : Prop := NoDup (map e_key l).

Lemma insert_kv_in p l q : In q (insert_kv p l) <-> q = p \/ In q l.
Proof.
  induction l as [|x l IH]; cbn; [intuition|].
  destruct (fst p <? fst x); cbn; [intuition|]. rewrite IH. intuition.
Qed.

Lemma snapshot_in s k v :
  In (k, v) (snapshot s) <-> exists e, In e (store s) /\ expired (now s) e = false /\ e_key e = k /\ e_val e = v.
Proof.
  unfold snapshot.
  assert (G : forall l a, In (k, v) (fold_left (fun a e => if expired (now s) e then a else insert_kv (e_key e, e_val e) a) l a) <->
              In (k, v) a \/ exists e, In e l /\ expired (now s) e = false /\ e_key e = k /\ e_val e = v).
  { induction l as [|x l IH]; intros a; cbn [fold_left].
    - split; [auto|intros [H|[e [[] _]]]; exact H].
    - rewrite IH. destruct (expired (now s) x) eqn:Ex.
      + split; intros [H|[e [Hin He]]]; auto.
        * right. exists e. split; [right; exact Hin|exact He].
        * destruct Hin as [->|Hin]; [destruct He as [He _]; congruence|]. right. exists e. auto.
      + rewrite insert_kv_in. split.
        * intros [[H|H]|[e [Hin He]]]; auto.
          -- inversion H; subst. right. exists x. repeat split; auto. left. reflexivity.
          -- right. exists e. split; [right; exact Hin|exact He].
        * intros [H|[e [[->|Hin] He]]]; auto.
          -- left. left. destruct He as [_ [<- <-]]. reflexivity.
          -- right. exists e. auto. }
  rewrite G. split; [intros [[]|H]; exact H|auto].
Qed.

Lemma find_entry_spec l k :
  KeysUnique l ->
  forall e, (find_entry l k = Some e <-> In e l /\ e_key e = k).
Proof.
  unfold KeysUnique, find_entry. induction l as [|x l IH]; intros Hu e; cbn.
  - split; [discriminate|intros [[] _]].
  - cbn in Hu. inversion Hu as [|? ? Hx Hl]; subst.
    destruct (e_key x =? k) eqn:E.
    + apply N.eqb_eq in E. split.
      * intros H. inversion H; subst. auto.
      * intros [[->|Hin] Hk]; [reflexivity|].
        exfalso. apply Hx. rewrite E, <- Hk. apply in_map. exact Hin.
    + rewrite (IH Hl e). split.
      * intros [Hin Hk]. auto.
      * intros [[->|Hin] Hk]; [rewrite Hk, N.eqb_refl in E; discriminate|auto].
Qed.

Lemma get_spec s k v :
  KeysUnique (store s) ->
  (get s k = Some v <-> exists e, In e (store s) /\ expired (now s) e = false /\ e_key e = k /\ e_val e = v).
Proof.
  intros Hu. unfold get. split.
  - destruct (find_entry (store s) k) as [e|] eqn:F; [|discriminate].
    apply (find_entry_spec _ _ Hu) in F. destruct F as [Hin Hk].
    destruct (expired (now s) e) eqn:Ex; [discriminate|]. intros H. inversion H; subst. exists e. auto.
  - intros [e [Hin [Hex [Hk Hv]]]].
    assert (F : find_entry (store s) k = Some e) by (apply (find_entry_spec _ _ Hu); auto).
    rewrite F, Hex, Hv. reflexivity.
Qed.

(** the store built by restore from a snapshot *)
Definition restored (t : N) (sn : snap) : list entry :=
  map (fun p => {| e_key := fst p; e_val := snd p; e_created := t; e_ttl := None |}) sn.

Lemma snapshot_keys s : KeysUnique (store s) -> NoDup (map fst (snapshot s)).
Proof.
  intros Hu. unfold snapshot.
  assert (G : forall l a, NoDup (map e_key l) -> NoDup (map fst a) ->
              (forall e, In e l -> ~ In (e_key e) (map fst a)) ->
              NoDup (map fst (fold_left (fun a e => if expired (now s) e then a else insert_kv (e_key e, e_val e) a) l a))).
  { induction l as [|x l IH]; intros a Hl Ha Hd; cbn [fold_left]; [exact Ha|].
    cbn in Hl. inversion Hl as [|? ? Hx Hl']; subst.
    destruct (expired (now s) x).
    - apply IH; [exact Hl'|exact Ha|]. intros e He. apply Hd. right. exact He.
    - assert (Hins : forall q, In q (map fst (insert_kv (e_key x, e_val x) a)) <-> q = e_key x \/ In q (map fst a)).
      { intro q. rewrite !in_map_iff. split.
        - intros [p [<- Hp]]. apply insert_kv_in in Hp. destruct Hp as [->|Hp]; [left; reflexivity|right; exists p; auto].
        - intros [->|[p [<- Hp]]]; [exists (e_key x, e_val x); split; [reflexivity|apply insert_kv_in; left; reflexivity]|].
          exists p. split; [reflexivity|apply insert_kv_in; right; exact Hp]. }
      apply IH; [exact Hl'| |].
      + (* NoDup of the inserted list *)
        clear IH Hins. assert (Hnx : ~ In (e_key x) (map fst a)) by (apply Hd; left; reflexivity).
        clear Hd Hl Hx Hl'. revert Ha Hnx. generalize (e_key x) (e_val x). intros kx vx.
        induction a as [|q a IHa]; intros Ha Hnx; cbn.
        * constructor; [intros []|constructor].
        * destruct (kx <? fst q); cbn.
          -- constructor; [exact Hnx|exact Ha].
          -- inversion Ha as [|? ? Hq Ha']; subst. constructor.
             ++ intro H. apply in_map_iff in H. destruct H as [p [Hp1 Hp2]]. apply insert_kv_in in Hp2.
                destruct Hp2 as [->|Hp2]; [cbn in Hp1; apply Hnx; left; symmetry; exact Hp1|].
                apply Hq. rewrite <- Hp1. apply in_map. exact Hp2.
             ++ apply IHa; [exact Ha'|]. intro H. apply Hnx. right. exact H.
      + intros e He Hc. apply Hins in Hc. destruct Hc as [Hc|Hc].
        * apply Hx. rewrite <- Hc. apply in_map. exact He.
        * apply (Hd e); [right; exact He|exact Hc]. }
  apply G; [exact Hu|constructor|intros e _ []].
Qed.

(** Restoring a complete checkpoint file reproduces exactly the unexpired keys and values held
    when the snapshot was taken (at state s0), whatever the current time and store are. *)
Theorem restore_reproduces s0 s k :
  KeysUnique (store s0) ->
  get {| store := restored (now s) (snapshot s0); ckpts := ckpts s; fs := fs s; issued := issued s; now := now s; maxck := maxck s |} k
  = get s0 k.
Proof.
  intros Hu.
  set (s' := {| store := restored (now s) (snapshot s0); ckpts := ckpts s; fs := fs s; issued := issued s; now := now s; maxck := maxck s |}).
  assert (Hu' : KeysUnique (store s')).
  { unfold KeysUnique, s', restored. cbn [store]. rewrite map_map. cbn. apply snapshot_keys. exact Hu. }
  assert (E : forall v, get s' k = Some v <-> get s0 k = Some v).
  { intro v. rewrite (get_spec s' k v Hu'), (get_spec s0 k v Hu). split.
    - intros [e [Hin [_ [Hk Hv]]]]. unfold s', restored in Hin. cbn [store] in Hin.
      apply in_map_iff in Hin. destruct Hin as [[k0 v0] [<- Hp]]. cbn in Hk, Hv. subst k0 v0.
      apply snapshot_in in Hp. exact Hp.
    - intros H. apply snapshot_in in H.
      exists {| e_key := k; e_val := v; e_created := now s; e_ttl := None |}. repeat split.
      unfold s', restored. cbn [store]. apply in_map_iff. exists (k, v). auto. }
  destruct (get s' k) as [v|] eqn:G1.
  - symmetry. apply E. reflexivity.
  - destruct (get s0 k) as [v|] eqn:G2; [|reflexivity].
    destruct (E v) as [_ H]. specialize (H eq_refl). discriminate.
Qed.

(** KeysUnique is an invariant of every operation *)
Lemma del_entry_keys l k : KeysUnique l -> KeysUnique (del_entry l k) /\ ~ In k (map e_key (del_entry l k)).
Proof.
  unfold KeysUnique, del_entry. induction l as [|x l IH]; intros Hu; cbn.
  - split; [constructor|intros []].
  - cbn in Hu. inversion Hu as [|? ? Hx Hl]; subst. destruct (IH Hl) as [I1 I2].
    destruct (e_key x =? k) eqn:E; cbn; [auto|]. split.
    + constructor; [|exact I1]. intro H. apply Hx. apply in_map_iff in H. destruct H as [e [He Hin]].
      apply filter_In in Hin. rewrite <- He. apply in_map. tauto.
    + intros [H|H]; [rewrite H, N.eqb_refl in E; discriminate|contradiction].
Qed.

Lemma put_entry_keys l e : KeysUnique l -> KeysUnique (put_entry l e).
Proof.
  intros Hu. destruct (del_entry_keys l (e_key e) Hu) as [H1 H2].
  unfold put_entry, KeysUnique. rewrite map_app. cbn. apply NoDup_app_intro_last; assumption.
Qed.

(** every complete file holds a map (unique keys): only snapshots are ever written *)
Definition FilesOk (f : list (cid * fstate)) : Prop :=
  forall id sn, fs_get f id = Some (FileFull sn) -> NoDup (map fst sn).

Lemma fs_get_set_same f i x : fs_get (fs_set f i x) i = Some x.
Proof.
  unfold fs_get, fs_set.
  assert (G : forall l, find (fun e => cid_eqb (fst e) i) (filter (fun e => negb (cid_eqb (fst e) i)) l ++ [(i, x)]) = Some (i, x)).
  { induction l as [|[k v] l IH]; cbn.
    - rewrite cid_eqb_refl. reflexivity.
    - destruct (cid_eqb k i) eqn:E; cbn; [exact IH|]. rewrite E. exact IH. }
  rewrite G. reflexivity.
Qed.

Lemma FilesOk_set f i x :
  FilesOk f -> (forall sn, x = FileFull sn -> NoDup (map fst sn)) -> FilesOk (fs_set f i x).
Proof.
  intros HF Hx id sn H. destruct (cid_eqb i id) eqn:E.
  - apply cid_eqb_eq in E. subst id. rewrite fs_get_set_same in H. inversion H; subst. apply Hx. reflexivity.
  - rewrite fs_get_set_other in H; [eapply HF; eauto|]. intro; subst. rewrite cid_eqb_refl in E. discriminate.
Qed.

Lemma FilesOk_del f i : FilesOk f -> FilesOk (fs_del f i).
Proof.
  intros HF id sn H. destruct (cid_eqb i id) eqn:E.
  - apply cid_eqb_eq in E. subst id. exfalso. unfold fs_get, fs_del in H.
    destruct (find _ (filter _ f)) as [e|] eqn:F; [|discriminate].
    apply find_some in F. destruct F as [F1 F2]. apply filter_In in F1. destruct F1 as [_ F1].
    rewrite F2 in F1. discriminate.
  - rewrite fs_get_del_other in H; [eapply HF; eauto|]. intro; subst. rewrite cid_eqb_refl in E. discriminate.
Qed.

Record Inv (s : st) : Prop := { inv_keys : KeysUnique (store s); inv_files : FilesOk (fs s); inv_ids : NoDup (ckpts s) }.

Lemma Inv_init mx : Inv (init mx).
Proof. split; cbn; [constructor| intros id sn H; discriminate |constructor]. Qed.

Lemma do_checkpoint_store s c p : store (fst (do_checkpoint s c p)) = store s.
Proof.
  unfold do_checkpoint.
  destruct (c =? 1); [reflexivity|]. destruct (c =? 2); [reflexivity|]. destruct (c =? 3); [reflexivity|].
  destruct (c =? 4); [reflexivity|]. destruct (c =? 5); [reflexivity|].
  destruct (ckpts s ++ [fresh_id s]) as [|old rest]; [reflexivity|].
  destruct (maxck s <? lenN (old :: rest)); reflexivity.
Qed.

Lemma checkpoint_inv s c p : Inv s -> Inv (fst (do_checkpoint s c p)).
Proof.
  intros [Hk Hf Hn]. split; [| |apply checkpoint_nodup; exact Hn].
  - rewrite do_checkpoint_store. exact Hk.
  - pose proof (snapshot_keys s Hk) as Hsn.
    assert (F1 : FilesOk (match fs_get (fs s) (fresh_id s) with Some _ => fs s | None => fs_set (fs s) (fresh_id s) DirOnly end)).
    { destruct (fs_get (fs s) (fresh_id s)); [exact Hf|]. apply FilesOk_set; [exact Hf|discriminate]. }
    set (f1 := match fs_get (fs s) (fresh_id s) with Some _ => fs s | None => fs_set (fs s) (fresh_id s) DirOnly end) in *.
    assert (F2 : FilesOk (fs_set f1 (fresh_id s) FileEmpty)) by (apply FilesOk_set; [exact F1|discriminate]).
    assert (F3 : FilesOk (fs_set (fs_set f1 (fresh_id s) FileEmpty) (fresh_id s) (FileFull (snapshot s)))).
    { apply FilesOk_set; [exact F2|]. intros sn E. inversion E; subst. exact Hsn. }
    unfold do_checkpoint. fold f1.
    destruct (c =? 1); cbn [fst fs]; [exact F1|].
    destruct (c =? 2); cbn [fst fs]; [exact F2|].
    destruct (c =? 3); cbn [fst fs].
    { destruct p as [|[| |]]; try exact F2; try exact F3; apply FilesOk_set; try exact F2; discriminate. }
    destruct (c =? 4); cbn [fst fs]; [exact F3|].
    destruct (c =? 5); cbn [fst fs]; [exact F3|].
    destruct (ckpts s ++ [fresh_id s]) as [|old rest]; cbn [fst fs]; [exact F3|].
    destruct (maxck s <? lenN (old :: rest)); cbn [fst fs]; [apply FilesOk_del; exact F3|exact F3].
Qed.

Lemma step_inv s o : Inv s -> Inv (fst (step s o)).
Proof.
  intros HI. pose proof HI as [Hk Hf Hn].
  destruct o as [k v|k v t|k v|k|dt| |c p|j]; cbn [step].
  - split; cbn; [apply put_entry_keys; exact Hk|exact Hf|exact Hn].
  - split; cbn; [apply put_entry_keys; exact Hk|exact Hf|exact Hn].
  - destruct (find_entry (store s) k) as [e|]; [|exact HI]. destruct (expired (now s) e); [exact HI|].
    split; cbn; [|exact Hf|exact Hn]. unfold KeysUnique in *. rewrite map_map.
    rewrite (map_ext _ e_key); [exact Hk|]. intro x. destruct (e_key x =? k) eqn:E; [apply N.eqb_eq in E; cbn; auto|reflexivity].
  - split; cbn; [apply del_entry_keys; exact Hk|exact Hf|exact Hn].
  - split; cbn; assumption.
  - apply checkpoint_inv. exact HI.
  - apply checkpoint_inv. exact HI.
  - destruct (nth_error (issued s) j) as [id|]; [|exact HI].
    destruct (fs_get (fs s) id) as [[| | |sn]|] eqn:F; try exact HI.
    split; cbn; [|exact Hf|exact Hn].
    unfold KeysUnique. rewrite map_map. cbn. eapply Hf. exact F.
Qed.

Lemma exec_inv ops : forall s, Inv s -> Inv (exec s ops).
Proof. induction ops as [|o ops IH]; intros s H; cbn; [exact H|]. apply IH. apply step_inv. exact H. Qed.

(** The property's main sentence, end to end on the model: take a checkpoint in state s0 (any
    reachable state), do anything afterwards (put / update / delete / clock advances / further
    checkpoints, complete or interrupted / restores) as long as that checkpoint is still retained,
    then restore it: every key reads exactly what it read at checkpoint time. *)
Theorem restore_is_snapshot ops0 ops mx k :
  let s0 := exec (init mx) ops0 in
  let '(s1, okc) := step s0 Checkpoint in
  let id := fresh_id s0 in
  In id (ckpts s1) ->
  (forall n, In id (ckpts (exec s1 (firstn n ops)))) ->
  let s2 := exec s1 ops in
  let j := length (issued s0) in
  nth_error (issued s2) j = Some id ->
  get (fst (step s2 (Restore j))) k = get s0 k /\ snd (step s2 (Restore j)) = true.
Proof.
  cbn zeta. destruct (step (exec (init mx) ops0) Checkpoint) as [s1 okc] eqn:Es1.
  intros Hret1 Hret Hnth.
  set (s0 := exec (init mx) ops0) in *.
  assert (I0 : Inv s0) by (apply exec_inv; apply Inv_init).
  assert (I1 : Inv s1) by (replace s1 with (fst (step s0 Checkpoint)) by (rewrite Es1; reflexivity); apply step_inv; exact I0).
  (* the file written by the checkpoint *)
  assert (F1 : fs_get (fs s1) (fresh_id s0) = Some (FileFull (snapshot s0))).
  { cbn [step] in Es1. unfold do_checkpoint in Es1. cbn in Es1.
    destruct (ckpts s0 ++ [fresh_id s0]) as [|old rest] eqn:Eck.
    - inversion Es1; subst. cbn. apply fs_get_set_same.
    - destruct (maxck s0 <? lenN (old :: rest)) eqn:Em; inversion Es1; subst; cbn [fs ckpts] in *.
      + rewrite fs_get_del_other; [apply fs_get_set_same|].
        intro E. subst old.
        assert (Hnd : NoDup (fresh_id s0 :: rest)).
        { rewrite <- Eck. apply NoDup_app_intro_last; [apply I0|apply fresh_not_used]. }
        inversion Hnd; contradiction.
      + apply fs_get_set_same. }
  pose proof (retained_file_stable ops s1 (fresh_id s0) _ (inv_ids _ I1) Hret1 F1 Hret) as F2.
  cbn [step]. rewrite Hnth, F2. cbn [fst snd]. split; [|reflexivity].
  apply (restore_reproduces s0 (exec s1 ops) k). apply I0.
Qed.

Lemma do_checkpoint_issued s c p : issued (fst (do_checkpoint s c p)) = issued s ++ [fresh_id s].
Proof.
  unfold do_checkpoint.
  destruct (c =? 1); [reflexivity|]. destruct (c =? 2); [reflexivity|]. destruct (c =? 3); [reflexivity|].
  destruct (c =? 4); [reflexivity|]. destruct (c =? 5); [reflexivity|].
  destruct (ckpts s ++ [fresh_id s]) as [|old rest]; [reflexivity|].
  destruct (maxck s <? lenN (old :: rest)); reflexivity.
Qed.

Lemma do_checkpoint_now s c p : now (fst (do_checkpoint s c p)) = now s.
Proof.
  unfold do_checkpoint.
  destruct (c =? 1); [reflexivity|]. destruct (c =? 2); [reflexivity|]. destruct (c =? 3); [reflexivity|].
  destruct (c =? 4); [reflexivity|]. destruct (c =? 5); [reflexivity|].
  destruct (ckpts s ++ [fresh_id s]) as [|old rest]; [reflexivity|].
  destruct (maxck s <? lenN (old :: rest)); reflexivity.
Qed.

(** what an interrupted checkpoint leaves in its own directory: nothing complete, or the
    complete snapshot — never a partial or foreign state that restore would accept *)
Lemma crashed_file s c p : 1 <= c <= 5 ->
  match fs_get (fs (fst (do_checkpoint s c p))) (fresh_id s) with
  | Some (FileFull sn) => sn = snapshot s \/ fs_get (fs s) (fresh_id s) = Some (FileFull sn)
  | _ => True
  end.
Proof.
  intros Hc. unfold do_checkpoint.
  set (f1 := match fs_get (fs s) (fresh_id s) with Some _ => fs s | None => fs_set (fs s) (fresh_id s) DirOnly end).
  destruct (c =? 1) eqn:E1; cbn [fst fs].
  { unfold f1. destruct (fs_get (fs s) (fresh_id s)) as [x|] eqn:F.
    - rewrite F. destruct x; auto.
    - rewrite fs_get_set_same. exact I. }
  destruct (c =? 2) eqn:E2; cbn [fst fs]; [rewrite fs_get_set_same; exact I|].
  destruct (c =? 3) eqn:E3; cbn [fst fs].
  { destruct p as [|[| |]]; rewrite ?fs_get_set_same; auto. }
  destruct (c =? 4) eqn:E4; cbn [fst fs]; [rewrite fs_get_set_same; auto|].
  destruct (c =? 5) eqn:E5; cbn [fst fs]; [rewrite fs_get_set_same; auto|].
  apply N.eqb_neq in E1, E2, E3, E4, E5. lia.
Qed.

(** crash atomicity of the interrupted checkpoint itself: restoring it either fails and leaves
    the store untouched, or succeeds with exactly the state at the time of the checkpoint.
    (The directory is new: [fs_get (fs s) (fresh_id s) = None].) *)
Theorem crash_atomic s c p k :
  Inv s -> 1 <= c <= 5 -> fs_get (fs s) (fresh_id s) = None ->
  let s1 := fst (step s (Crash c p)) in
  let j := length (issued s) in
  let '(s2, okr) := step s1 (Restore j) in
  (okr = false /\ s2 = s1) \/ (okr = true /\ get s2 k = get s k).
Proof.
  intros HI Hc Hnew. cbn zeta. cbn [step].
  pose proof (crashed_file s c p Hc) as CF.
  rewrite do_checkpoint_issued.
  assert (Hn : nth_error (issued s ++ [fresh_id s]) (length (issued s)) = Some (fresh_id s)).
  { rewrite nth_error_app2 by lia. rewrite Nat.sub_diag. reflexivity. }
  rewrite Hn.
  destruct (fs_get (fs (fst (do_checkpoint s c p))) (fresh_id s)) as [[| | |sn]|]; auto.
  right. split; [reflexivity|].
  destruct CF as [->|CF]; [|congruence].
  unfold upd_store. rewrite do_checkpoint_now.
  pose proof (restore_reproduces s (fst (do_checkpoint s c p)) k (inv_keys _ HI)) as R.
  rewrite do_checkpoint_now in R. exact R.
Qed.

Theorem ids_always_distinct ops mx : NoDup (ckpts (exec (init mx) ops)).
Proof. apply exec_inv. apply Inv_init. Qed.
