(** C19 — proofs about Model/Parallel.v *)
From RRE Require Import Base.Sx Model.Parallel.
From Coq Require Import Lia Permutation Sorting.Sorted.
Open Scope Z_scope.

(** * chunking partitions the level *)
Lemma take_drop {T} n (l : list T) : take n l ++ drop n l = l.
Proof. revert l. induction n as [|n IH]; intros [|x l]; cbn; try reflexivity. rewrite IH. reflexivity. Qed.

Lemma drop_length {T} n (l : list T) : length (drop n l) = (length l - n)%nat.
Proof. revert l. induction n as [|n IH]; intros [|x l]; cbn; try lia. apply IH. Qed.

Lemma chunks_fuel_concat {T} fuel : forall n (l : list T), (0 < n)%nat -> (length l <= fuel)%nat -> concat (chunks_fuel fuel n l) = l.
Proof.
  induction fuel as [|f IH]; intros n l Hn Hl; cbn.
  - destruct l; [reflexivity|cbn in Hl; lia].
  - destruct l as [|x l]; [reflexivity|]. cbn [concat].
    rewrite IH; [apply take_drop|exact Hn|]. rewrite drop_length. cbn [length] in *. lia.
Qed.

Theorem chunks_partition {T} n (l : list T) : (0 < n)%nat -> concat (chunks n l) = l.
Proof. intros Hn. apply chunks_fuel_concat; [exact Hn|lia]. Qed.

Lemma chunks_fuel_nonempty {T} fuel : forall n (l : list T), (0 < n)%nat -> Forall (fun c => c <> []) (chunks_fuel fuel n l).
Proof.
  induction fuel as [|f IH]; intros n l Hn; cbn; [constructor|].
  destruct l as [|x l]; [constructor|]. constructor; [|apply IH; exact Hn].
  destruct n; [lia|]. cbn. discriminate.
Qed.

Lemma div_ceil_pos a b : (0 < a)%nat -> (0 < b)%nat -> (0 < div_ceil a b)%nat.
Proof.
  intros Ha Hb. unfold div_ceil. apply Nat.div_str_pos. lia.
Qed.

(** * any order in which the chunk threads append gives a permutation of the level *)
Lemma flat_map_nth_seq {T} (cs : list (list T)) : forall pre,
  flat_map (fun i => nth i (pre ++ cs) []) (seq (length pre) (length cs)) = concat cs.
Proof.
  induction cs as [|c cs IH]; intros pre; cbn [length seq flat_map concat]; [reflexivity|].
  rewrite nth_middle. f_equal.
  specialize (IH (pre ++ [c])). rewrite app_length in IH. cbn [length] in IH. rewrite Nat.add_1_r in IH.
  rewrite <- app_assoc in IH. exact IH.
Qed.

Lemma flat_map_nth_perm {T} (cs : list (list T)) (order : list nat) :
  Permutation order (seq 0 (length cs)) ->
  Permutation (flat_map (fun i => nth i cs []) order) (concat cs).
Proof.
  intros HP. rewrite <- (flat_map_nth_seq cs []). cbn [app length].
  apply Permutation_flat_map. exact HP.
Qed.

Lemma flat_map_map {X Y Z} (f : X -> list Y) (g : Y -> Z) l : flat_map (fun x => map g (f x)) l = map g (flat_map f l).
Proof. induction l as [|x l IH]; cbn; [reflexivity|]. rewrite map_app, IH. reflexivity. Qed.

Lemma run_level_perm cfg s order rs :
  (0 < c_threads cfg)%nat ->
  Permutation order (id_order cfg rs) ->
  Permutation (run_level cfg s order rs) (map (eval_rule s) rs).
Proof.
  intros Ht HP. unfold run_level. destruct (should_parallelize cfg (length rs)) eqn:SP; [|apply Permutation_refl].
  rewrite flat_map_map. apply Permutation_map.
  assert (Hlen : (2 <= length rs)%nat).
  { unfold should_parallelize in SP. apply andb_true_iff in SP. destruct SP as [_ SP]. apply Nat.leb_le in SP. exact SP. }
  set (n := div_ceil (length rs) (c_threads cfg)).
  assert (Hn : (0 < n)%nat) by (apply div_ceil_pos; lia).
  eapply Permutation_trans; [apply flat_map_nth_perm; exact HP|].
  fold n. rewrite (chunks_partition n rs Hn). apply Permutation_refl.
Qed.

(** * the salience levels partition the enabled rules *)
Lemma insert_desc_in x l z : In z (insert_desc x l) <-> z = x \/ In z l.
Proof.
  induction l as [|y l IH]; cbn; [intuition|].
  destruct (y <? x) eqn:E1; cbn; [intuition|].
  destruct (y =? x) eqn:E2; cbn.
  - apply Z.eqb_eq in E2. subst y. intuition.
  - rewrite IH. intuition.
Qed.

Definition sdesc (a b : Z) : Prop := b < a.

Lemma insert_desc_sorted x l : StronglySorted sdesc l -> StronglySorted sdesc (insert_desc x l).
Proof.
  induction l as [|y l IH]; intros H; cbn; [constructor; constructor|].
  inversion H as [|? ? Hs Hf]; subst.
  destruct (y <? x) eqn:E1.
  - apply Z.ltb_lt in E1. constructor; [exact H|]. constructor; [exact E1|].
    rewrite Forall_forall in *. intros z Hz. specialize (Hf z Hz). unfold sdesc in *. lia.
  - apply Z.ltb_ge in E1. destruct (y =? x) eqn:E2; [exact H|]. apply Z.eqb_neq in E2.
    constructor; [apply IH; exact Hs|].
    rewrite Forall_forall in *. intros z Hz. apply insert_desc_in in Hz. destruct Hz as [->|Hz]; [unfold sdesc; lia|apply Hf; exact Hz].
Qed.

Lemma sorted_nodup l : StronglySorted sdesc l -> NoDup l.
Proof.
  induction l as [|x l IH]; intros H; [constructor|]. inversion H as [|? ? Hs Hf]; subst.
  constructor; [|apply IH; exact Hs]. intro Hin. rewrite Forall_forall in Hf. specialize (Hf x Hin). unfold sdesc in Hf. lia.
Qed.

Lemma levels_spec rs : NoDup (levels rs) /\ forall r, In r rs -> r_enabled r = true -> In (r_sal r) (levels rs).
Proof.
  unfold levels.
  assert (G : forall l acc, StronglySorted sdesc acc ->
            StronglySorted sdesc (fold_left (fun a r => insert_desc (r_sal r) a) l acc) /\
            (forall z, In z acc -> In z (fold_left (fun a r => insert_desc (r_sal r) a) l acc)) /\
            (forall r, In r l -> In (r_sal r) (fold_left (fun a r => insert_desc (r_sal r) a) l acc))).
  { induction l as [|x l IH]; intros acc Hs; cbn [fold_left]; [repeat split; auto; intros r []|].
    destruct (IH (insert_desc (r_sal x) acc) (insert_desc_sorted _ _ Hs)) as [I1 [I2 I3]].
    repeat split; [exact I1| |].
    - intros z Hz. apply I2. apply insert_desc_in. right. exact Hz.
    - intros r [<-|Hr]; [apply I2; apply insert_desc_in; left; reflexivity|apply I3; exact Hr]. }
  destruct (G (filter r_enabled rs) [] (SSorted_nil _)) as [G1 [_ G3]].
  split; [apply sorted_nodup; exact G1|]. intros r Hr He. apply G3. apply filter_In. auto.
Qed.

(** grouping a list by a key over a duplicate-free list of all its keys is a permutation *)
Lemma group_perm {T} (key : T -> Z) (xs : list T) : forall L,
  NoDup L -> (forall x, In x xs -> In (key x) L) ->
  Permutation (flat_map (fun k => filter (fun x => key x =? k) xs) L) xs.
Proof.
  induction xs as [|x xs IH]; intros L Hnd Hall.
  - clear Hnd Hall. induction L as [|k L IHL]; cbn; [constructor|exact IHL].
  - assert (Hk : In (key x) L) by (apply Hall; left; reflexivity).
    apply in_split in Hk. destruct Hk as [L1 [L2 ->]].
    assert (Hnot : ~ In (key x) L1 /\ ~ In (key x) L2).
    { apply NoDup_remove_2 in Hnd. split; intro H; apply Hnd; apply in_or_app; auto. }
    destruct Hnot as [N1 N2].
    assert (Same : forall Lp, ~ In (key x) Lp ->
              flat_map (fun k => filter (fun y => key y =? k) (x :: xs)) Lp = flat_map (fun k => filter (fun y => key y =? k) xs) Lp).
    { induction Lp as [|k Lp IHp]; intros Hn; cbn [flat_map]; [reflexivity|].
      f_equal.
      - cbn [filter]. destruct (key x =? k) eqn:E; [apply Z.eqb_eq in E; exfalso; apply Hn; left; symmetry; exact E|reflexivity].
      - apply IHp. intro H. apply Hn. right. exact H. }
    rewrite flat_map_app. cbn [flat_map]. rewrite (Same L1 N1), (Same L2 N2).
    replace (filter (fun y => key y =? key x) (x :: xs)) with (x :: filter (fun y => key y =? key x) xs) by (cbn [filter]; rewrite Z.eqb_refl; reflexivity).
    specialize (IH (L1 ++ key x :: L2) Hnd (fun y Hy => Hall y (or_intror Hy))).
    rewrite flat_map_app in IH. cbn [flat_map] in IH.
    eapply Permutation_trans; [|apply perm_skip; exact IH].
    cbn. apply Permutation_sym. apply Permutation_middle.
Qed.

Lemma filter_filter' {T} (f g : T -> bool) l : filter f (filter g l) = filter (fun x => g x && f x) l.
Proof. induction l as [|x l IH]; cbn; [reflexivity|]. destruct (g x); cbn; [destruct (f x); cbn; rewrite IH; reflexivity|exact IH]. Qed.

Lemma levels_partition rs :
  Permutation (flat_map (at_level rs) (levels rs)) (filter r_enabled rs).
Proof.
  destruct (levels_spec rs) as [Hnd Hall].
  assert (E : forall sal, at_level rs sal = filter (fun r => r_sal r =? sal) (filter r_enabled rs)).
  { intro sal. unfold at_level. rewrite filter_filter'. reflexivity. }
  rewrite (flat_map_ext _ _ E).
  apply (group_perm r_sal (filter r_enabled rs) (levels rs) Hnd).
  intros r Hr. apply filter_In in Hr. apply Hall; tauto.
Qed.

(** * the main theorem: for every schedule, the parallel contexts are a permutation of the sequential ones *)
Fixpoint orders_ok (cfg : config) (rs : list rule) (orders : list (list nat)) (lv : list Z) : Prop :=
  match lv, orders with
  | _, [] => True
  | [], _ :: _ => True
  | sal :: rest, o :: os => Permutation o (id_order cfg (at_level rs sal)) /\ orders_ok cfg rs os rest
  end.

Lemma run_levels_perm cfg s rs : forall lv orders,
  (0 < c_threads cfg)%nat -> orders_ok cfg rs orders lv ->
  Permutation (run_levels cfg s orders rs lv) (map (eval_rule s) (flat_map (at_level rs) lv)).
Proof.
  induction lv as [|sal lv IH]; intros orders Ht Hok; cbn [run_levels flat_map]; [constructor|].
  rewrite map_app. destruct orders as [|o os].
  - apply Permutation_app; [apply run_level_perm; [exact Ht|apply Permutation_refl]|apply IH; [exact Ht|destruct lv; exact I]].
  - destruct Hok as [H1 H2]. apply Permutation_app; [apply run_level_perm; assumption|apply IH; assumption].
Qed.

Theorem parallel_perm_sequential cfg s orders rs :
  (0 < c_threads cfg)%nat -> orders_ok cfg rs orders (levels rs) ->
  Permutation (execute_parallel cfg s orders rs) (execute_seq s rs).
Proof.
  intros Ht Hok. unfold execute_parallel, execute_seq.
  eapply Permutation_trans; [apply run_levels_perm; assumption|].
  apply Permutation_map. apply levels_partition.
Qed.

Lemma filter_perm_length {T} (f : T -> bool) a b : Permutation a b -> length (filter f a) = length (filter f b).
Proof.
  induction 1; cbn; auto.
  - destruct (f x); cbn; auto.
  - destruct (f x), (f y); reflexivity.
  - congruence.
Qed.

Theorem counts_equal cfg s orders rs :
  (0 < c_threads cfg)%nat -> orders_ok cfg rs orders (levels rs) ->
  evaluated (execute_parallel cfg s orders rs) = evaluated (execute_seq s rs) /\
  fired (execute_parallel cfg s orders rs) = fired (execute_seq s rs).
Proof.
  intros Ht Hok. pose proof (parallel_perm_sequential cfg s orders rs Ht Hok) as P.
  unfold evaluated, fired. split; f_equal; [apply Permutation_length; exact P|apply filter_perm_length; exact P].
Qed.
