(** C07 — proofs about Model/ReteAgenda.v *)
From RRE Require Import Base.Sx Generated.Consts Model.ReteAgenda.
From Coq Require Import Lia.
Open Scope Z_scope.

(** * iteration bounds of the three fire_all loops *)
Lemma ul_loop_bound fuel : forall iter rules fired out,
  (iter <= ul_max_iterations)%N ->
  (snd (ul_loop fuel iter rules fired out) <= ul_max_iterations + 1)%N.
Proof.
  induction fuel as [|f IH]; intros iter rules fired out Hi; cbn [ul_loop]; [cbn [snd]; lia|].
  destruct (ul_max_iterations <? iter + 1)%N eqn:E; [cbn [snd]; lia|].
  apply N.ltb_ge in E.
  destruct (sort_prio _) as [|x ag]; [cbn [snd]; lia|].
  destruct (forallb c_noloop rules); [cbn [snd]; lia|].
  apply IH. lia.
Qed.

Lemma typed_loop_bound fuel : forall iter rules fired out,
  (iter <= typed_bound)%N ->
  (snd (typed_loop fuel iter rules fired out) <= typed_bound + 1)%N.
Proof.
  induction fuel as [|f IH]; intros iter rules fired out Hi; cbn [typed_loop]; [cbn [snd]; lia|].
  destruct (typed_bound <? iter + 1)%N eqn:E; [cbn [snd]; lia|].
  apply N.ltb_ge in E.
  destruct (sort_prio _) as [|x ag]; [cbn [snd]; lia|].
  apply IH. lia.
Qed.

Lemma incr_loop_bound fuel : forall iter rules a seq out,
  (iter <= incr_max_iterations)%N ->
  (snd (incr_loop fuel iter rules a seq out) <= incr_max_iterations + 1)%N.
Proof.
  induction fuel as [|f IH]; intros iter rules a seq out Hi; cbn [incr_loop]; [cbn [snd]; lia|].
  destruct (get_next _ a) as [a1 [x|]]; [|cbn [snd]; lia].
  destruct (incr_max_iterations <? iter + 1)%N eqn:E; [cbn [snd]; lia|].
  apply N.ltb_ge in E.
  destruct (fold_left _ rules (a1, seq)) as [a2 seq'].
  apply IH. lia.
Qed.

(** the fuel given to the loops is never the reason they stop: with fuel > bound - iter the
    loop ends through one of its own exits (bound reached, nothing to fire, all no-loop) *)
Lemma typed_loop_fuel_irrelevant f1 : forall f2 iter rules fired out,
  (N.to_nat (typed_bound - iter) < f1)%nat -> (N.to_nat (typed_bound - iter) < f2)%nat ->
  typed_loop f1 iter rules fired out = typed_loop f2 iter rules fired out.
Proof.
  induction f1 as [|f1 IH]; intros f2 iter rules fired out H1 H2; [lia|].
  destruct f2 as [|f2]; [lia|]. cbn [typed_loop].
  destruct (typed_bound <? iter + 1)%N eqn:E; [reflexivity|]. apply N.ltb_ge in E.
  destruct (sort_prio _) as [|x ag]; [reflexivity|].
  apply IH; lia.
Qed.

Lemma ul_loop_fuel_irrelevant f1 : forall f2 iter rules fired out,
  (N.to_nat (ul_max_iterations - iter) < f1)%nat -> (N.to_nat (ul_max_iterations - iter) < f2)%nat ->
  ul_loop f1 iter rules fired out = ul_loop f2 iter rules fired out.
Proof.
  induction f1 as [|f1 IH]; intros f2 iter rules fired out H1 H2; [lia|].
  destruct f2 as [|f2]; [lia|]. cbn [ul_loop].
  destruct (ul_max_iterations <? iter + 1)%N eqn:E; [reflexivity|]. apply N.ltb_ge in E.
  destruct (sort_prio _) as [|x ag]; [reflexivity|].
  destruct (forallb c_noloop rules); [reflexivity|].
  apply IH; lia.
Qed.

Lemma incr_loop_fuel_irrelevant f1 : forall f2 iter rules a seq out,
  (N.to_nat (incr_max_iterations - iter) + 1 < f1)%nat -> (N.to_nat (incr_max_iterations - iter) + 1 < f2)%nat ->
  incr_loop f1 iter rules a seq out = incr_loop f2 iter rules a seq out.
Proof.
  induction f1 as [|f1 IH]; intros f2 iter rules a seq out H1 H2; [lia|].
  destruct f2 as [|f2]; [lia|]. cbn [incr_loop].
  destruct (get_next _ a) as [a1 [x|]]; [|reflexivity].
  destruct (incr_max_iterations <? iter + 1)%N eqn:E; [reflexivity|]. apply N.ltb_ge in E.
  destruct (fold_left _ rules (a1, seq)) as [a2 seq'].
  apply IH; lia.
Qed.

Theorem ul_fire_all_bounded rules : (snd (ul_fire_all rules) <= ul_max_iterations + 1)%N.
Proof. apply ul_loop_bound. lia. Qed.

Theorem typed_fire_all_bounded rules :
  typed_max_iterations <> None /\ (snd (typed_fire_all rules) <= typed_bound + 1)%N.
Proof. split; [vm_compute; discriminate|apply typed_loop_bound; lia]. Qed.

Theorem incr_fire_all_bounded rules : (snd (incr_fire_all rules) <= incr_max_iterations + 1)%N.
Proof.
  unfold incr_fire_all. destruct (fold_left _ rules (init, 0)) as [a0 seq]. apply incr_loop_bound. lia.
Qed.

(** * the heap pop loop returns the greatest eligible activation *)
Definition rank_lt (a b : act) : Prop := better b a = true.   (* b ranks above a *)

(** all creation times distinct: then [better] is a strict total order on the pending list *)
Definition Distinct (l : list act) : Prop := NoDup (map a_created l) /\ NoDup (map a_id l).

Lemma better_irrefl a : better a a = false.
Proof. unfold better. rewrite Z.ltb_irrefl, Z.eqb_refl, Z.ltb_irrefl. reflexivity. Qed.

Lemma better_trans a b c : better a b = true -> better b c = true -> better a c = true.
Proof.
  unfold better. rewrite !orb_true_iff, !andb_true_iff, !Z.ltb_lt, !Z.eqb_eq. intros [H1|[H1 H2]] [H3|[H3 H4]].
  - left. lia.
  - left. lia.
  - left. lia.
  - right. split; lia.
Qed.

Lemma better_total a b : a_created a <> a_created b -> better a b = true \/ better b a = true.
Proof.
  intros H. unfold better. rewrite !orb_true_iff, !andb_true_iff, !Z.ltb_lt, !Z.eqb_eq.
  destruct (Z.lt_trichotomy (a_sal a) (a_sal b)) as [H1|[H1|H1]]; [right; left; lia| |left; left; lia].
  destruct (Z.lt_trichotomy (a_created a) (a_created b)) as [H2|[H2|H2]]; [left; right; lia|contradiction|right; right; lia].
Qed.

Lemma better_asym a b : better a b = true -> better b a = false.
Proof.
  intros H. destruct (better b a) eqn:E; [|reflexivity].
  pose proof (better_trans a b a H E) as C. rewrite better_irrefl in C. discriminate.
Qed.

(** max_of returns an element of (best :: l) that nothing in (best :: l) beats *)
Lemma max_of_in l : forall best, In (max_of best l) (best :: l).
Proof.
  induction l as [|x l IH]; intros best; cbn; [left; reflexivity|].
  destruct (IH (if better x best then x else best)) as [H|H]; [|right; right; exact H].
  destruct (better x best); [right; left; exact H|left; exact H].
Qed.

Lemma max_of_max l : forall best y,
  NoDup (map a_created (best :: l)) -> In y (best :: l) -> better y (max_of best l) = false.
Proof.
  induction l as [|x l IH]; intros best y Hnd Hy; cbn [max_of].
  - destruct Hy as [<-|[]]. apply better_irrefl.
  - assert (Hnd' : forall b, (b = x \/ b = best) -> NoDup (map a_created (b :: l))).
    { intros b [-> | ->]; cbn in Hnd |- *; inversion Hnd as [|? ? H1 H2]; subst; [exact H2|].
      inversion H2 as [|? ? H3 H4]; subst. constructor; [|exact H4]. intro H. apply H1. right. exact H. }
    destruct (better x best) eqn:E.
    + destruct Hy as [<-|[<-|Hy]].
      * (* y = best: beaten by x, and max_of x l is at least x *)
        destruct (better best (max_of x l)) eqn:E2; [|reflexivity].
        assert (Hx : better x (max_of x l) = false) by (apply IH; [apply Hnd'; auto|left; reflexivity]).
        pose proof (better_trans x best (max_of x l) E E2). congruence.
      * apply IH; [apply Hnd'; auto|left; reflexivity].
      * apply IH; [apply Hnd'; auto|right; exact Hy].
    + destruct Hy as [<-|[<-|Hy]].
      * apply IH; [apply Hnd'; auto|left; reflexivity].
      * (* y = x, not better than best *)
        destruct (better x (max_of best l)) eqn:E2; [|reflexivity].
        assert (Hb : better best (max_of best l) = false) by (apply IH; [apply Hnd'; auto|left; reflexivity]).
        (* x beats max, max is best or beats... use totality: best vs x *)
        assert (Hc : a_created x <> a_created best).
        { cbn in Hnd. inversion Hnd as [|? ? H1 _]; subst. intro Heq. apply H1. left. exact Heq. }
        destruct (better_total x best Hc) as [H|H]; [congruence|].
        destruct (max_of_in l best) as [Hm|Hm].
        -- rewrite <- Hm in E2. congruence.
        -- (* best > x > max and best not > max: contradiction via transitivity *)
           pose proof (better_trans best x (max_of best l) H E2). congruence.
      * apply IH; [apply Hnd'; auto|right; exact Hy].
Qed.

Lemma same_created_same l a b :
  NoDup (map a_created l) -> In a l -> In b l -> a_created a = a_created b -> a = b.
Proof.
  induction l as [|x l IH]; intros Hnd Ha Hb E; [contradiction|].
  cbn in Hnd. inversion Hnd as [|? ? Hx Hl]; subst.
  destruct Ha as [<-|Ha], Hb as [<-|Hb]; auto.
  - exfalso. apply Hx. rewrite E. apply in_map. exact Hb.
  - exfalso. apply Hx. rewrite <- E. apply in_map. exact Ha.
Qed.

Lemma same_id_same l a b :
  NoDup (map a_id l) -> In a l -> In b l -> a_id a = a_id b -> a = b.
Proof.
  induction l as [|x l IH]; intros Hnd Ha Hb E; [contradiction|].
  cbn in Hnd. inversion Hnd as [|? ? Hx Hl]; subst.
  destruct Ha as [<-|Ha], Hb as [<-|Hb]; auto.
  - exfalso. apply Hx. rewrite E. apply in_map. exact Hb.
  - exfalso. apply Hx. rewrite <- E. apply in_map. exact Ha.
Qed.

(** the maximum is unique: an element of l that nothing in l beats is the max *)
Lemma max_unique l m m' :
  NoDup (map a_created l) -> In m l -> In m' l ->
  (forall y, In y l -> better y m = false) -> (forall y, In y l -> better y m' = false) -> m = m'.
Proof.
  intros Hnd Hm Hm' H1 H2.
  destruct (Z.eq_dec (a_created m) (a_created m')) as [E|E]; [eapply same_created_same; eauto|].
  destruct (better_total m m' E) as [H|H]; [rewrite (H2 m Hm) in H|rewrite (H1 m' Hm') in H]; discriminate.
Qed.

Lemma NoDup_map_filter {X Y} (f : X -> Y) (p : X -> bool) l : NoDup (map f l) -> NoDup (map f (filter p l)).
Proof.
  induction l as [|x l IH]; intros H; cbn; [constructor|]. cbn in H. inversion H as [|? ? Hx Hl]; subst.
  destruct (p x); cbn; [constructor; [|auto]|auto].
  intro Hin. apply Hx. apply in_map_iff in Hin. destruct Hin as [y [Hy Hin]]. apply filter_In in Hin.
  rewrite <- Hy. apply in_map. tauto.
Qed.

Lemma pop_max_spec l m rest :
  NoDup (map a_created l) -> pop_max l = Some (m, rest) ->
  In m l /\ (forall y, In y l -> better y m = false) /\ rest = filter (fun y => negb (a_id y =? a_id m)) l.
Proof.
  destruct l as [|x r]; [discriminate|]. intros Hnd H. cbn [pop_max] in H. inversion H; subst.
  repeat split; [apply max_of_in|intros y Hy; apply max_of_max; assumption].
Qed.

Lemma best_eligible_spec a l m :
  NoDup (map a_created l) -> best_eligible a l = Some m ->
  In m l /\ eligible a m = true /\ (forall y, In y l -> eligible a y = true -> better y m = false).
Proof.
  intros Hnd H. unfold best_eligible in H.
  destruct (filter (eligible a) l) as [|x r] eqn:F; [discriminate|]. inversion H; subst.
  pose proof (max_of_in r x) as Hin. rewrite <- F in Hin. apply filter_In in Hin.
  repeat split; try tauto.
  intros y Hy He. apply max_of_max.
  - rewrite <- F. apply NoDup_map_filter. exact Hnd.
  - rewrite <- F. apply filter_In. auto.
Qed.

Lemma filter_length_le' {T} (p : T -> bool) l : (length (filter p l) <= length l)%nat.
Proof. induction l as [|y l IH]; cbn; [lia|]. destruct (p y); cbn; lia. Qed.

Lemma filter_filter_comm {T} (p q : T -> bool) l :
  filter p (filter q l) = filter (fun y => q y && p y) l.
Proof.
  induction l as [|y l IH]; cbn; [reflexivity|].
  destruct (q y); cbn; [destruct (p y); cbn; rewrite IH; reflexivity|exact IH].
Qed.

Lemma filter_length_lt {T} (p : T -> bool) l x : In x l -> p x = false -> (length (filter p l) < length l)%nat.
Proof.
  induction l as [|y l IH]; intros Hin Hp; [contradiction|]. cbn.
  destruct Hin as [->|Hin].
  - rewrite Hp. pose proof (filter_length_le' p l). lia.
  - specialize (IH Hin Hp). destruct (p y); cbn; lia.
Qed.

Lemma pop_eligible_spec a : forall n l,
  (length l < n)%nat -> NoDup (map a_created l) -> NoDup (map a_id l) ->
  pop_eligible n a l =
  match best_eligible a l with
  | Some m => (Some m, filter (fun y => negb (a_id y =? a_id m) && negb (better y m)) l)
  | None => (None, [])
  end.
Proof.
  induction n as [|n IH]; intros l Hlen Hc Hi; [lia|]. cbn [pop_eligible].
  destruct (pop_max l) as [[m0 rest]|] eqn:P.
  2:{ destruct l; [reflexivity|discriminate]. }
  destruct (pop_max_spec l m0 rest Hc P) as [Hm0 [Hmax Hrest]].
  destruct (eligible a m0) eqn:E0.
  - (* the global maximum is eligible: it is the best eligible one *)
    destruct (best_eligible a l) as [m|] eqn:B.
    + destruct (best_eligible_spec a l m Hc B) as [Hm [Hel Hbest]].
      assert (m0 = m).
      { (* both are maxima of the eligible sublist *)
        apply (max_unique (filter (eligible a) l)); [apply NoDup_map_filter; exact Hc| | | |].
        - apply filter_In. auto.
        - apply filter_In. auto.
        - intros y Hy. apply filter_In in Hy. apply Hmax. tauto.
        - intros y Hy. apply filter_In in Hy. apply Hbest; tauto. }
      subst m. f_equal. rewrite Hrest. apply filter_ext_in. intros y Hy. rewrite (Hmax y Hy). cbn. rewrite andb_true_r. reflexivity.
    + exfalso. unfold best_eligible in B. destruct (filter (eligible a) l) eqn:F; [|discriminate].
      assert (In m0 (filter (eligible a) l)) by (apply filter_In; auto). rewrite F in H. contradiction.
  - (* the maximum is filtered out and dropped; continue on the rest *)
    assert (Hlt : (length rest < length l)%nat).
    { rewrite Hrest. apply (filter_length_lt _ l m0 Hm0). rewrite Z.eqb_refl. reflexivity. }
    rewrite (IH rest); [|lia|rewrite Hrest; apply NoDup_map_filter; exact Hc|rewrite Hrest; apply NoDup_map_filter; exact Hi].
    assert (Fe : filter (eligible a) rest = filter (eligible a) l).
    { rewrite Hrest. clear - Hm0 Hi E0. induction l as [|y l IHl]; [reflexivity|]. cbn.
      cbn in Hi. inversion Hi as [|? ? Hy Hl]; subst.
      destruct (a_id y =? a_id m0) eqn:Ey; cbn.
      - apply Z.eqb_eq in Ey.
        assert (y = m0) by (apply (same_id_same (y :: l)); [constructor; assumption|left; reflexivity|exact Hm0|exact Ey]).
        subst y. rewrite E0.
        (* m0 does not occur in l *)
        assert (Hnot : forall z, In z l -> a_id z =? a_id m0 = false).
        { intros z Hz. destruct (a_id z =? a_id m0) eqn:Ez; [|reflexivity]. apply Z.eqb_eq in Ez.
          exfalso. apply Hy. rewrite <- Ez. apply in_map. exact Hz. }
        f_equal. clear - Hnot. induction l as [|z l IHl]; [reflexivity|]. cbn.
        rewrite (Hnot z (or_introl eq_refl)). cbn. rewrite IHl; [reflexivity|]. intros w Hw. apply Hnot. right. exact Hw.
      - destruct Hm0 as [->|Hm0]; [rewrite Z.eqb_refl in Ey; discriminate|].
        destruct (eligible a y); [f_equal|]; apply IHl; assumption. }
    unfold best_eligible. rewrite Fe. fold (best_eligible a l).
    destruct (best_eligible a l) as [m|] eqn:B; [|reflexivity].
    destruct (best_eligible_spec a l m Hc B) as [Hm [Hel Hbest]].
    f_equal. rewrite Hrest, filter_filter_comm.
    apply filter_ext_in. intros y Hy.
    destruct (a_id y =? a_id m0) eqn:Ey; [|reflexivity].
    apply Z.eqb_eq in Ey. assert (y = m0) by (eapply same_id_same; eauto). subst y. cbn [negb andb].
    (* m0 ranks above m, so the specification drops it as well *)
    assert (Hne : a_created m0 <> a_created m).
    { intro Ec. assert (m0 = m) by (eapply same_created_same; eauto). subst. congruence. }
    destruct (better_total m0 m Hne) as [H|H]; [rewrite H; destruct (a_id m0 =? a_id m); reflexivity|].
    rewrite (Hmax m Hm) in H. discriminate.
Qed.

(** * get_next_activation = the specification *)
Definition AllDistinct (g : list (Z * list act)) : Prop :=
  forall k l, grp_get g k = Some l -> NoDup (map a_created l) /\ NoDup (map a_id l).

Lemma grp_get_set g k l k' :
  grp_get (grp_set g k l) k' = if k =? k' then Some l else grp_get g k'.
Proof.
  unfold grp_set, grp_get.
  destruct (existsb (fun e => fst e =? k) g) eqn:Ex.
  - induction g as [|[k0 l0] g IH]; cbn in *; [discriminate|].
    destruct (k0 =? k) eqn:E0; cbn.
    + apply Z.eqb_eq in E0. subst k0. destruct (k =? k') eqn:E1; [reflexivity|].
      (* the remaining entries are mapped but none with key k' changes *)
      clear IH Ex. induction g as [|[k1 l1] g IHg]; cbn; [reflexivity|].
      destruct (k1 =? k) eqn:E2; cbn.
      * apply Z.eqb_eq in E2. subst k1. rewrite E1. exact IHg.
      * destruct (k1 =? k'); [reflexivity|exact IHg].
    + cbn in Ex. destruct (k0 =? k') eqn:E1.
      * apply Z.eqb_eq in E1. subst k0. rewrite Z.eqb_sym in E0. rewrite E0. reflexivity.
      * apply IH. exact Ex.
  - induction g as [|[k0 l0] g IH]; cbn in *.
    + destruct (k =? k'); reflexivity.
    + destruct (k0 =? k) eqn:E0; [discriminate|]. cbn in Ex.
      destruct (k0 =? k') eqn:E1.
      * apply Z.eqb_eq in E1. subst k0. rewrite Z.eqb_sym in E0. rewrite E0. reflexivity.
      * apply IH. exact Ex.
Qed.

Lemma AllDistinct_set g k l :
  AllDistinct g -> NoDup (map a_created l) -> NoDup (map a_id l) -> AllDistinct (grp_set g k l).
Proof.
  intros HA H1 H2 k' l' H. rewrite grp_get_set in H. destruct (k =? k'); [inversion H; subst; auto|eapply HA; eauto].
Qed.

Theorem get_next_spec : forall n a,
  AllDistinct (groups a) -> get_next n a = spec_next n a.
Proof.
  induction n as [|n IH]; intros a HA; [reflexivity|]. cbn [get_next spec_next].
  destruct (grp_get (groups a) (focus a)) as [heap|] eqn:G.
  - destruct (HA _ _ G) as [Hc Hi].
    rewrite (pop_eligible_spec a (S (length heap)) heap (Nat.lt_succ_diag_r _) Hc Hi).
    destruct (best_eligible a heap) as [m|] eqn:B; [reflexivity|].
    cbn [stack groups focus fired_rules fired_agroups locked].
    destruct (rev (stack a)) as [|top rest]; [reflexivity|].
    apply IH. cbn [groups]. apply AllDistinct_set; [exact HA|constructor|constructor].
  - cbn [best_eligible filter]. unfold best_eligible. cbn [filter].
    destruct (rev (stack a)) as [|top rest]; [destruct a; reflexivity|].
    apply IH. cbn [groups]. exact HA.
Qed.

(** * whole histories: the model's observations equal the specification's *)
Definition Below (b : Z) (g : list (Z * list act)) : Prop :=
  forall k l x, grp_get g k = Some l -> In x l -> a_id x < b /\ a_created x < b.

(** Add ops carry strictly increasing ids, used as creation times (what the harness generates) *)
Fixpoint HistOk (b : Z) (ops : list op) : Prop :=
  match ops with
  | [] => True
  | OAdd x :: r => b <= a_id x /\ a_created x = a_id x /\ HistOk (a_id x + 1) r
  | _ :: r => HistOk b r
  end.

Lemma HistOk_mono ops : forall b b', b' <= b -> HistOk b ops -> HistOk b' ops.
Proof.
  induction ops as [|o ops IH]; intros b b' Hb H; [exact I|].
  destruct o; cbn in *; try (eapply IH; eauto).
  destruct H as [H1 [H2 H3]]. repeat split; [lia|exact H2|exact H3].
Qed.

Record AgInv (b : Z) (a : agenda) : Prop := { ai_d : AllDistinct (groups a); ai_b : Below b (groups a) }.

Lemma NoDup_map_app_new {T} (f : T -> Z) l x : NoDup (map f l) -> (forall y, In y l -> f y < f x) -> NoDup (map f (l ++ [x])).
Proof.
  intros Hn Hlt. rewrite map_app. cbn.
  induction l as [|y l IH]; cbn; [constructor; [intros []|constructor]|].
  cbn in Hn. inversion Hn as [|? ? Hy Hl]; subst. constructor.
  - intro H. apply in_app_or in H. destruct H as [H|[H|[]]]; [contradiction|].
    specialize (Hlt y (or_introl eq_refl)). lia.
  - apply IH; [exact Hl|]. intros z Hz. apply Hlt. right. exact Hz.
Qed.

Lemma set_focus_groups a g : groups (set_focus a g) = groups a.
Proof. unfold set_focus. destruct (g =? focus a); reflexivity. Qed.

Lemma add_inv b a x : AgInv b a -> b <= a_id x -> a_created x = a_id x -> AgInv (a_id x + 1) (add_activation a x).
Proof.
  intros [HD HB] Hb Hc.
  set (a1 := if a_autofocus x && negb (a_group x =? focus a) then set_focus a (a_group x) else a).
  assert (G1 : groups a1 = groups a) by (unfold a1; destruct (_ && _); [apply set_focus_groups|reflexivity]).
  assert (Keep : AgInv (a_id x + 1) a1).
  { split; rewrite G1; [exact HD|]. intros k l y Hk Hy. destruct (HB k l y Hk Hy). lia. }
  assert (Push : AgInv (a_id x + 1)
            {| groups := grp_set (groups a1) (a_group x) (match grp_get (groups a1) (a_group x) with Some l => l ++ [x] | None => [x] end);
               focus := focus a1; stack := stack a1; fired_rules := fired_rules a1; fired_agroups := fired_agroups a1; locked := locked a1 |}).
  { rewrite G1. split; cbn [groups].
    - destruct (grp_get (groups a) (a_group x)) as [l|] eqn:G.
      + destruct (HD _ _ G) as [D1 D2].
        apply AllDistinct_set; [exact HD| |]; apply NoDup_map_app_new; try assumption;
          intros y Hy; destruct (HB _ _ y G Hy); lia.
      + apply AllDistinct_set; [exact HD| |]; cbn; constructor; try constructor; intros [].
    - intros k l y Hk Hy. rewrite grp_get_set in Hk. destruct (a_group x =? k) eqn:E.
      + inversion Hk; subst l. destruct (grp_get (groups a) (a_group x)) as [l0|] eqn:G.
        * apply in_app_or in Hy. destruct Hy as [Hy|[<-|[]]]; [destruct (HB _ _ y G Hy); lia|lia].
        * destruct Hy as [<-|[]]. lia.
      + destruct (HB k l y Hk Hy). lia. }
  unfold add_activation. fold a1.
  destruct (a_agroup x) as [g|]; [destruct (memZ g (fired_agroups a1)); [exact Keep|exact Push]|exact Push].
Qed.

Lemma spec_next_inv b : forall n a, AgInv b a -> AgInv b (fst (spec_next n a)).
Proof.
  induction n as [|n IH]; intros a [HD HB]; [split; assumption|]. cbn [spec_next].
  set (heap := match grp_get (groups a) (focus a) with Some h => h | None => [] end).
  destruct (best_eligible a heap) as [m|].
  - cbn [fst]. split; cbn [groups].
    + destruct (grp_get (groups a) (focus a)) as [h|] eqn:G.
      * destruct (HD _ _ G). apply AllDistinct_set; [exact HD| |]; apply NoDup_map_filter; assumption.
      * apply AllDistinct_set; [exact HD| |]; unfold heap; cbn; constructor.
    + intros k l y Hk Hy. rewrite grp_get_set in Hk. destruct (focus a =? k) eqn:E; [|eapply HB; eauto].
      inversion Hk; subst l. apply filter_In in Hy. destruct Hy as [Hy _]. unfold heap in Hy.
      destruct (grp_get (groups a) (focus a)) as [h|] eqn:G; [eapply HB; eauto|contradiction].
  - set (g1 := match grp_get (groups a) (focus a) with Some _ => grp_set (groups a) (focus a) [] | None => groups a end).
    assert (I1 : AllDistinct g1 /\ Below b g1).
    { unfold g1. destruct (grp_get (groups a) (focus a)) as [h0|] eqn:G; [|auto]. split.
      - apply AllDistinct_set; [exact HD|constructor|constructor].
      - intros k l y Hk Hy. rewrite grp_get_set in Hk. destruct (focus a =? k); [inversion Hk; subst; contradiction|eapply HB; eauto]. }
    destruct (rev (stack a)) as [|top rest]; [cbn [fst]; split; cbn [groups]; tauto|].
    apply IH. split; cbn [groups]; tauto.
Qed.

Lemma step_spec st o b :
  AgInv b (fst st) -> step st o = spec_step st o.
Proof.
  intros HI. destruct st as [a last]. destruct o; cbn [step spec_step]; try reflexivity.
  rewrite (get_next_spec _ a (ai_d _ _ HI)). reflexivity.
Qed.

Theorem agenda_run_spec ops : forall st b,
  AgInv b (fst st) -> HistOk b ops -> run_from st ops = spec_run_from st ops.
Proof.
  induction ops as [|o ops IH]; intros st b HI HO; [reflexivity|].
  cbn [run_from spec_run_from]. rewrite (step_spec st o b HI).
  destruct st as [a last].
  destruct o as [x| | |g|]; cbn [spec_step step].
  - destruct HO as [H1 [H2 H3]]. f_equal. apply (IH _ (a_id x + 1)); [cbn [fst]; apply (add_inv b); assumption|exact H3].
  - destruct (spec_next (S (length (stack a))) a) as [a' r] eqn:E. f_equal.
    apply (IH _ b); [|exact HO]. cbn [fst]. replace a' with (fst (spec_next (S (length (stack a))) a)) by (rewrite E; reflexivity).
    apply spec_next_inv. exact HI.
  - destruct last as [x|]; f_equal; apply (IH _ b); try exact HO; cbn [fst]; destruct HI; split; assumption.
  - f_equal. apply (IH _ b); [|exact HO]. cbn [fst]. destruct HI as [HD HB]. split; rewrite set_focus_groups; assumption.
  - f_equal. apply (IH _ b); [|exact HO]. cbn [fst]. destruct HI; split; assumption.
Qed.

Lemma init_inv : AgInv 0 init.
Proof.
  split.
  - intros k l H. unfold init, grp_get in H. cbn [groups find fst] in H.
    destruct (main_group =? k); cbn in H; [|discriminate]. inversion H; subst. cbn. split; constructor.
  - intros k l x H Hx. unfold init, grp_get in H. cbn [groups find fst] in H.
    destruct (main_group =? k); cbn in H; [|discriminate]. inversion H; subst. contradiction.
Qed.

Theorem agenda_model_meets_spec ops :
  HistOk 0 ops -> run_from (init, None) ops = spec_run_from (init, None) ops.
Proof. intros H. apply (agenda_run_spec ops (init, None) 0); [exact init_inv|exact H]. Qed.

(** what Next returns is eligible (so: not a no-loop rule that already fired since the last reset,
    not in an activation group that already fired, not locked) and ranks highest among the eligible
    pending activations of the group it comes from *)
Lemma eligible_ext a a' x :
  fired_rules a' = fired_rules a -> fired_agroups a' = fired_agroups a -> locked a' = locked a ->
  eligible a' x = eligible a x.
Proof. intros H1 H2 H3. unfold eligible. rewrite H1, H2, H3. reflexivity. Qed.

Theorem next_is_eligible_and_greatest : forall n a a' m,
  AllDistinct (groups a) -> get_next n a = (a', Some m) ->
  eligible a m = true /\
  exists heap, grp_get (groups a) (focus a') = Some heap /\ In m heap /\
               forall y, In y heap -> eligible a y = true -> better y m = false.
Proof.
  intros n a a' m HA H. rewrite (get_next_spec n a HA) in H. revert a HA H.
  induction n as [|n IH]; intros a HA H; [discriminate|]. cbn [spec_next] in H.
  destruct (grp_get (groups a) (focus a)) as [h|] eqn:G.
  - destruct (best_eligible a h) as [m0|] eqn:B.
    + inversion H; subst. cbn [focus]. destruct (HA _ _ G) as [Hc _].
      destruct (best_eligible_spec a h m Hc B) as [Hin [He Hb]].
      split; [exact He|]. exists h. auto.
    + destruct (rev (stack a)) as [|top rest]; [discriminate|].
      set (a1 := {| groups := grp_set (groups a) (focus a) []; focus := top; stack := rev rest; fired_rules := fired_rules a;
                    fired_agroups := fired_agroups a; locked := locked a |}) in H.
      assert (HA1 : AllDistinct (groups a1)) by (apply AllDistinct_set; [exact HA|constructor|constructor]).
      destruct (IH a1 HA1 H) as [He [heap [Hg [Hin Hb]]]].
      split; [rewrite <- (eligible_ext a a1 m); auto|].
      unfold a1 in Hg. cbn [groups] in Hg. rewrite grp_get_set in Hg.
      destruct (focus a =? focus a') eqn:E.
      * inversion Hg; subst. contradiction.
      * exists heap. split; [exact Hg|]. split; [exact Hin|]. intros y Hy Hey. apply Hb; [exact Hy|]. rewrite (eligible_ext a a1 y); auto.
  - unfold best_eligible in H. cbn [filter] in H.
    destruct (rev (stack a)) as [|top rest]; [discriminate|].
    set (a1 := {| groups := groups a; focus := top; stack := rev rest; fired_rules := fired_rules a;
                  fired_agroups := fired_agroups a; locked := locked a |}) in H.
    destruct (IH a1 HA H) as [He [heap [Hg [Hin Hb]]]].
    split; [rewrite <- (eligible_ext a a1 m); auto|].
    exists heap. split; [exact Hg|]. split; [exact Hin|]. intros y Hy Hey. apply Hb; [exact Hy|]. rewrite (eligible_ext a a1 y); auto.
Qed.
