(** C15 — proofs about Model/KB.v *)
From RRE Require Import Base.Sx Model.KB Generated.Consts.
From Coq Require Import Lia Sorting.Sorted.
Open Scope Z_scope.

(** a duplicate name is rejected without effect *)
Lemma add_duplicate_noop k n sal tag p :
  idx_get (index k) n = Some p -> step k (Add n sal tag) = (k, RBool false).
Proof. intros H. cbn [step]. rewrite H. reflexivity. Qed.

(** the version never decreases, and grows with every successful change *)
Lemma version_monotone k o : version k <= version (fst (step k o)).
Proof.
  destruct o as [n sal tag|n|n b| |n| |]; cbn [step].
  - destruct (idx_get (index k) n); cbn; lia.
  - destruct (idx_get (index k) n); cbn; lia.
  - destruct (idx_get (index k) n) as [p|]; cbn; [|lia]. destruct (set_enabled_nth p b (rules k)); cbn; lia.
  - cbn; lia.
  - cbn; lia.
  - cbn; lia.
  - cbn; lia.
Qed.

Lemma version_grows_on_success k o :
  snd (step k o) = RBool true \/ o = Clear -> version (fst (step k o)) = version k + 1.
Proof.
  intros [H|H].
  - destruct o as [n sal tag|n|n b| |n| |]; cbn [step] in *.
    + destruct (idx_get (index k) n); cbn in *; [discriminate|reflexivity].
    + destruct (idx_get (index k) n); cbn in *; [reflexivity|discriminate].
    + destruct (idx_get (index k) n) as [p|]; cbn in *; [|discriminate].
      destruct (set_enabled_nth p b (rules k)); cbn in *; [reflexivity|discriminate].
    + discriminate.
    + discriminate.
    + discriminate.
    + discriminate.
  - subst o. reflexivity.
Qed.

(** a refused operation leaves rules, index and version untouched *)
Lemma refused_noop k o : snd (step k o) = RBool false -> fst (step k o) = k.
Proof.
  destruct o as [n sal tag|n|n b| |n| |]; cbn [step]; intros H.
  - destruct (idx_get (index k) n); cbn in *; [reflexivity|discriminate].
  - destruct (idx_get (index k) n); cbn in *; [discriminate|reflexivity].
  - destruct (idx_get (index k) n) as [p|]; cbn in *; [|reflexivity].
    destruct (set_enabled_nth p b (rules k)); cbn in *; [discriminate|reflexivity].
  - discriminate.
  - discriminate.
  - discriminate.
  - discriminate.
Qed.

(** listing order: descending salience, in every reachable state *)
Definition desc (a b : rule) : Prop := r_sal b <= r_sal a.

Lemma insert_stable_sorted x l : StronglySorted desc l -> StronglySorted desc (insert_stable x l).
Proof.
  induction l as [|y l IH]; intros H; cbn.
  - constructor; constructor.
  - inversion H as [|? ? Hs Hf]; subst.
    destruct (r_sal y <? r_sal x) eqn:E.
    + apply Z.ltb_lt in E. constructor; [exact H|]. constructor; [unfold desc; lia|].
      rewrite Forall_forall in *. intros z Hz. specialize (Hf z Hz). unfold desc in *. lia.
    + apply Z.ltb_ge in E. constructor; [apply IH; exact Hs|].
      assert (G : forall l, Forall (desc y) l -> Forall (desc y) (insert_stable x l)).
      { clear - E. induction l as [|z l IHl]; intros Hl; cbn.
        - constructor; [unfold desc; lia|constructor].
        - inversion Hl; subst. destruct (r_sal z <? r_sal x).
          + constructor; [unfold desc; lia|constructor; auto].
          + constructor; auto. }
      apply G. exact Hf.
Qed.

Lemma stable_sort_sorted l : StronglySorted desc (stable_sort l).
Proof.
  unfold stable_sort.
  assert (G : forall l acc, StronglySorted desc acc -> StronglySorted desc (fold_left (fun acc x => insert_stable x acc) l acc)).
  { clear. induction l as [|x l IH]; intros acc H; cbn; [exact H|]. apply IH. apply insert_stable_sorted. exact H. }
  apply G. constructor.
Qed.

Lemma remove_nth_sorted {T} (R : T -> T -> Prop) n : forall l, StronglySorted R l -> StronglySorted R (remove_nth n l).
Proof.
  induction n as [|n IH]; intros [|x l] H; cbn; try exact H.
  - inversion H; assumption.
  - inversion H as [|? ? Hs Hf]; subst. constructor; [apply IH; exact Hs|].
    rewrite Forall_forall in *. intros z Hz. apply Hf.
    clear - Hz. revert l Hz. induction n as [|n IHn]; intros [|y l] Hz; cbn in *; auto.
    destruct Hz as [->|Hz]; [left; reflexivity|right; apply IHn; exact Hz].
Qed.

Lemma set_enabled_sals n b : forall l l', set_enabled_nth n b l = Some l' -> map r_sal l' = map r_sal l.
Proof.
  induction n as [|n IH]; intros [|x l] l' H; cbn in H; try discriminate.
  - inversion H; subst. reflexivity.
  - destruct (set_enabled_nth n b l) as [r'|] eqn:E; [|discriminate]. inversion H; subst. cbn. f_equal. eapply IH; eauto.
Qed.

Lemma sorted_by_sals l l' : map r_sal l' = map r_sal l -> StronglySorted desc l -> StronglySorted desc l'.
Proof.
  revert l'. induction l as [|x l IH]; intros [|y l'] E H; cbn in E; try discriminate; [constructor|].
  inversion E as [[E1 E2]]. inversion H as [|? ? Hs Hf]; subst.
  constructor; [apply IH; assumption|].
  rewrite Forall_forall in *. intros z Hz.
  assert (exists z0, In z0 l /\ r_sal z0 = r_sal z).
  { apply (in_map r_sal) in Hz. rewrite E2 in Hz. apply in_map_iff in Hz. destruct Hz as [z0 [? ?]]. eauto. }
  destruct H0 as [z0 [Hin Hs0]]. specialize (Hf z0 Hin). unfold desc in *. lia.
Qed.

Lemma step_sorted k o : StronglySorted desc (rules k) -> StronglySorted desc (rules (fst (step k o))).
Proof.
  intros H. destruct o as [n sal tag|n|n b| |n| |]; cbn [step].
  - destruct (idx_get (index k) n); cbn [fst rules]; [exact H|apply stable_sort_sorted].
  - destruct (idx_get (index k) n); cbn [fst rules]; [apply remove_nth_sorted; exact H|exact H].
  - destruct (idx_get (index k) n) as [p|]; cbn [fst rules]; [|exact H].
    destruct (set_enabled_nth p b (rules k)) as [rs|] eqn:E; cbn [fst rules]; [|exact H].
    eapply sorted_by_sals; [eapply set_enabled_sals; eauto|exact H].
  - cbn. constructor.
  - exact H.
  - exact H.
  - exact H.
Qed.

Theorem listing_sorted ops : StronglySorted desc (rules (exec init ops)).
Proof.
  unfold exec.
  assert (G : forall ops k, StronglySorted desc (rules k) -> StronglySorted desc (rules (fold_left (fun k o => fst (step k o)) ops k))).
  { clear. induction ops as [|o ops IH]; intros k H; cbn; [exact H|]. apply IH. apply step_sorted. exact H. }
  apply G. constructor.
Qed.

(** lock discipline read from the source: every method acquires rules, then rule_index, then
    version (a prefix of that order), i.e. one global lock order and `rules` always first *)
Fixpoint ascending (l : list N) : bool :=
  match l with x :: ((y :: _) as r) => N.ltb x y && ascending r | _ => true end.
Definition lock_order_ok : bool :=
  forallb (fun l => ascending l && match l with 0%N :: _ => true | _ => false end) kb_lock_orders.
Lemma lock_order_holds : lock_order_ok = true.
Proof. vm_compute. reflexivity. Qed.
