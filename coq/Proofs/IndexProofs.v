(** C16 — proofs about Model/Index.v *)
From RRE Require Import Base.Sx Base.Float Model.Index.
From Coq Require Import Lia Floats.SpecFloat.
Open Scope Z_scope.

(** induction principle for the nested type [value] *)
Section ValueInd.
Variable P : value -> Prop.
Hypothesis Hs : forall s, P (VStr s).
Hypothesis Hi : forall z, P (VInt z).
Hypothesis Hf : forall b, P (VFloat b).
Hypothesis Hb : forall b, P (VBool b).
Hypothesis Hn : P VNull.
Hypothesis Ha : forall l, Forall P l -> P (VArr l).
Fixpoint value_ind2 (v : value) : P v :=
  match v with
  | VStr s => Hs s | VInt z => Hi z | VFloat b => Hf b | VBool b => Hb b | VNull => Hn
  | VArr l => Ha l ((fix go (l : list value) : Forall P l :=
                       match l with [] => Forall_nil P | x :: r => Forall_cons x (value_ind2 x) (go r) end) l)
  end.
End ValueInd.

Lemma list_eqb_Zrefl l : list_eqb Z.eqb l l = true.
Proof. induction l as [|x l IH]; cbn; [reflexivity|]. rewrite Z.eqb_refl. exact IH. Qed.

Lemma list_eqb_Zeq a : forall b, list_eqb Z.eqb a b = true -> a = b.
Proof.
  induction a as [|x a IH]; intros [|y b] H; cbn in H; try discriminate; [reflexivity|].
  apply andb_true_iff in H. destruct H as [H1 H2]. apply Z.eqb_eq in H1. f_equal; auto.
Qed.

(** IEEE equality on decoded floats: never true on a NaN, and true on equal non-NaN patterns
    only up to the sign of zero *)
Lemma feqb_nan_l x y : fl_is_nan x = true -> feqb (f_of_bits x) (f_of_bits y) = false.
Proof.
  unfold fl_is_nan, is_nan, feqb, SFeqb, SFcompare. destruct (f_of_bits x); try discriminate. reflexivity.
Qed.
Lemma feqb_nan_r x y : fl_is_nan y = true -> feqb (f_of_bits x) (f_of_bits y) = false.
Proof.
  unfold fl_is_nan, is_nan, feqb, SFeqb, SFcompare. destruct (f_of_bits y); try discriminate.
  destruct (f_of_bits x) as [s|s| |s m e]; try reflexivity; destruct s; reflexivity.
Qed.

(** Debug-equal values are interchangeable for == on either side.  This is what makes a cache /
    index keyed by the Debug rendering sound. *)
Lemma dbg_respects : forall a a' b b',
  dbg_eqb a a' = true -> dbg_eqb b b' = true -> val_eqb a b = val_eqb a' b'.
Proof.
  induction a as [s|z|x|bb| |l IH] using value_ind2; intros a' b b' Ha Hb.
  - destruct a'; cbn in Ha; try discriminate. apply list_eqb_Zeq in Ha. subst.
    destruct b, b'; cbn in Hb; try discriminate; try reflexivity.
    apply list_eqb_Zeq in Hb. subst. reflexivity.
  - destruct a'; cbn in Ha; try discriminate. apply Z.eqb_eq in Ha. subst.
    destruct b, b'; cbn in Hb; try discriminate; try reflexivity.
    apply Z.eqb_eq in Hb. subst. reflexivity.
  - destruct a' as [ | |x'| | | ]; cbn in Ha; try discriminate.
    destruct b as [ | |y| | | ], b' as [ | |y'| | | ]; cbn in Hb; try discriminate; try reflexivity.
    cbn [val_eqb].
    apply orb_true_iff in Ha. apply orb_true_iff in Hb.
    destruct Ha as [Ha|Ha].
    + apply andb_true_iff in Ha. destruct Ha as [N1 N2].
      rewrite (feqb_nan_l x y N1), (feqb_nan_l x' y' N2). reflexivity.
    + apply andb_true_iff in Ha. destruct Ha as [_ Ha]. apply Z.eqb_eq in Ha. subst x'.
      destruct Hb as [Hb|Hb].
      * apply andb_true_iff in Hb. destruct Hb as [N1 N2].
        rewrite (feqb_nan_r x y N1), (feqb_nan_r x y' N2). reflexivity.
      * apply andb_true_iff in Hb. destruct Hb as [_ Hb]. apply Z.eqb_eq in Hb. subst y'. reflexivity.
  - destruct a'; cbn in Ha; try discriminate. apply Bool.eqb_prop in Ha. subst.
    destruct b, b'; cbn in Hb; try discriminate; try reflexivity.
    apply Bool.eqb_prop in Hb. subst. reflexivity.
  - destruct a'; cbn in Ha; try discriminate.
    destruct b, b'; cbn in Hb; try discriminate; reflexivity.
  - destruct a' as [ | | | |l'| ]; cbn in Ha; try discriminate.
    destruct b as [ | | | |m| ], b' as [ | | | |m'| ]; cbn in Hb; try discriminate; try reflexivity.
    cbn [val_eqb].
    revert l' m m' Ha Hb. induction IH as [|x l Hx Hl IHl]; intros l' m m' Ha Hb.
    + destruct l'; [|discriminate]. destruct m, m'; try discriminate; reflexivity.
    + destruct l' as [|x' l']; [discriminate|].
      apply andb_true_iff in Ha. destruct Ha as [Hx1 Hl1].
      destruct m as [|y m], m' as [|y' m']; try discriminate; [reflexivity|].
      apply andb_true_iff in Hb. destruct Hb as [Hy1 Hm1].
      rewrite (Hx x' y y' Hx1 Hy1). f_equal. apply IHl; assumption.
Qed.

Lemma dbg_refl : forall a, dbg_eqb a a = true.
Proof.
  induction a as [s|z|x|bb| |l IH] using value_ind2; cbn.
  - apply list_eqb_Zrefl.
  - apply Z.eqb_refl.
  - destruct (fl_is_nan x); cbn; [reflexivity|apply Z.eqb_refl].
  - destruct bb; reflexivity.
  - reflexivity.
  - induction IH as [|x l Hx Hl IHl]; [reflexivity|]. rewrite Hx. exact IHl.
Qed.

(** ---- memoisation ---- *)
Lemma fget_respects : forall f f' k,
  facts_key_eqb f f' = true ->
  match fget f k, fget f' k with
  | Some v, Some v' => dbg_eqb v v' = true
  | None, None => True
  | _, _ => False
  end.
Proof.
  unfold facts_key_eqb. induction f as [|[k0 v0] f IH]; intros [|[k1 v1] f'] k H; cbn in H; try discriminate.
  - cbn. exact I.
  - apply andb_true_iff in H. destruct H as [H1 H2]. apply andb_true_iff in H1. destruct H1 as [Hk Hv].
    cbn in Hk, Hv. apply Z.eqb_eq in Hk. subst k1. cbn.
    destruct (k0 =? k); [exact Hv|apply IH; exact H2].
Qed.

Lemma direct_respects n n' f f' :
  node_key_eqb n n' = true -> facts_key_eqb f f' = true -> direct n f = direct n' f'.
Proof.
  intros Hn Hf. unfold node_key_eqb in Hn. apply andb_true_iff in Hn. destruct Hn as [Hk Hv].
  apply Z.eqb_eq in Hk. unfold direct, matches. rewrite <- Hk.
  pose proof (fget_respects f f' (fst n) Hf) as G.
  destruct (fget f (fst n)) as [v|], (fget f' (fst n)) as [v'|]; try contradiction; [|reflexivity].
  apply dbg_respects; assumption.
Qed.

Definition MemoInv (m : memo) : Prop := forall n f r, In (n, f, r) m -> r = direct n f.

(** A memoised condition evaluation equals direct evaluation, for every node and fact set and
    after any sequence of earlier evaluations. *)
Lemma memo_eval_correct m n f :
  MemoInv m -> snd (memo_eval m n f) = direct n f /\ MemoInv (fst (memo_eval m n f)).
Proof.
  intros HI. unfold memo_eval.
  destruct (find _ m) as [[[n' f'] r]|] eqn:F.
  - cbn. split; [|exact HI]. apply find_some in F. destruct F as [Hin Hk]. cbn in Hk.
    apply andb_true_iff in Hk. destruct Hk as [Hn Hf].
    rewrite (HI n' f' r Hin). apply direct_respects; assumption.
  - cbn. split; [reflexivity|]. intros n0 f0 r0 Hin. apply in_app_or in Hin.
    destruct Hin as [Hin|[Heq|[]]]; [apply HI; exact Hin|]. inversion Heq; subst. reflexivity.
Qed.

Theorem memo_eq_direct calls : forall m, MemoInv m -> run_memo m calls = spec_memo calls.
Proof.
  induction calls as [|[n f] calls IH]; intros m HI; cbn [run_memo spec_memo map]; [reflexivity|].
  destruct (memo_eval_correct m n f HI) as [H1 H2].
  destruct (memo_eval m n f) as [m' b]. cbn [fst snd] in *. subst b. f_equal. apply IH. exact H2.
Qed.

(** ---- alpha index: equal values share an index key ---- *)
Lemma fl_zero_nan b : fl_is_zero b = true -> fl_is_nan b = false.
Proof. unfold fl_is_zero, fl_is_nan, is_nan. destruct (f_of_bits b); try discriminate; reflexivity. Qed.

Lemma zero_bits_nan : fl_is_nan 0 = false.
Proof. vm_compute. reflexivity. Qed.
