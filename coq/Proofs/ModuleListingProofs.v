(** C18 — get_visible_rules (after the repair) lists exactly the existing rules that is_rule_visible reports visible. *)
From RRE Require Import Base.Sx Model.Module Proofs.ModuleProofs.
From Coq Require Import Lia.
Open Scope N_scope.

Lemma mem_str_app x a b : mem_str x (a ++ b) = mem_str x a || mem_str x b.
Proof. unfold mem_str. apply existsb_app. Qed.
Lemma mem_str_eq x y l : str_eqb x y = true -> mem_str x l = mem_str y l.
Proof. intros H. apply str_eqb_eq in H. subst. reflexivity. Qed.

Lemma mem_str_cons x y l : mem_str x (y :: l) = str_eqb x y || mem_str x l.
Proof. reflexivity. Qed.

Lemma fold_add_mem (P : str -> bool) r : forall cand acc,
  mem_str r (fold_left (fun a x => if P x && negb (mem_str x a) then a ++ [x] else a) cand acc) = mem_str r acc || (mem_str r cand && P r).
Proof.
  induction cand as [|x cand IH]; intros acc; cbn [fold_left]; [unfold mem_str at 3; cbn; rewrite orb_false_r; reflexivity|].
  rewrite IH, mem_str_cons.
  assert (HF : mem_str r (if P x && negb (mem_str x acc) then acc ++ [x] else acc) = mem_str r acc || (str_eqb r x && P x && negb (mem_str x acc))).
  { destruct (P x && negb (mem_str x acc)) eqn:E.
    - rewrite mem_str_app, mem_str_cons. unfold mem_str at 3. cbn [existsb]. rewrite orb_false_r.
      apply andb_true_iff in E. destruct E as [E1 E2]. rewrite E1, E2. rewrite !andb_true_r. reflexivity.
    - rewrite <- andb_assoc, E, andb_false_r, orb_false_r. reflexivity. }
  rewrite HF. destruct (str_eqb r x) eqn:Erx.
  - apply str_eqb_eq in Erx. subst x. destruct (P r), (mem_str r acc), (mem_str r cand); reflexivity.
  - cbn [andb orb]. rewrite orb_false_r. reflexivity.
Qed.

Definition all_rules (ms : list module) : list str := flat_map m_rules ms.
Definition via_import (ms : list module) (r : str) (i : importdecl) : bool :=
  rule_import i && match find_mod ms (i_from i) with Some fm => exports_rule fm r && pattern_matches (i_pat i) r | None => false end.

Lemma listing_imports_spec ms r : forall is_ acc, (forall i, In i is_ -> exists_mod ms (i_from i) = true) ->
  exists l, listing_imports ms is_ acc = Some l
            /\ mem_str r l = mem_str r acc || (mem_str r (all_rules ms) && existsb (via_import ms r) is_).
Proof.
  induction is_ as [|i rest IH]; intros acc Hex; cbn [listing_imports existsb].
  - exists acc. split; [reflexivity|]. rewrite andb_false_r, orb_false_r. reflexivity.
  - assert (Hrest : forall i0, In i0 rest -> exists_mod ms (i_from i0) = true) by (intros i0 H0; apply Hex; right; exact H0).
    unfold via_import at 1. destruct (rule_import i) eqn:Ri; cbn [andb orb].
    + pose proof (Hex i (or_introl eq_refl)) as Hi. unfold exists_mod in Hi. destruct (find_mod ms (i_from i)) as [fm|] eqn:Ff; [|discriminate].
      destruct (IH (fold_left (fun a x => if exports_rule fm x && pattern_matches (i_pat i) x && negb (mem_str x a) then a ++ [x] else a) (flat_map m_rules ms) acc) Hrest) as [l [E M]].
      exists l. split; [exact E|]. rewrite M.
      rewrite (fold_add_mem (fun x => exports_rule fm x && pattern_matches (i_pat i) x) r (flat_map m_rules ms) acc).
      fold (all_rules ms). destruct (mem_str r acc); cbn [orb]; [reflexivity|].
      destruct (mem_str r (all_rules ms)); cbn [andb orb]; [|reflexivity]. reflexivity.
    + destruct (IH acc Hrest) as [l [E M]]. exists l. split; [exact E|exact M].
Qed.

(** the listing of an existing module never fails, and it contains exactly the existing rules that are visible to it *)
Theorem listing_is_visibility g n r : Inv (mods g) -> exists_mod (mods g) n = true ->
  exists l, get_visible_rules g n = Some l
            /\ (mem_str r l = true <-> is_rule_visible g r n = 1 /\ mem_str r (all_rules (mods g)) = true).
Proof.
  intros HI Hex. unfold get_visible_rules, exists_mod in *. destruct (find_mod (mods g) n) as [m|] eqn:F; [|discriminate].
  destruct (find_mod_name _ _ _ F) as [_ Hin].
  destruct (listing_imports_spec (mods g) r (m_imports m) (m_rules m) (fun i Hi => HI m Hin i Hi)) as [l [E M]].
  exists l. split; [exact E|]. rewrite M. rewrite (visible_eq_spec g r n HI). unfold spec_visible. rewrite F.
  assert (Hown : mem_str r (m_rules m) = true -> mem_str r (all_rules (mods g)) = true).
  { intros H. unfold mem_str in *. apply existsb_exists in H. destruct H as [x [Hx Ex]]. apply existsb_exists. exists x. split; [|exact Ex].
    unfold all_rules. apply in_flat_map. exists m. split; assumption. }
  assert (Hvia : existsb (via_import (mods g) r) (m_imports m) = existsb (fun i => rule_import i && match find_mod (mods g) (i_from i) with Some fm => exports_rule fm r && pattern_matches (i_pat i) r | None => false end) (m_imports m)) by reflexivity.
  destruct (mem_str r (m_rules m)) eqn:Eo; cbn [orb].
  - split; [intros _; split; [reflexivity|apply Hown; reflexivity]|intros _; reflexivity].
  - rewrite Hvia. destruct (existsb _ (m_imports m)); destruct (mem_str r (all_rules (mods g))); cbn [andb]; split; try (intros H; discriminate H); try (intros [H1 H2]; discriminate); try (intros _; split; reflexivity); try (intros _; reflexivity).
Qed.
