(** C05 — ExpressionParser: no index or slice of the parser is ever out of range, and the recursion terminates
    within a depth linear in the input length, for EVERY input and every character classification. *)
From RRE Require Import Base.Sx Base.Float Base.Num Model.BwExpr.
From Coq Require Import Lia.
Open Scope Z_scope.

Section P.
Variables is_alnum is_num is_ws : Z -> bool.
Variable inp : list Z.
Notation len := (len inp).
Notation skip_ws := (skip_ws is_ws inp).
Notation peek := (peek inp).
Notation consume := (consume inp).

Lemma span_le p s : (span p s <= length s)%nat.
Proof. induction s as [|c r IH]; cbn [span length]; [lia|]. destruct (p c); lia. Qed.

Lemma skipn_length' (n : nat) (l : list Z) : length (skipn n l) = (length l - n)%nat.
Proof. apply skipn_length. Qed.

Lemma skip_ws_bounds pos : (pos <= len)%nat -> (pos <= skip_ws pos <= len)%nat.
Proof. intros H. unfold BwExpr.skip_ws. pose proof (span_le is_ws (skipn pos inp)). rewrite skipn_length' in H0. unfold BwExpr.len in *. lia. Qed.

Lemma consume_bounds pos : (pos <= len)%nat -> (pos <= consume pos <= len)%nat.
Proof. intros H. unfold BwExpr.consume. destruct (Nat.ltb pos len) eqn:E; [apply Nat.ltb_lt in E; lia|lia]. Qed.
Lemma consume_lt pos : (pos < len)%nat -> consume pos = S pos.
Proof. intros H. unfold BwExpr.consume. apply Nat.ltb_lt in H. rewrite H. reflexivity. Qed.
Lemma consume_n_bounds n : forall pos, (pos <= len)%nat -> (pos <= consume_n inp n pos <= len)%nat.
Proof. induction n as [|n IH]; intros pos H; cbn [consume_n]; [lia|]. pose proof (consume_bounds pos H). pose proof (IH (consume pos) (proj2 H0)). lia. Qed.
Lemma consume_n_progress n pos : (pos < len)%nat -> (pos < consume_n inp (S n) pos)%nat.
Proof. intros H. cbn [consume_n]. rewrite (consume_lt pos H). pose proof (consume_n_bounds n (S pos)). lia. Qed.

Lemma peek_ok pos : peek pos <> PPanic.
Proof.
  unfold BwExpr.peek. destruct (Nat.ltb pos len) eqn:E; [|discriminate]. apply Nat.ltb_lt in E.
  destruct (nth_error inp pos) eqn:N; [discriminate|]. apply nth_error_None in N. unfold BwExpr.len in E. lia.
Qed.
Lemma peek_some pos c : peek pos = PSome c -> (pos < len)%nat.
Proof. unfold BwExpr.peek. destruct (Nat.ltb pos len) eqn:E; [intros _; apply Nat.ltb_lt; exact E|discriminate]. Qed.

Lemma starts_nonempty s p : p <> [] -> starts s p = true -> s <> [].
Proof. destruct p; [congruence|]. destruct s; cbn; [discriminate|discriminate]. Qed.

Lemma peek_op_spec pos op : (pos <= len)%nat ->
  exists b p, peek_op is_ws inp pos op = Ok b p /\ (pos <= p <= len)%nat /\ (b = true -> op <> [] -> (p < len)%nat).
Proof.
  intros H. unfold BwExpr.peek_op. pose proof (skip_ws_bounds pos H) as B.
  replace (Nat.ltb len (skip_ws pos)) with false by (symmetry; apply Nat.ltb_ge; lia).
  eexists _, _. split; [reflexivity|]. split; [exact B|]. intros Hs Hne.
  pose proof (starts_nonempty _ _ Hne Hs) as Hn. destruct (skipn (skip_ws pos) inp) eqn:E; [congruence|].
  assert (length (skipn (skip_ws pos) inp) > 0)%nat by (rewrite E; cbn; lia). rewrite skipn_length' in H0. unfold BwExpr.len. lia.
Qed.

Lemma consume_op_progress p op : (p < len)%nat -> op <> [] -> (p < consume_op is_ws inp p op <= len)%nat.
Proof.
  intros H Hne. unfold BwExpr.consume_op. destruct op as [|x op]; [congruence|]. cbn [length].
  pose proof (skip_ws_bounds p (Nat.lt_le_incl _ _ H)) as B. pose proof (consume_n_bounds (S (length op)) (skip_ws p) (proj2 B)).
  destruct (Nat.eq_dec (skip_ws p) len) as [E|E]; [lia|]. pose proof (consume_n_progress (length op) (skip_ws p)). lia.
Qed.

Lemma peek_word_spec pos wd : (pos <= len)%nat ->
  exists b p, peek_word is_alnum is_ws inp pos wd = Ok b p /\ (pos <= p <= len)%nat.
Proof.
  intros H. unfold BwExpr.peek_word. pose proof (skip_ws_bounds pos H) as B.
  replace (Nat.ltb len (skip_ws pos)) with false by (symmetry; apply Nat.ltb_ge; lia).
  destruct (starts (skipn (skip_ws pos) inp) wd); [|eauto].
  destruct (Nat.leb len (skip_ws pos + length wd)) eqn:E; [eauto|]. apply Nat.leb_gt in E.
  destruct (nth_error inp (skip_ws pos + length wd)) eqn:N; [eauto|]. apply nth_error_None in N. unfold BwExpr.len in E. lia.
Qed.

Lemma consume_word_spec pos wd : (pos <= len)%nat ->
  exists p, consume_word is_alnum is_ws inp pos wd = Ok tt p /\ (pos <= p <= len)%nat.
Proof.
  intros H. unfold BwExpr.consume_word. destruct (peek_word_spec pos wd H) as [b [p [E B]]]. rewrite E.
  destruct b; [|eauto]. pose proof (consume_n_bounds (length wd) p (proj2 B)). eexists. split; [reflexivity|lia].
Qed.

Lemma scan_string_len s : forall esc acc n r m, scan_string s esc acc n = Some (r, m) -> (n < m <= n + length s)%nat.
Proof.
  induction s as [|c s IH]; intros esc acc n r m H; cbn [scan_string] in H; [discriminate|]. cbn [length].
  destruct esc; [apply IH in H; lia|]. destruct (c =? 92); [apply IH in H; lia|]. destruct (c =? 34); [inversion H; subst; lia|apply IH in H; lia].
Qed.
Lemma scan_number_len s : forall acc hd, (length acc <= length (fst (scan_number is_num s acc hd)) <= length acc + length s)%nat.
Proof.
  induction s as [|c s IH]; intros acc hd; cbn [scan_number fst length]; [lia|].
  assert (Hstep : forall hd', (length acc <= length (fst (scan_number is_num s (acc ++ [c]) hd')) <= length acc + S (length s))%nat).
  { intros hd'. specialize (IH (acc ++ [c]) hd'). rewrite app_length in IH. cbn [length] in IH. lia. }
  destruct (is_num c); [apply Hstep|].
  destruct ((c =? 46) && negb hd); [apply Hstep|].
  destruct (c =? 45); cbn [andb]; [|cbn [fst]; lia].
  destruct acc; [apply Hstep|cbn [fst length]; lia].
Qed.

Lemma try_literal_spec pos : (pos <= len)%nat ->
  match try_literal is_alnum is_num is_ws inp pos with
  | Ok _ q => (pos <= q <= len)%nat | Err _ => True | Panic => False | Fuel => False end.
Proof.
  intros H. unfold BwExpr.try_literal. pose proof (skip_ws_bounds pos H) as B0.
  destruct (peek_word_spec (skip_ws pos) w_true (proj2 B0)) as [b1 [p1 [E1 B1]]]. rewrite E1. destruct b1.
  { destruct (consume_word_spec p1 w_true (proj2 B1)) as [q [Eq Bq]]. rewrite Eq. lia. }
  destruct (peek_word_spec p1 w_false (proj2 B1)) as [b2 [p2 [E2 B2]]]. rewrite E2. destruct b2.
  { destruct (consume_word_spec p2 w_false (proj2 B2)) as [q [Eq Bq]]. rewrite Eq. lia. }
  destruct (peek_word_spec p2 w_null (proj2 B2)) as [b3 [p3 [E3 B3]]]. rewrite E3. destruct b3.
  { destruct (consume_word_spec p3 w_null (proj2 B3)) as [q [Eq Bq]]. rewrite Eq. lia. }
  pose proof (peek_ok p3) as Pk. destruct (peek p3) as [|c|] eqn:Ep; [lia| |congruence].
  pose proof (peek_some p3 c Ep) as Hlt.
  assert (Hnum : match (if is_num c || (c =? 45) then
             let '(num, has_dot) := scan_number is_num (skipn p3 inp) [] false in
             match (if match num with [] => true | [45] => true | _ => false end then None
                    else if has_dot then parse_f64 num else match parse_i64 num with Some z => Some (f_of_Z z) | None => None end)
             with Some x => Ok (Some (LNum x)) (p3 + length num)%nat | None => Ok None p3 end
           else Ok None p3) with Ok _ q => (pos <= q <= len)%nat | Err _ => True | Panic => False | Fuel => False end).
  { destruct (is_num c || (c =? 45)); [|lia].
    pose proof (scan_number_len (skipn p3 inp) [] false) as L. destruct (scan_number is_num (skipn p3 inp) [] false) as [num hd]. cbn [fst length] in L.
    rewrite skipn_length' in L. destruct (if match num with [] => true | [45] => true | _ => false end then None else _); [unfold BwExpr.len in *; lia|lia]. }
  destruct c as [|c|c]; try exact Hnum.
  repeat (destruct c as [c|c|]; try exact Hnum).
  (* the opening quote *)
  destruct (scan_string (skipn (S p3) inp) false [] 0) as [[s n]|] eqn:Es; [|exact I].
  apply scan_string_len in Es. rewrite skipn_length' in Es. unfold BwExpr.len in *. lia.
Qed.

Definition good {T} (pos : nat) (r : res T) : Prop :=
  match r with Ok _ q => (pos <= q <= len)%nat | Err _ => True | Panic => False | Fuel => True end.

Lemma field_path_good pos : (pos <= len)%nat -> good pos (field_path is_alnum inp pos).
Proof.
  intros H. unfold BwExpr.field_path. pose proof (span_le (fieldch is_alnum) (skipn pos inp)) as L. rewrite skipn_length' in L.
  destruct (span (fieldch is_alnum) (skipn pos inp)); cbn [good]; [exact I|unfold BwExpr.len in *; lia].
Qed.
Lemma identifier_good pos : (pos <= len)%nat -> good pos (identifier is_alnum inp pos).
Proof.
  intros H. unfold BwExpr.identifier. pose proof (span_le (wordch is_alnum) (skipn pos inp)) as L. rewrite skipn_length' in L.
  destruct (span (wordch is_alnum) (skipn pos inp)); cbn [good]; [exact I|unfold BwExpr.len in *; lia].
Qed.

Lemma find_cmp_spec ops : (forall t o, In (t, o) ops -> t <> []) -> forall pos, (pos <= len)%nat ->
  match find_cmp is_ws inp ops pos with
  | Ok (Some (t, o)) q => (pos <= q < len)%nat /\ t <> []
  | Ok None q => (pos <= q <= len)%nat | Err _ => True | Panic => False | Fuel => False end.
Proof.
  induction ops as [|[t o] ops IH]; intros Hne pos H; cbn [find_cmp]; [lia|].
  destruct (peek_op_spec pos t H) as [b [p [E [B Hb]]]]. rewrite E. destruct b.
  - assert (t <> []) by (apply (Hne t o); left; reflexivity). split; [specialize (Hb eq_refl H0); lia|exact H0].
  - specialize (IH (fun t0 o0 H0 => Hne t0 o0 (or_intror H0)) p (proj2 B)).
    destruct (find_cmp is_ws inp ops p) as [[[t1 o1]|] q| | |]; try exact IH; [destruct IH; split; [lia|assumption]|lia].
Qed.
Lemma cmp_ops_nonempty t o : In (t, o) cmp_ops -> t <> [].
Proof. cbn. intros H. repeat (destruct H as [H|H]; [inversion H; subst; discriminate|]). destruct H. Qed.

Notation pE := (p_expr is_alnum is_num is_ws inp).
Notation pOL := (or_loop is_alnum is_num is_ws inp).
Notation pA := (p_and is_alnum is_num is_ws inp).
Notation pAL := (and_loop is_alnum is_num is_ws inp).
Notation pC := (p_cmp is_alnum is_num is_ws inp).
Notation pP := (p_prim is_alnum is_num is_ws inp).

Lemma pE_S f pos : pE (S f) pos = match pA f pos with Ok l p => pOL f l p | e => e end. Proof. reflexivity. Qed.
Lemma pOL_S f l pos : pOL (S f) l pos =
  match peek_op is_ws inp pos op_or with
  | Ok true p => match pA f (consume_op is_ws inp p op_or) with Ok r q => pOL f (EOr l r) q | e => e end
  | Ok false p => Ok l p | Err p => Err p | Panic => Panic | Fuel => Fuel end. Proof. reflexivity. Qed.
Lemma pA_S f pos : pA (S f) pos = match pC f pos with Ok l p => pAL f l p | e => e end. Proof. reflexivity. Qed.
Lemma pAL_S f l pos : pAL (S f) l pos =
  match peek_op is_ws inp pos op_and with
  | Ok true p => match pC f (consume_op is_ws inp p op_and) with Ok r q => pAL f (EAnd l r) q | e => e end
  | Ok false p => Ok l p | Err p => Err p | Panic => Panic | Fuel => Fuel end. Proof. reflexivity. Qed.
Lemma pC_S f pos : pC (S f) pos =
  match pP f pos with
  | Ok l p => match find_cmp is_ws inp cmp_ops p with
              | Ok (Some (t, o)) q => match pP f (consume_op is_ws inp q t) with Ok r q2 => Ok (ECmp l o r) q2 | e => e end
              | Ok None q => Ok l q | Err q => Err q | Panic => Panic | Fuel => Fuel end
  | e => e end. Proof. reflexivity. Qed.
Lemma pP_S f pos : pP (S f) pos =
  let p := skip_ws pos in
  match peek p with
  | PPanic => Panic
  | PSome 33 => match pP f (consume p) with Ok e q => Ok (ENot e) q | e => e end
  | PSome 40 => match pE f (consume p) with
                | Ok e q => let q1 := skip_ws q in match peek q1 with PSome 41 => Ok e (consume q1) | PPanic => Panic | _ => Err q1 end
                | e => e end
  | PSome 63 => match identifier is_alnum inp (consume p) with Ok n q => Ok (EVar (63 :: n)) q | Err q => Err q | Panic => Panic | Fuel => Fuel end
  | _ => match try_literal is_alnum is_num is_ws inp p with
         | Ok (Some v) q => Ok (ELit v) q
         | Ok None q => match field_path is_alnum inp q with Ok s q2 => Ok (EField s) q2 | Err q2 => Err q2 | Panic => Panic | Fuel => Fuel end
         | Err q => Err q | Panic => Panic | Fuel => Fuel end
  end. Proof. reflexivity. Qed.

Lemma good_trans {T} a b (r : res T) : (a <= b)%nat -> good b r -> good a r.
Proof. intros H. destruct r; cbn [good]; try tauto. lia. Qed.

(** no index or slice is ever out of range, and positions only move forward and stay within the input *)
Lemma all_good : forall fuel,
  (forall pos, (pos <= len)%nat -> good pos (pE fuel pos)) /\ (forall l pos, (pos <= len)%nat -> good pos (pOL fuel l pos))
  /\ (forall pos, (pos <= len)%nat -> good pos (pA fuel pos)) /\ (forall l pos, (pos <= len)%nat -> good pos (pAL fuel l pos))
  /\ (forall pos, (pos <= len)%nat -> good pos (pC fuel pos)) /\ (forall pos, (pos <= len)%nat -> good pos (pP fuel pos)).
Proof.
  induction fuel as [|f (IHe & IHol & IHa & IHal & IHc & IHp)]; [repeat split; intros; exact I|].
  repeat split.
  - intros pos H. rewrite pE_S. specialize (IHa pos H). destruct (pA f pos) as [l p| | |]; try exact IHa.
    cbn [good] in IHa. eapply good_trans; [apply IHa|apply IHol; apply IHa].
  - intros l pos H. rewrite pOL_S. destruct (peek_op_spec pos op_or H) as [b [p [E [B Hb]]]]. rewrite E. destruct b; [|exact B].
    assert (Hlt : (p < len)%nat) by (apply Hb; [reflexivity|discriminate]).
    pose proof (consume_op_progress p op_or Hlt ltac:(discriminate)) as Cp.
    specialize (IHa (consume_op is_ws inp p op_or) (proj2 Cp)). destruct (pA f _) as [r q| | |]; try exact IHa.
    cbn [good] in IHa. eapply good_trans; [|apply IHol; apply IHa]. lia.
  - intros pos H. rewrite pA_S. specialize (IHc pos H). destruct (pC f pos) as [l p| | |]; try exact IHc.
    cbn [good] in IHc. eapply good_trans; [apply IHc|apply IHal; apply IHc].
  - intros l pos H. rewrite pAL_S. destruct (peek_op_spec pos op_and H) as [b [p [E [B Hb]]]]. rewrite E. destruct b; [|exact B].
    assert (Hlt : (p < len)%nat) by (apply Hb; [reflexivity|discriminate]).
    pose proof (consume_op_progress p op_and Hlt ltac:(discriminate)) as Cp.
    specialize (IHc (consume_op is_ws inp p op_and) (proj2 Cp)). destruct (pC f _) as [r q| | |]; try exact IHc.
    cbn [good] in IHc. eapply good_trans; [|apply IHal; apply IHc]. lia.
  - intros pos H. rewrite pC_S. pose proof (IHp pos H) as G1. destruct (pP f pos) as [l p| | |] eqn:Ep; try exact G1. cbn [good] in G1.
    pose proof (find_cmp_spec cmp_ops cmp_ops_nonempty p (proj2 G1)) as Fc.
    destruct (find_cmp is_ws inp cmp_ops p) as [[[t o]|] q| | |]; cbn [good]; try exact I; try contradiction; [|lia].
    destruct Fc as [Bq Hne]. pose proof (consume_op_progress q t (proj2 Bq) Hne) as Cp.
    pose proof (IHp (consume_op is_ws inp q t) (proj2 Cp)) as G2.
    destruct (pP f (consume_op is_ws inp q t)) as [r q2| | |]; cbn [good] in *; try exact G2. lia.
  - intros pos H. rewrite pP_S; cbv zeta. pose proof (skip_ws_bounds pos H) as B.
    pose proof (peek_ok (skip_ws pos)) as Pk. destruct (peek (skip_ws pos)) as [|c|] eqn:Ep; [| |congruence].
    + (* end of input: literal / field *)
      pose proof (try_literal_spec (skip_ws pos) (proj2 B)) as TL.
      destruct (try_literal is_alnum is_num is_ws inp (skip_ws pos)) as [[v|] q| | |]; cbn [good]; try exact I; try contradiction; [lia|].
      pose proof (field_path_good q (proj2 TL)) as FP. destruct (field_path is_alnum inp q) as [s0 q2| | |]; cbn [good] in *; try exact I; try contradiction. lia.
    + pose proof (peek_some _ _ Ep) as Hlt. pose proof (consume_lt _ Hlt) as Hc.
      assert (Hdefault : good pos (match try_literal is_alnum is_num is_ws inp (skip_ws pos) with
                | Ok (Some v) q => Ok (ELit v) q
                | Ok None q => match field_path is_alnum inp q with Ok s0 q2 => Ok (EField s0) q2 | Err q2 => Err q2 | Panic => Panic | Fuel => Fuel end
                | Err q => Err q | Panic => Panic | Fuel => Fuel end)).
      { pose proof (try_literal_spec (skip_ws pos) (proj2 B)) as TL.
        destruct (try_literal is_alnum is_num is_ws inp (skip_ws pos)) as [[v|] q| | |]; cbn [good]; try exact I; try contradiction; [lia|].
        pose proof (field_path_good q (proj2 TL)) as FP. destruct (field_path is_alnum inp q) as [s0 q2| | |]; cbn [good] in *; try exact I; try contradiction. lia. }
      assert (Hnot : good pos (match pP f (consume (skip_ws pos)) with Ok e q => Ok (ENot e) q | e => e end)).
      { rewrite Hc. pose proof (IHp (S (skip_ws pos)) ltac:(lia)) as G1. destruct (pP f (S (skip_ws pos))) as [e q| | |]; cbn [good] in *; try exact G1. lia. }
      assert (Hpar : good pos (match pE f (consume (skip_ws pos)) with
                | Ok e q => let q1 := skip_ws q in match peek q1 with PSome 41 => Ok e (consume q1) | PPanic => Panic | _ => Err q1 end
                | e => e end)).
      { rewrite Hc. pose proof (IHe (S (skip_ws pos)) ltac:(lia)) as G1. destruct (pE f (S (skip_ws pos))) as [e q| | |]; cbn [good] in *; try exact G1.
        cbv zeta. pose proof (skip_ws_bounds q (proj2 G1)) as Bq. pose proof (peek_ok (skip_ws q)) as Pk2.
        destruct (peek (skip_ws q)) as [|c2|]; cbn [good]; try exact I; [|congruence].
        pose proof (consume_bounds (skip_ws q) (proj2 Bq)) as Cq.
        destruct c2 as [|c2|c2]; cbn [good]; try exact I. repeat (destruct c2 as [c2|c2|]; cbn [good]; try exact I). lia. }
      assert (Hvar : good pos (match identifier is_alnum inp (consume (skip_ws pos)) with Ok n q => Ok (EVar (63 :: n)) q | Err q => Err q | Panic => Panic | Fuel => Fuel end)).
      { rewrite Hc. pose proof (identifier_good (S (skip_ws pos)) ltac:(lia)) as G1. destruct (identifier is_alnum inp (S (skip_ws pos))) as [n q| | |]; cbn [good] in *; try exact I; try contradiction. lia. }
      destruct c as [|c|c]; try exact Hdefault.
      repeat (destruct c as [c|c|]; try exact Hdefault; try exact Hnot; try exact Hpar; try exact Hvar).
Qed.

(** * the recursion fuel suffices: depth of the recursion <= 6 * (remaining characters) + 4 *)
Definition FuelOK (n : nat) : Prop :=
  (forall pos fuel, (pos <= len)%nat -> (len - pos <= n)%nat -> (6 * n + 4 <= fuel)%nat -> pE fuel pos <> Fuel)
  /\ (forall l pos fuel, (pos <= len)%nat -> (len - pos <= n)%nat -> (6 * n + 3 <= fuel)%nat -> pOL fuel l pos <> Fuel)
  /\ (forall pos fuel, (pos <= len)%nat -> (len - pos <= n)%nat -> (6 * n + 3 <= fuel)%nat -> pA fuel pos <> Fuel)
  /\ (forall l pos fuel, (pos <= len)%nat -> (len - pos <= n)%nat -> (6 * n + 2 <= fuel)%nat -> pAL fuel l pos <> Fuel)
  /\ (forall pos fuel, (pos <= len)%nat -> (len - pos <= n)%nat -> (6 * n + 2 <= fuel)%nat -> pC fuel pos <> Fuel)
  /\ (forall pos fuel, (pos <= len)%nat -> (len - pos <= n)%nat -> (6 * n + 1 <= fuel)%nat -> pP fuel pos <> Fuel).

Lemma try_literal_nofuel pos : (pos <= len)%nat -> try_literal is_alnum is_num is_ws inp pos <> Fuel.
Proof. intros H. pose proof (try_literal_spec pos H) as T. destruct (try_literal is_alnum is_num is_ws inp pos); try discriminate. contradiction. Qed.
Lemma field_path_nofuel pos : field_path is_alnum inp pos <> Fuel.
Proof. unfold BwExpr.field_path. destruct (span _ _); discriminate. Qed.
Lemma identifier_nofuel pos : identifier is_alnum inp pos <> Fuel.
Proof. unfold BwExpr.identifier. destruct (span _ _); discriminate. Qed.

(** what the functions of one level need from the level below *)
Lemma fuel_step n : (forall m, (m < n)%nat -> FuelOK m) -> FuelOK n.
Proof.
  intros IH.
  assert (Below : forall pos, (pos <= len)%nat -> (len - pos < n)%nat -> FuelOK (len - pos)) by (intros pos _ H; apply IH; exact H).
  (* p_prim *)
  assert (HP : forall pos fuel, (pos <= len)%nat -> (len - pos <= n)%nat -> (6 * n + 1 <= fuel)%nat -> pP fuel pos <> Fuel).
  { intros pos fuel H Hr Hf. destruct fuel as [|f]; [lia|]. rewrite pP_S. cbv zeta. pose proof (skip_ws_bounds pos H) as B.
    pose proof (peek_ok (skip_ws pos)) as Pk.
    assert (Hdefault : match try_literal is_alnum is_num is_ws inp (skip_ws pos) with
                | Ok (Some v) q => Ok (ELit v) q
                | Ok None q => match field_path is_alnum inp q with Ok s0 q2 => Ok (EField s0) q2 | Err q2 => Err q2 | Panic => Panic | Fuel => Fuel end
                | Err q => Err q | Panic => Panic | Fuel => Fuel end <> Fuel).
    { pose proof (try_literal_nofuel (skip_ws pos) (proj2 B)) as T. destruct (try_literal is_alnum is_num is_ws inp (skip_ws pos)) as [[v|] q| | |]; try discriminate; [|congruence].
      pose proof (field_path_nofuel q) as Fp. destruct (field_path is_alnum inp q); try discriminate. congruence. }
    destruct (peek (skip_ws pos)) as [|c|] eqn:Ep; [exact Hdefault| |congruence].
    pose proof (peek_some _ _ Ep) as Hlt. pose proof (consume_lt _ Hlt) as Hc.
    assert (Hsub : FuelOK (len - S (skip_ws pos)) /\ (len - S (skip_ws pos) < n)%nat) by (split; [apply IH|]; lia).
    destruct Hsub as [(Fe & _ & _ & _ & _ & Fp) Hlt2].
    assert (Hnot : match pP f (consume (skip_ws pos)) with Ok e q => Ok (ENot e) q | e => e end <> Fuel).
    { rewrite Hc. pose proof (Fp (S (skip_ws pos)) f ltac:(lia) ltac:(lia) ltac:(lia)) as G. destruct (pP f (S (skip_ws pos))); try discriminate. congruence. }
    assert (Hpar : match pE f (consume (skip_ws pos)) with
                | Ok e q => let q1 := skip_ws q in match peek q1 with PSome 41 => Ok e (consume q1) | PPanic => Panic | _ => Err q1 end
                | e => e end <> Fuel).
    { rewrite Hc. pose proof (Fe (S (skip_ws pos)) f ltac:(lia) ltac:(lia) ltac:(lia)) as G. destruct (pE f (S (skip_ws pos))) as [e q| | |]; try discriminate; [|congruence].
      cbv zeta. destruct (peek (skip_ws q)) as [|c2|]; try discriminate. destruct c2 as [|c2|c2]; try discriminate. repeat (destruct c2 as [c2|c2|]; try discriminate). }
    assert (Hvar : match identifier is_alnum inp (consume (skip_ws pos)) with Ok n0 q => Ok (EVar (63 :: n0)) q | Err q => Err q | Panic => Panic | Fuel => Fuel end <> Fuel).
    { pose proof (identifier_nofuel (consume (skip_ws pos))) as G. destruct (identifier is_alnum inp (consume (skip_ws pos))); try discriminate. congruence. }
    destruct c as [|c|c]; try exact Hdefault.
    repeat (destruct c as [c|c|]; try exact Hdefault; try exact Hnot; try exact Hpar; try exact Hvar). }
  (* p_cmp *)
  assert (HC : forall pos fuel, (pos <= len)%nat -> (len - pos <= n)%nat -> (6 * n + 2 <= fuel)%nat -> pC fuel pos <> Fuel).
  { intros pos fuel H Hr Hf. destruct fuel as [|f]; [lia|]. rewrite pC_S.
    pose proof (HP pos f H Hr ltac:(lia)) as G1. pose proof (proj2 (proj2 (proj2 (proj2 (proj2 (all_good f))))) pos H) as B1.
    destruct (pP f pos) as [l p| | |]; try discriminate; [|congruence]. cbn [good] in B1.
    pose proof (find_cmp_spec cmp_ops cmp_ops_nonempty p (proj2 B1)) as Fc.
    destruct (find_cmp is_ws inp cmp_ops p) as [[[t o]|] q| | |]; try discriminate; try contradiction.
    destruct Fc as [Bq Hne]. pose proof (consume_op_progress q t (proj2 Bq) Hne) as Cp.
    assert (Hsub : FuelOK (len - consume_op is_ws inp q t)) by (apply IH; lia).
    pose proof (proj2 (proj2 (proj2 (proj2 (proj2 Hsub)))) (consume_op is_ws inp q t) f (proj2 Cp) ltac:(lia) ltac:(lia)) as G2.
    destruct (pP f (consume_op is_ws inp q t)); try discriminate. congruence. }
  (* and_loop *)
  assert (HAL : forall l pos fuel, (pos <= len)%nat -> (len - pos <= n)%nat -> (6 * n + 2 <= fuel)%nat -> pAL fuel l pos <> Fuel).
  { intros l pos fuel H Hr Hf. destruct fuel as [|f]; [lia|]. rewrite pAL_S.
    destruct (peek_op_spec pos op_and H) as [b [p [E [B Hb]]]]. rewrite E. destruct b; [|discriminate].
    assert (Hlt : (p < len)%nat) by (apply Hb; [reflexivity|discriminate]).
    pose proof (consume_op_progress p op_and Hlt ltac:(discriminate)) as Cp.
    assert (Hsub : FuelOK (len - consume_op is_ws inp p op_and)) by (apply IH; lia).
    destruct Hsub as (_ & _ & _ & Fal & Fc & _).
    pose proof (Fc (consume_op is_ws inp p op_and) f (proj2 Cp) ltac:(lia) ltac:(lia)) as G1.
    pose proof (proj1 (proj2 (proj2 (proj2 (proj2 (all_good f))))) (consume_op is_ws inp p op_and) (proj2 Cp)) as B1.
    destruct (pC f (consume_op is_ws inp p op_and)) as [r q| | |]; try discriminate; [|congruence]. cbn [good] in B1.
    assert (Hsub2 : FuelOK (len - q)) by (apply IH; lia).
    apply (proj1 (proj2 (proj2 (proj2 Hsub2)))); lia. }
  (* p_and *)
  assert (HA : forall pos fuel, (pos <= len)%nat -> (len - pos <= n)%nat -> (6 * n + 3 <= fuel)%nat -> pA fuel pos <> Fuel).
  { intros pos fuel H Hr Hf. destruct fuel as [|f]; [lia|]. rewrite pA_S.
    pose proof (HC pos f H Hr ltac:(lia)) as G1. pose proof (proj1 (proj2 (proj2 (proj2 (proj2 (all_good f))))) pos H) as B1.
    destruct (pC f pos) as [l p| | |]; try discriminate; [|congruence]. cbn [good] in B1. apply HAL; lia. }
  (* or_loop *)
  assert (HOL : forall l pos fuel, (pos <= len)%nat -> (len - pos <= n)%nat -> (6 * n + 3 <= fuel)%nat -> pOL fuel l pos <> Fuel).
  { intros l pos fuel H Hr Hf. destruct fuel as [|f]; [lia|]. rewrite pOL_S.
    destruct (peek_op_spec pos op_or H) as [b [p [E [B Hb]]]]. rewrite E. destruct b; [|discriminate].
    assert (Hlt : (p < len)%nat) by (apply Hb; [reflexivity|discriminate]).
    pose proof (consume_op_progress p op_or Hlt ltac:(discriminate)) as Cp.
    assert (Hsub : FuelOK (len - consume_op is_ws inp p op_or)) by (apply IH; lia).
    destruct Hsub as (_ & Fol & Fa & _ & _ & _).
    pose proof (Fa (consume_op is_ws inp p op_or) f (proj2 Cp) ltac:(lia) ltac:(lia)) as G1.
    pose proof (proj1 (proj2 (proj2 (all_good f))) (consume_op is_ws inp p op_or) (proj2 Cp)) as B1.
    destruct (pA f (consume_op is_ws inp p op_or)) as [r q| | |]; try discriminate; [|congruence]. cbn [good] in B1.
    assert (Hsub2 : FuelOK (len - q)) by (apply IH; lia).
    apply (proj1 (proj2 Hsub2)); lia. }
  repeat split; try assumption.
  intros pos fuel H Hr Hf. destruct fuel as [|f]; [lia|]. rewrite pE_S.
  pose proof (HA pos f H Hr ltac:(lia)) as G1. pose proof (proj1 (proj2 (proj2 (all_good f))) pos H) as B1.
  destruct (pA f pos) as [l p| | |]; try discriminate; [|congruence]. cbn [good] in B1. apply HOL; lia.
Qed.

Lemma fuel_ok : forall n, FuelOK n.
Proof. intros n. induction n as [n IH] using (well_founded_induction Wf_nat.lt_wf). apply fuel_step. exact IH. Qed.

Theorem p_expr_total : pE (fuel_for inp) O <> Panic /\ pE (fuel_for inp) O <> Fuel.
Proof.
  split.
  - pose proof (proj1 (all_good (fuel_for inp)) O ltac:(lia)) as G. destruct (pE (fuel_for inp) O); try discriminate. destruct G.
  - apply (proj1 (fuel_ok len)); unfold BwExpr.fuel_for; lia.
Qed.
End P.

(** ExpressionParser::parse, for every input string and every classification of characters: never an index or slice out
    of range, and the recursion ends within depth 6 * length + 8 *)
Theorem parse_total is_alnum is_num is_ws s : parse is_alnum is_num is_ws s <> Panic /\ parse is_alnum is_num is_ws s <> Fuel.
Proof. unfold parse. apply p_expr_total. Qed.

Theorem query_parse_total is_alnum is_num is_ws s :
  query_parse is_alnum is_num is_ws s <> Panic /\ query_parse is_alnum is_num is_ws s <> Fuel.
Proof.
  unfold query_parse. destruct s as [|c s]; [split; discriminate|].
  destruct (if starts (trim_with is_ws (c :: s)) w_not then (true, skipn 4 (trim_with is_ws (c :: s))) else (false, trim_with is_ws (c :: s))) as [neg q].
  destruct (parse_total is_alnum is_num is_ws q) as [A B]. destruct (parse is_alnum is_num is_ws q); split; try discriminate; congruence.
Qed.
