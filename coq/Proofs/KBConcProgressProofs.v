(** C15 — lock-level concurrent model (Model/KBConc.v): no deadlock.  With one global acquisition order (every method's
    list strictly ascending) some thread can always take a micro-step until every program has run to its end, whatever the
    schedule did before: every method returns. *)
From RRE Require Import Base.Sx Model.KB Model.KBConc Proofs.KBConcLockProofs.
From Coq Require Import Lia Permutation.
Open Scope Z_scope.

Lemma in_remove1 t t' l : In t' (remove1 t l) -> In t' l.
Proof.
  induction l as [|x l IH]; cbn; [tauto|]. destruct (Nat.eqb_spec x t); [intros; right; assumption|].
  intros [E|H]; [left; exact E|right; apply IH; exact H].
Qed.
Lemma remove1_nodup t l : NoDup l -> NoDup (remove1 t l) /\ ~ In t (remove1 t l).
Proof.
  induction 1 as [|x l Hx N IH]; cbn; [split; [constructor|tauto]|].
  destruct (Nat.eqb_spec x t) as [E|E]; [subst x; split; assumption|].
  destruct IH as [IH1 IH2]. split.
  - constructor; [intros H; apply Hx; eapply in_remove1; exact H|exact IH1].
  - intros [E'|H]; [congruence|contradiction].
Qed.

Section Progress.
Variable locks_of : op -> list lockreq.
Hypothesis table : forall o, ascending_from 0 (locks_of o) = true /\ covers (locks_of o) o = true.
Notation InvL := (InvL locks_of).
Notation cstep := (cstep locks_of).

(** the lock table names only threads that really hold the guard *)
Record InvL2 (s : gst) : Prop := {
  l_Wc : forall l t, wr (lk s l) = Some t -> exists th, nth_error (thr s) t = Some th /\ In (l, MW) (held_of (tpc th));
  l_Rc : forall l t, In t (rd (lk s l)) -> exists th, nth_error (thr s) t = Some th /\ In (l, MR) (held_of (tpc th));
  l_Rnd : forall l, NoDup (rd (lk s l))
}.

Lemma InvL2_init progs : InvL2 (ginit progs).
Proof. constructor; unfold ginit; cbn; [discriminate|contradiction|constructor]. Qed.

Lemma step_InvL2 s t s' : InvL s -> InvL2 s -> cstep t s = Some s' -> InvL2 s'.
Proof.
  intros I I2 H. unfold KBConc.cstep in H. destruct (nth_error (thr s) t) as [th|] eqn:Hth; [|discriminate].
  (* every step that leaves the lock table alone and keeps or widens nobody's guard list except by the acquired guard *)
  assert (Keep : forall p, (forall q, In q (held_of (tpc th)) -> In q (held_of p)) ->
            InvL2 {| cells := cells s'; sigma := sigma s'; lk := lk s; thr := set_nth t {| prog := prog th; tpc := p |} (thr s);
                     now := now s'; linlog := linlog s'; hist := hist s' |}).
  { intros p Hsub. constructor; cbn.
    - intros l t' W. destruct (l_Wc _ I2 _ _ W) as (th' & H' & Hin). destruct (Nat.eq_dec t t') as [E|E].
      + subst t'. rewrite Hth in H'. inversion H'; subst th'. eexists. split; [apply (nth_set_nth_eq _ _ _ _ Hth)|]. cbn. apply Hsub. exact Hin.
      + exists th'. rewrite nth_set_nth_ne by exact E. auto.
    - intros l t' R. destruct (l_Rc _ I2 _ _ R) as (th' & H' & Hin). destruct (Nat.eq_dec t t') as [E|E].
      + subst t'. rewrite Hth in H'. inversion H'; subst th'. eexists. split; [apply (nth_set_nth_eq _ _ _ _ Hth)|]. cbn. apply Hsub. exact Hin.
      + exists th'. rewrite nth_set_nth_ne by exact E. auto.
    - apply (l_Rnd _ I2). }
  destruct (tpc th) as [|o inv todo held|o inv lin r loc todo held|o inv lin r held] eqn:Hpc.
  - destruct (prog th) as [|o rest] eqn:Hprog; [discriminate|]. inversion H; subst s'; clear H Keep. constructor; cbn.
    + intros l t' W. destruct (l_Wc _ I2 _ _ W) as (th' & H' & Hin). destruct (Nat.eq_dec t t') as [E|E].
      * subst t'. rewrite Hth in H'. inversion H'; subst th'. rewrite Hpc in Hin. contradiction.
      * exists th'. rewrite nth_set_nth_ne by exact E. auto.
    + intros l t' R. destruct (l_Rc _ I2 _ _ R) as (th' & H' & Hin). destruct (Nat.eq_dec t t') as [E|E].
      * subst t'. rewrite Hth in H'. inversion H'; subst th'. rewrite Hpc in Hin. contradiction.
      * exists th'. rewrite nth_set_nth_ne by exact E. auto.
    + apply (l_Rnd _ I2).
  - destruct todo as [|[l m] todo].
    + inversion H; subst s'; clear H. apply (Keep (PWrite o inv (now s) (snd (step (cells s) o)) (fst (step (cells s) o)) (wlocks held) held)). cbn. auto.
    + destruct (can_acq m (lk s l)) eqn:Hcan; [|discriminate]. inversion H; subst s'; clear H Keep.
      pose proof (l_nodup _ _ I _ _ Hth) as N. rewrite Hpc in N. cbn [pending_of held_of] in N.
      assert (Nl : ~ In l (map fst held)).
      { rewrite map_app in N. cbn [map fst] in N. inversion N as [|? ? Nin _]; subst. intros Hin. apply Nin. apply in_or_app. right. exact Hin. }
      constructor; cbn.
      * intros l' t' W. destruct (Nat.eq_dec l' l) as [El|El].
        -- subst l'. rewrite upd_eq in W. destruct m; cbn in W.
           ++ destruct (l_Wc _ I2 _ _ W) as (th' & H' & Hin). exfalso. unfold can_acq in Hcan. rewrite W in Hcan. discriminate.
           ++ inversion W; subst t'. eexists. split; [apply (nth_set_nth_eq _ _ _ _ Hth)|]. cbn. left; reflexivity.
        -- rewrite upd_ne in W by exact El. destruct (l_Wc _ I2 _ _ W) as (th' & H' & Hin). destruct (Nat.eq_dec t t') as [E|E].
           ++ subst t'. rewrite Hth in H'. inversion H'; subst th'. eexists. split; [apply (nth_set_nth_eq _ _ _ _ Hth)|]. cbn. right. rewrite Hpc in Hin. exact Hin.
           ++ exists th'. rewrite nth_set_nth_ne by exact E. auto.
      * intros l' t' R. destruct (Nat.eq_dec l' l) as [El|El].
        -- subst l'. rewrite upd_eq in R. destruct m; cbn in R.
           ++ destruct R as [E|R]; [subst t'; eexists; split; [apply (nth_set_nth_eq _ _ _ _ Hth)|cbn; left; reflexivity]|].
              destruct (l_Rc _ I2 _ _ R) as (th' & H' & Hin). destruct (Nat.eq_dec t t') as [E|E].
              ** subst t'. rewrite Hth in H'. inversion H'; subst th'. eexists. split; [apply (nth_set_nth_eq _ _ _ _ Hth)|]. cbn. right. rewrite Hpc in Hin. exact Hin.
              ** exists th'. rewrite nth_set_nth_ne by exact E. auto.
           ++ exfalso. unfold can_acq in Hcan. destruct (wr (lk s l)); [discriminate|]. destruct (rd (lk s l)); [contradiction|discriminate].
        -- rewrite upd_ne in R by exact El. destruct (l_Rc _ I2 _ _ R) as (th' & H' & Hin). destruct (Nat.eq_dec t t') as [E|E].
           ++ subst t'. rewrite Hth in H'. inversion H'; subst th'. eexists. split; [apply (nth_set_nth_eq _ _ _ _ Hth)|]. cbn. right. rewrite Hpc in Hin. exact Hin.
           ++ exists th'. rewrite nth_set_nth_ne by exact E. auto.
      * intros l'. destruct (Nat.eq_dec l' l) as [El|El]; [|rewrite upd_ne by exact El; apply (l_Rnd _ I2)].
        subst l'. rewrite upd_eq. destruct m; cbn; [|apply (l_Rnd _ I2)]. constructor; [|apply (l_Rnd _ I2)].
        intros R. destruct (l_Rc _ I2 _ _ R) as (th' & H' & Hin). rewrite Hth in H'. inversion H'; subst th'. rewrite Hpc in Hin.
        apply Nl. apply in_map_iff. exists (l, MR). split; [reflexivity|exact Hin].
  - destruct todo as [|c0 todo]; inversion H; subst s'; clear H.
    + apply (Keep (PRel o inv lin r held)). cbn. auto.
    + apply (Keep (PWrite o inv lin r loc todo held)). cbn. auto.
  - destruct held as [|[l m] held]; inversion H; subst s'; clear H Keep.
    + (* respond: no guard left *)
      constructor; cbn.
      * intros l t' W. destruct (l_Wc _ I2 _ _ W) as (th' & H' & Hin). destruct (Nat.eq_dec t t') as [E|E].
        -- subst t'. rewrite Hth in H'. inversion H'; subst th'. rewrite Hpc in Hin. contradiction.
        -- exists th'. rewrite nth_set_nth_ne by exact E. auto.
      * intros l t' R. destruct (l_Rc _ I2 _ _ R) as (th' & H' & Hin). destruct (Nat.eq_dec t t') as [E|E].
        -- subst t'. rewrite Hth in H'. inversion H'; subst th'. rewrite Hpc in Hin. contradiction.
        -- exists th'. rewrite nth_set_nth_ne by exact E. auto.
      * apply (l_Rnd _ I2).
    + (* release *)
      assert (Hme : In (l, m) (held_of (tpc th))) by (rewrite Hpc; left; reflexivity).
      constructor; cbn.
      * intros l' t' W. destruct (Nat.eq_dec l' l) as [El|El].
        -- subst l'. rewrite upd_eq in W. destruct m; cbn in W; [|discriminate].
           destruct (l_Wc _ I2 _ _ W) as (th' & H' & Hin).
           assert (t = t') by (eapply (excl locks_of s t t' th th' l MR); eauto). subst t'.
           exfalso. pose proof (l_R _ _ I _ _ _ Hth Hme) as R. rewrite (l_3 _ _ I _ _ W) in R. contradiction.
        -- rewrite upd_ne in W by exact El. destruct (l_Wc _ I2 _ _ W) as (th' & H' & Hin). destruct (Nat.eq_dec t t') as [E|E].
           ++ subst t'. rewrite Hth in H'. inversion H'; subst th'. eexists. split; [apply (nth_set_nth_eq _ _ _ _ Hth)|]. cbn.
              rewrite Hpc in Hin. destruct Hin as [E1|Hin]; [inversion E1; congruence|exact Hin].
           ++ exists th'. rewrite nth_set_nth_ne by exact E. auto.
      * intros l' t' R. destruct (Nat.eq_dec l' l) as [El|El].
        -- subst l'. rewrite upd_eq in R. destruct m; cbn in R.
           ++ destruct (remove1_nodup t _ (l_Rnd _ I2 l)) as [_ Nt]. assert (t <> t') by (intros ->; contradiction).
              apply in_remove1 in R. destruct (l_Rc _ I2 _ _ R) as (th' & H' & Hin). exists th'. rewrite nth_set_nth_ne by assumption. auto.
           ++ pose proof (l_W _ _ I _ _ _ Hth Hme) as W. rewrite (l_3 _ _ I _ _ W) in R. contradiction.
        -- rewrite upd_ne in R by exact El. destruct (l_Rc _ I2 _ _ R) as (th' & H' & Hin). destruct (Nat.eq_dec t t') as [E|E].
           ++ subst t'. rewrite Hth in H'. inversion H'; subst th'. eexists. split; [apply (nth_set_nth_eq _ _ _ _ Hth)|]. cbn.
              rewrite Hpc in Hin. destruct Hin as [E1|Hin]; [inversion E1; congruence|exact Hin].
           ++ exists th'. rewrite nth_set_nth_ne by exact E. auto.
      * intros l'. destruct (Nat.eq_dec l' l) as [El|El]; [|rewrite upd_ne by exact El; apply (l_Rnd _ I2)].
        subst l'. rewrite upd_eq. destruct m; cbn; [|apply (l_Rnd _ I2)]. apply remove1_nodup. apply (l_Rnd _ I2).
Qed.

(** ---------- progress ---------- *)
Lemma ascending_before lo a l m b : ascending_from lo (a ++ (l, m) :: b) = true -> forall q, In q a -> (fst q < l)%nat.
Proof.
  revert lo. induction a as [|[c mc] a IH]; intros lo H q Hq; [contradiction|]. cbn [app ascending_from] in H.
  apply andb_prop in H as [H H3]. destruct Hq as [E|Hq]; [|eapply IH; eauto].
  subst q. cbn. assert (In (l, m) (a ++ (l, m) :: b)) by (apply in_or_app; right; left; reflexivity).
  pose proof (ascending_lt _ _ H3 _ H0) as L3. cbn [fst] in *. lia.
Qed.

Definition waiting (th : thread) : Prop :=
  (tpc th = PIdle /\ prog th = []) \/ exists o inv l m todo held, tpc th = PAcq o inv ((l, m) :: todo) held.

Lemma moves_unless_waiting s t th : nth_error (thr s) t = Some th -> ~ waiting th -> exists s', cstep t s = Some s'.
Proof.
  intros Hth Hw. unfold KBConc.cstep. rewrite Hth. destruct (tpc th) as [|o inv todo held|o inv lin r loc todo held|o inv lin r held] eqn:Hpc.
  - destruct (prog th) eqn:Hp; [exfalso; apply Hw; left; split; [exact Hpc|exact Hp]|eexists; reflexivity].
  - destruct todo as [|[l m] todo]; [eexists; reflexivity|]. exfalso. apply Hw. right. do 6 eexists. exact Hpc.
  - destruct todo; eexists; reflexivity.
  - destruct held as [|[l m] held]; eexists; reflexivity.
Qed.

Lemma waiting_chain s : InvL s -> InvL2 s -> (forall t th, nth_error (thr s) t = Some th -> waiting th) ->
  forall n t th o inv l m todo held, (3 - l <= n)%nat -> nth_error (thr s) t = Some th -> tpc th = PAcq o inv ((l, m) :: todo) held ->
  exists t' s', cstep t' s = Some s'.
Proof.
  intros I I2 All. induction n as [|n IHn]; intros t th o inv l m todo held Hn Hth Hpc.
  - exfalso. pose proof (l_acq _ _ I _ _ _ _ _ _ Hth Hpc) as E.
    assert (In (l, m) (locks_of o)) by (rewrite E; apply in_or_app; right; left; reflexivity).
    pose proof (locks_lt3 locks_of table o _ H) as L3. cbn [fst] in L3. lia.
  - destruct (can_acq m (lk s l)) eqn:Hcan.
    + exists t. unfold KBConc.cstep. rewrite Hth, Hpc, Hcan. eexists. reflexivity.
    + (* somebody holds l *)
      assert (Holder : exists t' th' m', nth_error (thr s) t' = Some th' /\ In (l, m') (held_of (tpc th'))).
      { unfold can_acq in Hcan. destruct m.
        - destruct (wr (lk s l)) as [t'|] eqn:W; [|discriminate]. destruct (l_Wc _ I2 _ _ W) as (th' & H' & Hin). exists t', th', MW. auto.
        - destruct (wr (lk s l)) as [t'|] eqn:W.
          + destruct (l_Wc _ I2 _ _ W) as (th' & H' & Hin). exists t', th', MW. auto.
          + destruct (rd (lk s l)) as [|t' rest] eqn:R; [discriminate|].
            destruct (l_Rc _ I2 l t') as (th' & H' & Hin); [rewrite R; left; reflexivity|]. exists t', th', MR. auto. }
      destruct Holder as (t' & th' & m' & H' & Hin).
      destruct (All _ _ H') as [[Ei _]|(o' & inv' & l' & m'' & todo' & held' & E')]; [rewrite Ei in Hin; contradiction|].
      rewrite E' in Hin. cbn in Hin.
      pose proof (l_acq _ _ I _ _ _ _ _ _ H' E') as El. destruct (table o') as [Asc _]. rewrite El in Asc.
      assert (l < l')%nat by (apply (ascending_before _ _ _ _ _ Asc (l, m')); apply -> in_rev; exact Hin).
      eapply (IHn t' th' o' inv' l' m'' todo' held'); [lia|exact H'|exact E'].
Qed.

Theorem progress s : InvL s -> InvL2 s -> ~ finished s -> exists t s', cstep t s = Some s'.
Proof.
  intros I I2 NF.
  (* either some thread is not waiting - it moves - or all are waiting and one of them is not finished *)
  assert (D : (exists t th, nth_error (thr s) t = Some th /\ ~ waiting th) \/ (forall t th, nth_error (thr s) t = Some th -> waiting th)).
  { clear. induction (thr s) as [|th l IH]; [right; intros [|t] th H; discriminate|].
    assert (Dw : waiting th \/ ~ waiting th).
    { unfold waiting. destruct (tpc th) as [|o inv [|[l0 m0] todo] held| |] eqn:E.
      - destruct (prog th) eqn:P; [left; left; split; reflexivity|right; intros [[_ H]|(?&?&?&?&?&?&H)]; discriminate].
      - right; intros [[H _]|(?&?&?&?&?&?&H)]; discriminate.
      - left; right; do 6 eexists; reflexivity.
      - right; intros [[H _]|(?&?&?&?&?&?&H)]; discriminate.
      - right; intros [[H _]|(?&?&?&?&?&?&H)]; discriminate. }
    destruct Dw as [W|W]; [|left; exists 0%nat, th; split; [reflexivity|exact W]].
    destruct IH as [(t & th' & H & Hn)|IH]; [left; exists (S t), th'; split; assumption|].
    right. intros [|t] th' H; [inversion H; subst; exact W|eapply IH; exact H]. }
  destruct D as [(t & th & Hth & Hw)|All].
  - exists t. eapply moves_unless_waiting; eauto.
  - (* all waiting, not all finished: somebody waits for a lock *)
    assert (E : exists t th o inv l m todo held, nth_error (thr s) t = Some th /\ tpc th = PAcq o inv ((l, m) :: todo) held).
    { assert (D : (forall t th, nth_error (thr s) t = Some th -> tpc th = PIdle /\ prog th = []) \/
                  exists t th o inv l m todo held, nth_error (thr s) t = Some th /\ tpc th = PAcq o inv ((l, m) :: todo) held).
      { clear - All. induction (thr s) as [|th l IH]; [left; intros [|t] th H; discriminate|].
        destruct (All 0%nat th eq_refl) as [W|(o & inv & l0 & m & todo & held & W)].
        - destruct IH as [IH|(t & th' & o & inv & l0 & m & todo & held & H & E)].
          + intros t th' H. apply (All (S t) th'). exact H.
          + left. intros [|t] th' H; [inversion H; subst; exact W|eapply IH; exact H].
          + right. exists (S t), th', o, inv, l0, m, todo, held. split; assumption.
        - right. exists 0%nat, th, o, inv, l0, m, todo, held. split; [reflexivity|exact W]. }
      destruct D as [D|D]; [exfalso; apply NF; exact D|exact D]. }
    destruct E as (t & th & o & inv & l & m & todo & held & Hth & Hpc).
    eapply (waiting_chain s I I2 All (3 - l) t); eauto.
Qed.
End Progress.

(** ---------- the instance read from the source ---------- *)
From RRE Require Import Proofs.KBRefineProofs Proofs.KBLinProofs Proofs.KBConcProofs.

Lemma src_table_ok : forall o, ascending_from 0 (src_locks o) = true /\ covers (src_locks o) o = true.
Proof. intros o. destruct o; vm_compute; split; reflexivity. Qed.

Lemma run_InvL2 locks_of (table : forall o, ascending_from 0 (locks_of o) = true /\ covers (locks_of o) o = true) sched :
  forall s, InvL locks_of s -> InvL2 s -> InvL locks_of (run locks_of sched s) /\ InvL2 (run locks_of sched s).
Proof.
  induction sched as [|t sched IH]; intros s I I2; cbn; [split; assumption|].
  destruct (cstep locks_of t s) as [s'|] eqn:E; [|apply IH; assumption].
  apply IH; [eapply step_InvL; eauto|eapply step_InvL2; eauto].
Qed.

Theorem src_no_deadlock : forall progs sched,
  let s := run src_locks sched (ginit progs) in
  ~ finished s -> exists t s', cstep src_locks t s = Some s'.
Proof.
  intros progs sched s NF.
  destruct (run_InvL2 src_locks src_table_ok sched (ginit progs) (InvL_init src_locks progs) (InvL2_init progs)) as [I I2].
  apply (progress src_locks src_table_ok); assumption.
Qed.

Theorem monitor_accepts_model_runs : forall progs sched,
  let s := run src_locks sched (ginit progs) in
  quiescent s -> lin (S (length (hist s))) sinit (map to_cevent (hist s)) = true.
Proof.
  intros progs sched s Q. apply lin_complete; [rewrite map_length; lia|].
  destruct (conc_linearizable src_locks src_table_ok progs sched Q) as [L _]. exact L.
Qed.
