(** C07 — the ordering of the agenda model is the comparison chain of the current source: tools/consts.py reads
    `impl Ord for Activation` (rete/agenda.rs) into Generated/Consts.v agenda_ord on every run; [better] (Model/ReteAgenda.v),
    the relation every C07 theorem is stated with, is "greater" in exactly that lexicographic order. *)
From RRE Require Import Base.Sx Generated.Consts Model.ReteAgenda.
From Coq Require Import Lia.
Open Scope Z_scope.

Definition field_cmp (f : N) (a b : act) : comparison :=
  match f with
  | 0%N => a_sal a ?= a_sal b
  | 1%N => a_created a ?= a_created b
  | 2%N => a_id a ?= a_id b
  | _ => a_name a ?= a_name b
  end.
Fixpoint lex_cmp (chain : list (N * bool)) (a b : act) : comparison :=
  match chain with
  | [] => Eq
  | (f, reversed) :: r =>
      match (if reversed then field_cmp f b a else field_cmp f a b) with
      | Eq => lex_cmp r a b
      | c => c
      end
  end.

Theorem better_is_source_ord : forall a b,
  better a b = match lex_cmp agenda_ord a b with Gt => true | _ => false end.
Proof.
  intros a b. unfold better, agenda_ord, lex_cmp, field_cmp.
  destruct (Z.compare_spec (a_sal a) (a_sal b)) as [E|L|G].
  - rewrite E, Z.ltb_irrefl, Z.eqb_refl. cbn [orb andb].
    destruct (Z.compare_spec (a_created b) (a_created a)) as [E2|L2|G2].
    + rewrite E2. apply Z.ltb_irrefl.
    + apply Z.ltb_ge. lia.
    + apply Z.ltb_lt. lia.
  - replace (a_sal b <? a_sal a) with false by (symmetry; apply Z.ltb_ge; lia).
    replace (a_sal a =? a_sal b) with false by (symmetry; apply Z.eqb_neq; lia). reflexivity.
  - replace (a_sal b <? a_sal a) with true by (symmetry; apply Z.ltb_lt; lia). reflexivity.
Qed.
