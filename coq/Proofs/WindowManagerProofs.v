(** C12 — WindowManager::process_event (tumbling windows with expiry and a bound on the number of windows): after EVERY
    event of EVERY arrival sequence the retained windows are aligned intervals with pairwise different starts, in ascending
    order, each holding only events of its interval; the event just processed sits in exactly one window, the one of the
    aligned interval that contains its timestamp; and at most max_windows windows are retained. *)
From RRE Require Import Base.Sx Base.Float Model.Window Proofs.WindowProofs Proofs.WindowPlacementProofs.
From Coq Require Import Lia Sorting.Sorted Permutation.
Open Scope N_scope.

Section Manager.
Variables dur cap maxw : N.
Hypothesis Hdur : 0 < dur.
Hypothesis Hcap : 1 <= cap.
Hypothesis Hmax : 1 <= maxw.

Definition lt_start (a b : window) : Prop := w_start a < w_start b.

Record MInv (ws : list window) : Prop := {
  m_aligned : forall w, In w ws -> aligned dur w /\ w_start w mod dur = 0;
  m_sorted : StronglySorted lt_start ws;
  m_bound : (length ws <= N.to_nat maxw)%nat
}.

Lemma contains_al w e : w_start w mod dur = 0 -> w_end w = w_start w + dur ->
  w_start w <= ets e -> ets e < w_end w -> w_start w = al dur e.
Proof.
  intros Hm He H1 H2. unfold al. rewrite He in H2.
  assert (Ek : w_start w = dur * (w_start w / dur)) by (apply N.div_exact; [lia|exact Hm]).
  set (k := w_start w / dur) in *. clearbody k.
  assert (ets e / dur = k); [|subst k; lia].
  symmetry. apply (N.div_unique (ets e) dur k (ets e - dur * k)); lia.
Qed.

Lemma al_mod e : al dur e mod dur = 0.
Proof. unfold al. apply N.mod_mul. lia. Qed.

Lemma sorted_same_start ws : StronglySorted lt_start ws -> forall a b, In a ws -> In b ws -> w_start a = w_start b -> a = b.
Proof.
  induction 1 as [|x l S IH F]; intros a b Ha Hb E; [contradiction|].
  rewrite Forall_forall in F. unfold lt_start in F.
  destruct Ha as [<-|Ha], Hb as [<-|Hb]; [reflexivity| | |apply IH; assumption].
  - specialize (F b Hb). lia.
  - specialize (F a Ha). lia.
Qed.

Lemma in_events_add w e x : In x (w_events (fst (add_event cap w e))) -> x = e \/ In x (w_events w).
Proof.
  unfold add_event. destruct ((w_start w <=? ets e) && (ets e <? w_end w)); cbn [fst w_events]; [|auto].
  intros H. apply cap_events_incl in H. apply in_app_or in H as [H|[<-|[]]]; auto.
Qed.

Lemma add_event_keeps_e w e : (w_start w <=? ets e) && (ets e <? w_end w) = true -> In e (w_events (fst (add_event cap w e))).
Proof.
  intros H. unfold add_event. rewrite H. cbn [fst w_events]. unfold cap_events. apply drop_front_last. rewrite app_length. cbn. lia.
Qed.

(** try_add puts the event into the first window whose interval contains its timestamp *)
Lemma try_add_some e : forall ws ws', try_add cap ws e = Some ws' ->
  exists l1 w l2, ws = l1 ++ w :: l2 /\ ws' = l1 ++ fst (add_event cap w e) :: l2 /\
                  (w_start w <=? ets e) && (ets e <? w_end w) = true.
Proof.
  induction ws as [|w r IH]; intros ws' H; cbn [try_add] in H; [discriminate|].
  unfold add_event in H at 1. destruct ((w_start w <=? ets e) && (ets e <? w_end w)) eqn:C.
  - inversion H; subst. exists [], w, r. cbn [app]. split; [reflexivity|]. split; [|exact C].
    unfold add_event. rewrite C. reflexivity.
  - destruct (try_add cap r e) as [r'|] eqn:T; [|discriminate]. inversion H; subst.
    destruct (IH r' eq_refl) as (l1 & w0 & l2 & E1 & E2 & E3). exists (w :: l1), w0, l2. subst. cbn [app]. auto.
Qed.

Lemma try_add_none e : forall ws, try_add cap ws e = None -> forall w, In w ws -> (w_start w <=? ets e) && (ets e <? w_end w) = false.
Proof.
  induction ws as [|w r IH]; intros H x Hx; [contradiction|]. cbn [try_add] in H.
  unfold add_event in H at 1. destruct ((w_start w <=? ets e) && (ets e <? w_end w)) eqn:C; [discriminate|].
  destruct (try_add cap r e) eqn:T; [discriminate|]. destruct Hx as [<-|Hx]; [exact C|apply IH; [reflexivity|exact Hx]].
Qed.

(** sorting a list of windows with pairwise different starts gives a strictly ascending list with the same members *)
Lemma insert_sorted_sorted w l : StronglySorted lt_start l -> (forall x, In x l -> w_start x <> w_start w) ->
  StronglySorted lt_start (insert_sorted w l).
Proof.
  induction 1 as [|y l S IH F]; intros D; cbn [insert_sorted]; [constructor; constructor|].
  rewrite Forall_forall in F. destruct (w_start w <? w_start y) eqn:C.
  - apply N.ltb_lt in C. constructor; [constructor; [exact S|apply Forall_forall; exact F]|].
    apply Forall_forall. intros x [<-|Hx]; [exact C|]. specialize (F x Hx). unfold lt_start in *. lia.
  - apply N.ltb_ge in C. assert (w_start y <> w_start w) by (apply D; left; reflexivity).
    constructor; [apply IH; intros x Hx; apply D; right; exact Hx|].
    apply Forall_forall. intros x Hx. apply insert_sorted_in in Hx as [->|Hx]; [unfold lt_start; lia|apply F; exact Hx].
Qed.

Lemma sort_windows_sorted l : NoDup (map w_start l) -> StronglySorted lt_start (sort_windows l).
Proof.
  unfold sort_windows.
  assert (G : forall l acc, NoDup (map w_start l) -> StronglySorted lt_start acc ->
                (forall x y, In x l -> In y acc -> w_start y <> w_start x) ->
                StronglySorted lt_start (fold_left (fun acc w => insert_sorted w acc) l acc)).
  { clear l. induction l as [|w l IH]; intros acc ND S D; cbn [fold_left]; [exact S|].
    cbn [map] in ND. inversion ND as [|? ? Hw ND']; subst. apply IH; [exact ND'| |].
    - apply insert_sorted_sorted; [exact S|]. intros x Hx. apply (D w x); [left; reflexivity|exact Hx].
    - intros x y Hx Hy. apply insert_sorted_in in Hy as [->|Hy].
      + intros E. apply Hw. rewrite E. apply in_map. exact Hx.
      + apply D; [right; exact Hx|exact Hy]. }
  intros ND. apply G; [exact ND|constructor|intros x y _ []].
Qed.

Lemma sort_windows_length l : length (sort_windows l) = length l.
Proof.
  unfold sort_windows.
  assert (Gi : forall w l, length (insert_sorted w l) = S (length l)).
  { intros w. induction l0 as [|y l0 IH]; cbn [insert_sorted]; [reflexivity|]. destruct (w_start w <? w_start y); cbn; [reflexivity|rewrite IH; reflexivity]. }
  assert (G : forall l acc, length (fold_left (fun acc w => insert_sorted w acc) l acc) = (length l + length acc)%nat).
  { clear l. induction l as [|w l IH]; intros acc; cbn [fold_left]; [reflexivity|]. rewrite IH, Gi. cbn. lia. }
  rewrite G. cbn. lia.
Qed.

Lemma sorted_nodup_starts ws : StronglySorted lt_start ws -> NoDup (map w_start ws).
Proof.
  induction 1 as [|x l S IH F]; cbn; constructor; [|exact IH].
  rewrite Forall_forall in F. intros Hin. apply in_map_iff in Hin as (y & E & Hy). specialize (F y Hy). unfold lt_start in F. lia.
Qed.

Lemma nodup_app_r {T} (a b : list T) : NoDup (a ++ b) -> NoDup b.
Proof. induction a as [|x a IH]; cbn; [auto|]. intros H. inversion H; subst. apply IH. assumption. Qed.
Lemma nodup_app_l {T} (a b : list T) : NoDup (a ++ b) -> NoDup a.
Proof.
  induction a as [|x a IH]; cbn; [constructor|]. intros H. inversion H as [|? ? Hx H']; subst.
  constructor; [intros Hin; apply Hx; apply in_or_app; left; exact Hin|apply IH; exact H'].
Qed.
Lemma nodup_map_sub {T} (f : T -> N) (l l' : list T) : NoDup (map f l) -> (exists a b, l = a ++ l' ++ b) -> NoDup (map f l').
Proof.
  intros ND (a & b & ->). rewrite !map_app in ND. apply nodup_app_r in ND. apply nodup_app_l in ND. exact ND.
Qed.

Lemma nodup_map_filter {T} (f : T -> N) p (l : list T) : NoDup (map f l) -> NoDup (map f (filter p l)).
Proof.
  induction l as [|x l IH]; cbn; [auto|]. intros ND. inversion ND as [|? ? Hx ND']; subst.
  destruct (p x); [|apply IH; exact ND']. cbn. constructor; [|apply IH; exact ND'].
  intros Hin. apply Hx. apply in_map_iff in Hin as (y & E & Hy). apply filter_In in Hy as [Hy _]. apply in_map_iff. exists y. auto.
Qed.

Lemma drop_front_split {T} n : forall (l : list T), exists a, l = a ++ drop_front n l.
Proof.
  induction n as [|n IH]; intros l; [exists []; reflexivity|]. destruct l as [|x l]; [exists []; reflexivity|].
  destruct (IH l) as [a E]. exists (x :: a). cbn. rewrite <- E. reflexivity.
Qed.

Theorem process_event_spec ws e : MInv ws ->
  let ws' := process_event dur cap maxw ws e in
  MInv ws' /\
  (exists w, In w ws' /\ In e (w_events w) /\ w_start w = al dur e /\ w_end w = al dur e + dur) /\
  (forall w1 w2, In w1 ws' -> In w2 ws' -> In e (w_events w1) -> In e (w_events w2) -> w1 = w2).
Proof.
  intros I. cbn zeta. unfold process_event.
  set (fresh := fst (add_event cap {| w_start := ets e / dur * dur; w_end := ets e / dur * dur + dur; w_events := [] |} e)).
  destruct (al_range dur e Hdur) as [R1 R2]. unfold al in R1, R2.
  assert (Cfresh : (ets e / dur * dur <=? ets e) && (ets e <? ets e / dur * dur + dur) = true)
    by (apply andb_true_intro; split; [apply N.leb_le; lia|apply N.ltb_lt; lia]).
  assert (Ffresh : fresh = {| w_start := ets e / dur * dur; w_end := ets e / dur * dur + dur; w_events := [e] |}).
  { unfold fresh, add_event. cbn [w_start w_end w_events]. rewrite Cfresh. cbn [fst app]. f_equal.
    unfold cap_events. cbn [length]. replace (1 - N.to_nat cap)%nat with O by lia. reflexivity. }
  (* ws1: the list after the event has been placed; its members are aligned, have different starts, one of them holds e *)
  assert (P1 : exists ws1 we,
     (match try_add cap ws e with Some ws' => ws' | None => let '(w, _) := add_event cap {| w_start := ets e / dur * dur; w_end := ets e / dur * dur + dur; w_events := [] |} e in ws ++ [w] end) = ws1 /\
     (forall w, In w ws1 -> aligned dur w /\ w_start w mod dur = 0) /\ NoDup (map w_start ws1) /\
     In we ws1 /\ In e (w_events we) /\ w_start we = al dur e /\ w_end we = al dur e + dur /\
     (length ws1 <= S (N.to_nat maxw))%nat /\
     ((length ws1 <= N.to_nat maxw)%nat \/ exists l, ws1 = l ++ [we])).
  { destruct (try_add cap ws e) as [ws1|] eqn:T.
    - destruct (try_add_some e ws ws1 T) as (l1 & w & l2 & E1 & E2 & C).
      apply andb_true_iff in C as [C1 C2]. apply N.leb_le in C1. apply N.ltb_lt in C2.
      assert (Hw : In w ws) by (rewrite E1; apply in_or_app; right; left; reflexivity).
      destruct (m_aligned _ I w Hw) as [[Ae Ax] Am].
      assert (Es : w_start w = al dur e) by (apply contains_al; assumption).
      exists ws1, (fst (add_event cap w e)). split; [reflexivity|]. split; [|split; [|split; [|split; [|split; [|split; [|split]]]]]].
      + intros x Hx. rewrite E2 in Hx. apply in_app_or in Hx as [Hx|[<-|Hx]].
        * apply (m_aligned _ I). rewrite E1. apply in_or_app. left. exact Hx.
        * split; [apply add_event_aligned; [split; assumption|exact Es]|rewrite add_event_start; exact Am].
        * apply (m_aligned _ I). rewrite E1. apply in_or_app. right. right. exact Hx.
      + pose proof (sorted_nodup_starts _ (m_sorted _ I)) as ND. rewrite E1 in ND. rewrite E2.
        rewrite map_app in *. cbn [map] in *. rewrite add_event_start. exact ND.
      + rewrite E2. apply in_or_app. right. left. reflexivity.
      + apply add_event_keeps_e. apply andb_true_intro. split; [apply N.leb_le|apply N.ltb_lt]; assumption.
      + rewrite add_event_start. exact Es.
      + unfold add_event. destruct ((w_start w <=? ets e) && (ets e <? w_end w)); cbn [fst w_end]; rewrite Ae, Es; reflexivity.
      + pose proof (m_bound _ I) as B. rewrite E1 in B. rewrite E2. rewrite app_length in *. cbn [length] in *. lia.
      + left. pose proof (m_bound _ I) as B. rewrite E1 in B. rewrite E2. rewrite app_length in *. cbn [length] in *. lia.
    - exists (ws ++ [fresh]), fresh. split; [unfold fresh; destruct (add_event cap _ e); reflexivity|]. split; [|split; [|split; [|split; [|split; [|split; [|split]]]]]].
      + intros x Hx. apply in_app_or in Hx as [Hx|[<-|[]]]; [apply (m_aligned _ I); exact Hx|].
        rewrite Ffresh. split; [split; cbn [w_start w_end w_events]; [reflexivity|intros x [<-|[]]; reflexivity]|cbn [w_start]; apply al_mod].
      + rewrite map_app. cbn [map]. eapply Permutation_NoDup; [apply Permutation_cons_append|].
        constructor; [|apply sorted_nodup_starts; apply (m_sorted _ I)].
        intros Hin. apply in_map_iff in Hin as (x & Ex & Hx).
        pose proof (try_add_none e ws T x Hx) as C. destruct (m_aligned _ I x Hx) as [[Ae _] Am].
        rewrite Ffresh in Ex. cbn [w_start] in Ex.
        assert ((w_start x <=? ets e) && (ets e <? w_end x) = true); [|congruence].
        apply andb_true_intro. rewrite Ae, Ex. split; [apply N.leb_le; lia|apply N.ltb_lt; lia].
      + apply in_or_app. right. left. reflexivity.
      + rewrite Ffresh. left. reflexivity.
      + rewrite Ffresh. reflexivity.
      + rewrite Ffresh. reflexivity.
      + rewrite app_length. cbn. pose proof (m_bound _ I). lia.
      + right. exists ws. reflexivity. }
  destruct P1 as (ws1 & we & E & A1 & ND1 & Hwe & Hee & Hws & Hwe_end & L1 & Shape). rewrite E. clear E.
  set (ws2 := filter (fun w => negb (w_end w <=? ets e)) ws1).
  set (ws3 := drop_front (length ws2 - N.to_nat maxw) ws2).
  assert (In2 : In we ws2).
  { apply filter_In. split; [exact Hwe|]. apply negb_true_iff. apply N.leb_gt. rewrite Hwe_end. unfold al. lia. }
  assert (L2 : (length ws2 <= length ws1)%nat) by apply filter_len_le.
  assert (In3 : In we ws3).
  { unfold ws3. destruct Shape as [Sh|[l Sh]].
    - replace (length ws2 - N.to_nat maxw)%nat with O by lia. exact In2.
    - (* we is the last element of ws1, hence of ws2 *)
      assert (E2 : ws2 = filter (fun w => negb (w_end w <=? ets e)) l ++ [we]).
      { unfold ws2. rewrite Sh, filter_app. cbn [filter].
        assert (negb (w_end we <=? ets e) = true) by (apply negb_true_iff; apply N.leb_gt; rewrite Hwe_end; unfold al; lia).
        rewrite H. reflexivity. }
      rewrite E2. apply drop_front_last. rewrite app_length. cbn [length]. lia. }
  assert (Sub3 : forall x, In x ws3 -> In x ws1).
  { intros x Hx. unfold ws3 in Hx. apply drop_front_incl in Hx. apply filter_In in Hx as [Hx _]. exact Hx. }
  assert (ND3 : NoDup (map w_start ws3)).
  { assert (ND2 : NoDup (map w_start ws2)) by (apply nodup_map_filter; exact ND1).
    destruct (drop_front_split (length ws2 - N.to_nat maxw) ws2) as [a Ea]. fold ws3 in Ea.
    eapply nodup_map_sub; [exact ND2|]. exists a, []. rewrite app_nil_r. exact Ea. }
  assert (IM : MInv (sort_windows ws3)).
  { constructor.
    - intros w Hw. apply (proj1 (sort_windows_in _ _)) in Hw. apply A1. apply Sub3. exact Hw.
    - apply sort_windows_sorted. exact ND3.
    - rewrite sort_windows_length. unfold ws3. rewrite drop_front_length. lia. }
  split; [exact IM|]. split.
  - exists we. split; [apply sort_windows_in; exact In3|]. auto.
  - intros w1 w2 H1 H2 E1 E2. apply (sorted_same_start _ (m_sorted _ IM)); [exact H1|exact H2|].
    destruct (m_aligned _ IM w1 H1) as [[_ X1] _]. destruct (m_aligned _ IM w2 H2) as [[_ X2] _].
    rewrite (X1 e E1), (X2 e E2). reflexivity.
Qed.

End Manager.

(** every state the manager can reach *)
Lemma MInv_nil dur maxw : MInv dur maxw [].
Proof. constructor; [intros w []|constructor|cbn; lia]. Qed.

Theorem manager_reachable dur cap maxw : 0 < dur -> 1 <= cap -> 1 <= maxw ->
  forall es, MInv dur maxw (fold_left (process_event dur cap maxw) es []).
Proof.
  intros Hd Hc Hm es. assert (G : forall es ws, MInv dur maxw ws -> MInv dur maxw (fold_left (process_event dur cap maxw) es ws)).
  { induction es0 as [|e es0 IH]; intros ws I; cbn [fold_left]; [exact I|]. apply IH.
    apply (process_event_spec dur cap maxw Hd Hc Hm ws e I). }
  apply G. apply MInv_nil.
Qed.
