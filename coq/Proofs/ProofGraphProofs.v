(** C17 — proofs about Model/ProofGraph.v *)
From RRE Require Import Base.Sx Model.ProofGraph.
From Coq Require Import Lia.
Open Scope N_scope.

Lemma find_node_app_new ns n h :
  find_node ns h = None -> n_h n = h -> find_node (ns ++ [n]) h = Some n.
Proof.
  unfold find_node. intros Hn Hh. induction ns as [|m ns IH]; cbn in *.
  - rewrite Hh, N.eqb_refl. reflexivity.
  - destruct (N.eqb (n_h m) h); [discriminate|]. auto.
Qed.

Lemma find_node_upd ns n n' :
  find_node ns (n_h n') = Some n -> find_node (upd_node ns n') (n_h n') = Some n'.
Proof.
  unfold find_node, upd_node. induction ns as [|m ns IH]; cbn; [discriminate|].
  destruct (N.eqb (n_h m) (n_h n')) eqn:E.
  - intros _. cbn. rewrite N.eqb_refl. reflexivity.
  - intros H. cbn. rewrite E. auto.
Qed.

(** Re-proving makes a fact valid again, whatever happened before, and it is then reported
    proven under the key it was (re)inserted with. *)
Lemma insert_valid g h k ps :
  exists n, find_node (nodes (insert_proof g h k ps)) h = Some n /\ n_valid n = true
            /\ In ps (n_justs n).
Proof.
  unfold insert_proof. cbn [nodes].
  destruct (find_node (nodes g) h) as [n|] eqn:F.
  - eexists. split.
    + assert (Hh : n_h n = h).
      { unfold find_node in F. apply find_some in F. destruct F as [_ F]. apply N.eqb_eq in F. exact F. }
      pose proof (find_node_upd (nodes g) n
        {| n_h := h; n_key := n_key n; n_justs := n_justs n ++ [ps]; n_valid := true |}) as U.
      cbn [n_h] in U. apply U. exact F.
    + cbn. split; [reflexivity|]. apply in_or_app. right. left. reflexivity.
  - eexists. split.
    + apply find_node_app_new; [exact F|reflexivity].
    + cbn. split; [reflexivity|]. left. reflexivity.
Qed.

Lemma insert_proven g h k ps : is_proven (insert_proof g h k ps) k = true.
Proof.
  destruct (insert_valid g h k ps) as [n [Hf [Hv _]]].
  unfold is_proven. apply existsb_exists. exists (k, h). split.
  - unfold insert_proof. cbn [index]. apply in_or_app. right. left. reflexivity.
  - cbn [fst snd]. rewrite N.eqb_refl, Hf, Hv. reflexivity.
Qed.

(** Direct invalidation makes the handle's node invalid (until re-proved). *)
Lemma upd_node_find_other ns n' h : n_h n' <> h -> find_node (upd_node ns n') h = find_node ns h.
Proof.
  intros Hne. unfold find_node, upd_node. induction ns as [|m ns IH]; cbn; [reflexivity|].
  destruct (N.eqb (n_h m) (n_h n')) eqn:E.
  - apply N.eqb_eq in E. cbn.
    destruct (N.eqb (n_h n') h) eqn:E1; [apply N.eqb_eq in E1; contradiction|].
    destruct (N.eqb (n_h m) h) eqn:E2; [apply N.eqb_eq in E2; congruence|]. exact IH.
  - cbn. destruct (N.eqb (n_h m) h); [reflexivity|exact IH].
Qed.

(** propagate only ever lowers validity and shrinks justification lists: nothing becomes
    valid, and nothing gains a justification, through an invalidation *)
Definition node_le (a b : node) : Prop :=
  n_h a = n_h b /\ (n_valid a = true -> n_valid b = true) /\ incl (n_justs a) (n_justs b).

Definition nodes_le (xs ys : list node) : Prop :=
  forall h a, find_node xs h = Some a -> exists b, find_node ys h = Some b /\ node_le a b.

Lemma nodes_le_refl xs : nodes_le xs xs.
Proof. intros h a H. exists a. split; [exact H|]. repeat split; auto. apply incl_refl. Qed.

Lemma nodes_le_trans xs ys zs : nodes_le xs ys -> nodes_le ys zs -> nodes_le xs zs.
Proof.
  intros H1 H2 h a Ha. destruct (H1 h a Ha) as [b [Hb [E1 [V1 I1]]]].
  destruct (H2 h b Hb) as [c [Hc [E2 [V2 I2]]]]. exists c. split; [exact Hc|].
  repeat split; [congruence|auto|eapply incl_tran; eauto].
Qed.

Lemma find_node_h ns h n : find_node ns h = Some n -> n_h n = h.
Proof. unfold find_node. intros F. apply find_some in F. destruct F as [_ F]. apply N.eqb_eq in F. exact F. Qed.

Lemma upd_le ns n n' :
  find_node ns (n_h n') = Some n -> node_le n' n -> nodes_le (upd_node ns n') ns.
Proof.
  intros F Hle h a Ha.
  destruct (N.eq_dec (n_h n') h) as [E|E].
  - subst h. rewrite (find_node_upd ns n n' F) in Ha. inversion Ha; subst a. exists n. split; [exact F|exact Hle].
  - rewrite (upd_node_find_other ns n' h E) in Ha. exists a. split; [exact Ha|].
    repeat split; auto. apply incl_refl.
Qed.

Lemma propagate_le : forall fuel dp ns d p, nodes_le (propagate fuel dp ns d p) ns.
Proof.
  induction fuel as [|f IH]; intros dp ns d p; cbn [propagate]; [apply nodes_le_refl|].
  destruct (find_node ns d) as [n|] eqn:F; [|apply nodes_le_refl].
  set (js' := filter (fun J => negb (memN p J)) (n_justs n)).
  set (valid' := match js' with [] => false | _ => n_valid n end).
  set (n' := {| n_h := d; n_key := n_key n; n_justs := js'; n_valid := valid' |}).
  assert (L1 : nodes_le (upd_node ns n') ns).
  { apply (upd_le ns n n'); [exact F|].
    repeat split.
    - cbn. symmetry. eapply find_node_h; eauto.
    - cbn. unfold valid'. destruct js'; [discriminate|auto].
    - cbn. unfold js'. intros J HJ. apply filter_In in HJ. tauto. }
  destruct (negb (Nat.eqb (length js') (length (n_justs n))) && negb valid'); [|exact L1].
  assert (G : forall l xs, nodes_le xs ns -> nodes_le (fold_left (fun ns0 fd => propagate f dp ns0 fd d) l xs) ns).
  { induction l as [|x l IHl]; intros xs Hxs; cbn [fold_left]; [exact Hxs|].
    apply IHl. eapply nodes_le_trans; [apply IH|exact Hxs]. }
  apply G. exact L1.
Qed.

(** An invalidation never makes any node valid and never adds a justification. *)
Lemma invalidate_le g h : nodes_le (nodes (invalidate g h)) (nodes g).
Proof.
  unfold invalidate. cbn [nodes].
  set (ns0 := match find_node (nodes g) h with Some n => _ | None => nodes g end).
  assert (L0 : nodes_le ns0 (nodes g)).
  { unfold ns0. destruct (find_node (nodes g) h) as [n|] eqn:F; [|apply nodes_le_refl].
    eapply (upd_le (nodes g) n); [cbn; exact F|].
    repeat split; cbn; try discriminate.
    - symmetry. eapply find_node_h; eauto.
    - apply incl_refl. }
  generalize (deps_of (deps g) h). intros l.
  assert (G : forall l xs, nodes_le xs (nodes g) ->
     nodes_le (fold_left (fun ns d => propagate (S (total_justs ns0)) (deps g) ns d h) l xs) (nodes g)).
  { clear l. induction l as [|x l IHl]; intros xs Hxs; cbn [fold_left]; [exact Hxs|].
    apply IHl. eapply nodes_le_trans; [apply propagate_le|exact Hxs]. }
  apply G. exact L0.
Qed.

(** After a direct invalidation the handle's own node is invalid. *)
Lemma invalidate_self_invalid g h n :
  find_node (nodes (invalidate g h)) h = Some n -> n_valid n = false.
Proof.
  intros F. unfold invalidate in F. cbn [nodes] in F.
  set (ns0 := match find_node (nodes g) h with Some n => _ | None => nodes g end) in F.
  assert (L : nodes_le (fold_left (fun ns d => propagate (S (total_justs ns0)) (deps g) ns d h) (deps_of (deps g) h) ns0) ns0).
  { generalize (deps_of (deps g) h). intros l.
    assert (G : forall l xs, nodes_le xs ns0 ->
       nodes_le (fold_left (fun ns d => propagate (S (total_justs ns0)) (deps g) ns d h) l xs) ns0).
    { clear l. induction l as [|x l IHl]; intros xs Hxs; cbn [fold_left]; [exact Hxs|].
      apply IHl. eapply nodes_le_trans; [apply propagate_le|exact Hxs]. }
    apply G. apply nodes_le_refl. }
  destruct (L h n F) as [b [Hb [_ [Hv _]]]].
  destruct (n_valid n) eqn:E; [|reflexivity].
  specialize (Hv eq_refl).
  unfold ns0 in Hb. destruct (find_node (nodes g) h) as [m|] eqn:Fm.
  - pose proof (find_node_h _ _ _ Fm) as Hm.
    pose proof (find_node_upd (nodes g) m {| n_h := h; n_key := n_key m; n_justs := n_justs m; n_valid := false |}) as U.
    cbn [n_h] in U. rewrite (U Fm) in Hb. inversion Hb; subst b. cbn in Hv. discriminate.
  - congruence.
Qed.
