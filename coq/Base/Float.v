(** IEEE-754 binary64 as used by Rust's f64, on top of the axiom-free Coq.Floats.SpecFloat
    (prec = 53, emax = 1024).  Floats cross the wire as their 64-bit patterns.
    Definitions only. *)
From Coq Require Import ZArith NArith Bool List.
From Coq Require Import Floats.SpecFloat.
Open Scope Z_scope.

Definition prec := 53.
Definition emax := 1024.

Definition f64 := spec_float.

Definition f_of_bits (b : Z) : f64 :=
  let s := Z.testbit b 63 in
  let ef := (b / 2^52) mod 2^11 in
  let mf := b mod 2^52 in
  if ef =? 0 then
    match mf with Zpos m => S754_finite s m (-1074) | _ => S754_zero s end
  else if ef =? 2047 then
    (if mf =? 0 then S754_infinity s else S754_nan)
  else match mf + 2^52 with Zpos m => S754_finite s m (ef - 1075) | _ => S754_nan end.

(** canonical quiet NaN of Rust on x86-64/aarch64 for arithmetic results: 0x7ff8000000000000 *)
Definition nan_bits : Z := 9221120237041090560.

Definition bits_of_f (f : f64) : Z :=
  match f with
  | S754_zero s => if s then 2^63 else 0
  | S754_infinity s => (if s then 2^63 else 0) + 2047 * 2^52
  | S754_nan => nan_bits
  | S754_finite s m e =>
      (if s then 2^63 else 0) +
      (if Zpos m <? 2^52 then Zpos m else (Zpos m - 2^52) + (e + 1075) * 2^52)
  end.

Definition fadd : f64 -> f64 -> f64 := SFadd prec emax.
Definition fsub : f64 -> f64 -> f64 := SFsub prec emax.
Definition fmul : f64 -> f64 -> f64 := SFmul prec emax.
Definition fdiv : f64 -> f64 -> f64 := SFdiv prec emax.
Definition feqb : f64 -> f64 -> bool := SFeqb.
Definition fltb : f64 -> f64 -> bool := SFltb.
Definition fleb : f64 -> f64 -> bool := SFleb.
Definition is_nan (f : f64) : bool := match f with S754_nan => true | _ => false end.

(** i64 as f64 / usize as f64: round to nearest, ties to even *)
Definition f_of_Z (z : Z) : f64 := binary_normalize prec emax z 0 false.

Definition fzero : f64 := S754_zero false.

(** f64::min / f64::max (IEEE minNum/maxNum: a NaN operand is ignored) on operands that are
    not zeros of opposite sign (the harness never produces those for min/max) *)
Definition fmin (a b : f64) : f64 :=
  if is_nan a then b else if is_nan b then a else if fltb b a then b else a.
Definition fmax (a b : f64) : f64 :=
  if is_nan a then b else if is_nan b then a else if fltb a b then b else a.
