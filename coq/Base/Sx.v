(** S-expressions: the wire format shared by the Rust harness, the extracted
    model runner and the in-Coq evaluation of cases.  Definitions only. *)
From Coq Require Export List ZArith NArith Bool.
Export ListNotations.
Open Scope Z_scope.

Inductive sx : Type :=
| A (z : Z)
| L (l : list sx).

Definition sxN (n : N) : sx := A (Z.of_N n).
Definition sxB (b : bool) : sx := A (if b then 1 else 0).
Definition sxNs (l : list N) : sx := L (map sxN l).
Definition sxZs (l : list Z) : sx := L (map A l).
Definition sxO {T} (f : T -> sx) (o : option T) : sx :=
  match o with None => L [] | Some x => L [f x] end.

Definition getZ (s : sx) : option Z := match s with A z => Some z | L _ => None end.
Definition getN (s : sx) : option N :=
  match s with A z => if Z.ltb z 0 then None else Some (Z.to_N z) | L _ => None end.
Definition getB (s : sx) : option bool :=
  match s with A 0 => Some false | A 1 => Some true | _ => None end.
Definition getL (s : sx) : option (list sx) := match s with L l => Some l | A _ => None end.

Fixpoint mapO {X Y} (f : X -> option Y) (l : list X) : option (list Y) :=
  match l with
  | [] => Some []
  | x :: r => match f x, mapO f r with
              | Some y, Some ys => Some (y :: ys)
              | _, _ => None
              end
  end.

Definition getNs (s : sx) : option (list N) :=
  match s with L l => mapO getN l | A _ => None end.
Definition getZs (s : sx) : option (list Z) :=
  match s with L l => mapO getZ l | A _ => None end.

(** Marker returned by every [run_sx] on an undecodable case.  The harness never
    produces such a case; the runner reports it loudly. *)
Definition sx_bad : sx := L [A (-999)].

Fixpoint sx_eqb (a b : sx) {struct a} : bool :=
  match a, b with
  | A x, A y => Z.eqb x y
  | L l, L m =>
      (fix go (l m : list sx) : bool :=
         match l, m with
         | [], [] => true
         | x :: l', y :: m' => sx_eqb x y && go l' m'
         | _, _ => false
         end) l m
  | _, _ => false
  end.

(** small list utilities used by several models *)
Fixpoint memN (x : N) (l : list N) : bool :=
  match l with [] => false | y :: r => N.eqb x y || memN x r end.
Fixpoint nodupN (l : list N) : bool :=
  match l with [] => true | x :: r => negb (memN x r) && nodupN r end.
Definition lenN {T} (l : list T) : N := N.of_nat (length l).
