(** Number parsing and conversions as performed by Rust's std on the paths the engine uses:
    str::parse::<i64>, str::parse::<f64> (correctly rounded decimal -> binary64), f64 % f64 (fmod),
    f64 as i64 (saturating), f64::fract() == 0.0.   Strings are lists of code points.
    Definitions only; everything is computable and axiom-free (Coq.Floats.SpecFloat). *)
From Coq Require Import ZArith List Bool.
From Coq Require Import Floats.SpecFloat.
From RRE Require Import Base.Float.
Import ListNotations.
Open Scope Z_scope.

Definition str := list Z.

Definition is_digit (c : Z) : bool := (48 <=? c) && (c <=? 57).

(** digits -> (value, count); None if a non-digit occurs or the list is empty *)
Fixpoint digits_val (l : str) (acc : Z) : Z := match l with [] => acc | c :: r => digits_val r (acc * 10 + (c - 48)) end.
Definition all_digits (l : str) : bool := match l with [] => false | _ => forallb is_digit l end.

(** str::parse::<i64> : optional sign, at least one digit, no overflow *)
Definition parse_i64 (s : str) : option Z :=
  let '(neg, body) := match s with 45 :: r => (true, r) | 43 :: r => (false, r) | _ => (false, s) end in
  if all_digits body then
    let v := digits_val body 0 in
    let v := if neg then - v else v in
    if (- 2^63 <=? v) && (v <=? 2^63 - 1) then Some v else None
  else None.

(** correctly rounded (nearest-even) conversion of the rational num/den (num >= 0, den > 0) to binary64 *)
Definition f_of_ratio (neg : bool) (num den : Z) : f64 :=
  if num =? 0 then S754_zero neg
  else
    (* scale so that the quotient has at least 64 significant bits, keep a sticky location *)
    let s := Z.max 0 (64 + Z.log2 den - Z.log2 num) in
    let q := (num * 2 ^ s) / den in
    let r := (num * 2 ^ s) mod den in
    let loc := if r =? 0 then loc_Exact else loc_Inexact (Z.compare (2 * r) den) in
    binary_round_aux prec emax neg q (- s) loc.

Fixpoint take_digits (l : str) : str * str :=
  match l with c :: r => if is_digit c then let '(d, rest) := take_digits r in (c :: d, rest) else ([], l) | [] => ([], []) end.

Definition lower (c : Z) : Z := if (65 <=? c) && (c <=? 90) then c + 32 else c.
Fixpoint str_eqb (a b : str) : bool :=
  match a, b with [], [] => true | x :: a', y :: b' => (x =? y) && str_eqb a' b' | _, _ => false end.

(** str::parse::<f64> *)
Definition parse_f64 (s : str) : option f64 :=
  let '(neg, body) := match s with 45 :: r => (true, r) | 43 :: r => (false, r) | _ => (false, s) end in
  let lb := map lower body in
  if str_eqb lb [105; 110; 102] || str_eqb lb [105; 110; 102; 105; 110; 105; 116; 121] then Some (S754_infinity neg)
  else if str_eqb lb [110; 97; 110] then Some S754_nan
  else
    let '(ip, rest1) := take_digits body in
    let '(fp, rest2) := match rest1 with 46 :: r => take_digits r | _ => ([], rest1) end in
    let had_dot := match rest1 with 46 :: _ => true | _ => false end in
    match ip, fp with
    | [], [] => None                               (* no digits at all ("." / "" / "e5") *)
    | _, _ =>
        let exp_part :=
          match rest2 with
          | [] => Some 0
          | c :: r => if (c =? 101) || (c =? 69) then
                        let '(eneg, eb) := match r with 45 :: r' => (true, r') | 43 :: r' => (false, r') | _ => (false, r) end in
                        if all_digits eb then Some (if eneg then - digits_val eb 0 else digits_val eb 0) else None
                      else None
          end in
        match exp_part with
        | None => None
        | Some e10 =>
            let mant := digits_val (ip ++ fp) 0 in
            let k := e10 - Z.of_nat (length fp) in
            (* clamp absurd exponents: the result is then 0 or infinity anyway *)
            let k := Z.max (-1500) (Z.min 1500 k) in
            Some (if 0 <=? k then f_of_ratio neg (mant * 10 ^ k) 1 else f_of_ratio neg mant (10 ^ (- k)))
        end
    end.

(** f64 % f64 (C fmod): exact *)
Definition ffmod (x y : f64) : f64 :=
  match x, y with
  | S754_nan, _ | _, S754_nan => S754_nan
  | S754_infinity _, _ => S754_nan
  | _, S754_zero _ => S754_nan
  | S754_zero s, _ => S754_zero s
  | _, S754_infinity _ => x
  | S754_finite sx mx ex, S754_finite _ my ey =>
      let e := Z.min ex ey in
      let X := Zpos mx * 2 ^ (ex - e) in
      let Y := Zpos my * 2 ^ (ey - e) in
      let r := X mod Y in
      if r =? 0 then S754_zero sx else binary_normalize prec emax (if sx then - r else r) e sx
  end.

(** result.fract() == 0.0 : finite with an integral value (false for NaN and infinities) *)
Definition is_whole (x : f64) : bool :=
  match x with
  | S754_zero _ => true
  | S754_finite _ m e => if 0 <=? e then true else (Zpos m mod 2 ^ (- e) =? 0)
  | _ => false
  end.

(** f64 as i64 : truncation toward zero, saturating, NaN -> 0 *)
Definition f_to_i64 (x : f64) : Z :=
  match x with
  | S754_zero _ | S754_nan => 0
  | S754_infinity s => if s then - 2^63 else 2^63 - 1
  | S754_finite s m e =>
      let mag := if 0 <=? e then Zpos m * 2 ^ e else Zpos m / 2 ^ (- e) in
      let v := if s then - mag else mag in
      Z.max (- 2^63) (Z.min (2^63 - 1) v)
  end.

(** i64 printed by Display (for building expression strings) *)
Fixpoint pos_digits (fuel : nat) (z : Z) (acc : str) : str :=
  match fuel with
  | O => acc
  | S f => if z <? 10 then (48 + z) :: acc else pos_digits f (z / 10) ((48 + z mod 10) :: acc)
  end.
Definition show_Z (z : Z) : str := if z <? 0 then 45 :: pos_digits 25 (- z) [] else pos_digits 25 z [].
