(** C05 — model of src/backward/expression.rs::ExpressionParser (the recursive-descent parser of backward-chaining
    query expressions, also reached through QueryParser and GRLQuery).  Definitions only.

    Rust items modelled: ExpressionParser::{parse, parse_expression, parse_and_expression, parse_comparison,
      parse_primary, consume_field_path, consume_identifier, try_parse_literal, peek_char, consume_char,
      peek_operator, consume_operator, peek_word, consume_word, skip_whitespace}.
    The parser works on a Vec<char> with an index [position].  Every index expression of the code is kept with its
    guard: input[position] (peek_char, guarded by position < len), input[position..] (peek_operator / peek_word: panics
    iff position > len), input[next_pos] (peek_word, guarded).  A failed guard is the result [Panic].
    The loops that only call peek_char / consume_char (skip_whitespace, the scanners of identifiers, strings and numbers)
    are modelled on the suffix skipn position input; recursion and the || / && loops run on explicit fuel ([Fuel] when
    exhausted).  char::is_alphanumeric / is_numeric / is_whitespace are parameters (the theorems hold for every
    classification; the correspondence check uses the exact tables for ASCII and a few listed code points). *)
From RRE Require Import Base.Sx Base.Float Base.Num.
Open Scope Z_scope.

Inductive cop := CEq | CNe | CGe | CLe | CGt | CLt.
Inductive lit := LBool (b : bool) | LNull | LStr (s : str) | LNum (x : f64).
Inductive bexp := EField (s : str) | ELit (v : lit) | EVar (s : str) | ECmp (l : bexp) (o : cop) (r : bexp)
                | EAnd (l r : bexp) | EOr (l r : bexp) | ENot (e : bexp).

Inductive res (T : Type) := Ok (x : T) (pos : nat) | Err (pos : nat) | Panic | Fuel.
Arguments Ok {T}. Arguments Err {T}. Arguments Panic {T}. Arguments Fuel {T}.

Section Parser.
Variables is_alnum is_num is_ws : Z -> bool.
Variable inp : list Z.
Definition len : nat := length inp.

Inductive pk := PNone | PSome (c : Z) | PPanic.
(** peek_char: `if self.position < self.input.len() { Some(self.input[self.position]) }` *)
Definition peek (pos : nat) : pk :=
  if Nat.ltb pos len then match nth_error inp pos with Some c => PSome c | None => PPanic end else PNone.
(** consume_char *)
Definition consume (pos : nat) : nat := if Nat.ltb pos len then S pos else pos.
Fixpoint consume_n (n : nat) (pos : nat) : nat := match n with O => pos | S k => consume_n k (consume pos) end.

(** length of the longest prefix whose characters satisfy p *)
Fixpoint span (p : Z -> bool) (s : list Z) : nat := match s with c :: r => if p c then S (span p r) else O | [] => O end.
(** skip_whitespace *)
Definition skip_ws (pos : nat) : nat := (pos + span is_ws (skipn pos inp))%nat.

Fixpoint starts (s p : list Z) : bool :=
  match p, s with [], _ => true | x :: p', y :: s' => (x =? y) && starts s' p' | _ :: _, [] => false end.

(** peek_operator: skip_whitespace; input[position..] starts_with op.  Returns the new position too. *)
Definition peek_op (pos : nat) (op : list Z) : res bool :=
  let p := skip_ws pos in
  if Nat.ltb len p then Panic else Ok (starts (skipn p inp) op) p.
(** consume_operator: skip_whitespace; op.len() times consume_char *)
Definition consume_op (pos : nat) (op : list Z) : nat := consume_n (length op) (skip_ws pos).

Definition wordch (c : Z) : bool := is_alnum c || (c =? 95).
(** peek_word *)
Definition peek_word (pos : nat) (w : list Z) : res bool :=
  let p := skip_ws pos in
  if Nat.ltb len p then Panic
  else if starts (skipn p inp) w then
         let np := (p + length w)%nat in
         if Nat.leb len np then Ok true p
         else match nth_error inp np with Some c => Ok (negb (wordch c)) p | None => Panic end
       else Ok false p.
(** consume_word: skip_whitespace; if peek_word { consume word.len() chars } *)
Definition consume_word (pos : nat) (w : list Z) : res unit :=
  match peek_word pos w with
  | Ok true p => Ok tt (consume_n (length w) p)
  | Ok false p => Ok tt p
  | Err p => Err p | Panic => Panic | Fuel => Fuel end.

(** the string scanner: returns the content and the number of characters consumed after the opening quote, or None
    when the input ends first *)
Fixpoint scan_string (s : list Z) (escaped : bool) (acc : str) (n : nat) : option (str * nat) :=
  match s with
  | [] => None
  | c :: r =>
      if escaped then
        let e := if c =? 110 then 10 else if c =? 116 then 9 else if c =? 114 then 13 else c in
        scan_string r false (acc ++ [e]) (S n)
      else if c =? 92 then scan_string r true acc (S n)
      else if c =? 34 then Some (acc, S n)
      else scan_string r false (acc ++ [c]) (S n)
  end.

(** the number scanner: digits, one '.', a leading '-' *)
Fixpoint scan_number (s : list Z) (acc : str) (has_dot : bool) : str * bool :=
  match s with
  | [] => (acc, has_dot)
  | c :: r =>
      if is_num c then scan_number r (acc ++ [c]) has_dot
      else if (c =? 46) && negb has_dot then scan_number r (acc ++ [c]) true
      else if (c =? 45) && match acc with [] => true | _ => false end then scan_number r (acc ++ [c]) has_dot
      else (acc, has_dot)
  end.

Definition w_true : list Z := [116; 114; 117; 101].
Definition w_false : list Z := [102; 97; 108; 115; 101].
Definition w_null : list Z := [110; 117; 108; 108].

(** try_parse_literal *)
Definition try_literal (pos : nat) : res (option lit) :=
  let p0 := skip_ws pos in
  match peek_word p0 w_true with
  | Panic => Panic | Fuel => Fuel | Err p => Err p
  | Ok true p => match consume_word p w_true with Ok _ q => Ok (Some (LBool true)) q | Err q => Err q | Panic => Panic | Fuel => Fuel end
  | Ok false p =>
  match peek_word p w_false with
  | Panic => Panic | Fuel => Fuel | Err p => Err p
  | Ok true p => match consume_word p w_false with Ok _ q => Ok (Some (LBool false)) q | Err q => Err q | Panic => Panic | Fuel => Fuel end
  | Ok false p =>
  match peek_word p w_null with
  | Panic => Panic | Fuel => Fuel | Err p => Err p
  | Ok true p => match consume_word p w_null with Ok _ q => Ok (Some LNull) q | Err q => Err q | Panic => Panic | Fuel => Fuel end
  | Ok false p =>
  match peek p with
  | PPanic => Panic
  | PSome 34 =>
      match scan_string (skipn (S p) inp) false [] O with
      | Some (s, n) => Ok (Some (LStr s)) (S p + n)%nat
      | None => Err len
      end
  | PSome c =>
      if is_num c || (c =? 45) then
        let '(num, has_dot) := scan_number (skipn p inp) [] false in
        let q := (p + length num)%nat in
        let parsed := if match num with [] => true | [45] => true | _ => false end then None
                      else if has_dot then parse_f64 num
                      else match parse_i64 num with Some z => Some (f_of_Z z) | None => None end in
        match parsed with Some x => Ok (Some (LNum x)) q | None => Ok None p end
      else Ok None p
  | PNone => Ok None p
  end end end end.

Definition fieldch (c : Z) : bool := is_alnum c || (c =? 95) || (c =? 46).
Definition field_path (pos : nat) : res str :=
  let n := span fieldch (skipn pos inp) in
  match n with O => Err pos | _ => Ok (firstn n (skipn pos inp)) (pos + n)%nat end.
Definition identifier (pos : nat) : res str :=
  let n := span wordch (skipn pos inp) in
  match n with O => Err pos | _ => Ok (firstn n (skipn pos inp)) (pos + n)%nat end.

Definition cmp_ops : list (list Z * cop) :=
  [([61; 61], CEq); ([33; 61], CNe); ([62; 61], CGe); ([60; 61], CLe); ([62], CGt); ([60], CLt)].

(** the chain of `if self.peek_operator(..)` of parse_comparison: first operator that matches, with the position after
    the last peek *)
Fixpoint find_cmp (ops : list (list Z * cop)) (pos : nat) : res (option (list Z * cop)) :=
  match ops with
  | [] => Ok None pos
  | (t, o) :: r => match peek_op pos t with
                   | Ok true p => Ok (Some (t, o)) p
                   | Ok false p => find_cmp r p
                   | Err p => Err p | Panic => Panic | Fuel => Fuel end
  end.

Definition op_or : list Z := [124; 124].
Definition op_and : list Z := [38; 38].

Fixpoint p_expr (fuel : nat) (pos : nat) {struct fuel} : res bexp :=
  match fuel with O => Fuel | S f =>
    match p_and f pos with Ok l p => or_loop f l p | e => e end end
with or_loop (fuel : nat) (left : bexp) (pos : nat) {struct fuel} : res bexp :=
  match fuel with O => Fuel | S f =>
    match peek_op pos op_or with
    | Ok true p => match p_and f (consume_op p op_or) with Ok r q => or_loop f (EOr left r) q | e => e end
    | Ok false p => Ok left p
    | Err p => Err p | Panic => Panic | Fuel => Fuel end end
with p_and (fuel : nat) (pos : nat) {struct fuel} : res bexp :=
  match fuel with O => Fuel | S f =>
    match p_cmp f pos with Ok l p => and_loop f l p | e => e end end
with and_loop (fuel : nat) (left : bexp) (pos : nat) {struct fuel} : res bexp :=
  match fuel with O => Fuel | S f =>
    match peek_op pos op_and with
    | Ok true p => match p_cmp f (consume_op p op_and) with Ok r q => and_loop f (EAnd left r) q | e => e end
    | Ok false p => Ok left p
    | Err p => Err p | Panic => Panic | Fuel => Fuel end end
with p_cmp (fuel : nat) (pos : nat) {struct fuel} : res bexp :=
  match fuel with O => Fuel | S f =>
    match p_prim f pos with
    | Ok l p =>
        match find_cmp cmp_ops p with
        | Ok (Some (t, o)) q => match p_prim f (consume_op q t) with Ok r q2 => Ok (ECmp l o r) q2 | e => e end
        | Ok None q => Ok l q
        | Err q => Err q | Panic => Panic | Fuel => Fuel end
    | e => e end end
with p_prim (fuel : nat) (pos : nat) {struct fuel} : res bexp :=
  match fuel with O => Fuel | S f =>
    let p := skip_ws pos in
    match peek p with
    | PPanic => Panic
    | PSome 33 => match p_prim f (consume p) with Ok e q => Ok (ENot e) q | e => e end
    | PSome 40 =>
        match p_expr f (consume p) with
        | Ok e q => let q1 := skip_ws q in
                    match peek q1 with PSome 41 => Ok e (consume q1) | PPanic => Panic | _ => Err q1 end
        | e => e end
    | PSome 63 => match identifier (consume p) with Ok n q => Ok (EVar (63 :: n)) q | Err q => Err q | Panic => Panic | Fuel => Fuel end
    | _ =>
        match try_literal p with
        | Ok (Some v) q => Ok (ELit v) q
        | Ok None q => match field_path q with Ok s q2 => Ok (EField s) q2 | Err q2 => Err q2 | Panic => Panic | Fuel => Fuel end
        | Err q => Err q | Panic => Panic | Fuel => Fuel end
    end end.

Definition fuel_for : nat := (6 * len + 8)%nat.
End Parser.

(** str::trim (char::is_whitespace at both ends), then parse_expression from position 0 *)
Definition trim_with (is_ws : Z -> bool) (s : list Z) : list Z :=
  let d := skipn (span is_ws s) s in rev (skipn (span is_ws (rev d)) (rev d)).
Definition parse (is_alnum is_num is_ws : Z -> bool) (s : list Z) : res bexp :=
  let t := trim_with is_ws s in p_expr is_alnum is_num is_ws t (fuel_for t) O.

(** ---------- wire: AST encoding and the character tables used by the correspondence check ---------- *)
Definition enc_str (s : str) : sx := L (map A s).
Definition enc_lit (v : lit) : sx :=
  match v with LBool b => L [A 0; sxB b] | LNull => L [A 1] | LStr s => L [A 2; enc_str s] | LNum x => L [A 3; A (bits_of_f x)] end.
Definition cop_code (o : cop) : Z := match o with CEq => 0 | CNe => 1 | CGe => 2 | CLe => 3 | CGt => 4 | CLt => 5 end.
Fixpoint enc_bexp (e : bexp) : sx :=
  match e with
  | EField s => L [A 0; enc_str s] | ELit v => L [A 1; enc_lit v] | EVar s => L [A 2; enc_str s]
  | ECmp l o r => L [A 3; enc_bexp l; A (cop_code o); enc_bexp r]
  | EAnd l r => L [A 4; enc_bexp l; enc_bexp r] | EOr l r => L [A 5; enc_bexp l; enc_bexp r] | ENot x => L [A 6; enc_bexp x] end.
Definition enc_pres (r : res bexp) : sx :=
  match r with Ok e _ => L [A 0; L [enc_bexp e]] | Err _ => L [A 1; L []] | Panic => L [A 2; L []] | Fuel => L [A 4; L []] end.

(** char::is_whitespace (exact) *)
Definition t_ws (c : Z) : bool :=
  (c =? 32) || ((9 <=? c) && (c <=? 13)) || (c =? 133) || (c =? 160) || (c =? 5760)
  || ((8192 <=? c) && (c <=? 8202)) || (c =? 8232) || (c =? 8233) || (c =? 8239) || (c =? 8287) || (c =? 12288).
Definition memz (c : Z) (l : list Z) : bool := existsb (Z.eqb c) l.
(** non-ASCII code points whose classes are listed here (everything else non-ASCII: no prediction):
    letters; decimal digit U+0663; other numeric U+00BD; neither *)
Definition x_letters : list Z := [233; 223; 220; 252; 304; 8490; 570; 7838; 912; 64257].
Definition x_digits : list Z := [1635; 189].
Definition x_other : list Z := [128165; 133; 160; 12288].
Definition ascii_alnum (c : Z) : bool := ((48 <=? c) && (c <=? 57)) || ((65 <=? c) && (c <=? 90)) || ((97 <=? c) && (c <=? 122)).
Definition t_num (c : Z) : bool := ((48 <=? c) && (c <=? 57)) || memz c x_digits.
Definition t_alnum (c : Z) : bool := ascii_alnum c || memz c x_letters || memz c x_digits.
Definition supported (c : Z) : bool := ((0 <=? c) && (c <? 128)) || memz c x_letters || memz c x_digits || memz c x_other.

Definition run_text (s : str) : sx :=
  if forallb supported s then enc_pres (parse t_alnum t_num t_ws s) else L [A (-998)].

(** QueryParser::parse (src/backward/query.rs): empty query -> Err; trim; an optional leading "NOT " (negated goal);
    the rest through ExpressionParser::parse *)
Definition w_not : list Z := [78; 79; 84; 32].
Definition query_parse (is_alnum is_num is_ws : Z -> bool) (s : list Z) : res (bool * bexp) :=
  match s with
  | [] => Err O
  | _ => let t := trim_with is_ws s in
         let '(neg, q) := if starts t w_not then (true, skipn 4 t) else (false, t) in
         match parse is_alnum is_num is_ws q with
         | Ok e p => Ok (neg, e) p | Err p => Err p | Panic => Panic | Fuel => Fuel end
  end.
Definition enc_qres (r : res (bool * bexp)) : sx :=
  match r with Ok (n, e) _ => L [A 0; L [L [sxB n; enc_bexp e]]] | Err _ => L [A 1; L []] | Panic => L [A 2; L []] | Fuel => L [A 4; L []] end.
Definition run_query_text (s : str) : sx :=
  if forallb supported s then enc_qres (query_parse t_alnum t_num t_ws s) else L [A (-998)].
