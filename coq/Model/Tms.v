(** C08 — model of src/rete/tms.rs and the TMS glue of src/rete/propagation.rs / working_memory.rs.
    Definitions only.

    Rust items modelled:
      tms.rs::Justification::is_valid
      tms.rs::TruthMaintenanceSystem::{add_explicit_justification, add_logical_justification,
           is_logical, is_explicit, has_valid_justification, retract_with_cascade}
      propagation.rs::IncrementalEngine::{insert_explicit, insert_logical, retract}   (TMS/working-memory part)
      working_memory.rs::WorkingMemory::{insert, retract, get}                       (liveness part)
    Abstraction: the three index maps of the TMS (justifications by id, fact_justifications,
    fact_dependents) are kept consistent by the two add_* functions (nothing else writes them on the
    engine's paths), so the model keeps ONE list of justifications in id order and derives
    "justifications of h" (same order) and "dependents of h" (one entry per premise occurrence, in
    id order, as the pushes happen) from it.  Fact data, types and rule propagation are irrelevant to
    C08 and are left out. *)
From RRE Require Import Base.Sx.
Open Scope N_scope.

Record just := { jconcl : N; jexplicit : bool; jprems : list N }.

Record eng := {
  wm : list (N * bool);     (* handle, retracted flag; insertion order *)
  next_id : N;              (* WorkingMemory.next_id *)
  justs : list just;        (* all justifications, id order *)
  logical : list N;         (* logical_facts (set) *)
  explicit_ : list N;       (* explicit_facts (set) *)
  retracted : list N        (* retracted_facts (set) *)
}.

Definition init : eng :=
  {| wm := []; next_id := 1; justs := []; logical := []; explicit_ := []; retracted := [] |}.

Definition remN (x : N) (l : list N) : list N := filter (fun y => negb (N.eqb x y)) l.
Definition addN (x : N) (l : list N) : list N := if memN x l then l else l ++ [x].

(** Justification::is_valid *)
Definition jvalid (ret : list N) (j : just) : bool :=
  jexplicit j || negb (existsb (fun p => memN p ret) (jprems j)).

(** has_valid_justification *)
Definition has_valid (js : list just) (ret : list N) (h : N) : bool :=
  existsb (fun j => N.eqb (jconcl j) h && jvalid ret j) js.

(** fact_dependents[x]: conclusions of the justifications that have x as a premise,
    one entry per occurrence *)
Definition dependents (js : list just) (x : N) : list N :=
  flat_map (fun j => map (fun _ => jconcl j) (filter (N.eqb x) (jprems j))) js.

(** WorkingMemory::get(h).is_some() *)
Definition live (w : list (N * bool)) (h : N) : bool :=
  existsb (fun e => N.eqb (fst e) h && negb (snd e)) w.

Definition wm_retract (w : list (N * bool)) (h : N) : list (N * bool) :=
  map (fun e => if N.eqb (fst e) h then (fst e, true) else e) w.

(** retract_with_cascade.  State threaded: (retracted, logical, explicit).  Returns the cascade
    list and an out-of-fuel flag.  [fuel] bounds the recursion depth. *)
Record tset := { t_ret : list N; t_log : list N; t_exp : list N }.

Fixpoint cascade (fuel : nat) (js : list just) (x : N) (t : tset) : tset * list N * bool :=
  match fuel with
  | O => (t, [], true)
  | S f =>
      let t1 := {| t_ret := addN x (t_ret t); t_log := remN x (t_log t); t_exp := remN x (t_exp t) |} in
      (fix loop (ds : list N) (t : tset) (acc : list N) (oof : bool) : tset * list N * bool :=
         match ds with
         | [] => (t, acc, oof)
         | d :: r =>
             if has_valid js (t_ret t) d then loop r t acc oof
             else if memN d (t_ret t) then loop r t acc oof
             else
               let '(t', l, o) := cascade f js d t in
               loop r t' (acc ++ d :: l) (oof || o)
         end) (dependents js x) t1 [] false
  end.

Inductive op :=
| InsExplicit
| InsLogical (prems : list N)
| AddJust (h : N) (prems : list N)     (* tms_mut().add_logical_justification(h, _, prems) *)
| Retract (h : N).

(** result of an op: handle issued, Ok (1) / Err (0) for retract *)
Definition fuel_of (e : eng) : nat := S (S (length (wm e)) + length (justs e)).

Definition step (e : eng) (o : op) : eng * N * bool :=
  match o with
  | InsExplicit =>
      let h := next_id e in
      ({| wm := wm e ++ [(h, false)]; next_id := h + 1;
          justs := justs e ++ [{| jconcl := h; jexplicit := true; jprems := [] |}];
          logical := logical e; explicit_ := addN h (explicit_ e); retracted := retracted e |}, h, false)
  | InsLogical ps =>
      let h := next_id e in
      ({| wm := wm e ++ [(h, false)]; next_id := h + 1;
          justs := justs e ++ [{| jconcl := h; jexplicit := false; jprems := ps |}];
          logical := addN h (logical e); explicit_ := explicit_ e; retracted := retracted e |}, h, false)
  | AddJust h ps =>
      ({| wm := wm e; next_id := next_id e;
          justs := justs e ++ [{| jconcl := h; jexplicit := false; jprems := ps |}];
          logical := addN h (logical e); explicit_ := explicit_ e; retracted := retracted e |}, 1, false)
  | Retract h =>
      if live (wm e) h then
        let w1 := wm_retract (wm e) h in
        let '(t, casc, oof) := cascade (fuel_of e) (justs e) h
                                 {| t_ret := retracted e; t_log := logical e; t_exp := explicit_ e |} in
        let w2 := fold_left (fun w c => if live w c then wm_retract w c else w) casc w1 in
        ({| wm := w2; next_id := next_id e; justs := justs e;
            logical := t_log t; explicit_ := t_exp t; retracted := t_ret t |}, 1, oof)
      else (e, 0, false)
  end.

(** ------------------------------------------------------------------ *)
(** Observation after each op *)
Record hobs := { h_live : bool; h_logical : bool; h_explicit : bool; h_valid : bool }.
Record obs := { o_res : N; o_handles : list hobs }.

Fixpoint handles_upto (n : nat) (from : N) : list N :=
  match n with O => [] | S k => from :: handles_upto k (from + 1) end.

Definition all_handles (e : eng) : list N := handles_upto (N.to_nat (next_id e - 1)) 1.

Definition observe (e : eng) (res : N) : obs :=
  {| o_res := res;
     o_handles := map (fun h => {| h_live := live (wm e) h; h_logical := memN h (logical e);
                                   h_explicit := memN h (explicit_ e);
                                   h_valid := has_valid (justs e) (retracted e) h |}) (all_handles e) |}.

Fixpoint run_from (e : eng) (ops : list op) : list obs :=
  match ops with
  | [] => []
  | o :: r => let '(e', res, oof) := step e o in
              (if oof then {| o_res := 999; o_handles := [] |} else observe e' res) :: run_from e' r
  end.

Definition run (ops : list op) : list obs := run_from init ops.

(** ------------------------------------------------------------------ *)
(** Abstract specification (the property's own vocabulary), executable.
    A fact record: handle, explicit?, its justifications (premise lists), present?, targeted? *)
Record sfact := { s_h : N; s_explicit : bool; s_justs : list (list N); s_present : bool; s_targeted : bool }.

Definition spresent (fs : list sfact) (h : N) : bool :=
  existsb (fun f => N.eqb (s_h f) h && s_present f) fs.

(** supported relative to a set R of facts being removed *)
Definition supported_wo (fs : list sfact) (R : list N) (f : sfact) : bool :=
  existsb (fun J => forallb (fun p => spresent fs p && negb (memN p R)) J) (s_justs f).

(** one round of "loss of support" *)
Definition lose_round (fs : list sfact) (R : list N) : list N :=
  fold_left (fun R f =>
      if s_present f && negb (s_explicit f) && negb (memN (s_h f) R) && negb (supported_wo fs R f)
      then R ++ [s_h f] else R) fs R.

Fixpoint lose_iter (n : nat) (fs : list sfact) (R : list N) : list N :=
  match n with O => R | S k => lose_iter k fs (lose_round fs R) end.

(** the least set closed under loss of support that contains h *)
Definition removed_by (fs : list sfact) (h : N) : list N := lose_iter (S (length fs)) fs [h].

Definition sstep (fs : list sfact) (nxt : N) (o : op) : list sfact * N :=
  match o with
  | InsExplicit => (fs ++ [{| s_h := nxt; s_explicit := true; s_justs := []; s_present := true; s_targeted := false |}], nxt + 1)
  | InsLogical ps => (fs ++ [{| s_h := nxt; s_explicit := false; s_justs := [ps]; s_present := true; s_targeted := false |}], nxt + 1)
  | AddJust h ps =>
      (map (fun f => if N.eqb (s_h f) h
                     then {| s_h := s_h f; s_explicit := s_explicit f; s_justs := s_justs f ++ [ps];
                             s_present := s_present f; s_targeted := s_targeted f |} else f) fs, nxt)
  | Retract h =>
      if spresent fs h then
        let R := removed_by fs h in
        (map (fun f => if memN (s_h f) R
                       then {| s_h := s_h f; s_explicit := s_explicit f; s_justs := s_justs f;
                               s_present := false; s_targeted := s_targeted f || N.eqb (s_h f) h |} else f) fs, nxt)
      else (fs, nxt)
  end.

(** side conditions of the property's quantifier: premises are live when recorded; extra
    justifications are given only to present, logically inserted facts *)
Definition op_wf (fs : list sfact) (o : op) : bool :=
  match o with
  | InsExplicit => true
  | InsLogical ps => forallb (spresent fs) ps
  | AddJust h ps => forallb (spresent fs) ps
                    && existsb (fun f => N.eqb (s_h f) h && s_present f && negb (s_explicit f)) fs
  | Retract _ => true
  end.

(** The monitor: after every op the set of present facts is the specification's.
    Histories that leave the quantifier are accepted from that point on. *)
Fixpoint ok_from (fs : list sfact) (nxt : N) (ops : list op) (os : list obs) : bool :=
  match ops, os with
  | [], [] => true
  | o :: r, ob :: orr =>
      if op_wf fs o then
        let '(fs', nxt') := sstep fs nxt o in
        (if list_eq_dec Bool.bool_dec (map h_live (o_handles ob)) (map s_present fs') then true else false)
        && ok_from fs' nxt' r orr
      else true
  | _, _ => false
  end.

Definition ok (ops : list op) (os : list obs) : bool := ok_from [] 1 ops os.

(** ------------------------------------------------------------------ *)
(** wire format.  case = (op ...) ; op = (0) | (1 (p ...)) | (2 h (p ...)) | (3 h)
    obs = ((res ((live logical explicit valid) ...)) ...) *)
Definition dec_op (s : sx) : option op :=
  match s with
  | L [A 0] => Some InsExplicit
  | L [A 1; ps] => match getNs ps with Some ps => Some (InsLogical ps) | None => None end
  | L [A 2; h; ps] => match getN h, getNs ps with Some h, Some ps => Some (AddJust h ps) | _, _ => None end
  | L [A 3; h] => match getN h with Some h => Some (Retract h) | None => None end
  | _ => None
  end.

Definition dec_case (s : sx) : option (list op) :=
  match s with L l => mapO dec_op l | A _ => None end.

Definition enc_obs (o : obs) : sx :=
  L [sxN (o_res o);
     L (map (fun h => L [sxB (h_live h); sxB (h_logical h); sxB (h_explicit h); sxB (h_valid h)]) (o_handles o))].

Definition dec_hobs (s : sx) : option hobs :=
  match s with
  | L [a; b; c; d] => match getB a, getB b, getB c, getB d with
                      | Some a, Some b, Some c, Some d =>
                          Some {| h_live := a; h_logical := b; h_explicit := c; h_valid := d |}
                      | _, _, _, _ => None end
  | _ => None end.

Definition dec_obs (s : sx) : option obs :=
  match s with
  | L [r; L hs] => match getN r, mapO dec_hobs hs with
                   | Some r, Some hs => Some {| o_res := r; o_handles := hs |}
                   | _, _ => None end
  | _ => None end.

Definition run_sx (c : sx) : sx :=
  match dec_case c with Some ops => L (map enc_obs (run ops)) | None => sx_bad end.

Definition ok_sx (c o : sx) : bool :=
  match dec_case c, o with
  | Some ops, L os => match mapO dec_obs os with Some os => ok ops os | None => false end
  | _, _ => false
  end.
