(** C16 — models of src/rete/alpha_memory_index.rs (after the NaN / signed-zero repair),
    src/rete/optimization.rs::BetaMemoryIndex, src/rete/memoization.rs::MemoizedEvaluator (after the
    typed-key repair) and src/backward/conclusion_index.rs::ConclusionIndex.
    Definitions only.

    Rust items modelled:
      alpha_memory_index.rs::{index_key, AlphaMemoryIndex::{insert, filter, create_index, drop_index}}
      optimization.rs::BetaMemoryIndex::{add, remove, lookup}
      memoization.rs::{compute_facts_hash, compute_node_hash, MemoizedEvaluator::evaluate}
      conclusion_index.rs::ConclusionIndex::{add_rule, remove_rule, find_candidates,
                                             extract_field_from_goal, extract_conclusions (Set actions)}
    Keys are Debug renderings in the code; the model uses the fact that Debug is injective on
    FactValue except that every NaN prints "NaN": [key_eqb] is structural equality with NaN = NaN
    and floats otherwise compared by bit pattern.  DefaultHasher is treated as collision-free (the
    model compares the hashed sequences themselves). *)
From RRE Require Import Base.Sx Base.Float.
From Coq Require Import Floats.SpecFloat.
Open Scope Z_scope.

Inductive value :=
| VStr (s : list Z) | VInt (z : Z) | VFloat (bits : Z) | VBool (b : bool) | VArr (l : list value) | VNull.

Fixpoint list_eqb {T} (f : T -> T -> bool) (a b : list T) : bool :=
  match a, b with
  | [], [] => true
  | x :: a', y :: b' => f x y && list_eqb f a' b'
  | _, _ => false
  end.

Definition fl_is_nan (bits : Z) : bool := is_nan (f_of_bits bits).
Definition fl_is_zero (bits : Z) : bool := match f_of_bits bits with S754_zero _ => true | _ => false end.

(** derived PartialEq of FactValue: IEEE equality on floats *)
Fixpoint val_eqb (a b : value) {struct a} : bool :=
  match a, b with
  | VStr x, VStr y => list_eqb Z.eqb x y
  | VInt x, VInt y => Z.eqb x y
  | VFloat x, VFloat y => feqb (f_of_bits x) (f_of_bits y)
  | VBool x, VBool y => Bool.eqb x y
  | VArr x, VArr y =>
      (fix go (x y : list value) : bool :=
         match x, y with
         | [], [] => true
         | u :: x', v :: y' => val_eqb u v && go x' y'
         | _, _ => false end) x y
  | VNull, VNull => true
  | _, _ => false
  end.

(** equality of Debug renderings *)
Fixpoint dbg_eqb (a b : value) {struct a} : bool :=
  match a, b with
  | VStr x, VStr y => list_eqb Z.eqb x y
  | VInt x, VInt y => Z.eqb x y
  | VFloat x, VFloat y => (fl_is_nan x && fl_is_nan y) || (negb (fl_is_nan x) && negb (fl_is_nan y) && Z.eqb x y)
  | VBool x, VBool y => Bool.eqb x y
  | VArr x, VArr y =>
      (fix go (x y : list value) : bool :=
         match x, y with
         | [], [] => true
         | u :: x', v :: y' => dbg_eqb u v && go x' y'
         | _, _ => false end) x y
  | VNull, VNull => true
  | _, _ => false
  end.

(** index_key: -0.0 keyed like 0.0, recursively *)
Fixpoint norm (v : value) : value :=
  match v with
  | VFloat b => if fl_is_zero b then VFloat 0 else v
  | VArr l => VArr (map norm l)
  | _ => v
  end.
Definition key_eqb (a b : value) : bool := dbg_eqb (norm a) (norm b).

Definition fact := list (Z * value).     (* field id -> value; plus an "id" the harness reads back *)
Fixpoint fget (f : fact) (k : Z) : option value :=
  match f with [] => None | (k', v) :: r => if Z.eqb k' k then Some v else fget r k end.

(** ---------------- alpha memory ---------------- *)
Record alpha := { a_facts : list fact; a_indexes : list (Z * list (value * list nat)) }.
Definition alpha_init : alpha := {| a_facts := []; a_indexes := [] |}.

Fixpoint idx_push (ix : list (value * list nat)) (k : value) (i : nat) : list (value * list nat) :=
  match ix with
  | [] => [(k, [i])]
  | (k', l) :: r => if key_eqb k' k then (k', l ++ [i]) :: r else (k', l) :: idx_push r k i
  end.
Fixpoint idx_find (ix : list (value * list nat)) (k : value) : option (list nat) :=
  match ix with [] => None | (k', l) :: r => if key_eqb k' k then Some l else idx_find r k end.

Definition a_insert (a : alpha) (f : fact) : alpha :=
  let i := length (a_facts a) in
  {| a_facts := a_facts a ++ [f];
     a_indexes := map (fun e => (fst e, match fget f (fst e) with Some v => idx_push (snd e) v i | None => snd e end)) (a_indexes a) |}.

Definition build_index (fs : list fact) (fld : Z) : list (value * list nat) :=
  snd (fold_left (fun acc f => let '(i, ix) := acc in
                               (S i, match fget f fld with Some v => idx_push ix v i | None => ix end)) fs (O, [])).

Definition a_create (a : alpha) (fld : Z) : alpha :=
  if existsb (fun e => Z.eqb (fst e) fld) (a_indexes a) then a
  else {| a_facts := a_facts a; a_indexes := a_indexes a ++ [(fld, build_index (a_facts a) fld)] |}.
Definition a_drop (a : alpha) (fld : Z) : alpha :=
  {| a_facts := a_facts a; a_indexes := filter (fun e => negb (Z.eqb (fst e) fld)) (a_indexes a) |}.

Definition matches (fld : Z) (v : value) (f : fact) : bool :=
  match fget f fld with Some x => val_eqb x v | None => false end.

Definition scan (fs : list fact) (fld : Z) (v : value) : list fact := filter (matches fld v) fs.

Definition a_filter (a : alpha) (fld : Z) (v : value) : list fact :=
  match find (fun e => Z.eqb (fst e) fld) (a_indexes a) with
  | Some e =>
      match idx_find (snd e) v with
      | Some l => filter (matches fld v) (flat_map (fun i => match nth_error (a_facts a) i with Some f => [f] | None => [] end) l)
      | None => []
      end
  | None => scan (a_facts a) fld v
  end.

Inductive aop := AInsert (f : fact) | ACreate (fld : Z) | ADrop (fld : Z) | AFilter (fld : Z) (v : value).

(** ---------------- beta index ---------------- *)
Definition beta := list (value * list Z).     (* rendered key -> fact indices in add order *)
Fixpoint b_push (b : beta) (k : value) (i : Z) : beta :=
  match b with [] => [(k, [i])] | (k', l) :: r => if dbg_eqb k' k then (k', l ++ [i]) :: r else (k', l) :: b_push r k i end.
Fixpoint b_remove (b : beta) (k : value) (i : Z) : beta :=
  match b with
  | [] => []
  | (k', l) :: r => if dbg_eqb k' k
                    then match filter (fun x => negb (Z.eqb x i)) l with [] => r | l' => (k', l') :: r end
                    else (k', l) :: b_remove r k i
  end.
Fixpoint b_lookup (b : beta) (k : value) : list Z :=
  match b with [] => [] | (k', l) :: r => if dbg_eqb k' k then l else b_lookup r k end.
Inductive bop := BAdd (v : option value) (i : Z) | BRemove (v : option value) (i : Z) | BLookup (v : value).

(** ---------------- memoised evaluation ---------------- *)
(** a node is (field, constant); direct evaluation = "the fact's field equals the constant";
    facts hash = sorted (key, Debug value) sequence, node hash = Debug of the node *)
Definition facts_key_eqb (a b : fact) : bool :=
  list_eqb (fun x y => Z.eqb (fst x) (fst y) && dbg_eqb (snd x) (snd y)) a b.   (* facts arrive sorted by field id *)
Definition node_key_eqb (a b : Z * value) : bool := Z.eqb (fst a) (fst b) && dbg_eqb (snd a) (snd b).
Definition direct (n : Z * value) (f : fact) : bool := matches (fst n) (snd n) f.
Definition memo := list ((Z * value) * fact * bool).
Definition memo_eval (m : memo) (n : Z * value) (f : fact) : memo * bool :=
  match find (fun e => node_key_eqb (fst (fst e)) n && facts_key_eqb (snd (fst e)) f) m with
  | Some e => (m, snd e)
  | None => let r := direct n f in (m ++ [(n, f, r)], r)
  end.

(** ---------------- conclusion index ---------------- *)
Definition str := list Z.
Definition str_eqb := list_eqb Z.eqb.
Fixpoint starts_with (s p : str) : bool :=
  match p, s with [], _ => true | x :: p', y :: s' => Z.eqb x y && starts_with s' p' | _ :: _, [] => false end.
Fixpoint find_sub (fuel : nat) (s p : str) (pos : nat) : option nat :=
  match fuel with
  | O => None
  | S f => if starts_with s p then Some pos else match s with [] => None | _ :: r => find_sub f r p (S pos) end
  end.
Definition find_str (s p : str) : option nat := find_sub (S (length s)) s p O.
Definition is_ws (c : Z) : bool := (c =? 32) || (c =? 9) || (c =? 10) || (c =? 13).
Fixpoint trim_l (s : str) : str := match s with c :: r => if is_ws c then trim_l r else s | [] => [] end.
Definition trim (s : str) : str := rev (trim_l (rev (trim_l s))).

Definition goal_ops : list str :=
  [[61;61]; [33;61]; [62;61]; [60;61]; [62]; [60];
   [32;99;111;110;116;97;105;110;115;32]; [32;109;97;116;99;104;101;115;32]].

(** after the repair "fix: the conclusion index takes the field before the FIRST operator of the goal": the smallest position of
    any operator of the list (before: the first operator of the LIST that occurs anywhere, e.g. the == inside a string literal) *)
Fixpoint first_op_pos (ops : list str) (g : str) (best : option nat) : option nat :=
  match ops with
  | [] => best
  | op :: r => first_op_pos r g (match find_str g op, best with
                                 | Some p, Some b => if Nat.ltb p b then Some p else best
                                 | Some p, None => Some p
                                 | None, _ => best end)
  end.
Definition extract_field (g : str) : str :=
  match first_op_pos goal_ops g None with Some p => trim (firstn p g) | None => trim g end.

Fixpoint rfind_dot (s : str) (pos : nat) (last : option nat) : option nat :=
  match s with [] => last | c :: r => rfind_dot r (S pos) (if c =? 46 then Some pos else last) end.

Record cindex := { f2r : list (str * list str); r2c : list (str * list str) }.
Definition cinit : cindex := {| f2r := []; r2c := [] |}.
Definition mem_str (x : str) (l : list str) : bool := existsb (str_eqb x) l.
Definition add_str (x : str) (l : list str) : list str := if mem_str x l then l else l ++ [x].
Fixpoint f2r_add (m : list (str * list str)) (fld rule : str) : list (str * list str) :=
  match m with [] => [(fld, [rule])] | (k, l) :: r => if str_eqb k fld then (k, add_str rule l) :: r else (k, l) :: f2r_add r fld rule end.
Definition dedup (l : list str) : list str := fold_left (fun a x => add_str x a) l [].

Definition c_add (c : cindex) (name : str) (enabled : bool) (sets : list str) : cindex :=
  if negb enabled then c
  else match dedup sets with
       | [] => c
       | concl => {| f2r := fold_left (fun m f => f2r_add m f name) concl (f2r c);
                     r2c := (name, concl) :: filter (fun e => negb (str_eqb (fst e) name)) (r2c c) |}
       end.
Definition c_remove (c : cindex) (name : str) : cindex :=
  match find (fun e => str_eqb (fst e) name) (r2c c) with
  | None => c
  | Some e =>
      {| f2r := filter (fun kv => match snd kv with [] => false | _ => true end)
                  (map (fun kv => if mem_str (fst kv) (snd e)
                                  then (fst kv, filter (fun r => negb (str_eqb r name)) (snd kv)) else kv) (f2r c));
         r2c := filter (fun e' => negb (str_eqb (fst e') name)) (r2c c) |}
  end.
Definition c_find (c : cindex) (goal : str) : list str :=
  let fld := extract_field goal in
  let direct := match find (fun kv => str_eqb (fst kv) fld) (f2r c) with Some kv => snd kv | None => [] end in
  let parent := match rfind_dot fld O None with
                | Some p => flat_map (fun kv => if starts_with (fst kv) (firstn p fld) then snd kv else []) (f2r c)
                | None => [] end in
  dedup (direct ++ parent).
Inductive cop := CAdd (name : str) (enabled : bool) (sets : list str) | CRemove (name : str) | CFind (goal : str).

(** ------------------------------------------------------------------ *)
(** wire format and runners.  value = (0 (c ...)) | (1 z) | (2 bits) | (3 b) | (4 (v ...)) | (5) *)
Fixpoint dec_value (fuel : nat) (s : sx) : option value :=
  match fuel with
  | O => None
  | S f =>
      match s with
      | L [A 0; cs] => option_map VStr (getZs cs)
      | L [A 1; A z] => Some (VInt z)
      | L [A 2; A b] => Some (VFloat b)
      | L [A 3; b] => option_map VBool (getB b)
      | L [A 4; L vs] => option_map VArr (mapO (dec_value f) vs)
      | L [A 5] => Some VNull
      | _ => None
      end
  end.
Definition dv := dec_value 8.
Definition dec_fact (s : sx) : option fact :=
  match s with
  | L kvs => mapO (fun kv => match kv with L [A k; v] => option_map (fun v => (k, v)) (dv v) | _ => None end) kvs
  | _ => None end.
Definition fact_id (f : fact) : Z := match fget f 0 with Some (VInt z) => z | _ => -1 end.
Definition dec_ov (s : sx) : option (option value) :=
  match s with L [] => Some None | L [v] => option_map Some (dv v) | _ => None end.
Definition dec_str (s : sx) : option str := getZs s.

(** alpha: case (0 (op ...)); op = (0 fact) | (1 fld) | (2 fld) | (3 fld v) *)
Definition dec_aop (s : sx) : option aop :=
  match s with
  | L [A 0; f] => option_map AInsert (dec_fact f)
  | L [A 1; A fld] => Some (ACreate fld)
  | L [A 2; A fld] => Some (ADrop fld)
  | L [A 3; A fld; v] => option_map (AFilter fld) (dv v)
  | _ => None end.
Fixpoint run_alpha (a : alpha) (ops : list aop) : list sx :=
  match ops with
  | [] => []
  | AInsert f :: r => L [] :: run_alpha (a_insert a f) r
  | ACreate fld :: r => L [] :: run_alpha (a_create a fld) r
  | ADrop fld :: r => L [] :: run_alpha (a_drop a fld) r
  | AFilter fld v :: r => sxZs (map fact_id (a_filter a fld v)) :: run_alpha a r
  end.
(** specification: with or without index, a filter returns the scan of everything inserted so far *)
Fixpoint spec_alpha (fs : list fact) (ops : list aop) : list sx :=
  match ops with
  | [] => []
  | AInsert f :: r => L [] :: spec_alpha (fs ++ [f]) r
  | ACreate _ :: r | ADrop _ :: r => L [] :: spec_alpha fs r
  | AFilter fld v :: r => sxZs (map fact_id (scan fs fld v)) :: spec_alpha fs r
  end.

(** well-formed inputs of the alpha-memory theorem *)
(** float bit patterns that round-trip through the decoder (every pattern below 2^64 does; NaNs all
    print "NaN") *)
Fixpoint wfv (v : value) : Prop :=
  match v with
  | VFloat b => fl_is_nan b = true \/ bits_of_f (f_of_bits b) = b
  | VArr l => (fix go (l : list value) : Prop := match l with [] => True | x :: r => wfv x /\ go r end) l
  | _ => True
  end.

Definition wf_fact (f : fact) : Prop := forall k x, fget f k = Some x -> wfv x.

Definition aop_wf (o : aop) : Prop :=
  match o with AInsert f => wf_fact f | AFilter _ v => wfv v | _ => True end.


(** beta: case (1 (op ...)); op = (0 ov i) add | (1 ov i) remove | (2 v) lookup *)
Definition dec_bop (s : sx) : option bop :=
  match s with
  | L [A 0; ov; A i] => option_map (fun ov => BAdd ov i) (dec_ov ov)
  | L [A 1; ov; A i] => option_map (fun ov => BRemove ov i) (dec_ov ov)
  | L [A 2; v] => option_map BLookup (dv v)
  | _ => None end.
Fixpoint run_beta (b : beta) (ops : list bop) : list sx :=
  match ops with
  | [] => []
  | BAdd (Some v) i :: r => L [] :: run_beta (b_push b v i) r
  | BRemove (Some v) i :: r => L [] :: run_beta (b_remove b v i) r
  | BAdd None _ :: r | BRemove None _ :: r => L [] :: run_beta b r
  | BLookup v :: r => sxZs (b_lookup b v) :: run_beta b r
  end.
(** specification: the live facts carrying that key, in add order *)
Fixpoint spec_beta (live : list (value * Z)) (ops : list bop) : list sx :=
  match ops with
  | [] => []
  | BAdd (Some v) i :: r => L [] :: spec_beta (live ++ [(v, i)]) r
  | BRemove (Some v) i :: r => L [] :: spec_beta (filter (fun e => negb (dbg_eqb (fst e) v && Z.eqb (snd e) i)) live) r
  | BAdd None _ :: r | BRemove None _ :: r => L [] :: spec_beta live r
  | BLookup v :: r => sxZs (map snd (filter (fun e => dbg_eqb (fst e) v) live)) :: spec_beta live r
  end.

(** memo: case (2 ((fld v fact) ...)) : evaluate node (fld, v) on fact *)
Definition dec_mcall (s : sx) : option ((Z * value) * fact) :=
  match s with
  | L [A fld; v; f] => match dv v, dec_fact f with Some v, Some f => Some ((fld, v), f) | _, _ => None end
  | _ => None end.
Fixpoint run_memo (m : memo) (calls : list ((Z * value) * fact)) : list sx :=
  match calls with
  | [] => []
  | (n, f) :: r => let '(m', b) := memo_eval m n f in sxB b :: run_memo m' r
  end.
Definition spec_memo (calls : list ((Z * value) * fact)) : list sx := map (fun c => sxB (direct (fst c) (snd c))) calls.

(** conclusion index: case (3 (op ...)); op = (0 name enabled (field ...)) | (1 name) | (2 field goal) *)
Inductive cop2 := C2 (o : cop) | CFind2 (fld goal : str).
Definition dec_cop (s : sx) : option cop2 :=
  match s with
  | L [A 0; n; b; L fs] => match dec_str n, getB b, mapO dec_str fs with
                           | Some n, Some b, Some fs => Some (C2 (CAdd n b fs)) | _, _, _ => None end
  | L [A 1; n] => option_map (fun n => C2 (CRemove n)) (dec_str n)
  | L [A 2; f; g] => match dec_str f, dec_str g with Some f, Some g => Some (CFind2 f g) | _, _ => None end
  | _ => None end.
Definition enc_str (s : str) : sx := L (map A s).
Fixpoint str_leb (a b : str) : bool :=
  match a, b with [], _ => true | _ :: _, [] => false
  | x :: a', y :: b' => (x <? y) || ((x =? y) && str_leb a' b') end.
Fixpoint ins_str (x : str) (l : list str) : list str :=
  match l with [] => [x] | y :: r => if str_leb x y then x :: l else y :: ins_str x r end.
Definition sort_strs (l : list str) : list str := fold_left (fun a x => ins_str x a) l [].
Fixpoint run_cidx (c : cindex) (ops : list cop2) : list sx :=
  match ops with
  | [] => []
  | C2 (CAdd n b fs) :: r => L [] :: run_cidx (c_add c n b fs) r
  | C2 (CRemove n) :: r => L [] :: run_cidx (c_remove c n) r
  | C2 (CFind g) :: r | CFind2 _ g :: r => L (map enc_str (sort_strs (c_find c g))) :: run_cidx c r
  end.
(** specification: every enabled rule currently in the index that assigns the goal's field is proposed *)
Fixpoint ok_cidx (present : list (str * list str)) (ops : list cop2) (os : list sx) : bool :=
  match ops, os with
  | [], [] => true
  | C2 (CAdd n b fs) :: r, _ :: orr =>
      ok_cidx (if b then match dedup fs with [] => present
                         | _ => (n, fs) :: filter (fun e => negb (str_eqb (fst e) n)) present end else present) r orr
  | C2 (CRemove n) :: r, _ :: orr => ok_cidx (filter (fun e => negb (str_eqb (fst e) n)) present) r orr
  | CFind2 fld g :: r, L names :: orr =>
      match mapO dec_str names with
      | Some names => (* the goal text is the field followed by an operator and a literal: only then is [fld] the goal's field *)
                      (if starts_with g fld && match fld with [] => false | _ => true end
                       then forallb (fun e => if mem_str fld (snd e) then mem_str (fst e) names else true) present else true)
                      && ok_cidx present r orr
      | None => false end
  | C2 (CFind _) :: r, _ :: orr => ok_cidx present r orr
  | _, _ => false
  end.

Definition run_sx (c : sx) : sx :=
  match c with
  | L [A 0; L ops] => match mapO dec_aop ops with Some ops => L (run_alpha alpha_init ops) | None => sx_bad end
  | L [A 1; L ops] => match mapO dec_bop ops with Some ops => L (run_beta [] ops) | None => sx_bad end
  | L [A 2; L cs] => match mapO dec_mcall cs with Some cs => L (run_memo [] cs) | None => sx_bad end
  | L [A 3; L ops] => match mapO dec_cop ops with Some ops => L (run_cidx cinit ops) | None => sx_bad end
  | _ => sx_bad end.

Definition ok_sx (c o : sx) : bool :=
  match c, o with
  | L [A 0; L ops], L os => match mapO dec_aop ops with Some ops => sx_eqb (L (spec_alpha [] ops)) o | None => false end
  | L [A 1; L ops], L os => match mapO dec_bop ops with Some ops => sx_eqb (L (spec_beta [] ops)) o | None => false end
  | L [A 2; L cs], L os => match mapO dec_mcall cs with Some cs => sx_eqb (L (spec_memo cs)) o | None => false end
  | L [A 3; L ops], L os => match mapO dec_cop ops with Some ops => ok_cidx [] ops os | None => false end
  | _, _ => false end.
