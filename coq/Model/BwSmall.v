(** C05 — three small hand-written parsers of the backward-chaining front end, on strings as lists of Unicode scalar
    values with UTF-8 byte offsets (Model/ExprShape.v: [slice] is None exactly where a Rust `&str` slice panics, and a
    `Vec<char>` index is a partial [nth_error]).  Definitions only.

    Rust items modelled:
      backward/aggregation.rs::parse_aggregate_query, parse_function_call
      backward/nested.rs::NestedQueryParser::{parse, parse_conditions, has_nested}
      backward/disjunction.rs::{split_top_level_or, DisjunctionParser::parse, DisjunctionParser::contains_or}
    Library calls are modelled by their documented meaning: str::find / rfind give the BYTE offset of the first / last match,
    splitn(2, p) splits at the first match, split(p) at every non-overlapping match from the left, trim removes
    char::is_whitespace at both ends, to_lowercase on the function name is compared ASCII-case-insensitively (no other
    character lowercases to the letters of count/sum/avg/min/max/first/last - validated by the correspondence runs).
    The i32 depth counters of the code are unbounded here (2^31 parentheses are out of reach of any input the harness or a
    user can hold in memory; recorded in the trusted base). *)
From RRE Require Import Base.Sx Model.ExprShape.
Open Scope Z_scope.

Notation ws := ws_unicode.
Definition trimu (s : str) : str := trim ws s.

(** byte offset of the first occurrence of [p] in [s] (str::find) *)
Fixpoint find_from (p s : str) (off : Z) : option Z :=
  if starts_with s p then Some off
  else match s with [] => None | c :: r => find_from p r (off + utf8_len c) end.
Definition find_sub (p s : str) : option Z := find_from p s 0.

(** byte offset of the last occurrence of the one-byte character [c] (str::rfind(char)) *)
Fixpoint rfind_from (c : Z) (s : str) (off : Z) (last : option Z) : option Z :=
  match s with [] => last | x :: r => rfind_from c r (off + utf8_len x) (if x =? c then Some off else last) end.
Definition rfind_char (c : Z) (s : str) : option Z := rfind_from c s 0 None.

(** splitn(2, p): None when p does not occur *)
Fixpoint split_first (p s : str) (acc : str) : option (str * str) :=
  if starts_with s p then Some (rev acc, skipn (length p) s)
  else match s with [] => None | c :: r => split_first p r (c :: acc) end.

(** split(p): every non-overlapping occurrence, scanning from the left (fuel = length of the text) *)
Fixpoint split_all (fuel : nat) (p s : str) : list str :=
  match fuel with
  | O => [s]
  | S f => match split_first p s [] with
           | Some (a, b) => a :: split_all f p b
           | None => [s]
           end
  end.

Definition s_where : str := [32; 87; 72; 69; 82; 69; 32].      (* " WHERE " *)
Definition s_and : str := [32; 65; 78; 68; 32].                  (* " AND " *)
Definition s_or : str := [32; 79; 82; 32].                       (* " OR " *)

Definition lower_ascii (c : Z) : Z := if (65 <=? c) && (c <=? 90) then c + 32 else c.
Fixpoint str_eqb (a b : str) : bool :=
  match a, b with [], [] => true | x :: a', y :: b' => (x =? y) && str_eqb a' b' | _, _ => false end.
Definition is_name (n : str) (s : str) : bool := str_eqb (map lower_ascii s) n.

(** ---------- aggregation.rs ---------- *)
Inductive agg_res :=
| AggPanic
| AggErr (code : Z)        (* 1 format, 2 no '(', 3 no ')', 4 ')' before '(', 5 variable required, 6 unknown function *)
| AggOk (kind : Z) (var pattern : str) (filter : option str).

(** parse_function_call: the two slices are taken at the byte offsets returned by find / rfind *)
Definition parse_function_call (s0 : str) : agg_res + (str * str) :=
  let s := trimu s0 in
  match find_sub [40] s with
  | None => inl (AggErr 2)
  | Some open =>
      match rfind_char 41 s with
      | None => inl (AggErr 3)
      | Some close =>
          if close <=? open then inl (AggErr 4)
          else match slice s 0 open, slice s (open + 1) close with
               | Some f, Some v =>
                   let v := trimu v in
                   inr (trimu f, match v with 63 :: v' => v' | _ => v end)
               | _, _ => inl AggPanic
               end
      end
  end.

Definition names : list (str * Z * bool) :=   (* lower-case name, kind code, variable required *)
  [([99; 111; 117; 110; 116], 0, false); ([115; 117; 109], 1, true); ([97; 118; 103], 2, true); ([109; 105; 110], 3, true);
   ([109; 97; 120], 4, true); ([102; 105; 114; 115; 116], 5, false); ([108; 97; 115; 116], 6, false)].

Definition parse_aggregate (q0 : str) : agg_res :=
  let q := trimu q0 in
  match split_first s_where q [] with
  | None => AggErr 1
  | Some (fp, pp) =>
      let pp := trimu pp in
      match parse_function_call (trimu fp) with
      | inl e => e
      | inr (fname, var) =>
          match find (fun e => is_name (fst (fst e)) fname) names with
          | None => AggErr 6
          | Some (_, kind, needs) =>
              if needs && match var with [] => true | _ => false end then AggErr 5
              else match split_first s_and pp [] with
                   | Some (a, b) => AggOk kind (if needs then var else []) (trimu a) (Some (trimu b))
                   | None => AggOk kind (if needs then var else []) pp None
                   end
          end
      end
  end.

(** ---------- nested.rs ---------- *)
Inductive goals_res := GPanic | GGoals (l : list str).

Definition parse_conditions (c : str) : list str :=
  flat_map (fun part => let t := trimu part in
                        match find_sub s_where t with
                        | Some _ => []
                        | None => match t with [] => [] | 40 :: _ => [] | _ => [t] end
                        end)
           (split_all (length c) s_and c).

Definition nested_parse (q : str) : goals_res :=
  match find_sub s_where q with
  | None => GGoals []
  | Some i => match slice q (i + 7) (blen q) with
              | Some rest => GGoals (parse_conditions (trimu rest))
              | None => GPanic
              end
  end.

(** has_nested: index-based loop over a Vec<char>; the five characters at i..i+5 are read only under the guard i + 5 < len *)
Definition s_WHERE : str := [87; 72; 69; 82; 69].
Fixpoint has_nested_from (fuel : nat) (chars : str) (i depth : Z) (inp : bool) : option bool :=
  match fuel with
  | O => Some false
  | S f =>
      if Z.of_nat (length chars) <=? i then Some false
      else match nth_error chars (Z.to_nat i) with
           | None => None                                         (* index out of bounds: panic *)
           | Some c =>
               if c =? 40 then has_nested_from f chars (i + 1) (depth + 1) true
               else if c =? 41 then has_nested_from f chars (i + 1) (depth - 1) (if depth - 1 =? 0 then false else inp)
               else if (c =? 87) && inp && (0 <? depth) && (i + 5 <? Z.of_nat (length chars)) then
                      (* chars[i..i + 5] *)
                      if Z.of_nat (length chars) <? i + 5 then None
                      else if str_eqb (firstn 5 (skipn (Z.to_nat i) chars)) s_WHERE then Some true
                           else has_nested_from f chars (i + 1) depth inp
                    else has_nested_from f chars (i + 1) depth inp
           end
  end.
Definition has_nested (q : str) : option bool := has_nested_from (S (length q)) q 0 0 false.

(** ---------- disjunction.rs ---------- *)
(** split_top_level_or: index-based loop over a Vec<char>; [cur] is the current part (reversed) *)
Definition flush_part (cur : str) (parts : list str) : list str :=
  match trimu (rev cur) with [] => parts | t => parts ++ [t] end.
Fixpoint split_or_from (fuel : nat) (chars : str) (i depth : Z) (instr : bool) (cur : str) (parts : list str) : option (list str) :=
  match fuel with
  | O => None                                                      (* out of fuel: reported as a failure *)
  | S f =>
      if Z.of_nat (length chars) <=? i then Some (flush_part cur parts)
      else match nth_error chars (Z.to_nat i) with
           | None => None
           | Some c =>
               if c =? 34 then split_or_from f chars (i + 1) depth (negb instr) (c :: cur) parts
               else if (c =? 40) && negb instr then split_or_from f chars (i + 1) (depth + 1) instr (c :: cur) parts
               else if (c =? 41) && negb instr then split_or_from f chars (i + 1) (depth - 1) instr (c :: cur) parts
               else if (c =? 32) && negb instr && (depth =? 0) then
                      if (i + 4 <=? Z.of_nat (length chars)) && str_eqb (firstn 4 (skipn (Z.to_nat i) chars)) s_or
                      then split_or_from f chars (i + 4) depth instr [] (flush_part cur parts)
                      else split_or_from f chars (i + 1) depth instr (c :: cur) parts
                    else split_or_from f chars (i + 1) depth instr (c :: cur) parts
           end
  end.
Definition split_top_level_or (s : str) : option (list str) := split_or_from (S (length s)) s 0 0 false [] [].

Inductive disj_res := DPanic | DNone | DBranches (l : list str).

Definition disj_parse (p0 : str) : disj_res :=
  let p := trimu p0 in
  if enclosed p 40 41 then
    match slice p 1 (blen p - 1) with
    | None => DPanic
    | Some inner =>
        match find_sub s_or inner with
        | None => DNone
        | Some _ => match split_top_level_or inner with
                    | None => DPanic
                    | Some parts => if (length parts <? 2)%nat then DNone else DBranches (map trimu parts)
                    end
        end
    end
  else DNone.

Definition contains_or (p : str) : option bool :=
  match split_top_level_or p with Some parts => Some (1 <? length parts)%nat | None => None end.

(** ---------- wire ----------
    case = (entry text) with entry 10 aggregate, 11 disjunction, 12 nested parse, 13 has_nested (the entry numbers of the C05 harness)
    observation = (class (detail)?) with class 0 Ok / Some, 1 Err / None, 2 panic:
      aggregate   (0 ((kind var pattern (filter)?)))  | (1 ())
      disjunction (0 (((branch ...) contains_or)))    | (1 ((contains_or)))
      nested      (0 ((goal ...)))      has_nested (0 (bool)) *)
Definition enc_s (s : str) : sx := L (map A s).
Definition run_agg (t : str) : sx :=
  match parse_aggregate t with
  | AggPanic => L [A 2; L []]
  | AggErr _ => L [A 1; L []]
  | AggOk k v p f => L [A 0; L [L [A k; enc_s v; enc_s p; match f with Some f => L [enc_s f] | None => L [] end]]]
  end.
Definition run_disj (t : str) : sx :=
  match disj_parse t, contains_or t with
  | DPanic, _ | _, None => L [A 2; L []]
  | DNone, Some b => L [A 1; L [L [sxB b]]]
  | DBranches l, Some b => L [A 0; L [L [L (map enc_s l); sxB b]]]
  end.
Definition run_nested (t : str) : sx :=
  match nested_parse t with GGoals l => L [A 0; L [L (map enc_s l)]] | GPanic => L [A 2; L []] end.
Definition run_has_nested (t : str) : sx :=
  match has_nested t with Some b => L [A 0; L [sxB b]] | None => L [A 2; L []] end.
