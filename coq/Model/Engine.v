(** C02 / C03 — model of the forward-chaining loop of src/engine/engine.rs
    (RustRuleEngine::execute_at_time), of src/engine/agenda.rs (AgendaManager,
    ActivationGroupManager), of the agenda queue of src/engine/workflow.rs and of the rule order
    kept by src/engine/knowledge_base.rs, after the repair "an ActivateAgendaGroup action activates
    its group once" (b4b5b52).  Definitions only.

    The loop is parametric in the condition language and the action semantics:
      eval : cond -> store -> bool            (evaluate_conditions; total on the typed core)
      act  : action -> store -> store * list effect
    so the order / attribute / termination theorems hold for every such language; Model/EngineConc.v
    instantiates them for the correspondence runs.

    Rust items modelled:
      engine.rs::RustRuleEngine::{execute_at_time, sync_workflow_agenda_activations, set_agenda_focus,
          pop_agenda_focus, clear_agenda_focus, reset_no_loop_tracking, execute_action (ActivateAgendaGroup)}
      agenda.rs::AgendaManager::{set_focus, should_evaluate_rule, can_fire_rule, mark_rule_fired, pop_focus, clear_focus}
      agenda.rs::ActivationGroupManager::{can_fire, mark_fired, reset_cycle}
      workflow.rs::WorkflowEngine::{activate_agenda_group, get_next_pending_agenda_activation}
      rule.rs::Rule::is_active_at ; knowledge_base.rs::{add_rule (order), get_rules_by_salience, set_rule_enabled}
    The wall-clock timeout is disabled (config.timeout = None), as in the properties' quantifier. *)
From RRE Require Import Base.Sx.
Open Scope Z_scope.

Section Engine.
Variables (cond action store : Type).
Inductive effect := EFocus (g : Z).            (* ActivateAgendaGroup *)
Variable eval : cond -> store -> bool.
Variable act : action -> store -> store * list effect.

Record rule := {
  r_name : Z; r_sal : Z; r_enabled : bool; r_noloop : bool; r_lock : bool;
  r_agenda : option Z;            (* agenda-group; None = MAIN (group 0) *)
  r_actgroup : option Z;
  r_from : option Z; r_until : option Z;    (* date-effective / date-expires, as timestamps *)
  r_cond : cond; r_actions : list action
}.

Fixpoint memZ (x : Z) (l : list Z) : bool := match l with [] => false | y :: r => Z.eqb x y || memZ x r end.
Definition addZ (x : Z) (l : list Z) : list Z := if memZ x l then l else l ++ [x].
Definition main : Z := 0.
Definition group_of (r : rule) : Z := match r_agenda r with Some g => g | None => main end.

Record agenda := {
  active : Z; fstack : list Z;                (* focus_stack, bottom first *)
  activated : list Z;
  fired_per : list (Z * list Z)               (* fired_rules_per_activation *)
}.
Definition agenda_init : agenda := {| active := main; fstack := [main]; activated := []; fired_per := [] |}.

Definition fp_get (m : list (Z * list Z)) (g : Z) : option (list Z) :=
  match find (fun e => fst e =? g) m with Some e => Some (snd e) | None => None end.
Definition fp_set (m : list (Z * list Z)) (g : Z) (l : list Z) : list (Z * list Z) :=
  (g, l) :: filter (fun e => negb (fst e =? g)) m.

Definition set_focus (a : agenda) (g : Z) : agenda :=
  {| active := g; fstack := filter (fun x => negb (x =? g)) (fstack a) ++ [g];
     activated := addZ g (activated a); fired_per := fp_set (fired_per a) g [] |}.

Definition pop_focus (a : agenda) : agenda :=
  match rev (fstack a) with
  | top :: ((prev :: _) as rest) => {| active := prev; fstack := rev rest; activated := activated a; fired_per := fired_per a |}
  | _ => a
  end.
Definition clear_focus (a : agenda) : agenda :=
  {| active := main; fstack := [main]; activated := activated a; fired_per := fired_per a |}.

Definition should_evaluate (a : agenda) (r : rule) : bool := group_of r =? active a.
Definition can_fire_lock (a : agenda) (r : rule) : bool :=
  if negb (r_lock r) then true
  else if negb (memZ (group_of r) (activated a)) then true
  else match fp_get (fired_per a) (group_of r) with Some l => negb (memZ (r_name r) l) | None => true end.
Definition mark_lock (a : agenda) (r : rule) : agenda :=
  if r_lock r then
    {| active := active a; fstack := fstack a; activated := addZ (group_of r) (activated a);
       fired_per := fp_set (fired_per a) (group_of r)
                      (addZ (r_name r) (match fp_get (fired_per a) (group_of r) with Some l => l | None => [] end)) |}
  else a.

Definition active_at (r : rule) (t : Z) : bool :=
  (match r_from r with Some f => negb (t <? f) | None => true end) &&
  (match r_until r with Some u => t <? u | None => true end).

Record engine := {
  rules : list rule;              (* knowledge base order: salience descending, insertion order among equals *)
  fired_global : list Z;          (* no-loop tracking *)
  ag : agenda;
  act_fired : list Z;             (* activation groups fired in the current pass *)
  queue : list Z                  (* workflow agenda_activation_queue *)
}.

(** KnowledgeBase::add_rule keeps the vector sorted by a stable sort on Reverse(salience) *)
Fixpoint insert_stable (x : rule) (l : list rule) : list rule :=
  match l with [] => [x] | y :: r => if r_sal y <? r_sal x then x :: l else y :: insert_stable x r end.
Definition add_rule (e : engine) (r : rule) : engine :=
  if existsb (fun y => r_name y =? r_name r) (rules e) then e
  else {| rules := insert_stable r (rules e); fired_global := fired_global e; ag := ag e; act_fired := act_fired e; queue := queue e |}.

Definition engine_init : engine := {| rules := []; fired_global := []; ag := agenda_init; act_fired := []; queue := [] |}.

Definition with_ag (e : engine) (a : agenda) : engine :=
  {| rules := rules e; fired_global := fired_global e; ag := a; act_fired := act_fired e; queue := queue e |}.

(** sync_workflow_agenda_activations: drain the queue into set_focus *)
Definition sync (e : engine) : engine :=
  {| rules := rules e; fired_global := fired_global e; ag := fold_left set_focus (queue e) (ag e);
     act_fired := act_fired e; queue := [] |}.

(** all gates, in source order *)
Definition gates (e : engine) (t : Z) (r : rule) : bool :=
  r_enabled r && should_evaluate (ag e) r && active_at r t && can_fire_lock (ag e) r
  && (match r_actgroup r with Some g => negb (memZ g (act_fired e)) | None => true end)
  && negb (r_noloop r && memZ (r_name r) (fired_global e)).

Definition apply_effects (e : engine) (fx : list effect) : engine :=
  fold_left (fun e f => match f with EFocus g => with_ag e (set_focus (ag e) g) end) fx e.

(** run the actions of a fired rule, then the book-keeping *)
Definition fire (e : engine) (s : store) (r : rule) : engine * store :=
  let '(e1, s1) := fold_left (fun es a => let '(e0, s0) := es in
                                          let '(s', fx) := act a s0 in (apply_effects e0 fx, s')) (r_actions r) (e, s) in
  ({| rules := rules e1;
      fired_global := if r_noloop r then addZ (r_name r) (fired_global e1) else fired_global e1;
      ag := mark_lock (ag e1) r;
      act_fired := match r_actgroup r with Some g => addZ g (act_fired e1) | None => act_fired e1 end;
      queue := queue e1 |}, s1).

(** one pass over the rule vector (a snapshot of the order taken at the start of the pass);
    returns the names fired, in order *)
Fixpoint pass (rs : list rule) (t : Z) (e : engine) (s : store) : engine * store * list Z :=
  match rs with
  | [] => (e, s, [])
  | r :: rest =>
      if gates e t r && eval (r_cond r) s then
        let '(e1, s1) := fire e s r in
        let '(e2, s2, tr) := pass rest t e1 s1 in (e2, s2, r_name r :: tr)
      else pass rest t e s
  end.

Definition reset_cycle (e : engine) : engine :=
  {| rules := rules e; fired_global := fired_global e; ag := ag e; act_fired := []; queue := queue e |}.

(** the cycle loop: [n] cycles remain; returns cycle count and the per-pass traces *)
Fixpoint cycles (n : nat) (t : Z) (e : engine) (s : store) (count : Z) : engine * store * Z * list (list Z) :=
  match n with
  | O => (e, s, count, [])
  | S k =>
      let e0 := reset_cycle e in
      let '(e1, s1, tr) := pass (rules e0) t e0 s in
      match tr with
      | [] => (e1, s1, count + 1, [[]])
      | _ => let '(e2, s2, c, trs) := cycles k t (sync e1) s1 (count + 1) in (e2, s2, c, tr :: trs)
      end
  end.

Record result := { res_cycles : Z; res_fired : Z; res_trace : list (list Z) }.

Definition execute (max_cycles : nat) (t : Z) (e : engine) (s : store) : engine * store * result :=
  let '(e1, s1, c, trs) := cycles max_cycles t (sync e) s 0 in
  (e1, s1, {| res_cycles := c; res_fired := Z.of_nat (length (concat trs)); res_trace := trs |}).

End Engine.

Arguments r_name {cond action}. Arguments r_sal {cond action}. Arguments r_enabled {cond action}.
Arguments r_noloop {cond action}. Arguments r_lock {cond action}. Arguments r_agenda {cond action}.
Arguments r_actgroup {cond action}. Arguments r_from {cond action}. Arguments r_until {cond action}.
Arguments r_cond {cond action}. Arguments r_actions {cond action}.
Arguments rules {cond action}. Arguments fired_global {cond action}. Arguments ag {cond action}.
Arguments act_fired {cond action}. Arguments queue {cond action}.
Arguments engine_init {cond action}. Arguments add_rule {cond action}. Arguments with_ag {cond action}.
Arguments sync {cond action}. Arguments gates {cond action}. Arguments group_of {cond action}.
Arguments should_evaluate {cond action}. Arguments can_fire_lock {cond action}. Arguments active_at {cond action}.
Arguments mark_lock {cond action}. Arguments insert_stable {cond action}. Arguments reset_cycle {cond action}.
Arguments pass {cond action store}. Arguments cycles {cond action store}. Arguments execute {cond action store}.
Arguments fire {cond action store}. Arguments apply_effects {cond action}.
